(* Proofs/C12Proofs.v — density, natural density, isotope substitution (rational parts, over Q,
   axiom-free).  The volume formulas (over R) are in Proofs/C12Volume.v. *)
From Coq Require Import ZArith QArith Qabs String List Bool Lia Setoid Permutation.
From PT Require Import Str Dec Py Loaders Formula FormulaAlg FormulaMachine AtomEnv C02Proofs C19Proofs
                       Pyparse TableEnv Mixture PyparseMix Density.
Import ListNotations.
Open Scope Q_scope.

(* ================================================================ 1. natural density *)
Lemma natural_mass_ratio_structural : forall E f,
  natural_mass_ratio E f ==
  fweight (e_natmass E) (FGroup (f_struct f)) / fweight (e_mass E) (FGroup (f_struct f)).
Proof.
  intros E f. unfold natural_mass_ratio, f_atoms, count_atoms. rewrite !dweight_count_frag. reflexivity.
Qed.

(* natural_density / density is the ratio of the structural sums count x natural mass and
   count x mass, for every structure of any nesting *)
Theorem natural_ratio_spec : forall E f d, f_density f = Some d -> ~ d == 0 ->
  exists nd, f_natural_density E f = Some nd /\
    nd / d == fweight (e_natmass E) (FGroup (f_struct f)) / fweight (e_mass E) (FGroup (f_struct f)).
Proof.
  intros E f d Hd Hnz. unfold f_natural_density. rewrite Hd. eexists. split; [reflexivity|].
  rewrite <- natural_mass_ratio_structural. field. exact Hnz.
Qed.

(* the same with the sums taken over the atoms dictionary, whose entries are the count-weighted
   totals of the structure (FormulaAlg.count_atoms_spec) *)
Theorem natural_ratio_atoms : forall E f d, f_density f = Some d -> ~ d == 0 ->
  exists nd, f_natural_density E f = Some nd /\
    nd / d == dweight (e_natmass E) (f_atoms f) / dweight (e_mass E) (f_atoms f)
    /\ forall b, dget0 (f_atoms f) b == cnt_s b (f_struct f).
Proof.
  intros E f d Hd Hnz. unfold f_natural_density. rewrite Hd. eexists. split; [reflexivity|]. split.
  - unfold natural_mass_ratio. field. exact Hnz.
  - intro b. apply count_atoms_spec.
Qed.

(* what the two per-atom masses are in the table environment: the atom's own mass less its
   electrons, and the mass of its natural ELEMENT less the same electrons *)
Theorem env_masses : forall t d a,
  e_mass (env_with (Some t) (Some d)) a = q_of (mass_of t (az a) (aa a)) - inject_Z (aq a) * ME /\
  e_natmass (env_with (Some t) (Some d)) a = q_of (mass_of t (az a) 0) - inject_Z (aq a) * ME.
Proof. intros. split; reflexivity. Qed.

Lemma natmass_natural : forall ot od a, aa a = 0%Z ->
  e_natmass (env_with ot od) a = e_mass (env_with ot od) a.
Proof. intros [t|] [d|] a H; simpl; try reflexivity. rewrite H. reflexivity. Qed.

Lemma dweight_ext_in : forall (w1 w2 : atom -> Q) d,
  (forall a c, In (a, c) d -> w1 a == w2 a) -> dweight w1 d == dweight w2 d.
Proof.
  intros w1 w2 d. induction d as [|[a c] r IH]; intro H.
  - reflexivity.
  - rewrite !dweight_cons. rewrite IH.
    + rewrite (H a c) by (left; reflexivity). reflexivity.
    + intros a' c' Hin. apply (H a' c'). right. exact Hin.
Qed.

(* a formula without isotopes (ions allowed) has natural density = density *)
Theorem natural_formula_ratio_one : forall ot od f,
  (forall a c, In (a, c) (f_atoms f) -> aa a = 0%Z) -> ~ f_mass (env_with ot od) f == 0 ->
  natural_mass_ratio (env_with ot od) f == 1.
Proof.
  intros ot od f H Hm. unfold natural_mass_ratio.
  rewrite (dweight_ext_in (e_natmass (env_with ot od)) (e_mass (env_with ot od))).
  - fold (f_mass (env_with ot od) f). field. exact Hm.
  - intros a c Hin. rewrite (natmass_natural ot od a (H a c Hin)). reflexivity.
Qed.

(* ================================================================ 2. setter / getter *)
Lemma with_density_atoms : forall f d, f_atoms (with_density f d) = f_atoms f.
Proof. reflexivity. Qed.
Lemma ratio_with_density : forall E f d, natural_mass_ratio E (with_density f d) = natural_mass_ratio E f.
Proof. reflexivity. Qed.

(* set natural_density, read natural_density *)
Theorem setter_getter_inverse : forall E f nd, ~ natural_mass_ratio E f == 0 ->
  exists x, f_natural_density E (set_natural_density E nd f) = Some x /\ x == nd.
Proof.
  intros E f nd Hr. unfold f_natural_density, set_natural_density. cbn [with_density f_density].
  eexists. split; [reflexivity|]. rewrite ratio_with_density. field. exact Hr.
Qed.

(* set density, read natural_density, set natural_density to that: density is back *)
Theorem getter_setter_inverse : forall E f d, ~ natural_mass_ratio E f == 0 ->
  exists nd, f_natural_density E (set_density (Some d) f) = Some nd /\
  exists x, f_density (set_natural_density E nd (set_density (Some d) f)) = Some x /\ x == d.
Proof.
  intros E f d Hr. unfold f_natural_density, set_natural_density, set_density. cbn [with_density f_density].
  eexists. split; [reflexivity|]. eexists. split; [reflexivity|].
  rewrite !ratio_with_density. field. exact Hr.
Qed.

(* setting the natural density gives density = natural density / ratio *)
Theorem setter_value : forall E f nd,
  f_density (set_natural_density E nd f) = Some (nd / natural_mass_ratio E f).
Proof. reflexivity. Qed.

(* neither setter touches the structure or the name *)
Theorem setters_keep_structure : forall E f nd d,
  f_struct (set_natural_density E nd f) = f_struct f /\ f_struct (set_density d f) = f_struct f /\
  f_name (set_natural_density E nd f) = f_name f /\ f_name (set_density d f) = f_name f.
Proof. intros. repeat split. Qed.

(* ================================================================ 3. tags, keywords, attributes *)
(* on the parser model: the '@d' / '@di' tag is the density keyword, '@dn' the natural_density
   keyword of the Formula constructor *)
Theorem tag_equals_keyword : forall E st x,
  fobj_of_compound E st (DIso x) = new_formula E st KTuple (Some x) None None /\
  fobj_of_compound E st (DNat x) = new_formula E st KTuple None (Some x) None /\
  fobj_of_compound E st DNone = new_formula E st KTuple None None None.
Proof. intros. repeat split. Qed.

(* the tag text: '@' number, then 'n' selects natural, 'i' or nothing isotopic *)
Theorem tag_parse : forall r c r2, p_number r = POk c r2 ->
  p_density (String "@" r) =
    match skip_ws r2 with
    | String "n" r3 => POk (DNat c) r3
    | String "i" r3 => POk (DIso c) r3
    | _ => POk (DIso c) r2
    end.
Proof. intros r c r2 H. unfold p_density, lit. cbn. rewrite H. reflexivity. Qed.

(* the compound alternative of the grammar builds its Formula from the parsed structure and tag *)
Theorem compound_tag_formula : forall E T s st d r, p_compound T s = POk (st, d) r ->
  p_compound_m E T s = POk (plain (fobj_of_compound E st d)) r.
Proof. intros E T s st d r H. unfold p_compound_m. rewrite H. reflexivity. Qed.

(* keyword = attribute: constructing with natural_density=nd is constructing without and then
   assigning f.natural_density = nd; the same for density *)
Theorem keyword_equals_attribute : forall E st k d0 nd d name,
  new_formula E st k d0 (Some nd) name = set_natural_density E nd (new_formula E st k None None name) /\
  new_formula E st k (Some d) None name = set_density (Some d) (new_formula E st k None None name).
Proof. intros. split; reflexivity. Qed.

(* for strings formula(s, density=, natural_density=) assigns after parsing, overriding a tag *)
Theorem string_keyword_density : forall E f d nd, f_density (string_keywords E f (Some d) nd) = Some d.
Proof. reflexivity. Qed.
Theorem string_keyword_natural : forall E f nd,
  f_density (string_keywords E f None (Some nd)) = Some (nd / natural_mass_ratio E f).
Proof. reflexivity. Qed.
Theorem string_keyword_none : forall E f, string_keywords E f None None = f.
Proof. reflexivity. Qed.

(* ================================================================ 4. single atom default *)
Theorem single_atom_default : forall E st k name a c, count_atoms st = [(a, c)] ->
  f_density (new_formula E st k None None name) = e_density E a.
Proof. intros E st k name a c H. unfold new_formula, init_density. cbn [f_density]. rewrite H. reflexivity. Qed.

Corollary single_atom_default_atom : forall E k name a c,
  f_density (new_formula E [(c, FAtom a)] k None None name) = e_density E a.
Proof. intros. apply (single_atom_default E _ k name a (0 + 1 * c)). reflexivity. Qed.

(* a given density or natural density always wins over the default *)
Theorem given_density_wins : forall E st k name d,
  f_density (new_formula E st k (Some d) None name) = Some d.
Proof. reflexivity. Qed.

(* with two or more different atoms and nothing given the density is unknown *)
Theorem several_atoms_unknown : forall E st k name, length (count_atoms st) <> 1%nat ->
  f_density (new_formula E st k None None name) = None.
Proof.
  intros E st k name H. unfold new_formula, init_density. cbn [f_density].
  destruct (count_atoms st) as [|[a c] [|p r]]; try reflexivity. exfalso. apply H. reflexivity.
Qed.
