(* Proofs/C02.v — composition arithmetic is additive: on structures and on the object machine. *)
From Coq Require Import ZArith QArith Qabs String List Bool Lia Setoid.
From PT Require Import Str Dec Loaders Formula FormulaMachine FormulaAlg AtomEnv.
Import ListNotations.
Open Scope Q_scope.

(* ---------------------------------------------------------------- + , += *)
Lemma add_cnt : forall b f g,
  cnt_s b (f_struct (f_add f g)) == cnt_s b (f_struct f) + cnt_s b (f_struct g).
Proof. intros. unfold f_add, cnt_s. simpl. apply cnt_app. Qed.

Lemma iadd_cnt : forall b f g,
  cnt_s b (f_struct (f_iadd f g)) == cnt_s b (f_struct f) + cnt_s b (f_struct g).
Proof. intros. unfold f_iadd, cnt_s. simpl. apply cnt_app. Qed.

Lemma add_weight : forall w f g,
  fweight w (FGroup (f_struct (f_add f g))) ==
  fweight w (FGroup (f_struct f)) + fweight w (FGroup (f_struct g)).
Proof. intros. unfold f_add. simpl f_struct. apply fweight_app. Qed.

(* ---------------------------------------------------------------- n * *)
Lemma rmul_weight : forall w n f,
  fweight w (FGroup (f_struct (f_rmul n f))) == n * fweight w (FGroup (f_struct f)).
Proof.
  intros w n [st k de na]. unfold f_rmul. simpl f_struct.
  destruct (Qeq_bool n 1) eqn:E1.
  - simpl. apply Qeq_bool_iff in E1. rewrite E1. ring.
  - destruct st as [|[q fr] r].
    + simpl. ring.
    + destruct r as [|p r'].
      * cbn [negb andb f_struct]. rewrite !fweight_group_cons, !fweight_group_nil. ring.
      * cbn [negb andb f_struct]. rewrite (fweight_group_cons w n (FGroup ((q, fr) :: p :: r')) []).
        rewrite fweight_group_nil. ring.
Qed.

Lemma rmul_cnt : forall b n f, cnt_s b (f_struct (f_rmul n f)) == n * cnt_s b (f_struct f).
Proof. intros b n f. unfold cnt_s. rewrite !cnt_is_fweight. apply rmul_weight. Qed.

(* ---------------------------------------------------------------- mass, charge over .atoms *)
Lemma mass_structural : forall E f, f_mass E f == fweight (e_mass E) (FGroup (f_struct f)).
Proof. intros. unfold f_mass, f_atoms, count_atoms. apply dweight_count_frag. Qed.

Lemma charge_structural : forall f,
  f_charge f == fweight (fun a => inject_Z (aq a)) (FGroup (f_struct f)).
Proof. intros. unfold f_charge, f_atoms, count_atoms. apply dweight_count_frag. Qed.

Lemma mass_add : forall E f g, f_mass E (f_add f g) == f_mass E f + f_mass E g.
Proof. intros. rewrite !mass_structural. apply add_weight. Qed.
Lemma mass_rmul : forall E n f, f_mass E (f_rmul n f) == n * f_mass E f.
Proof. intros. rewrite !mass_structural. apply rmul_weight. Qed.
Lemma charge_add : forall f g, f_charge (f_add f g) == f_charge f + f_charge g.
Proof. intros. rewrite !charge_structural. apply add_weight. Qed.
Lemma charge_rmul : forall n f, f_charge (f_rmul n f) == n * f_charge f.
Proof. intros. rewrite !charge_structural. apply rmul_weight. Qed.

(* mass is the sum over atoms of count x atomic mass, the count being the weighted total *)
Lemma dweight_as_sum : forall w d, dweight w d == fold_right Qplus 0 (map (fun p => w (fst p) * snd p) d).
Proof.
  intros w d. induction d as [|[a v] r IH].
  - reflexivity.
  - rewrite dweight_cons. simpl. rewrite IH. ring.
Qed.

(* ---------------------------------------------------------------- mass fractions *)
Lemma sum_map_div : forall (l : list Q) m,
  fold_right Qplus 0 (map (fun x => x / m) l) == fold_right Qplus 0 l / m.
Proof.
  intros l m. induction l as [|x r IH]; simpl.
  - unfold Qdiv. ring.
  - rewrite IH. unfold Qdiv. ring.
Qed.

Theorem fractions_sum_one : forall E f, ~ f_mass E f == 0 ->
  fold_right Qplus 0 (map snd (f_mass_fraction E f)) == 1.
Proof.
  intros E f Hm. unfold f_mass_fraction. rewrite map_map. simpl.
  assert (H : fold_right Qplus 0 (map (fun x : atom * Q => snd x * e_mass E (fst x) / f_mass E f) (f_atoms f))
              == fold_right Qplus 0 (map (fun p => e_mass E (fst p) * snd p) (f_atoms f)) / f_mass E f).
  { rewrite <- sum_map_div. rewrite map_map. 
    induction (f_atoms f) as [|p r IH]; simpl; [reflexivity|]. rewrite IH. unfold Qdiv. ring. }
  rewrite H. rewrite <- dweight_as_sum. fold (f_mass E f). field. exact Hm.
Qed.

Theorem fraction_value : forall E f a x, In (a, x) (f_mass_fraction E f) ->
  exists c, In (a, c) (f_atoms f) /\ x = c * e_mass E a / f_mass E f.
Proof.
  intros E f a x H. unfold f_mass_fraction in H. apply in_map_iff in H.
  destruct H as [[b c] [Heq Hin]]. simpl in Heq. inversion Heq; subst. exists c. split; [exact Hin|reflexivity].
Qed.

(* ---------------------------------------------------------------- ions weigh their atom less electrons *)
Theorem ion_mass : forall ot od a,
  e_mass (env_with ot od) a ==
  e_mass (env_with ot od) (mkAtom (az a) (aa a) 0) - inject_Z (aq a) * (match ot, od with Some _, Some _ => ME | _, _ => 0 end).
Proof.
  intros [t|] [d|] a; simpl; ring.
Qed.

(* ---------------------------------------------------------------- the object machine *)
Lemma var_get_set_same : forall l v o,
  match find (fun p => Nat.eqb (fst p) v) (var_set l v o) with Some p => Some (snd p) | None => None end = Some o.
Proof.
  induction l as [|[v' o'] r IH]; intros v o; simpl.
  - rewrite Nat.eqb_refl. reflexivity.
  - destruct (Nat.eqb v v') eqn:E; simpl.
    + rewrite Nat.eqb_refl. reflexivity.
    + rewrite Nat.eqb_sym, E. apply IH.
Qed.

Lemma var_get_alloc : forall s v f, var_get (alloc s v f) v = Some (length (heap s)).
Proof. intros. unfold var_get, alloc. simpl. apply var_get_set_same. Qed.

Lemma obj_get_alloc_new : forall s v f, obj_get (alloc s v f) (length (heap s)) = Some f.
Proof.
  intros. unfold obj_get, alloc. simpl. rewrite nth_error_app2 by lia. rewrite Nat.sub_diag. reflexivity.
Qed.

Lemma obj_get_alloc_old : forall s v f i, (i < length (heap s))%nat ->
  obj_get (alloc s v f) i = obj_get s i.
Proof. intros. unfold obj_get, alloc. simpl. apply nth_error_app1. assumption. Qed.

Definition pure_op (o : op) : bool := match o with OIadd _ _ => false | _ => true end.

(* operations that return a new formula leave every existing object unchanged *)
Theorem pure_ops_preserve : forall E s o s', pure_op o = true -> step E s o = Some s' ->
  forall i, (i < length (heap s))%nat -> obj_get s' i = obj_get s i.
Proof.
  intros E s o s' Hp Hs i Hi. destruct o as [v sc de nd na|v x y|v n x|x y|v x]; simpl in Hp; try discriminate.
  - simpl in Hs. destruct sc as [|a|d|st|x].
    1-4: inversion Hs; subst; apply obj_get_alloc_old; assumption.
    destruct (var_get s x) as [ox|]; [|discriminate]. destruct (obj_get s ox) as [f|]; [|discriminate].
    inversion Hs; subst. apply obj_get_alloc_old. assumption.
  - simpl in Hs. destruct (var_get s x) as [ox|]; [|discriminate]. destruct (var_get s y) as [oy|]; [|discriminate].
    destruct (obj_get s ox) as [f|]; [|discriminate]. destruct (obj_get s oy) as [g|]; [|discriminate].
    inversion Hs; subst. apply obj_get_alloc_old. assumption.
  - simpl in Hs. destruct (var_get s x) as [ox|]; [|discriminate]. destruct (obj_get s ox) as [f|]; [|discriminate].
    inversion Hs; subst. apply obj_get_alloc_old. assumption.
  - simpl in Hs. destruct (var_get s x) as [ox|]; [|discriminate]. inversion Hs; subst. reflexivity.
Qed.

Lemma list_set_other : forall {A} (l : list A) i j x, i <> j -> nth_error (list_set l i x) j = nth_error l j.
Proof.
  induction l as [|y r IH]; intros i j x H; simpl; [reflexivity|].
  destruct i, j; simpl; try reflexivity; try congruence. apply IH. congruence.
Qed.

(* += changes the object of its left operand only *)
Theorem iadd_changes_only_target : forall E s x y s' ox, step E s (OIadd x y) = Some s' ->
  var_get s x = Some ox -> forall i, i <> ox -> obj_get s' i = obj_get s i.
Proof.
  intros E s x y s' ox Hs Hx i Hi. simpl in Hs. rewrite Hx in Hs.
  destruct (var_get s y) as [oy|]; [|discriminate].
  destruct (obj_get s ox) as [f|]; [|discriminate]. destruct (obj_get s oy) as [g|]; [|discriminate].
  inversion Hs; subst. unfold obj_get. simpl. apply list_set_other. congruence.
Qed.

(* v = x + y : the new object's atoms are the sum of the operands' atoms *)
Theorem step_add_atoms : forall E s v x y s' ox oy f g b,
  step E s (OAdd v x y) = Some s' -> var_get s x = Some ox -> var_get s y = Some oy ->
  obj_get s ox = Some f -> obj_get s oy = Some g ->
  exists h, var_get s' v = Some (length (heap s)) /\ obj_get s' (length (heap s)) = Some h /\
            dget0 (f_atoms h) b == dget0 (f_atoms f) b + dget0 (f_atoms g) b.
Proof.
  intros E s v x y s' ox oy f g b Hs Hx Hy Hf Hg. simpl in Hs. rewrite Hx, Hy, Hf, Hg in Hs.
  inversion Hs; subst. exists (f_add f g). split; [apply var_get_alloc|]. split; [apply obj_get_alloc_new|].
  unfold f_atoms. rewrite !count_atoms_spec. apply add_cnt.
Qed.

Theorem step_rmul_atoms : forall E s v n x s' ox f b,
  step E s (ORmul v n x) = Some s' -> var_get s x = Some ox -> obj_get s ox = Some f ->
  exists h, var_get s' v = Some (length (heap s)) /\ obj_get s' (length (heap s)) = Some h /\
            dget0 (f_atoms h) b == n * dget0 (f_atoms f) b.
Proof.
  intros E s v n x s' ox f b Hs Hx Hf. simpl in Hs. rewrite Hx, Hf in Hs.
  inversion Hs; subst. exists (f_rmul n f). split; [apply var_get_alloc|]. split; [apply obj_get_alloc_new|].
  unfold f_atoms. rewrite !count_atoms_spec. apply rmul_cnt.
Qed.

Lemma nth_error_list_set_same : forall {A} (l : list A) i x, (i < length l)%nat ->
  nth_error (list_set l i x) i = Some x.
Proof.
  induction l as [|y r IH]; intros i x H; simpl in *; [lia|].
  destruct i; simpl; [reflexivity|]. apply IH. lia.
Qed.

Theorem step_iadd_atoms : forall E s x y s' ox oy f g b,
  step E s (OIadd x y) = Some s' -> var_get s x = Some ox -> var_get s y = Some oy ->
  obj_get s ox = Some f -> obj_get s oy = Some g ->
  exists h, var_get s' x = Some ox /\ obj_get s' ox = Some h /\
            dget0 (f_atoms h) b == dget0 (f_atoms f) b + dget0 (f_atoms g) b.
Proof.
  intros E s x y s' ox oy f g b Hs Hx Hy Hf Hg. simpl in Hs. rewrite Hx, Hy, Hf, Hg in Hs.
  inversion Hs; subst. exists (f_iadd f g). split; [exact Hx|]. split.
  - unfold obj_get. simpl. apply nth_error_list_set_same. unfold obj_get in Hf.
    apply nth_error_Some. congruence.
  - unfold f_atoms. rewrite !count_atoms_spec. apply iadd_cnt.
Qed.

(* construction from a nested sequence or an atom: atoms are the weighted sum of the nesting *)
Theorem formula_nested_atoms : forall E s v st de nd na s' b,
  step E s (OFormula v (SNested st) de nd na) = Some s' ->
  exists h, obj_get s' (length (heap s)) = Some h /\ dget0 (f_atoms h) b == cnt_s b st.
Proof.
  intros. simpl in H. inversion H; subst. eexists. split; [apply obj_get_alloc_new|].
  unfold f_atoms, new_formula. simpl f_struct. apply count_atoms_spec.
Qed.

(* well-formedness invariant of the machine over every program *)
Definition Inv (s : state) : Prop := forall v o, var_get s v = Some o -> (o < length (heap s))%nat.

Lemma var_get_set_other : forall l v o w, v <> w ->
  find (fun p => Nat.eqb (fst p) w) (var_set l v o) = find (fun p => Nat.eqb (fst p) w) l.
Proof.
  induction l as [|[v' o'] r IH]; intros v o w H; simpl.
  - destruct (Nat.eqb v w) eqn:E; [apply Nat.eqb_eq in E; congruence|reflexivity].
  - destruct (Nat.eqb v v') eqn:E; simpl.
    + apply Nat.eqb_eq in E. subst v'. destruct (Nat.eqb v w) eqn:E2; [apply Nat.eqb_eq in E2; congruence|reflexivity].
    + destruct (Nat.eqb v' w); [reflexivity|]. apply IH. assumption.
Qed.

Lemma inv_alloc : forall s v f, Inv s -> Inv (alloc s v f).
Proof.
  intros s v f H w o Hw.
  assert (HL : length (heap (alloc s v f)) = S (length (heap s)))
    by (unfold alloc; simpl; rewrite app_length; simpl; lia).
  rewrite HL. destruct (Nat.eq_dec v w) as [->|Hne].
  - rewrite var_get_alloc in Hw. inversion Hw. lia.
  - unfold var_get, alloc in Hw. simpl in Hw. rewrite var_get_set_other in Hw by assumption.
    specialize (H w o). unfold var_get in H. specialize (H Hw). lia.
Qed.

Lemma length_list_set : forall {A} (l : list A) i x, length (list_set l i x) = length l.
Proof. induction l as [|y r IH]; intros i x; simpl; [reflexivity|]. destruct i; simpl; [reflexivity|]. rewrite IH. reflexivity. Qed.

Lemma inv_step : forall E s o s', Inv s -> step E s o = Some s' -> Inv s'.
Proof.
  intros E s o s' HI Hs. destruct o as [v sc de nd na|v x y|v n x|x y|v x]; simpl in Hs.
  - destruct sc as [|a|d|st|x].
    1-4: inversion Hs; subst; apply inv_alloc; assumption.
    destruct (var_get s x) as [ox|]; [|discriminate]. destruct (obj_get s ox) as [f|]; [|discriminate].
    inversion Hs; subst. apply inv_alloc. assumption.
  - destruct (var_get s x) as [ox|]; [|discriminate]. destruct (var_get s y) as [oy|]; [|discriminate].
    destruct (obj_get s ox) as [f|]; [|discriminate]. destruct (obj_get s oy) as [g|]; [|discriminate].
    inversion Hs; subst. apply inv_alloc. assumption.
  - destruct (var_get s x) as [ox|]; [|discriminate]. destruct (obj_get s ox) as [f|]; [|discriminate].
    inversion Hs; subst. apply inv_alloc. assumption.
  - destruct (var_get s x) as [ox|]; [|discriminate]. destruct (var_get s y) as [oy|]; [|discriminate].
    destruct (obj_get s ox) as [f|]; [|discriminate]. destruct (obj_get s oy) as [g|]; [|discriminate].
    inversion Hs; subst. intros w o Hw. simpl. rewrite length_list_set. apply (HI w o). exact Hw.
  - destruct (var_get s x) as [ox|] eqn:Hx; [|discriminate]. inversion Hs; subst. intros w o Hw. simpl.
    destruct (Nat.eq_dec v w) as [->|Hne].
    + unfold var_get in Hw. simpl in Hw. rewrite var_get_set_same in Hw. inversion Hw; subst. apply (HI x o Hx).
    + unfold var_get in Hw. simpl in Hw. rewrite var_get_set_other in Hw by assumption. apply (HI w o). exact Hw.
Qed.

Theorem run_inv : forall E ops s s', Inv s -> run E s ops = Some s' -> Inv s'.
Proof.
  intros E ops. induction ops as [|o r IH]; intros s s' HI Hr; simpl in Hr.
  - inversion Hr; subst. exact HI.
  - destruct (step E s o) as [s1|] eqn:Hs; [|discriminate]. apply (IH s1 s'); [|exact Hr].
    apply (inv_step E s o s1 HI Hs).
Qed.

Lemma inv_init : Inv init_state.
Proof. intros v o H. unfold var_get in H. simpl in H. discriminate. Qed.

(* non-vacuity: a concrete program runs and satisfies the hypotheses *)
Example machine_runs :
  exists s, run the_env init_state
    [OFormula 0 (SNested [(2, FAtom (mkAtom 1 0 0)); (1, FAtom (mkAtom 8 0 0))]) None None None;
     ORmul 1 3 0; OAdd 2 0 1; OIadd 0 2] = Some s /\ length (heap s) = 3%nat.
Proof. eexists. split; [vm_compute; reflexivity|reflexivity]. Qed.

(* ---------------------------------------------------------------- the electron mass an ion is lighter by
   The constant regenerated from constants.py is the recommended value of the electron mass in u.  The reference
   (5.4857990946(22)e-4 u, CODATA 2010; the 2014 and 2018 adjustments differ from it by 4e-14) is part of the
   trusted base; the tolerance 5e-13 u is a relative 1e-9. *)
Definition electron_mass_reference : Q := 54857990946 # 100000000000000.
Definition electron_mass_ok (q : Q) : bool := Qle_bool (Qabs (q - electron_mass_reference)) (5 # 10000000000000).
Lemma electron_mass_is_reference : electron_mass_ok ME = true.
Proof. vm_compute. reflexivity. Qed.
(* sensitivity: the value with one digit repeated (5.48577990946e-4) is rejected *)
Example electron_mass_typo_rejected : electron_mass_ok (548577990946 # 1000000000000000) = false.
Proof. vm_compute. reflexivity. Qed.
