(* Proofs/C05Sweep0.v — part 0 of the kernel-evaluated sweep over the regenerated .nff tables. *)
From Coq Require Import String List.
From PT Require Import Xsf C05SweepDefs.
From PT.Gen Require Import NffIndex.
Lemma chunk0_ok : chunk_ok nff_files_0 = true.
Proof. vm_compute. reflexivity. Qed.
