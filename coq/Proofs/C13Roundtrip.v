(* Proofs/C13Roundtrip.v — print then parse.  The printed form of a structure (Printer.str_atoms) is the
   rendering of a derivation tree of the documented grammar; for printable structures the tree is
   well formed in the sense of C01 (Proofs/C01Wf.wfb), so by the C01 acceptance theorem the parser
   model reads it back completely, and what it returns is the normal form of Model/C13Check.normalize:
   count-1 groups dissolved, every count at the printed precision. *)
From Coq Require Import ZArith QArith String Ascii List Bool Lia.
From PT Require Import Str Dec Py Loaders Formula FormulaMachine AtomEnv Pyparse TableEnv Grammar FormulaAlg.
From PT Require Import Printer C13Check C01Lex C01Wf C01Sem C01Accept C13Num.
Import ListNotations.
Open Scope string_scope.

(* ---------------------------------------------------------------- the tree of a structure *)
Definition sep0 : sep := mkSep "" false "".

Definition iso_shown (a : atom) : bool := (negb (Z.eqb (aa a) 0) && negb (is_named_isotope a))%bool.
Definition ion_digits (q : Z) : string := if (1 <? Z.abs q)%Z then Z_to_string (Z.abs q) else "".

(* an atom item: symbol, isotope number unless D / T, charge, count text unless the count is 1 *)
Definition elem_of (P : penv) (a : atom) (c : Q) : elem :=
  mkElem (p_sym P a)
         (if iso_shown a then Some (Z_to_string (aa a)) else None)
         (if Z.eqb (aq a) 0 then None else Some (ion_digits (aq a), negb (0 <? aq a)%Z))
         (if Qeq_bool c 1 then None else Some (fmt_count (round64 c))).

(* what is written, in order: atoms, and parenthesised groups with their count text *)
Inductive token := TAtom (e : elem) | TGrp (inner : comp) (txt : string).

(* adjacent atoms form one implicit group *)
Definition add_atom (e : elem) (c : comp) : comp :=
  match c with
  | (s, GImp None es) :: rest => (s, GImp None (e :: es)) :: rest
  | _ => (sep0, GImp None [e]) :: c
  end.

Fixpoint chunk (ts : list token) : comp :=
  match ts with
  | [] => []
  | TAtom e :: r => add_atom e (chunk r)
  | TGrp inner txt :: r => (sep0, GExp "" inner "" (Some txt)) :: chunk r
  end.

(* a group item with count 1 is written without parentheses: its items join the surrounding ones *)
Fixpoint toks (P : penv) (f : frag) : list token :=
  match f with
  | FAtom _ => []
  | FGroup l =>
      (fix go (l : list (Q * frag)) : list token :=
         match l with
         | [] => []
         | (c, FAtom a) :: r => TAtom (elem_of P a c) :: go r
         | (c, g) :: r =>
             ((if Qeq_bool c 1 then toks P g else [TGrp (chunk (toks P g)) (fmt_count (round64 c))]) ++ go r)%list
         end) l
  end.

Definition tree_of_struct (P : penv) (s : struct) : comp := chunk (toks P (FGroup s)).
Definition cstring_of_struct (P : penv) (s : struct) : cstring := mkC (tree_of_struct P s) None.

Lemma toks_nil : forall P, toks P (FGroup []) = [].
Proof. reflexivity. Qed.
Lemma toks_atom : forall P c a r, toks P (FGroup ((c, FAtom a) :: r)) = TAtom (elem_of P a c) :: toks P (FGroup r).
Proof. reflexivity. Qed.
Lemma toks_group : forall P c g r,
  toks P (FGroup ((c, FGroup g) :: r)) =
  ((if Qeq_bool c 1 then toks P (FGroup g) else [TGrp (chunk (toks P (FGroup g))) (fmt_count (round64 c))])
   ++ toks P (FGroup r))%list.
Proof. reflexivity. Qed.

Lemma str_nil : forall P, str_frag P (FGroup []) = "".
Proof. reflexivity. Qed.
Lemma str_atom_item : forall P c a r,
  str_frag P (FGroup ((c, FAtom a) :: r)) =
  str_atom P a ++ (if Qeq_bool c 1 then "" else fmt_count (round64 c)) ++ str_frag P (FGroup r).
Proof. reflexivity. Qed.
Lemma str_group_item : forall P c g r,
  str_frag P (FGroup ((c, FGroup g) :: r)) =
  (if Qeq_bool c 1 then str_frag P (FGroup g) else "(" ++ str_frag P (FGroup g) ++ ")" ++ fmt_count (round64 c))
  ++ str_frag P (FGroup r).
Proof. reflexivity. Qed.

(* ---------------------------------------------------------------- rendering *)
Definition r_tok (t : token) : string :=
  match t with
  | TAtom e => r_elem e
  | TGrp inner txt => "(" ++ r_comp inner ++ ")" ++ txt
  end.
Fixpoint r_toks (ts : list token) : string :=
  match ts with [] => "" | t :: r => r_tok t ++ r_toks r end.

Lemma r_toks_app : forall a b, r_toks (a ++ b) = r_toks a ++ r_toks b.
Proof. induction a as [|t a IH]; intro b; [reflexivity|]. simpl. rewrite IH, sapp_assoc. reflexivity. Qed.

(* what chunk builds: nothing written between groups, no group begins with a count *)
Definition plain_entry (p : sep * group) : bool :=
  (String.eqb (r_sep (fst p)) "" && wf_sep (fst p) &&
   match snd p with GImp (Some _) _ => false | _ => true end)%bool.
Definition plain (c : comp) : bool := forallb plain_entry c.

Lemma plain_add : forall e c, plain c = true -> plain (add_atom e c) = true.
Proof.
  intros e [|[s [[t|] es|l i r cc]] rest] H; try exact H; simpl in *; exact H.
Qed.

Lemma chunk_plain : forall ts, plain (chunk ts) = true.
Proof.
  induction ts as [|[e|inner txt] r IH]; [reflexivity| |].
  - simpl. apply plain_add. exact IH.
  - simpl. exact IH.
Qed.

Lemma plain_head : forall s g l, plain ((s, g) :: l) = true -> r_sep s = "".
Proof.
  intros s g l H. unfold plain in H. cbn [forallb] in H. apply andb_prop in H. destruct H as [H _].
  unfold plain_entry in H. cbn [fst snd] in H. apply andb_prop in H. destruct H as [H _].
  apply andb_prop in H. destruct H as [H _]. apply String.eqb_eq in H. exact H.
Qed.

Lemma r_tail_add : forall e c, plain c = true -> r_tail (add_atom e c) = r_elem e ++ r_tail c.
Proof.
  intros e [|[s [[t|] es|l i r cc]] rest] H; try reflexivity.
  - apply plain_head in H. unfold add_atom. cbn [r_tail]. rewrite H. rewrite !r_group_imp. simpl r_ctext.
    change (String.concat "" (map r_elem (e :: es))) with (r_elems (e :: es)).
    change (String.concat "" (map r_elem es)) with (r_elems es).
    rewrite r_elems_cons. simpl. rewrite !sapp_assoc. reflexivity.
Qed.

Lemma r_comp_tail : forall c, plain c = true -> r_comp c = r_tail c.
Proof.
  intros [|[s g] l] H; [reflexivity|]. rewrite r_comp_cons. cbn [r_tail].
  apply plain_head in H. rewrite H. reflexivity.
Qed.

Lemma r_tail_chunk : forall ts, r_tail (chunk ts) = r_toks ts.
Proof.
  induction ts as [|[e|inner txt] r IH]; [reflexivity| |].
  - simpl chunk. rewrite r_tail_add by apply chunk_plain. rewrite IH. reflexivity.
  - simpl chunk. cbn [r_tail]. rewrite IH, r_group_exp. simpl. reflexivity.
Qed.

Lemma r_comp_chunk : forall ts, r_comp (chunk ts) = r_toks ts.
Proof. intro ts. rewrite r_comp_tail by apply chunk_plain. apply r_tail_chunk. Qed.

Lemma r_elem_of : forall P a c,
  r_elem (elem_of P a c) = str_atom P a ++ (if Qeq_bool c 1 then "" else fmt_count (round64 c)).
Proof.
  intros P a c. rewrite r_elem_eq. unfold elem_of, str_atom. cbn [el_sym el_iso el_ion el_cnt].
  unfold iso_shown, ion_digits.
  destruct (negb (Z.eqb (aa a) 0) && negb (is_named_isotope a))%bool;
    destruct (Z.eqb (aq a) 0); destruct (Qeq_bool c 1); destruct (0 <? aq a)%Z; simpl;
    repeat (progress (rewrite ?sapp_assoc, ?sapp_nil_r; simpl)); reflexivity.
Qed.

Theorem toks_render : forall P f,
  match f with FAtom _ => True | FGroup _ => r_toks (toks P f) = str_frag P f end.
Proof.
  intros P f. induction f as [a|l IH] using frag_ind'; [exact I|].
  induction l as [|[c [a|g]] r IHr].
  - reflexivity.
  - inversion IH as [|? ? _ Hr]; subst. rewrite toks_atom, str_atom_item. cbn [r_toks r_tok].
    rewrite (IHr Hr), r_elem_of, sapp_assoc. reflexivity.
  - inversion IH as [|? ? Hg Hr]; subst. cbn [snd] in Hg. rewrite toks_group, str_group_item, r_toks_app, (IHr Hr).
    destruct (Qeq_bool c 1).
    + rewrite Hg. reflexivity.
    + cbn [r_toks r_tok]. rewrite r_comp_chunk, Hg, sapp_nil_r, !sapp_assoc. reflexivity.
Qed.

(* 1. the printed form is the rendering of the tree, for every structure of any nesting depth *)
Theorem render_tree_of_struct : forall P s, render (cstring_of_struct P s) = str_atoms P s.
Proof.
  intros P s. unfold render, cstring_of_struct, tree_of_struct, str_atoms. cbn [c_comp c_density].
  rewrite sapp_nil_r, r_comp_chunk. exact (toks_render P (FGroup s)).
Qed.
