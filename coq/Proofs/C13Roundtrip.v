(* Proofs/C13Roundtrip.v — print then parse.  The printed form of a structure (Printer.str_atoms) is the
   rendering of a derivation tree of the documented grammar; for printable structures the tree is
   well formed in the sense of C01 (Proofs/C01Wf.wfb), so by the C01 acceptance theorem the parser
   model reads it back completely, and what it returns is the normal form of Model/C13Check.normalize:
   count-1 groups dissolved, every count at the printed precision. *)
From Coq Require Import ZArith QArith String Ascii List Bool Lia.
From PT Require Import Str Dec Py Loaders Formula FormulaMachine AtomEnv Pyparse TableEnv Grammar FormulaAlg.
From PT Require Import Printer C13Check C01Lex C01Wf C01Sem C01Accept C13Num.
Import ListNotations.
Open Scope string_scope.

(* ---------------------------------------------------------------- the tree of a structure *)
Definition sep0 : sep := mkSep "" false "".

Definition iso_shown (a : atom) : bool := (negb (Z.eqb (aa a) 0) && negb (is_named_isotope a))%bool.
Definition ion_digits (q : Z) : string := if (1 <? Z.abs q)%Z then Z_to_string (Z.abs q) else "".

(* an atom item: symbol, isotope number unless D / T, charge, count text unless the count is 1 *)
Definition elem_of (P : penv) (a : atom) (c : Q) : elem :=
  mkElem (p_sym P a)
         (if iso_shown a then Some (Z_to_string (aa a)) else None)
         (if Z.eqb (aq a) 0 then None else Some (ion_digits (aq a), negb (0 <? aq a)%Z))
         (if Qeq_bool c 1 then None else Some (fmt_count (round64 c))).

(* what is written, in order: atoms, and parenthesised groups with their count text *)
Inductive token := TAtom (e : elem) | TGrp (inner : comp) (txt : string).

(* adjacent atoms form one implicit group *)
Definition add_atom (e : elem) (c : comp) : comp :=
  match c with
  | (s, GImp None es) :: rest => (s, GImp None (e :: es)) :: rest
  | _ => (sep0, GImp None [e]) :: c
  end.

Fixpoint chunk (ts : list token) : comp :=
  match ts with
  | [] => []
  | TAtom e :: r => add_atom e (chunk r)
  | TGrp inner txt :: r => (sep0, GExp "" inner "" (Some txt)) :: chunk r
  end.

(* a group item with count 1 is written without parentheses: its items join the surrounding ones *)
Fixpoint toks (P : penv) (f : frag) : list token :=
  match f with
  | FAtom _ => []
  | FGroup l =>
      (fix go (l : list (Q * frag)) : list token :=
         match l with
         | [] => []
         | (c, FAtom a) :: r => TAtom (elem_of P a c) :: go r
         | (c, g) :: r =>
             ((if Qeq_bool c 1 then toks P g else [TGrp (chunk (toks P g)) (fmt_count (round64 c))]) ++ go r)%list
         end) l
  end.

Definition tree_of_struct (P : penv) (s : struct) : comp := chunk (toks P (FGroup s)).
Definition cstring_of_struct (P : penv) (s : struct) : cstring := mkC (tree_of_struct P s) None.

Lemma toks_nil : forall P, toks P (FGroup []) = [].
Proof. reflexivity. Qed.
Lemma toks_atom : forall P c a r, toks P (FGroup ((c, FAtom a) :: r)) = TAtom (elem_of P a c) :: toks P (FGroup r).
Proof. reflexivity. Qed.
Lemma toks_group : forall P c g r,
  toks P (FGroup ((c, FGroup g) :: r)) =
  ((if Qeq_bool c 1 then toks P (FGroup g) else [TGrp (chunk (toks P (FGroup g))) (fmt_count (round64 c))])
   ++ toks P (FGroup r))%list.
Proof. reflexivity. Qed.

Lemma str_nil : forall P, str_frag P (FGroup []) = "".
Proof. reflexivity. Qed.
Lemma str_atom_item : forall P c a r,
  str_frag P (FGroup ((c, FAtom a) :: r)) =
  str_atom P a ++ (if Qeq_bool c 1 then "" else fmt_count (round64 c)) ++ str_frag P (FGroup r).
Proof. reflexivity. Qed.
Lemma str_group_item : forall P c g r,
  str_frag P (FGroup ((c, FGroup g) :: r)) =
  (if Qeq_bool c 1 then str_frag P (FGroup g) else "(" ++ str_frag P (FGroup g) ++ ")" ++ fmt_count (round64 c))
  ++ str_frag P (FGroup r).
Proof. reflexivity. Qed.

(* ---------------------------------------------------------------- rendering *)
Definition r_tok (t : token) : string :=
  match t with
  | TAtom e => r_elem e
  | TGrp inner txt => "(" ++ r_comp inner ++ ")" ++ txt
  end.
Fixpoint r_toks (ts : list token) : string :=
  match ts with [] => "" | t :: r => r_tok t ++ r_toks r end.

Lemma r_toks_app : forall a b, r_toks (a ++ b) = r_toks a ++ r_toks b.
Proof. induction a as [|t a IH]; intro b; [reflexivity|]. simpl. rewrite IH, sapp_assoc. reflexivity. Qed.

(* what chunk builds: nothing written between groups, no group begins with a count *)
Definition plain_entry (p : sep * group) : bool :=
  (String.eqb (r_sep (fst p)) "" && wf_sep (fst p) &&
   match snd p with GImp (Some _) _ => false | _ => true end)%bool.
Definition plain (c : comp) : bool := forallb plain_entry c.

Lemma plain_add : forall e c, plain c = true -> plain (add_atom e c) = true.
Proof.
  intros e [|[s [[t|] es|l i r cc]] rest] H; try exact H; simpl in *; exact H.
Qed.

Lemma chunk_plain : forall ts, plain (chunk ts) = true.
Proof.
  induction ts as [|[e|inner txt] r IH]; [reflexivity| |].
  - simpl. apply plain_add. exact IH.
  - simpl. exact IH.
Qed.

Lemma plain_head : forall s g l, plain ((s, g) :: l) = true -> r_sep s = "".
Proof.
  intros s g l H. unfold plain in H. cbn [forallb] in H. apply andb_prop in H. destruct H as [H _].
  unfold plain_entry in H. cbn [fst snd] in H. apply andb_prop in H. destruct H as [H _].
  apply andb_prop in H. destruct H as [H _]. apply String.eqb_eq in H. exact H.
Qed.

Lemma r_tail_add : forall e c, plain c = true -> r_tail (add_atom e c) = r_elem e ++ r_tail c.
Proof.
  intros e [|[s [[t|] es|l i r cc]] rest] H; try reflexivity.
  - apply plain_head in H. unfold add_atom. cbn [r_tail]. rewrite H. rewrite !r_group_imp. simpl r_ctext.
    change (String.concat "" (map r_elem (e :: es))) with (r_elems (e :: es)).
    change (String.concat "" (map r_elem es)) with (r_elems es).
    rewrite r_elems_cons. simpl. rewrite !sapp_assoc. reflexivity.
Qed.

Lemma r_comp_tail : forall c, plain c = true -> r_comp c = r_tail c.
Proof.
  intros [|[s g] l] H; [reflexivity|]. rewrite r_comp_cons. cbn [r_tail].
  apply plain_head in H. rewrite H. reflexivity.
Qed.

Lemma r_tail_chunk : forall ts, r_tail (chunk ts) = r_toks ts.
Proof.
  induction ts as [|[e|inner txt] r IH]; [reflexivity| |].
  - simpl chunk. rewrite r_tail_add by apply chunk_plain. rewrite IH. reflexivity.
  - simpl chunk. cbn [r_tail]. rewrite IH, r_group_exp. simpl. reflexivity.
Qed.

Lemma r_comp_chunk : forall ts, r_comp (chunk ts) = r_toks ts.
Proof. intro ts. rewrite r_comp_tail by apply chunk_plain. apply r_tail_chunk. Qed.

Lemma r_elem_of : forall P a c,
  r_elem (elem_of P a c) = str_atom P a ++ (if Qeq_bool c 1 then "" else fmt_count (round64 c)).
Proof.
  intros P a c. rewrite r_elem_eq. unfold elem_of, str_atom. cbn [el_sym el_iso el_ion el_cnt].
  unfold iso_shown, ion_digits.
  destruct (negb (Z.eqb (aa a) 0) && negb (is_named_isotope a))%bool;
    destruct (Z.eqb (aq a) 0); destruct (Qeq_bool c 1); destruct (0 <? aq a)%Z; simpl;
    repeat (progress (rewrite ?sapp_assoc, ?sapp_nil_r; simpl)); reflexivity.
Qed.

Theorem toks_render : forall P f,
  match f with FAtom _ => True | FGroup _ => r_toks (toks P f) = str_frag P f end.
Proof.
  intros P f. induction f as [a|l IH] using frag_ind'; [exact I|].
  induction l as [|[c [a|g]] r IHr].
  - reflexivity.
  - inversion IH as [|? ? _ Hr]; subst. rewrite toks_atom, str_atom_item. cbn [r_toks r_tok].
    rewrite (IHr Hr), r_elem_of, sapp_assoc. reflexivity.
  - inversion IH as [|? ? Hg Hr]; subst. cbn [snd] in Hg. rewrite toks_group, str_group_item, r_toks_app, (IHr Hr).
    destruct (Qeq_bool c 1).
    + rewrite Hg. reflexivity.
    + cbn [r_toks r_tok]. rewrite r_comp_chunk, Hg, sapp_nil_r, !sapp_assoc. reflexivity.
Qed.

(* 1. the printed form is the rendering of the tree, for every structure of any nesting depth *)
Theorem render_tree_of_struct : forall P s, render (cstring_of_struct P s) = str_atoms P s.
Proof.
  intros P s. unfold render, cstring_of_struct, tree_of_struct, str_atoms. cbn [c_comp c_density].
  rewrite sapp_nil_r, r_comp_chunk. exact (toks_render P (FGroup s)).
Qed.

(* ---------------------------------------------------------------- printable structures *)
(* a count is either 1 (not written) or its printed text is a count of the grammar *)
Definition count_ok (c : Q) : bool := (Qeq_bool c 1 || is_count_text (fmt_count (round64 c)))%bool.

(* the table names the atom: its symbol is known and stands for this element (D, T: this isotope),
   a written isotope number is a defined isotope, a written charge is a listed charge *)
Definition atom_ok (P : penv) (T : ptable) (a : atom) : bool :=
  (is_symbol (p_sym P a) &&
   match t_symbol T (p_sym P a) with
   | Some (z, a0) => (Z.eqb z (az a) && Z.eqb a0 (if is_named_isotope a then aa a else 0))%bool
   | None => false
   end &&
   Z.leb 0 (aa a) &&
   (if iso_shown a then t_has_iso T (az a) (aa a) else true) &&
   (if Z.eqb (aq a) 0 then true else t_has_ion T (az a) (aq a)))%bool.

Fixpoint printable_frag (P : penv) (T : ptable) (f : frag) : bool :=
  match f with
  | FAtom a => atom_ok P T a
  | FGroup l =>
      (negb (match l with [] => true | _ => false end) &&
       (fix go (l : list (Q * frag)) : bool :=
          match l with
          | [] => true
          | (c, f') :: r => (count_ok c && printable_frag P T f' && go r)%bool
          end) l)%bool
  end.
Definition printable (P : penv) (T : ptable) (s : struct) : bool := printable_frag P T (FGroup s).

Definition items_ok (P : penv) (T : ptable) : list (Q * frag) -> bool :=
  fix go (l : list (Q * frag)) : bool :=
    match l with
    | [] => true
    | (c, f') :: r => (count_ok c && printable_frag P T f' && go r)%bool
    end.
Lemma printable_group : forall P T l,
  printable_frag P T (FGroup l) = (negb (match l with [] => true | _ => false end) && items_ok P T l)%bool.
Proof. reflexivity. Qed.
Lemma items_ok_cons : forall P T c f r,
  items_ok P T ((c, f) :: r) = (count_ok c && printable_frag P T f && items_ok P T r)%bool.
Proof. reflexivity. Qed.

(* how many cases of a C13 run the round-trip theorem applies to *)
Definition printable_all (cases : list c13case) : N :=
  N.of_nat (length (filter (fun c => printable the_penv the_ptable (r_struct c)) cases)).

(* ---------------------------------------------------------------- one atom item *)
Lemma ion_facts : forall q, q <> 0%Z ->
  is_ion_digits (ion_digits q) = true /\ ion_mag (ion_digits q) = Some (Z.abs q) /\
  (if negb (0 <? q)%Z then (- Z.abs q)%Z else Z.abs q) = q.
Proof.
  intros q Hq. unfold ion_digits. destruct (1 <? Z.abs q)%Z eqn:E.
  - apply Z.ltb_lt in E. destruct (Z_to_string_pos (Z.abs q) ltac:(lia)) as [W V].
    split; [unfold is_ion_digits; rewrite W; apply orb_true_r|]. split.
    + unfold ion_mag. destruct (Z_to_string (Z.abs q)) eqn:Es; [discriminate|]. simpl. exact V.
    + destruct (0 <? q)%Z eqn:E0; simpl; [apply Z.ltb_lt in E0|apply Z.ltb_ge in E0]; lia.
  - apply Z.ltb_ge in E. split; [reflexivity|]. split.
    + unfold ion_mag. simpl. f_equal. lia.
    + destruct (0 <? q)%Z eqn:E0; simpl; [apply Z.ltb_lt in E0|apply Z.ltb_ge in E0]; lia.
Qed.

Lemma cv_round6 : forall c, count_ok c = true ->
  cv (if Qeq_bool c 1 then None else Some (fmt_count (round64 c))) = round6 c.
Proof.
  intros c H. unfold count_ok in H. destruct (Qeq_bool c 1) eqn:E.
  - apply Qeq_bool_iff in E. rewrite (round6_one c E). reflexivity.
  - simpl in H. destruct (parse_dec_count _ H) as (q & Hq). unfold cv, round6. simpl. rewrite Hq. reflexivity.
Qed.

Lemma elem_of_ok : forall P T a c, atom_ok P T a = true -> count_ok c = true ->
  wf_elem T (elem_of P a c) = true /\ v_elem T (elem_of P a c) = (round6 c, FAtom a).
Proof.
  intros P T [z A q] c H Hc. unfold atom_ok in H. cbn [az aa aq] in H.
  apply andb_prop in H. destruct H as [H Hion]. apply andb_prop in H. destruct H as [H Hiso].
  apply andb_prop in H. destruct H as [H HA]. apply andb_prop in H. destruct H as [Hs Hsym].
  apply Z.leb_le in HA.
  destruct (t_symbol T (p_sym P (mkAtom z A q))) as [[z' a0]|] eqn:Ez; [|discriminate].
  apply andb_prop in Hsym. destruct Hsym as [Hz Ha0]. apply Z.eqb_eq in Hz, Ha0. subst z'.
  assert (Hct : wf_ctext (if Qeq_bool c 1 then None else Some (fmt_count (round64 c))) = true).
  { unfold count_ok in Hc. destruct (Qeq_bool c 1); [reflexivity|exact Hc]. }
  unfold v_elem, wf_elem, elem_atom, elem_of. cbn [el_sym el_iso el_ion el_cnt az aa aq].
  rewrite Hs, Ez, Hct, (cv_round6 c Hc).
  (* isotope *)
  assert (Ei : (match (if iso_shown (mkAtom z A q) then Some (Z_to_string A) else None) with
                | Some n => (is_whole n && Z.eqb a0 0 &&
                             match parse_int n with Some v => t_has_iso T z v | None => false end)%bool
                | None => true end = true) /\
               match (if iso_shown (mkAtom z A q) then Some (Z_to_string A) else None) with
               | Some n => match parse_int n with Some v => Some v | None => None end
               | None => Some a0 end = Some A).
  { cbn [az aa] in Hiso. unfold iso_shown in *. cbn [aa] in *. destruct (Z.eqb A 0) eqn:EA.
    - simpl. apply Z.eqb_eq in EA. subst A. split; [reflexivity|].
      unfold is_named_isotope in Ha0. cbn [az aa] in Ha0. simpl in Ha0. rewrite andb_false_r in Ha0. subst a0. reflexivity.
    - apply Z.eqb_neq in EA. destruct (is_named_isotope (mkAtom z A q)) eqn:En; simpl.
      + split; [reflexivity|]. subst a0. reflexivity.
      + simpl in Hiso. destruct (Z_to_string_pos A ltac:(lia)) as [W V]. rewrite W, V, Hiso. subst a0.
        split; reflexivity. }
  destruct Ei as [Ei1 Ei2]. rewrite Ei1, Ei2.
  (* charge *)
  cbn [az aq] in Hion. destruct (Z.eqb q 0) eqn:Eq.
  - apply Z.eqb_eq in Eq. subst q. split; reflexivity.
  - apply Z.eqb_neq in Eq. destruct (ion_facts q Eq) as (I1 & I2 & I3).
    rewrite I1. unfold ion_mag in I2. rewrite I2. fold (ion_mag (ion_digits q)).
    unfold ion_mag. rewrite I2, I3, Hion. split; reflexivity.
Qed.

(* ---------------------------------------------------------------- tokens: well-formedness and value *)
Definition tok_wf (T : ptable) (t : token) : bool :=
  match t with
  | TAtom e => wf_elem T e
  | TGrp inner txt => (wf_comp T inner && is_count_text txt)%bool
  end.
Definition v_tok (T : ptable) (t : token) : list (Q * frag) :=
  match t with
  | TAtom e => [v_elem T e]
  | TGrp inner txt => regroup (cv (Some txt)) (v_comp T inner)
  end.

Definition wfg (T : ptable) (p : sep * group) : bool := wf_group T (snd p).

Lemma forallb_cons : forall A (f : A -> bool) x l, forallb f (x :: l) = (f x && forallb f l)%bool.
Proof. reflexivity. Qed.

Lemma wfg_single : forall T e, wf_elem T e = true -> wfg T (sep0, GImp None [e]) = true.
Proof. intros T e He. unfold wfg. simpl. rewrite He. reflexivity. Qed.

Lemma wfg_add : forall T e c, wf_elem T e = true -> forallb (wfg T) c = true -> forallb (wfg T) (add_atom e c) = true.
Proof.
  intros T e [|[s [[t|] es|l i r cc]] rest] He H; unfold add_atom.
  - rewrite forallb_cons, (wfg_single T e He). reflexivity.
  - rewrite forallb_cons, (wfg_single T e He), H. reflexivity.
  - rewrite forallb_cons in *. apply andb_prop in H. destruct H as [H1 H2]. rewrite H2, andb_true_r.
    unfold wfg in *. cbn [snd] in *.
    destruct (wf_imp_inv T _ _ H1) as (_ & e0 & es0 & -> & He0 & Hes0).
    simpl. rewrite He, He0, Hes0. reflexivity.
  - rewrite forallb_cons, (wfg_single T e He), H. reflexivity.
Qed.

Lemma chunk_wfg : forall T ts, forallb (tok_wf T) ts = true -> forallb (wfg T) (chunk ts) = true.
Proof.
  intros T. induction ts as [|[e|inner txt] r IH]; intro H; [reflexivity| |];
    cbn [forallb] in H; apply andb_prop in H; destruct H as [H1 H2]; simpl chunk.
  - apply wfg_add; [exact H1|exact (IH H2)].
  - cbn [forallb]. rewrite (IH H2). unfold wfg. cbn [snd]. simpl in H1. apply andb_prop in H1. destruct H1 as [Hw Ht].
    unfold wf_comp in Hw. apply andb_prop in Hw. destruct Hw as [Hsh Hall].
    simpl. rewrite Ht, Hsh, Hall. reflexivity.
Qed.

Lemma join_exp : forall b s l i r c, join_ok b s (GExp l i r c) = true.
Proof. intros. unfold join_ok. apply orb_true_r. Qed.

(* by construction: nothing needs a separator *)
Lemma chunk_chain : forall ts, chain_ok false (chunk ts) = true.
Proof.
  induction ts as [|[e|inner txt] r IH]; [reflexivity| |].
  - simpl chunk. pose proof (chunk_plain r) as Hp. destruct (chunk r) as [|[s [[t|] es|l i rr cc]] rest].
    + reflexivity.
    + unfold plain in Hp. cbn [forallb] in Hp. unfold plain_entry at 1 in Hp. cbn [snd] in Hp.
      rewrite andb_false_r in Hp. discriminate.
    + exact IH.
    + unfold add_atom. cbn [chain_ok is_imp]. cbn [chain_ok is_imp] in IH. rewrite join_exp in *. exact IH.
  - simpl chunk. cbn [chain_ok is_imp]. rewrite join_exp, IH. reflexivity.
Qed.

Lemma chunk_nonempty : forall ts, ts <> [] -> chunk ts <> [].
Proof.
  intros [|[e|inner txt] r] H; [congruence| |discriminate].
  simpl. destruct (chunk r) as [|[s [[t|] es|l i rr cc]] rest]; discriminate.
Qed.

Lemma chunk_wf : forall T ts, ts <> [] -> forallb (tok_wf T) ts = true -> wf_comp T (chunk ts) = true.
Proof.
  intros T ts Hne H. unfold wf_comp. fold (wfg T). rewrite (chunk_wfg T ts H), andb_true_r.
  pose proof (chunk_chain ts) as Hc. pose proof (chunk_nonempty ts Hne) as Hn.
  destruct (chunk ts) as [|[s g] l]; [congruence|]. cbn [chain_ok] in Hc.
  apply andb_prop in Hc. destruct Hc as [_ Hc]. exact Hc.
Qed.

Lemma v_comp_add : forall T e c, plain c = true -> v_comp T (add_atom e c) = v_elem T e :: v_comp T c.
Proof.
  intros T e [|[s [[t|] es|l i r cc]] rest] H; try reflexivity.
Qed.

Lemma v_comp_chunk : forall T ts, v_comp T (chunk ts) = flat_map (v_tok T) ts.
Proof.
  intros T. induction ts as [|[e|inner txt] r IH]; [reflexivity| |].
  - simpl chunk. rewrite v_comp_add by apply chunk_plain. rewrite IH. reflexivity.
  - simpl chunk. unfold v_comp in *. simpl flat_map. rewrite IH. reflexivity.
Qed.

(* ---------------------------------------------------------------- the normal form, without fuel *)
Fixpoint norm_frag (rnd : Q -> Q) (f : frag) : list (Q * frag) :=
  match f with
  | FAtom _ => []
  | FGroup l =>
      (fix go (l : list (Q * frag)) : list (Q * frag) :=
         match l with
         | [] => []
         | (c, FAtom a) :: r => (rnd c, FAtom a) :: go r
         | (c, g) :: r =>
             ((if Qeq_bool (rnd c) 1 then norm_frag rnd g else [(rnd c, FGroup (norm_frag rnd g))]) ++ go r)%list
         end) l
  end.

Lemma norm_atom : forall rnd c a r,
  norm_frag rnd (FGroup ((c, FAtom a) :: r)) = (rnd c, FAtom a) :: norm_frag rnd (FGroup r).
Proof. reflexivity. Qed.
Lemma norm_group : forall rnd c g r,
  norm_frag rnd (FGroup ((c, FGroup g) :: r)) =
  ((if Qeq_bool (rnd c) 1 then norm_frag rnd (FGroup g) else [(rnd c, FGroup (norm_frag rnd (FGroup g)))])
   ++ norm_frag rnd (FGroup r))%list.
Proof. reflexivity. Qed.

Lemma frag_depth_cons : forall c f r,
  frag_depth (FGroup ((c, f) :: r)) = S (Nat.max (frag_depth f) (Nat.pred (frag_depth (FGroup r)))).
Proof. reflexivity. Qed.

(* C13Check.normalize_items with enough fuel is the normal form *)
Lemma normalize_items_norm : forall rnd fuel l, (frag_depth (FGroup l) <= fuel)%nat ->
  normalize_items rnd fuel l = norm_frag rnd (FGroup l).
Proof.
  intros rnd. induction fuel as [|k IH]; intros l H.
  - simpl in H. lia.
  - induction l as [|[c f] r IHr]; [reflexivity|].
    rewrite frag_depth_cons in H.
    assert (Hr : (frag_depth (FGroup r) <= S k)%nat) by (simpl in *; lia).
    change (normalize_items rnd (S k) ((c, f) :: r)) with
      ((match f with
        | FAtom a => [(rnd c, FAtom a)]
        | FGroup g => if Qeq_bool (rnd c) 1 then normalize_items rnd k g
                      else [(rnd c, FGroup (normalize_items rnd k g))]
        end) ++ normalize_items rnd (S k) r)%list.
    rewrite (IHr Hr). destruct f as [a|g].
    + rewrite norm_atom. reflexivity.
    + rewrite norm_group. rewrite (IH g) by lia. reflexivity.
Qed.

Lemma normalize_norm : forall s, normalize s = norm_frag round6 (FGroup s).
Proof. intro s. unfold normalize. apply normalize_items_norm. lia. Qed.

(* ---------------------------------------------------------------- the tokens of a printable structure *)
Lemma regroup_norm : forall q inner,
  regroup q inner = if Qeq_bool q 1 then inner else [(q, FGroup inner)].
Proof. reflexivity. Qed.

Theorem toks_ok : forall P T f,
  match f with
  | FAtom _ => True
  | FGroup _ =>
      printable_frag P T f = true ->
      forallb (tok_wf T) (toks P f) = true /\ toks P f <> [] /\
      flat_map (v_tok T) (toks P f) = norm_frag round6 f
  end.
Proof.
  intros P T f. induction f as [a|l IH] using frag_ind'; [exact I|].
  assert (Q : items_ok P T l = true ->
              forallb (tok_wf T) (toks P (FGroup l)) = true /\ (l <> [] -> toks P (FGroup l) <> []) /\
              flat_map (v_tok T) (toks P (FGroup l)) = norm_frag round6 (FGroup l)).
  { induction l as [|[c [a|g]] r IHr]; intro H.
    - repeat split. congruence.
    - inversion IH as [|? ? _ Hr]; subst. rewrite items_ok_cons in H.
      apply andb_prop in H. destruct H as [H Hrest]. apply andb_prop in H. destruct H as [Hc Ha].
      simpl in Ha. destruct (IHr Hr Hrest) as (W & _ & V). destruct (elem_of_ok P T a c Ha Hc) as [We Ve].
      rewrite toks_atom, norm_atom. repeat split.
      + cbn [forallb tok_wf]. rewrite We, W. reflexivity.
      + discriminate.
      + cbn [flat_map v_tok]. rewrite Ve, V. reflexivity.
    - inversion IH as [|? ? Hg Hr]; subst. cbn [snd] in Hg. rewrite items_ok_cons in H.
      apply andb_prop in H. destruct H as [H Hrest]. apply andb_prop in H. destruct H as [Hc Hpg].
      destruct (IHr Hr Hrest) as (W & _ & V). destruct (Hg Hpg) as (Wg & Ng & Vg).
      rewrite toks_group, norm_group. unfold count_ok in Hc. destruct (Qeq_bool c 1) eqn:E.
      + apply Qeq_bool_iff in E. rewrite (round6_one c E). change (Qeq_bool 1 1) with true. cbv iota.
        repeat split.
        * rewrite forallb_app, Wg, W. reflexivity.
        * intros _ Habs. apply app_eq_nil in Habs. destruct Habs as [Habs _]. exact (Ng Habs).
        * rewrite flat_map_app, Vg, V. reflexivity.
      + simpl in Hc. destruct (parse_dec_count _ Hc) as (q & Hq).
        assert (Er : round6 c = q) by (unfold round6; rewrite Hq; reflexivity).
        assert (Ev : cv (Some (fmt_count (round64 c))) = q) by (unfold cv; simpl; rewrite Hq; reflexivity).
        repeat split.
        * cbn [app forallb tok_wf]. rewrite (chunk_wf T _ Ng Wg), Hc, W. reflexivity.
        * discriminate.
        * cbn [app flat_map v_tok]. rewrite v_comp_chunk, Vg, V, Ev, Er, regroup_norm. reflexivity. }
  intro H. rewrite printable_group in H. apply andb_prop in H. destruct H as [Hne Hit].
  destruct (Q Hit) as (W & N & V). split; [exact W|]. split; [|exact V].
  apply N. destruct l; [discriminate|discriminate].
Qed.

(* 2. printable structures have well-formed trees; the unambiguity conditions hold by construction *)
Theorem printable_wf : forall P T s, printable P T s = true -> wfb T (cstring_of_struct P s) = true.
Proof.
  intros P T s H. destruct (toks_ok P T (FGroup s) H) as (W & N & _).
  unfold wfb, cstring_of_struct, tree_of_struct. cbn [c_comp c_density].
  rewrite (chunk_wf T _ N W). reflexivity.
Qed.

Lemma tree_value : forall P T s, printable P T s = true -> v_comp T (tree_of_struct P s) = normalize s.
Proof.
  intros P T s H. destruct (toks_ok P T (FGroup s) H) as (_ & _ & V).
  unfold tree_of_struct. rewrite v_comp_chunk, V, normalize_norm. reflexivity.
Qed.

(* 3. print, then parse: the normal form, exactly *)
Theorem roundtrip : forall P T s, printable P T s = true ->
  p_compound T (str_atoms P s) = POk (normalize s, DNone) "".
Proof.
  intros P T s H. rewrite <- render_tree_of_struct.
  rewrite (compound_accept T _ (printable_wf P T s H)).
  unfold cstring_of_struct. cbn [c_comp c_density]. rewrite (tree_value P T s H). reflexivity.
Qed.

Corollary roundtrip_struct_eqb : forall P T s, printable P T s = true ->
  exists st, p_compound T (str_atoms P s) = POk (st, DNone) "" /\ st = normalize s.
Proof. intros P T s H. exists (normalize s). split; [apply roundtrip; exact H|reflexivity]. Qed.

Corollary roundtrip_formula : forall E P T s, printable P T s = true ->
  parse_compound E T (str_atoms P s) = Some (ROk (new_formula E (normalize s) KTuple None None None)).
Proof. intros E P T s H. unfold parse_compound. rewrite (roundtrip P T s H). reflexivity. Qed.

(* ---------------------------------------------------------------- atoms are preserved when the printed precision is exact *)
Fixpoint exact_frag (f : frag) : bool :=
  match f with
  | FAtom _ => true
  | FGroup l =>
      (fix go (l : list (Q * frag)) : bool :=
         match l with
         | [] => true
         | (c, f') :: r => (Qeq_bool (round6 c) c && exact_frag f' && go r)%bool
         end) l
  end.
(* every count of the structure is its own six-digit rounding *)
Definition exact_counts (s : struct) : bool := exact_frag (FGroup s).

Lemma exact_cons : forall c f r,
  exact_frag (FGroup ((c, f) :: r)) = (Qeq_bool (round6 c) c && exact_frag f && exact_frag (FGroup r))%bool.
Proof. reflexivity. Qed.

Lemma norm_cnt : forall b f, exact_frag f = true ->
  match f with FAtom _ => True | FGroup _ => (cnt b (FGroup (norm_frag round6 f)) == cnt b f)%Q end.
Proof.
  intros b f. induction f as [a|l IH] using frag_ind'; [intros; exact I|].
  induction l as [|[c [a|g]] r IHr]; intro H.
  - reflexivity.
  - inversion IH as [|? ? _ Hr]; subst. rewrite exact_cons in H.
    apply andb_prop in H. destruct H as [H Hrest]. apply andb_prop in H. destruct H as [Hc _].
    apply Qeq_bool_iff in Hc. rewrite norm_atom, !cnt_group_cons, (IHr Hr Hrest), Hc. reflexivity.
  - inversion IH as [|? ? Hg Hr]; subst. cbn [snd] in Hg. rewrite exact_cons in H.
    apply andb_prop in H. destruct H as [H Hrest]. apply andb_prop in H. destruct H as [Hc Hge].
    apply Qeq_bool_iff in Hc. rewrite norm_group, cnt_app, (IHr Hr Hrest), cnt_group_cons.
    specialize (Hg Hge). destruct (Qeq_bool (round6 c) 1) eqn:E.
    + apply Qeq_bool_iff in E. rewrite Hg. rewrite <- Hc, E. ring.
    + rewrite cnt_group_cons, cnt_group_nil, Hg, Hc. ring.
Qed.

Theorem roundtrip_atoms : forall E P T s, printable P T s = true -> exact_counts s = true ->
  exists f, parse_compound E T (str_atoms P s) = Some (ROk f) /\
            forall b, (dget0 (f_atoms f) b == dget0 (count_atoms s) b)%Q.
Proof.
  intros E P T s H He. eexists. split; [apply roundtrip_formula; exact H|].
  intro b. unfold f_atoms. change (f_struct (new_formula E (normalize s) KTuple None None None)) with (normalize s).
  rewrite !count_atoms_spec. unfold cnt_s. rewrite normalize_norm. exact (norm_cnt b (FGroup s) He).
Qed.

(* 4. repr and named formulas *)
Lemma repr_shape : forall P f, repr_formula P f = "formula('" ++ str_formula P f ++ "')".
Proof. reflexivity. Qed.
Lemma str_named : forall P f n, f_name f = Some n -> n <> "" -> str_formula P f = n.
Proof.
  intros P f n H Hn. unfold str_formula. rewrite H. destruct (String.eqb n "") eqn:E; [|reflexivity].
  apply String.eqb_eq in E. contradiction.
Qed.
Lemma str_unnamed : forall P f, f_name f = None \/ f_name f = Some "" -> str_formula P f = str_atoms P (f_struct f).
Proof. intros P f [H|H]; unfold str_formula; rewrite H; reflexivity. Qed.

(* ---------------------------------------------------------------- an example, so that nothing above is vacuous *)
Definition ex_struct : struct :=
  [(1, FAtom (mkAtom 20 0 0));
   (1, FGroup [(1, FAtom (mkAtom 6 0 0)); (3, FAtom (mkAtom 8 18 0))]);
   (6, FGroup [(2, FAtom (mkAtom 1 0 0)); (1, FAtom (mkAtom 8 0 0))]);
   (1 # 2, FAtom (mkAtom 1 2 1));
   (1234567, FGroup [(1, FGroup [(25 # 10, FAtom (mkAtom 26 56 2))]); (1, FAtom (mkAtom 17 0 (-1)))])]%Q.

Example ex_struct_printable :
  printable the_penv the_ptable ex_struct = true /\
  str_atoms the_penv ex_struct = "CaCO[18]3(H2O)6D{+}0.5(Fe[56]{2+}2.5Cl{-})1234570" /\
  exact_counts ex_struct = false.
Proof. vm_compute. repeat split. Qed.
