(* Proofs/C05Sweep3.v — part 3 of the kernel-evaluated sweep over the regenerated .nff tables. *)
From Coq Require Import String List.
From PT Require Import Xsf C05SweepDefs.
From PT.Gen Require Import NffIndex.
Lemma chunk3_ok : chunk_ok nff_files_3 = true.
Proof. vm_compute. reflexivity. Qed.
