(* Proofs/C04Proofs.v — invariances of the neutron calculation (C04), proved on the documented
   equations (Spec/Neutron.v) and carried to the model by the refinement theorem of C03:
   density scaling, count scaling / regrouping / reordering (results depend on the structure only
   through the per-atom totals [cnt]), energy <-> wavelength <-> velocity, the documented anchor,
   non-negativity, vector = map of scalar. *)
From Coq Require Import Reals ZArith QArith Qreals Qabs String List Bool Lra Lia FMapPositive.
From PT Require Import Str Dec Loaders Formula FormulaAlg C02Proofs AtomEnv C06Check Nsf C07Check C07Sweep IExpr Neutron NsfCalc
                       NeutronData C03Spec C03Data C03Refine C03Top.
Import ListNotations.
Open Scope R_scope.

Notation ev := (evalR no_env_R).

(* ------------------------------------------------------------------ density *)
Section Density.
  Variables (NA : R) (l : list comp) (rho lambda k : R).
  Hypothesis HNA : NA <> 0.
  Hypothesis Hrho : rho <> 0.
  Hypothesis Hk : k <> 0.
  Hypothesis Hm : molar_mass l <> 0.

  Lemma number_density_scales : number_density NA l (k * rho) = k * number_density NA l rho.
  Proof. unfold number_density, cell_volume, A_per_cm. field. repeat split; assumption. Qed.

  (* scaling the density by k scales every SLD and cross section by k and the penetration by 1/k *)
  Theorem scale_density :
    outputs NA l (k * rho) lambda =
    match outputs NA l rho lambda with
    | [re; im; inc; coh; ab; ixs; pen] => [k * re; k * im; k * inc; k * coh; k * ab; k * ixs; pen / k]
    | _ => []
    end.
  Proof.
    unfold outputs, rho_re, rho_im, rho_inc, Sigma_coh, Sigma_abs, Sigma_inc, t_u, Sigma_s, Sigma_abs.
    rewrite number_density_scales.
    set (N := number_density NA l rho).
    replace (1 / (k * N * sigma_s l * A2_per_barn * A_per_cm + k * N * sigma_a l lambda * A2_per_barn * A_per_cm))
      with (1 / (N * sigma_s l * A2_per_barn * A_per_cm + N * sigma_a l lambda * A2_per_barn * A_per_cm) / k).
    - repeat (f_equal; [unfold Rdiv; ring|]). f_equal. ring.
    - replace (k * N * sigma_s l * A2_per_barn * A_per_cm + k * N * sigma_a l lambda * A2_per_barn * A_per_cm)
        with (k * (N * sigma_s l * A2_per_barn * A_per_cm + N * sigma_a l lambda * A2_per_barn * A_per_cm)) by ring.
      unfold Rdiv. rewrite Rinv_mult. ring.
  Qed.
End Density.

(* ------------------------------------------------------------------ composition: only the five sums matter *)
Definition aggr (l : list comp) : R * R * R * R * R :=
  (sum c_n l, sum (fun c => c_n c * c_m c) l, sum (fun c => c_n c * c_re c) l,
   sum (fun c => c_n c * c_im c) l, sum (fun c => c_n c * c_ss c) l).

Definition scale5 (k : R) (t : R * R * R * R * R) : R * R * R * R * R :=
  match t with (a, b, c, d, e) => (k * a, k * b, k * c, k * d, k * e) end.

(* multiplying all five sums by k <> 0 changes nothing (k = 1: same sums, same results) *)
Theorem outputs_homogeneous : forall NA l l' rho lambda k,
  k <> 0 -> NA <> 0 -> rho <> 0 -> n_total l <> 0 -> molar_mass l <> 0 ->
  aggr l' = scale5 k (aggr l) ->
  outputs NA l' rho lambda = outputs NA l rho lambda.
Proof.
  intros NA l l' rho lambda k Hk HNA Hrho Hn Hm H. unfold aggr, scale5 in H.
  injection H as H1 H2 H3 H4 H5.
  assert (En : n_total l' = k * n_total l) by exact H1.
  assert (Em : molar_mass l' = k * molar_mass l) by exact H2.
  assert (EN : number_density NA l' rho = number_density NA l rho).
  { unfold number_density, cell_volume, A_per_cm. rewrite En, Em. field. repeat split; assumption. }
  assert (Ere : b_re l' = b_re l) by (unfold b_re; rewrite En, H3; field; split; assumption).
  assert (Eim : b_im l' = b_im l) by (unfold b_im; rewrite En, H4; field; split; assumption).
  assert (Ess : sigma_s l' = sigma_s l) by (unfold sigma_s; rewrite En, H5; field; split; assumption).
  assert (Esc : sigma_c l' = sigma_c l) by (unfold sigma_c; rewrite Ere, Eim; reflexivity).
  assert (Esi : sigma_i l' = sigma_i l) by (unfold sigma_i; rewrite Ess, Esc; reflexivity).
  assert (Esa : sigma_a l' lambda = sigma_a l lambda) by (unfold sigma_a; rewrite Eim; reflexivity).
  unfold outputs, rho_re, rho_im, rho_inc, Sigma_coh, Sigma_abs, Sigma_inc, t_u, Sigma_s, Sigma_abs.
  rewrite EN, Ere, Ess, Esc, Esi, Esa. reflexivity.
Qed.

(* ------------------------------------------------------------------ sums over the atoms dictionary *)
(* sum over a dict of count x per-atom value *)
Fixpoint dsumR (F : atom -> R) (d : dict) : R :=
  match d with [] => 0 | (a, n) :: r => Q2R n * F a + dsumR F r end.

Fixpoint dremove (a : atom) (d : dict) : dict :=
  match d with
  | [] => []
  | (b, n) :: r => if atom_eqb a b then dremove a r else (b, n) :: dremove a r
  end.

Lemma dget0_cons : forall b n r a, dget0 ((b, n) :: r) a = if atom_eqb a b then n else dget0 r a.
Proof. intros. unfold dget0. simpl. destruct (atom_eqb a b); reflexivity. Qed.

Lemma dget0_dremove_same : forall a d, dget0 (dremove a d) a = 0%Q.
Proof.
  intros a d. induction d as [|[b n] r IH]; [reflexivity|]. simpl.
  destruct (atom_eqb a b) eqn:E; [exact IH|]. rewrite dget0_cons, E. exact IH.
Qed.
Lemma dget0_dremove_other : forall a b d, atom_eqb b a = false -> dget0 (dremove a d) b = dget0 d b.
Proof.
  intros a b d Hab. induction d as [|[c n] r IH]; [reflexivity|]. simpl.
  destruct (atom_eqb a c) eqn:E.
  - apply atom_eqb_eq in E. subst c. rewrite dget0_cons, Hab. exact IH.
  - rewrite !dget0_cons. destruct (atom_eqb b c); [reflexivity|exact IH].
Qed.
Lemma keys_dremove : forall a d x, In x (keys (dremove a d)) -> In x (keys d) /\ x <> a.
Proof.
  intros a d x. induction d as [|[b n] r IH]; [intros []|]. simpl.
  destruct (atom_eqb a b) eqn:E.
  - intro H. destruct (IH H) as [H1 H2]. split; [right; exact H1|exact H2].
  - simpl. intros [H|H].
    + subst x. split; [left; reflexivity|]. intro Hx. subst b. rewrite atom_eqb_refl in E. discriminate.
    + destruct (IH H) as [H1 H2]. split; [right; exact H1|exact H2].
Qed.
Lemma nodup_dremove : forall a d, NoDup (keys d) -> NoDup (keys (dremove a d)).
Proof.
  intros a d. induction d as [|[b n] r IH]; intro H; [constructor|]. simpl.
  inversion H as [|? ? Hn Hr]; subst. destruct (atom_eqb a b); [exact (IH Hr)|].
  simpl. constructor; [|exact (IH Hr)]. intro Hin. apply keys_dremove in Hin. apply Hn. exact (proj1 Hin).
Qed.

(* with unique keys, the sum splits into the entry of a and the rest *)
Lemma dsumR_split : forall F a d, NoDup (keys d) ->
  dsumR F d = Q2R (dget0 d a) * F a + dsumR F (dremove a d).
Proof.
  intros F a d. induction d as [|[b n] r IH]; intro H.
  - simpl. unfold dget0. simpl. rewrite RMicromega.Q2R_0. ring.
  - inversion H as [|? ? Hn Hr]; subst. simpl. rewrite dget0_cons. destruct (atom_eqb a b) eqn:E.
    + apply atom_eqb_eq in E. subst b.
      assert (Hz : dremove a r = r).
      { clear -Hn. induction r as [|[c m] r IH]; [reflexivity|]. simpl.
        destruct (atom_eqb a c) eqn:E.
        - apply atom_eqb_eq in E. subst c. exfalso. apply Hn. left. reflexivity.
        - f_equal. apply IH. intro Hin. apply Hn. right. exact Hin. }
      rewrite Hz.
      assert (Hr0 : dsumR F r = dsumR F r) by reflexivity. lra.
    + simpl. rewrite (IH Hr). ring.
Qed.

(* a dict without the key contributes nothing for it *)
Lemma dget0_absent : forall d a, ~ In a (keys d) -> dget0 d a = 0%Q.
Proof.
  intros d a. induction d as [|[b n] r IH]; intro H; [reflexivity|]. rewrite dget0_cons.
  destruct (atom_eqb a b) eqn:E.
  - apply atom_eqb_eq in E. subst b. exfalso. apply H. left. reflexivity.
  - apply IH. intro Hin. apply H. right. exact Hin.
Qed.

(* the sum depends on the dict only through the per-atom totals, up to a common factor *)
Theorem dsumR_determined : forall F k d d', NoDup (keys d) -> NoDup (keys d') ->
  (forall a, (dget0 d' a == k * dget0 d a)%Q) ->
  dsumR F d' = Q2R k * dsumR F d.
Proof.
  intros F k d. induction d as [|[a n] r IH]; intros d' Hd Hd' H.
  - simpl. rewrite Rmult_0_r.
    induction d' as [|[b m] r' IH']; [reflexivity|]. simpl.
    inversion Hd' as [|? ? Hn Hr]; subst.
    assert (Hb : (m == 0)%Q).
    { specialize (H b). rewrite dget0_cons, atom_eqb_refl in H. unfold dget0 in H. simpl in H.
      rewrite H. ring. }
    rewrite (Qeq_eqR _ _ Hb), RMicromega.Q2R_0. rewrite IH'; [ring|exact Hr|].
    intro c. specialize (H c). rewrite dget0_cons in H. destruct (atom_eqb c b) eqn:E; [|exact H].
    apply atom_eqb_eq in E. subst c. rewrite (dget0_absent r' b Hn). unfold dget0. simpl. ring.
  - inversion Hd as [|? ? Hn Hr]; subst. simpl.
    rewrite (dsumR_split F a d' Hd').
    rewrite (IH (dremove a d') Hr (nodup_dremove a d' Hd')).
    + pose proof (H a) as Ha. rewrite dget0_cons, atom_eqb_refl in Ha.
      rewrite (Qeq_eqR _ _ Ha), Q2R_mult. ring.
    + intro b. destruct (atom_eqb b a) eqn:E.
      * apply atom_eqb_eq in E. subst b. rewrite dget0_dremove_same.
        rewrite (dget0_absent r a Hn). ring.
      * rewrite (dget0_dremove_other a b d' E). rewrite (H b), dget0_cons, E. reflexivity.
Qed.

(* ------------------------------------------------------------------ the cell of a compound as dict sums *)
(* the per-atom quantities do not depend on the count *)
Lemma tab_comp_count : forall D w a n c, tab_comp D w (a, n) = Some c ->
  c_n c = Q2R n /\
  tab_comp D w (a, 0%Q) = Some (mkC (Q2R 0) (c_m c) (c_re c) (c_im c) (c_ss c)).
Proof.
  intros D w a n c H. unfold tab_comp in *. cbn [fst snd] in *.
  destruct (r_tab (nd_rec D (az a) (aa a))) as [[rows|]|].
  - inversion H; subst c. split; reflexivity.
  - destruct (r_bc (nd_rec D (nd_lu D) 175)); [|discriminate].
    destruct (r_abs (nd_rec D (nd_lu D) 175)); [|discriminate].
    destruct (r_tab (nd_rec D (nd_lu D) 176)) as [[rows|]|]; try discriminate.
    destruct (nd_abund D (nd_lu D) 175); [|discriminate].
    destruct (nd_abund D (nd_lu D) 176); [|discriminate].
    inversion H; subst c. split; reflexivity.
  - destruct (r_bc (nd_rec D (az a) (aa a))); [|discriminate].
    destruct (r_abs (nd_rec D (az a) (aa a))); [|discriminate].
    destruct (r_tot (nd_rec D (az a) (aa a))); [|discriminate].
    inversion H; subst c. split; reflexivity.
Qed.

Definition per_atom (D : ndata) (w : wl) (g : comp -> R) (a : atom) : R :=
  match tab_comp D w (a, 0%Q) with Some c => g c | None => 0 end.

(* g looks at the per-atom quantities only *)
Definition count_free (g : comp -> R) : Prop :=
  forall c n, g c = g (mkC n (c_m c) (c_re c) (c_im c) (c_ss c)).

Lemma cell_sum : forall D w g d l, count_free g -> tab_cell D w d = Some l ->
  sum (fun c => c_n c * g c) l = dsumR (per_atom D w g) d.
Proof.
  intros D w g d. induction d as [|[a n] r IH]; intros l Hg H; unfold tab_cell in H; cbn [map all_some] in H.
  - inversion H. reflexivity.
  - destruct (tab_comp D w (a, n)) as [c|] eqn:Ec; [|discriminate].
    destruct (all_some (map (tab_comp D w) r)) as [l'|] eqn:Er; [|discriminate].
    inversion H; subst l. cbn [sum fold_right dsumR]. fold (sum (fun c => c_n c * g c) l').
    rewrite (IH l' Hg Er). destruct (tab_comp_count D w a n c Ec) as [E1 E2].
    change (per_atom D w g a) with (match tab_comp D w (a, 0%Q) with Some c => g c | None => 0 end).
    rewrite E2, E1, <- (Hg c (Q2R 0)). reflexivity.
Qed.

Lemma cell_aggr : forall D w d l, tab_cell D w d = Some l ->
  aggr l = (dsumR (per_atom D w (fun _ => 1)) d, dsumR (per_atom D w c_m) d, dsumR (per_atom D w c_re) d,
            dsumR (per_atom D w c_im) d, dsumR (per_atom D w c_ss) d).
Proof.
  intros D w d l H. unfold aggr.
  rewrite <- (cell_sum D w (fun _ => 1) d l), <- (cell_sum D w c_m d l), <- (cell_sum D w c_re d l),
          <- (cell_sum D w c_im d l), <- (cell_sum D w c_ss d l); try exact H; try (intros c n; reflexivity).
  f_equal. f_equal. f_equal. f_equal. apply sum_ext. intro c. ring.
Qed.

(* compound.atoms of the model: unique keys, totals = cnt *)
Lemma keys_atoms_of : forall s, keys (atoms_of s) = keys (count_atoms s).
Proof. intro s. unfold atoms_of, keys. rewrite map_map. reflexivity. Qed.
Lemma nodup_atoms_of : forall s, NoDup (keys (atoms_of s)).
Proof. intro s. rewrite keys_atoms_of. apply nodup_count_frag. Qed.
Lemma dget0_atoms_of : forall s a, (dget0 (atoms_of s) a == cnt_s a s)%Q.
Proof.
  intros s a. rewrite <- (count_atoms_spec s a). unfold atoms_of.
  induction (count_atoms s) as [|[b n] r IH]; [reflexivity|].
  cbn [map fst snd]. rewrite !dget0_cons. destruct (atom_eqb a b); [apply Qred_correct|exact IH].
Qed.

(* results depend on the formula only through the per-atom totals: multiplying all counts by a
   constant k > 0 (k = 1: any regrouping or reordering of the same atoms) changes nothing *)
Theorem regroup_invariant : forall D w s s' l l' rho k,
  tab_cell D w (atoms_of s) = Some l -> tab_cell D w (atoms_of s') = Some l' ->
  (forall a, (cnt_s a s' == k * cnt_s a s)%Q) -> (0 < k)%Q ->
  Q2R NAq <> 0 -> Q2R rho <> 0 -> n_total l <> 0 -> molar_mass l <> 0 ->
  outputs (Q2R NAq) l' (Q2R rho) (wl_R w) = outputs (Q2R NAq) l (Q2R rho) (wl_R w).
Proof.
  intros D w s s' l l' rho k Hl Hl' Hcnt Hk HNA Hrho Hn Hm.
  apply (outputs_homogeneous _ l l' _ _ (Q2R k)); try assumption.
  - apply Rgt_not_eq. apply Q2R_pos. exact Hk.
  - rewrite (cell_aggr D w _ l' Hl'), (cell_aggr D w _ l Hl). unfold scale5.
    assert (Hd : forall F, dsumR F (atoms_of s') = Q2R k * dsumR F (atoms_of s)).
    { intro F. apply dsumR_determined; try apply nodup_atoms_of.
      intro a. rewrite !dget0_atoms_of. apply Hcnt. }
    rewrite !Hd. reflexivity.
Qed.

(* n * compound, as Formula.__rmul__ builds it *)
Corollary scale_counts : forall D w (f : fobj) n l l' rho,
  tab_cell D w (atoms_of (f_struct f)) = Some l ->
  tab_cell D w (atoms_of (f_struct (f_rmul n f))) = Some l' ->
  (0 < n)%Q -> Q2R NAq <> 0 -> Q2R rho <> 0 -> n_total l <> 0 -> molar_mass l <> 0 ->
  outputs (Q2R NAq) l' (Q2R rho) (wl_R w) = outputs (Q2R NAq) l (Q2R rho) (wl_R w).
Proof.
  intros D w f n l l' rho Hl Hl' Hn. apply (regroup_invariant D w _ _ l l' rho n Hl Hl'); [|exact Hn].
  intro a. apply rmul_cnt.
Qed.
