(* Proofs/C04Proofs.v — invariances of the neutron calculation (C04), proved on the documented
   equations (Spec/Neutron.v) and carried to the model by the refinement theorem of C03:
   density scaling, count scaling / regrouping / reordering (results depend on the structure only
   through the per-atom totals [cnt]), energy <-> wavelength <-> velocity, the documented anchor,
   non-negativity, vector = map of scalar. *)
From Coq Require Import Reals ZArith QArith Qreals Qabs String List Bool Lra Lia FMapPositive.
From PT Require Import Str Dec Loaders Formula FormulaAlg C02Proofs AtomEnv C06Check Nsf C07Check C07Sweep IExpr Neutron NsfCalc
                       NeutronData C03Spec C03Data C03Refine C03Top.
Import ListNotations.
Open Scope R_scope.

Notation ev := (evalR no_env_R).

(* ------------------------------------------------------------------ density *)
Section Density.
  Variables (NA : R) (l : list comp) (rho lambda k : R).
  Hypothesis HNA : NA <> 0.
  Hypothesis Hrho : rho <> 0.
  Hypothesis Hk : k <> 0.
  Hypothesis Hm : molar_mass l <> 0.

  Lemma number_density_scales : number_density NA l (k * rho) = k * number_density NA l rho.
  Proof. unfold number_density, cell_volume, A_per_cm. field. repeat split; assumption. Qed.

  (* scaling the density by k scales every SLD and cross section by k and the penetration by 1/k *)
  Theorem scale_density :
    outputs NA l (k * rho) lambda =
    match outputs NA l rho lambda with
    | [re; im; inc; coh; ab; ixs; pen] => [k * re; k * im; k * inc; k * coh; k * ab; k * ixs; pen / k]
    | _ => []
    end.
  Proof.
    unfold outputs, rho_re, rho_im, rho_inc, Sigma_coh, Sigma_abs, Sigma_inc, t_u, Sigma_s, Sigma_abs.
    rewrite number_density_scales.
    set (N := number_density NA l rho).
    replace (1 / (k * N * sigma_s l * A2_per_barn * A_per_cm + k * N * sigma_a l lambda * A2_per_barn * A_per_cm))
      with (1 / (N * sigma_s l * A2_per_barn * A_per_cm + N * sigma_a l lambda * A2_per_barn * A_per_cm) / k).
    - repeat (f_equal; [unfold Rdiv; ring|]). f_equal. ring.
    - replace (k * N * sigma_s l * A2_per_barn * A_per_cm + k * N * sigma_a l lambda * A2_per_barn * A_per_cm)
        with (k * (N * sigma_s l * A2_per_barn * A_per_cm + N * sigma_a l lambda * A2_per_barn * A_per_cm)) by ring.
      unfold Rdiv. rewrite Rinv_mult. ring.
  Qed.
End Density.

(* ------------------------------------------------------------------ composition: only the five sums matter *)
Definition aggr (l : list comp) : R * R * R * R * R :=
  (sum c_n l, sum (fun c => c_n c * c_m c) l, sum (fun c => c_n c * c_re c) l,
   sum (fun c => c_n c * c_im c) l, sum (fun c => c_n c * c_ss c) l).

Definition scale5 (k : R) (t : R * R * R * R * R) : R * R * R * R * R :=
  match t with (a, b, c, d, e) => (k * a, k * b, k * c, k * d, k * e) end.

(* multiplying all five sums by k <> 0 changes nothing (k = 1: same sums, same results) *)
Theorem outputs_homogeneous : forall NA l l' rho lambda k,
  k <> 0 -> NA <> 0 -> rho <> 0 -> n_total l <> 0 -> molar_mass l <> 0 ->
  aggr l' = scale5 k (aggr l) ->
  outputs NA l' rho lambda = outputs NA l rho lambda.
Proof.
  intros NA l l' rho lambda k Hk HNA Hrho Hn Hm H. unfold aggr, scale5 in H.
  injection H as H1 H2 H3 H4 H5.
  assert (En : n_total l' = k * n_total l) by exact H1.
  assert (Em : molar_mass l' = k * molar_mass l) by exact H2.
  assert (EN : number_density NA l' rho = number_density NA l rho).
  { unfold number_density, cell_volume, A_per_cm. rewrite En, Em. field. repeat split; assumption. }
  assert (Ere : b_re l' = b_re l) by (unfold b_re; rewrite En, H3; field; split; assumption).
  assert (Eim : b_im l' = b_im l) by (unfold b_im; rewrite En, H4; field; split; assumption).
  assert (Ess : sigma_s l' = sigma_s l) by (unfold sigma_s; rewrite En, H5; field; split; assumption).
  assert (Esc : sigma_c l' = sigma_c l) by (unfold sigma_c; rewrite Ere, Eim; reflexivity).
  assert (Esi : sigma_i l' = sigma_i l) by (unfold sigma_i; rewrite Ess, Esc; reflexivity).
  assert (Esa : sigma_a l' lambda = sigma_a l lambda) by (unfold sigma_a; rewrite Eim; reflexivity).
  unfold outputs, rho_re, rho_im, rho_inc, Sigma_coh, Sigma_abs, Sigma_inc, t_u, Sigma_s, Sigma_abs.
  rewrite EN, Ere, Ess, Esc, Esi, Esa. reflexivity.
Qed.

(* ------------------------------------------------------------------ sums over the atoms dictionary *)
(* sum over a dict of count x per-atom value *)
Fixpoint dsumR (F : atom -> R) (d : dict) : R :=
  match d with [] => 0 | (a, n) :: r => Q2R n * F a + dsumR F r end.

Fixpoint dremove (a : atom) (d : dict) : dict :=
  match d with
  | [] => []
  | (b, n) :: r => if atom_eqb a b then dremove a r else (b, n) :: dremove a r
  end.

Lemma dget0_cons : forall b n r a, dget0 ((b, n) :: r) a = if atom_eqb a b then n else dget0 r a.
Proof. intros. unfold dget0. simpl. destruct (atom_eqb a b); reflexivity. Qed.

Lemma dget0_dremove_same : forall a d, dget0 (dremove a d) a = 0%Q.
Proof.
  intros a d. induction d as [|[b n] r IH]; [reflexivity|]. simpl.
  destruct (atom_eqb a b) eqn:E; [exact IH|]. rewrite dget0_cons, E. exact IH.
Qed.
Lemma dget0_dremove_other : forall a b d, atom_eqb b a = false -> dget0 (dremove a d) b = dget0 d b.
Proof.
  intros a b d Hab. induction d as [|[c n] r IH]; [reflexivity|]. simpl.
  destruct (atom_eqb a c) eqn:E.
  - apply atom_eqb_eq in E. subst c. rewrite dget0_cons, Hab. exact IH.
  - rewrite !dget0_cons. destruct (atom_eqb b c); [reflexivity|exact IH].
Qed.
Lemma keys_dremove : forall a d x, In x (keys (dremove a d)) -> In x (keys d) /\ x <> a.
Proof.
  intros a d x. induction d as [|[b n] r IH]; [intros []|]. simpl.
  destruct (atom_eqb a b) eqn:E.
  - intro H. destruct (IH H) as [H1 H2]. split; [right; exact H1|exact H2].
  - simpl. intros [H|H].
    + subst x. split; [left; reflexivity|]. intro Hx. subst b. rewrite atom_eqb_refl in E. discriminate.
    + destruct (IH H) as [H1 H2]. split; [right; exact H1|exact H2].
Qed.
Lemma nodup_dremove : forall a d, NoDup (keys d) -> NoDup (keys (dremove a d)).
Proof.
  intros a d. induction d as [|[b n] r IH]; intro H; [constructor|]. simpl.
  inversion H as [|? ? Hn Hr]; subst. destruct (atom_eqb a b); [exact (IH Hr)|].
  simpl. constructor; [|exact (IH Hr)]. intro Hin. apply keys_dremove in Hin. apply Hn. exact (proj1 Hin).
Qed.

(* with unique keys, the sum splits into the entry of a and the rest *)
Lemma dsumR_split : forall F a d, NoDup (keys d) ->
  dsumR F d = Q2R (dget0 d a) * F a + dsumR F (dremove a d).
Proof.
  intros F a d. induction d as [|[b n] r IH]; intro H.
  - simpl. unfold dget0. simpl. rewrite RMicromega.Q2R_0. ring.
  - inversion H as [|? ? Hn Hr]; subst. simpl. rewrite dget0_cons. destruct (atom_eqb a b) eqn:E.
    + apply atom_eqb_eq in E. subst b.
      assert (Hz : dremove a r = r).
      { clear -Hn. induction r as [|[c m] r IH]; [reflexivity|]. simpl.
        destruct (atom_eqb a c) eqn:E.
        - apply atom_eqb_eq in E. subst c. exfalso. apply Hn. left. reflexivity.
        - f_equal. apply IH. intro Hin. apply Hn. right. exact Hin. }
      rewrite Hz.
      assert (Hr0 : dsumR F r = dsumR F r) by reflexivity. lra.
    + simpl. rewrite (IH Hr). ring.
Qed.

(* a dict without the key contributes nothing for it *)
Lemma dget0_absent : forall d a, ~ In a (keys d) -> dget0 d a = 0%Q.
Proof.
  intros d a. induction d as [|[b n] r IH]; intro H; [reflexivity|]. rewrite dget0_cons.
  destruct (atom_eqb a b) eqn:E.
  - apply atom_eqb_eq in E. subst b. exfalso. apply H. left. reflexivity.
  - apply IH. intro Hin. apply H. right. exact Hin.
Qed.

(* the sum depends on the dict only through the per-atom totals, up to a common factor *)
Theorem dsumR_determined : forall F k d d', NoDup (keys d) -> NoDup (keys d') ->
  (forall a, (dget0 d' a == k * dget0 d a)%Q) ->
  dsumR F d' = Q2R k * dsumR F d.
Proof.
  intros F k d. induction d as [|[a n] r IH]; intros d' Hd Hd' H.
  - simpl. rewrite Rmult_0_r.
    induction d' as [|[b m] r' IH']; [reflexivity|]. simpl.
    inversion Hd' as [|? ? Hn Hr]; subst.
    assert (Hb : (m == 0)%Q).
    { specialize (H b). rewrite dget0_cons, atom_eqb_refl in H. unfold dget0 in H. simpl in H.
      rewrite H. ring. }
    rewrite (Qeq_eqR _ _ Hb), RMicromega.Q2R_0. rewrite IH'; [ring|exact Hr|].
    intro c. specialize (H c). rewrite dget0_cons in H. destruct (atom_eqb c b) eqn:E; [|exact H].
    apply atom_eqb_eq in E. subst c. rewrite (dget0_absent r' b Hn). unfold dget0. simpl. ring.
  - inversion Hd as [|? ? Hn Hr]; subst. simpl.
    rewrite (dsumR_split F a d' Hd').
    rewrite (IH (dremove a d') Hr (nodup_dremove a d' Hd')).
    + pose proof (H a) as Ha. rewrite dget0_cons, atom_eqb_refl in Ha.
      rewrite (Qeq_eqR _ _ Ha), Q2R_mult. ring.
    + intro b. destruct (atom_eqb b a) eqn:E.
      * apply atom_eqb_eq in E. subst b. rewrite dget0_dremove_same.
        rewrite (dget0_absent r a Hn). ring.
      * rewrite (dget0_dremove_other a b d' E). rewrite (H b), dget0_cons, E. reflexivity.
Qed.

(* ------------------------------------------------------------------ the cell of a compound as dict sums *)
(* the per-atom quantities do not depend on the count *)
Lemma tab_comp_count : forall D w a n c, tab_comp D w (a, n) = Some c ->
  c_n c = Q2R n /\
  tab_comp D w (a, 0%Q) = Some (mkC (Q2R 0) (c_m c) (c_re c) (c_im c) (c_ss c)).
Proof.
  intros D w a n c H. unfold tab_comp in *. cbn [fst snd] in *.
  destruct (r_tab (nd_rec D (az a) (aa a))) as [[rows|]|].
  - inversion H; subst c. split; reflexivity.
  - destruct (r_bc (nd_rec D (nd_lu D) 175)); [|discriminate].
    destruct (r_abs (nd_rec D (nd_lu D) 175)); [|discriminate].
    destruct (r_tab (nd_rec D (nd_lu D) 176)) as [[rows|]|]; try discriminate.
    destruct (nd_abund D (nd_lu D) 175); [|discriminate].
    destruct (nd_abund D (nd_lu D) 176); [|discriminate].
    inversion H; subst c. split; reflexivity.
  - destruct (r_bc (nd_rec D (az a) (aa a))); [|discriminate].
    destruct (r_abs (nd_rec D (az a) (aa a))); [|discriminate].
    destruct (r_tot (nd_rec D (az a) (aa a))); [|discriminate].
    inversion H; subst c. split; reflexivity.
Qed.

Definition per_atom (D : ndata) (w : wl) (g : comp -> R) (a : atom) : R :=
  match tab_comp D w (a, 0%Q) with Some c => g c | None => 0 end.

(* g looks at the per-atom quantities only *)
Definition count_free (g : comp -> R) : Prop :=
  forall c n, g c = g (mkC n (c_m c) (c_re c) (c_im c) (c_ss c)).

Lemma cell_sum : forall D w g d l, count_free g -> tab_cell D w d = Some l ->
  sum (fun c => c_n c * g c) l = dsumR (per_atom D w g) d.
Proof.
  intros D w g d. induction d as [|[a n] r IH]; intros l Hg H; unfold tab_cell in H; cbn [map all_some] in H.
  - inversion H. reflexivity.
  - destruct (tab_comp D w (a, n)) as [c|] eqn:Ec; [|discriminate].
    destruct (all_some (map (tab_comp D w) r)) as [l'|] eqn:Er; [|discriminate].
    inversion H; subst l. cbn [sum fold_right dsumR]. fold (sum (fun c => c_n c * g c) l').
    rewrite (IH l' Hg Er). destruct (tab_comp_count D w a n c Ec) as [E1 E2].
    change (per_atom D w g a) with (match tab_comp D w (a, 0%Q) with Some c => g c | None => 0 end).
    rewrite E2, E1, <- (Hg c (Q2R 0)). reflexivity.
Qed.

Lemma cell_aggr : forall D w d l, tab_cell D w d = Some l ->
  aggr l = (dsumR (per_atom D w (fun _ => 1)) d, dsumR (per_atom D w c_m) d, dsumR (per_atom D w c_re) d,
            dsumR (per_atom D w c_im) d, dsumR (per_atom D w c_ss) d).
Proof.
  intros D w d l H. unfold aggr.
  rewrite <- (cell_sum D w (fun _ => 1) d l), <- (cell_sum D w c_m d l), <- (cell_sum D w c_re d l),
          <- (cell_sum D w c_im d l), <- (cell_sum D w c_ss d l); try exact H; try (intros c n; reflexivity).
  f_equal. f_equal. f_equal. f_equal. apply sum_ext. intro c. ring.
Qed.

(* compound.atoms of the model: unique keys, totals = cnt *)
Lemma keys_atoms_of : forall s, keys (atoms_of s) = keys (count_atoms s).
Proof. intro s. unfold atoms_of, keys. rewrite map_map. reflexivity. Qed.
Lemma nodup_atoms_of : forall s, NoDup (keys (atoms_of s)).
Proof. intro s. rewrite keys_atoms_of. apply nodup_count_frag. Qed.
Lemma dget0_atoms_of : forall s a, (dget0 (atoms_of s) a == cnt_s a s)%Q.
Proof.
  intros s a. rewrite <- (count_atoms_spec s a). unfold atoms_of.
  induction (count_atoms s) as [|[b n] r IH]; [reflexivity|].
  cbn [map fst snd]. rewrite !dget0_cons. destruct (atom_eqb a b); [apply Qred_correct|exact IH].
Qed.

(* results depend on the formula only through the per-atom totals: multiplying all counts by a
   constant k > 0 (k = 1: any regrouping or reordering of the same atoms) changes nothing *)
Theorem regroup_invariant : forall D w s s' l l' rho k,
  tab_cell D w (atoms_of s) = Some l -> tab_cell D w (atoms_of s') = Some l' ->
  (forall a, (cnt_s a s' == k * cnt_s a s)%Q) -> (0 < k)%Q ->
  Q2R NAq <> 0 -> Q2R rho <> 0 -> n_total l <> 0 -> molar_mass l <> 0 ->
  outputs (Q2R NAq) l' (Q2R rho) (wl_R w) = outputs (Q2R NAq) l (Q2R rho) (wl_R w).
Proof.
  intros D w s s' l l' rho k Hl Hl' Hcnt Hk HNA Hrho Hn Hm.
  apply (outputs_homogeneous _ l l' _ _ (Q2R k)); try assumption.
  - apply Rgt_not_eq. apply Q2R_pos. exact Hk.
  - rewrite (cell_aggr D w _ l' Hl'), (cell_aggr D w _ l Hl). unfold scale5.
    assert (Hd : forall F, dsumR F (atoms_of s') = Q2R k * dsumR F (atoms_of s)).
    { intro F. apply dsumR_determined; try apply nodup_atoms_of.
      intro a. rewrite !dget0_atoms_of. apply Hcnt. }
    rewrite !Hd. reflexivity.
Qed.

(* n * compound, as Formula.__rmul__ builds it *)
Corollary scale_counts : forall D w (f : fobj) n l l' rho,
  tab_cell D w (atoms_of (f_struct f)) = Some l ->
  tab_cell D w (atoms_of (f_struct (f_rmul n f))) = Some l' ->
  (0 < n)%Q -> Q2R NAq <> 0 -> Q2R rho <> 0 -> n_total l <> 0 -> molar_mass l <> 0 ->
  outputs (Q2R NAq) l' (Q2R rho) (wl_R w) = outputs (Q2R NAq) l (Q2R rho) (wl_R w).
Proof.
  intros D w f n l l' rho Hl Hl' Hn. apply (regroup_invariant D w _ _ l l' rho n Hl Hl'); [|exact Hn].
  intro a. apply rmul_cnt.
Qed.

(* ------------------------------------------------------------------ energy, wavelength, velocity *)
Section Conversions.
  Variables h e m_n u : R.
  Let EFr := energy_factor h e m_n u.
  Let VFr := velocity_factor h e m_n u.

  (* E lambda^2 is the constant ENERGY_FACTOR *)
  Theorem energy_times_wavelength_squared : forall lam, lam <> 0 ->
    energy_of_wavelength h e m_n u lam * (lam * lam) = EFr.
  Proof. intros lam H. unfold energy_of_wavelength. fold EFr. field. exact H. Qed.
  Theorem wavelength_squared_times_energy : forall E, 0 < E -> 0 <= EFr ->
    wavelength_of_energy h e m_n u E * wavelength_of_energy h e m_n u E * E = EFr.
  Proof.
    intros E HE HEF. unfold wavelength_of_energy. fold EFr. rewrite sqrt_sqrt.
    - field. lra.
    - apply Rmult_le_pos; [exact HEF|]. left. apply Rinv_0_lt_compat. exact HE.
  Qed.
  (* v lambda is the constant VELOCITY_FACTOR *)
  Theorem velocity_times_wavelength : forall v, v <> 0 ->
    v * wavelength_of_velocity h e m_n u v = VFr.
  Proof. intros v H. unfold wavelength_of_velocity. fold VFr. field. exact H. Qed.
  (* energy -> wavelength -> energy is the identity *)
  Theorem energy_round_trip : forall E, 0 < E -> 0 < EFr ->
    energy_of_wavelength h e m_n u (wavelength_of_energy h e m_n u E) = E.
  Proof.
    intros E HE HEF. unfold energy_of_wavelength, wavelength_of_energy. fold EFr.
    rewrite sqrt_sqrt.
    - field. split; lra.
    - left. apply Rdiv_lt_0_compat; assumption.
  Qed.
  (* wavelength -> energy -> wavelength as well *)
  Theorem wavelength_round_trip : forall lam, 0 < lam -> 0 < EFr ->
    wavelength_of_energy h e m_n u (energy_of_wavelength h e m_n u lam) = lam.
  Proof.
    intros lam Hl HEF. unfold energy_of_wavelength, wavelength_of_energy. fold EFr.
    replace (EFr / (EFr / (lam * lam))) with (lam * lam) by (field; split; lra).
    apply sqrt_square. lra.
  Qed.
  (* E = 1/2 m v^2 with lambda = h/(m v): the two factors are consistent, VF^2 = 2 EF . 1e-3 / (m_n u e) . 1 ...
     stated without units: EF = VF^2 (m_n u) / (2 e) * 1000 *)
  Theorem factors_consistent : e <> 0 -> m_n <> 0 -> u <> 0 ->
    EFr = VFr * VFr * (m_n * u) / (2 * e) * 1000.
  Proof. intros He Hm Hu. unfold EFr, VFr, energy_factor, velocity_factor. field. repeat split; assumption. Qed.
End Conversions.

(* the constants of the library *)
Definition h_R := Q2R H_Q.  Definition e_R := Q2R EV_Q.  Definition mn_R := Q2R MN_Q.  Definition u_R := Q2R U_Q.

Lemma consts_nonzero_c : (negb (Qeq_bool MN_Q 0) && negb (Qeq_bool U_Q 0) && negb (Qeq_bool EV_Q 0))%bool = true.
Proof. vm_compute. reflexivity. Qed.

Lemma Q2R_neq0 : forall q, Qeq_bool q 0 = false -> Q2R q <> 0.
Proof.
  intros q H E. assert (q == 0)%Q. { apply eqR_Qeq. rewrite E. symmetry. apply RMicromega.Q2R_0. }
  apply Qeq_bool_iff in H0. congruence.
Qed.

Lemma Q2R_inject_pow10 : forall n, Q2R (inject_Z (10 ^ Z.of_nat n)) = 10 ^ n.
Proof.
  intro n. unfold Q2R, inject_Z. cbn [Qnum Qden]. rewrite <- pow_IZR. lra.
Qed.

(* the rational ENERGY_FACTOR / VELOCITY_FACTOR are the documented expressions over R *)
Theorem EF_R_is_energy_factor : EF_R = energy_factor h_R e_R mn_R u_R.
Proof.
  pose proof consts_nonzero_c as H. apply andb_prop in H. destruct H as [H H3]. apply andb_prop in H. destruct H as [H1 H2].
  apply negb_true_iff in H1, H2, H3. apply Q2R_neq0 in H1, H2, H3.
  unfold EF_R, EF_spec. rewrite Q2R_Qred. unfold energy_factor_Q, energy_factor, h_R, e_R, mn_R, u_R.
  rewrite !Q2R_mult, Q2R_div', !Q2R_mult.
  - change (10 ^ 20)%Z with (10 ^ Z.of_nat 20)%Z. rewrite Q2R_inject_pow10.
    replace (Q2R 2) with 2 by (unfold Q2R; cbn [Qnum Qden]; lra).
    replace (Q2R 1000) with 1000 by (unfold Q2R; cbn [Qnum Qden]; lra). reflexivity.
  - rewrite !Q2R_mult. replace (Q2R 2) with 2 by (unfold Q2R; cbn [Qnum Qden]; lra).
    apply Rmult_integral_contrapositive_currified; [lra|].
    apply Rmult_integral_contrapositive_currified; assumption.
Qed.
Theorem VF_R_is_velocity_factor : Q2R VF_spec = velocity_factor h_R e_R mn_R u_R.
Proof.
  pose proof consts_nonzero_c as H. apply andb_prop in H. destruct H as [H H3]. apply andb_prop in H. destruct H as [H1 H2].
  apply negb_true_iff in H1, H2, H3. apply Q2R_neq0 in H1, H2, H3.
  unfold VF_spec. rewrite Q2R_Qred. unfold velocity_factor_Q, velocity_factor, h_R, e_R, mn_R, u_R.
  rewrite !Q2R_mult, Q2R_div', !Q2R_mult.
  - change (10 ^ 10)%Z with (10 ^ Z.of_nat 10)%Z. rewrite Q2R_inject_pow10. reflexivity.
  - rewrite !Q2R_mult. apply Rmult_integral_contrapositive_currified; assumption.
Qed.

(* the wavelength the model computes for energy= is the documented sqrt(h^2/(2 m_n E)) *)
Theorem wl_R_energy : forall en, wl_R (WEn en) = wavelength_of_energy h_R e_R mn_R u_R (Q2R en).
Proof. intro en. unfold wl_R, wavelength_of_energy. rewrite EF_R_is_energy_factor. reflexivity. Qed.

(* model: neutron_energy(neutron_wavelength(E)) = E, E lambda^2 = ENERGY_FACTOR, v lambda = VELOCITY_FACTOR *)
Theorem model_energy_round_trip : forall en, (0 < en)%Q ->
  ev (neutron_energy_E (neutron_wavelength_E en)) = Q2R en.
Proof.
  intros en H. unfold neutron_energy_E, neutron_wavelength_E. cbn [evalR]. unfold powerRZ'.
  change (Pos.to_nat 2) with 2%nat. rewrite !ev_cq, Q2R_EF. apply Q2R_pos in H. pose proof EF_R_pos.
  rewrite <- Rsqr_pow2. unfold Rsqr. rewrite sqrt_sqrt.
  - field. split; lra.
  - left. apply Rdiv_lt_0_compat; assumption.
Qed.
Theorem model_velocity_times_wavelength : forall v, ~ (v == 0)%Q ->
  Q2R v * ev (neutron_wavelength_from_velocity_E v) = Q2R VF_spec.
Proof.
  intros v H. unfold neutron_wavelength_from_velocity_E. cbn [evalR]. rewrite !ev_cq.
  rewrite (Qeq_eqR _ _ VF_is_spec). field.
  intro E. apply H. apply eqR_Qeq. rewrite E. symmetry. apply RMicromega.Q2R_0.
Qed.

(* the documented anchor: 1.798 A = 25.3 meV = 2200 m/s *)
Lemma anchor_c :
  (Qle_bool (Qabs (EF_spec / ((1798 # 1000) * (1798 # 1000)) - (253 # 10))) (5 # 100)
   && Qle_bool (Qabs (VF_spec / (1798 # 1000) - 2200)) 1)%bool = true.
Proof. vm_compute. reflexivity. Qed.

Lemma Q2R_Qabs : forall q, Q2R (Qabs q) = Rabs (Q2R q).
Proof.
  intro q. destruct (Qlt_le_dec q 0) as [H|H].
  - rewrite Qabs_neg by (apply Qlt_le_weak; exact H). rewrite Q2R_opp.
    apply Qlt_Rlt in H. rewrite RMicromega.Q2R_0 in H. rewrite Rabs_left; lra.
  - rewrite Qabs_pos by exact H. apply Qle_Rle in H. rewrite RMicromega.Q2R_0 in H. rewrite Rabs_right; lra.
Qed.

Theorem anchor :
  Rabs (energy_of_wavelength h_R e_R mn_R u_R lambda_0 - 253 / 10) <= 5 / 100 /\
  Rabs (velocity_of_wavelength h_R e_R mn_R u_R lambda_0 - 2200) <= 1.
Proof.
  pose proof anchor_c as H. apply andb_prop in H. destruct H as [H1 H2].
  apply Qle_bool_Rle in H1, H2. rewrite Q2R_Qabs in H1, H2.
  assert (Hl : Q2R (1798 # 1000) = lambda_0) by (unfold lambda_0, Q2R; cbn [Qnum Qden]; lra).
  assert (Hl0 : lambda_0 <> 0) by (unfold lambda_0; lra).
  split.
  - unfold energy_of_wavelength. rewrite <- EF_R_is_energy_factor. unfold EF_R.
    rewrite Q2R_minus, Q2R_div', Q2R_mult, Hl in H1.
    + replace (Q2R (253 # 10)) with (253 / 10) in H1 by (unfold Q2R; cbn [Qnum Qden]; lra).
      replace (Q2R (5 # 100)) with (5 / 100) in H1 by (unfold Q2R; cbn [Qnum Qden]; lra). exact H1.
    + rewrite Q2R_mult, Hl. apply Rmult_integral_contrapositive_currified; assumption.
  - unfold velocity_of_wavelength. rewrite <- VF_R_is_velocity_factor.
    rewrite Q2R_minus, Q2R_div', Hl in H2 by (rewrite Hl; exact Hl0).
    replace (Q2R 2200) with 2200 in H2 by (unfold Q2R; cbn [Qnum Qden]; lra).
    replace (Q2R 1) with 1 in H2 by (unfold Q2R; cbn [Qnum Qden]; lra). exact H2.
Qed.

(* energy= and the equivalent wavelength= give the same result: the documented quantities depend on
   the call's wavelength argument only through the wavelength itself *)
Theorem energy_equals_wavelength : forall D w w' d,
  wl_R w = wl_R w' -> tab_cell D w d = tab_cell D w' d.
Proof.
  intros D w w' d H. unfold tab_cell. f_equal. apply map_ext. intro p. unfold tab_comp. rewrite H. reflexivity.
Qed.

(* ------------------------------------------------------------------ non-negativity *)
Theorem calc_nonneg : forall n lam bre bim ss, 0 <= n -> 0 <= lam -> 0 <= ss ->
  match calc_R n lam bre bim ss with
  | [re; im; inc; coh; ab; ixs; pen] => 0 <= im /\ 0 <= inc /\ 0 <= coh /\ 0 <= ab /\ 0 <= ixs /\ 0 <= pen
  | _ => False
  end.
Proof.
  intros n lam bre bim ss Hn Hl Hs. unfold calc_R.
  assert (Hpi : 0 < PI) by apply PI_RGT_0.
  assert (Hsq : 0 <= sqrt (bre * bre + bim * bim) * sqrt (bre * bre + bim * bim)).
  { apply Rmult_le_pos; apply sqrt_pos. }
  assert (Hab : 0 <= Rabs bim) by apply Rabs_pos.
  repeat split.
  - apply Rabs_pos.
  - apply Rmult_le_pos; [|lra]. apply Rmult_le_pos; [exact Hn|apply sqrt_pos].
  - apply Rmult_le_pos; [exact Hn|]. apply Rmult_le_pos; [|exact Hsq]. apply Rmult_le_pos; [lra|lra].
  - apply Rmult_le_pos; [exact Hn|]. apply Rmult_le_pos; [|exact Hl]. apply Rmult_le_pos; [lra|exact Hab].
  - apply Rmult_le_pos; [exact Hn|]. apply Rmax_r.
  - unfold Rdiv. rewrite Rmult_1_l.
    assert (Hd : 0 <= n * (2000 * Rabs bim * lam) + n * ss).
    { apply Rplus_le_le_0_compat; apply Rmult_le_pos; try assumption.
      apply Rmult_le_pos; [|exact Hl]. apply Rmult_le_pos; [lra|exact Hab]. }
    destruct Hd as [Hd|Hd]; [left; apply Rinv_0_lt_compat; exact Hd|]. rewrite <- Hd, Rinv_0. lra.
Qed.

(* the documented quantities: with a positive number density, Im b_c <= 0 and sigma_s >= 0 *)
Theorem spec_nonneg : forall NA l rho lambda,
  0 < number_density NA l rho -> 0 < lambda -> b_im l <= 0 -> 0 <= sigma_s l ->
  0 <= rho_im NA l rho lambda /\ 0 <= rho_inc NA l rho /\ 0 <= Sigma_coh NA l rho /\
  0 <= Sigma_abs NA l rho lambda /\ 0 <= Sigma_inc NA l rho /\ 0 <= t_u NA l rho lambda.
Proof.
  intros NA l rho lambda HN Hl Him Hss.
  assert (Hpi : 0 < PI) by apply PI_RGT_0.
  assert (Hsa : 0 <= sigma_a l lambda).
  { rewrite sigma_a_scales_with_wavelength by lra. nra. }
  assert (Hsc : 0 <= sigma_c l).
  { unfold sigma_c, fm2_per_barn. apply Rmult_le_pos; [|lra]. apply Rmult_le_pos; [lra|]. nra. }
  assert (Hsi : 0 <= sigma_i l) by (unfold sigma_i; apply Rmax_r).
  set (N := number_density NA l rho) in *.
  assert (HA : 0 < A2_per_barn) by (unfold A2_per_barn; apply Rinv_0_lt_compat; lra).
  assert (HB : 0 < A_per_cm) by (unfold A_per_cm; lra).
  assert (HS : forall x, 0 <= x -> 0 <= N * x * A2_per_barn * A_per_cm).
  { intros x Hx. apply Rmult_le_pos; [|lra]. apply Rmult_le_pos; [|lra]. apply Rmult_le_pos; lra. }
  repeat split.
  - unfold rho_im. fold N. unfold micro. apply Rmult_le_pos; [|lra].
    apply Rmult_le_pos; [|left; apply Rinv_0_lt_compat; lra].
    apply Rmult_le_pos; [|lra]. apply Rmult_le_pos; lra.
  - unfold rho_inc. fold N. unfold A_per_fm, micro. apply Rmult_le_pos; [|lra].
    apply Rmult_le_pos; [|left; apply Rinv_0_lt_compat; lra]. apply Rmult_le_pos; [lra|apply sqrt_pos].
  - unfold Sigma_coh. fold N. apply HS. exact Hsc.
  - unfold Sigma_abs. fold N. apply HS. exact Hsa.
  - unfold Sigma_inc. fold N. apply HS. exact Hsi.
  - unfold t_u, Sigma_s, Sigma_abs. fold N. unfold Rdiv. rewrite Rmult_1_l.
    assert (Hd : 0 <= N * sigma_s l * A2_per_barn * A_per_cm + N * sigma_a l lambda * A2_per_barn * A_per_cm).
    { apply Rplus_le_le_0_compat; apply HS; assumption. }
    destruct Hd as [Hd|Hd]; [left; apply Rinv_0_lt_compat; exact Hd|]. rewrite <- Hd, Rinv_0. lra.
Qed.

(* on whole results of the model: imaginary and incoherent SLD, the three cross sections and the
   penetration depth are never negative *)
Theorem outputs_nonneg : forall D d rho w o ps,
  wl_pos w -> (0 < rho)%Q -> cell_ok D d -> compound_at D d rho w = Some (o, ps) ->
  0 <= ev (o_im o) /\ 0 <= ev (o_inc o) /\ 0 <= ev (o_coh o) /\ 0 <= ev (o_abs o) /\ 0 <= ev (o_ixs o)
  /\ 0 <= ev (o_pen o).
Proof.
  intros D d rho w o ps Hw Hrho Hcell H.
  destruct (compound_refines D d rho w o ps Hw Hrho Hcell H) as (l & Hl & Heq).
  assert (Hlam : 0 < wl_R w) by (apply (wl_R_pos EF_R_pos); exact Hw).
  destruct (cell_facts D w d l Hcell Hl) as (Hn & Hm & _ & Hss & Him).
  assert (HN : 0 < number_density (Q2R NAq) l (Q2R rho)).
  { unfold number_density, cell_volume, A_per_cm. pose proof NA_pos. apply Q2R_pos in Hrho.
    apply Rdiv_lt_0_compat; [exact Hn|]. apply Rmult_lt_0_compat; [|lra]. apply Rmult_lt_0_compat.
    - apply Rdiv_lt_0_compat; assumption.
    - apply Rdiv_lt_0_compat; lra. }
  pose proof (spec_nonneg (Q2R NAq) l (Q2R rho) (wl_R w) HN Hlam Him Hss) as Hsp.
  unfold outs_list, outputs in Heq. cbn [map] in Heq.
  injection Heq as E1 E2 E3 E4 E5 E6 E7. rewrite E2, E3, E4, E5, E6, E7. exact Hsp.
Qed.

(* ------------------------------------------------------------------ vectors *)
(* a vector of wavelengths returns, entry by entry, the result of the scalar call *)
Theorem vector_is_map : forall D s density natural_density ws v,
  neutron_scattering D s density natural_density ws = OVals v ->
  forall i w, nth_error ws i = Some w ->
    exists o, nth_error v i = Some o /\ neutron_scattering D s density natural_density [w] = OVals [o].
Proof.
  intros D s density natural_density ws v H i w Hi. unfold neutron_scattering in *.
  destruct (density_of_compound D s density natural_density) as [rho|]; [|discriminate].
  destruct (negb (forallb (fun p => has_data D (fst p)) (atoms_of s))); [discriminate|].
  destruct (Qeq_bool (rweight (e_mass (nd_env D)) (atoms_of s) * rho) 0); [discriminate|].
  destruct (all_some (map (compound_at D (atoms_of s) rho) ws)) as [v'|] eqn:Ev; [|discriminate].
  inversion H; subst v'. clear H.
  revert i v Ev Hi. induction ws as [|w0 r IH]; intros i v Ev Hi; [destruct i; discriminate|].
  cbn [map all_some] in Ev.
  destruct (compound_at D (atoms_of s) rho w0) as [o0|] eqn:E0; [|discriminate].
  destruct (all_some (map (compound_at D (atoms_of s) rho) r)) as [v'|] eqn:Er; [|discriminate].
  inversion Ev; subst v. destruct i as [|i].
  - inversion Hi; subst w0. exists o0. split; [reflexivity|]. cbn [map all_some]. rewrite E0. reflexivity.
  - cbn [nth_error] in *. apply (IH i v' eq_refl Hi).
Qed.
