(* Proofs/C01Proofs.v — the C01 theorems assembled from C01Lex / C01Wf / C01Sem / C01Accept /
   C01Consume / C01Reject: acceptance with the documented denotation, the formula object,
   examples, and the witnesses that the unambiguity side conditions of [wfb] are needed. *)
From Coq Require Import ZArith QArith String Ascii List Bool Lia.
From PT Require Import Str Dec Py Loaders Formula FormulaMachine AtomEnv Pyparse TableEnv Grammar FormulaAlg.
From PT Require Import C01Lex C01Wf C01Sem C01Accept C01Consume C01Reject C01Positions C01Stuck.
Import ListNotations.
Open Scope string_scope.

(* the density tag of a tree, read as the guide describes it *)
Definition dens_spec (t : cstring) (d : dkind) : Prop :=
  match c_density t with
  | None => d = DNone
  | Some (_, txt, m) =>
      exists q, parse_dec txt = Some q /\
                d = match m with
                    | Some ch => if Ascii.eqb ch "n" then DNat q else DIso q
                    | None => DIso q
                    end
  end.

Lemma v_dens_spec : forall t, wf_dens (c_density t) = true -> dens_spec t (v_dens (c_density t)).
Proof.
  intros t H. unfold dens_spec, v_dens. destruct (c_density t) as [[[ws txt] m]|]; [|reflexivity].
  simpl in H. apply andb_prop in H. destruct H as [H _]. apply andb_prop in H. destruct H as [_ Ht].
  destruct (parse_dec_count txt Ht) as (q & Hq). exists q. rewrite Hq. split; reflexivity.
Qed.

Theorem accept : forall T t, wfb T t = true ->
  exists st d lv,
    p_compound T (render t) = POk (st, d) "" /\
    sem_comp (t_symbol T) (c_comp t) = Some lv /\
    (forall b, cnt_s b st == leaves_cnt lv b)%Q /\
    (fweight (fun a => inject_Z (aq a)) (FGroup st) == leaves_charge lv)%Q /\
    dens_spec t d.
Proof.
  intros T t H. pose proof (compound_accept T t H) as Hp.
  unfold wfb in H. apply andb_prop in H. destruct H as [Hc Hd].
  destruct (sem_comp_ok T (c_comp t) Hc) as (lv & Hlv & _).
  exists (v_comp T (c_comp t)), (v_dens (c_density t)), lv.
  split; [exact Hp|]. split; [exact Hlv|]. split; [|split].
  - intro b. exact (sem_comp_cnt T _ lv Hc Hlv b).
  - exact (sem_comp_charge T _ lv Hc Hlv).
  - exact (v_dens_spec t Hd).
Qed.

(* the Formula object: atoms, charge, density *)
Theorem accept_formula : forall E T t, wfb T t = true ->
  exists f lv,
    parse_compound E T (render t) = Some (ROk f) /\
    sem_comp (t_symbol T) (c_comp t) = Some lv /\
    (forall b, dget0 (f_atoms f) b == leaves_cnt lv b)%Q /\
    (f_charge f == leaves_charge lv)%Q /\
    match c_density t with
    | None => f_density f = init_density E (f_struct f) None None
    | Some (_, txt, m) =>
        exists q, parse_dec txt = Some q /\
                  f_density f = match m with
                                | Some ch => if Ascii.eqb ch "n"
                                             then Some (q / natural_mass_ratio E f)%Q
                                             else Some q
                                | None => Some q
                                end
    end.
Proof.
  intros E T t H. destruct (accept T t H) as (st & d & lv & Hp & Hlv & Hcnt & Hch & Hd).
  unfold parse_compound. rewrite Hp. change (at_end "") with true. cbv iota.
  eexists. exists lv. split; [reflexivity|]. split; [exact Hlv|].
  assert (Hs : forall dn nd, f_struct (new_formula E st KTuple dn nd None) = st) by reflexivity.
  split; [|split].
  - intro b. unfold f_atoms. destruct d; rewrite Hs, count_atoms_spec; apply Hcnt.
  - unfold f_charge, f_atoms. destruct d; rewrite Hs; unfold count_atoms; rewrite dweight_count_frag; exact Hch.
  - unfold dens_spec in Hd. destruct (c_density t) as [[[ws txt] m]|].
    + destruct Hd as (q & Hq & ->). exists q. split; [exact Hq|].
      destruct m as [ch|]; [|reflexivity]. destruct (Ascii.eqb ch "n"); reflexivity.
    + subst d. reflexivity.
Qed.

(* accepted = parse_compound returns a formula *)
Lemma accepted_iff_formula : forall E T s, accepted T s <-> exists f, parse_compound E T s = Some (ROk f).
Proof.
  intros E T s. unfold accepted, parse_compound. split.
  - intros (st & d & r & Hp & He). rewrite Hp, He. eexists. reflexivity.
  - intros (f & H). destruct (p_compound T s) as [[st d] r| |e]; try discriminate.
    destruct (at_end r) eqn:He; [|discriminate]. exists st, d, r. split; [reflexivity|exact He].
Qed.

Lemma abort_is_exception : forall E T s e, p_compound T s = PAbort e -> parse_compound E T s = Some (RErr e).
Proof. intros E T s e H. unfold parse_compound. rewrite H. reflexivity. Qed.

(* ---------------------------------------------------------------- examples: the guide's strings are well formed *)
Definition s0 := mkSep "" false "".
Definition El (s : string) := mkElem s None None None.
Definition En (s : string) (n : string) := mkElem s None None (Some n).
(* CaCO3+6H2O *)
Definition ex_hydrate : cstring :=
  mkC [(s0, GImp None [El "Ca"; El "C"; En "O" "3"]); (mkSep "" true "", GImp (Some "6") [En "H" "2"; El "O"])] None.
(* HO ((CH2)2O)6 H *)
Definition ex_peg : cstring :=
  mkC [(s0, GImp None [El "H"; El "O"]);
       (mkSep " " false "",
        GExp "" [(s0, GExp "" [(s0, GImp None [El "C"; En "H" "2"])] "" (Some "2")); (s0, GImp None [El "O"])] "" (Some "6"));
       (mkSep " " false "", GImp None [El "H"])] None.
(* CaCO[18]3+(3HO1.5)2 *)
Definition ex_iso : cstring :=
  mkC [(s0, GImp None [El "Ca"; El "C"; mkElem "O" (Some "18") None (Some "3")]);
       (mkSep "" true "", GExp "" [(s0, GImp (Some "3") [El "H"; En "O" "1.5"])] "" (Some "2"))] None.
(* P{5+}O{2-}4 @1.5n *)
Definition ex_ion : cstring :=
  mkC [(s0, GImp None [mkElem "P" None (Some ("5", false)) None; mkElem "O" None (Some ("2", true)) (Some "4")])]
      (Some (" ", "1.5", Some "n"%char)).

Lemma examples_wf :
  (render ex_hydrate = "CaCO3+6H2O" /\ wfb the_ptable ex_hydrate = true) /\
  (render ex_peg = "HO ((CH2)2O)6 H" /\ wfb the_ptable ex_peg = true) /\
  (render ex_iso = "CaCO[18]3+(3HO1.5)2" /\ wfb the_ptable ex_iso = true) /\
  (render ex_ion = "P{5+}O{2-}4 @1.5n" /\ wfb the_ptable ex_ion = true).
Proof. vm_compute. repeat split. Qed.

(* ---------------------------------------------------------------- the side conditions are needed *)
(* "H2O" as H . 2O (a counted group written directly after a group): the model reads H2 . O *)
Definition amb_count : cstring := mkC [(s0, GImp None [El "H"]); (s0, GImp (Some "2") [El "O"])] None.
(* "2HO" as 2H . O (an implicit group directly after an implicit group): the model reads 2(HO) *)
Definition amb_imp : cstring := mkC [(s0, GImp (Some "2") [El "H"]); (s0, GImp None [El "O"])] None.
(* "(HO)2O" as (HO) . 2O *)
Definition amb_exp : cstring := mkC [(s0, GExp "" [(s0, GImp None [El "H"; El "O"])] "" None); (s0, GImp (Some "2") [El "O"])] None.

Definition count_of (T : ptable) (t : cstring) (b : atom) : option (Q * Q) :=
  match p_compound T (render t), sem_comp (t_symbol T) (c_comp t) with
  | POk (st, _) _, Some lv => Some (Qred (cnt_s b st), Qred (leaves_cnt lv b))
  | _, _ => None
  end.

Lemma side_conditions_needed :
  (* every other clause of wfb holds for these trees ... *)
  (forallb (fun p => wf_group the_ptable (snd p)) (c_comp amb_count) = true /\
   forallb (fun p => wf_group the_ptable (snd p)) (c_comp amb_imp) = true /\
   forallb (fun p => wf_group the_ptable (snd p)) (c_comp amb_exp) = true) /\
  (* ... but the parse and the documented reading of the tree differ *)
  count_of the_ptable amb_count (mkAtom 1 0 0) = Some (2, 1)%Q /\
  count_of the_ptable amb_imp (mkAtom 8 0 0) = Some (2, 1)%Q /\
  count_of the_ptable amb_exp (mkAtom 1 0 0) = Some (2, 1)%Q.
Proof. vm_compute. repeat split. Qed.

(* nested malformed examples: positions inside open parentheses *)
Example unknown_symbol_nested :
  p_compound the_ptable "H2(O2Xx3)3O" = PAbort ValueErr.
Proof.
  change "H2(O2Xx3)3O" with
    (r_pos (mkPos [(s0, GImp None [En "H" "2"])] s0 (BExp "" [] s0 (BImp None [En "O" "2"]))) ++ "Xx" ++ "3)3O").
  apply unknown_symbol_aborts; vm_compute; reflexivity.
Qed.

Lemma rest_is_proper_suffix : forall T s v r, p_compound T s = POk v r ->
  (exists pre, s = pre ++ r) /\ (String.length r < String.length s)%nat.
Proof.
  intros T s v r H. split; [exact (p_compound_rest_suffix T s v r H)|exact (p_compound_rest_shorter T s v r H)].
Qed.

(* "H2(O2C3)3O" with the C replaced by the unknown Xx: an instance of [replaced] *)
Definition tree_ok : comp :=
  [(s0, GImp None [En "H" "2"]);
   (s0, GExp "" [(s0, GImp None [En "O" "2"; En "C" "3"])] "" (Some "3"));
   (s0, GImp None [El "O"])].
Definition tree_bad : comp :=
  [(s0, GImp None [En "H" "2"]);
   (s0, GExp "" [(s0, GImp None [En "O" "2"; En "Xx" "3"])] "" (Some "3"));
   (s0, GImp None [El "O"])].

Example replaced_example :
  wf_comp the_ptable tree_ok = true /\ r_comp tree_bad = "H2(O2Xx3)3O" /\
  replaced tree_ok tree_bad (En "C" "3") (En "Xx" "3").
Proof.
  split; [vm_compute; reflexivity|]. split; [reflexivity|].
  exists [(s0, GImp None [En "H" "2"])], s0, (BExp "" [] s0 (BImp None [En "O" "2"])).
  eexists. split.
  - apply (AC [(s0, GImp None [En "H" "2"])] s0
              (GExp "" [(s0, GImp None [En "O" "2"; En "C" "3"])] "" (Some "3")) [(s0, GImp None [El "O"])]).
    apply AG_exp. apply (AC [] s0 (GImp None [En "O" "2"; En "C" "3"]) []).
    apply (AG_imp None [En "O" "2"] (En "C" "3") []).
  - apply (AC [(s0, GImp None [En "H" "2"])] s0
              (GExp "" [(s0, GImp None [En "O" "2"; En "Xx" "3"])] "" (Some "3")) [(s0, GImp None [El "O"])]).
    apply AG_exp. apply (AC [] s0 (GImp None [En "O" "2"; En "Xx" "3"]) []).
    apply (AG_imp None [En "O" "2"] (En "Xx" "3") []).
Qed.

(* malformed tags and counts, inside an open parenthesis after a complete group: instances of the
   left-over theorems of C01Stuck.v *)
Definition pos_nested : bpos := mkPos [(s0, GImp None [En "H" "2"])] (mkSep " " false "") (BExp "" [] s0 (BImp None [El "C"])).

Example malformed_examples :
  r_pos pos_nested = "H2 (C" /\
  ~ accepted the_ptable "H2 (CO[018]3)2" /\ ~ accepted the_ptable "H2 (CO[1.5])2" /\
  ~ accepted the_ptable "H2 (CO{+2})2" /\ ~ accepted the_ptable "H2 (CO02)2" /\
  ~ accepted the_ptable "H2 (CO*2)2".
Proof.
  split; [reflexivity|]. repeat split.
  - change "H2 (CO[018]3)2" with (r_pos pos_nested ++ r_elem (El "O") ++ String "[" "018]3)2").
    apply bad_isotope_tag_rejected; try reflexivity.
  - change "H2 (CO[1.5])2" with (r_pos pos_nested ++ r_elem (El "O") ++ String "[" "1.5])2").
    apply bad_isotope_tag_rejected; reflexivity.
  - change "H2 (CO{+2})2" with (r_pos pos_nested ++ r_elem (El "O") ++ String "{" "+2})2").
    apply bad_ion_tag_rejected; reflexivity.
  - change "H2 (CO02)2" with (r_pos pos_nested ++ r_elem (El "O") ++ "0" ++ String "2" ")2").
    apply leading_zero_anywhere; reflexivity.
  - change "H2 (CO*2)2" with (r_pos pos_nested ++ r_elem (El "O") ++ String "*" "2)2").
    apply garbage_after_element_rejected; reflexivity.
Qed.
