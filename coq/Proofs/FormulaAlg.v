(* Proofs/FormulaAlg.v — algebra of structures: _count_atoms computes the count-weighted sum,
   weights (mass, charge) are additive, n* scales, + adds. *)
From Coq Require Import ZArith QArith Qabs String List Bool Lia Setoid Morphisms.
From PT Require Import Str Dec Loaders Formula.
Import ListNotations.
Open Scope Q_scope.

(* ---------------------------------------------------------------- atoms *)
Lemma atom_eqb_eq : forall a b, atom_eqb a b = true <-> a = b.
Proof.
  intros [z1 a1 q1] [z2 a2 q2]; unfold atom_eqb; simpl. split.
  - intro H. apply andb_prop in H. destruct H as [H Hq]. apply andb_prop in H. destruct H as [Hz Ha].
    apply Z.eqb_eq in Hz, Ha, Hq. subst. reflexivity.
  - intro H. inversion H; subst. rewrite !Z.eqb_refl. reflexivity.
Qed.

Lemma atom_eqb_refl : forall a, atom_eqb a a = true.
Proof. intro a. apply atom_eqb_eq. reflexivity. Qed.

Lemma atom_eqb_sym : forall a b, atom_eqb a b = atom_eqb b a.
Proof.
  intros a b. destruct (atom_eqb a b) eqn:E.
  - apply atom_eqb_eq in E. subst. symmetry. apply atom_eqb_refl.
  - destruct (atom_eqb b a) eqn:E'; [|reflexivity]. apply atom_eqb_eq in E'. subst.
    rewrite atom_eqb_refl in E. discriminate.
Qed.

(* ---------------------------------------------------------------- induction on fragments *)
Section FragInd.
  Variable P : frag -> Prop.
  Hypothesis Hatom : forall a, P (FAtom a).
  Hypothesis Hgroup : forall l, Forall (fun p => P (snd p)) l -> P (FGroup l).
  Fixpoint frag_ind' (f : frag) : P f :=
    match f with
    | FAtom a => Hatom a
    | FGroup l =>
        Hgroup l ((fix go (l : list (Q * frag)) : Forall (fun p => P (snd p)) l :=
                     match l with
                     | [] => Forall_nil _
                     | p :: r => Forall_cons p (frag_ind' (snd p)) (go r)
                     end) l)
    end.
End FragInd.

(* ---------------------------------------------------------------- unfolding equations *)
Lemma cnt_group_nil : forall a, cnt a (FGroup []) = 0.
Proof. reflexivity. Qed.
Lemma cnt_group_cons : forall a c f r, cnt a (FGroup ((c, f) :: r)) = c * cnt a f + cnt a (FGroup r).
Proof. reflexivity. Qed.
Lemma fweight_group_nil : forall w, fweight w (FGroup []) = 0.
Proof. reflexivity. Qed.
Lemma fweight_group_cons : forall w c f r,
  fweight w (FGroup ((c, f) :: r)) = c * fweight w f + fweight w (FGroup r).
Proof. reflexivity. Qed.

(* + : a count-weighted sum over a concatenation is the sum *)
Lemma cnt_app : forall a s t, cnt a (FGroup (s ++ t)) == cnt a (FGroup s) + cnt a (FGroup t).
Proof.
  intros a s t. induction s as [|[c f] r IH].
  - simpl app. rewrite cnt_group_nil. ring.
  - simpl app. rewrite !cnt_group_cons. rewrite IH. ring.
Qed.

Lemma fweight_app : forall w s t,
  fweight w (FGroup (s ++ t)) == fweight w (FGroup s) + fweight w (FGroup t).
Proof.
  intros w s t. induction s as [|[c f] r IH].
  - simpl app. rewrite fweight_group_nil. ring.
  - simpl app. rewrite !fweight_group_cons. rewrite IH. ring.
Qed.

(* weights are the count-weighted sums of per-atom weights: fweight w f = sum_a cnt a f * w a
   is expressed through the indicator weight *)
Lemma cnt_is_fweight : forall a f, cnt a f = fweight (fun b => if atom_eqb a b then 1 else 0) f.
Proof.
  intros a f. induction f as [b|l IH] using frag_ind'.
  - reflexivity.
  - induction l as [|[c f'] r IHr].
    + reflexivity.
    + rewrite cnt_group_cons, fweight_group_cons. inversion IH as [|? ? H1 H2]; subst.
      simpl in H1. rewrite H1. rewrite (IHr H2). reflexivity.
Qed.

(* ---------------------------------------------------------------- dict sums *)
(* sum of all entries for atom b (robust to duplicate keys) *)
Fixpoint dsum (d : dict) (b : atom) : Q :=
  match d with
  | [] => 0
  | (a, w) :: r => (if atom_eqb b a then w else 0) + dsum r b
  end.

Lemma dsum_dict_add : forall d a v b,
  dsum (dict_add d a v) b == dsum d b + (if atom_eqb b a then v else 0).
Proof.
  intros d a v b. induction d as [|[c w] r IH].
  - simpl. destruct (atom_eqb b a); ring.
  - simpl. destruct (atom_eqb a c) eqn:E.
    + apply atom_eqb_eq in E. subst c. simpl. destruct (atom_eqb b a); ring.
    + simpl. rewrite IH. ring.
Qed.

Definition add_scaled (c : Q) (t : dict) (p : atom * Q) : dict := dict_add t (fst p) (snd p * c).

Lemma dsum_fold_scaled : forall part total c b,
  dsum (fold_left (add_scaled c) part total) b == dsum total b + c * dsum part b.
Proof.
  induction part as [|[a w] r IH]; intros total c b.
  - simpl. ring.
  - simpl fold_left. rewrite IH. unfold add_scaled at 1. simpl fst. simpl snd.
    rewrite dsum_dict_add. simpl dsum. destruct (atom_eqb b a); ring.
Qed.

(* the inner loop of _count_atoms *)
Definition count_go :=
  fix go (l : list (Q * frag)) (total : dict) : dict :=
    match l with
    | [] => total
    | (c, f') :: r => go r (fold_left (fun t p => dict_add t (fst p) (snd p * c)) (count_frag f') total)
    end.

Lemma count_frag_group : forall l, count_frag (FGroup l) = count_go l [].
Proof. reflexivity. Qed.

Lemma count_go_cons : forall c f r total,
  count_go ((c, f) :: r) total = count_go r (fold_left (add_scaled c) (count_frag f) total).
Proof. reflexivity. Qed.

Lemma dsum_count_go : forall b l total,
  Forall (fun p => dsum (count_frag (snd p)) b == cnt b (snd p)) l ->
  dsum (count_go l total) b == dsum total b + cnt b (FGroup l).
Proof.
  intros b l. induction l as [|[c f] r IH]; intros total H.
  - simpl. ring.
  - rewrite count_go_cons. inversion H as [|? ? H1 H2]; subst. rewrite (IH _ H2).
    rewrite dsum_fold_scaled. simpl in H1. rewrite H1. rewrite cnt_group_cons. ring.
Qed.

Theorem dsum_count_frag : forall b f, dsum (count_frag f) b == cnt b f.
Proof.
  intros b f. induction f as [a|l IH] using frag_ind'.
  - simpl. destruct (atom_eqb b a); ring.
  - rewrite count_frag_group. rewrite (dsum_count_go b l [] IH). simpl. ring.
Qed.

(* keys are unique, so the dict lookup is the sum *)
Definition keys (d : dict) : list atom := map fst d.

Lemma keys_dict_add_in : forall d a v x, In x (keys (dict_add d a v)) <-> x = a \/ In x (keys d).
Proof.
  induction d as [|[c w] r IH]; intros a v x.
  - simpl. intuition.
  - simpl. destruct (atom_eqb a c) eqn:E.
    + apply atom_eqb_eq in E. subst c. simpl. intuition.
    + simpl. rewrite IH. intuition.
Qed.

Lemma nodup_dict_add : forall d a v, NoDup (keys d) -> NoDup (keys (dict_add d a v)).
Proof.
  induction d as [|[c w] r IH]; intros a v H.
  - simpl. constructor; [intros []|constructor].
  - simpl. destruct (atom_eqb a c) eqn:E.
    + simpl. exact H.
    + simpl. inversion H as [|? ? Hn Hr]; subst. constructor.
      * intro Hin. apply keys_dict_add_in in Hin. destruct Hin as [->|Hin].
        -- rewrite atom_eqb_refl in E. discriminate.
        -- exact (Hn Hin).
      * apply IH. exact Hr.
Qed.

Lemma nodup_fold_scaled : forall part total c, NoDup (keys total) ->
  NoDup (keys (fold_left (add_scaled c) part total)).
Proof.
  induction part as [|p r IH]; intros total c H; simpl; [exact H|].
  apply IH. unfold add_scaled. apply nodup_dict_add. exact H.
Qed.

Lemma nodup_count_go : forall l total, NoDup (keys total) -> NoDup (keys (count_go l total)).
Proof.
  induction l as [|[c f] r IH]; intros total H; [exact H|].
  rewrite count_go_cons. apply IH. apply nodup_fold_scaled. exact H.
Qed.

Theorem nodup_count_frag : forall f, NoDup (keys (count_frag f)).
Proof.
  intros [a|l].
  - simpl. constructor; [intros []|constructor].
  - rewrite count_frag_group. apply nodup_count_go. constructor.
Qed.

Lemma dget0_dsum : forall d b, NoDup (keys d) -> dget0 d b == dsum d b.
Proof.
  unfold dget0. induction d as [|[a w] r IH]; intros b H.
  - simpl. ring.
  - simpl. inversion H as [|? ? Hn Hr]; subst. destruct (atom_eqb b a) eqn:E.
    + apply atom_eqb_eq in E. subst a.
      assert (Hz : dsum r b == 0).
      { clear -Hn. induction r as [|[c w'] r IH]; simpl; [ring|].
        destruct (atom_eqb b c) eqn:E.
        - apply atom_eqb_eq in E. subst c. exfalso. apply Hn. simpl. left. reflexivity.
        - rewrite IH; [ring|]. intro Hin. apply Hn. simpl. right. exact Hin. }
      rewrite Hz. ring.
    + rewrite (IH b Hr). ring.
Qed.

(* the atoms dictionary holds, for every atom, its count-weighted total *)
Theorem count_atoms_spec : forall s b, dget0 (count_atoms s) b == cnt_s b s.
Proof.
  intros s b. unfold count_atoms, cnt_s. rewrite dget0_dsum by apply nodup_count_frag.
  apply dsum_count_frag.
Qed.

Lemma dget_none_dsum : forall d b, dget d b = None -> dsum d b == 0.
Proof.
  induction d as [|[a w] r IH]; intros b H; simpl in *; [ring|].
  destruct (atom_eqb b a); [discriminate|]. rewrite (IH b H). ring.
Qed.

(* ---------------------------------------------------------------- weights over the dict *)
Lemma fold_left_acc : forall (w : atom -> Q) d acc,
  fold_left (fun acc p => acc + w (fst p) * snd p) d acc ==
  acc + fold_left (fun acc p => acc + w (fst p) * snd p) d 0.
Proof.
  intros w d. induction d as [|p r IH]; intro acc; simpl.
  - ring.
  - rewrite IH. rewrite (IH (0 + _)). ring.
Qed.

Lemma dweight_cons : forall w a v r, dweight w ((a, v) :: r) == w a * v + dweight w r.
Proof. intros. unfold dweight. simpl. rewrite fold_left_acc. ring. Qed.

Lemma dweight_dict_add : forall w d a v, dweight w (dict_add d a v) == dweight w d + w a * v.
Proof.
  intros w d a v. induction d as [|[c x] r IH].
  - simpl. rewrite dweight_cons. unfold dweight. simpl. ring.
  - simpl. destruct (atom_eqb a c) eqn:E.
    + apply atom_eqb_eq in E. subst c. rewrite !dweight_cons. ring.
    + rewrite !dweight_cons. rewrite IH. ring.
Qed.

Lemma dweight_fold_scaled : forall w part total c,
  dweight w (fold_left (add_scaled c) part total) == dweight w total + c * dweight w part.
Proof.
  intros w. induction part as [|[a x] r IH]; intros total c.
  - simpl. unfold dweight at 3. simpl. ring.
  - simpl fold_left. rewrite IH. unfold add_scaled at 1. simpl fst. simpl snd.
    rewrite dweight_dict_add. rewrite (dweight_cons w a x r). ring.
Qed.

Lemma dweight_count_go : forall w l total,
  Forall (fun p => dweight w (count_frag (snd p)) == fweight w (snd p)) l ->
  dweight w (count_go l total) == dweight w total + fweight w (FGroup l).
Proof.
  intros w l. induction l as [|[c f] r IH]; intros total H.
  - simpl. ring.
  - rewrite count_go_cons. inversion H as [|? ? H1 H2]; subst. rewrite (IH _ H2).
    rewrite dweight_fold_scaled. simpl in H1. rewrite H1. rewrite fweight_group_cons. ring.
Qed.

(* the weight computed by summing over .atoms equals the structural weight *)
Theorem dweight_count_frag : forall w f, dweight w (count_frag f) == fweight w f.
Proof.
  intros w f. induction f as [a|l IH] using frag_ind'.
  - unfold dweight. simpl. ring.
  - rewrite count_frag_group. rewrite (dweight_count_go w l [] IH). unfold dweight at 1. simpl. ring.
Qed.

Theorem dweight_count_atoms_app : forall w (s t : struct),
  dweight w (count_atoms (s ++ t)%list) == dweight w (count_atoms s) + dweight w (count_atoms t).
Proof.
  intros. unfold count_atoms. rewrite !dweight_count_frag. apply fweight_app.
Qed.
