(* Proofs/C05SweepDefs.v — boolean checks evaluated by the kernel over the regenerated .nff tables
   (Proofs/C05Sweep<k>.v, one part of the index each, compiled in parallel) and their meaning. *)
From Coq Require Import ZArith QArith Qabs String Ascii List Bool Lia Lqa Sorted.
From PT Require Import Str Dec Loaders Formula Ancillary Xsf C05Interp.
Import ListNotations.
Open Scope Q_scope.

(* the one table known to be out of order is exempted from the ordering check (and only from it) *)
Definition EXEMPT : string := "si.nff".

Definition first_key (t : xtable) : option Q := match t with r :: _ => Some (fst r) | [] => None end.
Definition last_key (t : xtable) : option Q := match rev t with r :: _ => Some (fst r) | [] => None end.
Definition oQleb (a : option Q) (q : Q) : bool := match a with Some x => Qle_bool x q | None => false end.
Definition oQgeb (a : option Q) (q : Q) : bool := match a with Some x => Qle_bool q x | None => false end.

(* 10 eV and 30000 eV as the loaded array holds them (keV, binary64): every table covers them
   (zr.nff starts at 1 eV) *)
Definition E_FIRST : Q := fl (fl (10 # 1) * EV_TO_KEV).
Definition E_LAST : Q := fl (fl (30000 # 1) * EV_TO_KEV).

Definition table_props (name : string) (t : xtable) : bool :=
  ((String.eqb name EXEMPT || increasingb t)
   && oQleb (first_key t) E_FIRST && oQgeb (last_key t) E_LAST
   && forallb (fun r => negb (Qle_bool (snd (snd r)) 0)) t)%bool.

Definition table_okb (p : string * list string) : bool :=
  match nff_table (snd p) with Some t => table_props (fst p) t | None => false end.

Definition chunk_ok (l : list (string * list string)) : bool := forallb table_okb l.

Record table_facts (name : string) (t : xtable) : Prop := {
  tf_sorted : name <> EXEMPT -> increasing t;
  tf_first : exists r l, t = r :: l /\ fst r <= E_FIRST;
  tf_last : exists l r, t = (l ++ [r])%list /\ E_LAST <= fst r;
  tf_f2pos : forall r, In r t -> 0 < snd (snd r)
}.

Lemma table_props_sound : forall name t, table_props name t = true -> table_facts name t.
Proof.
  intros name t H. unfold table_props in H.
  apply andb_prop in H. destruct H as [H H4]. apply andb_prop in H. destruct H as [H H3].
  apply andb_prop in H. destruct H as [H1 H2]. split.
  - intro Hn. apply orb_prop in H1. destruct H1 as [H1|H1].
    + apply String.eqb_eq in H1. contradiction.
    + apply increasingb_sound. exact H1.
  - unfold first_key in H2. destruct t as [|r l]; [discriminate|]. exists r, l. split; [reflexivity|].
    apply Qle_bool_iff. exact H2.
  - unfold last_key in H3. destruct (rev t) as [|r l] eqn:E; [discriminate|].
    exists (rev l), r. split.
    + rewrite <- (rev_involutive t). rewrite E. reflexivity.
    + apply Qle_bool_iff. exact H3.
  - intros r Hr. rewrite forallb_forall in H4. specialize (H4 r Hr).
    apply negb_true_iff in H4. apply Qle_bool_false_lt. exact H4.
Qed.

Lemma chunk_ok_sound : forall l, chunk_ok l = true ->
  forall name lines, In (name, lines) l -> exists t, nff_table lines = Some t /\ table_facts name t.
Proof.
  intros l H name lines Hin. unfold chunk_ok in H. rewrite forallb_forall in H.
  specialize (H _ Hin). unfold table_okb in H. simpl in H.
  destruct (nff_table lines) as [t|]; [|discriminate]. exists t. split; [reflexivity|].
  apply table_props_sound. exact H.
Qed.

(* a descent between two consecutive rows contradicts increasing abscissae *)
Lemma increasing_nth : forall A (t : list (Q * A)) i rj rk,
  increasing t -> nth_error t i = Some rj -> nth_error t (S i) = Some rk -> fst rj < fst rk.
Proof.
  intros A t. induction t as [|r l IH]; intros i rj rk S Hj Hk.
  - destruct i; discriminate.
  - destruct i as [|i].
    + simpl in Hj. inversion Hj; subst. simpl in Hk.
      apply (increasing_head_lt A rj rk l S). destruct l as [|x l']; [discriminate|].
      simpl in Hk. inversion Hk; subst. left. reflexivity.
    + simpl in Hj, Hk. apply (IH i rj rk (increasing_tail A r l S) Hj Hk).
Qed.

Definition descent_at (t : xtable) (i : nat) : bool :=
  match nth_error t i, nth_error t (S i) with
  | Some rj, Some rk => negb (Qle_bool (fst rj) (fst rk))
  | _, _ => false
  end.
