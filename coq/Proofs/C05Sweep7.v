(* Proofs/C05Sweep7.v — part 7 of the kernel-evaluated sweep over the regenerated .nff tables. *)
From Coq Require Import String List.
From PT Require Import Xsf C05SweepDefs.
From PT.Gen Require Import NffIndex.
Lemma chunk7_ok : chunk_ok nff_files_7 = true.
Proof. vm_compute. reflexivity. Qed.
