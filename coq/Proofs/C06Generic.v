(* Proofs/C06Generic.v — statements about the loader model for ANY table contents:
   the abundance flush normalises a block to 100, density relations. *)
From Coq Require Import ZArith QArith Qabs String List Bool Lia FMapPositive Setoid.
From PT Require Import Str Dec Loaders.
Import ListNotations.
Open Scope Q_scope.

(* ---------------------------------------------------------------- keys *)
Lemma key_inj : forall z a a', (0 <= z)%Z -> (0 <= a)%Z -> (0 <= a')%Z -> key z a = key z a' -> a = a'.
Proof.
  intros z a a' Hz Ha Ha' H. unfold key in H.
  assert (H' : (z * 1000 + a + 1 = z * 1000 + a' + 1)%Z).
  { apply Z2Pos.inj; [lia|lia|exact H]. }
  lia.
Qed.

Lemma tget_tset_same : forall t z a n, tget (tset t z a n) z a = Some n.
Proof. intros. unfold tget, tset. apply PositiveMap.gss. Qed.

Lemma tget_tset_other : forall t z a a' n, (0 <= z)%Z -> (0 <= a)%Z -> (0 <= a')%Z -> a <> a' ->
  tget (tset t z a n) z a' = tget t z a'.
Proof.
  intros. unfold tget, tset. apply PositiveMap.gso. intro Hk. apply H2. symmetry.
  apply (key_inj z); assumption.
Qed.

(* ---------------------------------------------------------------- the flush of one block *)
Definition ab_q (t : tbl) (z a : Z) : Q :=
  match tget t z a with Some n => match n_abund n with Some (p, _) => p | None => 0 end | None => 0 end.

Definition block_wf (t : tbl) (z : Z) (b : block) : Prop :=
  NoDup (map fst b) /\ Forall (fun x => (0 <= fst x)%Z /\ snd x <> None /\ tget t z (fst x) <> None) b.

Definition flush_step (z : Z) (total : Q) (t : tbl) (x : Z * option (Q * unc)) : option tbl :=
  match x with
  | (a, Some (p, u)) =>
      match tget t z a with
      | Some iso => if Qeq_bool total 0 then None
                    else Some (tset t z a (mkNuc (n_mass iso) (Some (Qred (100 * p / total), unc_scale (100 / total) u))))
      | None => None
      end
  | (_, None) => None
  end.

Lemma flush_unfold : forall t z b, Z.eqb z 0 = false -> tget t z 0 <> None ->
  flush t z b = match block_total b with Some total => fold_opt (flush_step z total) b t | None => None end.
Proof.
  intros t z b Hz He. unfold flush. rewrite Hz. destruct (tget t z 0) as [e|]; [|congruence]. simpl.
  destruct (block_total b) as [total|]; [|reflexivity]. simpl.
  assert (Hf : forall l s, fold_opt (fun t0 x => match x with
      | (a, Some (p, u)) => bind (tget t0 z a) (fun iso => if Qeq_bool total 0 then None
            else Some (tset t0 z a (mkNuc (n_mass iso) (Some (Qred (100 * p / total), unc_scale (100 / total) u)))))
      | (_, None) => None end) l s = fold_opt (flush_step z total) l s).
  { induction l as [|[a [[p u]|]] r IH]; intro s; simpl; reflexivity. }
  apply Hf.
Qed.

(* after flushing, an isotope of the block carries 100*p/total, any other isotope is untouched *)
Lemma flush_fold_other : forall z total b t t' a', (0 <= z)%Z -> (0 <= a')%Z ->
  Forall (fun x => (0 <= fst x)%Z) b -> ~ In a' (map fst b) ->
  fold_opt (flush_step z total) b t = Some t' -> tget t' z a' = tget t z a'.
Proof.
  intros z total b. induction b as [|[a v] r IH]; intros t t' a' Hz Ha' Hpos Hnin H; cbn [fold_opt flush_step] in H.
  - inversion H. reflexivity.
  - destruct v as [[p u]|]; cbn [fold_opt flush_step] in H; [|discriminate].
    destruct (tget t z a) as [iso|] eqn:Ea; [|discriminate]. destruct (Qeq_bool total 0); [discriminate|].
    inversion Hpos as [|? ? Hp Hr]; subst. simpl in Hp.
    assert (Hn' : ~ In a' (map fst r)) by (intro Hc; apply Hnin; right; exact Hc).
    rewrite (IH _ t' a' Hz Ha' Hr Hn' H).
    apply tget_tset_other; try assumption. intro Heq. apply Hnin. left. simpl. exact Heq.
Qed.

Lemma ab_q_of : forall t z a n p u, tget t z a = Some n -> n_abund n = Some (p, u) -> ab_q t z a = p.
Proof. intros t z a n p u H H0. unfold ab_q. rewrite H, H0. reflexivity. Qed.

Lemma flush_fold_member : forall z total b t t' a p u, (0 <= z)%Z ->
  NoDup (map fst b) -> Forall (fun x => (0 <= fst x)%Z) b -> In (a, Some (p, u)) b ->
  fold_opt (flush_step z total) b t = Some t' -> ab_q t' z a == 100 * p / total.
Proof.
  intros z total b. induction b as [|[a0 v] r IH]; intros t t' a p u Hz Hnd Hpos Hin H; [destruct Hin|].
  cbn [fold_opt flush_step] in H. destruct v as [[p0 u0]|]; cbn [fold_opt flush_step] in H; [|discriminate].
  destruct (tget t z a0) as [iso|] eqn:Ea; [|discriminate]. destruct (Qeq_bool total 0); [discriminate|].
  assert (Hn : ~ In a0 (map fst r)) by (inversion Hnd; assumption).
  assert (Hr : NoDup (map fst r)) by (inversion Hnd; assumption).
  assert (Hp : (0 <= a0)%Z) by (inversion Hpos as [|? ? Hp0 ?]; exact Hp0).
  assert (Hpr : Forall (fun x : Z * option (Q * unc) => (0 <= fst x)%Z) r) by (inversion Hpos; assumption).
  destruct Hin as [Heq|Hin].
  - assert (a0 = a) by congruence. assert (p0 = p) by congruence. subst a0 p0.
    pose proof (flush_fold_other z total r _ t' a Hz Hp Hpr Hn H) as Hg. rewrite tget_tset_same in Hg.
    rewrite (ab_q_of t' z a _ _ _ Hg eq_refl). apply Qred_correct.
  - apply (IH _ t' a p u Hz Hr Hpr Hin H).
Qed.

Definition Qsum (l : list Q) : Q := fold_right Qplus 0 l.

Lemma block_total_sum : forall b total, block_total b = Some total ->
  total == Qsum (map (fun x => match snd x with Some (p, _) => p | None => 0 end) b).
Proof.
  unfold block_total. intro b.
  assert (H : forall acc total, fold_opt (fun acc x => match snd x with Some (p, _) => Some (acc + p) | None => None end) b acc = Some total ->
              total == acc + Qsum (map (fun x => match snd x with Some (p, _) => p | None => 0 end) b)).
  { induction b as [|[a v] r IH]; intros acc total H; simpl in *.
    - inversion H. ring.
    - destruct v as [[p u]|]; [|discriminate]. simpl in H. rewrite (IH _ _ H). simpl. ring. }
  intros total Ht. rewrite (H 0 total Ht). ring.
Qed.

(* every block that is flushed gets abundances summing to 100: for ANY table and ANY block *)
Theorem flush_normalises : forall t z b t', (0 < z)%Z -> tget t z 0 <> None ->
  NoDup (map fst b) -> Forall (fun x => (0 <= fst x)%Z) b -> flush t z b = Some t' ->
  (forall a p u, In (a, Some (p, u)) b -> exists total, block_total b = Some total /\ ab_q t' z a == 100 * p / total)
  /\ (forall a', (0 <= a')%Z -> ~ In a' (map fst b) -> tget t' z a' = tget t z a').
Proof.
  intros t z b t' Hz He Hnd Hpos Hf.
  assert (Hz0 : Z.eqb z 0 = false) by (apply Z.eqb_neq; lia).
  rewrite (flush_unfold t z b Hz0 He) in Hf. destruct (block_total b) as [total|] eqn:Et; [|discriminate].
  split.
  - intros a p u Hin. exists total. split; [reflexivity|].
    apply (flush_fold_member z total b t t' a p u); try assumption. lia.
  - intros a' Ha' Hnin. apply (flush_fold_other z total b t t' a'); try assumption. lia.
Qed.

Lemma flush_total_nonzero : forall z total b t t', b <> [] -> fold_opt (flush_step z total) b t = Some t' -> ~ total == 0.
Proof.
  intros z total [|[a v] r] t t' Hne H; [congruence|]. simpl in H.
  destruct v as [[p u]|]; simpl in H; [|discriminate]. destruct (tget t z a); [|discriminate].
  destruct (Qeq_bool total 0) eqn:E; [discriminate|]. intro Hc. apply Qeq_bool_iff in Hc. congruence.
Qed.

Theorem flush_sums_to_100 : forall t z b t', (0 < z)%Z -> tget t z 0 <> None -> b <> [] ->
  NoDup (map fst b) -> Forall (fun x => (0 <= fst x)%Z) b -> flush t z b = Some t' ->
  Qsum (map (fun x => ab_q t' z (fst x)) b) == 100.
Proof.
  intros t z b t' Hz He Hne Hnd Hpos Hf.
  assert (Hz0 : Z.eqb z 0 = false) by (apply Z.eqb_neq; lia).
  pose proof Hf as Hf'. rewrite (flush_unfold t z b Hz0 He) in Hf'.
  destruct (block_total b) as [total|] eqn:Et; [|discriminate].
  pose proof (flush_total_nonzero z total b t t' Hne Hf') as Hnz.
  assert (Hall : forall x, In x b -> exists p u, snd x = Some (p, u)).
  { clear -Hf'. revert t Hf'. induction b as [|[a v] r IH]; intros t H x Hin; [destruct Hin|].
    simpl in H. destruct v as [[p u]|]; simpl in H; [|discriminate].
    destruct (tget t z a); [|discriminate]. destruct (Qeq_bool total 0); [discriminate|].
    destruct Hin as [<-|Hin]; [exists p, u; reflexivity|]. apply (IH _ H x Hin). }
  assert (Hmap : Qsum (map (fun x => ab_q t' z (fst x)) b) ==
                 Qsum (map (fun x => 100 * (match snd x with Some (p, _) => p | None => 0 end) / total) b)).
  { assert (Hgen : forall l, (forall x, In x l -> In x b) ->
       Qsum (map (fun x => ab_q t' z (fst x)) l) == Qsum (map (fun x => 100 * (match snd x with Some (p, _) => p | None => 0 end) / total) l)).
    { induction l as [|[a v] r IH]; intro Hsub; simpl; [reflexivity|].
      rewrite IH by (intros x Hx; apply Hsub; right; exact Hx).
      destruct (Hall (a, v) (Hsub _ (or_introl eq_refl))) as [p [u Hv]]. simpl in Hv. subst v. simpl.
      rewrite (flush_fold_member z total b t t' a p u); try assumption; try lia; [reflexivity|].
      apply Hsub. left. reflexivity. }
    apply Hgen. intros x Hx. exact Hx. }
  rewrite Hmap.
  assert (Hlin : forall (l : block) d, Qsum (map (fun x => 100 * (match snd x with Some (p, _) => p | None => 0 end) / d) l)
                 == 100 * Qsum (map (fun x => match snd x with Some (p, _) => p | None => 0 end) l) / d).
  { intros l d. induction l as [|[a v] r IH]; simpl.
    - unfold Qdiv. ring.
    - rewrite IH. unfold Qdiv. ring. }
  rewrite (Hlin b total). rewrite <- (block_total_sum b total Et).
  field. exact Hnz.
Qed.

(* ---------------------------------------------------------------- density relations *)
(* n = rho*N_A/m and n*d^3 = 1e24, for every density, mass and Avogadro constant *)
Theorem n_d_relation : forall (rho m na k : Q), ~ rho == 0 -> ~ m == 0 -> ~ na == 0 -> ~ k == 0 ->
  (rho / m * na) * (m / (rho * na * k)) == 1 / k.
Proof. intros. field. repeat split; assumption. Qed.

Theorem number_density_value : forall na t d z r m,
  density_of t d z 0 = Val r -> mass_of t z 0 = Val m -> Qeq_bool m 0 = false ->
  number_density_of na t d z = Val (Qred (r / m * na)).
Proof. intros na t d z r m Hr Hm Hz. unfold number_density_of. rewrite Hr, Hm, Hz. reflexivity. Qed.

(* an isotope's density is the element density scaled by the mass ratio; unknown stays unknown *)
Theorem isotope_density_scaling : forall t d z a r mi me, a <> 0%Z ->
  dens_get d z = Some (Some r) -> mass_of t z a = Val mi -> mass_of t z 0 = Val me -> Qeq_bool me 0 = false ->
  density_of t d z a = Val (Qred (r * (mi / me))).
Proof.
  intros t d z a r mi me Ha Hd Hmi Hme Hz. unfold density_of. rewrite Hd.
  destruct (Z.eqb_spec a 0) as [->|_]; [congruence|]. rewrite Hmi, Hme, Hz. reflexivity.
Qed.

Theorem isotope_density_unknown : forall t d z a, a <> 0%Z -> dens_get d z = Some None -> density_of t d z a = NoneVal.
Proof. intros t d z a Ha Hd. unfold density_of. rewrite Hd. destruct (Z.eqb_spec a 0); [congruence|reflexivity]. Qed.
