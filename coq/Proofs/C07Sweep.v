(* Proofs/C07Sweep.v — kernel-evaluated sweeps over the regenerated neutron tables:
   statements about every row of *this* table, through the loader model, against an
   independent trivial re-reading of the row text (cut at commas, cut a number at '(' / '*',
   drop a leading '<'). *)
From Coq Require Import ZArith QArith Qabs String Ascii List Bool FMapPositive Lia.
From PT Require Import Str Dec Loaders Nsf C07Check C07Fix.
From PT.Gen Require Import NsfTables DensityTable ElementBase.
Import ListNotations.
Open Scope string_scope.

(* ------------------------------------------------------------------ the independent reader *)

Fixpoint before (c : ascii) (s : string) : string :=
  match s with
  | EmptyString => ""
  | String a r => if Ascii.eqb a c then "" else String a (before c r)
  end.
Fixpoint after (c : ascii) (s : string) : string :=
  match s with
  | EmptyString => ""
  | String a r => if Ascii.eqb a c then r else after c r
  end.
(* n-th comma-separated cell *)
Fixpoint field (n : nat) (s : string) : string :=
  match n with O => before "," s | S k => field k (after "," s) end.
Fixpoint count_char (c : ascii) (s : string) : nat :=
  match s with
  | EmptyString => O
  | String a r => if Ascii.eqb a c then S (count_char c r) else count_char c r
  end.

(* the bare number of a cell: uncertainty dropped, '<' and '*' ignored, blank = missing;
   outer None = not readable *)
Definition bare (cell : string) : option (option Q) :=
  let s := match cell with String "<" r => r | _ => cell end in
  let v := before "(" (before "*" s) in
  if String.eqb cell "" then Some None else
  match parse_dec v with Some q => Some (Some q) | None => None end.

(* "Z-El" -> (Z, 0), "Z-El-A" -> (Z, A) *)
Definition name_za (name : string) : option (Z * Z) :=
  match parse_int (before "-" name) with
  | None => None
  | Some z =>
      let rest := after "-" (after "-" name) in
      if String.eqb rest "" then Some (z, 0%Z)
      else match parse_int rest with Some a => Some (z, a) | None => None end
  end.

Definition row_atoms_of (tbl : list string) : list (Z * Z) :=
  flat_map (fun l => match name_za (field 0 l) with Some p => [p] | None => [] end) tbl.
Definition row_atoms : list (Z * Z) := row_atoms_of nsftable.

(* number of rows (element or isotope) naming element z *)
Definition n_rows_of (z : Z) : nat := length (filter (fun p => Z.eqb (fst p) z) row_atoms).
(* number of isotope rows of element z *)
Definition n_iso_rows_of (z : Z) : nat :=
  length (filter (fun p => (Z.eqb (fst p) z && negb (Z.eqb (snd p) 0))%bool) row_atoms).
Definition listed (z a : Z) : bool := existsb (fun p => (Z.eqb (fst p) z && Z.eqb (snd p) a)%bool) row_atoms.

Definition imag_cells (name : string) : option (string * string * string) :=
  match find (fun l => String.eqb (field 0 l) name) nsftableI with
  | Some l => Some (field 1 l, field 2 l, field 3 l)
  | None => None
  end.

(* ------------------------------------------------------------------ row statements *)

Definition oq_eqb (a b : option Q) : bool :=
  match a, b with
  | Some x, Some y => Qeq_bool x y
  | None, None => true
  | _, _ => false
  end.
Definition cell_is (o : option Q) (txt : string) : bool :=
  match bare txt with Some e => oq_eqb o e | None => false end.
Definition read_cell_is (o : option num) (txt : string) : bool :=
  match o with
  | Some (NRead q) => cell_is (Some q) txt
  | None => cell_is None txt
  | _ => false
  end.

(* the record served for the atom named by a row is that row, cell by cell; the only two
   departures are the gap fills nsf.init documents: Xe total (blank) := coherent + incoherent,
   Eu-151 b_c (blank) := sqrt(coherent/(4 pi/100)) *)
Definition row_ok (s : st) (line : string) : bool :=
  let name := field 0 line in
  match name_za name with
  | None => false
  | Some (z, a) =>
      match rec_of s z a with
      | None => false
      | Some r =>
          (Nat.eqb (count_char "," line) 10
           && (if String.eqb name "63-Eu-151"
               then (String.eqb (field 3 line) ""
                     && match r_bc r, bare (field 7 line) with
                        | Some (NSqrt4pi c), Some (Some c') => Qeq_bool c c'
                        | _, _ => false
                        end)
               else read_cell_is (r_bc r) (field 3 line))
           && cell_is (r_bp r) (field 4 line)
           && cell_is (r_bm r) (field 5 line)
           && Bool.eqb (r_energy r) (String.eqb (field 6 line) "E")
           && cell_is (r_coh r) (field 7 line)
           && cell_is (r_inc r) (field 8 line)
           && (if String.eqb name "54-Xe"
               then (String.eqb (field 9 line) ""
                     && match r_tot r, bare (field 7 line), bare (field 8 line) with
                        | Some (NCalc t), Some (Some c), Some (Some i) => Qeq_bool t (c + i)
                        | _, _, _ => false
                        end)
               else read_cell_is (r_tot r) (field 9 line))
           && cell_is (r_abs r) (field 10 line)
           && (if (Z.eqb a 0 || contains_char " " (field 1 line))%bool then oq_eqb (r_abund r) (Some 0%Q)
               else cell_is (r_abund r) (field 1 line))
           && match spin_of s z a with
              | Some sp => (negb (Z.eqb a 0) && String.eqb sp (field 2 line))
              | None => Z.eqb a 0
              end
           && match imag_cells name with
              | Some (x, y, w) => (cell_is (r_bci r) x && cell_is (r_bpi r) y && cell_is (r_bmi r) w)
              | None => (is_none (r_bci r) && is_none (r_bpi r) && is_none (r_bmi r))
              end)%bool
      end
  end.

(* the cells nsf.init asserts to be blank are blank in the text *)
Definition gaps_blank (line : string) : bool :=
  let name := field 0 line in
  ((if String.eqb name "54-Xe" then String.eqb (field 9 line) "" else true)
   && (if String.eqb name "63-Eu-151" then String.eqb (field 3 line) "" else true))%bool.

(* every row of the imaginary table names a row of the main table *)
Definition imag_named (line : string) : bool :=
  match name_za (field 0 line) with
  | Some (z, a) => (listed z a && Nat.eqb (count_char "," line) 3)%bool
  | None => false
  end.

(* ------------------------------------------------------------------ complex b_c *)

(* the same number, held the same way (read / computed / sqrt(c/(4 pi/100))); both missing = nan real part *)
Definition num_same_b (x y : option num) : bool :=
  match x, y with
  | Some (NRead q), Some (NRead q') => Qeq_bool q q'
  | Some (NCalc q), Some (NCalc q') => Qeq_bool q q'
  | Some (NSqrt4pi c), Some (NSqrt4pi c') => Qeq_bool c c'
  | None, None => true
  | _, _ => false
  end.
Definition num_same (x y : option num) : Prop :=
  match x, y with
  | Some (NRead q), Some (NRead q') => (q == q')%Q
  | Some (NCalc q), Some (NCalc q') => (q == q')%Q
  | Some (NSqrt4pi c), Some (NSqrt4pi c') => (c == c')%Q
  | None, None => True
  | _, _ => False
  end.

(* b_c_complex = b_c - i absorption/(2000*1.798) on the values the record reports *)
Definition bcc_ok (r : nrec) : bool :=
  match r_bcc r, r_abs r with
  | Some (re, im), Some ab =>
      (Qeq_bool im (- ab / (2000 * (1798 # 1000))) && num_same_b (r_bc r) re)%bool
  | _, _ => false
  end.

Definition all_recs (s : st) (f : nrec -> bool) : bool :=
  forallb (fun kv => f (snd kv)) (PositiveMap.elements (s_recs s)).

(* ------------------------------------------------------------------ fallback / absent atoms *)

Definition sole_ok (s : st) (p : Z * Z) : bool :=
  let '(z, a) := p in
  if (Nat.eqb (n_rows_of z) 1 && negb (Z.eqb a 0))%bool then
    match rid_of s z 0, rid_of s z a with
    | Some i, Some j => Pos.eqb i j
    | _, _ => false
    end
  else true.

Definition decode (k : positive) : Z * Z := let n := (Zpos k - 1)%Z in ((n / 1000)%Z, (n mod 1000)%Z).

(* full strength: an atom holds a record only if it has a row, or is the element of a
   single-isotope entry *)
Definition holder_ok_full (kv : positive * positive) : bool :=
  let '(z, a) := decode (fst kv) in
  (listed z a || (Z.eqb a 0 && Nat.eqb (n_rows_of z) 1))%bool.
(* what holds: ... or is an element some isotope of which has a row *)
Definition holder_ok (kv : positive * positive) : bool :=
  let '(z, a) := decode (fst kv) in
  (listed z a || (Z.eqb a 0 && negb (Nat.eqb (n_rows_of z) 0)))%bool.

(* ------------------------------------------------------------------ energy tables *)

Definition erow_eqb (x y : erow) : bool :=
  let '(e, re, im) := x in let '(e', re', im') := y in
  (Qeq_bool e e' && Qeq_bool re re' && Qeq_bool im im')%bool.
Fixpoint erows_eqb (l l' : list erow) : bool :=
  match l, l' with
  | [], [] => true
  | x :: r, y :: r' => (erow_eqb x y && erows_eqb r r')%bool
  | _, _ => false
  end.

Fixpoint increasing_from (x : Q) (l : list Q) : bool :=
  match l with
  | [] => true
  | y :: r => (Qlt_bool x y && increasing_from y r)%bool
  end.
(* strictly increasing and positive *)
Definition energies_ok (t : etable) : bool :=
  match all_some (map parse_erow (snd t)) with
  | Some src => increasing_from 0 (map (fun r => fst (fst r)) src)
  | None => false
  end.

Definition etab_atom (t : etable) : option (Z * Z) :=
  match eb_number element_base (fst (fst t)) with
  | Some z => Some (z, match snd (fst t) with Some n => n | None => 0%Z end)
  | None => None
  end.

(* the atom named by a source table holds that table, reversed *)
Definition etab_attached (s : st) (t : etable) : bool :=
  match etab_atom t, all_some (map parse_erow (snd t)) with
  | Some (z, a), Some src =>
      match r_tab (neutron_of s z a) with
      | Some (ETab rows) => erows_eqb rows (rev src)
      | _ => false
      end
  | _, _ => false
  end.

(* every tabulated energy of a source table returns exactly the tabulated complex length *)
Definition cplx_eqb (x y : cplx) : bool := (Qeq_bool (fst x) (fst y) && Qeq_bool (snd x) (snd y))%bool.
Definition source_nodes_ok (s : st) (t : etable) : bool :=
  match etab_atom t with
  | Some (z, a) =>
      forallb (fun row => match parse_erow row with
                          | Some (e, re, im) =>
                              match b_c_at_energy (neutron_of s z a) e with
                              | Some v => cplx_eqb v (re, im)
                              | None => false
                              end
                          | None => false
                          end) (snd t)
  | None => false
  end.

Definition tab_sorted (r : nrec) : bool :=
  match r_tab r with
  | Some (ETab rows) => sorted_b (as_interp_table rows)
  | _ => true
  end.

(* ------------------------------------------------------------------ the sweeps *)

Definition on_st (os : option st) (f : st -> bool) : bool := match os with Some s => f s | None => false end.
Lemma on_st_elim : forall os f s, on_st os f = true -> os = Some s -> f s = true.
Proof. intros os f s H E. subst os. exact H. Qed.

Lemma the_nsf_some : is_some the_nsf = true.
Proof. vm_compute. reflexivity. Qed.
Lemma the_nsf_loaded : exists s, the_nsf = Some s.
Proof. pose proof the_nsf_some as H. destruct the_nsf; [eexists; reflexivity | discriminate H]. Qed.

Lemma rows_all_named_c : Nat.eqb (length row_atoms) (length nsftable) = true.
Proof. vm_compute. reflexivity. Qed.
Lemma rows_nonempty : (length nsftable > 300)%nat.
Proof. vm_compute. repeat constructor. Qed.

Lemma sweep_rows_c : on_st the_nsf (fun s => forallb (row_ok s) nsftable) = true.
Proof. vm_compute. reflexivity. Qed.
Lemma sweep_gaps_c : forallb gaps_blank nsftable = true.
Proof. vm_compute. reflexivity. Qed.
Lemma sweep_imag_c : forallb imag_named nsftableI = true.
Proof. vm_compute. reflexivity. Qed.
Lemma sweep_bcc_c : on_st the_nsf (fun s => all_recs s bcc_ok) = true.
Proof. vm_compute. reflexivity. Qed.
Lemma sweep_sole_c : on_st the_nsf (fun s => forallb (sole_ok s) row_atoms) = true.
Proof. vm_compute. reflexivity. Qed.
Lemma sweep_holders_c : on_st the_nsf (fun s => forallb holder_ok (PositiveMap.elements (s_atoms s))) = true.
Proof. vm_compute. reflexivity. Qed.
(* the full-strength reading (only single-isotope elements borrow a record) fails on this table *)
Lemma sweep_holders_full_fails_c :
  on_st the_nsf (fun s => negb (forallb holder_ok_full (PositiveMap.elements (s_atoms s)))) = true.
Proof. vm_compute. reflexivity. Qed.
Lemma sweep_energies_c : forallb energies_ok energy_dependent_tables = true.
Proof. vm_compute. reflexivity. Qed.
Lemma sweep_attached_c : on_st the_nsf (fun s => forallb (etab_attached s) energy_dependent_tables) = true.
Proof. vm_compute. reflexivity. Qed.
Lemma sweep_nodes_c : on_st the_nsf (fun s => forallb (source_nodes_ok s) energy_dependent_tables) = true.
Proof. vm_compute. reflexivity. Qed.
Lemma sweep_sorted_c : on_st the_nsf (fun s => all_recs s tab_sorted) = true.
Proof. vm_compute. reflexivity. Qed.

(* ------------------------------------------------------------------ theorems *)

Theorem every_row_is_served :
  forall s, the_nsf = Some s -> forall line, In line nsftable -> row_ok s line = true.
Proof.
  intros s E line Hin. pose proof (on_st_elim _ _ s sweep_rows_c E) as H.
  rewrite forallb_forall in H. exact (H line Hin).
Qed.

Theorem init_assertions_hold : forall line, In line nsftable -> gaps_blank line = true.
Proof. intros line Hin. pose proof sweep_gaps_c as H. rewrite forallb_forall in H. exact (H line Hin). Qed.

Theorem imaginary_rows_named : forall line, In line nsftableI -> imag_named line = true.
Proof. intros line Hin. pose proof sweep_imag_c as H. rewrite forallb_forall in H. exact (H line Hin). Qed.

Lemma all_recs_elim : forall s f, all_recs s f = true ->
  forall i r, PositiveMap.find i (s_recs s) = Some r -> f r = true.
Proof.
  intros s f H i r F. unfold all_recs in H. rewrite forallb_forall in H.
  exact (H (i, r) (PositiveMap.elements_correct _ _ F)).
Qed.

(* meaning of the boolean *)
Lemma bcc_ok_sound : forall r, bcc_ok r = true ->
  exists ab re im, r_abs r = Some ab /\ r_bcc r = Some (re, im) /\
                   (im == - ab / (2000 * (1798 # 1000)))%Q /\ num_same (r_bc r) re.
Proof.
  intros r H. unfold bcc_ok in H.
  destruct (r_bcc r) as [[re im]|]; [|discriminate H].
  destruct (r_abs r) as [ab|]; [|discriminate H].
  apply andb_prop in H. destruct H as [H1 H2]. apply Qeq_bool_iff in H1.
  exists ab, re, im. repeat split; try assumption.
  unfold num_same_b in H2. unfold num_same.
  destruct (r_bc r) as [[q|q|c]|]; destruct re as [[q'|q'|c']|]; try discriminate H2; try exact I;
    apply Qeq_bool_iff; exact H2.
Qed.

(* every record of the loaded table, the gap-filled Eu-151 one included: the complex b_c has the
   reported b_c as real part (nan when b_c is missing) and -absorption/(2000*1.798) as imaginary part *)
Theorem b_c_complex_identity :
  forall s, the_nsf = Some s -> forall i r, PositiveMap.find i (s_recs s) = Some r ->
    exists ab re im, r_abs r = Some ab /\ r_bcc r = Some (re, im) /\
                     (im == - ab / (2000 * (1798 # 1000)))%Q /\ num_same (r_bc r) re.
Proof.
  intros s E i r F. pose proof (on_st_elim _ _ s sweep_bcc_c E) as H.
  apply bcc_ok_sound. exact (all_recs_elim s _ H i r F).
Qed.

(* the Eu-151 record in particular: b_c and the real part of b_c_complex are the same sqrt fill *)
Definition eu151_filled (s : st) : bool :=
  match rec_of s 63 151 with
  | Some r => match r_bc r, r_bcc r with
              | Some (NSqrt4pi c), Some (Some (NSqrt4pi c'), _) => (Qeq_bool c c' && bcc_ok r)%bool
              | _, _ => false
              end
  | None => false
  end.
Lemma eu151_filled_c : on_st the_nsf eu151_filled = true.
Proof. vm_compute. reflexivity. Qed.

(* single-isotope elements: the element and its isotope name the same record object *)
Theorem sole_isotope_fallback :
  forall s, the_nsf = Some s -> forall z a, In (z, a) row_atoms -> n_rows_of z = 1%nat -> a <> 0%Z ->
    exists i, rid_of s z 0 = Some i /\ rid_of s z a = Some i.
Proof.
  intros s E z a Hin H1 Ha. pose proof (on_st_elim _ _ s sweep_sole_c E) as H.
  rewrite forallb_forall in H. specialize (H _ Hin). unfold sole_ok in H.
  rewrite H1 in H. simpl in H.
  destruct (Z.eqb_spec a 0) as [->|_]; [congruence|]. simpl in H.
  destruct (rid_of s z 0) as [i|]; [|discriminate H].
  destruct (rid_of s z a) as [j|]; [|discriminate H].
  apply Pos.eqb_eq in H. subst j. exists i. split; reflexivity.
Qed.

Corollary sole_isotope_same_record :
  forall s, the_nsf = Some s -> forall z a, In (z, a) row_atoms -> n_rows_of z = 1%nat -> a <> 0%Z ->
    neutron_of s z 0 = neutron_of s z a.
Proof.
  intros s E z a Hin H1 Ha. destruct (sole_isotope_fallback s E z a Hin H1 Ha) as (i & R0 & Ra).
  unfold neutron_of, rec_of. rewrite R0, Ra. reflexivity.
Qed.

(* keys *)
Lemma decode_key : forall z a, (0 <= z)%Z -> (0 <= a < 1000)%Z -> decode (key z a) = (z, a).
Proof.
  intros z a Hz Ha. unfold decode, key.
  rewrite Z2Pos.id by lia.
  replace (z * 1000 + a + 1 - 1)%Z with (a + z * 1000)%Z by lia.
  rewrite Z.div_add by lia. rewrite Z.mod_add by lia.
  rewrite Z.div_small by lia. rewrite Z.mod_small by lia. f_equal.
Qed.

Lemma listed_In : forall z a, listed z a = true -> In (z, a) row_atoms.
Proof.
  intros z a H. unfold listed in H. apply existsb_exists in H. destruct H as ([z' a'] & Hin & H).
  simpl in H. apply andb_prop in H. destruct H as [H1 H2].
  apply Z.eqb_eq in H1. apply Z.eqb_eq in H2. subst. exact Hin.
Qed.
Lemma In_listed : forall z a, In (z, a) row_atoms -> listed z a = true.
Proof.
  intros z a H. unfold listed. apply existsb_exists. exists (z, a). split; [exact H|].
  simpl. rewrite !Z.eqb_refl. reflexivity.
Qed.

(* which atoms hold a record *)
Theorem record_holders :
  forall s, the_nsf = Some s -> forall z a, (0 <= z)%Z -> (0 <= a < 1000)%Z ->
    rid_of s z a <> None -> In (z, a) row_atoms \/ (a = 0%Z /\ n_rows_of z <> 0%nat).
Proof.
  intros s E z a Hz Ha Hr. pose proof (on_st_elim _ _ s sweep_holders_c E) as H.
  rewrite forallb_forall in H. unfold rid_of in Hr.
  destruct (PositiveMap.find (key z a) (s_atoms s)) as [i|] eqn:F; [|congruence].
  specialize (H _ (PositiveMap.elements_correct _ _ F)). unfold holder_ok in H. simpl fst in H.
  rewrite (decode_key z a Hz Ha) in H. apply orb_prop in H. destruct H as [H|H].
  - left. apply listed_In. exact H.
  - right. apply andb_prop in H. destruct H as [H1 H2]. apply Z.eqb_eq in H1.
    split; [exact H1|]. intro N. rewrite N in H2. discriminate H2.
Qed.

(* atoms of elements that the table does not mention serve the default record: no SLD *)
Theorem absent_atoms_no_sld_partial :
  forall s, the_nsf = Some s -> forall z a, (0 <= z)%Z -> (0 <= a < 1000)%Z ->
    ~ In (z, a) row_atoms -> (a = 0%Z -> n_rows_of z = 0%nat) ->
    neutron_of s z a = missing_rec /\ has_sld (neutron_of s z a) = false.
Proof.
  intros s E z a Hz Ha Hn H0.
  assert (R : rid_of s z a = None).
  { destruct (rid_of s z a) eqn:R; [|reflexivity]. exfalso.
    destruct (record_holders s E z a Hz Ha) as [H|[H1 H2]]; [congruence | exact (Hn H) | exact (H2 (H0 H1))]. }
  unfold neutron_of, rec_of. rewrite R. split; reflexivity.
Qed.

(* full strength (an element without a row that is not a single-isotope entry has no SLD) fails:
   Pu has three isotope rows and no row of its own, and serves the record of Pu-239 *)
Definition absent_witness (s : st) : bool :=
  (negb (listed 94 0) && Nat.ltb 1 (n_rows_of 94) && has_sld (neutron_of s 94 0)
   && match rid_of s 94 0, rid_of s 94 239 with Some i, Some j => Pos.eqb i j | _, _ => false end)%bool.
Lemma absent_witness_c : on_st the_nsf absent_witness = true.
Proof. vm_compute. reflexivity. Qed.

Theorem absent_atoms_no_sld_refuted :
  exists s z, the_nsf = Some s /\ ~ In (z, 0%Z) row_atoms /\ (1 < n_rows_of z)%nat /\
              has_sld (neutron_of s z 0) = true.
Proof.
  destruct the_nsf_loaded as [s E]. pose proof (on_st_elim _ _ s absent_witness_c E) as H.
  unfold absent_witness in H.
  apply andb_prop in H. destruct H as [H _]. apply andb_prop in H. destruct H as [H H3].
  apply andb_prop in H. destruct H as [H1 H2].
  exists s, 94%Z. split; [exact E|]. split.
  - intro Hin. apply In_listed in Hin. rewrite Hin in H1. discriminate H1.
  - split; [apply Nat.ltb_lt; exact H2 | exact H3].
Qed.

(* energy-dependent tables *)
Theorem energy_tables_increasing : forall t, In t energy_dependent_tables -> energies_ok t = true.
Proof. intros t Hin. pose proof sweep_energies_c as H. rewrite forallb_forall in H. exact (H t Hin). Qed.

Theorem energy_tables_attached :
  forall s, the_nsf = Some s -> forall t, In t energy_dependent_tables -> etab_attached s t = true.
Proof.
  intros s E t Hin. pose proof (on_st_elim _ _ s sweep_attached_c E) as H.
  rewrite forallb_forall in H. exact (H t Hin).
Qed.

Theorem source_nodes_return_tabulated :
  forall s, the_nsf = Some s -> forall t, In t energy_dependent_tables -> source_nodes_ok s t = true.
Proof.
  intros s E t Hin. pose proof (on_st_elim _ _ s sweep_nodes_c E) as H.
  rewrite forallb_forall in H. exact (H t Hin).
Qed.

(* through the generic interpolation theorem: every record's table is strictly increasing in the
   abscissa, hence every stored node returns its stored value *)
Theorem node_returns_tabulated :
  forall s, the_nsf = Some s -> forall i r rows, PositiveMap.find i (s_recs s) = Some r ->
    r_tab r = Some (ETab rows) ->
    forall e re im, In (e, re, im) rows -> b_c_at_energy r e = Some (re, im).
Proof.
  intros s E i r rows F T e re im Hin. pose proof (on_st_elim _ _ s sweep_sorted_c E) as H.
  pose proof (all_recs_elim s _ H i r F) as H1. unfold tab_sorted in H1. rewrite T in H1.
  unfold b_c_at_energy. rewrite T. apply interp_node; [apply sorted_b_ok; exact H1|].
  unfold as_interp_table.
  change (abscissa e, (re, im)) with ((fun r0 : erow => let '(e0, re0, im0) := r0 in (abscissa e0, (re0, im0))) (e, re, im)).
  apply in_map. exact Hin.
Qed.

(* the constant of the property *)
Theorem absorption_wavelength_is_1_798 :
  match parse_dec ABSORPTION_WAVELENGTH_text with Some q => (q == 1798 # 1000)%Q | None => False end.
Proof. vm_compute. reflexivity. Qed.

Theorem model_constant : (two_thousand_lambda == 2000 * (1798 # 1000))%Q.
Proof. reflexivity. Qed.
