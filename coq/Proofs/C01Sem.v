(* Proofs/C01Sem.v — the structure expected for a well-formed tree (C01Wf.v_comp) carries exactly
   the composition the documented reading (Spec/Grammar.sem_comp) assigns to the tree: for every
   per-atom weight w, the leaves' weighted sum equals the structural weight.  No parser here. *)
From Coq Require Import ZArith QArith String Ascii List Bool Lia Setoid Morphisms.
From PT Require Import Str Dec Py Loaders Formula Pyparse Grammar FormulaAlg C01Lex C01Wf.
Import ListNotations.
Open Scope Q_scope.

Definition leaves_w (w : atom -> Q) (l : leaves) : Q :=
  fold_right (fun p acc => w (fst p) * snd p + acc) 0 l.

Lemma leaves_w_app : forall w (a b : leaves), leaves_w w (a ++ b)%list == leaves_w w a + leaves_w w b.
Proof.
  intros w a b. induction a as [|p a IH]; simpl.
  - ring.
  - rewrite IH. ring.
Qed.

Definition indic (b : atom) : atom -> Q := fun a => if atom_eqb b a then 1 else 0.

Lemma leaves_cnt_w : forall l b, leaves_cnt l b == leaves_w (indic b) l.
Proof.
  intros l b. induction l as [|p l IH]; simpl.
  - reflexivity.
  - rewrite IH. unfold indic. destruct (atom_eqb b (fst p)); ring.
Qed.

Lemma leaves_charge_w : forall l, leaves_charge l = leaves_w (fun a => inject_Z (aq a)) l.
Proof. reflexivity. Qed.

(* the list part of sem_group / sem_comp *)
Definition sem_list (symtab : string -> option (Z * Z)) (m : Q) : list (sep * group) -> option leaves :=
  fix go (l : list (sep * group)) : option leaves :=
    match l with
    | [] => Some []
    | (_, g') :: rest =>
        match sem_group symtab m g', go rest with
        | Some a, Some b => Some (a ++ b)%list
        | _, _ => None
        end
    end.

Lemma sem_group_exp : forall symtab m l inner r c,
  sem_group symtab m (GExp l inner r c) =
  match cval c with Some k => sem_list symtab (m * k) inner | None => None end.
Proof. reflexivity. Qed.

Lemma sem_comp_list : forall symtab c, sem_comp symtab c = sem_list symtab 1 c.
Proof. reflexivity. Qed.

Lemma fweight_regroup : forall w c fr, fweight w (FGroup (regroup c fr)) == c * fweight w (FGroup fr).
Proof.
  intros w c fr. unfold regroup. destruct (Qeq_bool c 1) eqn:E.
  - apply Qeq_bool_iff in E. rewrite E. ring.
  - rewrite fweight_group_cons, fweight_group_nil. ring.
Qed.

Lemma andb3 : forall a b c, (a && b && c)%bool = true -> a = true /\ b = true /\ c = true.
Proof. intros [] [] []; simpl; intro; try discriminate; auto. Qed.

Lemma sem_elems_cons : forall symtab m e es,
  sem_elems symtab m (e :: es) =
  match sem_elems symtab m es, elem_atom symtab e, cval (el_cnt e) with
  | Some l, Some a, Some c => Some ((a, (m * c)%Q) :: l)
  | _, _, _ => None
  end.
Proof. reflexivity. Qed.

Lemma sem_list_cons : forall symtab m s g l,
  sem_list symtab m ((s, g) :: l) =
  match sem_group symtab m g, sem_list symtab m l with
  | Some a, Some b => Some (a ++ b)%list
  | _, _ => None
  end.
Proof. reflexivity. Qed.

Section Sem.
  Variable T : ptable.
  Let symtab := t_symbol T.

  Lemma wf_ctext_cval : forall c, wf_ctext c = true -> cval c = Some (cv c).
  Proof.
    intros [t|] H; [|reflexivity]. simpl in H. destruct (parse_dec_count t H) as (q & Hq).
    unfold cv. simpl. rewrite Hq. reflexivity.
  Qed.

  Lemma wf_elem_sem : forall e, wf_elem T e = true ->
    exists a, elem_atom symtab e = Some a /\ cval (el_cnt e) = Some (cv (el_cnt e)) /\
              v_elem T e = (cv (el_cnt e), FAtom a).
  Proof.
    intros e H. unfold wf_elem in H. apply andb3 in H. destruct H as (Hs & Hm & Hc).
    unfold v_elem, elem_atom. fold symtab.
    destruct (t_symbol T (el_sym e)) as [[z a0]|] eqn:Ez; [|discriminate]. fold symtab in Ez. rewrite Ez.
    apply andb_prop in Hm. destruct Hm as [Hiso Hion].
    assert (Ea : exists a', match el_iso e with
                            | Some n => match parse_int n with Some v => Some v | None => None end
                            | None => Some a0 end = Some a').
    { destruct (el_iso e) as [n|]; [|eexists; reflexivity].
      apply andb3 in Hiso. destruct Hiso as (_ & _ & Hp). destruct (parse_int n); [eexists; reflexivity|discriminate]. }
    destruct Ea as (a' & Ea). rewrite Ea.
    assert (Eq : exists q', match el_ion e with
                            | Some (d, neg) =>
                                match (if String.eqb d "" then Some 1%Z else parse_int d) with
                                | Some m => Some (if neg then (- m)%Z else m)
                                | None => None
                                end
                            | None => Some 0%Z end = Some q').
    { destruct (el_ion e) as [[d neg]|]; [|eexists; reflexivity].
      apply andb_prop in Hion. destruct Hion as (_ & Hp). unfold ion_mag in Hp.
      destruct (if String.eqb d "" then Some 1%Z else parse_int d); [eexists; reflexivity|discriminate]. }
    destruct Eq as (q' & Eq). rewrite Eq.
    eexists. split; [reflexivity|]. split; [apply wf_ctext_cval; exact Hc|reflexivity].
  Qed.

  Lemma sem_elems_ok : forall es, forallb (wf_elem T) es = true -> forall m,
    exists lv, sem_elems symtab m es = Some lv /\
               forall w, leaves_w w lv == m * fweight w (FGroup (map (v_elem T) es)).
  Proof.
    induction es as [|e es IH]; intros H m.
    - exists []. split; [reflexivity|]. intro w. simpl. ring.
    - simpl in H. apply andb_prop in H. destruct H as [He Hes].
      destruct (IH Hes m) as (lv & Elv & Hlv).
      destruct (wf_elem_sem e He) as (a & Ea & Ec & Ev).
      exists ((a, m * cv (el_cnt e)) :: lv). split.
      + rewrite sem_elems_cons, Elv, Ea, Ec. reflexivity.
      + intro w. simpl map. rewrite Ev. rewrite fweight_group_cons.
        change (fweight w (FAtom a)) with (w a).
        change (leaves_w w ((a, m * cv (el_cnt e)) :: lv)) with (w a * (m * cv (el_cnt e)) + leaves_w w lv).
        rewrite Hlv. ring.
  Qed.

  Definition sem_ok (g : group) : Prop :=
    wf_group T g = true -> forall m,
    exists lv, sem_group symtab m g = Some lv /\
               forall w, leaves_w w lv == m * fweight w (FGroup (v_group T g)).

  Lemma sem_list_ok : forall l, Forall (fun p => sem_ok (snd p)) l ->
    forallb (fun p => wf_group T (snd p)) l = true -> forall m,
    exists lv, sem_list symtab m l = Some lv /\
               forall w, leaves_w w lv == m * fweight w (FGroup (flat_map (fun p => v_group T (snd p)) l)).
  Proof.
    induction l as [|[s g] l IH]; intros HP H m.
    - exists []. split; [reflexivity|]. intro w. simpl. ring.
    - simpl in H. apply andb_prop in H. destruct H as [Hg Hl].
      inversion HP as [|? ? Pg Pl]; subst. simpl in Pg.
      destruct (Pg Hg m) as (lg & Eg & Hlg). destruct (IH Pl Hl m) as (lv & Elv & Hlv).
      exists (lg ++ lv)%list. split.
      + rewrite sem_list_cons, Eg, Elv. reflexivity.
      + intro w. simpl flat_map. rewrite leaves_w_app, fweight_app, Hlg, Hlv. ring.
  Qed.

  Theorem sem_group_ok : forall g, sem_ok g.
  Proof.
    induction g as [c es|l inner r c IH] using group_ind'; intros H m.
    - simpl in H. apply andb3 in H. destruct H as (Hc & _ & Hes).
      destruct (sem_elems_ok es Hes (m * cv c)) as (lv & Elv & Hlv).
      exists lv. split.
      + simpl. rewrite (wf_ctext_cval c Hc). exact Elv.
      + intro w. simpl v_group. rewrite fweight_regroup, Hlv. ring.
    - simpl in H. apply andb_prop in H. destruct H as [H Hall]. apply andb_prop in H. destruct H as [H _].
      apply andb3 in H. destruct H as (_ & _ & Hc).
      destruct (sem_list_ok inner IH Hall (m * cv c)) as (lv & Elv & Hlv).
      exists lv. split.
      + rewrite sem_group_exp, (wf_ctext_cval c Hc). exact Elv.
      + intro w. simpl v_group. rewrite fweight_regroup, Hlv. ring.
  Qed.

  Theorem sem_comp_ok : forall l, wf_comp T l = true ->
    exists lv, sem_comp symtab l = Some lv /\
               forall w, leaves_w w lv == fweight w (FGroup (v_comp T l)).
  Proof.
    intros l H. unfold wf_comp in H. apply andb_prop in H. destruct H as [_ Hall].
    destruct (sem_list_ok l) with (m := 1) as (lv & Elv & Hlv).
    - apply Forall_forall. intros p _. apply sem_group_ok.
    - exact Hall.
    - exists lv. split; [exact Elv|]. intro w. rewrite Hlv. unfold v_comp. ring.
  Qed.

  Corollary sem_comp_cnt : forall l lv, wf_comp T l = true -> sem_comp symtab l = Some lv ->
    forall b, cnt_s b (v_comp T l) == leaves_cnt lv b.
  Proof.
    intros l lv H E b. destruct (sem_comp_ok l H) as (lv' & E' & Hw). rewrite E in E'. inversion E'; subst lv'.
    rewrite leaves_cnt_w, Hw. unfold cnt_s. rewrite cnt_is_fweight. reflexivity.
  Qed.

  Corollary sem_comp_charge : forall l lv, wf_comp T l = true -> sem_comp symtab l = Some lv ->
    fweight (fun a => inject_Z (aq a)) (FGroup (v_comp T l)) == leaves_charge lv.
  Proof.
    intros l lv H E. destruct (sem_comp_ok l H) as (lv' & E' & Hw). rewrite E in E'. inversion E'; subst lv'.
    rewrite leaves_charge_w, Hw. reflexivity.
  Qed.
End Sem.
