(* C06 - every row of the embedded mass tables names the element it is filed under.
   The loaders (periodictable/mass.py) look rows up by the atomic-number column alone; the symbol (and name) columns
   are redundant and tell a mis-typed key: a row of Rh filed under 54 would silently leave Rh with the value of
   another table.  Sweeps over the regenerated text (Gen/MassTables.v, Gen/ElementBase.v). *)
From Coq Require Import ZArith String Ascii List Bool.
From PT Require Import Str Dec.
From PT.Gen Require MassTables ElementBase.
Import ListNotations.
Open Scope string_scope.

Definition lower_char (c : ascii) : ascii :=
  if is_upper c then ascii_of_nat (nat_of_ascii c + 32) else c.
Fixpoint lower (s : string) : string :=
  match s with EmptyString => EmptyString | String c r => String (lower_char c) (lower r) end.

Definition base_row := (Z * string * string * list Z * list Z)%type.
Definition base_find (z : Z) : option (string * string) :=
  match find (fun r : base_row => let '(z', _, _, _, _) := r in Z.eqb z z') ElementBase.element_base with
  | Some (_, name, sym, _, _) => Some (name, sym)
  | None => None
  end.

(* IUPAC spellings in the tables against the American ones of element_base *)
Definition name_ok (tname bname : string) : bool :=
  (String.eqb tname bname
   || (String.eqb tname "aluminium" && String.eqb bname "aluminum")
   || (String.eqb tname "caesium" && String.eqb bname "cesium"))%bool.

(* "Z <ws> Sym <ws> name ..." *)
Definition weight_row_ok (line : string) : bool :=
  match split_ws line with
  | z :: sym :: name :: _ =>
      match parse_int z with
      | Some zz => match base_find zz with
                   | Some (bname, bsym) => (String.eqb sym bsym && name_ok (lower name) (lower bname))%bool
                   | None => false
                   end
      | None => false
      end
  | _ => false
  end.

(* "Z-Sym-A,mass(unc),abundance(unc),weight(unc)" *)
Definition isotope_row_ok (line : string) : bool :=
  match split_char "," line with
  | key :: _ =>
      match split_char "-" key with
      | [z; sym; a] =>
          match parse_int z, parse_int a with
          | Some zz, Some aa => match base_find zz with
                                | Some (_, bsym) => (String.eqb sym bsym && (0 <? aa)%Z)%bool
                                | None => false
                                end
          | _, _ => false
          end
      | _ => false
      end
  | [] => false
  end.

(* composition table: header rows "Z <tab> Sym <tab> name"; isotope rows start with white space *)
Definition is_header (line : string) : bool :=
  match line with String c _ => negb (Ascii.eqb c " " || Ascii.eqb c "009")%bool | EmptyString => false end.
Definition composition_row_ok (line : string) : bool :=
  if is_header line then weight_row_ok line else true.

Lemma sweep_weight_rows : forallb weight_row_ok MassTables.element_mass = true.
Proof. vm_compute. reflexivity. Qed.
Lemma sweep_isotope_rows : forallb isotope_row_ok MassTables.isotope_mass = true.
Proof. vm_compute. reflexivity. Qed.
Lemma sweep_composition_rows : forallb composition_row_ok MassTables.isotope_abundance = true.
Proof. vm_compute. reflexivity. Qed.

Theorem mass_rows_name_their_element :
  (forall line, In line MassTables.element_mass -> weight_row_ok line = true) /\
  (forall line, In line MassTables.isotope_mass -> isotope_row_ok line = true) /\
  (forall line, In line MassTables.isotope_abundance -> composition_row_ok line = true).
Proof.
  repeat split; intros line H.
  - exact (proj1 (forallb_forall _ _) sweep_weight_rows line H).
  - exact (proj1 (forallb_forall _ _) sweep_isotope_rows line H).
  - exact (proj1 (forallb_forall _ _) sweep_composition_rows line H).
Qed.

(* non-vacuity and sensitivity: the Rh row is accepted as written and rejected when filed under 54 *)
Example rh_row : weight_row_ok ("45" ++ String "009" "Rh" ++ String "009" "rhodium" ++ String "009" "102.90549(2)") = true
                 /\ weight_row_ok ("54" ++ String "009" "Rh" ++ String "009" "rhodium" ++ String "009" "102.90549(2)") = false.
Proof. split; vm_compute; reflexivity. Qed.

(* each element with a standard atomic weight has exactly one row *)
Definition row_z (line : string) : Z :=
  match split_ws line with z :: _ => match parse_int z with Some zz => zz | None => (-1)%Z end | [] => (-1)%Z end.
Fixpoint strictly_increasing (l : list Z) : bool :=
  match l with a :: ((b :: _) as r) => ((a <? b)%Z && strictly_increasing r)%bool | _ => true end.
Theorem weight_rows_one_per_element : strictly_increasing (map row_z MassTables.element_mass) = true.
Proof. vm_compute. reflexivity. Qed.

(* each nuclide has exactly one row of the isotope table: the keys (Z, A), read as Z * 1000 + A, increase strictly
   from row to row (a row keyed under another nuclide's mass number is out of order or a duplicate) *)
Definition isotope_row_key (line : string) : Z :=
  match split_char "," line with
  | key :: _ =>
      match split_char "-" key with
      | [z; _; a] => match parse_int z, parse_int a with
                     | Some zz, Some aa => (zz * 1000 + aa)%Z
                     | _, _ => (-1)%Z
                     end
      | _ => (-1)%Z
      end
  | [] => (-1)%Z
  end.
Theorem isotope_rows_one_per_nuclide : strictly_increasing (map isotope_row_key MassTables.isotope_mass) = true.
Proof. vm_compute. reflexivity. Qed.
Example isotope_rows_order_sensitive :
  strictly_increasing (map isotope_row_key ["71-Lu-155,1(1),,"; "71-Lu-156,1(1),,"; "71-Lu-156,2(1),,"]) = false
  /\ strictly_increasing (map isotope_row_key ["71-Lu-155,1(1),,"; "71-Lu-156,1(1),,"; "71-Lu-157,2(1),,"]) = true.
Proof. split; vm_compute; reflexivity. Qed.
