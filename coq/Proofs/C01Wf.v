(* Proofs/C01Wf.v — well-formed derivation trees of the documented compound grammar (a boolean,
   so it can be evaluated on concrete trees), the structure the parser is expected to return for a
   tree, and the induction principle for the nested group type. *)
From Coq Require Import ZArith QArith String Ascii List Bool Lia.
From PT Require Import Str Dec Py Loaders Formula Pyparse Grammar C01Lex.
Import ListNotations.
Open Scope string_scope.

(* ---------------------------------------------------------------- induction on groups *)
Section GroupInd.
  Variable P : group -> Prop.
  Hypothesis Himp : forall c es, P (GImp c es).
  Hypothesis Hexp : forall l inner r c, Forall (fun p => P (snd p)) inner -> P (GExp l inner r c).
  Fixpoint group_ind' (g : group) : P g :=
    match g with
    | GImp c es => Himp c es
    | GExp l inner r c =>
        Hexp l inner r c
          ((fix go (l : list (sep * group)) : Forall (fun p => P (snd p)) l :=
              match l with
              | [] => Forall_nil _
              | p :: r => Forall_cons p (group_ind' (snd p)) (go r)
              end) inner)
    end.
End GroupInd.

(* ---------------------------------------------------------------- well-formedness *)
Definition wf_ctext (c : ctext) : bool :=
  match c with Some t => is_count_text t | None => true end.

Definition wf_elem (T : ptable) (e : elem) : bool :=
  (is_symbol (el_sym e) &&
   match t_symbol T (el_sym e) with
   | None => false
   | Some (z, a0) =>
       (match el_iso e with
        | None => true
        | Some n =>
            (* a number without leading zero, not on D / T, a defined isotope *)
            (is_whole n && Z.eqb a0 0 &&
             match parse_int n with Some v => t_has_iso T z v | None => false end)%bool
        end &&
        match el_ion e with
        | None => true
        | Some (d, neg) =>
            (* optional number without leading zero, and a listed charge *)
            (is_ion_digits d &&
             match ion_mag d with
             | Some m => t_has_ion T z (if neg then (- m)%Z else m)
             | None => false
             end)%bool
        end)%bool
   end &&
   wf_ctext (el_cnt e))%bool.

(* separator: blanks, at most one '+', blanks *)
Definition wf_sep (s : sep) : bool := (all_chars is_blank (sp1 s) && all_chars is_blank (sp2 s))%bool.
Definition sep_empty (s : sep) : bool := String.eqb (r_sep s) "".

Definition is_imp (g : group) : bool := match g with GImp _ _ => true | GExp _ _ _ _ => false end.

(* the unambiguity side conditions: with nothing written between two groups,
   - the second group must not begin with a count (the count would be read as part of, or as,
     the count that ends the first group), and
   - an implicit group must not follow an implicit group (its elements would join the first). *)
Definition join_ok (prev_imp : bool) (s : sep) (g : group) : bool :=
  (negb (sep_empty s) ||
   match g with
   | GExp _ _ _ _ => true
   | GImp None _ => negb prev_imp
   | GImp (Some _) _ => false
   end)%bool.

Fixpoint chain_ok (prev_imp : bool) (l : list (sep * group)) : bool :=
  match l with
  | [] => true
  | (s, g) :: l' => (wf_sep s && join_ok prev_imp s g && chain_ok (is_imp g) l')%bool
  end.

(* a compound has at least one group; the separator stored with the first group is not written *)
Definition comp_shape (l : list (sep * group)) : bool :=
  match l with
  | [] => false
  | (_, g) :: l' => chain_ok (is_imp g) l'
  end.

Fixpoint wf_group (T : ptable) (g : group) : bool :=
  match g with
  | GImp c es =>
      (wf_ctext c && negb (match es with [] => true | _ => false end) && forallb (wf_elem T) es)%bool
  | GExp l inner r c =>
      (all_chars is_blank l && all_chars is_blank r && wf_ctext c && comp_shape inner &&
       forallb (fun p => wf_group T (snd p)) inner)%bool
  end.

Definition wf_comp (T : ptable) (l : comp) : bool :=
  (comp_shape l && forallb (fun p => wf_group T (snd p)) l)%bool.

Definition wf_dens (o : option (string * string * option ascii)) : bool :=
  match o with
  | None => true
  | Some (ws, t, m) =>
      (all_chars is_blank ws && is_count_text t &&
       match m with
       | None => true
       | Some ch => (Ascii.eqb ch "n" || Ascii.eqb ch "i")%bool
       end)%bool
  end.

Definition wfb (T : ptable) (t : cstring) : bool := (wf_comp T (c_comp t) && wf_dens (c_density t))%bool.

(* ---------------------------------------------------------------- expected parse results *)
Definition cv (c : ctext) : Q := match cval c with Some q => q | None => 1%Q end.

Definition v_elem (T : ptable) (e : elem) : Q * frag :=
  (cv (el_cnt e),
   FAtom (match elem_atom (t_symbol T) e with Some a => a | None => mkAtom 0 0 0 end)).

Fixpoint v_group (T : ptable) (g : group) : list (Q * frag) :=
  match g with
  | GImp c es => regroup (cv c) (map (v_elem T) es)
  | GExp _ inner _ c => regroup (cv c) (flat_map (fun p => v_group T (snd p)) inner)
  end.

Definition v_comp (T : ptable) (l : comp) : list (Q * frag) := flat_map (fun p => v_group T (snd p)) l.

Definition v_dens (o : option (string * string * option ascii)) : dkind :=
  match o with
  | None => DNone
  | Some (_, t, m) =>
      match parse_dec t with
      | None => DNone
      | Some q =>
          match m with
          | Some ch => if Ascii.eqb ch "n" then DNat q else DIso q
          | None => DIso q
          end
      end
  end.

(* nesting depth *)
Fixpoint gdepth (g : group) : nat :=
  match g with
  | GImp _ _ => O
  | GExp _ inner _ _ => S (fold_right (fun p a => Nat.max (gdepth (snd p)) a) O inner)
  end.
Definition cdepth (l : comp) : nat := fold_right (fun p a => Nat.max (gdepth (snd p)) a) O l.

(* ---------------------------------------------------------------- rendering equations *)
Fixpoint r_tail (l : list (sep * group)) : string :=
  match l with
  | [] => ""
  | (s, g) :: rest => r_sep s ++ r_group g ++ r_tail rest
  end.

Lemma r_comp_cons : forall s g l, r_comp ((s, g) :: l) = r_group g ++ r_tail l.
Proof.
  intros s g l. unfold r_comp. simpl. f_equal. induction l as [|[s' g'] l IH]; [reflexivity|].
  simpl. rewrite IH. reflexivity.
Qed.

Lemma r_group_imp : forall c es, r_group (GImp c es) = r_ctext c ++ String.concat "" (map r_elem es).
Proof. reflexivity. Qed.

Lemma r_group_exp : forall l inner r c,
  r_group (GExp l inner r c) = "(" ++ l ++ r_comp inner ++ r ++ ")" ++ r_ctext c.
Proof. reflexivity. Qed.
