(* Proofs/C08Sweep.v — property C08 on the regenerated element_base (Gen/ElementBase.v) and on the
   isotope rows of the regenerated mass table: kernel-evaluated sweeps, and the generic theorems of
   C08Proofs.v instantiated with them. *)
From Coq Require Import ZArith String Ascii List Bool FMapPositive Lia.
From PT Require Import Str Py Loaders C06Check Core C08Check C08Proofs.
From PT.Gen Require Import ElementBase.
Import ListNotations.
Open Scope string_scope.

Fixpoint nodupb {A : Type} (eqb : A -> A -> bool) (l : list A) : bool :=
  match l with
  | [] => true
  | x :: r => (negb (existsb (eqb x) r) && nodupb eqb r)%bool
  end.
Lemma nodupb_sound : forall (A : Type) (eqb : A -> A -> bool),
  (forall x y, eqb x y = true <-> x = y) -> forall l, nodupb eqb l = true -> NoDup l.
Proof.
  intros A eqb He l. induction l as [|x r IH]; intro H; [constructor|].
  simpl in H. apply andb_prop in H. destruct H as [H1 H2]. constructor; auto.
  intro Hin. apply negb_true_iff in H1. assert (existsb (eqb x) r = true); [|congruence].
  apply existsb_exists. exists x. split; auto. apply He. reflexivity.
Qed.

Definition mem_str (s : string) (l : list string) : bool := existsb (String.eqb s) l.
Lemma mem_str_false : forall s l, mem_str s l = false -> ~ In s l.
Proof.
  intros s l H Hin. unfold mem_str in H. assert (existsb (String.eqb s) l = true); [|congruence].
  apply existsb_exists. exists s. split; auto. apply String.eqb_refl.
Qed.

(* ---- element_base: numbers 0..118 once each, symbols and names unique, no clash with D, T *)
Lemma eb_z_nodup : NoDup (map row_z element_base).
Proof. apply (nodupb_sound Z Z.eqb Z.eqb_eq). vm_compute. reflexivity. Qed.
Lemma eb_sym_nodup : NoDup (map row_sym element_base).
Proof. apply (nodupb_sound string String.eqb String.eqb_eq). vm_compute. reflexivity. Qed.
Lemma eb_name_nodup : NoDup (map row_name element_base).
Proof. apply (nodupb_sound string String.eqb String.eqb_eq). vm_compute. reflexivity. Qed.

Lemma eb_z_range_b : forallb (fun r => (0 <=? row_z r)%Z && (row_z r <=? 118)%Z)%bool element_base = true.
Proof. vm_compute. reflexivity. Qed.
Lemma eb_z_range : forall z, In z (map row_z element_base) -> (0 <= z <= 118)%Z.
Proof.
  intros z H. apply in_map_iff in H. destruct H as [r [<- Hr]].
  pose proof eb_z_range_b as B. rewrite forallb_forall in B. specialize (B r Hr).
  apply andb_prop in B. destruct B as [B1 B2]. apply Z.leb_le in B1. apply Z.leb_le in B2. lia.
Qed.
Lemma eb_count : length element_base = 119%nat.
Proof. vm_compute. reflexivity. Qed.

Lemma eb_no_D : ~ In "D" (map row_sym element_base).
Proof. apply mem_str_false. vm_compute. reflexivity. Qed.
Lemma eb_no_T : ~ In "T" (map row_sym element_base).
Proof. apply mem_str_false. vm_compute. reflexivity. Qed.
Lemma eb_no_empty : ~ In "" (map row_sym element_base).
Proof. apply mem_str_false. vm_compute. reflexivity. Qed.
Lemma eb_no_deuterium : ~ In "deuterium" (map row_name element_base).
Proof. apply mem_str_false. vm_compute. reflexivity. Qed.
Lemma eb_no_tritium : ~ In "tritium" (map row_name element_base).
Proof. apply mem_str_false. vm_compute. reflexivity. Qed.
(* module attributes: no element name is another element's symbol *)
Lemma eb_names_symbols_disjoint_b :
  forallb (fun n => negb (mem_str n (map row_sym element_base))) (map row_name element_base) = true.
Proof. vm_compute. reflexivity. Qed.
Lemma eb_H_is_1_b : forallb (fun r => negb (String.eqb (row_sym r) "H") || Z.eqb (row_z r) 1)%bool element_base = true.
Proof. vm_compute. reflexivity. Qed.
Lemma eb_has_H : In "H" (map row_sym element_base).
Proof. vm_compute. tauto. Qed.

(* ---- the invariant holds initially and in every reachable state, for any list of isotope rows *)
Theorem inv_init_base : forall rows, Inv element_base (init_state element_base rows).
Proof. intro rows. apply inv_init. exact eb_z_nodup. Qed.

Theorem inv_reachable : forall rows ops, Inv element_base (run (init_state element_base rows) ops).
Proof. intros. apply inv_run. apply inv_init_base. Qed.

(* ---- the symbol / name / number of an element object determines the object *)
Lemma row_of_sym_unique : forall z1 n1 i1 u1 z2 n2 i2 u2 sy,
  In (z1, n1, sy, i1, u1) element_base -> In (z2, n2, sy, i2, u2) element_base -> z1 = z2.
Proof.
  intros. pose proof eb_sym_nodup as N.
  assert (G : forall (l : ebase) a b, NoDup (map row_sym l) -> In a l -> In b l -> row_sym a = row_sym b -> a = b).
  { induction l as [|x l IH]; intros a b Nd Ha Hb E; [destruct Ha|].
    inversion Nd as [|? ? Nx Nl]; subst. destruct Ha as [->|Ha]; destruct Hb as [->|Hb]; auto.
    - exfalso. apply Nx. rewrite E. apply in_map. exact Hb.
    - exfalso. apply Nx. rewrite <- E. apply in_map. exact Ha. }
  assert (E := G element_base _ _ N H H0 eq_refl). congruence.
Qed.
Lemma row_of_name_unique : forall z1 n1 s1 i1 u1 z2 n2 s2 i2 u2,
  In (z1, n1, s1, i1, u1) element_base -> In (z2, n2, s2, i2, u2) element_base -> lower n1 = lower n2 -> z1 = z2.
Proof.
  intros. pose proof eb_name_nodup as N.
  assert (G : forall (l : ebase) a b, NoDup (map row_name l) -> In a l -> In b l -> row_name a = row_name b -> a = b).
  { induction l as [|x l IH]; intros a b Nd Ha Hb E; [destruct Ha|].
    inversion Nd as [|? ? Nx Nl]; subst. destruct Ha as [->|Ha]; destruct Hb as [->|Hb]; auto.
    - exfalso. apply Nx. rewrite E. apply in_map. exact Hb.
    - exfalso. apply Nx. rewrite <- E. apply in_map. exact Ha. }
  assert (E := G element_base _ _ N H H0 H1). congruence.
Qed.

Theorem symbol_determines_element : forall s T z1 n1 io1 z2 n2 io2 sy o1 o2, Inv element_base s ->
  hget s o1 = Some (OElement T z1 n1 sy io1) -> hget s o2 = Some (OElement T z2 n2 sy io2) -> o1 = o2.
Proof.
  intros s T z1 n1 io1 z2 n2 io2 sy o1 o2 I G1 G2.
  destruct (inv_el_complete _ _ I _ _ _ _ _ _ G1) as [D1 [m1 [i1 [u1 [H1 _]]]]].
  destruct (inv_el_complete _ _ I _ _ _ _ _ _ G2) as [D2 [m2 [i2 [u2 [H2 _]]]]].
  assert (z1 = z2) by (eapply row_of_sym_unique; eauto). subst z2. congruence.
Qed.
Theorem name_determines_element : forall s T z1 sy1 io1 z2 sy2 io2 n o1 o2, Inv element_base s ->
  hget s o1 = Some (OElement T z1 n sy1 io1) -> hget s o2 = Some (OElement T z2 n sy2 io2) -> o1 = o2.
Proof.
  intros s T z1 sy1 io1 z2 sy2 io2 n o1 o2 I G1 G2.
  destruct (inv_el_complete _ _ I _ _ _ _ _ _ G1) as [D1 [m1 [i1 [u1 [H1 [E1 _]]]]]].
  destruct (inv_el_complete _ _ I _ _ _ _ _ _ G2) as [D2 [m2 [i2 [u2 [H2 [E2 _]]]]]].
  assert (z1 = z2) by (eapply row_of_name_unique; eauto; congruence). subst z2. congruence.
Qed.

(* ---- D and T are isotopes 2 and 3 of element 1 *)
Lemma attr_ok_DT : forall s T str o a, Inv element_base s -> (str = "D" /\ a = 2%Z \/ str = "T" /\ a = 3%Z) ->
  attr_ok s T str o -> shape s o (KIsotope T 1 a).
Proof.
  intros s T str o a I C A.
  destruct A as [[z [n [io G]]]|[e [z [n [io [a' [C' [G Ge]]]]]]]].
  - exfalso. destruct (inv_el_complete _ _ I _ _ _ _ _ _ G) as [_ [m [i [u [H _]]]]].
    assert (In str (map row_sym element_base)) by (apply in_map_iff; exists (z, m, str, i, u); auto).
    destruct C as [[-> _]|[-> _]]; [exact (eb_no_D H0)|exact (eb_no_T H0)].
  - assert (a' = a) by (destruct C as [[-> ->]|[-> ->]]; destruct C' as [[E ->]|[E ->]]; try reflexivity; discriminate).
    subst a'. destruct (inv_el_complete _ _ I _ _ _ _ _ _ Ge) as [_ [m [i [u [H _]]]]].
    pose proof eb_H_is_1_b as B. rewrite forallb_forall in B. specialize (B _ H). simpl in B.
    apply Z.eqb_eq in B. subst z. eapply ShI; eauto.
Qed.

Theorem D_T_resolve : forall s T str a o, Inv element_base s -> (str = "D" /\ a = 2%Z \/ str = "T" /\ a = 3%Z) ->
  (step s (BySymbol T str) = (s, ROk o) \/ step s (ByIsoString T str) = (s, ROk o)) -> shape s o (KIsotope T 1 a).
Proof.
  intros s T str a o I C [H|H]; simpl in H.
  - destruct (by_symbol s T str) as [o'|] eqn:B; inversion H; subst.
    eapply attr_ok_DT; eauto. eapply by_symbol_obj; eauto.
  - destruct (by_iso_string s T str) as [o'|] eqn:B; inversion H; subst.
    destruct (by_iso_string_obj _ _ _ _ _ I B) as [attr [A R]].
    assert (P : parse_iso_string str = (None, str)) by (destruct C as [[-> _]|[-> _]]; reflexivity).
    rewrite P in *. simpl in *. destruct R as [[_ ->]|[a' [N _]]]; [|discriminate].
    apply alookup_In in A. apply (inv_attrs _ _ I) in A. eapply attr_ok_DT; eauto.
Qed.

Theorem deuterium_tritium_resolve : forall s T str a o, Inv element_base s ->
  (str = "deuterium" /\ a = 2%Z \/ str = "tritium" /\ a = 3%Z) ->
  step s (ByName T str) = (s, ROk o) -> shape s o (KIsotope T 1 a).
Proof.
  intros s T str a o I C H. simpl in H. destruct (by_name s T str) as [o'|] eqn:B; inversion H; subst.
  destruct (by_name_obj _ _ _ _ _ I B) as [[z [sy [io G]]]|[[E A]|[E A]]].
  - exfalso. destruct (inv_el_complete _ _ I _ _ _ _ _ _ G) as [_ [m [i [u [Hin [En _]]]]]].
    assert (In str (map row_name element_base)) by (apply in_map_iff; exists (z, m, sy, i, u); auto).
    destruct C as [[-> _]|[-> _]]; [exact (eb_no_deuterium H0)|exact (eb_no_tritium H0)].
  - destruct C as [[-> ->]|[-> _]]; [|discriminate]. eapply attr_ok_DT; eauto.
  - destruct C as [[-> _]|[-> ->]]; [discriminate|]. eapply attr_ok_DT; eauto.
Qed.

(* ---- D and T exist in both tables, in the initial and in every reachable state *)
Lemma alookup_keys : forall k l, In k (map fst l) -> alookup k l <> None.
Proof.
  intros k l. induction l as [|[k' v] r IH]; simpl; intro H; [destruct H|].
  destruct (String.eqb_spec k' k); [discriminate|]. apply IH. destruct H; congruence.
Qed.
Lemma attrs_keys_fold : forall T l s,
  map fst (attrs (fold_left (new_element T) l s) T) = (rev (map row_sym l) ++ map fst (attrs s T))%list.
Proof.
  intros T l. induction l as [|r l IH]; intro s; [reflexivity|].
  change (fold_left (new_element T) (r :: l) s) with (fold_left (new_element T) l (new_element T s r)).
  rewrite IH. destruct r as [[[[z name] sym] io] unc].
  assert (E : attrs (new_element T s (z, name, sym, io, unc)) T = (sym, next s) :: attrs s T) by (destruct T; reflexivity).
  rewrite E. simpl. rewrite <- app_assoc. reflexivity.
Qed.
Lemma add_isotope_attrs : forall s x a T, attrs (fst (add_isotope s x a)) T = attrs s T.
Proof.
  intros. unfold add_isotope. destruct (root_info s x) as [[[[e T'] z] io]|]; auto.
  destruct (get2 (isos s) e a); destruct T; reflexivity.
Qed.

Lemma has_DT_init_table : forall eb s T, Inv eb s -> In "H" (map row_sym eb) ->
  NoDup (map row_z eb) -> (forall z, dget (elems s T) z = None) -> has_DT (init_table s T eb) T.
Proof.
  intros eb s T I HH Hnd Hz. unfold init_table.
  destruct (inv_fold_new_element eb T eb s I (incl_refl _) Hnd (fun r _ => Hz (row_z r))) as [I1 _].
  set (s1 := fold_left (new_element T) eb s) in *.
  destruct (alookup "H" (attrs s1 T)) as [h|] eqn:AH.
  2:{ exfalso. apply (alookup_keys "H" (attrs s1 T)); auto. unfold s1. rewrite attrs_keys_fold.
      apply in_or_app. left. apply in_rev in HH. exact HH. }
  apply alookup_In in AH. apply (inv_attrs _ _ I1) in AH.
  destruct AH as [[z [n [io Gh]]]|[e [z [n [io [a [[[C _]|[C _]] _]]]]]]]; try discriminate.
  destruct (add_isotope_element eb s1 h 2 T z n "H" io I1 Gh) as [d [Rd Gd]].
  pose proof (inv_add_isotope eb s1 h 2 I1) as I2.
  pose proof (ext_add_isotope eb s1 h 2 I1) as X2.
  destruct (add_isotope s1 h 2) as [s2 r2]. simpl in *. subst r2.
  assert (Gh2 : hget s2 h = Some (OElement T z n "H" io)) by (apply (ext_heap _ _ X2); exact Gh).
  assert (I3 : Inv eb (push_attr s2 T "D" d)).
  { apply inv_push_attr; auto. right. exists h, z, n, io, 2%Z. auto. }
  set (s3 := push_attr s2 T "D" d) in *.
  assert (Gh3 : hget s3 h = Some (OElement T z n "H" io)) by (unfold s3; destruct T; exact Gh2).
  destruct (add_isotope_element eb s3 h 3 T z n "H" io I3 Gh3) as [t [Rt Gt]].
  pose proof (add_isotope_attrs s3 h 3 T) as At.
  destruct (add_isotope s3 h 3) as [s4 r4]. simpl in *. subst r4.
  unfold has_DT. rewrite attrs_push_attr.
  assert (E : tab_eqb T T = true) by (apply tab_eqb_eq; auto). rewrite E, At. unfold s3. rewrite attrs_push_attr, E.
  simpl. split; discriminate.
Qed.

Lemma mass_init_attrs : forall T rows s T', attrs (mass_init s T rows) T' = attrs s T'.
Proof.
  intros T rows. unfold mass_init. induction rows as [|[z a] r IH]; intros s T'; simpl; auto.
  destruct (table_getitem s T z); rewrite IH; auto. apply add_isotope_attrs.
Qed.
Lemma attrs_fold_other : forall T l s T', T' <> T -> attrs (fold_left (new_element T) l s) T' = attrs s T'.
Proof.
  intros T l. induction l as [|r l IH]; intros s T' N; simpl; auto. rewrite IH by auto.
  destruct r as [[[[z name] sym] io] unc]. destruct T, T'; try reflexivity; congruence.
Qed.
Lemma init_table_attrs_other : forall s T eb T', T' <> T -> attrs (init_table s T eb) T' = attrs s T'.
Proof.
  intros s T eb T' N. unfold init_table.
  destruct (alookup "H" (attrs (fold_left (new_element T) eb s) T)) as [h|]; [|apply attrs_fold_other; auto].
  pose proof (add_isotope_attrs (fold_left (new_element T) eb s) h 2 T') as A2.
  destruct (add_isotope (fold_left (new_element T) eb s) h 2) as [s2 [d|e]]; simpl in A2.
  - pose proof (add_isotope_attrs (push_attr s2 T "D" d) h 3 T') as A3.
    destruct (add_isotope (push_attr s2 T "D" d) h 3) as [s4 [t|e]]; simpl in A3.
    + rewrite attrs_push_attr. destruct (tab_eqb T T') eqn:E; [apply tab_eqb_eq in E; congruence|].
      rewrite A3, attrs_push_attr, E, A2. apply attrs_fold_other; auto.
    + rewrite A3, attrs_push_attr. destruct (tab_eqb T T') eqn:E; [apply tab_eqb_eq in E; congruence|].
      rewrite A2. apply attrs_fold_other; auto.
  - rewrite A2. apply attrs_fold_other; auto.
Qed.

Theorem has_DT_init : forall rows T, has_DT (init_state element_base rows) T.
Proof.
  intros rows T. unfold init_state.
  destruct (inv_init_table element_base empty_state TPub (inv_empty _) eb_z_nodup) as [I1 E1].
  { intro z. apply dget_dempty. }
  assert (D1 : has_DT (init_table empty_state TPub element_base) TPub).
  { apply has_DT_init_table; auto using inv_empty, eb_has_H, eb_z_nodup. intro z. apply dget_dempty. }
  destruct (inv_mass_init element_base TPub rows _ I1) as [I2 E2].
  pose proof (inv_define_elements _ _ I2) as I3.
  set (s3 := define_elements (mass_init (init_table empty_state TPub element_base) TPub rows)) in *.
  assert (Z3 : forall z, dget (elems s3 TPriv) z = None).
  { intro z. unfold s3. rewrite define_elements_elems, E2, E1 by discriminate. apply dget_dempty. }
  unfold has_DT. rewrite !mass_init_attrs. destruct T.
  - rewrite init_table_attrs_other by discriminate. unfold s3.
    change (attrs (define_elements ?s) TPub) with (attrs s TPub). rewrite mass_init_attrs. exact D1.
  - apply has_DT_init_table; auto using eb_has_H, eb_z_nodup.
Qed.

Theorem has_DT_reachable : forall rows ops T, has_DT (run (init_state element_base rows) ops) T.
Proof.
  intros rows ops T. pose proof (ext_run element_base ops _ (inv_init_base rows)) as X.
  unfold has_DT. rewrite (ext_attrs _ _ X). apply has_DT_init.
Qed.

Theorem unknown_name_raises_reachable : forall rows ops T str, ~ In str (map row_name element_base) ->
  str <> "deuterium" -> str <> "tritium" ->
  let s := run (init_state element_base rows) ops in step s (ByName T str) = (s, RErr ValueErr).
Proof.
  intros rows ops T str N1 N2 N3 s.
  exact (unknown_name_raises element_base s T str (inv_reachable rows ops) (has_DT_reachable rows ops T) N1 N2 N3).
Qed.

(* ---- malformed 'A-Sym' strings raise in every reachable state *)
Theorem one_two_H_raises : forall s T, Inv element_base s -> step s (ByIsoString T "1-2-H") = (s, RErr ValueErr).
Proof.
  intros s T I. apply (unknown_iso_symbol_raises element_base s T "1-2-H" I).
  - exact eb_no_empty.
  - simpl. discriminate.
  - simpl. discriminate.
Qed.
Theorem four_D_raises : forall s T, Inv element_base s -> step s (ByIsoString T "4-D") = (s, RErr ValueErr).
Proof.
  intros s T I. apply (numbered_DT_raises element_base s T "4-D" I eb_no_D eb_no_T).
  - simpl. discriminate.
  - left. reflexivity.
Qed.
Theorem x_H_raises : forall s T, Inv element_base s -> PosIso s -> step s (ByIsoString T "x-H") = (s, RErr ValueErr).
Proof.
  intros s T I P. apply (nonpositive_iso_string_raises element_base s T "x-H" (-1)%Z I P); [reflexivity|lia].
Qed.

Theorem out_of_range_z_raises : forall s T z, Inv element_base s -> (z < 0 \/ 118 < z)%Z ->
  step s (ByZ T z) = (s, RErr KeyErr).
Proof.
  intros s T z I R. eapply z_not_in_base_raises; eauto. intro H. apply eb_z_range in H. lia.
Qed.

(* ---- no isotope has a non-positive mass number, initially (when the rows have none) and after
        any operations that add none *)
Lemma posiso_new_element : forall T s r, PosIso s -> PosIso (new_element T s r).
Proof.
  intros T s [[[[z name] sym] io] unc] P o e a G.
  assert (E : hget (new_element T s (z, name, sym, io, unc)) o =
              hget (fst (alloc s (OElement T z (lower name) sym (io ++ unc)%list))) o) by (destruct T; reflexivity).
  rewrite E, hget_alloc in G. destruct (Pos.eqb o (next s)); [discriminate|]. eapply P; eauto.
Qed.
Lemma posiso_push_attr : forall s T k o, PosIso s -> PosIso (push_attr s T k o).
Proof. intros s T k o P x e a G. apply (P x e a). destruct T; exact G. Qed.

Lemma posiso_init_table : forall eb s T, PosIso s -> PosIso (init_table s T eb).
Proof.
  intros eb s T P. unfold init_table.
  assert (F : forall l s', PosIso s' -> PosIso (fold_left (new_element T) l s')).
  { induction l as [|r l IH]; intros s' P'; simpl; auto. apply IH. apply posiso_new_element. exact P'. }
  pose proof (F eb s P) as P1. set (s1 := fold_left (new_element T) eb s) in *.
  destruct (alookup "H" (attrs s1 T)) as [h|]; auto.
  pose proof (posiso_add_isotope s1 h 2 P1 ltac:(lia)) as P2.
  destruct (add_isotope s1 h 2) as [s2 [d|e]]; simpl in *; auto.
  pose proof (posiso_add_isotope (push_attr s2 T "D" d) h 3 (posiso_push_attr _ _ _ _ P2) ltac:(lia)) as P4.
  destruct (add_isotope (push_attr s2 T "D" d) h 3) as [s4 [t|e]]; simpl in *; auto.
  apply posiso_push_attr. exact P4.
Qed.

Lemma posiso_mass_init : forall T rows s, Forall (fun za => (0 < snd za)%Z) rows -> PosIso s -> PosIso (mass_init s T rows).
Proof.
  intros T rows. unfold mass_init. induction rows as [|[z a] r IH]; intros s F P; simpl; auto.
  inversion F; subst. destruct (table_getitem s T z); apply IH; auto. apply posiso_add_isotope; auto.
Qed.

Theorem posiso_init : forall rows, Forall (fun za => (0 < snd za)%Z) rows -> PosIso (init_state element_base rows).
Proof.
  intros rows F. unfold init_state. apply posiso_mass_init; auto. apply posiso_init_table.
  assert (D : forall s, PosIso s -> PosIso (define_elements s)) by (intros s P o e a G; exact (P o e a G)).
  apply D. apply posiso_mass_init; auto. apply posiso_init_table. intros o e a G.
  unfold hget in G. simpl in G. rewrite PositiveMap.gempty in G. discriminate.
Qed.

Lemma the_rows_positive_b : forallb (fun za => (0 <? snd za)%Z) the_rows = true.
Proof. vm_compute. reflexivity. Qed.
Lemma the_rows_positive : Forall (fun za => (0 < snd za)%Z) the_rows.
Proof.
  apply Forall_forall. intros za H. pose proof the_rows_positive_b as B. rewrite forallb_forall in B.
  apply Z.ltb_lt. exact (B za H).
Qed.

(* the state after `import periodictable` + a private table, with the isotopes of the regenerated mass table *)
Theorem the_init_inv : Inv element_base the_init.
Proof. apply inv_init_base. Qed.
Theorem the_init_posiso : PosIso the_init.
Proof. apply posiso_init. exact the_rows_positive. Qed.

Theorem x_H_raises_reachable : forall ops T, Forall pos_op ops ->
  let s := run the_init ops in step s (ByIsoString T "x-H") = (s, RErr ValueErr).
Proof.
  intros ops T F s. apply x_H_raises.
  - apply inv_run. exact the_init_inv.
  - eapply posiso_run; eauto using the_init_inv, the_init_posiso.
Qed.

(* ---- every symbol, name and number of element_base resolves, in both tables of the initial state,
        by every route, to one object, the element with that number; every isotope row resolves by
        element[A] and by 'A-Sym' to one isotope object with that number *)
Definition r1_is (r : r1) (o : oid) : bool := match r with Ok o' => Pos.eqb o o' | Er _ => false end.

Definition routes_ok (s : state) (T : tabid) (r : Z * string * string * list Z * list Z) : bool :=
  let '(z, name, sym, _, _) := r in
  match table_getitem s T z with
  | Ok o =>
      (match hget s o with
       | Some (OElement T' z' n sy _) => tab_eqb T T' && Z.eqb z z' && String.eqb n (lower name) && String.eqb sy sym
       | _ => false
       end)
      && r1_is (by_symbol s T sym) o && r1_is (by_name s T (lower name)) o && r1_is (by_iso_string s T sym) o
      && (match T with TPub => r1_is (mod_attr s sym) o && r1_is (mod_attr s (lower name)) o | TPriv => true end)
      && (match pickle s o with (_, Ok o') => Pos.eqb o o' | _ => false end)
  | Er _ => false
  end.

Definition iso_routes_ok (s : state) (T : tabid) (za : Z * Z) : bool :=
  let '(z, a) := za in
  match table_getitem s T z with
  | Ok e =>
      match hget s e, elem_getitem s e a with
      | Some (OElement _ _ _ sym _), Ok o =>
          (match hget s o with Some (OIsotope e' a') => Pos.eqb e e' && Z.eqb a a' | _ => false end)
          && r1_is (by_iso_string s T (Z_to_string a ++ "-" ++ sym)) o
          && r1_is (snd (add_isotope s e a)) o
          && (match pickle s o with (_, Ok o') => Pos.eqb o o' | _ => false end)
      | _, _ => false
      end
  | Er _ => false
  end.

Definition sweep_b (s : state) (rows : list (Z * Z)) : bool :=
  forallb (fun T => forallb (routes_ok s T) element_base && forallb (iso_routes_ok s T) rows)%bool [TPub; TPriv].

Lemma sweep_the_init : sweep_b the_init the_rows = true.
Proof. vm_compute. reflexivity. Qed.

Lemma sweep_elim : forall s rows, sweep_b s rows = true -> forall T,
  (forall r, In r element_base -> routes_ok s T r = true) /\
  (forall za, In za rows -> iso_routes_ok s T za = true).
Proof.
  intros s rows S T. unfold sweep_b in S. rewrite forallb_forall in S.
  assert (HT : In T [TPub; TPriv]) by (destruct T; simpl; auto).
  specialize (S T HT). cbv beta in S. apply andb_prop in S. destruct S as [S1 S2].
  rewrite forallb_forall in S1. rewrite forallb_forall in S2. split; assumption.
Qed.

Theorem every_element_resolves : forall T r, In r element_base -> routes_ok the_init T r = true.
Proof. intro T. exact (proj1 (sweep_elim the_init the_rows sweep_the_init T)). Qed.
Theorem every_isotope_resolves : forall T za, In za the_rows -> iso_routes_ok the_init T za = true.
Proof. intro T. exact (proj2 (sweep_elim the_init the_rows sweep_the_init T)). Qed.

(* ---- a string with an isotope part ('A-Sym') that is accepted returns that isotope; '0-Sym' raises *)
Lemma split_char_aux_nonempty : forall c s cur, split_char_aux c s cur <> [].
Proof.
  intros c s. induction s as [|a r IH]; intro cur; simpl; [discriminate|].
  destruct (ascii_eqb a c); [discriminate|apply IH].
Qed.
Lemma split_char_aux_two : forall c s cur, contains_char c s = true ->
  exists a b r, split_char_aux c s cur = a :: b :: r.
Proof.
  intros c s. induction s as [|x r IH]; intros cur H; simpl in *; [discriminate|].
  destruct (ascii_eqb x c).
  - destruct (split_char_aux c r (fun x0 => x0)) as [|b t] eqn:E.
    + exfalso. exact (split_char_aux_nonempty _ _ _ E).
    + eauto.
  - simpl in H. apply IH. exact H.
Qed.
Lemma parse_with_dash : forall str, contains_char "-"%char str = true ->
  exists a, fst (parse_iso_string str) = Some a.
Proof.
  intros str H. unfold parse_iso_string, split_char.
  destruct (split_char_aux_two _ _ (fun x => x) H) as [a [b [r E]]]. rewrite E.
  destruct r; simpl; eauto.
Qed.
Lemma contains_dash_concat : forall num sym, contains_char "-"%char (num ++ "-" ++ sym) = true.
Proof.
  intros num sym. induction num as [|a r IH]; simpl; [reflexivity|]. simpl in IH. rewrite IH. apply orb_true_r.
Qed.

Theorem iso_string_with_number : forall eb s T str o, Inv eb s -> contains_char "-"%char str = true ->
  by_iso_string s T str = Ok o ->
  exists e a, fst (parse_iso_string str) = Some a /\
              alookup (snd (parse_iso_string str)) (attrs s T) = Some e /\
              hget s o = Some (OIsotope e a).
Proof.
  intros eb s T str o I C H. destruct (parse_with_dash str C) as [a Ea].
  destruct (by_iso_string_obj _ _ _ _ _ I H) as [attr [A [[E _]|[a' [E G]]]]]; [congruence|].
  exists attr, a'. auto.
Qed.

Definition iso_string_names_isotope (eb : ebase) : Prop :=
  forall rows T num sym o, by_iso_string (init_state eb rows) T (num ++ "-" ++ sym) = Ok o ->
    exists e a, hget (init_state eb rows) o = Some (OIsotope e a).

Theorem isotope_string_names_isotope : iso_string_names_isotope element_base.
Proof.
  intros rows T num sym o H.
  destruct (iso_string_with_number element_base _ T _ o (inv_init_base rows) (contains_dash_concat num sym) H)
    as [e [a [_ [_ G]]]].
  exists e, a. exact G.
Qed.

(* '0-Sym' for any Sym (and whatever follows): the isotope number is 0 or, with further dashes, -1 *)
Lemma parse_zero : forall sym, exists a sy, parse_iso_string ("0-" ++ sym) = (Some a, sy) /\ (a <= 0)%Z.
Proof.
  intro sym. unfold parse_iso_string, split_char. simpl.
  destruct (split_char_aux "-"%char sym (fun x => x)) as [|p1 r] eqn:E.
  - exfalso. exact (split_char_aux_nonempty _ _ _ E).
  - destruct r.
    + exists 0%Z, p1. split; [reflexivity|lia].
    + exists (-1)%Z, "". split; [reflexivity|lia].
Qed.

Theorem zero_iso_string_raises : forall ops T sym, Forall pos_op ops ->
  let s := run the_init ops in step s (ByIsoString T ("0-" ++ sym)) = (s, RErr ValueErr).
Proof.
  intros ops T sym F s. destruct (parse_zero sym) as [a [sy [E Ha]]].
  apply (nonpositive_iso_string_raises element_base s T ("0-" ++ sym) a).
  - apply inv_run. exact the_init_inv.
  - eapply posiso_run; eauto using the_init_inv, the_init_posiso.
  - rewrite E. reflexivity.
  - exact Ha.
Qed.
