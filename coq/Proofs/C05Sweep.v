(* Proofs/C05Sweep.v — statements about every regenerated .nff table (from the eight parts
   Proofs/C05Sweep<k>.v), the out-of-order witness of si.nff, which elements have a table, the
   reader's literals, and the sweeps over f0_WaasKirf.dat (electron count at Q = 0, range test). *)
From Coq Require Import ZArith QArith Qabs String Ascii List Bool Lia Lqa Sorted.
From PT Require Import Str Dec Py Loaders Formula Ancillary Xsf XsfReal C06Check AtomEnv C05Check C05Interp C05SweepDefs
     C05Sweep0 C05Sweep1 C05Sweep2 C05Sweep3 C05Sweep4 C05Sweep5 C05Sweep6 C05Sweep7.
From PT.Gen Require Import NffIndex ElementBase WaasKirf Constants.
Import ListNotations.
Open Scope Q_scope.

(* ------------------------------------------------------------------ every table *)
Theorem nff_tables : forall name lines, In (name, lines) nff_files ->
  exists t, nff_table lines = Some t /\ table_facts name t.
Proof.
  intros name lines H. unfold nff_files in H.
  repeat (apply in_app_or in H; destruct H as [H|H];
          [first [ exact (chunk_ok_sound _ chunk0_ok _ _ H) | exact (chunk_ok_sound _ chunk1_ok _ _ H)
                 | exact (chunk_ok_sound _ chunk2_ok _ _ H) | exact (chunk_ok_sound _ chunk3_ok _ _ H)
                 | exact (chunk_ok_sound _ chunk4_ok _ _ H) | exact (chunk_ok_sound _ chunk5_ok _ _ H)
                 | exact (chunk_ok_sound _ chunk6_ok _ _ H) ]|]).
  exact (chunk_ok_sound _ chunk7_ok _ _ H).
Qed.

(* all tables but si.nff have strictly increasing energies *)
Theorem nff_sorted_partial : forall name lines t, In (name, lines) nff_files -> name <> "si.nff"%string ->
  nff_table lines = Some t -> increasing t.
Proof.
  intros name lines t H Hn E. destruct (nff_tables name lines H) as [t' [E' F]].
  rewrite E in E'. inversion E'; subst. apply (tf_sorted _ _ F). exact Hn.
Qed.

(* every table covers 10 eV .. 30000 eV and has f2 > 0 *)
Theorem nff_range : forall name lines t, In (name, lines) nff_files -> nff_table lines = Some t ->
  (exists r l, t = r :: l /\ fst r <= E_FIRST) /\ (exists l r, t = (l ++ [r])%list /\ E_LAST <= fst r) /\
  (forall r, In r t -> 0 < snd (snd r)).
Proof.
  intros name lines t H E. destruct (nff_tables name lines H) as [t' [E' F]].
  rewrite E in E'. inversion E'; subst. destruct F. tauto.
Qed.

(* so interpolation on them has the three generic properties (column f1 and column f2) *)
Theorem nff_columns_increasing : forall name lines t, In (name, lines) nff_files -> name <> "si.nff"%string ->
  nff_table lines = Some t -> increasing (col1 t) /\ increasing (col2 t).
Proof.
  intros name lines t H Hn E. pose proof (nff_sorted_partial name lines t H Hn E) as S.
  split; [exact (increasing_map _ _ (fun v : option Q * Q => fst v) t S)
         |exact (increasing_map _ _ (fun v : option Q * Q => Some (snd v)) t S)].
Qed.

(* ------------------------------------------------------------------ si.nff *)
Definition si_witness_row : nat := 579.     (* data rows 580 and 581 = file lines 581 and 582 *)

Lemma si_witness_c :
  match file_lookup nff_files "si.nff" with
  | Some lines => match nff_table lines with Some t => descent_at t si_witness_row | None => false end
  | None => false
  end = true.
Proof. vm_compute. reflexivity. Qed.

Theorem nff_sorted_refuted : exists lines t rj rk,
  file_lookup nff_files "si.nff" = Some lines /\ nff_table lines = Some t /\
  nth_error t 579 = Some rj /\ nth_error t 580 = Some rk /\ fst rk < fst rj /\ ~ increasing t.
Proof.
  pose proof si_witness_c as H.
  destruct (file_lookup nff_files "si.nff") as [lines|] eqn:E1; [|discriminate].
  destruct (nff_table lines) as [t|] eqn:E2; [|discriminate].
  unfold descent_at, si_witness_row in H.
  destruct (nth_error t 579) as [rj|] eqn:E3; [|discriminate].
  destruct (nth_error t 580) as [rk|] eqn:E4; [|discriminate].
  apply negb_true_iff in H. apply Qle_bool_false_lt in H.
  exists lines, t, rj, rk. repeat split; try reflexivity; try assumption.
  intro S. pose proof (increasing_nth _ t 579%nat rj rk S E3 E4). lra.
Qed.

(* ------------------------------------------------------------------ which elements have a table *)
Fixpoint zrange (n : nat) (from : Z) : list Z :=
  match n with O => [] | S k => from :: zrange k (from + 1)%Z end.

Definition has_file (z : Z) : bool :=
  match eb_symbol EB05 z with
  | Some s => match file_lookup nff_files (nff_name s) with Some _ => true | None => false end
  | None => false
  end.

Lemma nff_elements_c :
  (forallb has_file (zrange 92 1) && Nat.eqb (List.length nff_files) 92
   && forallb (fun z => negb (has_file z)) (zrange 26 93))%bool = true.
Proof. vm_compute. reflexivity. Qed.

(* hydrogen to uranium have a table, no element beyond has one, and there is no other file *)
Theorem nff_elements : (forall z, (1 <= z <= 92)%Z -> has_file z = true) /\
                       (forall z, (93 <= z <= 118)%Z -> has_file z = false) /\ List.length nff_files = 92%nat.
Proof.
  pose proof nff_elements_c as H. apply andb_prop in H. destruct H as [H H3].
  apply andb_prop in H. destruct H as [H1 H2]. rewrite forallb_forall in H1, H3.
  assert (forall n from z, (from <= z < from + Z.of_nat n)%Z -> In z (zrange n from)) as R.
  { induction n as [|n IH]; intros from z Hz; [lia|]. simpl. destruct (Z.eq_dec from z); [left; assumption|].
    right. apply IH. lia. }
  split; [|split].
  - intros z Hz. apply H1. apply R. lia.
  - intros z Hz. apply negb_true_iff. apply H3. apply R. lia.
  - apply Nat.eqb_eq. exact H2.
Qed.

(* every atom of an element (isotopes, ions, also the ions of D and T) uses the element's table *)
Theorem same_table_for_variants : forall a b, avariant a b ->
  sftable EB05 nff_files a = sftable EB05 nff_files b.
Proof. intros a b [Hz _]. unfold sftable, xray_symbol. rewrite Hz. reflexivity. Qed.

(* ------------------------------------------------------------------ the reader's literals *)
Theorem nff_reader_literals : reader_literals_ok = true.
Proof. vm_compute. reflexivity. Qed.

(* ------------------------------------------------------------------ constants *)
Theorem hc_nonzero : ~ HPL * CLIGHT == 0.
Proof. intro H. revert H. vm_compute. discriminate. Qed.

Theorem conv_roundtrip : forall x, ~ x == 0 -> conv_Q (conv_Q x) == x.
Proof. intros x Hx. apply energy_wavelength_roundtrip; [exact hc_nonzero|exact Hx]. Qed.

(* the natural mass of the_env depends on the element and the charge only *)
Theorem natmass_of_element : forall a b, avariant a b ->
  e_natmass (env_with the_tbl the_dens) a == e_natmass (env_with the_tbl the_dens) b.
Proof.
  intros a b [Hz Hq]. unfold env_with. destruct the_tbl; destruct the_dens; simpl; try reflexivity.
  rewrite Hz, Hq. reflexivity.
Qed.

(* ------------------------------------------------------------------ f0_WaasKirf.dat *)
(* "#S  Z  symbol" headers of the file *)
Definition wk_headers : list (Z * string) :=
  flat_map (fun line => match split_ws line with
                        | w0 :: zt :: s :: _ =>
                            if String.eqb w0 "#S" then match parse_int zt with Some z => [(z, s)] | None => [] end else []
                        | _ => []
                        end) f0_WaasKirf.

Fixpoint take_digits (s : string) : string :=
  match s with
  | String c r => if is_digit c then String c (take_digits r) else EmptyString
  | EmptyString => EmptyString
  end.
(* charge of an entry symbol: "Fe3+" -> 3, "O2-" -> -2, anything else (neutral atoms, Cval, Siva) -> 0 *)
Definition entry_charge (sym : string) : Z :=
  match last_char sym with
  | Some c =>
      if (ascii_eqb c "+" || ascii_eqb c "-")%bool then
        match parse_int (srev (take_digits (srev (drop_last sym)))) with
        | Some n => if ascii_eqb c "-" then (- n)%Z else n
        | None => 0%Z
        end
      else 0%Z
  | None => 0%Z
  end.

Definition entry_ok (d : cmdict) (h : Z * string) : bool :=
  match cm_lookup d (snd h) with
  | Some f =>
      (Nat.eqb (List.length (cm_a f)) 5 && Nat.eqb (List.length (cm_b f)) 5
       && Qle_bool (Qabs (cm_at_zero f - inject_Z (fst h - entry_charge (snd h)))) (5 # 100))%bool
  | None => false
  end.

Definition on {A} (o : option A) (f : A -> bool) : bool := match o with Some d => f d | None => false end.
Lemma on_elim : forall A (o : option A) f d, on o f = true -> o = Some d -> f d = true.
Proof. intros A o f d H E. subst o. exact H. Qed.

Lemma f0_entries_c : on the_cm05 (fun d => (forallb (entry_ok d) wk_headers && Nat.eqb (List.length wk_headers) (List.length d))%bool) = true.
Proof. vm_compute. reflexivity. Qed.

(* every entry of the file: five a, five b, and sum a_i + c within 0.05 of Z - charge *)
Theorem f0_at_zero : forall d, the_cm05 = Some d -> forall z sym, In (z, sym) wk_headers ->
  exists f, cm_lookup d sym = Some f /\ List.length (cm_a f) = 5%nat /\ List.length (cm_b f) = 5%nat /\
            Qabs (cm_at_zero f - inject_Z (z - entry_charge sym)) <= 5 # 100.
Proof.
  intros d E z sym H. pose proof (on_elim _ _ _ d f0_entries_c E) as C. cbv beta in C.
  apply andb_prop in C. destruct C as [C _]. rewrite forallb_forall in C. specialize (C _ H).
  unfold entry_ok in C. simpl in C. destruct (cm_lookup d sym) as [f|]; [|discriminate].
  exists f. apply andb_prop in C. destruct C as [C C3]. apply andb_prop in C. destruct C as [C1 C2].
  split; [reflexivity|]. split; [apply Nat.eqb_eq; exact C1|]. split; [apply Nat.eqb_eq; exact C2|].
  apply Qle_bool_iff. exact C3.
Qed.

(* every atom or ion of the table with coefficients, through the symbol Xray.f0 builds *)
Definition atom_f0_ok (d : cmdict) (row : Z * string * string * list Z * list Z) : bool :=
  let '(z, _, sym, ions, _) := row in
  forallb (fun c => match cm_lookup d (cm_symbol sym (Some c)) with
                    | Some f => Qle_bool (Qabs (cm_at_zero f - inject_Z (z - c))) (5 # 100)
                    | None => true
                    end) (0%Z :: ions).

Lemma f0_atoms_c : on the_cm05 (fun d => forallb (atom_f0_ok d) element_base) = true.
Proof. vm_compute. reflexivity. Qed.

Theorem f0_at_zero_atoms : forall d, the_cm05 = Some d ->
  forall z name sym ions unc c f, In (z, name, sym, ions, unc) element_base -> In c (0%Z :: ions) ->
  cm_lookup d (cm_symbol sym (Some c)) = Some f -> Qabs (cm_at_zero f - inject_Z (z - c)) <= 5 # 100.
Proof.
  intros d E z name sym ions unc c f H Hc L. pose proof (on_elim _ _ _ d f0_atoms_c E) as C. cbv beta in C.
  rewrite forallb_forall in C. specialize (C _ H). unfold atom_f0_ok in C.
  rewrite forallb_forall in C. specialize (C _ Hc). rewrite L in C. apply Qle_bool_iff. exact C.
Qed.

Theorem cm_loaded : exists d, the_cm05 = Some d.
Proof. destruct the_cm05 as [d|] eqn:E; [exists d; reflexivity|]. exfalso. revert E. vm_compute. discriminate. Qed.

(* NaN beyond the fitted range: the model's range test, and where the boundary lies in binary64 *)
Theorem f0_beyond_range_nan : forall f q, STOL_LIMIT < stol64 q -> f0_model f q = None.
Proof.
  intros f q H. unfold f0_model, f0_beyond. destruct (Qlt_le_dec STOL_LIMIT (stol64 q)) as [C|C]; [reflexivity|lra].
Qed.

Theorem f0_within_range_value : forall f q, stol64 q <= STOL_LIMIT -> f0_model f q = Some (f0_expr f (IExpr.ECst q)).
Proof.
  intros f q H. unfold f0_model, f0_beyond. destruct (Qlt_le_dec STOL_LIMIT (stol64 q)) as [C|C]; [lra|reflexivity].
Qed.

(* Q = fl(24 pi) is the last double inside the range; its successor and everything the harness
   sends above are outside *)
Definition Q24PI : Q := fl (24 * PI64).
Theorem f0_boundary : stol64 Q24PI == 6 /\ f0_beyond Q24PI = false /\
                      f0_beyond (Q24PI + D2Q 1 (-46)) = true /\ f0_beyond 76 = true.
Proof. vm_compute. repeat split; reflexivity. Qed.
