(* C07 - every row of the embedded neutron tables names the element it is filed under: the key "Z-Sym[-A]" of
   nsftable and nsftableI carries atomic number and symbol; nsf.py uses the number.  A mis-typed number would hand
   the row to another element. *)
From Coq Require Import ZArith String Ascii List Bool.
From PT Require Import Str Dec C06Rows.
From PT.Gen Require NsfTables ElementBase.
Import ListNotations.
Open Scope string_scope.

Definition nsf_row_ok (line : string) : bool :=
  match split_char "," line with
  | key :: _ =>
      match split_char "-" key with
      | z :: sym :: rest =>
          match parse_int z, base_find (match parse_int z with Some zz => zz | None => (-1)%Z end) with
          | Some _, Some (_, bsym) =>
              (String.eqb sym bsym
               && match rest with
                  | [] => true
                  | [a] => match parse_int a with Some aa => (0 <? aa)%Z | None => false end
                  | _ => false
                  end)%bool
          | _, _ => false
          end
      | _ => false
      end
  | [] => false
  end.

Lemma sweep_nsf_rows : forallb nsf_row_ok NsfTables.nsftable = true.
Proof. vm_compute. reflexivity. Qed.
Lemma sweep_nsfI_rows : forallb nsf_row_ok NsfTables.nsftableI = true.
Proof. vm_compute. reflexivity. Qed.

Theorem nsf_rows_name_their_element :
  (forall line, In line NsfTables.nsftable -> nsf_row_ok line = true) /\
  (forall line, In line NsfTables.nsftableI -> nsf_row_ok line = true).
Proof.
  split; intros line H.
  - exact (proj1 (forallb_forall _ _) sweep_nsf_rows line H).
  - exact (proj1 (forallb_forall _ _) sweep_nsfI_rows line H).
Qed.

Example nsf_row_sensitivity :
  nsf_row_ok "64-Gd-155,14.8,3/2,13.8(3),,,E,40.8(4),25.(6.),66.(6.),61100.(400.)" = true /\
  nsf_row_ok "46-Gd-155,14.8,3/2,13.8(3),,,E,40.8(4),25.(6.),66.(6.),61100.(400.)" = false.
Proof. split; vm_compute; reflexivity. Qed.
