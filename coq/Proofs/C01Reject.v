(* Proofs/C01Reject.v — malformed strings are not accepted by the parser model:
   an unknown symbol, an undefined isotope or charge at ANY position of an otherwise well-formed
   string (any nesting depth, arbitrary text afterwards) aborts the parse with the documented
   exception; unbalanced parentheses, '@' without a number and a count with a leading zero leave
   text unconsumed. *)
From Coq Require Import ZArith QArith String Ascii List Bool Lia.
From PT Require Import Str Dec Py Loaders Formula Pyparse Grammar C01Lex C01Wf C01Accept C01Consume.
Import ListNotations.
Open Scope string_scope.

Section Reject.
  Variable T : ptable.

  (* ---------------------------------------------------------------- one element aborts *)
  Lemma elem_unknown : forall sym Z, is_symbol sym = true -> t_symbol T sym = None -> hdp notlower Z = true ->
    p_element T (sym ++ Z) = PAbort ValueErr.
  Proof.
    intros sym Z Hs Hn HZ. rewrite p_element_eq, (p_symbol_ok T sym Z Hs HZ), Hn. reflexivity.
  Qed.

  (* lexically an element: symbol, tags and count have the documented shape *)
  Definition lex_elem (e : elem) : bool :=
    (is_symbol (el_sym e) && wf_iso_txt (el_iso e) && wf_ion_txt (el_ion e) && wf_ctext (el_cnt e))%bool.

  Lemma iso_val_some : forall iso, wf_iso_txt iso = true ->
    exists vi, iso_val iso = Some vi /\ (iso = None -> vi = 0%Z) /\ (iso <> None -> (0 < vi)%Z).
  Proof.
    intros [n|] H; simpl in *.
    - destruct (parse_int_whole n H) as (v & Ev & Hv). exists v. rewrite Ev. repeat split; [discriminate|auto].
    - exists 0%Z. repeat split; congruence.
  Qed.

  Lemma ion_val_some : forall ion, wf_ion_txt ion = true ->
    exists vq, ion_val ion = Some vq /\ (ion = None -> vq = 0%Z) /\ (ion <> None -> vq <> 0%Z).
  Proof.
    intros [[d neg]|] H; simpl in *.
    - assert (E : exists m, ion_mag d = Some m /\ (0 < m)%Z).
      { unfold ion_mag. apply orb_prop in H. destruct H as [H|H].
        - rewrite H. exists 1%Z. split; [reflexivity|lia].
        - destruct (String.eqb d "") eqn:E0; [apply String.eqb_eq in E0; subst d; discriminate|].
          exact (parse_int_whole d H). }
      destruct E as (m & Em & Hm). rewrite Em. eexists. split; [reflexivity|]. split; [discriminate|].
      intros _. destruct neg; lia.
    - exists 0%Z. repeat split; congruence.
  Qed.

  Lemma elem_lex_post : forall e za Z, lex_elem e = true -> t_symbol T (el_sym e) = Some za ->
    hdp nf_elem Z = true ->
    exists vi vq, iso_val (el_iso e) = Some vi /\ ion_val (el_ion e) = Some vq /\
                  p_element T (r_elem e ++ Z) = elem_post T za vi vq (cv (el_cnt e)) Z.
  Proof.
    intros e za Z H Hza HZ. unfold lex_elem in H.
    apply andb_prop in H. destruct H as [H Hc]. apply andb_prop in H. destruct H as [H Hq].
    apply andb_prop in H. destruct H as [Hs Hi].
    destruct (iso_val_some _ Hi) as (vi & Vi & _). destruct (ion_val_some _ Hq) as (vq & Vq & _).
    exists vi, vq. split; [exact Vi|]. split; [exact Vq|].
    rewrite r_elem_eq, !sapp_assoc.
    rewrite (p_element_gen T _ _ _ _ za vi vq Hs Hza Hi Hq Vi Vq).
    - rewrite (p_count_ctext _ Z Hc (hdp_impl _ _ nf_elem_count _ HZ)). reflexivity.
    - apply ctext_hd; [exact Hc|exact (hdp_impl _ _ nf_elem_sym _ HZ)].
  Qed.

  (* an isotope the element does not have: KeyError *)
  Lemma elem_iso_undefined : forall e z n v Z, lex_elem e = true -> t_symbol T (el_sym e) = Some (z, 0%Z) ->
    el_iso e = Some n -> parse_int n = Some v -> t_has_iso T z v = false -> hdp nf_elem Z = true ->
    p_element T (r_elem e ++ Z) = PAbort KeyErr.
  Proof.
    intros e z n v Z H Hz Hn Hv Hhas HZ.
    destruct (elem_lex_post e _ Z H Hz HZ) as (vi & vq & Vi & Vq & E). rewrite E.
    unfold lex_elem in H. apply andb_prop in H. destruct H as [H _]. apply andb_prop in H. destruct H as [H _].
    apply andb_prop in H. destruct H as [_ Hi]. destruct (iso_val_some _ Hi) as (vi' & Vi' & _ & Hpos).
    rewrite Vi in Vi'. inversion Vi'; subst vi'. rewrite Hn in Vi, Hpos. simpl in Vi. rewrite Hv in Vi. inversion Vi; subst vi.
    assert (Hp : (0 < v)%Z) by (apply Hpos; discriminate).
    unfold elem_post. destruct (Z.eqb v 0) eqn:E0; [apply Z.eqb_eq in E0; lia|].
    simpl. rewrite Hhas. reflexivity.
  Qed.

  (* an isotope tag on D or T: TypeError *)
  Lemma elem_iso_on_isotope : forall e z a0 n Z, lex_elem e = true -> t_symbol T (el_sym e) = Some (z, a0) ->
    a0 <> 0%Z -> el_iso e = Some n -> hdp nf_elem Z = true ->
    p_element T (r_elem e ++ Z) = PAbort TypeErr.
  Proof.
    intros e z a0 n Z H Hz Ha Hn HZ.
    destruct (elem_lex_post e _ Z H Hz HZ) as (vi & vq & Vi & Vq & E). rewrite E.
    unfold lex_elem in H. apply andb_prop in H. destruct H as [H _]. apply andb_prop in H. destruct H as [H _].
    apply andb_prop in H. destruct H as [_ Hi]. destruct (iso_val_some _ Hi) as (vi' & Vi' & _ & Hpos).
    rewrite Vi in Vi'. inversion Vi'; subst vi'.
    assert (Hp : (0 < vi)%Z) by (apply Hpos; rewrite Hn; discriminate).
    unfold elem_post. destruct (Z.eqb vi 0) eqn:E0; [apply Z.eqb_eq in E0; lia|].
    destruct (Z.eqb a0 0) eqn:E1; [apply Z.eqb_eq in E1; contradiction|]. reflexivity.
  Qed.

  (* a charge the element does not list: ValueError *)
  Lemma elem_ion_undefined : forall e z a0 q Z, lex_elem e = true -> t_symbol T (el_sym e) = Some (z, a0) ->
    match el_iso e with
    | None => True
    | Some n => a0 = 0%Z /\ exists v, parse_int n = Some v /\ t_has_iso T z v = true
    end ->
    el_ion e <> None -> ion_val (el_ion e) = Some q -> t_has_ion T z q = false -> hdp nf_elem Z = true ->
    p_element T (r_elem e ++ Z) = PAbort ValueErr.
  Proof.
    intros e z a0 q Z H Hz Hiso Hne Hq Hhas HZ.
    destruct (elem_lex_post e _ Z H Hz HZ) as (vi & vq & Vi & Vq & E). rewrite E.
    rewrite Hq in Vq. inversion Vq; subst vq.
    unfold lex_elem in H. apply andb_prop in H. destruct H as [H _]. apply andb_prop in H. destruct H as [H Hqt].
    apply andb_prop in H. destruct H as [_ Hi].
    destruct (ion_val_some _ Hqt) as (q' & Q' & _ & Hnz). rewrite Hq in Q'. inversion Q'; subst q'.
    specialize (Hnz Hne).
    unfold elem_post.
    assert (Ea : exists a, (if Z.eqb vi 0 then Some a0
                            else if negb (Z.eqb a0 0) then None
                            else if t_has_iso T z vi then Some vi else None) = Some a).
    { destruct (el_iso e) as [n|]; simpl in Vi.
      - destruct Hiso as (-> & v & Ev & Hv). rewrite Ev in Vi. inversion Vi; subst vi.
        destruct (Z.eqb v 0); [eexists; reflexivity|]. simpl. rewrite Hv. eexists; reflexivity.
      - inversion Vi; subst vi. eexists; reflexivity. }
    destruct Ea as (a & Ea). rewrite Ea.
    destruct (Z.eqb q 0) eqn:E0; [apply Z.eqb_eq in E0; contradiction|]. rewrite Hhas. reflexivity.
  Qed.

  Lemma lex_elem_hd : forall e Z, lex_elem e = true -> hds is_upper (r_elem e ++ Z) = true.
  Proof.
    intros e Z H. unfold lex_elem in H. apply andb_prop in H. destruct H as [H _]. apply andb_prop in H. destruct H as [H _].
    apply andb_prop in H. destruct H as [H _]. destruct (symbol_hd _ H) as (c & r & E & Hc).
    rewrite r_elem_eq, E. simpl. exact Hc.
  Qed.

  (* ---------------------------------------------------------------- prefixes of well-formed strings *)
  (* a position just before an element: inside an implicit group after its count and some elements,
     which may itself sit inside explicit groups that are still open, each after some complete groups *)
  Inductive bpath :=
  | BImp (c : ctext) (es1 : list elem)
  | BExp (l : string) (pre : list (sep * group)) (s : sep) (p : bpath).
  (* a top-level position: complete groups, a separator, and the path into the current group;
     with no complete group before, the separator is not written *)
  Record bpos := mkPos { bp_pre : list (sep * group); bp_sep : sep; bp_path : bpath }.

  Definition r_pre (pre : list (sep * group)) (s : sep) : string :=
    match pre with [] => "" | _ => r_comp pre ++ r_sep s end.

  Fixpoint r_path (p : bpath) : string :=
    match p with
    | BImp c es1 => r_ctext c ++ r_elems es1
    | BExp l pre s p' => "(" ++ l ++ r_pre pre s ++ r_path p'
    end.
  Definition r_pos (P : bpos) : string := r_pre (bp_pre P) (bp_sep P) ++ r_path (bp_path P).

  (* the group the path is in, as far as the separator conditions look at it *)
  Definition path_head (p : bpath) : group :=
    match p with BImp c _ => GImp c [] | BExp _ _ _ _ => GExp "" [] "" None end.

  Definition wf_pre (pre : list (sep * group)) (s : sep) (p : bpath) : bool :=
    match pre with
    | [] => true
    | _ => (comp_shape (pre ++ [(s, path_head p)]) && forallb (fun q => wf_group T (snd q)) pre)%bool
    end.

  Fixpoint wf_path (p : bpath) : bool :=
    match p with
    | BImp c es1 => (wf_ctext c && forallb (wf_elem T) es1)%bool
    | BExp l pre s p' => (all_chars is_blank l && wf_pre pre s p' && wf_path p')%bool
    end.
  Definition wf_pos (P : bpos) : bool := (wf_pre (bp_pre P) (bp_sep P) (bp_path P) && wf_path (bp_path P))%bool.

  Fixpoint pdepth (p : bpath) : nat :=
    match p with
    | BImp _ _ => O
    | BExp _ pre _ p' => S (Nat.max (cdepth pre) (pdepth p'))
    end.

  Variable x : err.
  (* the text at the position: an element starts here and the element parser aborts on it *)
  Definition aborts_here (Y : string) : Prop := hds is_upper Y = true /\ p_element T Y = PAbort x.

  Lemma more_elems_abort : forall es fuel Y, (length es < fuel)%nat -> forallb (wf_elem T) es = true ->
    aborts_here Y -> p_more_elements T fuel (r_elems es ++ Y) = PAbort x.
  Proof.
    induction es as [|e es IH]; intros fuel Y Hf H [Hu Ha]; (destruct fuel as [|f]; [simpl in Hf; lia|]).
    - simpl. rewrite (hds_nw _ upper_nonws _ Hu), Ha. reflexivity.
    - simpl in Hf. simpl in H. apply andb_prop in H. destruct H as [He Hes].
      rewrite r_elems_cons, sapp_assoc. cbn [p_more_elements].
      rewrite (hds_nw _ upper_nonws _ (elem_hd T e _ He)).
      assert (Hfo : hdp nf_elem (r_elems es ++ Y) = true).
      { destruct es as [|e' es'].
        - exact (hds_hdp _ _ upper_nf_elem _ Hu).
        - simpl in Hes. apply andb_prop in Hes. destruct Hes as [He' _]. rewrite r_elems_cons, sapp_assoc.
          exact (hds_hdp _ _ upper_nf_elem _ (elem_hd T e' _ He')). }
      rewrite (elem_ok T e _ He Hfo). rewrite (IH f Y); [reflexivity|lia|exact Hes|split; assumption].
  Qed.

  Lemma elems_hd : forall es Y, forallb (wf_elem T) es = true -> hds is_upper Y = true ->
    hds is_upper (r_elems es ++ Y) = true.
  Proof.
    intros [|e es] Y H Hu; [exact Hu|]. simpl in H. apply andb_prop in H. destruct H as [He _].
    rewrite r_elems_cons, sapp_assoc. apply (elem_hd T). exact He.
  Qed.

  Lemma implicit_abort : forall c es1 Y, wf_ctext c = true -> forallb (wf_elem T) es1 = true -> aborts_here Y ->
    p_implicit T (r_ctext c ++ r_elems es1 ++ Y) = PAbort x.
  Proof.
    intros c es1 Y Hc Hes HY. pose proof HY as [Hu Ha]. unfold p_implicit.
    rewrite (p_count_ctext c _ Hc (hds_hdp _ _ upper_nf_count _ (elems_hd es1 Y Hes Hu))). cbn [pbind].
    unfold p_elements. destruct es1 as [|e es].
    - simpl. rewrite Ha. reflexivity.
    - simpl in Hes. apply andb_prop in Hes. destruct Hes as [He Hes]. rewrite r_elems_cons, sapp_assoc.
      assert (Hfo : hdp nf_elem (r_elems es ++ Y) = true)
        by exact (hds_hdp _ _ upper_nf_elem _ (elems_hd es Y Hes Hu)).
      rewrite (elem_ok T e _ He Hfo). cbn [pbind].
      rewrite (more_elems_abort es _ Y); [reflexivity| |exact Hes|exact HY].
      pose proof (r_elems_len T es Hes). rewrite !slen_app. lia.
  Qed.

  (* first character of the text at a path *)
  Lemma ctext_gstart' : forall c X, wf_ctext c = true -> hds gstart X = true -> hds gstart (r_ctext c ++ X) = true.
  Proof. exact ctext_gstart. Qed.

  Lemma path_hd : forall p Y, wf_path p = true -> hds is_upper Y = true -> hds gstart (r_path p ++ Y) = true.
  Proof.
    intros [c es1|l pre s p'] Y H Hu; [|reflexivity].
    simpl in H. apply andb_prop in H. destruct H as [Hc Hes]. cbn [r_path]. rewrite sapp_assoc.
    apply ctext_gstart'; [exact Hc|]. pose proof (elems_hd es1 Y Hes Hu) as Hh.
    destruct (r_elems es1 ++ Y); [discriminate|]. simpl in *. apply upper_gstart. exact Hh.
  Qed.

  Lemma follow_next_path : forall prev s p Y, wf_sep s = true -> join_ok (is_imp prev) s (path_head p) = true ->
    wf_path p = true -> hds is_upper Y = true ->
    group_follow prev (r_sep s ++ r_path p ++ Y) = true.
  Proof.
    intros prev s p Y Hs Hj Hp Hu. destruct (sep_empty s) eqn:Ee.
    - unfold join_ok in Hj. rewrite Ee in Hj. simpl in Hj. unfold sep_empty in Ee. apply String.eqb_eq in Ee.
      rewrite Ee. change ("" ++ r_path p ++ Y) with (r_path p ++ Y).
      destruct p as [[t|] es1|l pre s' p']; simpl in Hj; [discriminate| |].
      + destruct prev as [c' es'|l' i' r' c']; [discriminate|]. simpl.
        simpl in Hp. cbn [r_path r_ctext]. change ("" ++ r_elems es1) with (r_elems es1).
        exact (hds_hdp _ _ upper_nf_count _ (elems_hd es1 Y Hp Hu)).
      + apply group_follow_imp. reflexivity.
    - apply group_follow_imp. exact (hds_hdp _ _ sepstart_nf_imp _ (sep_hd s _ Hs Ee)).
  Qed.

  (* the loop runs through complete groups and then reaches a group that aborts *)
  Lemma more_abort : forall f l, forall prev s p k acc Y,
    (cdepth l <= f)%nat -> forallb (fun q => wf_group T (snd q)) l = true ->
    chain_ok (is_imp prev) (l ++ [(s, path_head p)]) = true -> (length l < k)%nat ->
    wf_path p = true -> hds is_upper Y = true ->
    pgroup T (p_composite T f) (r_path p ++ Y) = PAbort x ->
    more (pgroup T (p_composite T f)) k acc (r_tail l ++ r_sep s ++ r_path p ++ Y) = PAbort x.
  Proof.
    intros f. induction l as [|[s0 g] l IH]; intros prev s p k acc Y Hd Hw Hc Hk Hp Hu Hab;
      (destruct k as [|k]; [simpl in Hk; lia|]).
    - simpl in Hc. apply andb_prop in Hc. destruct Hc as [Hc _]. apply andb_prop in Hc. destruct Hc as [Hs _].
      simpl r_tail. change ("" ++ r_sep s ++ r_path p ++ Y) with (r_sep s ++ r_path p ++ Y).
      rewrite more_S, (p_sep_ok s _ Hs (path_hd p Y Hp Hu)), Hab. reflexivity.
    - simpl in Hk. rewrite cdepth_cons in Hd. simpl in Hw. apply andb_prop in Hw. destruct Hw as [Hg Hl].
      simpl in Hc. apply andb_prop in Hc. destruct Hc as [Hc Hcl]. apply andb_prop in Hc. destruct Hc as [Hs0 Hj].
      cbn [r_tail]. rewrite !sapp_assoc. rewrite more_S.
      rewrite (p_sep_ok s0 _ Hs0 (group_hd T g _ Hg)).
      rewrite (group_accept T g f); [| lia | exact Hg |].
      + apply (IH g); try assumption; lia.
      + destruct l as [|[s1 g1] l'].
        * simpl in Hcl. apply andb_prop in Hcl. destruct Hcl as [Hcl _]. apply andb_prop in Hcl. destruct Hcl as [Hs Hj'].
          simpl r_tail. change ("" ++ r_sep s ++ r_path p ++ Y) with (r_sep s ++ r_path p ++ Y).
          apply follow_next_path; assumption.
        * simpl in Hcl. apply andb_prop in Hcl. destruct Hcl as [Hcl _]. apply andb_prop in Hcl. destruct Hcl as [Hs1 Hj1].
          simpl in Hl. apply andb_prop in Hl. destruct Hl as [Hg1 _].
          cbn [r_tail]. rewrite !sapp_assoc. apply (follow_next T); assumption.
  Qed.

  Lemma comp_abort : forall f pre s p Y, (cdepth pre <= f)%nat -> wf_pre pre s p = true -> wf_path p = true ->
    hds is_upper Y = true -> pgroup T (p_composite T f) (r_path p ++ Y) = PAbort x ->
    p_composite T (S f) (r_pre pre s ++ r_path p ++ Y) = PAbort x.
  Proof.
    intros f pre s p Y Hd Hpre Hp Hu Hab. rewrite p_composite_S. destruct pre as [|[s0 g] l].
    - simpl r_pre. change ("" ++ r_path p ++ Y) with (r_path p ++ Y). rewrite Hab. reflexivity.
    - unfold wf_pre in Hpre. apply andb_prop in Hpre. destruct Hpre as [Hsh Hw].
      change (((s0, g) :: l) ++ [(s, path_head p)])%list with ((s0, g) :: (l ++ [(s, path_head p)]))%list in Hsh.
      simpl in Hsh. simpl in Hw. apply andb_prop in Hw. destruct Hw as [Hg Hl]. rewrite cdepth_cons in Hd.
      unfold r_pre. rewrite r_comp_cons, !sapp_assoc.
      rewrite (group_accept T g f); [| lia | exact Hg |].
      + cbn [pbind]. apply (more_abort f l g); try assumption; try lia.
        pose proof (r_tail_len T l Hl). rewrite !slen_app. lia.
      + destruct l as [|[s1 g1] l'].
        * simpl in Hsh. apply andb_prop in Hsh. destruct Hsh as [Hsh _]. apply andb_prop in Hsh. destruct Hsh as [Hs Hj'].
          simpl r_tail. change ("" ++ r_sep s ++ r_path p ++ Y) with (r_sep s ++ r_path p ++ Y).
          apply follow_next_path; assumption.
        * simpl in Hsh. apply andb_prop in Hsh. destruct Hsh as [Hsh _]. apply andb_prop in Hsh. destruct Hsh as [Hs1 Hj1].
          simpl in Hl. apply andb_prop in Hl. destruct Hl as [Hg1 _].
          cbn [r_tail]. rewrite !sapp_assoc. apply (follow_next T); assumption.
  Qed.

  Lemma pre_hd : forall pre s p Y, wf_pre pre s p = true -> wf_path p = true -> hds is_upper Y = true ->
    hds gstart (r_pre pre s ++ r_path p ++ Y) = true.
  Proof.
    intros [|[s0 g] l] s p Y Hpre Hp Hu.
    - apply path_hd; assumption.
    - unfold wf_pre in Hpre. apply andb_prop in Hpre. destruct Hpre as [_ Hw]. simpl in Hw.
      apply andb_prop in Hw. destruct Hw as [Hg _]. unfold r_pre. rewrite r_comp_cons, !sapp_assoc.
      apply (group_hd T). exact Hg.
  Qed.

  Theorem path_abort : forall p f Y, (pdepth p <= f)%nat -> wf_path p = true -> aborts_here Y ->
    pgroup T (p_composite T f) (r_path p ++ Y) = PAbort x.
  Proof.
    induction p as [c es1|l pre s p' IH]; intros f Y Hd Hp HY.
    - simpl in Hp. apply andb_prop in Hp. destruct Hp as [Hc Hes]. unfold pgroup. cbn [r_path]. rewrite sapp_assoc.
      rewrite (implicit_abort c es1 Y Hc Hes HY). reflexivity.
    - pose proof HY as [Hu _]. simpl in Hp. apply andb_prop in Hp. destruct Hp as [Hp Hp']. apply andb_prop in Hp. destruct Hp as [Hl Hpre].
      cbn [pdepth] in Hd. destruct f as [|f]; [lia|].
      cbn [r_path]. rewrite !sapp_assoc.
      change ("(" ++ l ++ r_pre pre s ++ r_path p' ++ Y) with (String "(" (l ++ r_pre pre s ++ r_path p' ++ Y)).
      unfold pgroup. rewrite (p_implicit_fail T) by reflexivity. rewrite lit_here by reflexivity. cbn [pbind].
      rewrite skip_ws_blanks by (exact Hl || exact (hds_nw _ gstart_nonws _ (pre_hd pre s p' Y Hpre Hp' Hu))).
      rewrite (comp_abort f pre s p' Y); [reflexivity| lia | exact Hpre | exact Hp' | exact Hu |].
      apply IH; [lia|exact Hp'|exact HY].
  Qed.

  Lemma pdepth_len : forall p, (pdepth p <= String.length (r_path p))%nat.
  Proof.
    induction p as [c es1|l pre s p' IH]; [simpl; lia|]. cbn [pdepth r_path]. rewrite !slen_app.
    assert (cdepth pre <= String.length (r_pre pre s))%nat.
    { destruct pre as [|q pre']; [simpl; lia|]. unfold r_pre. rewrite slen_app. pose proof (cdepth_len (q :: pre')). lia. }
    simpl. lia.
  Qed.

  Theorem pos_abort : forall P Y, wf_pos P = true -> aborts_here Y ->
    p_compound T (r_pos P ++ Y) = PAbort x.
  Proof.
    intros [pre s p] Y H HY. unfold wf_pos in H. cbn [bp_pre bp_sep bp_path] in H. apply andb_prop in H. destruct H as [Hpre Hp].
    pose proof HY as [Hu _]. unfold p_compound, r_pos. cbn [bp_pre bp_sep bp_path]. rewrite sapp_assoc.
    set (n := String.length (r_pre pre s ++ r_path p ++ Y)).
    assert (Hn1 : (pdepth p <= n)%nat).
    { unfold n. pose proof (pdepth_len p). rewrite !slen_app. lia. }
    assert (Hn2 : (cdepth pre <= n)%nat).
    { unfold n. destruct pre as [|q pre']; [simpl; lia|]. unfold r_pre. rewrite !slen_app.
      pose proof (cdepth_len (q :: pre')). lia. }
    rewrite (comp_abort n pre s p Y Hn2 Hpre Hp Hu); [reflexivity|].
    apply path_abort; assumption.
  Qed.
End Reject.

(* ---------------------------------------------------------------- the three exceptions, at any position *)
Section RejectKinds.
  Variable T : ptable.

  Theorem unknown_symbol_aborts : forall P sym Z, wf_pos T P = true ->
    is_symbol sym = true -> t_symbol T sym = None -> hdp notlower Z = true ->
    p_compound T (r_pos P ++ sym ++ Z) = PAbort ValueErr.
  Proof.
    intros P sym Z HP Hs Hn HZ. apply pos_abort; [exact HP|]. split.
    - destruct (symbol_hd _ Hs) as (c & r & -> & Hc). exact Hc.
    - apply elem_unknown; assumption.
  Qed.

  Theorem undefined_isotope_aborts : forall P e z n v Z, wf_pos T P = true ->
    lex_elem e = true -> t_symbol T (el_sym e) = Some (z, 0%Z) ->
    el_iso e = Some n -> parse_int n = Some v -> t_has_iso T z v = false -> hdp nf_elem Z = true ->
    p_compound T (r_pos P ++ r_elem e ++ Z) = PAbort KeyErr.
  Proof.
    intros P e z n v Z HP He Hz Hn Hv Hhas HZ. apply pos_abort; [exact HP|]. split.
    - apply lex_elem_hd. exact He.
    - apply (elem_iso_undefined T e z n v Z); assumption.
  Qed.

  Theorem isotope_of_isotope_aborts : forall P e z a0 n Z, wf_pos T P = true ->
    lex_elem e = true -> t_symbol T (el_sym e) = Some (z, a0) -> a0 <> 0%Z ->
    el_iso e = Some n -> hdp nf_elem Z = true ->
    p_compound T (r_pos P ++ r_elem e ++ Z) = PAbort TypeErr.
  Proof.
    intros P e z a0 n Z HP He Hz Ha Hn HZ. apply pos_abort; [exact HP|]. split.
    - apply lex_elem_hd. exact He.
    - apply (elem_iso_on_isotope T e z a0 n Z); assumption.
  Qed.

  Theorem undefined_charge_aborts : forall P e z a0 q Z, wf_pos T P = true ->
    lex_elem e = true -> t_symbol T (el_sym e) = Some (z, a0) ->
    match el_iso e with
    | None => True
    | Some n => a0 = 0%Z /\ exists v, parse_int n = Some v /\ t_has_iso T z v = true
    end ->
    el_ion e <> None -> ion_val (el_ion e) = Some q -> t_has_ion T z q = false -> hdp nf_elem Z = true ->
    p_compound T (r_pos P ++ r_elem e ++ Z) = PAbort ValueErr.
  Proof.
    intros P e z a0 q Z HP He Hz Hiso Hne Hq Hhas HZ. apply pos_abort; [exact HP|]. split.
    - apply lex_elem_hd. exact He.
    - apply (elem_ion_undefined T e z a0 q Z); assumption.
  Qed.

  (* an aborted parse is not an accepted one *)
  Lemma abort_not_accepted : forall s e, p_compound T s = PAbort e -> ~ accepted T s.
  Proof. intros s e H (st & d & r & E & _). rewrite H in E. discriminate. Qed.

  (* ---------------------------------------------------------------- parentheses *)
  Theorem accepted_balanced_all : forall s, accepted T s -> balanced s.
  Proof.
    intros s (st & d & r & H & He). destruct (p_compound_bc1 _ _ _ _ H) as (pre & -> & Bp & _).
    apply balanced_app; [exact Bp|]. apply nopar_balanced. exact (all_chars_impl _ _ pws_np _ (at_end_ws r He)).
  Qed.

  Lemma bal_shift : forall s m k d, bal m s = Some k -> bal (m + d) s = Some (k + d)%nat.
  Proof.
    induction s as [|c s IH]; intros m k d H; simpl in *.
    - inversion H; reflexivity.
    - destruct (Ascii.eqb c "("); [exact (IH (S m) k d H)|]. destruct (Ascii.eqb c ")"); [|exact (IH m k d H)].
      destruct m as [|m]; [discriminate|]. exact (IH m k d H).
  Qed.

  Lemma bal_split : forall a b, bal 0 (a ++ b) = Some 0%nat -> exists m, bal 0 a = Some m /\ bal m b = Some 0%nat.
  Proof.
    intros a b H. rewrite bal_app in H. destruct (bal 0 a) as [m|]; [|discriminate]. exists m. auto.
  Qed.

  (* inserting a single parenthesis anywhere into an accepted string makes it unacceptable *)
  Theorem paren_inserted_rejected : forall a b, accepted T (a ++ b) ->
    ~ accepted T (a ++ "(" ++ b) /\ ~ accepted T (a ++ ")" ++ b).
  Proof.
    intros a b H. pose proof (accepted_balanced T _ H) as B. destruct (bal_split a b B) as (m & Ha & Hb).
    split; apply unbalanced_rejected; rewrite bal_app, Ha.
    - change (bal m ("(" ++ b)) with (bal (S m) b). pose proof (bal_shift b m 0 1 Hb) as S1.
      rewrite Nat.add_1_r in S1. rewrite S1. discriminate.
    - change (bal m (")" ++ b)) with (match m with O => None | S m' => bal m' b end).
      destruct m as [|m']; [discriminate|]. intro E. pose proof (bal_shift b m' 0 1 E) as S1.
      rewrite Nat.add_1_r in S1. rewrite Hb in S1. discriminate.
  Qed.

  (* and so does deleting one *)
  Theorem paren_deleted_rejected : forall a b,
    (accepted T (a ++ "(" ++ b) \/ accepted T (a ++ ")" ++ b)) -> ~ accepted T (a ++ b).
  Proof.
    intros a b H A. destruct (paren_inserted_rejected a b A) as [H1 H2]. destruct H; contradiction.
  Qed.

  Theorem extra_rparen_left_over : forall t, wfb T t = true ->
    p_compound T (render t ++ ")") = POk (v_comp T (c_comp t), v_dens (c_density t)) ")".
  Proof. intros t H. apply compound_accept_rest; [exact H|reflexivity]. Qed.

  Theorem wf_accepted : forall t, wfb T t = true -> accepted T (render t).
  Proof.
    intros t H. exists (v_comp T (c_comp t)), (v_dens (c_density t)), "". split; [apply compound_accept; exact H|reflexivity].
  Qed.

  Corollary unmatched_paren_rejected : forall t, wfb T t = true ->
    ~ accepted T (render t ++ ")") /\ ~ accepted T ("(" ++ render t) /\
    ~ accepted T (render t ++ "(") /\ ~ accepted T (")" ++ render t).
  Proof.
    intros t H. pose proof (wf_accepted t H) as A.
    assert (A1 : accepted T (render t ++ "")) by (rewrite sapp_nil_r; exact A).
    destruct (paren_inserted_rejected (render t) "" A1) as [H1 H2].
    destruct (paren_inserted_rejected "" (render t) A) as [H3 H4].
    repeat split; assumption.
  Qed.

  (* ---------------------------------------------------------------- '@' without a number *)
  Theorem at_without_number_rejected : forall l ws Y, wf_comp T l = true -> all_chars is_blank ws = true ->
    (forall q r, p_number Y <> POk q r) ->
    ~ accepted T (r_comp l ++ ws ++ "@" ++ Y).
  Proof.
    intros l ws Y Hl Hws HY (st & d & r & E & He).
    change (ws ++ "@" ++ Y) with (ws ++ String "@" Y) in E.
    unfold p_compound in E.
    rewrite (comp_accept T l _ (ws ++ String "@" Y)) in E.
    - cbn [pbind] in E. unfold p_density in E. rewrite (lit_blanks "@" ws Y eq_refl Hws) in E.
      destruct (p_number Y) as [q r'| |e] eqn:En.
      + exact (HY q r' eq_refl).
      + cbn [pbind] in E. inversion E; subst. unfold at_end in He. rewrite skip_ws_blanks in He by (exact Hws || reflexivity).
        discriminate.
      + discriminate.
    - pose proof (cdepth_len l). rewrite slen_app. lia.
    - exact Hl.
    - apply cf_stops. unfold cf. rewrite skip_ws_blanks by (exact Hws || reflexivity). reflexivity.
  Qed.

  Corollary at_without_number_rejected' : forall l ws Y, wf_comp T l = true -> all_chars is_blank ws = true ->
    hdp nf_count Y = true -> ~ accepted T (r_comp l ++ ws ++ "@" ++ Y).
  Proof.
    intros l ws Y Hl Hws HY. apply at_without_number_rejected; try assumption.
    intros q r E. rewrite (p_number_none Y HY) in E. discriminate.
  Qed.
End RejectKinds.

(* ---------------------------------------------------------------- a count with a leading zero *)
Section LeadingZero.
  Variable T : ptable.

  Definition zero_lead (d : ascii) (Z : string) : string := String "0" (String d Z).

  Lemma digit_not_dot : forall c, is_digit c = true -> negb (is_dot c) = true. Proof. char_fact. Qed.

  Lemma p_count_zero_lead : forall d Z, is_digit d = true -> p_count (zero_lead d Z) = POk 1%Q (zero_lead d Z).
  Proof.
    intros d Z Hd. unfold p_count, p_number, zero_lead. rewrite not_white_cons by reflexivity.
    rewrite re_fract_eq. unfold re_fract'. cbv zeta. rewrite skip_ws_id by reflexivity.
    change (Ascii.eqb "0" "0") with true. cbv iota.
    pose proof (digit_not_dot d Hd) as Hn. apply negb_true in Hn. rewrite Hn.
    unfold re_whole. rewrite skip_ws_id by reflexivity. reflexivity.
  Qed.

  Lemma pgroup_zero_lead : forall pc d Z, is_digit d = true -> pgroup T pc (zero_lead d Z) = PFail.
  Proof.
    intros pc d Z Hd. unfold pgroup, p_implicit. rewrite (p_count_zero_lead d Z Hd). cbn [pbind].
    unfold p_elements. rewrite (p_element_fail T) by reflexivity. reflexivity.
  Qed.

  (* an element without count, followed by such a text *)
  Lemma elem_zero_lead : forall e d Z, wf_elem T e = true -> el_cnt e = None -> is_digit d = true ->
    p_element T (r_elem e ++ zero_lead d Z) = POk (v_elem T e) (zero_lead d Z).
  Proof.
    intros e d Z H Hc Hd.
    destruct (wf_elem_facts T e H) as (z & a0 & vi & vq & a & Hs & Hz & Wi & Wq & Vi & Vq & _ & Ha & Hpost).
    rewrite r_elem_eq, Hc. simpl r_ctext. rewrite !sapp_assoc. change ("" ++ zero_lead d Z) with (zero_lead d Z).
    rewrite (p_element_gen T _ _ _ _ (z, a0) vi vq Hs Hz Wi Wq Vi Vq) by reflexivity.
    rewrite (p_count_zero_lead d Z Hd). cbn [pbind]. rewrite Hpost. unfold v_elem. rewrite Ha, Hc. reflexivity.
  Qed.

  Lemma more_elems_last : forall es0 elast fuel rest v, (length es0 < fuel)%nat ->
    forallb (wf_elem T) es0 = true -> wf_elem T elast = true ->
    p_element T (r_elem elast ++ rest) = POk v rest -> hdp notupper rest = true ->
    p_more_elements T fuel (r_elems es0 ++ r_elem elast ++ rest) = POk (map (v_elem T) es0 ++ [v])%list rest.
  Proof.
    induction es0 as [|e es IH]; intros elast fuel rest v Hf H Hl Hp Hr; (destruct fuel as [|f]; [simpl in Hf; lia|]).
    - change (r_elems [] ++ r_elem elast ++ rest) with (r_elem elast ++ rest). cbn [p_more_elements].
      rewrite (hds_nw _ upper_nonws _ (elem_hd T elast _ Hl)), Hp, (more_elems_stop T f rest Hr). reflexivity.
    - simpl in Hf. simpl in H. apply andb_prop in H. destruct H as [He Hes].
      rewrite r_elems_cons, sapp_assoc. cbn [p_more_elements].
      rewrite (hds_nw _ upper_nonws _ (elem_hd T e _ He)).
      assert (Hfo : hdp nf_elem (r_elems es ++ r_elem elast ++ rest) = true).
      { destruct es as [|e' es'].
        - exact (hds_hdp _ _ upper_nf_elem _ (elem_hd T elast _ Hl)).
        - simpl in Hes. apply andb_prop in Hes. destruct Hes as [He' _]. rewrite r_elems_cons, sapp_assoc.
          exact (hds_hdp _ _ upper_nf_elem _ (elem_hd T e' _ He')). }
      rewrite (elem_ok T e _ He Hfo). rewrite (IH elast f rest v); [reflexivity|lia|assumption..].
  Qed.

  Lemma r_elems_app : forall a b, r_elems (a ++ b) = r_elems a ++ r_elems b.
  Proof.
    induction a as [|e a IH]; intro b; [reflexivity|]. simpl app. rewrite !r_elems_cons, IH, sapp_assoc. reflexivity.
  Qed.

  Lemma implicit_zero_lead : forall c es0 elast d Z, wf_group T (GImp c (es0 ++ [elast])) = true ->
    el_cnt elast = None -> is_digit d = true ->
    exists g, p_implicit T (r_group (GImp c (es0 ++ [elast])) ++ zero_lead d Z) = POk g (zero_lead d Z).
  Proof.
    intros c es0 elast d Z H Hc Hd.
    change (wf_group T (GImp c (es0 ++ [elast]))) with
      (wf_ctext c && negb (match (es0 ++ [elast])%list with [] => true | _ => false end)
       && forallb (wf_elem T) (es0 ++ [elast]))%bool in H.
    apply andb_prop in H. destruct H as [H Hes]. apply andb_prop in H. destruct H as [Hct _].
    rewrite forallb_app in Hes. apply andb_prop in Hes. destruct Hes as [Hes0 Hl]. simpl in Hl.
    rewrite andb_true_r in Hl.
    rewrite r_group_imp. fold (r_elems (es0 ++ [elast])). rewrite r_elems_app, !sapp_assoc.
    replace (r_elems [elast]) with (r_elem elast) by (unfold r_elems; simpl; reflexivity).
    pose proof (elem_zero_lead elast d Z Hl Hc Hd) as Hp.
    unfold p_implicit.
    assert (Hu : hds is_upper (r_elems es0 ++ r_elem elast ++ zero_lead d Z) = true).
    { destruct es0 as [|e es]; [exact (elem_hd T elast _ Hl)|]. simpl in Hes0. apply andb_prop in Hes0. destruct Hes0 as [He _].
      rewrite r_elems_cons, sapp_assoc. exact (elem_hd T e _ He). }
    rewrite (p_count_ctext c _ Hct (hds_hdp _ _ upper_nf_count _ Hu)). cbn [pbind]. unfold p_elements.
    destruct es0 as [|e es].
    - change (r_elems [] ++ r_elem elast ++ zero_lead d Z) with (r_elem elast ++ zero_lead d Z).
      rewrite Hp. cbn [pbind]. rewrite (more_elems_stop T _ (zero_lead d Z)) by reflexivity. eexists. reflexivity.
    - simpl in Hes0. apply andb_prop in Hes0. destruct Hes0 as [He Hes].
      rewrite r_elems_cons, sapp_assoc.
      assert (Hfo : hdp nf_elem (r_elems es ++ r_elem elast ++ zero_lead d Z) = true).
      { destruct es as [|e' es'].
        - exact (hds_hdp _ _ upper_nf_elem _ (elem_hd T elast _ Hl)).
        - simpl in Hes. apply andb_prop in Hes. destruct Hes as [He' _]. rewrite r_elems_cons, sapp_assoc.
          exact (hds_hdp _ _ upper_nf_elem _ (elem_hd T e' _ He')). }
      rewrite (elem_ok T e _ He Hfo). cbn [pbind].
      rewrite (more_elems_last es elast _ (zero_lead d Z) (v_elem T elast)); [eexists; reflexivity| |assumption..|reflexivity].
      pose proof (r_elems_len T es Hes). rewrite !slen_app. lia.
  Qed.

  (* "H02", "2CaO[18]05...": the text starting at the zero is left unconsumed *)
  Theorem leading_zero_rejected_partial : forall c es0 elast d Z,
    wf_group T (GImp c (es0 ++ [elast])) = true -> el_cnt elast = None -> is_digit d = true ->
    ~ accepted T (r_group (GImp c (es0 ++ [elast])) ++ "0" ++ String d Z).
  Proof.
    intros c es0 elast d Z H Hc Hd (st & dk & r & E & He).
    change ("0" ++ String d Z) with (zero_lead d Z) in E.
    destruct (implicit_zero_lead c es0 elast d Z H Hc Hd) as (g & Hg).
    unfold p_compound in E. rewrite p_composite_S in E. unfold pgroup at 1 in E. rewrite Hg in E. cbn [pbind] in E.
    rewrite more_S in E.
    assert (Es : p_sep (zero_lead d Z) = zero_lead d Z) by reflexivity.
    rewrite Es, (pgroup_zero_lead _ d Z Hd) in E. cbn [pbind] in E.
    assert (Ed : p_density (zero_lead d Z) = POk DNone (zero_lead d Z)) by reflexivity.
    rewrite Ed in E. cbn [pbind] in E. inversion E; subst. discriminate.
  Qed.
End LeadingZero.

(* ---------------------------------------------------------------- leading zero after any well-formed compound *)
Section LeadingZeroGeneral.
  Variable T : ptable.

  (* the group ends without a count: its last element has none / nothing is written after ')' *)
  Definition countless (g : group) : Prop :=
    match g with
    | GImp c es => exists es0 elast, es = (es0 ++ [elast])%list /\ el_cnt elast = None
    | GExp _ _ _ c => c = None
    end.

  Lemma last_group_zero : forall g f d Z, wf_group T g = true -> countless g -> (gdepth g <= f)%nat ->
    is_digit d = true ->
    exists gv, pgroup T (p_composite T f) (r_group g ++ zero_lead d Z) = POk gv (zero_lead d Z).
  Proof.
    intros [c es|l inner r c] f d Z H Hc Hd Hdig.
    - destruct Hc as (es0 & elast & -> & Hn).
      destruct (implicit_zero_lead T c es0 elast d Z H Hn Hdig) as (g & Hg).
      exists g. unfold pgroup. rewrite Hg. reflexivity.
    - simpl in Hc. subst c. cbn [gdepth] in Hd. fold (cdepth inner) in Hd. destruct f as [|f]; [lia|].
      simpl in H. apply andb_prop in H. destruct H as [H Hall]. apply andb_prop in H. destruct H as [H Hsh].
      apply andb_prop in H. destruct H as [H _]. apply andb_prop in H. destruct H as [Hl Hr].
      assert (Hwc : wf_comp T inner = true) by (unfold wf_comp; rewrite Hsh, Hall; reflexivity).
      rewrite r_group_exp. rewrite !sapp_assoc. simpl r_ctext.
      change ("(" ++ l ++ r_comp inner ++ r ++ ")" ++ "" ++ zero_lead d Z)
        with (String "(" (l ++ r_comp inner ++ r ++ String ")" (zero_lead d Z))).
      unfold pgroup. rewrite (p_implicit_fail T) by reflexivity.
      rewrite lit_here by reflexivity. cbn [pbind].
      rewrite skip_ws_blanks by (exact Hl || exact (hds_nw _ gstart_nonws _ (comp_hd T inner _ Hwc))).
      rewrite (comp_accept T inner f); [| lia | exact Hwc | apply rparen_stops; exact Hr].
      cbn [pbind]. rewrite (lit_blanks ")" r _ eq_refl Hr). cbn [pbind].
      rewrite (p_count_zero_lead d Z Hdig). cbn [pbind]. eexists. reflexivity.
  Qed.

  Lemma more_then : forall f l, forall prev s g k acc W gv,
    (cdepth l <= f)%nat -> forallb (fun q => wf_group T (snd q)) l = true -> wf_group T g = true ->
    chain_ok (is_imp prev) (l ++ [(s, g)]) = true -> (length l < k)%nat ->
    pgroup T (p_composite T f) (r_group g ++ W) = POk gv W ->
    more (pgroup T (p_composite T f)) k acc (r_tail l ++ r_sep s ++ r_group g ++ W) =
    more (pgroup T (p_composite T f)) (k - S (length l)) (acc ++ v_comp T l ++ gv)%list W.
  Proof.
    intros f. induction l as [|[s0 g0] l IH]; intros prev s g k acc W gv Hd Hw Hg Hc Hk Hok;
      (destruct k as [|k]; [simpl in Hk; lia|]).
    - simpl in Hc. apply andb_prop in Hc. destruct Hc as [Hc _]. apply andb_prop in Hc. destruct Hc as [Hs _].
      simpl r_tail. change ("" ++ r_sep s ++ r_group g ++ W) with (r_sep s ++ r_group g ++ W).
      rewrite more_S, (p_sep_ok s _ Hs (group_hd T g _ Hg)), Hok. simpl. rewrite Nat.sub_0_r. reflexivity.
    - simpl in Hk. rewrite cdepth_cons in Hd. simpl in Hw. apply andb_prop in Hw. destruct Hw as [Hg0 Hl].
      simpl in Hc. apply andb_prop in Hc. destruct Hc as [Hc Hcl]. apply andb_prop in Hc. destruct Hc as [Hs0 Hj].
      cbn [r_tail]. rewrite !sapp_assoc. rewrite more_S.
      rewrite (p_sep_ok s0 _ Hs0 (group_hd T g0 _ Hg0)).
      rewrite (group_accept T g0 f); [| lia | exact Hg0 |].
      + rewrite (IH g0 s g k (acc ++ v_group T g0)%list W gv); try assumption; try lia.
        simpl length. replace (S k - S (S (length l)))%nat with (k - S (length l))%nat by lia.
        f_equal. unfold v_comp. simpl flat_map. rewrite <- !app_assoc. reflexivity.
      + destruct l as [|[s1 g1] l'].
        * simpl in Hcl. apply andb_prop in Hcl. destruct Hcl as [Hcl _]. apply andb_prop in Hcl. destruct Hcl as [Hs Hj'].
          simpl r_tail. change ("" ++ r_sep s ++ r_group g ++ W) with (r_sep s ++ r_group g ++ W).
          apply (follow_next T); assumption.
        * simpl in Hcl. apply andb_prop in Hcl. destruct Hcl as [Hcl _]. apply andb_prop in Hcl. destruct Hcl as [Hs1 Hj1].
          simpl in Hl. apply andb_prop in Hl. destruct Hl as [Hg1 _].
          cbn [r_tail]. rewrite !sapp_assoc. apply (follow_next T); assumption.
  Qed.

  Lemma more_stops_zero : forall pc k acc d Z, is_digit d = true ->
    more (pgroup T pc) k acc (zero_lead d Z) = POk acc (zero_lead d Z).
  Proof.
    intros pc [|k] acc d Z Hd; [reflexivity|]. rewrite more_S.
    assert (Es : p_sep (zero_lead d Z) = zero_lead d Z) by reflexivity.
    rewrite Es, (pgroup_zero_lead T pc d Z Hd). reflexivity.
  Qed.

  Lemma r_comp_snoc : forall l0 s g, r_comp (l0 ++ [(s, g)])%list = r_pre l0 s ++ r_group g.
  Proof.
    intros [|[s1 g1] l1] s g.
    - simpl app. rewrite r_comp_cons. simpl. rewrite sapp_nil_r. reflexivity.
    - simpl app. unfold r_pre. rewrite !r_comp_cons.
      assert (E : forall a, r_tail (a ++ [(s, g)]) = r_tail a ++ r_sep s ++ r_group g).
      { induction a as [|[s2 g2] a IH]; [simpl; rewrite sapp_nil_r; reflexivity|].
        simpl app. cbn [r_tail]. rewrite IH, !sapp_assoc. reflexivity. }
      rewrite E, !sapp_assoc. reflexivity.
  Qed.

  Lemma cdepth_app_le : forall a b : comp, (cdepth a <= cdepth (a ++ b)%list)%nat /\ (cdepth b <= cdepth (a ++ b)%list)%nat.
  Proof.
    induction a as [|[s g] a IH]; intro b; [simpl; split; lia|]. simpl app. rewrite !cdepth_cons.
    destruct (IH b). split; lia.
  Qed.

  (* the text from the zero on is left unconsumed, whatever well-formed compound precedes it *)
  Theorem leading_zero_left_over : forall l0 s g d Z, wf_comp T (l0 ++ [(s, g)])%list = true -> countless g ->
    is_digit d = true ->
    exists st, p_compound T (r_comp (l0 ++ [(s, g)])%list ++ "0" ++ String d Z) = POk (st, DNone) ("0" ++ String d Z).
  Proof.
    intros l0 s g d Z H Hc Hd. change ("0" ++ String d Z) with (zero_lead d Z).
    unfold wf_comp in H. apply andb_prop in H. destruct H as [Hsh Hall].
    rewrite forallb_app in Hall. apply andb_prop in Hall. destruct Hall as [Hw0 Hg]. simpl in Hg. rewrite andb_true_r in Hg.
    set (n := String.length (r_comp (l0 ++ [(s, g)])%list ++ zero_lead d Z)).
    assert (Hn : (cdepth (l0 ++ [(s, g)])%list <= n)%nat).
    { unfold n. pose proof (cdepth_len (l0 ++ [(s, g)])%list). rewrite slen_app. lia. }
    destruct (cdepth_app_le l0 [(s, g)]) as [Hn0 Hn1].
    assert (Hgd : (gdepth g <= n)%nat). { rewrite cdepth_cons in Hn1. lia. }
    destruct (last_group_zero g n d Z Hg Hc Hgd Hd) as (gv & Hgv).
    assert (Ed : p_density (zero_lead d Z) = POk DNone (zero_lead d Z)) by reflexivity.
    unfold p_compound. fold n. rewrite p_composite_S, r_comp_snoc, sapp_assoc.
    destruct l0 as [|[s1 g1] l1].
    - simpl r_pre. change ("" ++ r_group g ++ zero_lead d Z) with (r_group g ++ zero_lead d Z).
      rewrite Hgv. cbn [pbind]. rewrite (more_stops_zero _ _ _ d Z Hd). cbn [pbind]. rewrite Ed. cbn [pbind].
      eexists. reflexivity.
    - change (((s1, g1) :: l1) ++ [(s, g)])%list with ((s1, g1) :: (l1 ++ [(s, g)]))%list in Hsh. simpl in Hsh.
      simpl in Hw0. apply andb_prop in Hw0. destruct Hw0 as [Hg1 Hw1]. rewrite cdepth_cons in Hn0.
      unfold r_pre. rewrite r_comp_cons, !sapp_assoc.
      rewrite (group_accept T g1 n); [| lia | exact Hg1 |].
      + cbn [pbind]. rewrite (more_then n l1 g1 s g _ _ (zero_lead d Z) gv); try assumption; try lia.
        * rewrite (more_stops_zero _ _ _ d Z Hd). cbn [pbind]. rewrite Ed. cbn [pbind]. eexists. reflexivity.
        * pose proof (r_tail_len T l1 Hw1). rewrite !slen_app. lia.
      + destruct l1 as [|[s2 g2] l2].
        * simpl in Hsh. apply andb_prop in Hsh. destruct Hsh as [Hsh _]. apply andb_prop in Hsh. destruct Hsh as [Hs Hj].
          simpl r_tail. change ("" ++ r_sep s ++ r_group g ++ zero_lead d Z) with (r_sep s ++ r_group g ++ zero_lead d Z).
          apply (follow_next T); assumption.
        * simpl in Hsh. apply andb_prop in Hsh. destruct Hsh as [Hsh _]. apply andb_prop in Hsh. destruct Hsh as [Hs2 Hj2].
          simpl in Hw1. apply andb_prop in Hw1. destruct Hw1 as [Hg2 _].
          cbn [r_tail]. rewrite !sapp_assoc. apply (follow_next T); assumption.
  Qed.

  Theorem leading_zero_rejected : forall l0 s g d Z, wf_comp T (l0 ++ [(s, g)])%list = true -> countless g ->
    is_digit d = true -> ~ accepted T (r_comp (l0 ++ [(s, g)])%list ++ "0" ++ String d Z).
  Proof.
    intros l0 s g d Z H Hc Hd (st & dk & r & E & He).
    destruct (leading_zero_left_over l0 s g d Z H Hc Hd) as (st' & E'). rewrite E' in E. inversion E; subst.
    discriminate.
  Qed.
End LeadingZeroGeneral.

(* the separator before the last entry of a chain is well formed *)
Lemma chain_split' : forall l b s g, chain_ok b (l ++ [(s, g)]) = true -> wf_sep s = true /\ True.
Proof.
  induction l as [|[s0 g0] l IH]; intros b s g H.
  - simpl in H. apply andb_prop in H. destruct H as [H _]. apply andb_prop in H. tauto.
  - simpl in H. apply andb_prop in H. destruct H as [_ H]. exact (IH _ _ _ H).
Qed.
