(* Proofs/C09Proofs.v — lazy loading is invisible: the invariant over the reachable loader states, the
   refutations for the event classes where the faithful model breaks, and the partial theorems. *)
From Coq Require Import String List Bool NArith Arith.
From PT Require Import Py AttrScript LoaderScripts Attr AttrReach.
Import ListNotations.
Open Scope string_scope.

(* ------------------------------------------------------------------ the C09 alphabet *)
Definition known_names : list string := (concat (map r_names registrations) ++ ["mass"; "density"])%list.
Definition init_keys : list string := (eager_inits ++ map r_key registrations)%list.
Definition c09_tables : list table := [Pub; P1].

Definition lops09 : list lop :=
  (concat (map (fun T => concat (map (fun a => concat (map (fun n => [LGet T a n; LHas T a n]) known_names))
                                      all_atoms)) c09_tables)
   ++ concat (map (fun T => map (fun k => LInit k T) init_keys) c09_tables))%list.

(* the inits that are NOT admitted while their group is still pending: none any more (before the repairs
   706f0ce / 9478875 these lists held nsf.init, covalent_radius.init, crystal_structure.init and
   xsf.init_spectral_lines for private tables and xsf.init_spectral_lines for the public one) *)
Definition private_unsafe : list string := [].
Definition public_unsafe : list string := [].

Definition is_pending (c : centry) : bool := match c with CPending _ => true | _ => false end.
Definition pending_any (x : gstate) : bool := existsb (fun p => is_pending (snd p)) (cm x).

Definition safe09 (t : pstate) (o : lop) : bool :=
  match o with
  | LInit key T =>
      negb (pending_any (p_g t) && str_in key (match T with Pub => public_unsafe | _ => private_unsafe end))
  | _ => true
  end.

Definition is_val (r : rres) : bool := match r with RVal _ _ => true | RErr _ => false end.
Definition outcome_eqb (a b : outcome) : bool :=
  match a, b with
  | OSame, OSame | ODiff, ODiff | OUser, OUser | OOk, OOk | OImm, OImm => true
  | OErr e, OErr f => err_eqb e f
  | OBool x, OBool y => Bool.eqb x y
  | _, _ => false
  end.
Lemma outcome_eqb_eq : forall a b, outcome_eqb a b = true -> a = b.
Proof.
  intros a b; destruct a as [| | |e| x| |], b as [| | |f|y| |]; simpl; intros HH; try discriminate; auto.
  - destruct e, f; simpl in HH; try discriminate; auto.
  - apply Bool.eqb_prop in HH. subst. auto.
Qed.

(* what the property demands of an observation of the public table *)
Definition expect09 (t : pstate) (o : lop) (oc : outcome) : bool :=
  match o with
  | LGet Pub a n => outcome_eqb oc OSame
  | LHas Pub a n => outcome_eqb oc (OBool (is_val (canon a n)))
  | LInit key Pub => outcome_eqb oc OOk
  | _ => true
  end.

Definition acts09 := acts lops09 [P1].
Definition R09 (g : N) : list pstate :=
  reach pstate pact pstate_eqb hash_p (pnext g) (allowed safe09 g) 200 (proj g init_state) (acts09 g).

Definition check09 (g : N) : bool := check_group lops09 [P1] safe09 expect09 R09 g.

(* ------------------------------------------------------------------ the reachable sets are closed *)
Lemma check09_all : forallb check09 all_groups = true.
Proof. vm_cast_no_check (eq_refl true). Qed.

Lemma CHK09 : forall g, In g all_groups -> check09 g = true.
Proof. intros g H. pose proof check09_all as A. rewrite forallb_forall in A. auto. Qed.

Lemma GRP09 : forallb (fun o => existsb (N.eqb (lgroup o)) all_groups) lops09 = true.
Proof. vm_compute. reflexivity. Qed.

Definition Good09 : state -> Prop := Good R09.
Definition InvG09 (g : N) (t : pstate) : Prop := InvG R09 g t.

(* closure, stated: every admitted action of the alphabet maps the checked set of a group into itself *)
Lemma reachable_closed : forall g t a, In g all_groups -> InvG09 g t -> In a (acts09 g) ->
  allowed safe09 g t a = true -> InvG09 g (pnext g t a).
Proof.
  intros g t a Hg I Ha Al. unfold InvG09, InvG.
  eapply inv_step; [apply pstate_eqb_eq | apply (CHK09 g Hg) | exact I | exact Ha | exact Al].
Qed.
Lemma reachable_init : forall g, In g all_groups -> InvG09 g (proj g init_state).
Proof. intros g Hg. eapply inv_init. apply (CHK09 g Hg). Qed.
Lemma reachable_counts :
  map (fun g => length (R09 g)) all_groups = [3; 8; 8; 7; 8; 10; 8; 8]%nat.
Proof. vm_compute. reflexivity. Qed.

(* ------------------------------------------------------------------ events *)
Definition table_in (T : table) (l : list table) : bool := existsb (table_eqb T) l.

Definition ev_in09 (e : event) : bool :=
  match e with
  | Read T a n => lop_in lops09 (LGet T a n)
  | Has T a n => lop_in lops09 (LHas T a n)
  | Init k T => lop_in lops09 (LInit k T)
  | Import _ => true
  | Calc _ T => table_in T c09_tables
  | New T => table_eqb T P1
  | Parse _ | Pickle _ _ => true
  | SetA _ _ _ | Mut _ _ _ => false
  end.

(* the side condition: an init whose group is still pending is admitted only if it is not in the lists *)
Definition safe_ev09 (s : state) (e : event) : bool :=
  match e with
  | Init k T => safe_at safe09 s (LInit k T)
  | _ => true
  end.

(* what the property says about one observation *)
Definition expected09 (e : event) (oc : outcome) : bool :=
  match e with
  | Read Pub a n => outcome_eqb oc OSame
  | Has Pub a n => outcome_eqb oc (OBool (is_val (canon a n)))
  | Calc _ Pub => outcome_eqb oc OSame
  | Import _ => outcome_eqb oc OOk
  | Init _ Pub => outcome_eqb oc OOk
  | _ => true
  end.

Lemma calc_reads_in : forall c T a n p, table_in T c09_tables = true -> In (a, n, p) (calc_reads c) ->
  lop_in lops09 (LGet T a n) = true.
Proof.
  intros c T a n p HT H.
  assert (T = Pub \/ T = P1) as [E|E] by (destruct T; simpl in HT; try discriminate; auto); subst T;
    destruct c; simpl in H;
    repeat (destruct H as [H|H]; [inversion H; subst; vm_compute; reflexivity|]); contradiction.
Qed.

Lemma import_reads_in : forall m a n p, In (a, n, p) (import_reads m) -> lop_in lops09 (LGet Pub a n) = true.
Proof.
  intros m a n p H. unfold import_reads in H.
  destruct (find (fun p0 => String.eqb (fst p0) m) import_calls) as [q|]; [|contradiction].
  apply in_concat in H. destruct H as [l [Hl Hin]]. apply in_map_iff in Hl. destruct Hl as [c [Hc _]].
  subst l. destruct (String.eqb c "neutron_sld"); [|destruct (String.eqb c "xray_sld")]; simpl in Hin;
    repeat (destruct Hin as [Hin|Hin]; [inversion Hin; subst; vm_compute; reflexivity|]); contradiction.
Qed.

Lemma lget_safe : forall T a n s, safe_at safe09 s (LGet T a n) = true.
Proof. reflexivity. Qed.
Lemma lhas_safe : forall T a n s, safe_at safe09 s (LHas T a n) = true.
Proof. reflexivity. Qed.

Lemma exists_after_apply : forall s o T, exists_tab s T = true -> exists_tab (fst (apply s o)) T = true.
Proof.
  intros s o T E. unfold apply. destruct (exists_tab s (ltable o)); auto.
  destruct (lrun o (base_of s (lgroup o)) (comp s (lgroup o))). simpl. destruct T; auto.
Qed.

(* (stated with an abstract outcome so that no conversion ever looks inside `apply`) *)
Lemma expect09_get : forall t a n oc, expect09 t (LGet Pub a n) oc = outcome_eqb oc OSame.
Proof. reflexivity. Qed.
Lemma expect09_has : forall t a n oc, expect09 t (LHas Pub a n) oc = outcome_eqb oc (OBool (is_val (canon a n))).
Proof. reflexivity. Qed.
Lemma expect09_init : forall t k oc, expect09 t (LInit k Pub) oc = outcome_eqb oc OOk.
Proof. reflexivity. Qed.
Lemma exists_pub : forall s, exists_tab s Pub = true.
Proof. reflexivity. Qed.

Lemma step_good09 : forall s e, Good09 s -> ev_in09 e = true -> safe_ev09 s e = true ->
  Good09 (fst (step s e)) /\ expected09 e (snd (step s e)) = true.
Proof.
  intros s e G I S. unfold Good09 in *.
  pose proof (apply_good lops09 [P1] safe09 expect09 R09 CHK09) as AG.
  pose proof (apply_expect lops09 [P1] safe09 expect09 R09 CHK09 GRP09) as AE.
  destruct e as [T a n|T a n|T a n|T a n|m|c T|k T|T|T|T a]; unfold ev_in09 in I;
    unfold step; unfold safe_ev09 in S.
  3: discriminate I.
  3: discriminate I.
  - (* Read *)
    split; [apply AG; [exact G|exact I|apply lget_safe]|].
    destruct T; unfold expected09; try reflexivity.
    rewrite <- (expect09_get (proj (lgroup (LGet Pub a n)) s) a n).
    apply (AE s (LGet Pub a n) G I (lget_safe Pub a n s) (exists_pub s)).
  - (* Has *)
    split; [apply AG; [exact G|exact I|apply lhas_safe]|].
    destruct T; unfold expected09; try reflexivity.
    rewrite <- (expect09_has (proj (lgroup (LHas Pub a n)) s) a n).
    apply (AE s (LHas Pub a n) G I (lhas_safe Pub a n s) (exists_pub s)).
  - (* Import *)
    assert (Hr : forall a n p, In (a, n, p) (import_reads m) ->
                 lop_in lops09 (LGet Pub a n) = true /\ (forall s', safe_at safe09 s' (LGet Pub a n) = true)
                 /\ forall t oc, expect09 t (LGet Pub a n) oc = true -> oc = OSame).
    { intros a n p H. split; [eapply import_reads_in; exact H|]. split; [intros; apply lget_safe|].
      intros t oc X. rewrite expect09_get in X. apply outcome_eqb_eq in X. exact X. }
    pose proof (do_reads_good lops09 [P1] safe09 expect09 R09 CHK09 (import_reads m) s Pub OSame G
                  (fun a n p H => conj (proj1 (Hr a n p H)) (proj1 (proj2 (Hr a n p H))))) as G1.
    pose proof (do_reads_same lops09 [P1] safe09 expect09 R09 CHK09 GRP09 (import_reads m) s Pub G (exists_pub s) Hr) as O1.
    destruct (do_reads s Pub (import_reads m) OSame) as [s1 o]. cbn [fst snd] in *. subst o.
    split; [exact G1|reflexivity].
  - (* Calc *)
    assert (Hr : forall a n p, In (a, n, p) (calc_reads c) ->
                 lop_in lops09 (LGet T a n) = true /\ (forall s', safe_at safe09 s' (LGet T a n) = true)).
    { intros a n p H. split; [eapply calc_reads_in; [exact I|exact H]|intros; apply lget_safe]. }
    destruct (exists_tab s T) eqn:E.
    + split; [apply (do_reads_good lops09 [P1] safe09 expect09 R09 CHK09); [exact G|exact Hr]|].
      destruct T; unfold expected09; try reflexivity.
      rewrite (do_reads_same lops09 [P1] safe09 expect09 R09 CHK09 GRP09 (calc_reads c) s Pub G E); [reflexivity|].
      intros a n p H. destruct (Hr a n p H) as [H1 H2]. split; [exact H1|]. split; [exact H2|].
      intros t oc X. rewrite expect09_get in X. apply outcome_eqb_eq in X. exact X.
    + split; [exact G|]. destruct T; [rewrite exists_pub in E; discriminate E|reflexivity|reflexivity].
  - (* Init *)
    split; [apply AG; [exact G|exact I|exact S]|].
    destruct T; unfold expected09; try reflexivity.
    rewrite <- (expect09_init (proj (lgroup (LInit k Pub)) s) k).
    apply (AE s (LInit k Pub) G I S (exists_pub s)).
  - (* New *)
    apply table_eqb_eq in I. subst T.
    destruct (exists_tab s P1) eqn:E; [split; [exact G|reflexivity]|].
    split; [|reflexivity].
    apply (new_good lops09 [P1] safe09 expect09 R09 CHK09); [exact G|left; reflexivity|exact E].
  - destruct (exists_tab s T); split; try exact G; reflexivity.
  - destruct (exists_tab s T); split; try exact G; reflexivity.
Qed.

Fixpoint safe_run09 (s : state) (h : list event) : Prop :=
  match h with
  | [] => True
  | e :: r => safe_ev09 s e = true /\ safe_run09 (fst (step s e)) r
  end.
Fixpoint all_expected09 (h : list event) (os : list outcome) : bool :=
  match h, os with
  | [], [] => true
  | e :: r, o :: q => expected09 e o && all_expected09 r q
  | _, _ => false
  end.

Lemma run_good09 : forall h s, Good09 s -> forallb ev_in09 h = true -> safe_run09 s h ->
  all_expected09 h (run s h) = true.
Proof.
  induction h as [|e r IH]; intros s G I S; [reflexivity|].
  cbn [forallb] in I. apply andb_true_iff in I. destruct I as [I1 I2]. destruct S as [S1 S2].
  destruct (step_good09 s e G I1 S1) as [G1 X1].
  cbn [run]. destruct (step s e) as [s1 o] eqn:St. cbn [fst snd] in *. cbn [all_expected09]. rewrite X1.
  apply IH; auto.
Qed.

(* (kept as the general form: with the side-condition lists empty it is the full statement, see
   histories_canonical below) over the whole C09 alphabet (public reads / hasattr / imports / calculators /
   init(elements), creation of one private table and every init on it and reads of it), as long as no init
   of the lists `public_unsafe` / `private_unsafe` is issued while its group is still pending, every
   observation of the public table is the canonical one *)
Theorem histories_canonical_partial : forall h,
  forallb ev_in09 h = true -> safe_run09 init_state h -> all_expected09 h (run init_state h) = true.
Proof.
  intros h I S. apply run_good09; auto. unfold Good09.
  apply (good_init lops09 [P1] safe09 expect09 R09 CHK09).
Qed.

(* the events of the property's own quantifier (public table only) *)
Definition public_event (e : event) : bool :=
  match e with
  | Read Pub a n => str_in n known_names
  | Has Pub a n => str_in n known_names
  | Import _ => true
  | Calc _ Pub => true
  | Init k Pub => str_in k init_keys && negb (str_in k public_unsafe)
  | _ => false
  end.
Definition public_lazy (h : list event) : Prop := forallb public_event h = true.

Lemma str_in_In : forall s l, str_in s l = true -> In s l.
Proof.
  intros s l H. unfold str_in in H. apply existsb_exists in H. destruct H as [x [I E]].
  apply String.eqb_eq in E. subst. auto.
Qed.
Lemma In_lop_in : forall o, In o lops09 -> lop_in lops09 o = true.
Proof.
  intros o H. unfold lop_in. apply existsb_exists. exists o. split; auto.
  destruct o; simpl; rewrite ?table_eqb_refl, ?String.eqb_refl; try (destruct a; reflexivity); reflexivity.
Qed.

Lemma known_get : forall T a n, table_in T c09_tables = true -> str_in n known_names = true ->
  lop_in lops09 (LGet T a n) = true /\ lop_in lops09 (LHas T a n) = true.
Proof.
  intros T a n HT Hn. apply str_in_In in Hn.
  assert (HT' : In T c09_tables) by (destruct T; simpl in HT; try discriminate; simpl; auto).
  assert (Ha : In a all_atoms) by (destruct a; simpl; auto 12).
  assert (X : forall o, In o [LGet T a n; LHas T a n] -> In o lops09).
  { intros o Ho. unfold lops09. apply in_or_app. left.
    apply in_concat. eexists. split; [apply in_map_iff; exists T; split; [reflexivity|exact HT']|].
    apply in_concat. eexists. split; [apply in_map_iff; exists a; split; [reflexivity|exact Ha]|].
    apply in_concat. eexists. split; [apply in_map_iff; exists n; split; [reflexivity|exact Hn]|]. exact Ho. }
  split; apply In_lop_in, X; simpl; auto.
Qed.
Lemma known_init : forall T k, table_in T c09_tables = true -> str_in k init_keys = true ->
  lop_in lops09 (LInit k T) = true.
Proof.
  intros T k HT Hk. apply str_in_In in Hk.
  assert (HT' : In T c09_tables) by (destruct T; simpl in HT; try discriminate; simpl; auto).
  apply In_lop_in. unfold lops09. apply in_or_app. right.
  apply in_concat. eexists. split; [apply in_map_iff; exists T; split; [reflexivity|exact HT']|].
  apply (in_map (fun k0 => LInit k0 T)). exact Hk.
Qed.

Lemma public_event_ok : forall e, public_event e = true -> ev_in09 e = true /\ forall s, safe_ev09 s e = true.
Proof.
  intros e H. destruct e as [T a n|T a n|T a n|T a n|m|c T|k T|T|T|T a]; simpl in H; try discriminate;
    try (destruct T; try discriminate).
  - split; [apply known_get; auto|reflexivity].
  - split; [apply known_get; auto|reflexivity].
  - split; reflexivity.
  - split; reflexivity.
  - apply andb_true_iff in H. destruct H as [H1 _]. split; [apply known_init; [reflexivity|exact H1]|].
    intros s.
    change (negb (pending_any (p_g (proj (lgroup (LInit k Pub)) s)) && str_in k public_unsafe) = true).
    change (str_in k public_unsafe) with false. rewrite andb_false_r. reflexivity.
Qed.

Lemma public_safe_run : forall h s, forallb public_event h = true -> safe_run09 s h.
Proof.
  induction h as [|e r IH]; intros s H; simpl; auto.
  simpl in H. apply andb_true_iff in H. destruct H as [H1 H2]. split; [apply public_event_ok; auto|auto].
Qed.

(* C09, for every history of the property's quantifier (every init(elements) included) *)
Theorem public_histories_canonical : forall h, public_lazy h -> all_expected09 h (run init_state h) = true.
Proof.
  intros h H. apply histories_canonical_partial.
  - apply forallb_forall. intros e He. unfold public_lazy in H. rewrite forallb_forall in H.
    apply public_event_ok; auto.
  - apply public_safe_run; auto.
Qed.

(* in particular: every read is the canonical one *)
Lemma all_expected_nth : forall h os i e o, all_expected09 h os = true ->
  nth_error h i = Some e -> nth_error os i = Some o -> expected09 e o = true.
Proof.
  induction h as [|e0 r IH]; intros os i e o A He Ho; destruct os as [|o0 q]; simpl in A; try discriminate;
    destruct i; simpl in *; try discriminate.
  - inversion He; inversion Ho; subst. apply andb_true_iff in A. apply A.
  - apply andb_true_iff in A. eapply IH; eauto. apply A.
Qed.
Theorem public_reads_canonical : forall h i a n o, public_lazy h ->
  nth_error h i = Some (Read Pub a n) -> nth_error (run init_state h) i = Some o -> o = OSame.
Proof.
  intros h i a n o H He Ho. pose proof (public_histories_canonical h H) as A.
  pose proof (all_expected_nth _ _ _ _ _ A He Ho) as X. simpl in X. apply outcome_eqb_eq in X. exact X.
Qed.

(* ------------------------------------------------------------------ full strength: no side condition *)
Lemma safe09_true : forall t o, safe09 t o = true.
Proof.
  intros t o. destruct o as [T a n|T a n|T a n|T a n|k T]; try reflexivity.
  unfold safe09. destruct T; simpl; rewrite andb_false_r; reflexivity.
Qed.
Lemma safe_run09_always : forall h s, safe_run09 s h.
Proof.
  induction h as [|e r IH]; intros s; simpl; auto. split; [|apply IH].
  destruct e; try reflexivity. unfold safe_ev09, safe_at. apply safe09_true.
Qed.

(* C09 over the whole alphabet: public reads through every representative atom, hasattr probes, imports,
   calculators, EVERY init(elements) including xsf.init_spectral_lines, creation of a private table, every
   init on it at any time, reads of it - every observation of the public table is the canonical one *)
Theorem histories_canonical : forall h,
  forallb ev_in09 h = true -> all_expected09 h (run init_state h) = true.
Proof. intros h I. apply histories_canonical_partial; [exact I|apply safe_run09_always]. Qed.

Theorem reads_canonical : forall h i a n o, forallb ev_in09 h = true ->
  nth_error h i = Some (Read Pub a n) -> nth_error (run init_state h) i = Some o -> o = OSame.
Proof.
  intros h i a n o H He Ho. pose proof (histories_canonical h H) as A.
  pose proof (all_expected_nth _ _ _ _ _ A He Ho) as X. simpl in X. apply outcome_eqb_eq in X. exact X.
Qed.

(* the histories that broke the public table before the repairs (shortest witnesses of the former
   `_refuted` theorems) now serve the canonical values *)
Definition with_p1 (h : list event) : list event := (New P1 :: Init "density.init" P1 :: h)%list.
Theorem former_witnesses_canonical :
  run init_state [Init "xsf.init_spectral_lines" Pub; Read Pub E1 "K_alpha_units"; Read Pub E0 "K_beta1_units";
                  Read Pub E1 "K_alpha"] = [OOk; OSame; OSame; OSame]
  /\ run init_state (with_p1 [Init "nsf.init" P1; Read Pub E1 "neutron"; Import "fasta"]) = [OOk; OOk; OOk; OSame; OOk]
  /\ run init_state (with_p1 [Init "covalent_radius.init" P1; Read Pub E1 "covalent_radius"]) = [OOk; OOk; OOk; OSame]
  /\ run init_state (with_p1 [Init "crystal_structure.init" P1; Read Pub E1 "crystal_structure"]) = [OOk; OOk; OOk; OSame]
  /\ run init_state (with_p1 [Init "xsf.init_spectral_lines" P1; Read Pub E1 "K_alpha"; Read Pub E1 "K_alpha_units"])
     = [OOk; OOk; OOk; OSame; OSame].
Proof. repeat split; vm_compute; reflexivity. Qed.

(* the scripts only mention names of their own group (the state is kept per group) *)
Theorem scripts_are_local : scripts_local = true.
Proof. vm_compute. reflexivity. Qed.
