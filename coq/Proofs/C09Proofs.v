(* Proofs/C09Proofs.v — lazy loading is invisible: the invariant over the reachable loader states, the
   refutations for the event classes where the faithful model breaks, and the partial theorems. *)
From Coq Require Import String List Bool NArith Arith.
From PT Require Import Py AttrScript LoaderScripts Attr AttrReach.
Import ListNotations.
Open Scope string_scope.

(* ------------------------------------------------------------------ the C09 alphabet *)
Definition known_names : list string := (concat (map r_names registrations) ++ ["mass"; "density"])%list.
Definition init_keys : list string := (eager_inits ++ map r_key registrations)%list.
Definition c09_tables : list table := [Pub; P1].

Definition lops09 : list lop :=
  (concat (map (fun T => concat (map (fun a => concat (map (fun n => [LGet T a n; LHas T a n]) known_names))
                                      all_atoms)) c09_tables)
   ++ concat (map (fun T => map (fun k => LInit k T) init_keys) c09_tables))%list.

(* the inits that are NOT admitted while their group is still pending *)
Definition private_unsafe : list string :=
  ["nsf.init"; "covalent_radius.init"; "crystal_structure.init"; "xsf.init_spectral_lines"].
Definition public_unsafe : list string := ["xsf.init_spectral_lines"].

Definition is_pending (c : centry) : bool := match c with CPending _ => true | _ => false end.
Definition pending_any (x : gstate) : bool := existsb (fun p => is_pending (snd p)) (cm x).

Definition safe09 (t : pstate) (o : lop) : bool :=
  match o with
  | LInit key T =>
      negb (pending_any (p_g t) && str_in key (match T with Pub => public_unsafe | _ => private_unsafe end))
  | _ => true
  end.

Definition is_val (r : rres) : bool := match r with RVal _ _ => true | RErr _ => false end.
Definition outcome_eqb (a b : outcome) : bool :=
  match a, b with
  | OSame, OSame | ODiff, ODiff | OUser, OUser | OOk, OOk | OImm, OImm => true
  | OErr e, OErr f => err_eqb e f
  | OBool x, OBool y => Bool.eqb x y
  | _, _ => false
  end.
Lemma outcome_eqb_eq : forall a b, outcome_eqb a b = true -> a = b.
Proof.
  intros a b; destruct a as [| | |e| x| |], b as [| | |f|y| |]; simpl; intros HH; try discriminate; auto.
  - destruct e, f; simpl in HH; try discriminate; auto.
  - apply Bool.eqb_prop in HH. subst. auto.
Qed.

(* what the property demands of an observation of the public table *)
Definition expect09 (t : pstate) (o : lop) (oc : outcome) : bool :=
  match o with
  | LGet Pub a n => outcome_eqb oc OSame
  | LHas Pub a n => outcome_eqb oc (OBool (is_val (canon a n)))
  | LInit key Pub => outcome_eqb oc OOk
  | _ => true
  end.

Definition acts09 := acts lops09 [P1].
Definition R09 (g : N) : list pstate :=
  reach pstate pact pstate_eqb hash_p (pnext g) (allowed safe09 g) 200 (proj g init_state) (acts09 g).

Definition check09 (g : N) : bool := check_group lops09 [P1] safe09 expect09 R09 g.
