(* C14 - every reaction row of activation.dat names the nuclide it is filed under.  activation.init files a row
   under table[Z][A] (columns Z and A); the row also spells the target as "Sym-A" (column "isotope").  The two must
   agree with each other and with core.element_base, or a mis-typed Z or A silently moves the reaction to another
   nuclide. *)
From Coq Require Import ZArith QArith String Ascii List Bool.
From PT Require Import Str Dec Act C06Rows.
From PT.Gen Require ActivationDat.
Import ListNotations.
Open Scope string_scope.

Definition act_row_names_target (r : arow) : bool :=
  match base_find (r_Z r) with
  | Some (_, sym) => (String.eqb (r_isotope r) (sym ++ "-" ++ Z_to_string (r_A r)) && (0 <? r_A r)%Z)%bool
  | None => false
  end.

Definition all_rows_name_target (o : option (list arow)) : bool :=
  match o with Some rows => forallb act_row_names_target rows | None => false end.

Lemma sweep_act_rows : all_rows_name_target the_rows = true.
Proof. vm_compute. reflexivity. Qed.

Theorem act_rows_name_their_target : forall rows, the_rows = Some rows -> forall r, In r rows ->
  act_row_names_target r = true.
Proof.
  intros rows E r Hin. pose proof sweep_act_rows as H. rewrite E in H. cbn [all_rows_name_target] in H.
  exact (proj1 (forallb_forall _ _) H r Hin).
Qed.

(* ---- the half-life is written twice in every row: as a number with a unit (columns "_Thalf", "_Thalf_unit": s, m, h,
   d, y) and in hours (column "Thalf_hrs", the one activity() uses).  The two agree to 1/500 (a year of 365 to
   365.25 days).  One row of the data as shipped did not: 186-W -> W-188 gave 69.4 d and 69.4 h (repaired). *)
Open Scope Q_scope.
Definition unit_hours (u : string) : option (Q * Q) :=      (* smallest and largest number of hours in the unit *)
  if String.eqb u "s" then Some (1 # 3600, 1 # 3600)
  else if String.eqb u "m" then Some (1 # 60, 1 # 60)
  else if String.eqb u "h" then Some (1, 1)
  else if String.eqb u "d" then Some (24, 24)
  else if String.eqb u "y" then Some (8760, 8766)
  else None.

Definition halflife_cols_ok (line : string) : bool :=
  let raw := split_char (ascii_of_nat 9) line in
  match parse_int (nth 2 raw "") with
  | None => true                         (* not a data row (header, comments) *)
  | Some _ =>
      match parse_dec (nth 8 raw ""), unit_hours (nth 9 raw ""), parse_dec (nth 17 raw "") with
      | Some th, Some (lo, hi), Some hrs =>
          (Qle_bool (th * lo * (499 # 500)) hrs && Qle_bool hrs (th * hi * (501 # 500)))%bool
      | _, _, _ => false
      end
  end.

Lemma sweep_halflife_cols : forallb halflife_cols_ok ActivationDat.activation_dat = true.
Proof. vm_compute. reflexivity. Qed.

Theorem halflife_columns_agree : forall line, In line ActivationDat.activation_dat -> halflife_cols_ok line = true.
Proof. intros line H. exact (proj1 (forallb_forall _ _) sweep_halflife_cols line H). Qed.

(* how many rows the sweep really examined (non-vacuity): the 513 reaction rows *)
Definition is_data_row (line : string) : bool :=
  match parse_int (nth 2 (split_char (ascii_of_nat 9) line) "") with Some _ => true | None => false end.
Lemma halflife_rows_examined : length (filter is_data_row ActivationDat.activation_dat) = 513%nat.
Proof. vm_compute. reflexivity. Qed.


(* ---- rows of the two-step ('2n') and decay-fed ('b') kind carry the half-life of the intermediate nuclide in column
   "Thalf_parent".  That nuclide is the product of the primary row just above (same element): its "Thalf_hrs" is the
   same number.  A mis-typed parent half-life breaks this. *)
Definition reaction_of (raw : list string) : string :=
  let r := nth 12 raw "" in if startswith """" r then strip_ends r else r.

Fixpoint parent_halflives_ok (lines : list string) (prev : option (Z * Q)) : bool :=
  match lines with
  | [] => true
  | line :: rest =>
      let raw := split_char (ascii_of_nat 9) line in
      match parse_int (nth 2 raw "") with
      | None => parent_halflives_ok rest prev
      | Some z =>
          let reac := reaction_of raw in
          if (String.eqb reac "b" || String.eqb reac "2n")%bool then
            match prev, parse_dec (nth 19 raw "") with
            | Some (zp, tp), Some par => (Z.eqb z zp && Qeq_bool par tp && parent_halflives_ok rest prev)%bool
            | _, _ => false
            end
          else
            match parse_dec (nth 17 raw "") with
            | Some t => parent_halflives_ok rest (Some (z, t))
            | None => false
            end
      end
  end.

Lemma sweep_parent_halflives : parent_halflives_ok ActivationDat.activation_dat None = true.
Proof. vm_compute. reflexivity. Qed.

Definition is_chain_row (line : string) : bool :=
  let raw := split_char (ascii_of_nat 9) line in
  match parse_int (nth 2 raw "") with
  | Some _ => (String.eqb (reaction_of raw) "b" || String.eqb (reaction_of raw) "2n")%bool
  | None => false
  end.
Lemma chain_rows_examined : length (filter is_chain_row ActivationDat.activation_dat) = 92%nat.
Proof. vm_compute. reflexivity. Qed.
