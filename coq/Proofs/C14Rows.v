(* C14 - every reaction row of activation.dat names the nuclide it is filed under.  activation.init files a row
   under table[Z][A] (columns Z and A); the row also spells the target as "Sym-A" (column "isotope").  The two must
   agree with each other and with core.element_base, or a mis-typed Z or A silently moves the reaction to another
   nuclide. *)
From Coq Require Import ZArith String List Bool.
From PT Require Import Str Dec Act C06Rows.
Import ListNotations.
Open Scope string_scope.

Definition act_row_names_target (r : arow) : bool :=
  match base_find (r_Z r) with
  | Some (_, sym) => (String.eqb (r_isotope r) (sym ++ "-" ++ Z_to_string (r_A r)) && (0 <? r_A r)%Z)%bool
  | None => false
  end.

Definition all_rows_name_target (o : option (list arow)) : bool :=
  match o with Some rows => forallb act_row_names_target rows | None => false end.

Lemma sweep_act_rows : all_rows_name_target the_rows = true.
Proof. vm_compute. reflexivity. Qed.

Theorem act_rows_name_their_target : forall rows, the_rows = Some rows -> forall r, In r rows ->
  act_row_names_target r = true.
Proof.
  intros rows E r Hin. pose proof sweep_act_rows as H. rewrite E in H. cbn [all_rows_name_target] in H.
  exact (proj1 (forallb_forall _ _) H r Hin).
Qed.
