(* Proofs/C05Sweep4.v — part 4 of the kernel-evaluated sweep over the regenerated .nff tables. *)
From Coq Require Import String List.
From PT Require Import Xsf C05SweepDefs.
From PT.Gen Require Import NffIndex.
Lemma chunk4_ok : chunk_ok nff_files_4 = true.
Proof. vm_compute. reflexivity. Qed.
