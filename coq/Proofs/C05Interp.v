(* Proofs/C05Interp.v — generic lemmas of C05 over Q (axiom-free): numpy.interp with NaN outside
   on any table with increasing abscissae (value at a node, straight line between neighbours,
   NaN outside, NaN propagation), the bisection search of the checker agrees with the model's
   search, energy <-> wavelength round trip, linearity of the SLD in the density, and
   independence of the isotopes present at equal natural density. *)
From Coq Require Import ZArith QArith Qabs Qminmax String List Bool Lia Lqa Setoid Morphisms Sorted.
From PT Require Import Str Dec Loaders Formula Ancillary Xsf FormulaAlg.
Import ListNotations.
Open Scope Q_scope.

(* ------------------------------------------------------------------ increasing abscissae *)
Definition key_lt {A} (p q : Q * A) : Prop := fst p < fst q.
Definition increasing {A} (xs : list (Q * A)) : Prop := StronglySorted key_lt xs.

Fixpoint increasingb_from {A} (x : Q) (l : list (Q * A)) : bool :=
  match l with
  | [] => true
  | (y, _) :: r => (negb (Qle_bool y x) && increasingb_from y r)%bool
  end.
Definition increasingb {A} (l : list (Q * A)) : bool :=
  match l with [] => true | (x, _) :: r => increasingb_from x r end.

Lemma Qle_bool_false_lt : forall a b, Qle_bool a b = false -> b < a.
Proof.
  intros a b H. apply Qnot_le_lt. intro L. apply Qle_bool_iff in L. congruence.
Qed.

Lemma increasingb_from_sound : forall A (l : list (Q * A)) x y0,
  increasingb_from x l = true -> StronglySorted key_lt ((x, y0) :: l).
Proof.
  intros A l. induction l as [|[y v] r IH]; intros x y0 H.
  - constructor; constructor.
  - simpl in H. apply andb_prop in H. destruct H as [H1 H2].
    apply negb_true_iff in H1. apply Qle_bool_false_lt in H1.
    pose proof (IH y v H2) as S. constructor; [exact S|].
    constructor; [exact H1|].
    apply StronglySorted_inv in S. destruct S as [_ F].
    rewrite Forall_forall in *. intros p Hp. unfold key_lt in *. simpl in *.
    specialize (F p Hp). lra.
Qed.

Lemma increasingb_sound : forall A (l : list (Q * A)), increasingb l = true -> increasing l.
Proof.
  intros A [|[x y] r] H; [constructor|]. apply (increasingb_from_sound A r x y H).
Qed.

Lemma increasing_tail : forall A (p : Q * A) l, increasing (p :: l) -> increasing l.
Proof. intros A p l H. apply StronglySorted_inv in H. tauto. Qed.

Lemma increasing_head_lt : forall A (p q : Q * A) l, increasing (p :: l) -> In q l -> fst p < fst q.
Proof.
  intros A p q l H Hin. apply StronglySorted_inv in H. destruct H as [_ F].
  rewrite Forall_forall in F. exact (F q Hin).
Qed.

Lemma increasing_app_r : forall A (l1 l2 : list (Q * A)), increasing (l1 ++ l2) -> increasing l2.
Proof.
  intros A l1. induction l1 as [|p r IH]; intros l2 H; [exact H|].
  apply IH. exact (increasing_tail A p _ H).
Qed.

(* ------------------------------------------------------------------ the search *)
Section Locate.
  Context {A : Type}.
  Implicit Types (xs : list (Q * A)) (x : Q).

  Definition at_or_in (xj : Q) (yj : A) (xk : Q) (yk : A) (x : Q) : loc A :=
    if Qeq_bool x xj then LNode yj else LSeg xj yj xk yk.

  (* the bracket [xj <= x < xk] of two neighbouring rows is what the search returns *)
  Lemma locate_from_bracket : forall (l1 : list (Q * A)) x0 y0 xj yj xk yk l2 x,
    increasing ((x0, y0) :: l1 ++ (xj, yj) :: (xk, yk) :: l2) -> xj <= x -> x < xk ->
    locate_from x0 y0 (l1 ++ (xj, yj) :: (xk, yk) :: l2) x = at_or_in xj yj xk yk x.
  Proof.
    induction l1 as [|[a b] r IH]; intros x0 y0 xj yj xk yk l2 x S L U.
    - simpl. destruct (Qlt_le_dec x xj) as [C|C]; [lra|].
      destruct (Qlt_le_dec x xk) as [C'|C']; [reflexivity|lra].
    - simpl. assert (a < xj) as Ha.
      { apply increasing_tail in S.
        apply (increasing_head_lt A (a, b) (xj, yj) _ S). apply in_or_app. right. left. reflexivity. }
      destruct (Qlt_le_dec x a) as [C|C]; [lra|].
      apply IH; [exact (increasing_tail A _ _ S)|exact L|exact U].
  Qed.

  Theorem locate_bracket : forall (l1 : list (Q * A)) xj yj xk yk l2 x,
    increasing (l1 ++ (xj, yj) :: (xk, yk) :: l2) -> xj <= x -> x < xk ->
    locate (l1 ++ (xj, yj) :: (xk, yk) :: l2) x = at_or_in xj yj xk yk x.
  Proof.
    intros [|[x0 y0] r] xj yj xk yk l2 x S L U.
    - simpl. destruct (Qlt_le_dec x xj) as [C|C]; [lra|].
      destruct (Qlt_le_dec x xk) as [C'|C']; [reflexivity|lra].
    - simpl. assert (x0 < xj) as Ha.
      { apply (increasing_head_lt A (x0, y0) (xj, yj) _ S). apply in_or_app. right. left. reflexivity. }
      destruct (Qlt_le_dec x x0) as [C|C]; [lra|].
      apply locate_from_bracket; assumption.
  Qed.

  (* the last row *)
  Lemma locate_from_last : forall (l1 : list (Q * A)) x0 y0 xj yj x,
    increasing ((x0, y0) :: l1 ++ [(xj, yj)]) -> x == xj ->
    locate_from x0 y0 (l1 ++ [(xj, yj)]) x = LNode yj.
  Proof.
    induction l1 as [|[a b] r IH]; intros x0 y0 xj yj x S E.
    - simpl. destruct (Qlt_le_dec x xj) as [C|C]; [lra|].
      assert (Qeq_bool x xj = true) as Hq by (apply Qeq_bool_iff; exact E). rewrite Hq. reflexivity.
    - simpl. assert (a < xj) as Ha.
      { apply increasing_tail in S.
        apply (increasing_head_lt A (a, b) (xj, yj) _ S). apply in_or_app. right. left. reflexivity. }
      destruct (Qlt_le_dec x a) as [C|C]; [lra|].
      apply IH; [exact (increasing_tail A _ _ S)|exact E].
  Qed.

  Theorem locate_last : forall (l1 : list (Q * A)) xj yj x,
    increasing (l1 ++ [(xj, yj)]) -> x == xj -> locate (l1 ++ [(xj, yj)]) x = LNode yj.
  Proof.
    intros [|[x0 y0] r] xj yj x S E.
    - simpl. destruct (Qlt_le_dec x xj) as [C|C]; [lra|].
      assert (Qeq_bool x xj = true) as Hq by (apply Qeq_bool_iff; exact E). rewrite Hq. reflexivity.
    - simpl. assert (x0 < xj) as Ha.
      { apply (increasing_head_lt A (x0, y0) (xj, yj) _ S). apply in_or_app. right. left. reflexivity. }
      destruct (Qlt_le_dec x x0) as [C|C]; [lra|].
      apply locate_from_last; assumption.
  Qed.

  (* value at a node *)
  Theorem locate_node : forall xs xj yj x,
    increasing xs -> In (xj, yj) xs -> x == xj -> locate xs x = LNode yj.
  Proof.
    intros xs xj yj x S Hin E. apply in_split in Hin. destruct Hin as [l1 [l2 Hs]]. subst xs.
    destruct l2 as [|[xk yk] l2].
    - apply locate_last; assumption.
    - assert (xj < xk) as Hk.
      { apply increasing_app_r in S.
        apply (increasing_head_lt A (xj, yj) (xk, yk) _ S). left. reflexivity. }
      rewrite locate_bracket; [|exact S|lra|lra].
      unfold at_or_in. assert (Qeq_bool x xj = true) as Hq by (apply Qeq_bool_iff; exact E).
      rewrite Hq. reflexivity.
  Qed.

  (* strictly between two neighbouring rows *)
  Theorem locate_between : forall (l1 : list (Q * A)) xj yj xk yk l2 x,
    increasing (l1 ++ (xj, yj) :: (xk, yk) :: l2) -> xj < x -> x < xk ->
    locate (l1 ++ (xj, yj) :: (xk, yk) :: l2) x = LSeg xj yj xk yk.
  Proof.
    intros l1 xj yj xk yk l2 x S L U. rewrite locate_bracket; [|exact S|lra|exact U].
    unfold at_or_in. destruct (Qeq_bool x xj) eqn:E; [|reflexivity].
    apply Qeq_bool_iff in E. lra.
  Qed.

  (* outside: below the first row (any table), above every row (any table) *)
  Theorem locate_below : forall x0 (y0 : A) r x, x < x0 -> locate ((x0, y0) :: r) x = LOut.
  Proof. intros x0 y0 r x H. simpl. destruct (Qlt_le_dec x x0) as [C|C]; [reflexivity|lra]. Qed.

  Lemma locate_from_above : forall (r : list (Q * A)) x0 y0 x,
    x0 < x -> Forall (fun p => fst p < x) r -> locate_from x0 y0 r x = LOut.
  Proof.
    induction r as [|[a b] r IH]; intros x0 y0 x H F.
    - simpl. destruct (Qeq_bool x x0) eqn:E; [|reflexivity]. apply Qeq_bool_iff in E. lra.
    - simpl. inversion F as [|? ? Ha Fr]; subst. simpl in Ha.
      destruct (Qlt_le_dec x a) as [C|C]; [lra|]. apply IH; assumption.
  Qed.

  Theorem locate_above : forall xs x, Forall (fun p => fst p < x) xs -> locate xs x = LOut.
  Proof.
    intros [|[x0 y0] r] x F; [reflexivity|]. simpl.
    inversion F as [|? ? Ha Fr]; subst. simpl in Ha.
    destruct (Qlt_le_dec x x0) as [C|C]; [reflexivity|]. apply locate_from_above; assumption.
  Qed.

  (* on increasing abscissae, above the last row is above every row *)
  Lemma increasing_all_le_last : forall (l1 : list (Q * A)) xl yl,
    increasing (l1 ++ [(xl, yl)]) -> Forall (fun p : Q * A => fst p <= xl) (l1 ++ [(xl, yl)]).
  Proof.
    induction l1 as [|p r IH]; intros xl yl S.
    - constructor; [simpl; lra|constructor].
    - simpl. constructor.
      + assert (fst p < xl) as H.
        { apply (increasing_head_lt A p (xl, yl) _ S). apply in_or_app. right. left. reflexivity. }
        lra.
      + apply IH. exact (increasing_tail A p _ S).
  Qed.

  Theorem locate_above_last : forall (l1 : list (Q * A)) xl yl x,
    increasing (l1 ++ [(xl, yl)]) -> xl < x -> locate (l1 ++ [(xl, yl)]) x = LOut.
  Proof.
    intros l1 xl yl x S H. apply locate_above.
    pose proof (increasing_all_le_last l1 xl yl S) as F. rewrite Forall_forall in *.
    intros p Hp. specialize (F p Hp). lra.
  Qed.

  (* the checker's bisection search is the model's search on increasing abscissae *)
  Theorem locate_fast_correct : forall xs x, increasing xs -> locate_fast xs x = locate xs x.
  Proof.
    intros xs x S. unfold locate_fast.
    remember (bisect (Datatypes.length xs) xs x 0 (Datatypes.length xs - 1)) as j.
    destruct (skipn j xs) as [|[xj yj] [|[xk yk] r]] eqn:E; try reflexivity.
    destruct (Qle_bool xj x && negb (Qle_bool xk x))%bool eqn:T; [|reflexivity].
    apply andb_prop in T. destruct T as [T1 T2].
    apply Qle_bool_iff in T1. apply negb_true_iff in T2. apply Qle_bool_false_lt in T2.
    pose proof (firstn_skipn j xs) as F. rewrite E in F.
    assert (increasing (firstn j xs ++ (xj, yj) :: (xk, yk) :: r)) as S' by (rewrite F; exact S).
    pose proof (locate_bracket _ _ _ _ _ _ _ S' T1 T2) as B. rewrite F in B. rewrite B. reflexivity.
  Qed.

  (* the search commutes with a map on the ordinates *)
  Definition map_loc {B} (g : A -> B) (l : loc A) : loc B :=
    match l with
    | LOut => LOut
    | LNode y => LNode (g y)
    | LSeg xj yj xk yk => LSeg xj (g yj) xk (g yk)
    end.
End Locate.

Lemma locate_from_map : forall A B (g : A -> B) (r : list (Q * A)) x0 y0 x,
  locate_from x0 (g y0) (map (fun p => (fst p, g (snd p))) r) x = map_loc g (locate_from x0 y0 r x).
Proof.
  intros A B g r. induction r as [|[a b] r IH]; intros x0 y0 x; simpl.
  - destruct (Qeq_bool x x0); reflexivity.
  - destruct (Qlt_le_dec x a); [destruct (Qeq_bool x x0); reflexivity|]. apply IH.
Qed.

Lemma locate_map : forall A B (g : A -> B) (xs : list (Q * A)) x,
  locate (map (fun p => (fst p, g (snd p))) xs) x = map_loc g (locate xs x).
Proof.
  intros A B g [|[x0 y0] r] x; simpl; [reflexivity|].
  destruct (Qlt_le_dec x x0); [reflexivity|]. apply locate_from_map.
Qed.

Lemma increasing_map : forall A B (g : A -> B) (xs : list (Q * A)),
  increasing xs -> increasing (map (fun p => (fst p, g (snd p))) xs).
Proof.
  intros A B g xs S. induction S as [|p l S IH F]; [constructor|].
  simpl. constructor; [exact IH|]. rewrite Forall_forall in *. intros q Hq.
  apply in_map_iff in Hq. destruct Hq as [q0 [E Hq0]]. subst q. unfold key_lt. simpl. exact (F q0 Hq0).
Qed.

(* ------------------------------------------------------------------ numpy.interp(left=nan, right=nan) *)
Theorem interp_node : forall xs xj yj x,
  increasing xs -> In (xj, yj) xs -> x == xj -> interp_nan xs x = yj.
Proof. intros xs xj yj x S Hin E. unfold interp_nan. rewrite (locate_node xs xj yj x S Hin E). reflexivity. Qed.

Lemma lin_between : forall xj a xk b x v,
  xj < x -> x < xk -> lin xj (Some a) xk (Some b) x = Some v ->
  v == a + (b - a) / (xk - xj) * (x - xj) /\ Qminmax.Qmin a b <= v /\ v <= Qminmax.Qmax a b.
Proof.
  intros xj a xk b x v L U H. unfold lin in H. inversion H as [Hv]. clear H.
  set (d := xk - xj). set (u := x - xj).
  assert (0 < d) as Hd by (unfold d; lra).
  assert (0 < u) as Hu by (unfold u; lra).
  assert (u < d) as Hud by (unfold u, d; lra).
  set (t := u / d).
  assert (0 < t) as Ht0. { unfold t. apply Qlt_shift_div_l; [exact Hd|lra]. }
  assert (t < 1) as Ht1. { unfold t. apply Qlt_shift_div_r; [exact Hd|lra]. }
  assert ((b - a) / d * u + a == a + (b - a) * t) as Hform.
  { unfold t. field. lra. }
  split; [|split].
  - fold d u. lra.
  - fold d u. rewrite Hform. destruct (Qlt_le_dec a b) as [C|C].
    + rewrite Q.min_l by lra. nra.
    + rewrite Q.min_r by lra. nra.
  - fold d u. rewrite Hform. destruct (Qlt_le_dec a b) as [C|C].
    + rewrite Q.max_r by lra. nra.
    + rewrite Q.max_l by lra. nra.
Qed.

(* between two neighbouring rows: the straight line, which stays between the two values *)
Theorem interp_between : forall l1 xj a xk b l2 x,
  increasing (l1 ++ (xj, Some a) :: (xk, Some b) :: l2) -> xj < x -> x < xk ->
  exists v, interp_nan (l1 ++ (xj, Some a) :: (xk, Some b) :: l2) x = Some v /\
            v == a + (b - a) / (xk - xj) * (x - xj) /\ Qminmax.Qmin a b <= v /\ v <= Qminmax.Qmax a b.
Proof.
  intros l1 xj a xk b l2 x S L U. unfold interp_nan.
  rewrite (locate_between l1 xj (Some a) xk (Some b) l2 x S L U).
  eexists. split; [reflexivity|]. apply (lin_between xj a xk b x _ L U). reflexivity.
Qed.

(* a missing value (f1 = -9999) at either neighbour makes the whole open segment NaN *)
Theorem interp_nan_propagates : forall l1 xj yj xk yk l2 x,
  increasing (l1 ++ (xj, yj) :: (xk, yk) :: l2) -> xj < x -> x < xk -> yj = None \/ yk = None ->
  interp_nan (l1 ++ (xj, yj) :: (xk, yk) :: l2) x = None.
Proof.
  intros l1 xj yj xk yk l2 x S L U H. unfold interp_nan.
  rewrite (locate_between l1 xj yj xk yk l2 x S L U). unfold lin.
  destruct H as [H|H]; subst; [reflexivity|]. destruct yj; reflexivity.
Qed.

(* NaN outside the tabulated range *)
Theorem interp_outside : forall l1 x0 y0 xl yl x,
  increasing ((x0, y0) :: l1 ++ [(xl, yl)]) -> x < x0 \/ xl < x ->
  interp_nan ((x0, y0) :: l1 ++ [(xl, yl)]) x = None.
Proof.
  intros l1 x0 y0 xl yl x S [H|H]; unfold interp_nan.
  - rewrite locate_below by exact H. reflexivity.
  - change ((x0, y0) :: l1 ++ [(xl, yl)])%list with (((x0, y0) :: l1) ++ [(xl, yl)])%list.
    rewrite (locate_above_last ((x0, y0) :: l1) xl yl x); [reflexivity|exact S|exact H].
Qed.

(* a repeated abscissa (an absorption edge tabulated twice) returns the upper value *)
Theorem interp_repeated_abscissa : forall xe yl yu xk yk x,
  x == xe -> xe < xk -> interp_nan [(xe, yl); (xe, yu); (xk, yk)] x = yu.
Proof.
  intros xe yl yu xk yk x E H. unfold interp_nan, locate. simpl.
  destruct (Qlt_le_dec x xe) as [C|C]; [lra|]. destruct (Qlt_le_dec x xe) as [C1|C1]; [lra|].
  destruct (Qlt_le_dec x xk) as [C2|C2]; [|lra].
  assert (Qeq_bool x xe = true) as Hq by (apply Qeq_bool_iff; exact E). rewrite Hq. reflexivity.
Qed.

(* ------------------------------------------------------------------ the two columns from one search *)
Lemma sfs_locate_sf : forall t x, fst (sfs locate t x) = sf t x.
Proof.
  intros t x. unfold sfs, sf, interp_nan, col1, col2.
  rewrite (locate_map _ _ (fun v : option Q * Q => fst v) t x).
  rewrite (locate_map _ _ (fun v : option Q * Q => Some (snd v)) t x).
  destruct (locate t x) as [|[y1 y2]|xj [a1 a2] xk [b1 b2]]; reflexivity.
Qed.

(* a vector argument: element by element, whatever the order of the elements *)
Theorem sf_vec_pointwise : forall t xs i x, nth_error xs i = Some x -> nth_error (sf_vec t xs) i = Some (sf t x).
Proof. intros t xs i x H. unfold sf_vec. apply map_nth_error. exact H. Qed.

(* ------------------------------------------------------------------ energy <-> wavelength *)
Theorem energy_wavelength_roundtrip : forall h c x, ~ h * c == 0 -> ~ x == 0 ->
  hc_over h c (hc_over h c x) == x.
Proof.
  intros h c x Hhc Hx. unfold hc_over. field. split; [exact Hx|].
  split; intro E; apply Hhc; rewrite E; ring.
Qed.

(* ------------------------------------------------------------------ SLD *)
Definition oeq (a b : option Q) : Prop :=
  match a, b with Some x, Some y => x == y | None, None => True | _, _ => False end.

Lemma sld_of_linear : forall re na k rho m s, oeq (sld_of re na (k * rho) m s) (oscale k (sld_of re na rho m s)).
Proof.
  intros re na k rho m s. unfold sld_of, oscale. destruct s as [v|]; simpl; [|exact I].
  unfold Qdiv. ring.
Qed.

(* linear in the density, for every compound, energy and factor k *)
Theorem sld_linear_in_density : forall E re na T s rho k x r1 r2,
  xray_sld_model E re na T s (Some rho) None x = Val (r1, r2) ->
  exists r1' r2', xray_sld_model E re na T s (Some (k * rho)) None x = Val (r1', r2') /\
                  oeq r1' (oscale k r1) /\ oeq r2' (oscale k r2).
Proof.
  intros E re na T s rho k x r1 r2 H. unfold xray_sld_model in *. simpl init_density in *.
  destruct (negb (has_table T (count_atoms s))); [discriminate|].
  destruct (Qeq_bool (dweight (e_mass E) (count_atoms s)) 0).
  - inversion H; subst. exists (Some 0), (Some 0). split; [reflexivity|]. simpl. split; ring.
  - inversion H; subst. eexists. eexists. split; [reflexivity|]. split; apply sld_of_linear.
Qed.

(* sums over .atoms with every factor defined *)
Definition oval (a : option Q) : Q := match a with Some v => v | None => 0 end.

Lemma fsum_defined_acc : forall (F : atom -> option Q) d acc,
  Forall (fun p => F (fst p) <> None) d ->
  exists q, fold_left (fun a p => oadd a (oscale (snd p) (F (fst p)))) d (Some acc) = Some q /\
            q == fold_left (fun a p => a + oval (F (fst p)) * snd p) d acc.
Proof.
  intros F d. induction d as [|[a n] r IH]; intros acc H.
  - exists acc. split; [reflexivity|simpl; reflexivity].
  - inversion H as [|? ? Ha Hr]; subst. simpl in Ha. simpl.
    destruct (F a) as [v|] eqn:Fa; [|congruence]. simpl.
    destruct (IH (acc + n * v) Hr) as [q [E1 E2]]. exists q. split; [exact E1|].
    rewrite E2. clear.
    assert (forall l a1 a2, a1 == a2 ->
              fold_left (fun a p => a + oval (F (fst p)) * snd p) l a1 ==
              fold_left (fun a p => a + oval (F (fst p)) * snd p) l a2) as Hc.
    { induction l as [|p l IHl]; intros a1 a2 Ea; simpl; [exact Ea|]. apply IHl. rewrite Ea. reflexivity. }
    apply Hc. ring.
Qed.

Lemma fsum_defined : forall F d, Forall (fun p => F (fst p) <> None) d ->
  exists q, fsum F d = Some q /\ q == dweight (fun a => oval (F a)) d.
Proof. intros F d H. unfold fsum, dweight. apply fsum_defined_acc. exact H. Qed.

(* with a natural density the result depends on the compound only through
   sum n f / (natural mass): r_e N_A 1e-8 rho_n / m_nat * sum n f *)
Definition F1_of (T : atom -> res xtable) (x : Q) (a : atom) : option Q :=
  match T a with Val t => fst (sf t x) | _ => None end.
Definition F2_of (T : atom -> res xtable) (x : Q) (a : atom) : option Q :=
  match T a with Val t => snd (sf t x) | _ => None end.

Definition defined_on (T : atom -> res xtable) (x : Q) (s : struct) : Prop :=
  has_table T (count_atoms s) = true /\
  Forall (fun p => F1_of T x (fst p) <> None) (count_atoms s) /\
  Forall (fun p => F2_of T x (fst p) <> None) (count_atoms s).

Theorem sld_natural_density_form : forall E re na T s rn x,
  defined_on T x s -> ~ fweight (e_mass E) (FGroup s) == 0 -> ~ fweight (e_natmass E) (FGroup s) == 0 ->
  exists v1 v2, xray_sld_model E re na T s None (Some rn) x = Val (Some v1, Some v2) /\
    v1 == re * na * (1 # 100000000) * rn / fweight (e_natmass E) (FGroup s)
          * fweight (fun a => oval (F1_of T x a)) (FGroup s) /\
    v2 == re * na * (1 # 100000000) * rn / fweight (e_natmass E) (FGroup s)
          * fweight (fun a => oval (F2_of T x a)) (FGroup s).
Proof.
  intros E re na T s rn x [Ht [D1 D2]] Hm Hn. unfold xray_sld_model. simpl init_density.
  rewrite Ht. simpl negb. cbv iota.
  pose proof (dweight_count_frag (e_mass E) (FGroup s)) as Em.
  pose proof (dweight_count_frag (e_natmass E) (FGroup s)) as En.
  fold (count_atoms s) in Em, En.
  destruct (Qeq_bool (dweight (e_mass E) (count_atoms s)) 0) eqn:Z.
  { apply Qeq_bool_iff in Z. rewrite Em in Z. contradiction. }
  destruct (fsum_defined (F1_of T x) (count_atoms s) D1) as [q1 [S1 Q1]].
  destruct (fsum_defined (F2_of T x) (count_atoms s) D2) as [q2 [S2 Q2]].
  unfold F1_of in S1. unfold F2_of in S2. rewrite S1, S2. unfold sld_of, oscale.
  eexists. eexists. split; [reflexivity|].
  pose proof (dweight_count_frag (fun a => oval (F1_of T x a)) (FGroup s)) as E1.
  pose proof (dweight_count_frag (fun a => oval (F2_of T x a)) (FGroup s)) as E2.
  fold (count_atoms s) in E1, E2.
  rewrite Q1, Q2, E1, E2, Em, En. split; field; split; assumption.
Qed.

(* the same compound with other isotopes: the same elements with the same charges and counts *)
Definition avariant (a b : atom) : Prop := az a = az b /\ aq a = aq b.
Inductive fvariant : frag -> frag -> Prop :=
| FV_atom : forall a b, avariant a b -> fvariant (FAtom a) (FAtom b)
| FV_group : forall l m, lvariant l m -> fvariant (FGroup l) (FGroup m)
with lvariant : list (Q * frag) -> list (Q * frag) -> Prop :=
| LV_nil : lvariant [] []
| LV_cons : forall c c' f g l m, c == c' -> fvariant f g -> lvariant l m -> lvariant ((c, f) :: l) ((c', g) :: m).

Scheme fvariant_mind := Induction for fvariant Sort Prop
  with lvariant_mind := Induction for lvariant Sort Prop.

Lemma fweight_variant : forall (w : atom -> Q), (forall a b, avariant a b -> w a == w b) ->
  forall f g, fvariant f g -> fweight w f == fweight w g.
Proof.
  intros w Hw.
  apply (fvariant_mind (fun f g _ => fweight w f == fweight w g)
                       (fun l m _ => fweight w (FGroup l) == fweight w (FGroup m))).
  - intros a b H. simpl. apply Hw. exact H.
  - intros l m _ H. exact H.
  - reflexivity.
  - intros c c' f g l m Hc _ Hf _ Hl. rewrite !fweight_group_cons. rewrite Hc, Hf, Hl. reflexivity.
Qed.

(* at equal natural density the SLD does not depend on which isotopes are present, as long as
   every atom has its element's table and the natural mass is that of the element *)
Theorem isotope_independent : forall E re na T s1 s2 rn x,
  fvariant (FGroup s1) (FGroup s2) ->
  (forall a b, avariant a b -> e_natmass E a == e_natmass E b) ->
  (forall a b, avariant a b -> T a = T b) ->
  defined_on T x s1 -> defined_on T x s2 ->
  ~ fweight (e_mass E) (FGroup s1) == 0 -> ~ fweight (e_mass E) (FGroup s2) == 0 ->
  ~ fweight (e_natmass E) (FGroup s1) == 0 ->
  exists a1 a2 b1 b2,
    xray_sld_model E re na T s1 None (Some rn) x = Val (Some a1, Some a2) /\
    xray_sld_model E re na T s2 None (Some rn) x = Val (Some b1, Some b2) /\
    a1 == b1 /\ a2 == b2.
Proof.
  intros E re na T s1 s2 rn x V Hn HT D1 D2 M1 M2 N1.
  pose proof (fweight_variant (e_natmass E) Hn _ _ V) as En.
  assert (~ fweight (e_natmass E) (FGroup s2) == 0) as N2 by (rewrite <- En; exact N1).
  destruct (sld_natural_density_form E re na T s1 rn x D1 M1 N1) as [a1 [a2 [Ea [A1 A2]]]].
  destruct (sld_natural_density_form E re na T s2 rn x D2 M2 N2) as [b1 [b2 [Eb [B1 B2]]]].
  exists a1, a2, b1, b2. split; [exact Ea|]. split; [exact Eb|].
  assert (forall a b, avariant a b -> oval (F1_of T x a) == oval (F1_of T x b)) as H1.
  { intros a b H. unfold F1_of. rewrite (HT a b H). reflexivity. }
  assert (forall a b, avariant a b -> oval (F2_of T x a) == oval (F2_of T x b)) as H2.
  { intros a b H. unfold F2_of. rewrite (HT a b H). reflexivity. }
  pose proof (fweight_variant _ H1 _ _ V) as E1.
  pose proof (fweight_variant _ H2 _ _ V) as E2.
  split.
  - rewrite A1, B1, En, E1. reflexivity.
  - rewrite A2, B2, En, E2. reflexivity.
Qed.

(* ------------------------------------------------------------------ the checker's SLD computation is the model's *)
(* xray_sld_run (one table search per atom, Qred in between) with the model's search returns the
   values of xray_sld_model *)
Lemma sum4_locate_acc : forall T x d v1 v2 s1 s2,
  fst (fold_left (fun acc p =>
               let '((v1, v2), (s1, s2)) := acc in
               let '((f1, f2), (a1, a2)) :=
                 match T (fst p) with Val t => sfs locate t x | _ => ((None, None), (0, 0)) end in
               ((oadd v1 (oscale (snd p) f1), oadd v2 (oscale (snd p) f2)),
                (s1 + Qabs (snd p) * a1, s2 + Qabs (snd p) * a2)))
            d ((v1, v2), (s1, s2)))
  = (fold_left (fun a p => oadd a (oscale (snd p) (F1_of T x (fst p)))) d v1,
     fold_left (fun a p => oadd a (oscale (snd p) (F2_of T x (fst p)))) d v2).
Proof.
  intros T x d. induction d as [|[a n] r IH]; intros v1 v2 s1 s2; [reflexivity|].
  simpl fold_left. unfold F1_of at 2, F2_of at 2. simpl fst. simpl snd.
  destruct (T a) as [t| |].
  - pose proof (sfs_locate_sf t x) as E. destruct (sfs locate t x) as [[f1 f2] [a1 a2]].
    simpl in E. unfold sf in E. inversion E; subst. apply IH.
  - apply IH.
  - apply IH.
Qed.

Lemma sum4_locate : forall T x d, fst (sum4 locate T x d) = (fsum (F1_of T x) d, fsum (F2_of T x) d).
Proof. intros T x d. unfold sum4, fsum. apply sum4_locate_acc. Qed.

Lemma oeq_sld_of_red : forall re na r m v,
  oeq (ored (sld_of re na (Qred r) (Qred m) (ored v))) (sld_of re na r m v).
Proof.
  intros re na r m v. destruct v as [q|]; [|exact I].
  change (Qred (Qred r / Qred m * na * (1 # 100000000) * (re * Qred q)) == r / m * na * (1 # 100000000) * (re * q)).
  rewrite !Qred_correct. reflexivity.
Qed.

Theorem xray_sld_run_is_model : forall E re na T s dn nd x,
  match xray_sld_run locate E re na T s dn nd x, xray_sld_model E re na T s dn nd x with
  | Val ((a1, a2), _), Val (b1, b2) => oeq a1 b1 /\ oeq a2 b2
  | Raise, Raise => True
  | _, _ => False
  end.
Proof.
  intros E re na T s dn nd x. unfold xray_sld_run, xray_sld_model.
  destruct (init_density E s dn nd) as [rho|]; [|exact I].
  destruct (negb (has_table T (count_atoms s))); [exact I|].
  assert (Qeq_bool (Qred (dweight (e_mass E) (count_atoms s))) 0 = Qeq_bool (dweight (e_mass E) (count_atoms s)) 0) as Hb.
  { destruct (Qeq_bool (dweight (e_mass E) (count_atoms s)) 0) eqn:B.
    - apply Qeq_bool_iff. rewrite Qred_correct. apply Qeq_bool_iff. exact B.
    - destruct (Qeq_bool (Qred (dweight (e_mass E) (count_atoms s))) 0) eqn:B'; [|reflexivity].
      apply Qeq_bool_iff in B'. rewrite Qred_correct in B'. apply Qeq_bool_iff in B'. congruence. }
  rewrite Hb. destruct (Qeq_bool (dweight (e_mass E) (count_atoms s)) 0).
  - split; simpl; reflexivity.
  - pose proof (sum4_locate T x (count_atoms s)) as S.
    destruct (sum4 locate T x (count_atoms s)) as [[v1 v2] [s1 s2]]. simpl in S. inversion S; subst.
    split; apply oeq_sld_of_red.
Qed.
