(* Proofs/C14Proofs.v — the transcription of activity() (Model/Act.v) against the chain solutions
   (Spec/Activation.v). *)
From Coq Require Import Reals ZArith QArith Qreals Qabs String List Bool Lra Lia.
From Coquelicot Require Import Coquelicot.
From PT Require Import Str Dec Py IExpr ActEval ActEvalSound Act Activation.
Import ListNotations.
Open Scope R_scope.

(* ------------------------------------------------------------------ ln 2 *)
Lemma ln2_bounds : Q2R ln2_lo < ln 2 < Q2R ln2_hi.
Proof.
  pose proof (sign_of_sound (ESub (EVar 0) (ECst ln2_lo))) as H1.
  pose proof (sign_of_sound (ESub (ECst ln2_hi) (EVar 0))) as H2.
  assert (E1 : sign_of (ESub (EVar 0) (ECst ln2_lo)) = SPos) by (vm_compute; reflexivity).
  assert (E2 : sign_of (ESub (ECst ln2_hi) (EVar 0)) = SPos) by (vm_compute; reflexivity).
  rewrite E1 in H1. rewrite E2 in H2. unfold sgn_means in *. cbn [evalR] in *. unfold ln2_env_R in *. lra.
Qed.

Lemma ln2_pos : 0 < ln 2.
Proof. rewrite <- ln_1. apply ln_increasing; lra. Qed.

Lemma lin_ln2_neg_sound : forall a b,
  match lin_ln2_neg a b with
  | Some true => Q2R a + Q2R b * ln 2 < 0
  | Some false => 0 <= Q2R a + Q2R b * ln 2
  | None => True
  end.
Proof.
  intros a b. unfold lin_ln2_neg. destruct ln2_bounds as [Hlo Hhi].
  destruct (Qle_bool 0 b) eqn:Eb.
  - apply Qle_bool_iff in Eb. apply Qle_Rle in Eb. change (Q2R 0) with (0 * / 1) in Eb.
    assert (0 <= Q2R b) by lra.
    destruct (Qlt_le_dec (a + b * ln2_hi) 0) as [Hl|Hl].
    + apply Qlt_Rlt in Hl. rewrite Q2R_plus, Q2R_mult in Hl. change (Q2R 0) with (0 * / 1) in Hl. nra.
    + destruct (Qle_bool 0 (a + b * ln2_lo)) eqn:E2; [|trivial].
      apply Qle_bool_iff in E2. apply Qle_Rle in E2. rewrite Q2R_plus, Q2R_mult in E2.
      change (Q2R 0) with (0 * / 1) in E2. nra.
  - assert (Q2R b < 0).
    { destruct (Qlt_le_dec b 0) as [Hb|Hb].
      - apply Qlt_Rlt in Hb. change (Q2R 0) with (0 * / 1) in Hb. lra.
      - apply Qle_bool_iff in Hb. congruence. }
    destruct (Qlt_le_dec (a + b * ln2_lo) 0) as [Hl|Hl].
    + apply Qlt_Rlt in Hl. rewrite Q2R_plus, Q2R_mult in Hl. change (Q2R 0) with (0 * / 1) in Hl. nra.
    + destruct (Qle_bool 0 (a + b * ln2_hi)) eqn:E2; [|trivial].
      apply Qle_bool_iff in E2. apply Qle_Rle in E2. rewrite Q2R_plus, Q2R_mult in E2.
      change (Q2R 0) with (0 * / 1) in E2. nra.
Qed.

(* ------------------------------------------------------------------ meaning of the leaves *)
Lemma Q2R_1 : Q2R 1 = 1.   Proof. unfold Q2R; simpl; field. Qed.
Lemma Q2R_2 : Q2R 2 = 2.   Proof. unfold Q2R; simpl; field. Qed.
Lemma Q2R_HOUR : Q2R HOUR = 3600.   Proof. unfold Q2R, HOUR; simpl; field. Qed.
Lemma evalR_LN2 : evalR ln2_env_R LN2 = ln 2.
Proof. reflexivity. Qed.

Ltac ev := unfold b_code, b_spec, b_scale, n2_code, n2_spec, n2_term, main_code, small_code, expm1_code_pos, expm1_code_neg, act_x, act_spec, act_d, act_V,
             expm1, eexp_neg, c in *; cbn [evalR] in *; rewrite ?Q2R_1, ?Q2R_2, ?Q2R_HOUR in *.

(* ------------------------------------------------------------------ the code-shaped formulas are the chain solutions *)
Section Builders.
  Variable env : nat -> R.
  Notation "[[ e ]]" := (evalR env e).

  Lemma b_code_eq_spec : forall root plam lam t, [[plam]] <> [[lam]] ->
    [[b_code root plam lam t]] = [[b_spec root plam lam t]].
  Proof.
    intros root plam lam t H. ev.
    replace (- [[plam]] * [[t]]) with (- ([[plam]] * [[t]])) by ring.
    replace (- [[lam]] * [[t]]) with (- ([[lam]] * [[t]])) by ring.
    field. lra.
  Qed.

  Lemma b_spec_solution : forall root plam lam t R0, [[root]] = R0 / 3600 -> [[lam]] <> 0 -> [[plam]] <> [[lam]] ->
    [[b_spec root plam lam t]] = [[lam]] / 3600 * cb_D R0 [[plam]] [[lam]] [[t]].
  Proof.
    intros root plam lam t R0 Hr Hl Hne. ev. unfold cb_D. rewrite Hr.
    replace (- [[plam]] * [[t]]) with (- ([[plam]] * [[t]])) by ring.
    replace (- [[lam]] * [[t]]) with (- ([[lam]] * [[t]])) by ring.
    field. split; lra.
  Qed.

  Lemma n2_code_eq_spec : forall root lam plam k1 k2c t,
    [[n2_code root lam plam k1 k2c t]] = [[n2_spec root lam plam k1 k2c t]].
  Proof. intros. ev. ring. Qed.

  Lemma n2_spec_solution : forall root lam plam k1 k2c t N0, [[root]] = N0 * [[k1]] / 3600 ->
    [[n2_spec root lam plam k1 k2c t]] = [[lam]] / 3600 * c2_N3 N0 [[k1]] ([[k2c]] + [[plam]]) [[k2c]] [[lam]] [[t]].
  Proof.
    intros root lam plam k1 k2c t N0 Hr. ev. unfold c2_N3. rewrite Hr.
    replace (- [[k1]] * [[t]]) with (- ([[k1]] * [[t]])) by ring.
    replace (- ([[k2c]] + [[plam]]) * [[t]]) with (- (([[k2c]] + [[plam]]) * [[t]])) by ring.
    replace (- [[lam]] * [[t]]) with (- ([[lam]] * [[t]])) by ring.
    unfold Rdiv. ring.
  Qed.

  Lemma main_code_eq_spec : forall root atoms lam k1 kb t, [[root]] = [[atoms]] * [[k1]] / 3600 ->
    [[lam]] - [[k1]] + [[kb]] <> 0 ->
    [[main_code root lam k1 kb t]] = [[act_spec atoms lam k1 kb t]].
  Proof. intros root atoms lam k1 kb t Hr Hd. ev. rewrite Hr. field. lra. Qed.

  (* the repaired forms: exp(-U) (1 - exp(-x)) and exp(-V) (exp(x) - 1) with x = V - U *)
  Lemma expm1_code_pos_eq_spec : forall root atoms lam k1 kb t, [[root]] = [[atoms]] * [[k1]] / 3600 ->
    [[lam]] - [[k1]] + [[kb]] <> 0 ->
    [[expm1_code_pos root lam k1 kb t]] = [[act_spec atoms lam k1 kb t]].
  Proof.
    intros root atoms lam k1 kb t Hr Hd. ev. rewrite Hr.
    replace (- (([[kb]] + [[lam]]) * [[t]])) with (- ([[k1]] * [[t]]) + - (([[lam]] - [[k1]] + [[kb]]) * [[t]])) by ring.
    rewrite exp_plus. field. lra.
  Qed.
  Lemma expm1_code_neg_eq_spec : forall root atoms lam k1 kb t, [[root]] = [[atoms]] * [[k1]] / 3600 ->
    [[lam]] - [[k1]] + [[kb]] <> 0 ->
    [[expm1_code_neg root lam k1 kb t]] = [[act_spec atoms lam k1 kb t]].
  Proof.
    intros root atoms lam k1 kb t Hr Hd. ev. rewrite Hr.
    replace (- ([[k1]] * [[t]])) with (- (([[kb]] + [[lam]]) * [[t]]) + ([[lam]] - [[k1]] + [[kb]]) * [[t]]) by ring.
    rewrite exp_plus. field. lra.
  Qed.

  Lemma act_spec_solution : forall atoms lam k1 kb t,
    [[act_spec atoms lam k1 kb t]] = [[lam]] / 3600 * c1_N2 [[atoms]] [[k1]] ([[kb]] + [[lam]]) [[t]].
  Proof.
    intros. ev. unfold c1_N2.
    replace (- [[k1]] * [[t]]) with (- ([[k1]] * [[t]])) by ring.
    replace (- ([[kb]] + [[lam]]) * [[t]]) with (- (([[kb]] + [[lam]]) * [[t]])) by ring.
    unfold Rdiv. ring.
  Qed.

  (* the small-argument branch is the first-order term W (V - U) times 1 + (V+U)/(2(V-U)) *)
  Lemma small_code_factor : forall root lam k1 kb t,
    let U := [[k1]] * [[t]] in let V := ([[kb]] + [[lam]]) * [[t]] in
    [[lam]] - [[k1]] + [[kb]] <> 0 -> V <> U ->
    [[small_code root lam k1 kb t]] =
      [[root]] * ([[lam]] / ([[lam]] - [[k1]] + [[kb]])) * (V - U) * (1 + (V + U) / (2 * (V - U))).
  Proof. intros root lam k1 kb t U V Hd Hne. subst U V. ev. field. split; lra. Qed.
End Builders.

(* ------------------------------------------------------------------ rationals of the model vs reals of the spec *)
Lemma Q2R_injZ : forall z, Q2R (inject_Z z) = IZR z.
Proof. intro z. unfold Q2R, inject_Z; simpl. field. Qed.

Lemma Q2R_BARN : Q2R BARN = / 1000000000000000000000000.
Proof. unfold Q2R, BARN; simpl. field. Qed.
Lemma Q2R_KUCI : Q2R KUCI = K_uCi.
Proof. unfold Q2R, KUCI, K_uCi; simpl. field. Qed.

Lemma Qeq_bool_false_R : forall a b, Qeq_bool a b = false -> Q2R a <> Q2R b.
Proof.
  intros a b H E. apply eqR_Qeq in E. apply Qeq_bool_iff in E. congruence.
Qed.
Lemma Q2R_0 : Q2R 0 = 0.  Proof. unfold Q2R; simpl; field. Qed.

Lemma root_is : forall flux xs mass amass, amass <> 0%Z ->
  Q2R (flux * xs * BARN * mass / inject_Z amass * KUCI)
  = atoms (Q2R mass) (IZR amass) * rate (Q2R flux) (Q2R xs) / 3600.
Proof.
  intros flux xs mass amass H.
  assert (HA : IZR amass <> 0) by (apply not_0_IZR; assumption).
  rewrite Q2R_mult, Q2R_div, !Q2R_mult, Q2R_injZ, Q2R_BARN, Q2R_KUCI.
  - unfold atoms, rate. field. assumption.
  - intro E. apply H. unfold Qeq in E. simpl in E. lia.
Qed.

Lemma k1_is : forall flux xs, Q2R (flux * xs * HOUR * BARN) = rate (Q2R flux) (Q2R xs).
Proof. intros. rewrite !Q2R_mult, Q2R_BARN, Q2R_HOUR. unfold rate. field. Qed.
Lemma k1_is' : forall flux xs, Q2R (flux * xs * BARN * HOUR) = rate (Q2R flux) (Q2R xs).
Proof. intros. rewrite !Q2R_mult, Q2R_BARN, Q2R_HOUR. unfold rate. field. Qed.
Lemma k2c_is : forall flu xs, Q2R (flu * BARN * HOUR * xs) = rate (Q2R flu) (Q2R xs).
Proof. intros. rewrite !Q2R_mult, Q2R_BARN, Q2R_HOUR. unfold rate. field. Qed.
Lemma atoms_is : forall mass amass, amass <> 0%Z ->
  Q2R (KUCI * mass / inject_Z amass) = atoms (Q2R mass) (IZR amass).
Proof.
  intros mass amass H. rewrite Q2R_div, Q2R_mult, Q2R_injZ, Q2R_KUCI; [reflexivity|].
  intro E. apply H. unfold Qeq in E. simpl in E. lia.
Qed.

Lemma lam_is : forall T, evalR ln2_env_R (LN2 /: c T) = decay_const (Q2R T).
Proof. intros. unfold decay_const. cbn [evalR]. rewrite evalR_LN2. reflexivity. Qed.

Lemma decay_const_neq0 : forall T, T <> 0 -> decay_const T <> 0.
Proof.
  intros T H. unfold decay_const. pose proof ln2_pos. intro E.
  apply (Rmult_eq_compat_r T) in E. unfold Rdiv in E. rewrite Rmult_assoc, Rinv_l, Rmult_0_l in E by assumption. lra.
Qed.
Lemma decay_const_inj : forall T T', T <> 0 -> T' <> 0 -> decay_const T = decay_const T' -> T = T'.
Proof.
  intros T T' H H' E. unfold decay_const in E. pose proof ln2_pos.
  assert (ln 2 * T' = ln 2 * T).
  { apply (Rmult_eq_compat_r (T * T')) in E. field_simplify in E; lra. }
  nra.
Qed.

Definition chain_of (br : branch) : chain :=
  match br with BB => CB | B2n => C2n | BMain | BSmall => CAct end.

Ltac split_row H :=
  unfold activity_row_with in H; cbv zeta in H;
  repeat (match type of H with
  | context [if ?b then _ else _] => destruct b eqn:?
  | context [match lin_ln2_neg ?a ?b with _ => _ end] => destruct (lin_ln2_neg a b) as [[|]|] eqn:?
  end; try discriminate H).

(* what the tie compares with: the [spec] expression the model emits IS the chain solution of
   Spec/Activation.v for the row's cross sections and half-lives, and [lam] is ln 2 / T *)
Theorem model_spec_is_chain_solution : forall cfg r amass mass env t br a m lam spec,
  activity_row_with cfg r amass mass env t = OAct br a m lam spec ->
  evalR ln2_env_R spec =
    activity_end (chain_of br) (Q2R mass) (IZR amass) (Q2R (row_flux r env)) (Q2R (fluence env))
                 (Q2R (row_xs r env)) (Q2R (row_xs2 r env)) (Q2R (r_thalf r)) (Q2R (r_thalf_par r)) (Q2R t)
  /\ evalR ln2_env_R lam = decay_const (Q2R (r_thalf r)).
Proof.
  intros until spec. intro H. split_row H; injection H as <- <- <- <- <-; (split; [|apply lam_is]);
    assert (HA : amass <> 0%Z) by (apply Z.eqb_neq; assumption);
    assert (HT : Q2R (r_thalf r) <> 0) by (rewrite <- Q2R_0; apply Qeq_bool_false_R; assumption);
    unfold activity_end, chain_of.
  1: { (* b *)
    assert (HTp : Q2R (r_thalf_par r) <> 0) by (rewrite <- Q2R_0; apply Qeq_bool_false_R; assumption).
    assert (HTT : Q2R (r_thalf_par r) <> Q2R (r_thalf r)) by (apply Qeq_bool_false_R; assumption).
    rewrite (b_spec_solution ln2_env_R _ _ _ _ (atoms (Q2R mass) (IZR amass) * rate (Q2R (row_flux r env)) (Q2R (row_xs r env)))).
    + rewrite !lam_is. reflexivity.
    + cbn [evalR c]. apply root_is; assumption.
    + rewrite lam_is. apply decay_const_neq0; assumption.
    + rewrite !lam_is. intro E. apply HTT. apply decay_const_inj; assumption. }
  1: { (* 2n *)
    rewrite (n2_spec_solution ln2_env_R _ _ _ _ _ _ (atoms (Q2R mass) (IZR amass))).
    + rewrite !lam_is. cbn [evalR c]. rewrite k1_is', k2c_is. reflexivity.
    + cbn [evalR c]. rewrite k1_is'. rewrite root_is by assumption. unfold Rdiv. ring. }
  all: rewrite act_spec_solution; rewrite lam_is; cbn [evalR c]; rewrite !k1_is, atoms_is by assumption; reflexivity.
Qed.

(* on every branch but the small-argument one, the code-shaped expression denotes the chain solution *)
Theorem model_refines_spec : forall cfg r amass mass env t br a m lam spec,
  activity_row_with cfg r amass mass env t = OAct br a m lam spec ->
  br <> BSmall ->
  (br = BMain -> decay_const (Q2R (r_thalf r)) - rate (Q2R (row_flux r env)) (Q2R (row_xs r env))
                 + rate (Q2R (fluence env)) (Q2R (row_xs2 r env)) <> 0) ->
  evalR ln2_env_R a = evalR ln2_env_R spec.
Proof.
  intros until spec. intros H Hns Hd. split_row H; injection H as <- <- <- <- <-; try (exfalso; apply Hns; reflexivity);
    assert (HA : amass <> 0%Z) by (apply Z.eqb_neq; assumption);
    assert (HT : Q2R (r_thalf r) <> 0) by (rewrite <- Q2R_0; apply Qeq_bool_false_R; assumption).
  1: { (* b *)
    assert (HTp : Q2R (r_thalf_par r) <> 0) by (rewrite <- Q2R_0; apply Qeq_bool_false_R; assumption).
    assert (HTT : Q2R (r_thalf_par r) <> Q2R (r_thalf r)) by (apply Qeq_bool_false_R; assumption).
    apply b_code_eq_spec. rewrite !lam_is. intro E. apply HTT. apply decay_const_inj; assumption. }
  1: apply n2_code_eq_spec.
  all: first [apply main_code_eq_spec | apply expm1_code_pos_eq_spec | apply expm1_code_neg_eq_spec];
    [ cbn [evalR c]; rewrite root_is, atoms_is, k1_is by assumption; reflexivity
    | rewrite lam_is; cbn [evalR c]; rewrite !k1_is; apply Hd; reflexivity ].
Qed.

(* hence: the model's activity at the end of irradiation is the decay rate of the chain solution *)
Corollary model_activity_is_chain_solution : forall cfg r amass mass env t br a m lam spec,
  activity_row_with cfg r amass mass env t = OAct br a m lam spec ->
  br <> BSmall ->
  (br = BMain -> decay_const (Q2R (r_thalf r)) - rate (Q2R (row_flux r env)) (Q2R (row_xs r env))
                 + rate (Q2R (fluence env)) (Q2R (row_xs2 r env)) <> 0) ->
  evalR ln2_env_R a =
    activity_end (chain_of br) (Q2R mass) (IZR amass) (Q2R (row_flux r env)) (Q2R (fluence env))
                 (Q2R (row_xs r env)) (Q2R (row_xs2 r env)) (Q2R (r_thalf r)) (Q2R (r_thalf_par r)) (Q2R t).
Proof.
  intros until spec. intros H Hns Hd.
  rewrite (model_refines_spec _ _ _ _ _ _ _ _ _ _ _ H Hns Hd).
  apply (model_spec_is_chain_solution _ _ _ _ _ _ _ _ _ _ _ H).
Qed.

(* without the small-argument test the model never takes that branch, never declines, and raises only
   for a row whose mass number or half-life is 0 (or a 'b' row whose two half-lives coincide) *)
Lemma no_small_branch : forall cfg r amass mass env t br a m lam spec, cfg_small cfg = false ->
  activity_row_with cfg r amass mass env t = OAct br a m lam spec -> br <> BSmall.
Proof.
  intros until spec. intros Hc H. unfold activity_row_with in H. cbv zeta in H. rewrite Hc, andb_false_l in H.
  repeat (match type of H with
  | context [if ?b then _ else _] => destruct b eqn:?
  | context [match lin_ln2_neg ?a ?b with _ => _ end] => destruct (lin_ln2_neg a b) as [[|]|] eqn:?
  end; try discriminate H); injection H as <- <- <- <- <-; discriminate.
Qed.

Lemma no_small_never_undecided : forall cfg r amass mass env t, cfg_small cfg = false ->
  activity_row_with cfg r amass mass env t <> OUndecided.
Proof.
  intros cfg r amass mass env t Hc H. unfold activity_row_with in H. cbv zeta in H. rewrite Hc, andb_false_l in H.
  repeat (match type of H with
  | context [if ?b then _ else _] => destruct b eqn:?
  | context [match lin_ln2_neg ?a ?b with _ => _ end] => destruct (lin_ln2_neg a b) as [[|]|] eqn:?
  end; try discriminate H).
Qed.

Lemma no_small_raise_only_zero_div : forall cfg r amass mass env t e, cfg_small cfg = false ->
  activity_row_with cfg r amass mass env t = ORaise e ->
  e = ZeroDivErr /\ (amass = 0%Z \/ Qeq_bool (r_thalf r) 0 = true \/
                     ((String.eqb (r_reaction r) "b" || String.eqb (r_reaction r) "2n")%bool = true /\ Qeq_bool (r_thalf_par r) 0 = true) \/
                     (String.eqb (r_reaction r) "b" = true /\ Qeq_bool (r_thalf_par r) (r_thalf r) = true)).
Proof.
  intros cfg r amass mass env t e Hc H. unfold activity_row_with in H. cbv zeta in H. rewrite Hc, andb_false_l in H.
  repeat (match type of H with
  | context [if ?b then _ else _] => destruct b eqn:?
  | context [match lin_ln2_neg ?a ?b with _ => _ end] => destruct (lin_ln2_neg a b) as [[|]|] eqn:?
  end; try discriminate H); injection H as <-; (split; [reflexivity|]).
  all: try (left; apply Z.eqb_eq; assumption).
  all: repeat match goal with Hb : _ = true |- _ => rewrite Hb; clear Hb end; simpl; tauto.
Qed.

Theorem model_refines_spec_repaired : forall cfg r amass mass env t br a m lam spec, cfg_small cfg = false ->
  activity_row_with cfg r amass mass env t = OAct br a m lam spec ->
  (br = BMain -> decay_const (Q2R (r_thalf r)) - rate (Q2R (row_flux r env)) (Q2R (row_xs r env))
                 + rate (Q2R (fluence env)) (Q2R (row_xs2 r env)) <> 0) ->
  evalR ln2_env_R a =
    activity_end (chain_of br) (Q2R mass) (IZR amass) (Q2R (row_flux r env)) (Q2R (fluence env))
                 (Q2R (row_xs r env)) (Q2R (row_xs2 r env)) (Q2R (r_thalf r)) (Q2R (r_thalf_par r)) (Q2R t).
Proof.
  intros until spec. intros Hc H Hd.
  apply (model_activity_is_chain_solution cfg _ _ _ _ _ _ _ _ _ _ H (no_small_branch _ _ _ _ _ _ _ _ _ _ _ Hc H) Hd).
Qed.

(* rest decay of the model: exp(-lam t) with lam = ln 2 / T is 2^(-t/T) *)
Theorem model_rest_decay_exact : forall a lam T ti, evalR ln2_env_R lam = decay_const T ->
  evalR ln2_env_R (rest_model a lam ti) = activity_rest (evalR ln2_env_R a) T (Q2R ti).
Proof.
  intros a lam T ti Hl. unfold rest_model, activity_rest, eexp_neg, Rpower. cbn [evalR c]. rewrite Hl.
  unfold decay_const. f_equal. f_equal. unfold Rdiv. ring.
Qed.
Theorem spec_rest_decay_exact : forall s T ti,
  evalR ln2_env_R (rest_spec s T ti) = activity_rest (evalR ln2_env_R s) (Q2R T) (Q2R ti) \/ Q2R T = 0.
Proof.
  intros s T ti. destruct (Req_dec (Q2R T) 0) as [E|E]; [right; assumption|left].
  unfold rest_spec, activity_rest, eexp_neg, Rpower. cbn [evalR c]. rewrite evalR_LN2.
  rewrite Q2R_div by (intro Z; apply E; rewrite (Qeq_eqR _ _ Z); apply Q2R_0).
  f_equal. f_equal. unfold Rdiv. ring.
Qed.

(* ------------------------------------------------------------------ omission rules *)
Theorem fast_omitted : forall (sb : actcfg) r amass mass env t,
  r_fast r = true -> Qeq (fast_ratio env) 0 -> activity_row_with sb r amass mass env t = OSkip.
Proof.
  intros sb r amass mass env t Hf H0. unfold activity_row_with. rewrite Hf.
  apply Qeq_bool_iff in H0. rewrite H0. reflexivity.
Qed.

Theorem fast_included : forall (sb : actcfg) r amass mass env t,
  ~ Qeq (fast_ratio env) 0 -> activity_row_with sb r amass mass env t <> OSkip.
Proof.
  intros sb r amass mass env t H0 H. assert (E : Qeq_bool (fast_ratio env) 0 = false).
  { destruct (Qeq_bool (fast_ratio env) 0) eqn:E; [|reflexivity]. apply Qeq_bool_iff in E. contradiction. }
  unfold activity_row_with in H. rewrite E, andb_false_r in H. cbv zeta in H.
  repeat (match type of H with
  | context [if ?b then _ else _] => destruct b eqn:?
  | context [match lin_ln2_neg ?a ?b with _ => _ end] => destruct (lin_ln2_neg a b) as [[|]|] eqn:?
  end; try discriminate H).
Qed.

(* epithermal capture: below a cadmium ratio of 1 the resonance integrals do not enter *)
Theorem epithermal_omitted : forall r env, (cd_ratio env < 1)%Q ->
  Qeq (row_xs r env) (r_xs r) /\ Qeq (row_xs2 r env) (r_xs_par r).
Proof.
  intros r env H. unfold row_xs, row_xs2, epi_factor.
  destruct (Qle_bool 1 (cd_ratio env)) eqn:E.
  - apply Qle_bool_iff in E. exfalso. apply (Qlt_not_le _ _ H E).
  - split; ring.
Qed.
Theorem epithermal_included : forall r env, (1 <= cd_ratio env)%Q ->
  Qeq (row_xs r env) (r_xs r + r_res r / cd_ratio env) /\ Qeq (row_xs2 r env) (r_xs_par r + r_res_par r / cd_ratio env).
Proof.
  intros r env H. unfold row_xs, row_xs2, epi_factor.
  assert (E : Qle_bool 1 (cd_ratio env) = true) by (apply Qle_bool_iff; assumption). rewrite E.
  assert (~ cd_ratio env == 0)%Q by (intro Z; rewrite Z in H; unfold Qle in H; simpl in H; lia).
  split; field; assumption.
Qed.

(* ------------------------------------------------------------------ natural element = abundance-weighted isotopes *)
Theorem natural_is_abundance_sum : forall rows z isos m env t,
  element_activity rows z isos m env t =
  concat (map (fun ia => if Qeq_bool (m * snd ia * (1 # 100)) 0 then []
                         else isotope_activity rows z (fst ia) (m * snd ia * (1 # 100))%Q env t) isos).
Proof.
  intros. unfold element_activity. rewrite flat_map_concat_map. f_equal.
  apply map_ext. intros [a ab]. reflexivity.
Qed.

(* a sample is the concatenation of its constituents' contributions: no occurrence replaces another *)
Theorem sample_is_sum_of_constituents : forall rows m env t cs1 cs2,
  sample_activity rows m env t (cs1 ++ cs2) = (sample_activity rows m env t cs1 ++ sample_activity rows m env t cs2)%list
  /\ (forall cst, sample_activity rows m env t [cst] = constituent_activity rows m env t cst).
Proof.
  intros. split.
  - unfold sample_activity. apply flat_map_app.
  - intro cst. unfold sample_activity. simpl. apply app_nil_r.
Qed.
