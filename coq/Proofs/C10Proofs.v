(* Proofs/C10Proofs.v — private tables are isolated: the invariant over the reachable states with two private
   tables, one-step theorems for assignments and in-place mutations, the refutations. *)
From Coq Require Import String List Bool NArith Arith.
From PT Require Import Py AttrScript LoaderScripts Attr AttrReach C09Proofs.
Import ListNotations.
Open Scope string_scope.

(* ------------------------------------------------------------------ the C10 alphabet (no assignment/mutation) *)
Definition c10_tables : list table := [Pub; P1; P2].
Definition lops10 : list lop :=
  (concat (map (fun T => concat (map (fun a => concat (map (fun n => [LGet T a n; LHas T a n]) known_names))
                                      all_atoms)) c10_tables)
   ++ concat (map (fun T => map (fun k => LInit k T) init_keys) c10_tables))%list.

(* admitted: everything (the C09 side-condition lists are empty since the repairs; an init whose
   `assert key in table.properties` fails raises BEFORE appending its key since 9478875, so it may be repeated) *)
Definition safe10 (t : pstate) (o : lop) : bool := safe09 t o.

(* has table X been initialised for the group of name n?  its properties list holds the loader's key; for a
   loader without a key (init_spectral_lines): the covered representative holds loader data *)
Definition group_key (g : N) : option N :=
  match reg_of g with
  | Some r => first_some (fun e => match e with RAppend k => Some k | _ => None end) (rscript (r_key r))
  | None => None
  end.
Definition first_name (g : N) : N :=
  match reg_of g with Some r => match r_names r with n :: _ => nid n | [] => 0%N end | None => 0%N end.
Definition inited (t : pstate) (X : table) (g : N) : bool :=
  match group_key g with
  | Some k => has_prop (p_g t) X k
  | None => match iget (p_g t) X E1 (first_name g) with Some (IRow _) => true | _ => false end
  end.

Definition expect10 (t : pstate) (o : lop) (oc : outcome) : bool :=
  match o with
  | LGet Pub a n => outcome_eqb oc OSame
  | LHas Pub a n => outcome_eqb oc (OBool (is_val (canon a n)))
  | LInit key Pub => outcome_eqb oc OOk
  | LGet X a n => if N.eqb (lgroup o) 0 then true else implb (inited t X (lgroup o)) (outcome_eqb oc OSame)
  | _ => true
  end.

Definition acts10 := acts lops10 [P1; P2].
(* explored once, when this file is compiled (plain data afterwards; `check10` is what makes it meaningful) *)
Definition R10_data : list (N * list pstate) := Eval vm_compute in
  map (fun g => (g, reach pstate pact pstate_eqb hash_p (pnext g) (allowed safe10 g) 400 (proj g init_state) (acts10 g)))
      all_groups.
Definition R10 (g : N) : list pstate :=
  match find (fun p => N.eqb (fst p) g) R10_data with Some p => snd p | None => [] end.
Definition check10 (g : N) : bool := check_group lops10 [P1; P2] safe10 expect10 R10 g.

(* ------------------------------------------------------------------ the reachable sets are closed *)
Lemma check10_all : forallb check10 all_groups = true.
Proof. vm_cast_no_check (eq_refl true). Qed.
Lemma CHK10 : forall g, In g all_groups -> check10 g = true.
Proof. intros g H. pose proof check10_all as A. rewrite forallb_forall in A. auto. Qed.
Lemma GRP10 : forallb (fun o => existsb (N.eqb (lgroup o)) all_groups) lops10 = true.
Proof. vm_compute. reflexivity. Qed.

Definition Good10 : state -> Prop := Good R10.
Definition InvG10 (g : N) (t : pstate) : Prop := InvG R10 g t.

Lemma reachable_closed10 : forall g t a, In g all_groups -> InvG10 g t -> In a (acts10 g) ->
  allowed safe10 g t a = true -> InvG10 g (pnext g t a).
Proof.
  intros g t a Hg I Ha Al. unfold InvG10, InvG.
  eapply inv_step; [apply pstate_eqb_eq | apply (CHK10 g Hg) | exact I | exact Ha | exact Al].
Qed.
Lemma reachable_init10 : forall g, In g all_groups -> InvG10 g (proj g init_state).
Proof. intros g Hg. eapply inv_init. apply (CHK10 g Hg). Qed.
Lemma reachable_counts10 :
  map (fun g => length (R10 g)) all_groups = [13; 54; 54; 40; 54; 82; 54; 54]%nat.
Proof. vm_compute. reflexivity. Qed.
Lemma inv_in_R10 : forall g t, InvG10 g t -> In t (R10 g).
Proof. intros g t H. eapply tmem_build; [apply pstate_eqb_eq|exact H]. Qed.

(* ------------------------------------------------------------------ events *)
Definition ev_in10 (e : event) : bool :=
  match e with
  | Read T a n => lop_in lops10 (LGet T a n)
  | Has T a n => lop_in lops10 (LHas T a n)
  | Init k T => lop_in lops10 (LInit k T)
  | Import _ => true
  | Calc _ T => true
  | New T => negb (table_eqb T Pub)
  | Parse _ | Pickle _ _ => true
  | SetA _ _ _ | Mut _ _ _ => false
  end.
Definition safe_ev10 (s : state) (e : event) : bool :=
  match e with
  | Init k T => safe_at safe10 s (LInit k T)
  | _ => true
  end.
(* what C10 says about one observation, in the state it is made in *)
Definition expected10 (s : state) (e : event) (oc : outcome) : bool :=
  match e with
  | Read T a n => if exists_tab s T then expect10 (proj (lgroup (LGet T a n)) s) (LGet T a n) oc else true
  | Has T a n => if exists_tab s T then expect10 (proj (lgroup (LHas T a n)) s) (LHas T a n) oc else true
  | Init k T => if exists_tab s T then expect10 (proj (lgroup (LInit k T)) s) (LInit k T) oc else true
  | Calc _ Pub => outcome_eqb oc OSame
  | Import _ => outcome_eqb oc OOk
  | _ => true
  end.

Lemma expect10_get : forall t a n oc, expect10 t (LGet Pub a n) oc = outcome_eqb oc OSame.
Proof. reflexivity. Qed.
Lemma safe10_get : forall T a n s, safe_at safe10 s (LGet T a n) = true.
Proof. reflexivity. Qed.
Lemma safe10_has : forall T a n s, safe_at safe10 s (LHas T a n) = true.
Proof. reflexivity. Qed.

Lemma In_lop_in10 : forall o, In o lops10 -> lop_in lops10 o = true.
Proof.
  intros o H. unfold lop_in. apply existsb_exists. exists o. split; auto.
  destruct o; simpl; rewrite ?table_eqb_refl, ?String.eqb_refl; try (destruct a; reflexivity); reflexivity.
Qed.
Lemma known_get10 : forall T a n, str_in n known_names = true ->
  lop_in lops10 (LGet T a n) = true /\ lop_in lops10 (LHas T a n) = true.
Proof.
  intros T a n Hn. apply str_in_In in Hn.
  assert (HT' : In T c10_tables) by (destruct T; simpl; auto).
  assert (Ha : In a all_atoms) by (destruct a; simpl; auto 12).
  assert (X : forall o, In o [LGet T a n; LHas T a n] -> In o lops10).
  { intros o Ho. unfold lops10. apply in_or_app. left.
    apply in_concat. eexists. split; [apply in_map_iff; exists T; split; [reflexivity|exact HT']|].
    apply in_concat. eexists. split; [apply in_map_iff; exists a; split; [reflexivity|exact Ha]|].
    apply in_concat. eexists. split; [apply in_map_iff; exists n; split; [reflexivity|exact Hn]|]. exact Ho. }
  split; apply In_lop_in10, X; simpl; auto.
Qed.
Lemma calc_names_known : forall c a n p, In (a, n, p) (calc_reads c) -> str_in n known_names = true.
Proof.
  intros c a n p H. destruct c; simpl in H;
    repeat (destruct H as [H|H]; [inversion H; subst; vm_compute; reflexivity|]); contradiction.
Qed.
Lemma import_names_known : forall m a n p, In (a, n, p) (import_reads m) -> str_in n known_names = true.
Proof.
  intros m a n p H. unfold import_reads in H.
  destruct (find (fun p0 => String.eqb (fst p0) m) import_calls) as [q|]; [|contradiction].
  apply in_concat in H. destruct H as [l [Hl Hin]]. apply in_map_iff in Hl. destruct Hl as [c [Hc _]].
  subst l. destruct (String.eqb c "neutron_sld"); [|destruct (String.eqb c "xray_sld")]; simpl in Hin;
    repeat (destruct Hin as [Hin|Hin]; [inversion Hin; subst; vm_compute; reflexivity|]); contradiction.
Qed.

Lemma step_good10 : forall s e, Good10 s -> ev_in10 e = true -> safe_ev10 s e = true ->
  Good10 (fst (step s e)) /\ expected10 s e (snd (step s e)) = true.
Proof.
  intros s e G I S. unfold Good10 in *.
  pose proof (apply_good lops10 [P1; P2] safe10 expect10 R10 CHK10) as AG.
  pose proof (apply_expect lops10 [P1; P2] safe10 expect10 R10 CHK10 GRP10) as AE.
  destruct e as [T a n|T a n|T a n|T a n|m|c T|k T|T|T|T a]; unfold ev_in10 in I;
    unfold step; unfold safe_ev10 in S; unfold expected10.
  3: discriminate I.
  3: discriminate I.
  - (* Read *)
    split; [apply AG; [exact G|exact I|apply safe10_get]|].
    destruct (exists_tab s T) eqn:E; [|reflexivity].
    apply (AE s (LGet T a n) G I (safe10_get T a n s) E).
  - (* Has *)
    split; [apply AG; [exact G|exact I|apply safe10_has]|].
    destruct (exists_tab s T) eqn:E; [|reflexivity].
    apply (AE s (LHas T a n) G I (safe10_has T a n s) E).
  - (* Import *)
    assert (Hr : forall a n p, In (a, n, p) (import_reads m) ->
                 lop_in lops10 (LGet Pub a n) = true /\ (forall s', safe_at safe10 s' (LGet Pub a n) = true)
                 /\ forall t oc, expect10 t (LGet Pub a n) oc = true -> oc = OSame).
    { intros a n p H. split; [apply known_get10; eapply import_names_known; exact H|].
      split; [intros; apply safe10_get|].
      intros t oc X. rewrite expect10_get in X. apply outcome_eqb_eq in X. exact X. }
    pose proof (do_reads_good lops10 [P1; P2] safe10 expect10 R10 CHK10 (import_reads m) s Pub OSame G
                  (fun a n p H => conj (proj1 (Hr a n p H)) (proj1 (proj2 (Hr a n p H))))) as G1.
    pose proof (do_reads_same lops10 [P1; P2] safe10 expect10 R10 CHK10 GRP10 (import_reads m) s Pub G
                  (exists_pub s) Hr) as O1.
    destruct (do_reads s Pub (import_reads m) OSame) as [s1 o]. cbn [fst snd] in *. subst o.
    split; [exact G1|reflexivity].
  - (* Calc *)
    assert (Hr : forall a n p, In (a, n, p) (calc_reads c) ->
                 lop_in lops10 (LGet T a n) = true /\ (forall s', safe_at safe10 s' (LGet T a n) = true)).
    { intros a n p H. split; [apply known_get10; eapply calc_names_known; exact H|intros; apply safe10_get]. }
    destruct (exists_tab s T) eqn:E.
    + split; [apply (do_reads_good lops10 [P1; P2] safe10 expect10 R10 CHK10); [exact G|exact Hr]|].
      destruct T; try reflexivity.
      rewrite (do_reads_same lops10 [P1; P2] safe10 expect10 R10 CHK10 GRP10 (calc_reads c) s Pub G E); [reflexivity|].
      intros a n p H. destruct (Hr a n p H) as [H1 H2]. split; [exact H1|]. split; [exact H2|].
      intros t oc X. rewrite expect10_get in X. apply outcome_eqb_eq in X. exact X.
    + split; [exact G|]. destruct T; [rewrite exists_pub in E; discriminate E|reflexivity|reflexivity].
  - (* Init *)
    split; [apply AG; [exact G|exact I|exact S]|].
    destruct (exists_tab s T) eqn:E; [|reflexivity].
    apply (AE s (LInit k T) G I S E).
  - (* New *)
    destruct (exists_tab s T) eqn:E; [split; [exact G|reflexivity]|].
    split; [|reflexivity].
    apply (new_good lops10 [P1; P2] safe10 expect10 R10 CHK10); [exact G| |exact E].
    destruct T; [discriminate I|left; reflexivity|right; left; reflexivity].
  - destruct (exists_tab s T); split; try exact G; reflexivity.
  - destruct (exists_tab s T); split; try exact G; reflexivity.
Qed.

Fixpoint safe_run10 (s : state) (h : list event) : Prop :=
  match h with
  | [] => True
  | e :: r => safe_ev10 s e = true /\ safe_run10 (fst (step s e)) r
  end.
(* every observation of the run meets the expectation, evaluated in the state it was made in *)
Fixpoint all_expected10 (s : state) (h : list event) : bool :=
  match h with
  | [] => true
  | e :: r => expected10 s e (snd (step s e)) && all_expected10 (fst (step s e)) r
  end.

Lemma run_good10 : forall h s, Good10 s -> forallb ev_in10 h = true -> safe_run10 s h ->
  all_expected10 s h = true.
Proof.
  induction h as [|e r IH]; intros s G I S; [reflexivity|].
  cbn [forallb] in I. apply andb_true_iff in I. destruct I as [I1 I2]. destruct S as [S1 S2].
  destruct (step_good10 s e G I1 S1) as [G1 X1].
  cbn [all_expected10]. rewrite X1. apply IH; auto.
Qed.

(* C10 over the alphabet without assignments: creation of two private tables, every init on every table,
   reads / hasattr / calculators on every table, imports - as long as no init of the C09 lists runs while its
   group is pending and no init runs whose asserted prerequisites are missing:
   every observation of the public table is canonical (public_unaffected), and every read of a private table
   that has been initialised for the group of the name is canonical (fresh_private_equals_public) *)
Theorem isolation_partial : forall h,
  forallb ev_in10 h = true -> safe_run10 init_state h -> all_expected10 init_state h = true.
Proof.
  intros h I S. apply run_good10; auto. unfold Good10.
  apply (good_init lops10 [P1; P2] safe10 expect10 R10 CHK10).
Qed.

Lemma safe_run10_always : forall h s, safe_run10 s h.
Proof.
  induction h as [|e r IH]; intros s; simpl; auto. split; [|apply IH].
  destruct e; try reflexivity. unfold safe_ev10, safe_at, safe10. apply safe09_true.
Qed.

(* C10 at full strength over the alphabet without assignments: any interleaving of the creation of two private
   tables, the nine inits on the public and both private tables in any order relative to any use of the public
   table, reads / hasattr / calculators on every table and imports: every observation of the public table is
   canonical and every read of a private table initialised for the group of the name is canonical *)
Theorem isolation : forall h, forallb ev_in10 h = true -> all_expected10 init_state h = true.
Proof. intros h I. apply isolation_partial; [exact I|apply safe_run10_always]. Qed.

(* reading the expectation: public observations; private reads *)
Lemma expected10_public_read : forall s a n oc, expected10 s (Read Pub a n) oc = outcome_eqb oc OSame.
Proof. reflexivity. Qed.
Lemma expected10_private_read : forall s X a n oc, exists_tab s X = true -> X <> Pub ->
  N.eqb (group_of_name n) 0 = false -> inited (proj (group_of_name n) s) X (group_of_name n) = true ->
  expected10 s (Read X a n) oc = outcome_eqb oc OSame.
Proof.
  intros s X a n oc E NP Hg Hi. unfold expected10. rewrite E.
  destruct X; [contradiction| |]; unfold expect10; cbn [lgroup]; rewrite Hg, Hi; reflexivity.
Qed.

(* the two named consequences, observation by observation *)
Lemma all_expected10_nth : forall h s i e, all_expected10 s h = true -> nth_error h i = Some e ->
  expected10 (exec s (firstn i h)) e (nth i (run s h) OOk) = true.
Proof.
  induction h as [|e0 r IH]; intros s i e A He; [destruct i; discriminate He|].
  cbn [all_expected10] in A. apply andb_true_iff in A. destruct A as [A1 A2].
  destruct i as [|i].
  - cbn in He. inversion He; subst e0. cbn [firstn exec run]. destruct (step s e) as [s1 o]. exact A1.
  - cbn [nth_error] in He. cbn [firstn exec run]. destruct (step s e0) as [s1 o] eqn:St. cbn [nth].
    cbn [fst] in A2. apply IH; assumption.
Qed.

Theorem public_unaffected : forall h i a n,
  forallb ev_in10 h = true ->
  nth_error h i = Some (Read Pub a n) -> nth i (run init_state h) OOk = OSame.
Proof.
  intros h i a n I He. pose proof (isolation h I) as A.
  pose proof (all_expected10_nth h init_state i _ A He) as X.
  rewrite expected10_public_read in X. apply outcome_eqb_eq in X. exact X.
Qed.

Theorem fresh_private_equals_public : forall h i X a n,
  forallb ev_in10 h = true ->
  nth_error h i = Some (Read X a n) -> X <> Pub -> N.eqb (group_of_name n) 0 = false ->
  exists_tab (exec init_state (firstn i h)) X = true ->
  inited (proj (group_of_name n) (exec init_state (firstn i h))) X (group_of_name n) = true ->
  nth i (run init_state h) OOk = OSame.
Proof.
  intros h i X a n I He NP Hg E Hi. pose proof (isolation h I) as A.
  pose proof (all_expected10_nth h init_state i _ A He) as Q.
  rewrite (expected10_private_read _ X a n _ E NP Hg Hi) in Q. apply outcome_eqb_eq in Q. exact Q.
Qed.

(* ------------------------------------------------------------------ one assignment / one in-place mutation *)
Definition setmut_atoms : list atom := [E1; E0; I11; I01; XE1].
Definition read_atoms : list atom := [E1; E0; I11; I01; XE1; XI11].
Definition names_of_group (g : N) : list string := filter (fun n => N.eqb (group_of_name n) g) known_names.
Definition setmut_names (g : N) : list string :=
  (names_of_group g ++ (if N.eqb g 0 then ["_mass"; "_density"] else []))%list.
Definition setmut_ops (g : N) : list lop :=
  concat (map (fun T => concat (map (fun a => concat (map (fun n => [LSetA T a n; LMut T a n]) (setmut_names g)))
                                    setmut_atoms)) [P1; P2]).

Definition pbase (g : N) (t : pstate) : option gstate := if N.eqb g 0 then None else Some (p_base t).

(* admitted: every assignment (the setter of a pending property loads the public table first since 706f0ce);
   a mutation of any object except the class-level default Neutron (`missing`), which is one object for every
   atom without neutron data in every table (known finding C10:neutron-default-object-shared) *)
Definition safe_setmut (g : N) (t : pstate) (o : lop) : bool :=
  match o with
  | LMut T a n => match getattr (pbase g t) FUEL T a (nid n) (p_g t) with
                  | (_, RVal _ (Some (ODefault _ _))) => false
                  | _ => true
                  end
  | _ => true
  end.

(* what every other table serves is unchanged (every name of the group, six atoms) *)
Definition served (g : N) (t : pstate) (X : table) : list outcome :=
  concat (map (fun a => map (fun n => pout t (LGet X a n)) (names_of_group g)) read_atoms).
Definition served_all (g : N) (t : pstate) : list (table * list outcome) := map (fun X => (X, served g t X)) c10_tables.
Definition unchanged_from (g : N) (before : list (table * list outcome)) (t' : pstate) (T : table) : bool :=
  forallb (fun p => if table_eqb (fst p) T then true else list_eqb outcome_eqb (snd p) (served g t' (fst p))) before.
Definition others_unchanged (g : N) (t : pstate) (o : lop) : bool :=
  unchanged_from g (served_all g t) (plop g t o) (ltable o).
(* and the instance dictionaries of every other private table are literally unchanged *)
Definition key_table (k : N) : N := N.div k 16000.
Definition im_of (T : table) (x : gstate) : list (N * ival) := filter (fun p => N.eqb (key_table (fst p)) (tcode T)) (im x).
Definition dicts_unchanged (g : N) (t : pstate) (o : lop) : bool :=
  let t' := plop g t o in
  forallb (fun X => if table_eqb X (ltable o) || table_eqb X Pub then true
                    else list_eqb (pairN_eqb ival_eqb) (im_of X (p_g t)) (im_of X (p_g t'))) c10_tables.

Definition setmut_check (g : N) : bool :=
  forallb (fun t => let before := served_all g t in
                    forallb (fun o => implb (ptab_exists t (ltable o) && safe_setmut g t o)
                                            (unchanged_from g before (plop g t o) (ltable o) && dicts_unchanged g t o))
                            (setmut_ops g))
          (R10 g).
Lemma setmut_check_all : forallb setmut_check all_groups = true.
Proof. vm_cast_no_check (eq_refl true). Qed.

(* in every reachable state, an admitted assignment or mutation on a private table T leaves what every other
   table serves unchanged *)
Theorem setmut_confined : forall g t o, In g all_groups -> InvG10 g t -> In o (setmut_ops g) ->
  ptab_exists t (ltable o) = true -> safe_setmut g t o = true ->
  others_unchanged g t o = true /\ dicts_unchanged g t o = true.
Proof.
  intros g t o Hg I Ho E S. pose proof setmut_check_all as A. rewrite forallb_forall in A.
  specialize (A g Hg). unfold setmut_check in A. rewrite forallb_forall in A.
  specialize (A t (inv_in_R10 g t I)). rewrite forallb_forall in A. specialize (A o Ho).
  rewrite E, S in A. simpl in A. apply andb_true_iff in A. exact A.
Qed.
(* spelled out: for every other table X, the outcomes of reading every name of the group through the six
   atoms are the same lists before and after *)
Lemma others_unchanged_spec : forall g t o, others_unchanged g t o = true ->
  forall X, X <> ltable o -> served g (plop g t o) X = served g t X.
Proof.
  intros g t o H X NE. unfold others_unchanged, unchanged_from, served_all in H. rewrite forallb_forall in H.
  assert (HX : In (X, served g t X) (map (fun X0 => (X0, served g t X0)) c10_tables)).
  { apply in_map_iff. exists X. split; [reflexivity|destruct X; simpl; auto]. }
  specialize (H _ HX). cbn [fst snd] in H.
  assert (table_eqb X (ltable o) = false) as Eb.
  { destruct (table_eqb X (ltable o)) eqn:Q; [apply table_eqb_eq in Q; contradiction|reflexivity]. }
  rewrite Eb in H. symmetry. apply (list_eqb_eq outcome_eqb outcome_eqb_eq). exact H.
Qed.

(* every init, read and probe on a table T leaves the instance dictionaries of the other private table unchanged *)
Definition writes_check (g : N) : bool :=
  forallb (fun t => forallb (fun o => implb (N.eqb (lgroup o) g && ptab_exists t (ltable o)) (dicts_unchanged g t o)) lops10)
          (R10 g).
Lemma writes_check_all : forallb writes_check all_groups = true.
Proof. vm_cast_no_check (eq_refl true). Qed.
Theorem writes_confined : forall g t o, In g all_groups -> InvG10 g t -> In o lops10 -> lgroup o = g ->
  ptab_exists t (ltable o) = true -> dicts_unchanged g t o = true.
Proof.
  intros g t o Hg I Ho Eg E. pose proof writes_check_all as A. rewrite forallb_forall in A.
  specialize (A g Hg). unfold writes_check in A. rewrite forallb_forall in A.
  specialize (A t (inv_in_R10 g t I)). rewrite forallb_forall in A. specialize (A o Ho).
  rewrite Eg, N.eqb_refl, E in A. exact A.
Qed.

(* mutable objects: the object a table serves for (atom, name) and everything hanging below it (magnetic_ff
   entries, activation records, the sftable array of an Xray object).  Two different tables have one of these in
   common only when the served object is the class-level default of `neutron` (no module-level object is
   stored in, or below the data of, an atom since f23caea) *)
Definition served_obj (g : N) (t : pstate) (X : table) (a : atom) (n : string) : option obj :=
  match getattr (pbase g t) FUEL X a (nid n) (p_g t) with (_, RVal _ o) => o | _ => None end.
Definition served_objs (g : N) (t : pstate) (X : table) (a : atom) (n : string) : list obj :=
  match served_obj g t X a n with Some o => o :: subs o | None => [] end.
Definition obj_eqb (o p : obj) : bool := N.eqb (ocode o) (ocode p).
Definition is_shared (o : obj) : bool := match o with ODefault _ _ => true | _ => false end.
Definition serves_default (g : N) (t : pstate) (X : table) (a : atom) (n : string) : bool :=
  match served_obj g t X a n with Some o => is_shared o | None => false end.
Definition disjoint_check (g : N) : bool :=
  forallb (fun t =>
    forallb (fun a => forallb (fun n =>
      forallb (fun X => forallb (fun Y =>
        if table_eqb X Y then true else
        forallb (fun o => forallb (fun p =>
          implb (obj_eqb o p) (serves_default g t X a n && str_in n ["neutron"]))
          (served_objs g t Y a n)) (served_objs g t X a n)) c10_tables) c10_tables) (names_of_group g)) read_atoms) (R10 g).
Lemma disjoint_check_all : forallb disjoint_check all_groups = true.
Proof. vm_cast_no_check (eq_refl true). Qed.
Theorem mutable_disjoint_partial : forall g t X Y a n o p, In g all_groups -> InvG10 g t ->
  In a read_atoms -> In n (names_of_group g) -> X <> Y ->
  In o (served_objs g t X a n) -> In p (served_objs g t Y a n) -> obj_eqb o p = true ->
  serves_default g t X a n = true /\ n = "neutron".
Proof.
  intros g t X Y a n o p Hg I Ha Hn NE SX SY EQ.
  pose proof disjoint_check_all as A. rewrite forallb_forall in A. specialize (A g Hg).
  unfold disjoint_check in A. rewrite forallb_forall in A. specialize (A t (inv_in_R10 g t I)).
  rewrite forallb_forall in A. specialize (A a Ha). rewrite forallb_forall in A. specialize (A n Hn).
  rewrite forallb_forall in A. specialize (A X). rewrite forallb_forall in A.
  assert (HX : In X c10_tables) by (destruct X; simpl; auto).
  assert (HY : In Y c10_tables) by (destruct Y; simpl; auto).
  specialize (A HX Y HY).
  assert (table_eqb X Y = false) as NEb by (destruct X, Y; try reflexivity; contradiction).
  rewrite NEb in A. rewrite forallb_forall in A. specialize (A o SX). rewrite forallb_forall in A.
  specialize (A p SY). rewrite EQ in A.
  rewrite Bool.implb_true_l in A.
  apply andb_true_iff in A. destruct A as [A1 A2].
  split; [exact A1|]. apply str_in_In in A2. destruct A2 as [A2|[]]. symmetry. exact A2.
Qed.
(* the array of Xray.sftable and the entries of magnetic_ff / neutron_activation are among the tracked objects *)
Lemma tracked_subobjects :
  subs (OCache P1 E1 (nid "xray")) = [OSub P1 E1 (nid "xray")]
  /\ subs (OInst P1 E1 (nid "magnetic_ff")) = [OSub P1 E1 (nid "magnetic_ff")]
  /\ subs (OInst P1 I11 (nid "neutron_activation")) = [OSub P1 I11 (nid "neutron_activation")].
Proof. repeat split; vm_compute; reflexivity. Qed.

(* ------------------------------------------------------------------ what is left of the refutations *)
Definition priv (T : table) (h : list event) : list event := (New T :: Init "density.init" T :: h)%list.

(* mutable_disjoint at full strength is still false for one object: the class-level `missing` Neutron serves
   every atom without neutron data, in every table (known finding C10:neutron-default-object-shared) *)
Theorem mutable_disjoint_refuted :
  run init_state (Read Pub E1 "neutron" :: priv P1 [Init "nsf.init" P1; Mut P1 E0 "neutron";
                                                    Read Pub E0 "neutron"; Read Pub E1 "neutron"])
  = [OSame; OOk; OOk; OOk; OOk; ODiff; OSame].
Proof. vm_compute. reflexivity. Qed.

(* the histories that broke isolation before the repairs (witnesses of the former `_refuted` theorems) *)
Theorem former_witnesses_isolated :
  run init_state (priv P2 [Init "nsf.init" P2; Read Pub E1 "neutron"]) = [OOk; OOk; OOk; OSame]
  /\ run init_state (priv P2 [Init "covalent_radius.init" P2; Read Pub E1 "covalent_radius"]) = [OOk; OOk; OOk; OSame]
  /\ run init_state (priv P2 [Init "crystal_structure.init" P2; Read Pub E1 "crystal_structure"]) = [OOk; OOk; OOk; OSame]
  /\ run init_state (priv P2 [Init "xsf.init_spectral_lines" P2; Read Pub E1 "K_alpha"]) = [OOk; OOk; OOk; OSame]
  /\ run init_state [New P1; SetA P1 E1 "neutron"; Read Pub E1 "neutron"; Read Pub E0 "neutron"; Read P1 E1 "neutron"]
     = [OOk; OOk; OSame; OSame; OUser]
  /\ run init_state [Read Pub E1 "crystal_structure"; New P1; Init "crystal_structure.init" P1;
                     Mut P1 E1 "crystal_structure"; Read Pub E1 "crystal_structure"; Read P1 E1 "crystal_structure"]
     = [OSame; OOk; OOk; OOk; OSame; OUser]
  /\ run init_state [New P1; Init "xsf.init_spectral_lines" P1; Read P1 E1 "K_alpha"; Read P1 E1 "K_alpha_units"]
     = [OOk; OOk; OSame; OSame]
  /\ run init_state [Read Pub E1 "neutron"; New P1; Init "nsf.init" P1; Init "density.init" P1; Init "nsf.init" P1;
                     Read P1 E1 "neutron"]
     = [OSame; OOk; OErr AssertErr; OOk; OOk; OSame].
Proof. repeat split; vm_compute; reflexivity. Qed.

(* an in-place mutation of T's Xray data (the object and its sftable array) stays in T, and in that atom *)
Theorem xray_mutation_confined :
  run init_state [Read Pub E1 "xray"; New P1; Init "xsf.init" P1; New P2; Mut P1 E1 "xray"; Read Pub E1 "xray";
                  Read Pub XE1 "xray"; Read P2 E1 "xray"; Read P1 E1 "xray"; Read P1 I11 "xray"; Read P1 XE1 "xray"]
  = [OSame; OOk; OOk; OOk; OOk; OSame; OSame; OSame; OUser; OUser; OSame].
Proof. vm_compute. reflexivity. Qed.
