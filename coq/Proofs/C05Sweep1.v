(* Proofs/C05Sweep1.v — part 1 of the kernel-evaluated sweep over the regenerated .nff tables. *)
From Coq Require Import String List.
From PT Require Import Xsf C05SweepDefs.
From PT.Gen Require Import NffIndex.
Lemma chunk1_ok : chunk_ok nff_files_1 = true.
Proof. vm_compute. reflexivity. Qed.
