(* Proofs/C01Consume.v — facts about the parser model on ARBITRARY strings: every parser consumes a
   prefix of its input (the rest is never longer than the input), the consumed prefix has balanced
   parentheses (so no string with unbalanced parentheses is accepted), and results do not depend on
   fuel beyond the length of the string. *)
From Coq Require Import ZArith QArith String Ascii List Bool Lia.
From PT Require Import Str Dec Py Loaders Formula Pyparse Grammar C01Lex C01Wf C01Accept.
Import ListNotations.
Open Scope string_scope.

(* ---------------------------------------------------------------- balanced prefixes *)
Definition np (c : ascii) : bool := negb (Ascii.eqb c "(" || Ascii.eqb c ")").
Definition nopar (s : string) : bool := all_chars np s.

(* depth after reading s from depth n; None when a ')' has no partner *)
Fixpoint bal (n : nat) (s : string) : option nat :=
  match s with
  | EmptyString => Some n
  | String c r =>
      if Ascii.eqb c "(" then bal (S n) r
      else if Ascii.eqb c ")" then match n with O => None | S m => bal m r end
      else bal n r
  end.
Definition balanced (s : string) : Prop := forall n, bal n s = Some n.

Lemma bal_app : forall a n b, bal n (a ++ b) = match bal n a with Some m => bal m b | None => None end.
Proof.
  induction a as [|c a IH]; intros n b; [reflexivity|]. simpl.
  destruct (Ascii.eqb c "("); [apply IH|]. destruct (Ascii.eqb c ")"); [|apply IH].
  destruct n; [reflexivity|apply IH].
Qed.

Lemma nopar_balanced : forall s, nopar s = true -> balanced s.
Proof.
  induction s as [|c s IH]; intros H n; [reflexivity|]. simpl in H. apply andb_prop in H. destruct H as [Hc Hs].
  unfold np in Hc. apply negb_true in Hc. apply orb_false_elim in Hc. destruct Hc as [H1 H2].
  simpl. rewrite H1, H2. apply IH. exact Hs.
Qed.

Lemma balanced_nil : balanced "".
Proof. intro n. reflexivity. Qed.

Lemma balanced_app : forall a b, balanced a -> balanced b -> balanced (a ++ b).
Proof. intros a b Ha Hb n. rewrite bal_app, Ha. apply Hb. Qed.

Lemma balanced_paren : forall a, balanced a -> balanced (String "(" (a ++ String ")" "")).
Proof. intros a Ha n. simpl. rewrite bal_app, Ha. reflexivity. Qed.

(* s = pre ++ r with pre balanced *)
Definition bc (s r : string) : Prop := exists pre, s = pre ++ r /\ balanced pre.
Definition bc1 (s r : string) : Prop := exists pre, s = pre ++ r /\ balanced pre /\ pre <> "".

Lemma bc_refl : forall s, bc s s.
Proof. intro s. exists "". split; [reflexivity|apply balanced_nil]. Qed.

Lemma bc1_bc : forall s r, bc1 s r -> bc s r.
Proof. intros s r (pre & E & B & _). exists pre. auto. Qed.

Lemma app_not_nil_l : forall a b, a <> "" -> a ++ b <> "".
Proof. intros [|c a] b H; [congruence|discriminate]. Qed.
Lemma app_not_nil_r : forall a b, b <> "" -> a ++ b <> "".
Proof. intros [|c a] b H; [exact H|discriminate]. Qed.

Lemma bc_trans : forall a b c, bc a b -> bc b c -> bc a c.
Proof.
  intros a b c (p & -> & Bp) (q & -> & Bq). exists (p ++ q). split; [rewrite sapp_assoc; reflexivity|].
  apply balanced_app; assumption.
Qed.
Lemma bc1_trans_l : forall a b c, bc1 a b -> bc b c -> bc1 a c.
Proof.
  intros a b c (p & -> & Bp & Np) (q & -> & Bq). exists (p ++ q). split; [rewrite sapp_assoc; reflexivity|].
  split; [apply balanced_app; assumption|apply app_not_nil_l; exact Np].
Qed.
Lemma bc1_trans_r : forall a b c, bc a b -> bc1 b c -> bc1 a c.
Proof.
  intros a b c (p & -> & Bp) (q & -> & Bq & Nq). exists (p ++ q). split; [rewrite sapp_assoc; reflexivity|].
  split; [apply balanced_app; assumption|apply app_not_nil_r; exact Nq].
Qed.

Lemma bc_len : forall s r, bc s r -> (String.length r <= String.length s)%nat.
Proof. intros s r (p & -> & _). rewrite slen_app. lia. Qed.
Lemma bc1_len : forall s r, bc1 s r -> (String.length r < String.length s)%nat.
Proof. intros s r (p & -> & _ & N). rewrite slen_app. destruct p; [congruence|simpl; lia]. Qed.

Lemma bc_np : forall pre r, nopar pre = true -> bc (pre ++ r) r.
Proof. intros pre r H. exists pre. split; [reflexivity|apply nopar_balanced; exact H]. Qed.
Lemma bc1_char : forall c r, np c = true -> bc1 (String c r) r.
Proof.
  intros c r H. exists (String c ""). split; [reflexivity|]. split; [|discriminate].
  apply nopar_balanced. unfold nopar. cbn [all_chars]. rewrite H. reflexivity.
Qed.

Lemma pws_np : forall c, is_pws c = true -> np c = true. Proof. char_fact. Qed.
Lemma digit_np : forall c, is_digit c = true -> np c = true. Proof. char_fact. Qed.
Lemma upper_np : forall c, is_upper c = true -> np c = true. Proof. char_fact. Qed.
Lemma lower_np : forall c, is_lower c = true -> np c = true. Proof. char_fact. Qed.
Lemma dot_np : forall c, is_dot c = true -> np c = true. Proof. char_fact. Qed.

(* ---------------------------------------------------------------- tokens *)
Lemma skip_ws_split : forall s, exists pre, s = pre ++ skip_ws s /\ all_chars is_pws pre = true.
Proof.
  induction s as [|c s (pre & E & H)]; [exists ""; split; reflexivity|]. simpl.
  destruct (is_pws c) eqn:Ec.
  - exists (String c pre). split; [simpl; rewrite <- E; reflexivity|simpl; rewrite Ec, H; reflexivity].
  - exists "". split; reflexivity.
Qed.

Lemma skip_ws_bc : forall s, bc s (skip_ws s).
Proof.
  intro s. destruct (skip_ws_split s) as (pre & E & H). rewrite E at 1. apply bc_np.
  exact (all_chars_impl _ _ pws_np _ H).
Qed.

Lemma lit_split : forall c s u r, lit c s = POk u r ->
  exists pre, s = pre ++ String c r /\ all_chars is_pws pre = true.
Proof.
  intros c s u r H. unfold lit in H. destruct (skip_ws_split s) as (pre & E & Hp).
  destruct (skip_ws s) as [|d x]; [discriminate|]. destruct (Ascii.eqb c d) eqn:Ec; [|discriminate].
  apply Ascii.eqb_eq in Ec. subst d. inversion H; subst. exists pre. auto.
Qed.

Lemma lit_len : forall c s u r, lit c s = POk u r -> (String.length r < String.length s)%nat.
Proof.
  intros c s u r H. destruct (lit_split c s u r H) as (pre & -> & _). rewrite slen_app. simpl. lia.
Qed.

Lemma lit_bc1 : forall c s u r, np c = true -> lit c s = POk u r -> bc1 s r.
Proof.
  intros c s u r Hc H. destruct (lit_split c s u r H) as (pre & -> & Hp).
  apply bc1_trans_r with (String c r); [|apply bc1_char; exact Hc].
  apply bc_np. exact (all_chars_impl _ _ pws_np _ Hp).
Qed.

Lemma span_digits_bc : forall s d r, span_digits s = (d, r) -> bc s r.
Proof.
  intros s d r H. apply span_digits_spec in H. destruct H as (-> & Hd & _). apply bc_np.
  exact (all_chars_impl _ _ digit_np _ Hd).
Qed.

Lemma pbind_ok : forall A B (x : pres A) (f : A -> string -> pres B) v r,
  pbind x f = POk v r -> exists a r1, x = POk a r1 /\ f a r1 = POk v r.
Proof. intros A B [a r1| |e] f v r H; simpl in H; try discriminate. exists a, r1. auto. Qed.

Lemma re_whole_bc1 : forall s t r, re_whole s = POk t r -> bc1 s r.
Proof.
  intros s t r H. unfold re_whole in H. pose proof (skip_ws_bc s) as B.
  destruct (skip_ws s) as [|c x]; [discriminate|].
  destruct (is_digit c && negb (Ascii.eqb c "0"))%bool eqn:Ec; [|discriminate].
  destruct (span_digits x) as [d t'] eqn:Es. inversion H; subst.
  apply bc1_trans_r with (String c x); [exact B|]. apply bc1_trans_l with x.
  - apply bc1_char. apply digit_np. apply andb_prop in Ec. tauto.
  - exact (span_digits_bc _ _ _ Es).
Qed.

Lemma re_fract_bc1 : forall s t r, re_fract s = POk t r -> bc1 s r.
Proof.
  intros s t r H. rewrite re_fract_eq in H. unfold re_fract' in H. cbv zeta in H.
  pose proof (skip_ws_bc s) as B. set (s0 := skip_ws s) in *.
  assert (B0 : forall ip t0,
             match s0 with
             | String c r => if Ascii.eqb c "0" then ("0", r) else if is_digit c then span_digits s0 else ("", s0)
             | EmptyString => ("", s0)
             end = (ip, t0) -> bc s0 t0).
  { intros ip t0 E. destruct s0 as [|c x]; [inversion E; apply bc_refl|].
    destruct (Ascii.eqb c "0") eqn:E0.
    - inversion E; subst. apply Ascii.eqb_eq in E0. subst c. apply bc1_bc, bc1_char. reflexivity.
    - destruct (is_digit c); [exact (span_digits_bc _ _ _ E)|inversion E; apply bc_refl]. }
  destruct (match s0 with
            | String c r => if Ascii.eqb c "0" then ("0", r) else if is_digit c then span_digits s0 else ("", s0)
            | EmptyString => ("", s0)
            end) as [ip t0] eqn:E.
  specialize (B0 ip t0 eq_refl). destruct t0 as [|c x]; [discriminate|].
  destruct (is_dot c) eqn:Ed; [|discriminate]. destruct (span_digits x) as [d t'] eqn:Es.
  inversion H; subst.
  apply bc1_trans_r with s0; [exact B|]. apply bc1_trans_r with (String c x); [exact B0|].
  apply bc1_trans_l with x; [apply bc1_char, dot_np; exact Ed|exact (span_digits_bc _ _ _ Es)].
Qed.

Lemma p_number_bc1 : forall s q r, p_number s = POk q r -> bc1 s r.
Proof.
  intros s q r H. unfold p_number in H. destruct (not_white s); [|discriminate].
  destruct (re_fract s) as [txt r0| |e] eqn:Ef.
  - destruct (str_to_Q txt); [|discriminate]. inversion H; subst. exact (re_fract_bc1 _ _ _ Ef).
  - destruct (re_whole s) as [txt r0| |e] eqn:Ew; try discriminate.
    destruct (str_to_Q txt); [|discriminate]. inversion H; subst. exact (re_whole_bc1 _ _ _ Ew).
  - discriminate.
Qed.

Lemma p_count_bc : forall s q r, p_count s = POk q r -> bc s r.
Proof.
  intros s q r H. unfold p_count in H. destruct (p_number s) as [q0 r0| |e] eqn:E.
  - inversion H; subst. exact (bc1_bc _ _ (p_number_bc1 _ _ _ E)).
  - inversion H; subst. apply bc_refl.
  - discriminate.
Qed.

Lemma p_symbol_bc1 : forall T s za r, p_symbol T s = POk za r -> bc1 s r.
Proof.
  intros T s za r H. unfold p_symbol in H. pose proof (skip_ws_bc s) as B.
  destruct (skip_ws s) as [|c x]; [discriminate|]. destruct (is_upper c) eqn:U; [|discriminate].
  apply bc1_trans_r with (String c x); [exact B|]. pose proof (bc1_char c x (upper_np c U)) as B1.
  destruct x as [|d x'].
  - destruct (t_symbol T (String c "")); [|discriminate]. inversion H; subst. exact B1.
  - destruct (is_lower d) eqn:L.
    + destruct (t_symbol T (String c (String d ""))); [|discriminate]. inversion H; subst.
      apply bc1_trans_l with (String d r); [exact B1|]. apply bc1_bc, bc1_char, lower_np. exact L.
    + destruct (t_symbol T (String c "")); [|discriminate]. inversion H; subst. exact B1.
Qed.

Lemma p_isotope_bc : forall s z r, p_isotope s = POk z r -> bc s r.
Proof.
  intros s z r H. unfold p_isotope in H. destruct (not_white s); [|inversion H; apply bc_refl].
  match type of H with (match ?X with _ => _ end) = _ => destruct X as [d r0| |e] eqn:E end.
  - destruct (parse_int d); [|discriminate]. inversion H; subst.
    apply pbind_ok in E. destruct E as (u1 & r1 & E1 & E). apply pbind_ok in E. destruct E as (d' & r2 & E2 & E).
    apply pbind_ok in E. destruct E as (u3 & r3 & E3 & E). inversion E; subst.
    apply bc_trans with r1; [exact (bc1_bc _ _ (lit_bc1 "[" _ _ _ eq_refl E1))|].
    apply bc_trans with r2; [exact (bc1_bc _ _ (re_whole_bc1 _ _ _ E2))|].
    exact (bc1_bc _ _ (lit_bc1 "]" _ _ _ eq_refl E3)).
  - inversion H; subst. apply bc_refl.
  - discriminate.
Qed.

Lemma re_ion_bc : forall s dn r, re_ion s = POk dn r -> bc s r.
Proof.
  intros s dn r H. unfold re_ion in H. cbv zeta in H. pose proof (skip_ws_bc s) as B. set (s0 := skip_ws s) in *.
  assert (B0 : forall d t0,
             match s0 with
             | String c _ => if (is_digit c && negb (Ascii.eqb c "0"))%bool then span_digits s0 else ("", s0)
             | EmptyString => ("", s0)
             end = (d, t0) -> bc s0 t0).
  { intros d t0 E. destruct s0 as [|c x]; [inversion E; apply bc_refl|].
    destruct (is_digit c && negb (Ascii.eqb c "0"))%bool; [exact (span_digits_bc _ _ _ E)|inversion E; apply bc_refl]. }
  destruct (match s0 with
            | String c _ => if (is_digit c && negb (Ascii.eqb c "0"))%bool then span_digits s0 else ("", s0)
            | EmptyString => ("", s0)
            end) as [d t0] eqn:E.
  specialize (B0 d t0 eq_refl). apply bc_trans with s0; [exact B|]. apply bc_trans with t0; [exact B0|].
  destruct t0 as [|c x]; [discriminate|].
  destruct (Ascii.eqb c "+") eqn:Ep.
  - apply Ascii.eqb_eq in Ep. subst c. inversion H; subst. apply bc1_bc, bc1_char. reflexivity.
  - destruct (Ascii.eqb c "-") eqn:Em.
    + apply Ascii.eqb_eq in Em. subst c. inversion H; subst. apply bc1_bc, bc1_char. reflexivity.
    + exfalso. revert H Ep Em. clear. destruct c as [[] [] [] [] [] [] [] []]; intros H Ep Em;
        try discriminate H; vm_compute in Ep; vm_compute in Em; discriminate.
Qed.

Lemma p_ion_bc : forall s z r, p_ion s = POk z r -> bc s r.
Proof.
  intros s z r H. unfold p_ion in H. destruct (not_white s); [|inversion H; apply bc_refl].
  match type of H with (match ?X with _ => _ end) = _ => destruct X as [[d neg] r0| |e] eqn:E end.
  - destruct (if String.eqb d "" then Some 1%Z else parse_int d); [|discriminate]. inversion H; subst.
    apply pbind_ok in E. destruct E as (u1 & r1 & E1 & E). apply pbind_ok in E. destruct E as (d' & r2 & E2 & E).
    apply pbind_ok in E. destruct E as (u3 & r3 & E3 & E). inversion E; subst.
    apply bc_trans with r1; [exact (bc1_bc _ _ (lit_bc1 "{" _ _ _ eq_refl E1))|].
    apply bc_trans with r2; [exact (re_ion_bc _ _ _ E2)|].
    exact (bc1_bc _ _ (lit_bc1 "}" _ _ _ eq_refl E3)).
  - inversion H; subst. apply bc_refl.
  - discriminate.
Qed.

Lemma elem_post_rest : forall T za iso ion cnt r4 e r, elem_post T za iso ion cnt r4 = POk e r -> r = r4.
Proof.
  intros T [z a0] iso ion cnt r4 e r H. unfold elem_post in H.
  destruct (if Z.eqb iso 0 then Some a0 else if negb (Z.eqb a0 0) then None else if t_has_iso T z iso then Some iso else None);
    [|discriminate].
  destruct (Z.eqb ion 0); [inversion H; reflexivity|].
  destruct (t_has_ion T z ion); [inversion H; reflexivity|discriminate].
Qed.

Lemma p_element_bc1 : forall T s e r, p_element T s = POk e r -> bc1 s r.
Proof.
  intros T s e r H. rewrite p_element_eq in H.
  apply pbind_ok in H. destruct H as (za & r1 & E1 & H). apply pbind_ok in H. destruct H as (iso & r2 & E2 & H).
  apply pbind_ok in H. destruct H as (ion & r3 & E3 & H). apply pbind_ok in H. destruct H as (cnt & r4 & E4 & H).
  apply elem_post_rest in H. subst r4.
  apply bc1_trans_l with r1; [exact (p_symbol_bc1 _ _ _ _ E1)|].
  apply bc_trans with r2; [exact (p_isotope_bc _ _ _ E2)|].
  apply bc_trans with r3; [exact (p_ion_bc _ _ _ E3)|exact (p_count_bc _ _ _ E4)].
Qed.

Lemma p_more_elements_bc : forall T f s es r, p_more_elements T f s = POk es r -> bc s r.
Proof.
  intros T. induction f as [|f IH]; intros s es r H; simpl in H; [inversion H; apply bc_refl|].
  destruct (not_white s); [|inversion H; apply bc_refl].
  destruct (p_element T s) as [e r0| |x] eqn:Ee; [|inversion H; apply bc_refl|discriminate].
  pose proof (bc1_bc _ _ (p_element_bc1 _ _ _ _ Ee)) as B.
  destruct (p_more_elements T f r0) as [es' r'| |x] eqn:Em; [| |discriminate].
  - inversion H; subst. apply bc_trans with r0; [exact B|exact (IH _ _ _ Em)].
  - inversion H; subst. exact B.
Qed.

Lemma p_elements_bc1 : forall T f s es r, p_elements T f s = POk es r -> bc1 s r.
Proof.
  intros T f s es r H. unfold p_elements in H.
  apply pbind_ok in H. destruct H as (e & r1 & E1 & H). apply pbind_ok in H. destruct H as (es' & r2 & E2 & H).
  inversion H; subst. apply bc1_trans_l with r1; [exact (p_element_bc1 _ _ _ _ E1)|exact (p_more_elements_bc _ _ _ _ _ E2)].
Qed.

Lemma p_implicit_bc1 : forall T s g r, p_implicit T s = POk g r -> bc1 s r.
Proof.
  intros T s g r H. unfold p_implicit in H.
  apply pbind_ok in H. destruct H as (c & r1 & E1 & H). apply pbind_ok in H. destruct H as (es & r2 & E2 & H).
  inversion H; subst. apply bc1_trans_r with r1; [exact (p_count_bc _ _ _ E1)|exact (p_elements_bc1 _ _ _ _ _ E2)].
Qed.

Lemma p_sep_bc : forall r, bc r (p_sep r).
Proof.
  intro r. unfold p_sep. destruct (lit "+" r) as [u r1| |e] eqn:E; try apply skip_ws_bc.
  apply bc_trans with r1; [exact (bc1_bc _ _ (lit_bc1 "+" _ _ _ eq_refl E))|apply skip_ws_bc].
Qed.

(* ---------------------------------------------------------------- groups and composites *)
Lemma bc_paren : forall s pre r1 r3, s = pre ++ String "(" r1 -> balanced pre -> bc r1 (String ")" r3) -> bc1 s r3.
Proof.
  intros s pre r1 r3 -> Bp (m & -> & Bm). exists (pre ++ String "(" (m ++ String ")" "")). split.
  - rewrite sapp_assoc. simpl. rewrite sapp_assoc. reflexivity.
  - split; [|apply app_not_nil_r; discriminate]. apply balanced_app; [exact Bp|apply balanced_paren; exact Bm].
Qed.

Lemma pgroup_bc1 : forall T pc s g r,
  (forall x st r', pc x = POk st r' -> bc x r') -> pgroup T pc s = POk g r -> bc1 s r.
Proof.
  intros T pc s g r Hpc H. unfold pgroup in H. destruct (p_implicit T s) as [g0 r0| |x] eqn:Ei.
  - inversion H; subst. exact (p_implicit_bc1 _ _ _ _ Ei).
  - apply pbind_ok in H. destruct H as (u1 & r1 & E1 & H). apply pbind_ok in H. destruct H as (inner & r2 & E2 & H).
    apply pbind_ok in H. destruct H as (u3 & r3 & E3 & H). apply pbind_ok in H. destruct H as (c & r4 & E4 & H).
    inversion H; subst.
    destruct (lit_split _ _ _ _ E1) as (pre & Es & Hp).
    destruct (lit_split _ _ _ _ E3) as (pre3 & Es3 & Hp3).
    apply bc1_trans_l with r3; [|exact (p_count_bc _ _ _ E4)].
    apply (bc_paren s pre r1 r3 Es); [apply nopar_balanced; exact (all_chars_impl _ _ pws_np _ Hp)|].
    apply bc_trans with (skip_ws r1); [apply skip_ws_bc|]. apply bc_trans with r2; [exact (Hpc _ _ _ E2)|].
    rewrite Es3. apply bc_np. exact (all_chars_impl _ _ pws_np _ Hp3).
  - discriminate.
Qed.

Lemma more_bc : forall pg, (forall x g r, pg x = POk g r -> bc x r) ->
  forall k acc r st r', more pg k acc r = POk st r' -> bc r r'.
Proof.
  intros pg Hpg. induction k as [|k IH]; intros acc r st r' H.
  - rewrite more_0 in H. inversion H; subst. apply bc_refl.
  - rewrite more_S in H. destruct (pg (p_sep r)) as [g' r1| |x] eqn:E.
    + apply bc_trans with (p_sep r); [apply p_sep_bc|]. apply bc_trans with r1; [exact (Hpg _ _ _ E)|exact (IH _ _ _ _ H)].
    + inversion H; subst. apply bc_refl.
    + discriminate.
Qed.

Theorem p_composite_bc1 : forall T f s st r, p_composite T f s = POk st r -> bc1 s r.
Proof.
  intros T. induction f as [|f IH]; intros s st r H; [discriminate|].
  rewrite p_composite_S in H. apply pbind_ok in H. destruct H as (g & r1 & E1 & H).
  assert (Hpc : forall x st' r', p_composite T f x = POk st' r' -> bc x r').
  { intros x st' r' E. exact (bc1_bc _ _ (IH _ _ _ E)). }
  apply bc1_trans_l with r1; [exact (pgroup_bc1 _ _ _ _ _ Hpc E1)|].
  apply (more_bc (pgroup T (p_composite T f))) in H; [exact H|].
  intros x g' r' E. exact (bc1_bc _ _ (pgroup_bc1 _ _ _ _ _ Hpc E)).
Qed.

Lemma match_ni : forall (X : string) (A B : string -> pres dkind) (C : pres dkind) d r,
  match X with
  | String "n"%char r3 => A r3
  | String "i"%char r3 => B r3
  | _ => C
  end = POk d r ->
  (exists r3, X = String "n" r3 /\ A r3 = POk d r) \/ (exists r3, X = String "i" r3 /\ B r3 = POk d r) \/ C = POk d r.
Proof.
  intros X A B C d r H. destruct X as [|c x]; [right; right; exact H|].
  destruct c as [[] [] [] [] [] [] [] []];
    first [ right; right; exact H | left; eexists; split; [reflexivity|exact H]
          | right; left; eexists; split; [reflexivity|exact H] ].
Qed.

Lemma p_density_bc : forall s d r, p_density s = POk d r -> bc s r.
Proof.
  intros s d r H. unfold p_density in H. destruct (lit "@" s) as [u r1| |e] eqn:E1; [|inversion H; apply bc_refl|discriminate].
  destruct (p_number r1) as [c r2| |e] eqn:E2; [|inversion H; apply bc_refl|discriminate].
  pose proof (bc_trans _ _ _ (bc1_bc _ _ (lit_bc1 "@" _ _ _ eq_refl E1)) (bc1_bc _ _ (p_number_bc1 _ _ _ E2))) as B.
  apply match_ni in H. destruct H as [(r3 & E & H)|[(r3 & E & H)|H]]; inversion H; subst; try exact B.
  - apply bc_trans with r2; [exact B|]. apply bc_trans with (skip_ws r2); [apply skip_ws_bc|]. rewrite E.
    apply bc1_bc, bc1_char. reflexivity.
  - apply bc_trans with r2; [exact B|]. apply bc_trans with (skip_ws r2); [apply skip_ws_bc|]. rewrite E.
    apply bc1_bc, bc1_char. reflexivity.
Qed.

Theorem p_compound_bc1 : forall T s v r, p_compound T s = POk v r -> bc1 s r.
Proof.
  intros T s v r H. unfold p_compound in H.
  apply pbind_ok in H. destruct H as (st & r1 & E1 & H). apply pbind_ok in H. destruct H as (d & r2 & E2 & H).
  inversion H; subst. apply bc1_trans_l with r1; [exact (p_composite_bc1 _ _ _ _ _ E1)|exact (p_density_bc _ _ _ E2)].
Qed.

(* determinism fact: the rest is a proper suffix of the input, in particular never longer *)
Corollary p_compound_rest_shorter : forall T s v r, p_compound T s = POk v r ->
  (String.length r < String.length s)%nat.
Proof. intros T s v r H. exact (bc1_len _ _ (p_compound_bc1 _ _ _ _ H)). Qed.

Corollary p_compound_rest_suffix : forall T s v r, p_compound T s = POk v r -> exists pre, s = pre ++ r.
Proof. intros T s v r H. destruct (p_compound_bc1 _ _ _ _ H) as (pre & E & _). exists pre. exact E. Qed.

(* ---------------------------------------------------------------- acceptance needs balanced parentheses *)
Definition accepted (T : ptable) (s : string) : Prop :=
  exists st d r, p_compound T s = POk (st, d) r /\ at_end r = true.

Lemma at_end_ws : forall r, at_end r = true -> all_chars is_pws r = true.
Proof.
  intros r H. unfold at_end in H. destruct (skip_ws_split r) as (pre & E & Hp).
  destruct (skip_ws r); [|discriminate]. rewrite sapp_nil_r in E. subst pre. exact Hp.
Qed.

Theorem accepted_balanced : forall T s, accepted T s -> bal 0 s = Some 0%nat.
Proof.
  intros T s (st & d & r & H & He). destruct (p_compound_bc1 _ _ _ _ H) as (pre & -> & Bp & _).
  apply balanced_app; [exact Bp|]. apply nopar_balanced. exact (all_chars_impl _ _ pws_np _ (at_end_ws r He)).
Qed.

Corollary unbalanced_rejected : forall T s, bal 0 s <> Some 0%nat -> ~ accepted T s.
Proof. intros T s H A. apply H. exact (accepted_balanced T s A). Qed.

(* ---------------------------------------------------------------- fuel *)
Lemma pgroup_ext : forall T pc pc' s,
  (forall x, (String.length x < String.length s)%nat -> pc x = pc' x) -> pgroup T pc s = pgroup T pc' s.
Proof.
  intros T pc pc' s H. unfold pgroup. destruct (p_implicit T s); try reflexivity.
  destruct (lit "(" s) as [u r1| |e] eqn:E1; try reflexivity. cbn [pbind].
  rewrite H; [reflexivity|]. pose proof (lit_len _ _ _ _ E1). pose proof (bc_len _ _ (skip_ws_bc r1)). lia.
Qed.

Lemma more_ext : forall pg pg' n,
  (forall x, (String.length x <= n)%nat -> pg x = pg' x) ->
  (forall x g r, pg x = POk g r -> bc x r) ->
  forall k acc r, (String.length r <= n)%nat -> more pg k acc r = more pg' k acc r.
Proof.
  intros pg pg' n Heq Hbc. induction k as [|k IH]; intros acc r Hr; [reflexivity|].
  rewrite !more_S. pose proof (bc_len _ _ (p_sep_bc r)) as L1. rewrite <- (Heq (p_sep r)) by lia.
  destruct (pg (p_sep r)) as [g' r'| |x] eqn:E; try reflexivity.
  apply IH. pose proof (bc_len _ _ (Hbc _ _ _ E)). lia.
Qed.

Lemma p_composite_fuel_step : forall T f s, (String.length s < f)%nat ->
  p_composite T f s = p_composite T (S f) s.
Proof.
  intros T. induction f as [|f IH]; intros s Hs; [lia|].
  rewrite (p_composite_S T f s), (p_composite_S T (S f) s).
  assert (Hg : forall x, (String.length x <= String.length s)%nat ->
               pgroup T (p_composite T f) x = pgroup T (p_composite T (S f)) x).
  { intros x Hx. apply pgroup_ext. intros y Hy. apply IH. lia. }
  assert (Hbc : forall x g r, pgroup T (p_composite T f) x = POk g r -> bc x r).
  { intros x g r E. apply bc1_bc. apply (pgroup_bc1 T (p_composite T f) x g r); [|exact E].
    intros y st r' E'. exact (bc1_bc _ _ (p_composite_bc1 _ _ _ _ _ E')). }
  rewrite <- (Hg s) by lia. destruct (pgroup T (p_composite T f) s) as [g r| |x] eqn:E; try reflexivity.
  cbn [pbind]. apply (more_ext _ _ (String.length s) Hg Hbc). exact (bc_len _ _ (Hbc _ _ _ E)).
Qed.

(* results do not depend on fuel beyond the length of the string *)
Theorem p_composite_fuel : forall T s fuel, (String.length s < fuel)%nat ->
  p_composite T fuel s = p_composite T (S (String.length s)) s.
Proof.
  intros T s fuel H. replace fuel with (S (String.length s) + (fuel - S (String.length s)))%nat by lia.
  induction (fuel - S (String.length s))%nat as [|d IH]; [rewrite Nat.add_0_r; reflexivity|].
  rewrite Nat.add_succ_r. rewrite <- p_composite_fuel_step by lia. exact IH.
Qed.

Lemma p_more_elements_fuel_step : forall T f s, (String.length s <= f)%nat ->
  p_more_elements T f s = p_more_elements T (S f) s.
Proof.
  intros T. induction f as [|f IH]; intros s Hs.
  - destruct s; [reflexivity|simpl in Hs; lia].
  - change (p_more_elements T (S f) s) with
      (if not_white s then
         match p_element T s with
         | POk e r => match p_more_elements T f r with
                      | POk es r' => POk (e :: es) r' | PFail => POk [e] r | PAbort x => PAbort x end
         | PFail => POk [] s
         | PAbort x => PAbort x
         end
       else POk [] s).
    change (p_more_elements T (S (S f)) s) with
      (if not_white s then
         match p_element T s with
         | POk e r => match p_more_elements T (S f) r with
                      | POk es r' => POk (e :: es) r' | PFail => POk [e] r | PAbort x => PAbort x end
         | PFail => POk [] s
         | PAbort x => PAbort x
         end
       else POk [] s).
    destruct (not_white s); [|reflexivity]. destruct (p_element T s) as [e r| |x] eqn:E; try reflexivity.
    rewrite <- IH; [reflexivity|]. pose proof (bc1_len _ _ (p_element_bc1 _ _ _ _ E)). lia.
Qed.

Theorem p_more_elements_fuel : forall T s fuel, (String.length s <= fuel)%nat ->
  p_more_elements T fuel s = p_more_elements T (String.length s) s.
Proof.
  intros T s fuel H. replace fuel with (String.length s + (fuel - String.length s))%nat by lia.
  induction (fuel - String.length s)%nat as [|d IH]; [rewrite Nat.add_0_r; reflexivity|].
  rewrite Nat.add_succ_r. rewrite <- p_more_elements_fuel_step by lia. exact IH.
Qed.
