(* Proofs/C01Accept.v — the parser model accepts every well-formed tree's rendering and returns the
   expected structure: induction over derivation trees of unbounded nesting depth. *)
From Coq Require Import ZArith QArith String Ascii List Bool Lia.
From PT Require Import Str Dec Py Loaders Formula Pyparse Grammar C01Lex C01Wf.
Import ListNotations.
Open Scope string_scope.

(* ---------------------------------------------------------------- the local functions of p_composite, named *)
Definition pgroup (T : ptable) (pc : string -> pres (list (Q * frag))) (s : string) : pres (list (Q * frag)) :=
  match p_implicit T s with
  | POk g r => POk g r
  | PAbort x => PAbort x
  | PFail =>
      let* (_, r1) := lit "("%char s in
      let* (inner, r2) := pc (skip_ws r1) in
      let* (_, r3) := lit ")"%char r2 in
      let* (c, r4) := p_count r3 in
      POk (regroup c inner) r4
  end.

Fixpoint more (pg : string -> pres (list (Q * frag))) (k : nat) (acc : list (Q * frag)) (r : string)
  : pres (list (Q * frag)) :=
  match k with
  | O => POk acc r
  | S k' =>
      match pg (p_sep r) with
      | POk g' r' => more pg k' (acc ++ g')%list r'
      | PFail => POk acc r
      | PAbort x => PAbort x
      end
  end.

Lemma p_composite_S : forall T f s,
  p_composite T (S f) s =
  let* (g, r) := pgroup T (p_composite T f) s in
  more (pgroup T (p_composite T f)) (S (String.length r)) g r.
Proof. reflexivity. Qed.

(* strict head: there is a first character and it satisfies p *)
Definition hds (p : ascii -> bool) (s : string) : bool :=
  match s with EmptyString => false | String c _ => p c end.

Lemma hds_hdp : forall (p q : ascii -> bool), (forall c, p c = true -> q c = true) ->
  forall s, hds p s = true -> hdp q s = true.
Proof. intros p q H [|c s]; simpl; [discriminate|apply H]. Qed.

Lemma hds_app : forall p a b, hds p a = true -> hds p (a ++ b) = true.
Proof. intros p [|c a] b; simpl; [discriminate|auto]. Qed.

Lemma hds_len : forall p s, hds p s = true -> (1 <= String.length s)%nat.
Proof. intros p [|c s]; simpl; [discriminate|lia]. Qed.

Lemma hds_nw : forall (p : ascii -> bool), (forall c, p c = true -> nonws c = true) ->
  forall s, hds p s = true -> not_white s = true.
Proof. intros p H [|c s]; simpl; [discriminate|]. intro Hc. apply (H c Hc). Qed.

Definition notupper (c : ascii) : bool := negb (is_upper c).
(* first character of a group *)
Definition gstart (c : ascii) : bool := (is_upper c || digit_or_dot c || Ascii.eqb c "(")%bool.

Lemma upper_nf_count : forall c, is_upper c = true -> nf_count c = true. Proof. char_fact. Qed.
Lemma upper_gstart : forall c, is_upper c = true -> gstart c = true. Proof. char_fact. Qed.
Lemma dod_gstart : forall c, digit_or_dot c = true -> gstart c = true. Proof. char_fact. Qed.
Lemma gstart_nonws : forall c, gstart c = true -> nonws c = true. Proof. char_fact. Qed.
Lemma gstart_notplus : forall c, gstart c = true -> negb (Ascii.eqb "+" c) = true. Proof. char_fact. Qed.
Lemma nf_imp_upper : forall c, nf_imp c = true -> notupper c = true. Proof. char_fact. Qed.
Lemma blank_nf_imp : forall c, is_blank c = true -> nf_imp c = true. Proof. char_fact. Qed.

Lemma concat_cons : forall x xs, String.concat "" (x :: xs) = x ++ String.concat "" xs.
Proof. intros x [|y xs]; simpl; [rewrite sapp_nil_r|]; reflexivity. Qed.

Section Accept.
  Variable T : ptable.

  (* ---------------------------------------------------------------- one element *)
  Lemma wf_elem_facts : forall e, wf_elem T e = true ->
    exists z a0 vi vq a,
      is_symbol (el_sym e) = true /\ t_symbol T (el_sym e) = Some (z, a0) /\
      wf_iso_txt (el_iso e) = true /\ wf_ion_txt (el_ion e) = true /\
      iso_val (el_iso e) = Some vi /\ ion_val (el_ion e) = Some vq /\
      wf_ctext (el_cnt e) = true /\
      elem_atom (t_symbol T) e = Some a /\
      (forall cnt r, elem_post T (z, a0) vi vq cnt r = POk (cnt, FAtom a) r).
  Proof.
    intros [sym iso ion c] H. unfold wf_elem in H. cbn [el_sym el_iso el_ion el_cnt] in *.
    apply andb_prop in H. destruct H as [H Hc]. apply andb_prop in H. destruct H as [Hs Hm].
    destruct (t_symbol T sym) as [[z a0]|] eqn:Ez; [|discriminate].
    apply andb_prop in Hm. destruct Hm as [Hiso Hion].
    (* isotope *)
    assert (Ei : exists vi a', wf_iso_txt iso = true /\ iso_val iso = Some vi /\
                 match iso with
                 | Some n => match parse_int n with Some v => Some v | None => None end
                 | None => Some a0 end = Some a' /\
                 (if Z.eqb vi 0 then Some a0
                  else if negb (Z.eqb a0 0) then None
                  else if t_has_iso T z vi then Some vi else None) = Some a').
    { destruct iso as [n|].
      - apply andb_prop in Hiso. destruct Hiso as [Hiso Hhas]. apply andb_prop in Hiso. destruct Hiso as [Hw Ha0].
        destruct (parse_int n) as [v|] eqn:Ev; [|discriminate]. exists v, v. simpl. rewrite Ev.
        repeat split; try assumption. apply Z.eqb_eq in Ha0. subst a0.
        destruct (Z.eqb v 0) eqn:E0.
        + apply Z.eqb_eq in E0. subst v. reflexivity.
        + simpl. rewrite Hhas. reflexivity.
      - exists 0%Z, a0. repeat split. }
    destruct Ei as (vi & a' & Wi & Vi & Si & Pi).
    (* ion *)
    assert (Eq : exists vq, wf_ion_txt ion = true /\ ion_val ion = Some vq /\
                 match ion with
                 | Some (d, neg) =>
                     match (if String.eqb d "" then Some 1%Z else parse_int d) with
                     | Some m => Some (if neg then (- m)%Z else m)
                     | None => None
                     end
                 | None => Some 0%Z end = Some vq /\
                 (Z.eqb vq 0 = true \/ t_has_ion T z vq = true)).
    { destruct ion as [[d neg]|].
      - apply andb_prop in Hion. destruct Hion as [Hd Hhas]. simpl. unfold ion_mag in *.
        destruct (if String.eqb d "" then Some 1%Z else parse_int d) as [m|]; [|discriminate].
        eexists. repeat split; try assumption. right. exact Hhas.
      - exists 0%Z. repeat split. left. reflexivity. }
    destruct Eq as (vq & Wq & Vq & Sq & Pq).
    exists z, a0, vi, vq, (mkAtom z a' vq). repeat split; try assumption.
    - unfold elem_atom. cbn [el_sym el_iso el_ion]. rewrite Ez, Si, Sq. reflexivity.
    - intros cnt r. unfold elem_post. rewrite Pi.
      destruct (Z.eqb vq 0) eqn:E0.
      + apply Z.eqb_eq in E0. subst vq. reflexivity.
      + destruct Pq as [Pq|Pq]; [discriminate|]. rewrite Pq. reflexivity.
  Qed.

  Lemma p_count_ctext : forall c rest, wf_ctext c = true -> hdp nf_count rest = true ->
    p_count (r_ctext c ++ rest) = POk (cv c) rest.
  Proof.
    intros [t|] rest H Hr.
    - simpl in H. destruct (parse_dec_count t H) as (q & Hq). unfold cv. simpl. rewrite Hq.
      apply p_count_ok; assumption.
    - simpl. apply p_count_none. exact Hr.
  Qed.

  Lemma ctext_hd : forall c rest, wf_ctext c = true -> hdp nf_sym rest = true ->
    hdp nf_sym (r_ctext c ++ rest) = true.
  Proof.
    intros [t|] rest H Hr; [|exact Hr]. simpl in H. destruct (count_text_hd t H) as (x & r & -> & Hx).
    simpl. apply dod_nf_sym. exact Hx.
  Qed.

  Lemma elem_ok : forall e rest, wf_elem T e = true -> hdp nf_elem rest = true ->
    p_element T (r_elem e ++ rest) = POk (v_elem T e) rest.
  Proof.
    intros e rest H Hr.
    destruct (wf_elem_facts e H) as (z & a0 & vi & vq & a & Hs & Hz & Wi & Wq & Vi & Vq & Hc & Ha & Hpost).
    rewrite r_elem_eq. rewrite !sapp_assoc.
    rewrite (p_element_gen T _ _ _ _ (z, a0) vi vq Hs Hz Wi Wq Vi Vq).
    - rewrite (p_count_ctext _ rest Hc (hdp_impl _ _ nf_elem_count _ Hr)). cbn [pbind].
      rewrite Hpost. unfold v_elem. rewrite Ha. reflexivity.
    - apply ctext_hd; [exact Hc|]. exact (hdp_impl _ _ nf_elem_sym _ Hr).
  Qed.

  Lemma elem_hd : forall e X, wf_elem T e = true -> hds is_upper (r_elem e ++ X) = true.
  Proof.
    intros e X H. unfold wf_elem in H. apply andb_prop in H. destruct H as [H _].
    apply andb_prop in H. destruct H as [H _]. destruct (symbol_hd _ H) as (c & r & E & Hc).
    rewrite r_elem_eq, E. simpl. exact Hc.
  Qed.

  (* ---------------------------------------------------------------- element lists *)
  Definition r_elems (es : list elem) : string := String.concat "" (map r_elem es).

  Lemma r_elems_cons : forall e es, r_elems (e :: es) = r_elem e ++ r_elems es.
  Proof. intros. unfold r_elems. simpl map. apply concat_cons. Qed.

  Lemma elems_follow : forall es rest, forallb (wf_elem T) es = true -> hdp nf_imp rest = true ->
    hdp nf_elem (r_elems es ++ rest) = true.
  Proof.
    intros [|e es] rest H Hr.
    - exact (hdp_impl _ _ nf_imp_elem _ Hr).
    - simpl in H. apply andb_prop in H. destruct H as [He _]. rewrite r_elems_cons, sapp_assoc.
      exact (hds_hdp _ _ upper_nf_elem _ (elem_hd e _ He)).
  Qed.

  Lemma p_element_fail : forall s, not_white s = true -> hdp notupper s = true -> p_element T s = PFail.
  Proof. intros s Hw H. rewrite p_element_eq. rewrite (p_symbol_fail T s Hw H). reflexivity. Qed.

  Lemma more_elems_stop : forall fuel rest, hdp notupper rest = true ->
    p_more_elements T fuel rest = POk [] rest.
  Proof.
    intros [|f] rest H; [reflexivity|]. simpl. destruct (not_white rest) eqn:E; [|reflexivity].
    rewrite (p_element_fail rest E H). reflexivity.
  Qed.

  Lemma more_elems_ok : forall es fuel rest, (length es <= fuel)%nat ->
    forallb (wf_elem T) es = true -> hdp nf_imp rest = true ->
    p_more_elements T fuel (r_elems es ++ rest) = POk (map (v_elem T) es) rest.
  Proof.
    induction es as [|e es IH]; intros fuel rest Hf H Hr.
    - simpl. apply more_elems_stop. exact (hdp_impl _ _ nf_imp_upper _ Hr).
    - destruct fuel as [|f]; [simpl in Hf; lia|]. simpl in Hf.
      pose proof H as H'. simpl in H'. apply andb_prop in H'. destruct H' as [He Hes].
      rewrite r_elems_cons, sapp_assoc. cbn [p_more_elements].
      rewrite (hds_nw _ upper_nonws _ (elem_hd e _ He)).
      rewrite (elem_ok e _ He (elems_follow es rest Hes Hr)).
      rewrite (IH f rest) by (assumption || lia). reflexivity.
  Qed.

  Lemma r_elems_len : forall es, forallb (wf_elem T) es = true -> (length es <= String.length (r_elems es))%nat.
  Proof.
    induction es as [|e es IH]; intro H; [simpl; lia|]. simpl in H. apply andb_prop in H. destruct H as [He Hes].
    rewrite r_elems_cons, slen_app. specialize (IH Hes).
    pose proof (hds_len _ _ (elem_hd e "" He)) as L. rewrite sapp_nil_r in L. simpl. lia.
  Qed.

  Lemma elems_ok : forall e es fuel rest, (length es <= fuel)%nat ->
    forallb (wf_elem T) (e :: es) = true -> hdp nf_imp rest = true ->
    p_elements T fuel (r_elems (e :: es) ++ rest) = POk (map (v_elem T) (e :: es)) rest.
  Proof.
    intros e es fuel rest Hf H Hr. simpl in H. apply andb_prop in H. destruct H as [He Hes].
    unfold p_elements. rewrite r_elems_cons, sapp_assoc.
    rewrite (elem_ok e _ He (elems_follow es rest Hes Hr)). cbn [pbind].
    rewrite (more_elems_ok es fuel rest Hf Hes Hr). reflexivity.
  Qed.

  (* ---------------------------------------------------------------- implicit group *)
  Lemma implicit_ok : forall c es rest, wf_group T (GImp c es) = true -> hdp nf_imp rest = true ->
    p_implicit T (r_group (GImp c es) ++ rest) = POk (v_group T (GImp c es)) rest.
  Proof.
    intros c es rest H Hr. simpl in H. apply andb_prop in H. destruct H as [H Hes].
    apply andb_prop in H. destruct H as [Hc Hne]. destruct es as [|e es]; [discriminate|]. clear Hne.
    rewrite r_group_imp. fold (r_elems (e :: es)). rewrite sapp_assoc. unfold p_implicit.
    assert (Hu : hds is_upper (r_elems (e :: es) ++ rest) = true).
    { rewrite r_elems_cons, sapp_assoc. apply elem_hd. simpl in Hes. apply andb_prop in Hes. tauto. }
    rewrite (p_count_ctext c _ Hc (hds_hdp _ _ upper_nf_count _ Hu)). cbn [pbind].
    rewrite (elems_ok e es _ rest); [reflexivity| |exact Hes|exact Hr].
    simpl in Hes. apply andb_prop in Hes. destruct Hes as [He Hes].
    pose proof (r_elems_len es Hes). rewrite slen_app, r_elems_cons, slen_app. lia.
  Qed.
End Accept.
