(* Proofs/C01Accept.v — the parser model accepts every well-formed tree's rendering and returns the
   expected structure: induction over derivation trees of unbounded nesting depth. *)
From Coq Require Import ZArith QArith String Ascii List Bool Lia.
From PT Require Import Str Dec Py Loaders Formula Pyparse Grammar C01Lex C01Wf.
Import ListNotations.
Open Scope string_scope.

(* ---------------------------------------------------------------- the local functions of p_composite, named *)
Definition pgroup (T : ptable) (pc : string -> pres (list (Q * frag))) (s : string) : pres (list (Q * frag)) :=
  match p_implicit T s with
  | POk g r => POk g r
  | PAbort x => PAbort x
  | PFail =>
      let* (_, r1) := lit "("%char s in
      let* (inner, r2) := pc (skip_ws r1) in
      let* (_, r3) := lit ")"%char r2 in
      let* (c, r4) := p_count r3 in
      POk (regroup c inner) r4
  end.

Definition more (pg : string -> pres (list (Q * frag))) :=
  fix more (k : nat) (acc : list (Q * frag)) (r : string) : pres (list (Q * frag)) :=
  match k with
  | O => POk acc r
  | S k' =>
      match pg (p_sep r) with
      | POk g' r' => more k' (acc ++ g')%list r'
      | PFail => POk acc r
      | PAbort x => PAbort x
      end
  end.

Lemma more_0 : forall pg acc r, more pg O acc r = POk acc r.
Proof. reflexivity. Qed.
Lemma more_S : forall pg k acc r,
  more pg (S k) acc r =
  match pg (p_sep r) with
  | POk g' r' => more pg k (acc ++ g')%list r'
  | PFail => POk acc r
  | PAbort x => PAbort x
  end.
Proof. reflexivity. Qed.

Lemma p_composite_S : forall T f s,
  p_composite T (S f) s =
  let* (g, r) := pgroup T (p_composite T f) s in
  more (pgroup T (p_composite T f)) (S (String.length r)) g r.
Proof. reflexivity. Qed.

(* strict head: there is a first character and it satisfies p *)
Definition hds (p : ascii -> bool) (s : string) : bool :=
  match s with EmptyString => false | String c _ => p c end.

Lemma hds_hdp : forall (p q : ascii -> bool), (forall c, p c = true -> q c = true) ->
  forall s, hds p s = true -> hdp q s = true.
Proof. intros p q H [|c s]; simpl; [discriminate|apply H]. Qed.

Lemma hds_app : forall p a b, hds p a = true -> hds p (a ++ b) = true.
Proof. intros p [|c a] b; simpl; [discriminate|auto]. Qed.

Lemma hds_len : forall p s, hds p s = true -> (1 <= String.length s)%nat.
Proof. intros p [|c s]; simpl; [discriminate|lia]. Qed.

Lemma hds_nw : forall (p : ascii -> bool), (forall c, p c = true -> nonws c = true) ->
  forall s, hds p s = true -> not_white s = true.
Proof. intros p H [|c s]; simpl; [discriminate|]. intro Hc. apply (H c Hc). Qed.

Definition notupper (c : ascii) : bool := negb (is_upper c).
(* first character of a group *)
Definition gstart (c : ascii) : bool := (is_upper c || digit_or_dot c || Ascii.eqb c "(")%bool.

Lemma upper_nf_count : forall c, is_upper c = true -> nf_count c = true. Proof. char_fact. Qed.
Lemma upper_gstart : forall c, is_upper c = true -> gstart c = true. Proof. char_fact. Qed.
Lemma dod_gstart : forall c, digit_or_dot c = true -> gstart c = true. Proof. char_fact. Qed.
Lemma gstart_nonws : forall c, gstart c = true -> nonws c = true. Proof. char_fact. Qed.
Lemma gstart_notplus : forall c, gstart c = true -> negb (Ascii.eqb "+" c) = true. Proof. char_fact. Qed.
Lemma nf_imp_upper : forall c, nf_imp c = true -> notupper c = true. Proof. char_fact. Qed.
Lemma blank_nf_imp : forall c, is_blank c = true -> nf_imp c = true. Proof. char_fact. Qed.

Lemma concat_cons : forall x xs, String.concat "" (x :: xs) = x ++ String.concat "" xs.
Proof. intros x [|y xs]; simpl; [rewrite sapp_nil_r|]; reflexivity. Qed.

Section Accept.
  Variable T : ptable.

  (* ---------------------------------------------------------------- one element *)
  Lemma wf_elem_facts : forall e, wf_elem T e = true ->
    exists z a0 vi vq a,
      is_symbol (el_sym e) = true /\ t_symbol T (el_sym e) = Some (z, a0) /\
      wf_iso_txt (el_iso e) = true /\ wf_ion_txt (el_ion e) = true /\
      iso_val (el_iso e) = Some vi /\ ion_val (el_ion e) = Some vq /\
      wf_ctext (el_cnt e) = true /\
      elem_atom (t_symbol T) e = Some a /\
      (forall cnt r, elem_post T (z, a0) vi vq cnt r = POk (cnt, FAtom a) r).
  Proof.
    intros [sym iso ion c] H. unfold wf_elem in H. cbn [el_sym el_iso el_ion el_cnt] in *.
    apply andb_prop in H. destruct H as [H Hc]. apply andb_prop in H. destruct H as [Hs Hm].
    destruct (t_symbol T sym) as [[z a0]|] eqn:Ez; [|discriminate].
    apply andb_prop in Hm. destruct Hm as [Hiso Hion].
    (* isotope *)
    assert (Ei : exists vi a', wf_iso_txt iso = true /\ iso_val iso = Some vi /\
                 match iso with
                 | Some n => match parse_int n with Some v => Some v | None => None end
                 | None => Some a0 end = Some a' /\
                 (if Z.eqb vi 0 then Some a0
                  else if negb (Z.eqb a0 0) then None
                  else if t_has_iso T z vi then Some vi else None) = Some a').
    { destruct iso as [n|].
      - apply andb_prop in Hiso. destruct Hiso as [Hiso Hhas]. apply andb_prop in Hiso. destruct Hiso as [Hw Ha0].
        destruct (parse_int n) as [v|] eqn:Ev; [|discriminate]. exists v, v. simpl. rewrite Ev.
        repeat split; try assumption. apply Z.eqb_eq in Ha0. subst a0.
        destruct (Z.eqb v 0) eqn:E0.
        + apply Z.eqb_eq in E0. subst v. reflexivity.
        + simpl. rewrite Hhas. reflexivity.
      - exists 0%Z, a0. repeat split. }
    destruct Ei as (vi & a' & Wi & Vi & Si & Pi).
    (* ion *)
    assert (Eq : exists vq, wf_ion_txt ion = true /\ ion_val ion = Some vq /\
                 match ion with
                 | Some (d, neg) =>
                     match (if String.eqb d "" then Some 1%Z else parse_int d) with
                     | Some m => Some (if neg then (- m)%Z else m)
                     | None => None
                     end
                 | None => Some 0%Z end = Some vq /\
                 (Z.eqb vq 0 = true \/ t_has_ion T z vq = true)).
    { destruct ion as [[d neg]|].
      - apply andb_prop in Hion. destruct Hion as [Hd Hhas]. simpl. unfold ion_mag in *.
        destruct (if String.eqb d "" then Some 1%Z else parse_int d) as [m|]; [|discriminate].
        eexists. repeat split; try assumption. right. exact Hhas.
      - exists 0%Z. repeat split. left. reflexivity. }
    destruct Eq as (vq & Wq & Vq & Sq & Pq).
    exists z, a0, vi, vq, (mkAtom z a' vq). repeat split; try assumption.
    - unfold elem_atom. cbn [el_sym el_iso el_ion]. rewrite Ez, Si, Sq. reflexivity.
    - intros cnt r. unfold elem_post. rewrite Pi.
      destruct (Z.eqb vq 0) eqn:E0.
      + apply Z.eqb_eq in E0. subst vq. reflexivity.
      + destruct Pq as [Pq|Pq]; [discriminate|]. rewrite Pq. reflexivity.
  Qed.

  Lemma p_count_ctext : forall c rest, wf_ctext c = true -> hdp nf_count rest = true ->
    p_count (r_ctext c ++ rest) = POk (cv c) rest.
  Proof.
    intros [t|] rest H Hr.
    - simpl in H. destruct (parse_dec_count t H) as (q & Hq). unfold cv. simpl. rewrite Hq.
      apply p_count_ok; assumption.
    - simpl. apply p_count_none. exact Hr.
  Qed.

  Lemma ctext_hd : forall c rest, wf_ctext c = true -> hdp nf_sym rest = true ->
    hdp nf_sym (r_ctext c ++ rest) = true.
  Proof.
    intros [t|] rest H Hr; [|exact Hr]. simpl in H. destruct (count_text_hd t H) as (x & r & -> & Hx).
    simpl. apply dod_nf_sym. exact Hx.
  Qed.

  Lemma elem_ok : forall e rest, wf_elem T e = true -> hdp nf_elem rest = true ->
    p_element T (r_elem e ++ rest) = POk (v_elem T e) rest.
  Proof.
    intros e rest H Hr.
    destruct (wf_elem_facts e H) as (z & a0 & vi & vq & a & Hs & Hz & Wi & Wq & Vi & Vq & Hc & Ha & Hpost).
    rewrite r_elem_eq. rewrite !sapp_assoc.
    rewrite (p_element_gen T _ _ _ _ (z, a0) vi vq Hs Hz Wi Wq Vi Vq).
    - rewrite (p_count_ctext _ rest Hc (hdp_impl _ _ nf_elem_count _ Hr)). cbn [pbind].
      rewrite Hpost. unfold v_elem. rewrite Ha. reflexivity.
    - apply ctext_hd; [exact Hc|]. exact (hdp_impl _ _ nf_elem_sym _ Hr).
  Qed.

  Lemma elem_hd : forall e X, wf_elem T e = true -> hds is_upper (r_elem e ++ X) = true.
  Proof.
    intros e X H. unfold wf_elem in H. apply andb_prop in H. destruct H as [H _].
    apply andb_prop in H. destruct H as [H _]. destruct (symbol_hd _ H) as (c & r & E & Hc).
    rewrite r_elem_eq, E. simpl. exact Hc.
  Qed.

  (* ---------------------------------------------------------------- element lists *)
  Definition r_elems (es : list elem) : string := String.concat "" (map r_elem es).

  Lemma r_elems_cons : forall e es, r_elems (e :: es) = r_elem e ++ r_elems es.
  Proof. intros. unfold r_elems. simpl map. apply concat_cons. Qed.

  Lemma elems_follow : forall es rest, forallb (wf_elem T) es = true -> hdp nf_imp rest = true ->
    hdp nf_elem (r_elems es ++ rest) = true.
  Proof.
    intros [|e es] rest H Hr.
    - exact (hdp_impl _ _ nf_imp_elem _ Hr).
    - simpl in H. apply andb_prop in H. destruct H as [He _]. rewrite r_elems_cons, sapp_assoc.
      exact (hds_hdp _ _ upper_nf_elem _ (elem_hd e _ He)).
  Qed.

  Lemma p_element_fail : forall s, not_white s = true -> hdp notupper s = true -> p_element T s = PFail.
  Proof. intros s Hw H. rewrite p_element_eq. rewrite (p_symbol_fail T s Hw H). reflexivity. Qed.

  Lemma more_elems_stop : forall fuel rest, hdp notupper rest = true ->
    p_more_elements T fuel rest = POk [] rest.
  Proof.
    intros [|f] rest H; [reflexivity|]. simpl. destruct (not_white rest) eqn:E; [|reflexivity].
    rewrite (p_element_fail rest E H). reflexivity.
  Qed.

  Lemma more_elems_ok : forall es fuel rest, (length es <= fuel)%nat ->
    forallb (wf_elem T) es = true -> hdp nf_imp rest = true ->
    p_more_elements T fuel (r_elems es ++ rest) = POk (map (v_elem T) es) rest.
  Proof.
    induction es as [|e es IH]; intros fuel rest Hf H Hr.
    - simpl. apply more_elems_stop. exact (hdp_impl _ _ nf_imp_upper _ Hr).
    - destruct fuel as [|f]; [simpl in Hf; lia|]. simpl in Hf.
      pose proof H as H'. simpl in H'. apply andb_prop in H'. destruct H' as [He Hes].
      rewrite r_elems_cons, sapp_assoc. cbn [p_more_elements].
      rewrite (hds_nw _ upper_nonws _ (elem_hd e _ He)).
      rewrite (elem_ok e _ He (elems_follow es rest Hes Hr)).
      rewrite (IH f rest) by (assumption || lia). reflexivity.
  Qed.

  Lemma r_elems_len : forall es, forallb (wf_elem T) es = true -> (length es <= String.length (r_elems es))%nat.
  Proof.
    induction es as [|e es IH]; intro H; [simpl; lia|]. simpl in H. apply andb_prop in H. destruct H as [He Hes].
    rewrite r_elems_cons, slen_app. specialize (IH Hes).
    pose proof (hds_len _ _ (elem_hd e "" He)) as L. rewrite sapp_nil_r in L. simpl. lia.
  Qed.

  Lemma elems_ok : forall e es fuel rest, (length es <= fuel)%nat ->
    forallb (wf_elem T) (e :: es) = true -> hdp nf_imp rest = true ->
    p_elements T fuel (r_elems (e :: es) ++ rest) = POk (map (v_elem T) (e :: es)) rest.
  Proof.
    intros e es fuel rest Hf H Hr. simpl in H. apply andb_prop in H. destruct H as [He Hes].
    unfold p_elements. rewrite r_elems_cons, sapp_assoc.
    rewrite (elem_ok e _ He (elems_follow es rest Hes Hr)). cbn [pbind].
    rewrite (more_elems_ok es fuel rest Hf Hes Hr). reflexivity.
  Qed.

  (* ---------------------------------------------------------------- implicit group *)
  Lemma implicit_ok : forall c es rest, wf_group T (GImp c es) = true -> hdp nf_imp rest = true ->
    p_implicit T (r_group (GImp c es) ++ rest) = POk (v_group T (GImp c es)) rest.
  Proof.
    intros c es rest H Hr. simpl in H. apply andb_prop in H. destruct H as [H Hes].
    apply andb_prop in H. destruct H as [Hc Hne]. destruct es as [|e es]; [discriminate|]. clear Hne.
    rewrite r_group_imp. fold (r_elems (e :: es)). rewrite sapp_assoc. unfold p_implicit.
    assert (Hu : hds is_upper (r_elems (e :: es) ++ rest) = true).
    { rewrite r_elems_cons, sapp_assoc. apply elem_hd. simpl in Hes. apply andb_prop in Hes. tauto. }
    rewrite (p_count_ctext c _ Hc (hds_hdp _ _ upper_nf_count _ Hu)). cbn [pbind].
    rewrite (elems_ok e es _ rest); [reflexivity| |exact Hes|exact Hr].
    simpl in Hes. apply andb_prop in Hes. destruct Hes as [He Hes].
    pose proof (r_elems_len es Hes). rewrite slen_app, r_elems_cons, slen_app. lia.
  Qed.

  Lemma wf_imp_inv : forall c es, wf_group T (GImp c es) = true ->
    wf_ctext c = true /\ exists e es', es = e :: es' /\ wf_elem T e = true /\ forallb (wf_elem T) es' = true.
  Proof.
    intros c es H. change (wf_group T (GImp c es)) with
      (wf_ctext c && negb (match es with [] => true | _ => false end) && forallb (wf_elem T) es)%bool in H.
    apply andb_prop in H. destruct H as [H Hes]. apply andb_prop in H. destruct H as [Hc Hne].
    split; [exact Hc|]. destruct es as [|e es]; [discriminate|]. exists e, es.
    simpl in Hes. apply andb_prop in Hes. destruct Hes as [He Hes]. auto.
  Qed.

  (* ---------------------------------------------------------------- first characters *)
  Lemma ctext_gstart : forall c X, wf_ctext c = true -> hds gstart X = true -> hds gstart (r_ctext c ++ X) = true.
  Proof.
    intros [t|] X H HX; [|exact HX]. simpl in H. destruct (count_text_hd t H) as (x & r & -> & Hx).
    simpl. apply dod_gstart. exact Hx.
  Qed.

  Lemma group_hd : forall g X, wf_group T g = true -> hds gstart (r_group g ++ X) = true.
  Proof.
    intros [c es|l inner r c] X H; [|reflexivity].
    simpl in H. apply andb_prop in H. destruct H as [H Hes]. apply andb_prop in H. destruct H as [Hc Hne].
    destruct es as [|e es]; [discriminate|]. rewrite r_group_imp. fold (r_elems (e :: es)).
    rewrite sapp_assoc. apply ctext_gstart; [exact Hc|]. rewrite r_elems_cons, sapp_assoc.
    simpl in Hes. apply andb_prop in Hes. destruct Hes as [He _].
    pose proof (elem_hd e (r_elems es ++ X) He) as Hu. destruct (r_elem e ++ r_elems es ++ X); [discriminate|].
    simpl in *. apply upper_gstart. exact Hu.
  Qed.

  (* ---------------------------------------------------------------- separators *)
  Lemma p_sep_ok : forall s X, wf_sep s = true -> hds gstart X = true -> p_sep (r_sep s ++ X) = X.
  Proof.
    intros [a pl b] X H HX. unfold wf_sep in H. cbn [sp1 sp2] in H. apply andb_prop in H. destruct H as [Ha Hb].
    pose proof (hds_nw _ gstart_nonws _ HX) as Hw.
    unfold r_sep. cbn [sp1 sp2 plus]. rewrite !sapp_assoc. unfold p_sep. destruct pl.
    - change ("+" ++ b ++ X) with (String "+" (b ++ X)).
      rewrite (lit_blanks "+" a (b ++ X) eq_refl Ha). apply skip_ws_blanks; assumption.
    - change ("" ++ b ++ X) with (b ++ X).
      assert (E : skip_ws (a ++ b ++ X) = X).
      { rewrite skip_ws_app by (apply (all_chars_impl _ _ blank_pws); exact Ha). apply skip_ws_blanks; assumption. }
      unfold lit. rewrite E. destruct X as [|x r]; [discriminate|]. simpl in HX.
      pose proof (gstart_notplus x HX) as Hp. apply negb_true in Hp. rewrite Hp. reflexivity.
  Qed.

  Definition sepstart (c : ascii) : bool := (is_blank c || Ascii.eqb c "+")%bool.
  Lemma sepstart_nf_imp : forall c, sepstart c = true -> nf_imp c = true. Proof. char_fact. Qed.

  Lemma sep_hd : forall s X, wf_sep s = true -> sep_empty s = false -> hds sepstart (r_sep s ++ X) = true.
  Proof.
    intros [a pl b] X H He. unfold wf_sep in H. cbn [sp1 sp2] in H. apply andb_prop in H. destruct H as [Ha Hb].
    unfold sep_empty, r_sep in *. cbn [sp1 sp2 plus] in *.
    destruct a as [|x a].
    - destruct pl; [reflexivity|]. destruct b as [|y b]; [discriminate|].
      simpl in Hb. apply andb_prop in Hb. destruct Hb as [Hy _]. simpl. unfold sepstart. rewrite Hy. reflexivity.
    - simpl in Ha. apply andb_prop in Ha. destruct Ha as [Hx _]. simpl. unfold sepstart. rewrite Hx. reflexivity.
  Qed.

  (* ---------------------------------------------------------------- what may follow a group *)
  Definition group_follow (g : group) (rest : string) : bool :=
    match g with GImp _ _ => hdp nf_imp rest | GExp _ _ _ _ => hdp nf_count rest end.

  Lemma group_follow_imp : forall g rest, hdp nf_imp rest = true -> group_follow g rest = true.
  Proof. intros [c es|l i r c] rest H; simpl; [exact H|exact (hdp_impl _ _ nf_imp_count _ H)]. Qed.

  Lemma lparen_nf_imp : nf_imp "(" = true. Proof. reflexivity. Qed.

  Lemma follow_next : forall prev s g X, wf_sep s = true -> join_ok (is_imp prev) s g = true ->
    wf_group T g = true -> group_follow prev (r_sep s ++ r_group g ++ X) = true.
  Proof.
    intros prev s g X Hs Hj Hg. destruct (sep_empty s) eqn:Ee.
    - unfold join_ok in Hj. rewrite Ee in Hj. simpl in Hj. unfold sep_empty in Ee. apply String.eqb_eq in Ee.
      rewrite Ee. change ("" ++ r_group g ++ X) with (r_group g ++ X).
      destruct g as [[t|] es|l i r c]; [discriminate| |].
      + destruct prev as [c' es'|l' i' r' c']; [discriminate|]. simpl.
        destruct (wf_imp_inv _ _ Hg) as (_ & e & es' & -> & He & _). rename es' into es.
        fold (r_elems (e :: es)). rewrite r_elems_cons, sapp_assoc. exact (hds_hdp _ _ upper_nf_count _ (elem_hd e _ He)).
      + apply group_follow_imp. reflexivity.
    - apply group_follow_imp. exact (hds_hdp _ _ sepstart_nf_imp _ (sep_hd s _ Hs Ee)).
  Qed.

  Lemma tail_follow : forall prev l rest, chain_ok (is_imp prev) l = true ->
    forallb (fun p => wf_group T (snd p)) l = true -> hdp nf_imp rest = true ->
    group_follow prev (r_tail l ++ rest) = true.
  Proof.
    intros prev [|[s g] l] rest Hc Hw Hr.
    - simpl. apply group_follow_imp. exact Hr.
    - simpl in Hc, Hw. apply andb_prop in Hc. destruct Hc as [Hc _]. apply andb_prop in Hc. destruct Hc as [Hs Hj].
      apply andb_prop in Hw. destruct Hw as [Hg _]. cbn [r_tail]. rewrite !sapp_assoc.
      apply follow_next; assumption.
  Qed.

  (* ---------------------------------------------------------------- failing groups (the loop ends) *)
  Lemma p_implicit_fail : forall s, not_white s = true -> hdp nf_count s = true -> hdp notupper s = true ->
    p_implicit T s = PFail.
  Proof.
    intros s Hw Hc Hu. unfold p_implicit. rewrite (p_count_none s Hc). cbn [pbind].
    unfold p_elements. rewrite (p_element_fail s Hw Hu). reflexivity.
  Qed.

  Definition not_lparen (c : ascii) : bool := negb (Ascii.eqb "(" c).

  Lemma pgroup_fail : forall pc s, not_white s = true -> hdp nf_count s = true -> hdp notupper s = true ->
    hdp not_lparen s = true -> pgroup T pc s = PFail.
  Proof.
    intros pc s Hw Hc Hu Hp. unfold pgroup. rewrite (p_implicit_fail s Hw Hc Hu).
    rewrite (lit_other _ s Hw Hp). reflexivity.
  Qed.

  (* the composite loop stops at rest *)
  Definition stops (rest : string) : Prop :=
    hdp nf_imp rest = true /\ forall f, pgroup T (p_composite T f) (p_sep rest) = PFail.

  Definition closer (c : ascii) : bool := (Ascii.eqb c ")" || Ascii.eqb c "@")%bool.
  (* after optional white space: end of text, ')' or '@' *)
  Definition cf (rest : string) : bool := hdp closer (skip_ws rest).

  Lemma closer_nf_imp : forall c, closer c = true -> nf_imp c = true. Proof. char_fact. Qed.
  Lemma closer_nf_count : forall c, closer c = true -> nf_count c = true. Proof. char_fact. Qed.
  Lemma closer_notupper : forall c, closer c = true -> notupper c = true. Proof. char_fact. Qed.
  Lemma closer_not_lparen : forall c, closer c = true -> not_lparen c = true. Proof. char_fact. Qed.
  Lemma closer_notplus : forall c, closer c = true -> negb (Ascii.eqb "+" c) = true. Proof. char_fact. Qed.

  Lemma skip_ws_nw : forall s, not_white (skip_ws s) = true.
  Proof.
    induction s as [|c s IH]; [reflexivity|]. simpl. destruct (is_pws c) eqn:E; [exact IH|].
    simpl. rewrite E. reflexivity.
  Qed.

  Lemma skip_ws_idem : forall s, skip_ws (skip_ws s) = skip_ws s.
  Proof. intro s. apply skip_ws_id. apply skip_ws_nw. Qed.

  Lemma cf_stops : forall rest, cf rest = true -> stops rest.
  Proof.
    intros rest H. unfold cf in H. split.
    - destruct rest as [|c r]; [reflexivity|]. simpl. simpl in H. destruct (is_pws c) eqn:E.
      + apply pws_nf_imp. exact E.
      + simpl in H. apply closer_nf_imp. exact H.
    - intro f.
      assert (E : p_sep rest = skip_ws rest).
      { unfold p_sep, lit. destruct (skip_ws rest) as [|c r] eqn:Es; [reflexivity|]. simpl in H.
        pose proof (closer_notplus c H) as Hp. apply negb_true in Hp. rewrite Hp. reflexivity. }
      rewrite E. apply pgroup_fail.
      + apply skip_ws_nw.
      + exact (hdp_impl _ _ closer_nf_count _ H).
      + exact (hdp_impl _ _ closer_notupper _ H).
      + exact (hdp_impl _ _ closer_not_lparen _ H).
  Qed.

  (* ---------------------------------------------------------------- the loop over the groups of a compound *)
  Definition acc_ok (g : group) : Prop :=
    forall f rest, (gdepth g <= f)%nat -> wf_group T g = true -> group_follow g rest = true ->
    pgroup T (p_composite T f) (r_group g ++ rest) = POk (v_group T g) rest.

  Lemma cdepth_cons : forall s g l, cdepth ((s, g) :: l) = Nat.max (gdepth g) (cdepth l).
  Proof. reflexivity. Qed.

  Lemma more_ok : forall f l, Forall (fun p => acc_ok (snd p)) l ->
    forall prev k acc rest,
    (cdepth l <= f)%nat -> forallb (fun p => wf_group T (snd p)) l = true ->
    chain_ok (is_imp prev) l = true -> (length l <= k)%nat -> stops rest ->
    more (pgroup T (p_composite T f)) k acc (r_tail l ++ rest) = POk (acc ++ v_comp T l)%list rest.
  Proof.
    intros f. induction l as [|[s g] l IH]; intros HP prev k acc rest Hd Hw Hc Hk Hst.
    - simpl. rewrite app_nil_r. destruct k as [|k]; [reflexivity|]. rewrite more_S.
      destruct Hst as [_ Hst]. rewrite Hst. reflexivity.
    - destruct k as [|k]; [simpl in Hk; lia|]. simpl in Hk.
      inversion HP as [|? ? Pg Pl]; subst. simpl in Pg.
      rewrite cdepth_cons in Hd.
      simpl in Hw. apply andb_prop in Hw. destruct Hw as [Hg Hl].
      simpl in Hc. apply andb_prop in Hc. destruct Hc as [Hc Hcl]. apply andb_prop in Hc. destruct Hc as [Hs Hj].
      cbn [r_tail]. rewrite !sapp_assoc. rewrite more_S.
      rewrite (p_sep_ok s _ Hs (group_hd g _ Hg)).
      rewrite (Pg f (r_tail l ++ rest)); [| lia | exact Hg | apply tail_follow; [exact Hcl|exact Hl|apply Hst] ].
      rewrite (IH Pl g k (acc ++ v_group T g)%list rest); [| lia | exact Hl | exact Hcl | lia | exact Hst].
      unfold v_comp. simpl flat_map. rewrite app_assoc. reflexivity.
  Qed.

  Lemma r_tail_len : forall l, forallb (fun p => wf_group T (snd p)) l = true ->
    (length l <= String.length (r_tail l))%nat.
  Proof.
    induction l as [|[s g] l IH]; intro H; [simpl; lia|]. simpl in H. apply andb_prop in H. destruct H as [Hg Hl].
    cbn [r_tail]. rewrite !slen_app. specialize (IH Hl).
    pose proof (hds_len _ _ (group_hd g "" Hg)) as L. rewrite sapp_nil_r in L. simpl. lia.
  Qed.

  Lemma comp_ok_from : forall l f rest, Forall (fun p => acc_ok (snd p)) l ->
    (cdepth l <= f)%nat -> wf_comp T l = true -> stops rest ->
    p_composite T (S f) (r_comp l ++ rest) = POk (v_comp T l) rest.
  Proof.
    intros l f rest HP Hd H Hst. unfold wf_comp in H. apply andb_prop in H. destruct H as [Hsh Hw].
    destruct l as [|[s g] l]; [discriminate|]. simpl in Hsh.
    inversion HP as [|? ? Pg Pl]; subst. simpl in Pg. rewrite cdepth_cons in Hd.
    simpl in Hw. apply andb_prop in Hw. destruct Hw as [Hg Hl].
    rewrite r_comp_cons, sapp_assoc, p_composite_S.
    rewrite (Pg f (r_tail l ++ rest)); [| lia | exact Hg | apply tail_follow; [exact Hsh|exact Hl|apply Hst] ].
    cbn [pbind].
    rewrite (more_ok f l Pl g _ (v_group T g) rest); [reflexivity| lia | exact Hl | exact Hsh | | exact Hst].
    pose proof (r_tail_len l Hl). rewrite slen_app. lia.
  Qed.

  (* ---------------------------------------------------------------- explicit groups, by induction on the tree *)
  Lemma comp_hd : forall l X, wf_comp T l = true -> hds gstart (r_comp l ++ X) = true.
  Proof.
    intros [|[s g] l] X H; unfold wf_comp in H; apply andb_prop in H; destruct H as [Hsh Hw]; [discriminate|].
    simpl in Hw. apply andb_prop in Hw. destruct Hw as [Hg _]. rewrite r_comp_cons, sapp_assoc.
    apply group_hd. exact Hg.
  Qed.

  Lemma rparen_stops : forall r Y, all_chars is_blank r = true -> stops (r ++ String ")" Y).
  Proof.
    intros r Y Hr. apply cf_stops. unfold cf. rewrite skip_ws_blanks by (exact Hr || reflexivity). reflexivity.
  Qed.

  Theorem group_accept : forall g, acc_ok g.
  Proof.
    induction g as [c es|l inner r c IH] using group_ind'; intros f rest Hd H Hf.
    - unfold pgroup. simpl in Hf. rewrite (implicit_ok c es rest H Hf). reflexivity.
    - simpl in Hf. cbn [gdepth] in Hd. fold (cdepth inner) in Hd.
      destruct f as [|f]; [lia|].
      simpl in H. apply andb_prop in H. destruct H as [H Hall]. apply andb_prop in H. destruct H as [H Hsh].
      apply andb_prop in H. destruct H as [H Hc]. apply andb_prop in H. destruct H as [Hl Hr].
      assert (Hwc : wf_comp T inner = true) by (unfold wf_comp; rewrite Hsh, Hall; reflexivity).
      rewrite r_group_exp. rewrite !sapp_assoc.
      change ("(" ++ l ++ r_comp inner ++ r ++ ")" ++ r_ctext c ++ rest)
        with (String "(" (l ++ r_comp inner ++ r ++ String ")" (r_ctext c ++ rest))).
      unfold pgroup. rewrite p_implicit_fail by reflexivity.
      rewrite lit_here by reflexivity. cbn [pbind].
      rewrite skip_ws_blanks by (exact Hl || exact (hds_nw _ gstart_nonws _ (comp_hd inner _ Hwc))).
      rewrite (comp_ok_from inner f _ IH); [| lia | exact Hwc | apply rparen_stops; exact Hr].
      cbn [pbind]. rewrite (lit_blanks ")" r _ eq_refl Hr). cbn [pbind].
      rewrite (p_count_ctext c rest Hc Hf). cbn [pbind]. reflexivity.
  Qed.

  Theorem comp_accept : forall l f rest, (cdepth l <= f)%nat -> wf_comp T l = true -> stops rest ->
    p_composite T (S f) (r_comp l ++ rest) = POk (v_comp T l) rest.
  Proof.
    intros l f rest Hd H Hst. apply comp_ok_from; try assumption.
    apply Forall_forall. intros p _. apply group_accept.
  Qed.

  (* ---------------------------------------------------------------- fuel: nesting depth is below the text length *)
  Lemma cdepth_tail : forall l, Forall (fun p => (gdepth (snd p) <= String.length (r_group (snd p)))%nat) l ->
    (cdepth l <= String.length (r_tail l))%nat.
  Proof.
    induction l as [|[s g] l IH]; intro H; [simpl; lia|]. inversion H as [|? ? Hg Hl]; subst. simpl in Hg.
    rewrite cdepth_cons. cbn [r_tail]. rewrite !slen_app. specialize (IH Hl). lia.
  Qed.

  Lemma cdepth_comp : forall l, Forall (fun p => (gdepth (snd p) <= String.length (r_group (snd p)))%nat) l ->
    (cdepth l <= String.length (r_comp l))%nat.
  Proof.
    intros [|[s g] l] H; [simpl; lia|]. inversion H as [|? ? Hg Hl]; subst. simpl in Hg.
    rewrite cdepth_cons, r_comp_cons, slen_app. pose proof (cdepth_tail l Hl). lia.
  Qed.

  Lemma gdepth_len : forall g, (gdepth g <= String.length (r_group g))%nat.
  Proof.
    induction g as [c es|l inner r c IH] using group_ind'; [simpl; lia|].
    cbn [gdepth]. fold (cdepth inner). rewrite r_group_exp. rewrite !slen_app.
    pose proof (cdepth_comp inner IH). simpl. lia.
  Qed.

  Lemma cdepth_len : forall l, (cdepth l <= String.length (r_comp l))%nat.
  Proof. intro l. apply cdepth_comp. apply Forall_forall. intros p _. apply gdepth_len. Qed.

  (* any fuel above the nesting depth gives the same result: in particular the fuel p_compound uses *)
  Corollary comp_accept_fuel : forall l fuel rest, (cdepth l < fuel)%nat -> wf_comp T l = true -> stops rest ->
    p_composite T fuel (r_comp l ++ rest) = POk (v_comp T l) rest.
  Proof.
    intros l [|f] rest Hd H Hst; [lia|]. apply comp_accept; [lia|assumption|assumption].
  Qed.

  (* ---------------------------------------------------------------- density tag and the whole string *)
  Definition r_dens (o : option (string * string * option ascii)) : string :=
    match o with
    | Some (ws, t, m) => ws ++ "@" ++ t ++ (match m with Some ch => String ch "" | None => "" end)
    | None => ""
    end.

  Lemma render_eq : forall t, render t = r_comp (c_comp t) ++ r_dens (c_density t).
  Proof. reflexivity. Qed.

  Lemma dens_stops : forall o, wf_dens o = true -> stops (r_dens o).
  Proof.
    intros [[[ws t] m]|] H; apply cf_stops; [|reflexivity].
    simpl in H. apply andb_prop in H. destruct H as [H _]. apply andb_prop in H. destruct H as [Hws _].
    unfold cf, r_dens. change (ws ++ "@" ++ t ++ _) with (ws ++ String "@" (t ++ match m with Some ch => String ch "" | None => "" end)).
    rewrite skip_ws_blanks by (exact Hws || reflexivity). reflexivity.
  Qed.

  Lemma marker_nf_count : forall c, (Ascii.eqb c "n" || Ascii.eqb c "i")%bool = true -> nf_count c = true.
  Proof. char_fact. Qed.

  Lemma dens_ok : forall o, wf_dens o = true -> p_density (r_dens o) = POk (v_dens o) "".
  Proof.
    intros [[[ws t] m]|] H; [|reflexivity].
    simpl in H. apply andb_prop in H. destruct H as [H Hm]. apply andb_prop in H. destruct H as [Hws Ht].
    destruct (parse_dec_count t Ht) as (q & Hq).
    unfold r_dens, p_density.
    change (ws ++ "@" ++ t ++ match m with Some ch => String ch "" | None => "" end)
      with (ws ++ String "@" (t ++ match m with Some ch => String ch "" | None => "" end)).
    rewrite (lit_blanks "@" ws _ eq_refl Hws).
    rewrite (p_number_ok t _ q Ht Hq).
    - unfold v_dens. rewrite Hq. destruct m as [ch|]; [|reflexivity].
      apply orb_prop in Hm. destruct Hm as [Hm|Hm]; apply Ascii.eqb_eq in Hm; subst ch; reflexivity.
    - destruct m as [ch|]; [|reflexivity]. simpl. apply marker_nf_count. exact Hm.
  Qed.

  (* what may follow the whole compound: blanks, then the end of the text or a ')' *)
  Definition rparen (c : ascii) : bool := Ascii.eqb c ")".
  Definition tail_ok (rest : string) : bool := hdp rparen (skip_ws rest).

  Lemma rparen_closer : forall c, rparen c = true -> closer c = true. Proof. char_fact. Qed.
  Lemma rparen_not_at : forall c, rparen c = true -> negb (Ascii.eqb "@" c) = true. Proof. char_fact. Qed.
  Lemma rparen_nf_count : forall c, rparen c = true -> nf_count c = true. Proof. char_fact. Qed.
  Lemma pws_nf_count : forall c, is_pws c = true -> nf_count c = true. Proof. char_fact. Qed.

  Lemma tail_ok_stops : forall rest, tail_ok rest = true -> stops rest.
  Proof. intros rest H. apply cf_stops. exact (hdp_impl _ _ rparen_closer _ H). Qed.

  Lemma tail_ok_nf_count : forall rest, tail_ok rest = true -> hdp nf_count rest = true.
  Proof.
    intros [|c r] H; [reflexivity|]. unfold tail_ok in H. simpl in *. destruct (is_pws c) eqn:E.
    - apply pws_nf_count. exact E.
    - simpl in H. apply rparen_nf_count. exact H.
  Qed.

  Lemma dens_stops_rest : forall o rest, wf_dens o = true -> tail_ok rest = true -> stops (r_dens o ++ rest).
  Proof.
    intros [[[ws t] m]|] rest H Hr; [|apply tail_ok_stops; exact Hr]. apply cf_stops.
    simpl in H. apply andb_prop in H. destruct H as [H _]. apply andb_prop in H. destruct H as [Hws _].
    unfold cf, r_dens. rewrite !sapp_assoc.
    change (ws ++ "@" ++ t ++ _ ++ rest)
      with (ws ++ String "@" (t ++ match m with Some ch => String ch "" | None => "" end ++ rest)).
    rewrite skip_ws_blanks by (exact Hws || reflexivity). reflexivity.
  Qed.

  Lemma dens_ok_rest : forall o rest, wf_dens o = true -> tail_ok rest = true ->
    p_density (r_dens o ++ rest) = POk (v_dens o) rest.
  Proof.
    intros [[[ws t] m]|] rest H Hr.
    - simpl in H. apply andb_prop in H. destruct H as [H Hm]. apply andb_prop in H. destruct H as [Hws Ht].
      destruct (parse_dec_count t Ht) as (q & Hq).
      unfold r_dens, p_density. rewrite !sapp_assoc.
      change (ws ++ "@" ++ t ++ match m with Some ch => String ch "" | None => "" end ++ rest)
        with (ws ++ String "@" (t ++ match m with Some ch => String ch "" | None => "" end ++ rest)).
      rewrite (lit_blanks "@" ws _ eq_refl Hws).
      rewrite (p_number_ok t _ q Ht Hq).
      + unfold v_dens. rewrite Hq. destruct m as [ch|].
        * apply orb_prop in Hm. destruct Hm as [Hm|Hm]; apply Ascii.eqb_eq in Hm; subst ch; reflexivity.
        * change ("" ++ rest) with rest. unfold tail_ok in Hr. destruct (skip_ws rest) as [|c r]; [reflexivity|].
          simpl in Hr. apply Ascii.eqb_eq in Hr. subst c. reflexivity.
      + destruct m as [ch|]; [simpl; apply marker_nf_count; exact Hm|]. apply tail_ok_nf_count. exact Hr.
    - simpl. unfold p_density, lit. unfold tail_ok in Hr. destruct (skip_ws rest) as [|c r]; [reflexivity|].
      simpl in Hr. pose proof (rparen_not_at c Hr) as Ha. apply negb_true in Ha. rewrite Ha. reflexivity.
  Qed.

  Theorem compound_accept_rest : forall t rest, wfb T t = true -> tail_ok rest = true ->
    p_compound T (render t ++ rest) = POk (v_comp T (c_comp t), v_dens (c_density t)) rest.
  Proof.
    intros t rest H Hr. unfold wfb in H. apply andb_prop in H. destruct H as [Hc Hd].
    unfold p_compound. rewrite render_eq, sapp_assoc.
    rewrite (comp_accept (c_comp t) _ (r_dens (c_density t) ++ rest));
      [| | exact Hc | apply dens_stops_rest; assumption].
    - cbn [pbind]. rewrite (dens_ok_rest _ rest Hd Hr). reflexivity.
    - pose proof (cdepth_len (c_comp t)). rewrite slen_app. lia.
  Qed.

  Theorem compound_accept : forall t, wfb T t = true ->
    p_compound T (render t) = POk (v_comp T (c_comp t), v_dens (c_density t)) "".
  Proof.
    intros t H. rewrite <- (sapp_nil_r (render t)). apply compound_accept_rest; [exact H|reflexivity].
  Qed.
End Accept.
