(* Proofs/C01Positions.v — every element of a well-formed tree sits at a position of the kind the
   rejection theorems of C01Reject.v speak about, so "one element of a well-formed tree replaced by
   an undefined one" is rejected with the documented exception, at any nesting depth. *)
From Coq Require Import ZArith QArith String Ascii List Bool Lia.
From PT Require Import Str Dec Py Loaders Formula Pyparse Grammar C01Lex C01Wf C01Accept C01Consume C01Reject.
Import ListNotations.
Open Scope string_scope.

(* e is an element of g, reached by path p, and Z is the text of g after e *)
Inductive at_group : group -> bpath -> elem -> string -> Prop :=
| AG_imp : forall c es1 e es2, at_group (GImp c (es1 ++ e :: es2)) (BImp c es1) e (r_elems es2)
| AG_exp : forall l inner r c pre s p e Z, at_comp inner pre s p e Z ->
    at_group (GExp l inner r c) (BExp l pre s p) e (Z ++ r ++ ")" ++ r_ctext c)
with at_comp : list (sep * group) -> list (sep * group) -> sep -> bpath -> elem -> string -> Prop :=
| AC : forall pre s g post p e Z, at_group g p e Z ->
    at_comp (pre ++ (s, g) :: post) pre s p e (Z ++ r_tail post).

Scheme at_group_mut := Minimality for at_group Sort Prop
  with at_comp_mut := Minimality for at_comp Sort Prop.

Lemma r_tail_app : forall a b, r_tail (a ++ b) = r_tail a ++ r_tail b.
Proof.
  induction a as [|[s g] a IH]; intro b; [reflexivity|]. simpl app. cbn [r_tail]. rewrite IH, !sapp_assoc. reflexivity.
Qed.

Lemma r_comp_split : forall pre s g post,
  r_comp (pre ++ (s, g) :: post)%list = r_pre pre s ++ r_group g ++ r_tail post.
Proof.
  intros [|[s0 g0] pre] s g post.
  - simpl app. rewrite r_comp_cons. reflexivity.
  - simpl app. unfold r_pre. rewrite !r_comp_cons, r_tail_app. cbn [r_tail]. rewrite !sapp_assoc. reflexivity.
Qed.

(* ---------------------------------------------------------------- the text decomposes *)
Lemma at_render :
  (forall g p e Z, at_group g p e Z -> r_group g = r_path p ++ r_elem e ++ Z) /\
  (forall l pre s p e Z, at_comp l pre s p e Z -> r_comp l = r_pre pre s ++ r_path p ++ r_elem e ++ Z).
Proof.
  split.
  - apply (at_group_mut (fun g p e Z => r_group g = r_path p ++ r_elem e ++ Z)
                        (fun l pre s p e Z => r_comp l = r_pre pre s ++ r_path p ++ r_elem e ++ Z)).
    + intros c es1 e es2. rewrite r_group_imp. fold (r_elems (es1 ++ e :: es2)).
      rewrite r_elems_app, r_elems_cons. cbn [r_path]. rewrite !sapp_assoc. reflexivity.
    + intros l inner r c pre s p e Z _ IH. rewrite r_group_exp, IH. cbn [r_path]. rewrite !sapp_assoc. reflexivity.
    + intros pre s g post p e Z _ IH. rewrite r_comp_split, IH, !sapp_assoc. reflexivity.
  - apply (at_comp_mut (fun g p e Z => r_group g = r_path p ++ r_elem e ++ Z)
                       (fun l pre s p e Z => r_comp l = r_pre pre s ++ r_path p ++ r_elem e ++ Z)).
    + intros c es1 e es2. rewrite r_group_imp. fold (r_elems (es1 ++ e :: es2)).
      rewrite r_elems_app, r_elems_cons. cbn [r_path]. rewrite !sapp_assoc. reflexivity.
    + intros l inner r c pre s p e Z _ IH. rewrite r_group_exp, IH. cbn [r_path]. rewrite !sapp_assoc. reflexivity.
    + intros pre s g post p e Z _ IH. rewrite r_comp_split, IH, !sapp_assoc. reflexivity.
Qed.

(* ---------------------------------------------------------------- the position is well formed *)
Lemma join_ok_head : forall g p e Z, at_group g p e Z -> forall b s, join_ok b s g = join_ok b s (path_head p).
Proof. intros g p e Z H b s. destruct H; [destruct c|]; reflexivity. Qed.

Lemma chain_split : forall pre b s g post, chain_ok b (pre ++ (s, g) :: post) = true ->
  chain_ok b (pre ++ [(s, g)]) = true /\ chain_ok (is_imp g) post = true.
Proof.
  induction pre as [|[s0 g0] pre IH]; intros b s g post H.
  - simpl in *. apply andb_prop in H. destruct H as [H Hp]. rewrite H. auto.
  - simpl in H. apply andb_prop in H. destruct H as [H Hr]. destruct (IH _ _ _ _ Hr) as [H1 H2].
    split; [|exact H2]. simpl. rewrite H, H1. reflexivity.
Qed.

Lemma chain_last_head : forall pre b s g g', (forall b', join_ok b' s g = join_ok b' s g') ->
  chain_ok b (pre ++ [(s, g)]) = true -> chain_ok b (pre ++ [(s, g')]) = true.
Proof.
  induction pre as [|[s0 g0] pre IH]; intros b s g g' Hj H.
  - simpl in *. rewrite <- Hj. rewrite !andb_true_r in *. exact H.
  - simpl in *. apply andb_prop in H. destruct H as [H Hr]. rewrite H. simpl. exact (IH _ _ _ _ Hj Hr).
Qed.

Section Positions.
  Variable T : ptable.

  Definition pos_ok_g (g : group) (p : bpath) (e : elem) (Z : string) : Prop :=
    wf_group T g = true ->
    wf_path T p = true /\ wf_elem T e = true /\
    forall X, group_follow g X = true -> hdp nf_elem (Z ++ X) = true.
  Definition pos_ok_c (l pre : list (sep * group)) (s : sep) (p : bpath) (e : elem) (Z : string) : Prop :=
    wf_comp T l = true ->
    wf_pre T pre s p = true /\ wf_path T p = true /\ wf_elem T e = true /\
    forall X, hdp nf_imp X = true -> hdp nf_elem (Z ++ X) = true.

  Lemma pos_ok_imp : forall c es1 e es2, pos_ok_g (GImp c (es1 ++ e :: es2)) (BImp c es1) e (r_elems es2).
  Proof.
    intros c es1 e es2 H. destruct (wf_imp_inv T _ _ H) as (Hc & e0 & es0 & E & He0 & Hes0).
    assert (Hall : forallb (wf_elem T) (es1 ++ e :: es2) = true) by (rewrite E; simpl; rewrite He0, Hes0; reflexivity).
    rewrite forallb_app in Hall. apply andb_prop in Hall. destruct Hall as [H1 H2]. simpl in H2.
    apply andb_prop in H2. destruct H2 as [He H2].
    split; [simpl; rewrite Hc, H1; reflexivity|]. split; [exact He|].
    intros X HX. simpl in HX. apply (elems_follow T); assumption.
  Qed.

  Lemma pos_ok_exp : forall l inner r c pre s p e Z, pos_ok_c inner pre s p e Z ->
    pos_ok_g (GExp l inner r c) (BExp l pre s p) e (Z ++ r ++ ")" ++ r_ctext c).
  Proof.
    intros l inner r c pre s p e Z IH H.
    simpl in H. apply andb_prop in H. destruct H as [H Hall]. apply andb_prop in H. destruct H as [H Hsh].
    apply andb_prop in H. destruct H as [H Hc]. apply andb_prop in H. destruct H as [Hl Hr].
    assert (Hwc : wf_comp T inner = true) by (unfold wf_comp; rewrite Hsh, Hall; reflexivity).
    destruct (IH Hwc) as (Hpre & Hp & He & Hfo).
    split; [simpl; rewrite Hl, Hpre, Hp; reflexivity|]. split; [exact He|].
    intros X _. rewrite !sapp_assoc. apply Hfo.
    change (")" ++ r_ctext c ++ X) with (String ")" (r_ctext c ++ X)).
    destruct r as [|x r]; [reflexivity|]. simpl in Hr. apply andb_prop in Hr. destruct Hr as [Hx _].
    simpl. apply blank_nf_imp. exact Hx.
  Qed.

  Lemma pos_ok_comp : forall pre s g post p e Z, at_group g p e Z -> pos_ok_g g p e Z ->
    pos_ok_c (pre ++ (s, g) :: post) pre s p e (Z ++ r_tail post).
  Proof.
    intros pre s g post p e Z Hat IH H. unfold wf_comp in H. apply andb_prop in H. destruct H as [Hsh Hall].
    rewrite forallb_app in Hall. apply andb_prop in Hall. destruct Hall as [Hwpre Hall]. simpl in Hall.
    apply andb_prop in Hall. destruct Hall as [Hg Hwpost].
    destruct (IH Hg) as (Hp & He & Hfo).
    assert (Hchain : wf_pre T pre s p = true /\ chain_ok (is_imp g) post = true).
    { destruct pre as [|[s0 g0] pre'].
      - simpl in Hsh. split; [reflexivity|exact Hsh].
      - simpl in Hsh. destruct (chain_split _ _ _ _ _ Hsh) as [H1 H2]. split; [|exact H2].
        unfold wf_pre. change (((s0, g0) :: pre') ++ [(s, path_head p)])%list with ((s0, g0) :: (pre' ++ [(s, path_head p)]))%list.
        simpl comp_shape. rewrite (chain_last_head pre' _ s g (path_head p) (fun b' => join_ok_head g p e Z Hat b' s) H1).
        rewrite Hwpre. reflexivity. }
    destruct Hchain as [Hpre Hpost].
    split; [exact Hpre|]. split; [exact Hp|]. split; [exact He|].
    intros X HX. rewrite sapp_assoc. apply Hfo. apply (tail_follow T); assumption.
  Qed.

  Theorem at_comp_wf : forall l pre s p e Z, at_comp l pre s p e Z -> pos_ok_c l pre s p e Z.
  Proof.
    apply (at_comp_mut (fun g p e Z => at_group g p e Z /\ pos_ok_g g p e Z)
                       (fun l pre s p e Z => at_comp l pre s p e Z /\ pos_ok_c l pre s p e Z)).
    - intros. split; [constructor|apply pos_ok_imp].
    - intros l inner r c pre s p e Z Hat [_ IH]. split; [constructor; exact Hat|apply pos_ok_exp; exact IH].
    - intros pre s g post p e Z Hat [_ IH]. split; [constructor; exact Hat|apply pos_ok_comp; assumption].
  Qed.

  (* ---------------------------------------------------------------- one element of a tree replaced *)
  (* l' is l with the element e at some position replaced by e' *)
  Definition replaced (l l' : comp) (e e' : elem) : Prop :=
    exists pre s p Z, at_comp l pre s p e Z /\ at_comp l' pre s p e' Z.

  Lemma replaced_text : forall l l' e e' X, wf_comp T l = true -> replaced l l' e e' -> hdp nf_imp X = true ->
    exists P Z, wf_pos T P = true /\ r_comp l' ++ X = r_pos P ++ r_elem e' ++ Z /\ hdp nf_elem Z = true.
  Proof.
    intros l l' e e' X Hl (pre & s & p & Z & Ha & Ha') HX.
    destruct (at_comp_wf _ _ _ _ _ _ Ha Hl) as (Hpre & Hp & _ & Hfo).
    exists (mkPos pre s p), (Z ++ X). split; [unfold wf_pos; simpl; rewrite Hpre, Hp; reflexivity|].
    split; [|apply Hfo; exact HX].
    destruct at_render as [_ R]. rewrite (R _ _ _ _ _ _ Ha'). unfold r_pos. simpl. rewrite !sapp_assoc. reflexivity.
  Qed.

  Lemma lex_elem_tail_notlower : forall e Z, lex_elem e = true -> hdp nf_elem Z = true ->
    exists Z', r_elem e ++ Z = el_sym e ++ Z' /\ hdp notlower Z' = true.
  Proof.
    intros e Z H HZ. unfold lex_elem in H. apply andb_prop in H. destruct H as [H Hc].
    exists (tag_iso (el_iso e) ++ tag_ion (el_ion e) ++ r_ctext (el_cnt e) ++ Z).
    split; [rewrite r_elem_eq, !sapp_assoc; reflexivity|].
    apply tag_iso_hd. apply tag_ion_hd. apply ctext_hd; [exact Hc|exact (hdp_impl _ _ nf_elem_sym _ HZ)].
  Qed.

  Theorem replaced_unknown_symbol : forall l l' e e' X, wf_comp T l = true -> replaced l l' e e' ->
    hdp nf_imp X = true -> lex_elem e' = true -> t_symbol T (el_sym e') = None ->
    p_compound T (r_comp l' ++ X) = PAbort ValueErr.
  Proof.
    intros l l' e e' X Hl Hr HX He' Hn. destruct (replaced_text l l' e e' X Hl Hr HX) as (P & Z & HP & -> & HZ).
    destruct (lex_elem_tail_notlower e' Z He' HZ) as (Z' & -> & HZ').
    apply unknown_symbol_aborts; try assumption.
    unfold lex_elem in He'. apply andb_prop in He'. destruct He' as [He' _]. apply andb_prop in He'. destruct He' as [He' _].
    apply andb_prop in He'. tauto.
  Qed.

  Theorem replaced_undefined_isotope : forall l l' e e' X z n v, wf_comp T l = true -> replaced l l' e e' ->
    hdp nf_imp X = true -> lex_elem e' = true -> t_symbol T (el_sym e') = Some (z, 0%Z) ->
    el_iso e' = Some n -> parse_int n = Some v -> t_has_iso T z v = false ->
    p_compound T (r_comp l' ++ X) = PAbort KeyErr.
  Proof.
    intros l l' e e' X z n v Hl Hr HX He' Hz Hn Hv Hhas.
    destruct (replaced_text l l' e e' X Hl Hr HX) as (P & Z & HP & -> & HZ).
    apply (undefined_isotope_aborts T P e' z n v Z); assumption.
  Qed.

  Theorem replaced_undefined_charge : forall l l' e e' X z a0 q, wf_comp T l = true -> replaced l l' e e' ->
    hdp nf_imp X = true -> lex_elem e' = true -> t_symbol T (el_sym e') = Some (z, a0) ->
    match el_iso e' with
    | None => True
    | Some n => a0 = 0%Z /\ exists v, parse_int n = Some v /\ t_has_iso T z v = true
    end ->
    el_ion e' <> None -> ion_val (el_ion e') = Some q -> t_has_ion T z q = false ->
    p_compound T (r_comp l' ++ X) = PAbort ValueErr.
  Proof.
    intros l l' e e' X z a0 q Hl Hr HX He' Hz Hiso Hne Hq Hhas.
    destruct (replaced_text l l' e e' X Hl Hr HX) as (P & Z & HP & -> & HZ).
    apply (undefined_charge_aborts T P e' z a0 q Z); assumption.
  Qed.
End Positions.
