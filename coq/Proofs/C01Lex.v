(* Proofs/C01Lex.v — token level of the C01 parser proofs: strings, character classes,
   the lexical shape of counts / isotope / ion texts, and what each token parser of
   Model/Pyparse.v does on such a text followed by a harmless continuation. *)
From Coq Require Import ZArith QArith String Ascii List Bool Lia.
From PT Require Import Str Dec Py Loaders Formula Pyparse Grammar.
Import ListNotations.
Open Scope string_scope.

(* ---------------------------------------------------------------- strings *)
Lemma sapp_nil_r : forall s, s ++ "" = s.
Proof. induction s as [|c s IH]; simpl; [reflexivity|]. rewrite IH. reflexivity. Qed.

Lemma sapp_assoc : forall a b c, (a ++ b) ++ c = a ++ (b ++ c).
Proof. induction a as [|x a IH]; intros b c; simpl; [reflexivity|]. rewrite IH. reflexivity. Qed.

Lemma slen_app : forall a b, String.length (a ++ b) = (String.length a + String.length b)%nat.
Proof. induction a as [|x a IH]; intro b; simpl; [reflexivity|]. rewrite IH. reflexivity. Qed.

Lemma all_chars_app : forall p a b, all_chars p (a ++ b) = (all_chars p a && all_chars p b)%bool.
Proof.
  induction a as [|x a IH]; intro b; simpl; [reflexivity|]. rewrite IH. rewrite andb_assoc. reflexivity.
Qed.

Lemma all_chars_impl : forall (p q : ascii -> bool), (forall c, p c = true -> q c = true) ->
  forall s, all_chars p s = true -> all_chars q s = true.
Proof.
  intros p q H. induction s as [|c s IH]; simpl; [reflexivity|]. intro Hs.
  apply andb_prop in Hs. destruct Hs as [H1 H2]. rewrite (H _ H1), (IH H2). reflexivity.
Qed.

(* the first character, if there is one, satisfies p *)
Definition hdp (p : ascii -> bool) (s : string) : bool :=
  match s with EmptyString => true | String c _ => p c end.

Lemma hdp_impl : forall (p q : ascii -> bool), (forall c, p c = true -> q c = true) ->
  forall s, hdp p s = true -> hdp q s = true.
Proof. intros p q H [|c s]; simpl; [reflexivity|]. apply H. Qed.

Lemma hdp_app : forall p a b, hdp p (a ++ b) = match a with EmptyString => hdp p b | String c _ => p c end.
Proof. intros p [|c a] b; reflexivity. Qed.

(* ---------------------------------------------------------------- all 256 characters *)
Definition forall_bool (p : bool -> bool) : bool := (p true && p false)%bool.
Lemma forall_bool_spec : forall p, forall_bool p = true -> forall b, p b = true.
Proof. intros p H. apply andb_prop in H. destruct H as [H1 H2]. intros []; assumption. Qed.

Definition ascii_all (p : ascii -> bool) : bool :=
  forall_bool (fun b0 => forall_bool (fun b1 => forall_bool (fun b2 => forall_bool (fun b3 =>
  forall_bool (fun b4 => forall_bool (fun b5 => forall_bool (fun b6 => forall_bool (fun b7 =>
    p (Ascii b0 b1 b2 b3 b4 b5 b6 b7))))))))).
Lemma ascii_all_spec : forall p, ascii_all p = true -> forall c, p c = true.
Proof.
  intros p H [b0 b1 b2 b3 b4 b5 b6 b7]. unfold ascii_all in H.
  apply (forall_bool_spec _ (forall_bool_spec _ (forall_bool_spec _ (forall_bool_spec _
        (forall_bool_spec _ (forall_bool_spec _ (forall_bool_spec _ (forall_bool_spec _ H b0) b1) b2) b3) b4) b5) b6) b7).
Qed.

Lemma char_impl : forall (p q : ascii -> bool),
  ascii_all (fun c => implb (p c) (q c)) = true -> forall c, p c = true -> q c = true.
Proof.
  intros p q H c Hp. pose proof (ascii_all_spec _ H c) as Hc. simpl in Hc. rewrite Hp in Hc. exact Hc.
Qed.

(* ---------------------------------------------------------------- character classes *)
Definition nonws (c : ascii) : bool := negb (is_pws c).
Definition nondigit (c : ascii) : bool := negb (is_digit c).
Definition is_dot (c : ascii) : bool := Ascii.eqb c ".".
(* cannot continue or start a count *)
Definition nf_count (c : ascii) : bool := negb (is_digit c || is_dot c).
(* cannot continue a symbol or start the isotope / ion tag *)
Definition nf_sym (c : ascii) : bool := negb (is_lower c || Ascii.eqb c "[" || Ascii.eqb c "{").
(* may follow an element *)
Definition nf_elem (c : ascii) : bool := (nf_sym c && nf_count c)%bool.
(* may follow an implicit group: additionally, no further element starts here *)
Definition nf_imp (c : ascii) : bool := (nf_elem c && negb (is_upper c))%bool.
Definition is_blank (c : ascii) : bool := (Ascii.eqb c " " || Ascii.eqb c "009")%bool.
Definition digit_or_dot (c : ascii) : bool := (is_digit c || is_dot c)%bool.
Definition nonzero_digit (c : ascii) : bool := (is_digit c && negb (Ascii.eqb c "0"))%bool.

Lemma not_white_hdp : forall s, not_white s = hdp nonws s.
Proof. intros [|c s]; reflexivity. Qed.

Ltac char_fact := apply char_impl; vm_compute; reflexivity.

Lemma digit_nonws : forall c, is_digit c = true -> nonws c = true. Proof. char_fact. Qed.
Lemma dod_nonws : forall c, digit_or_dot c = true -> nonws c = true. Proof. char_fact. Qed.
Lemma upper_nonws : forall c, is_upper c = true -> nonws c = true. Proof. char_fact. Qed.
Lemma blank_pws : forall c, is_blank c = true -> is_pws c = true. Proof. char_fact. Qed.
Lemma nf_elem_sym : forall c, nf_elem c = true -> nf_sym c = true. Proof. char_fact. Qed.
Lemma nf_elem_count : forall c, nf_elem c = true -> nf_count c = true. Proof. char_fact. Qed.
Lemma nf_imp_elem : forall c, nf_imp c = true -> nf_elem c = true. Proof. char_fact. Qed.
Lemma nf_imp_count : forall c, nf_imp c = true -> nf_count c = true. Proof. char_fact. Qed.
Lemma nf_imp_notupper : forall c, nf_imp c = true -> negb (is_upper c) = true. Proof. char_fact. Qed.
Lemma nf_count_nondigit : forall c, nf_count c = true -> nondigit c = true. Proof. char_fact. Qed.
Lemma nf_count_notdot : forall c, nf_count c = true -> negb (is_dot c) = true. Proof. char_fact. Qed.
Lemma nf_count_not0 : forall c, nf_count c = true -> negb (Ascii.eqb c "0") = true. Proof. char_fact. Qed.
Lemma upper_nf_elem : forall c, is_upper c = true -> nf_elem c = true. Proof. char_fact. Qed.
Lemma pws_nf_imp : forall c, is_pws c = true -> nf_imp c = true. Proof. char_fact. Qed.
Lemma dod_nf_sym : forall c, digit_or_dot c = true -> nf_sym c = true. Proof. char_fact. Qed.
Lemma nzd_digit : forall c, nonzero_digit c = true -> is_digit c = true. Proof. char_fact. Qed.
Lemma digit_dod : forall c, is_digit c = true -> digit_or_dot c = true. Proof. char_fact. Qed.
Lemma upper_not_lower : forall c, is_upper c = true -> is_lower c = false.
Proof. intros c H. destruct (is_lower c) eqn:E; [|reflexivity].
  assert (X : forall c, is_upper c = true -> negb (is_lower c) = true) by char_fact.
  specialize (X c H). rewrite E in X. discriminate. Qed.
Lemma digit_not_ws : forall c, is_digit c = true -> negb (is_ws c) = true. Proof. char_fact. Qed.
Lemma dod_not_ws : forall c, digit_or_dot c = true -> negb (is_ws c) = true. Proof. char_fact. Qed.
Lemma dod_not_minus : forall c, digit_or_dot c = true -> negb (Ascii.eqb c "-") = true. Proof. char_fact. Qed.
Lemma dod_not_plus : forall c, digit_or_dot c = true -> negb (Ascii.eqb c "+") = true. Proof. char_fact. Qed.

Lemma negb_true : forall b, negb b = true -> b = false.
Proof. intros []; simpl; congruence. Qed.

(* ---------------------------------------------------------------- white space *)
Lemma skip_ws_id : forall s, not_white s = true -> skip_ws s = s.
Proof. intros [|c s]; simpl; [reflexivity|]. intro H. apply negb_true in H. rewrite H. reflexivity. Qed.

Lemma skip_ws_app : forall l s, all_chars is_pws l = true -> skip_ws (l ++ s) = skip_ws s.
Proof.
  induction l as [|c l IH]; intros s H; simpl in *; [reflexivity|].
  apply andb_prop in H. destruct H as [H1 H2]. rewrite H1. apply IH. exact H2.
Qed.

Lemma skip_ws_blanks : forall l s, all_chars is_blank l = true -> not_white s = true -> skip_ws (l ++ s) = s.
Proof.
  intros l s Hl Hs. rewrite skip_ws_app by (apply (all_chars_impl _ _ blank_pws); exact Hl).
  apply skip_ws_id. exact Hs.
Qed.

Lemma lit_here : forall c r, nonws c = true -> lit c (String c r) = POk tt r.
Proof.
  intros c r H. unfold lit. rewrite skip_ws_id by exact H. rewrite Ascii.eqb_refl. reflexivity.
Qed.

Lemma lit_blanks : forall c l r, nonws c = true -> all_chars is_blank l = true ->
  lit c (l ++ String c r) = POk tt r.
Proof.
  intros c l r H Hl. unfold lit. rewrite skip_ws_blanks by assumption. rewrite Ascii.eqb_refl. reflexivity.
Qed.

Lemma lit_other : forall c s, not_white s = true -> hdp (fun d => negb (Ascii.eqb c d)) s = true ->
  lit c s = PFail.
Proof.
  intros c s Hw Hd. unfold lit. rewrite skip_ws_id by exact Hw. destruct s as [|d r]; [reflexivity|].
  simpl in Hd. apply negb_true in Hd. rewrite Hd. reflexivity.
Qed.

(* ---------------------------------------------------------------- digits *)
Lemma span_digits_app : forall d rest, all_chars is_digit d = true -> hdp nondigit rest = true ->
  span_digits (d ++ rest) = (d, rest).
Proof.
  induction d as [|c d IH]; intros rest Hd Hr; simpl in *.
  - destruct rest as [|c r]; [reflexivity|]. simpl in Hr. apply negb_true in Hr. simpl. rewrite Hr. reflexivity.
  - apply andb_prop in Hd. destruct Hd as [H1 H2]. rewrite H1. rewrite (IH rest H2 Hr). reflexivity.
Qed.

Lemma span_digits_spec : forall s a b, span_digits s = (a, b) ->
  s = a ++ b /\ all_chars is_digit a = true /\ hdp nondigit b = true.
Proof.
  induction s as [|c s IH]; intros a b H; simpl in H.
  - inversion H; subst. repeat split.
  - destruct (is_digit c) eqn:E.
    + destruct (span_digits s) as [d t] eqn:Es. inversion H; subst. destruct (IH d b eq_refl) as (H1 & H2 & H3).
      repeat split; simpl; [rewrite <- H1; reflexivity | rewrite E, H2; reflexivity | exact H3].
    + inversion H; subst. repeat split. simpl. unfold nondigit. rewrite E. reflexivity.
Qed.

(* [1-9][0-9]* *)
Definition is_whole (t : string) : bool :=
  match t with
  | String c d => (nonzero_digit c && all_chars is_digit d)%bool
  | EmptyString => false
  end.

Lemma is_whole_digits : forall t, is_whole t = true -> all_chars is_digit t = true.
Proof.
  intros [|c d] H; simpl in *; [discriminate|]. apply andb_prop in H. destruct H as [H1 H2].
  rewrite (nzd_digit _ H1), H2. reflexivity.
Qed.

Lemma re_whole_ok : forall t rest, is_whole t = true -> hdp nondigit rest = true ->
  re_whole (t ++ rest) = POk t rest.
Proof.
  intros [|c d] rest H Hr; simpl in H; [discriminate|]. apply andb_prop in H. destruct H as [H1 H2].
  unfold re_whole. simpl append. rewrite skip_ws_id by (simpl; apply digit_nonws, nzd_digit; exact H1).
  unfold nonzero_digit in H1. rewrite H1. rewrite (span_digits_app d rest H2 Hr). reflexivity.
Qed.

Lemma re_whole_fail : forall s, not_white s = true -> hdp (fun c => negb (nonzero_digit c)) s = true ->
  re_whole s = PFail.
Proof.
  intros s Hw H. unfold re_whole. rewrite skip_ws_id by exact Hw. destruct s as [|c r]; [reflexivity|].
  simpl in H. apply negb_true in H. unfold nonzero_digit in H. rewrite H. reflexivity.
Qed.

(* ---------------------------------------------------------------- the fraction regex *)
Definition re_fract' (s : string) : pres string :=
  let s0 := skip_ws s in
  let '(ip, t) :=
    match s0 with
    | String c r => if Ascii.eqb c "0" then ("0", r) else if is_digit c then span_digits s0 else ("", s0)
    | EmptyString => ("", s0)
    end in
  match t with
  | String c r => if is_dot c then let '(d, t') := span_digits r in POk (ip ++ "." ++ d) t' else PFail
  | EmptyString => PFail
  end.

Lemma re_fract_eq : forall s, re_fract s = re_fract' s.
Proof.
  intro s. unfold re_fract, re_fract'. cbv zeta.
  set (s0 := skip_ws s).
  assert (E1 : match s0 with
               | String "0"%char r => ("0", r)
               | String c r => if is_digit c then span_digits s0 else ("", s0)
               | EmptyString => ("", s0)
               end =
               match s0 with
               | String c r => if Ascii.eqb c "0" then ("0", r) else if is_digit c then span_digits s0 else ("", s0)
               | EmptyString => ("", s0)
               end).
  { destruct s0 as [|c r]; [reflexivity|].
    destruct c as [[] [] [] [] [] [] [] []]; reflexivity. }
  rewrite E1. clear E1.
  destruct (match s0 with
            | String c r => if Ascii.eqb c "0" then ("0", r) else if is_digit c then span_digits s0 else ("", s0)
            | EmptyString => ("", s0)
            end) as [ip t].
  destruct t as [|c r]; [reflexivity|].
  destruct c as [[] [] [] [] [] [] [] []]; reflexivity.
Qed.

(* integer part of a fraction: empty, "0", or without leading zero *)
Definition is_ipart (ip : string) : bool :=
  (all_chars is_digit ip &&
   match ip with
   | String c r => (negb (Ascii.eqb c "0") || String.eqb r "")%bool
   | EmptyString => true
   end)%bool.

Lemma re_fract_ok : forall ip d rest, is_ipart ip = true -> all_chars is_digit d = true ->
  hdp nondigit rest = true ->
  re_fract (ip ++ "." ++ d ++ rest) = POk (ip ++ "." ++ d) rest.
Proof.
  intros ip d rest Hip Hd Hr. rewrite re_fract_eq. unfold re_fract'. cbv zeta.
  unfold is_ipart in Hip. apply andb_prop in Hip. destruct Hip as [Hdig Hlead].
  destruct ip as [|c r].
  - simpl append. simpl skip_ws. simpl. rewrite (span_digits_app d rest Hd Hr). reflexivity.
  - simpl in Hdig. apply andb_prop in Hdig. destruct Hdig as [Hc Hrd].
    simpl append. rewrite skip_ws_id by (simpl; apply digit_nonws; exact Hc).
    destruct (Ascii.eqb c "0") eqn:E0.
    + simpl in Hlead. apply String.eqb_eq in Hlead. subst r. apply Ascii.eqb_eq in E0. subst c.
      simpl. rewrite (span_digits_app d rest Hd Hr). reflexivity.
    + rewrite Hc.
      change (String c (r ++ String "." (d ++ rest))) with (String c r ++ String "." (d ++ rest)).
      rewrite span_digits_app; [| simpl; rewrite Hc, Hrd; reflexivity | reflexivity].
      simpl. rewrite (span_digits_app d rest Hd Hr). reflexivity.
Qed.

(* a whole number not followed by '.' is not a fraction *)
Lemma re_fract_whole : forall t rest, is_whole t = true -> hdp nf_count rest = true ->
  re_fract (t ++ rest) = PFail.
Proof.
  intros [|c d] rest H Hr; simpl in H; [discriminate|]. apply andb_prop in H. destruct H as [H1 H2].
  rewrite re_fract_eq. unfold re_fract'. cbv zeta. simpl append.
  rewrite skip_ws_id by (simpl; apply digit_nonws, nzd_digit; exact H1).
  pose proof (nzd_digit _ H1) as Hc. unfold nonzero_digit in H1. rewrite Hc in H1. simpl in H1.
  apply negb_true in H1. rewrite H1, Hc.
  change (String c (d ++ rest)) with (String c d ++ rest).
  rewrite span_digits_app; [| simpl; rewrite Hc, H2; reflexivity | exact (hdp_impl _ _ nf_count_nondigit _ Hr)].
  destruct rest as [|x r]; [reflexivity|]. simpl in Hr. apply nf_count_notdot in Hr. apply negb_true in Hr.
  rewrite Hr. reflexivity.
Qed.

(* nothing that looks like a number here *)
Lemma re_fract_none : forall s, not_white s = true -> hdp nf_count s = true -> re_fract s = PFail.
Proof.
  intros s Hw H. rewrite re_fract_eq. unfold re_fract'. cbv zeta. rewrite skip_ws_id by exact Hw.
  destruct s as [|c r]; [reflexivity|]. simpl in H.
  pose proof (nf_count_not0 _ H) as H0. apply negb_true in H0. rewrite H0.
  pose proof (nf_count_nondigit _ H) as H1. apply negb_true in H1. rewrite H1.
  pose proof (nf_count_notdot _ H) as H2. apply negb_true in H2. rewrite H2. reflexivity.
Qed.

(* ---------------------------------------------------------------- strip, int(), float() on clean texts *)
Lemma srev_aux_app : forall s acc, srev_aux s acc = srev_aux s "" ++ acc.
Proof.
  induction s as [|c s IH]; intro acc; simpl; [reflexivity|].
  rewrite IH. rewrite (IH (String c "")). rewrite sapp_assoc. reflexivity.
Qed.

Lemma srev_cons : forall c s, srev (String c s) = srev s ++ String c "".
Proof. intros c s. unfold srev. simpl. apply srev_aux_app. Qed.

Lemma srev_app : forall a b, srev (a ++ b) = srev b ++ srev a.
Proof.
  induction a as [|c a IH]; intro b; simpl.
  - rewrite sapp_nil_r. reflexivity.
  - rewrite !srev_cons. rewrite IH. rewrite sapp_assoc. reflexivity.
Qed.

Lemma srev_invol : forall s, srev (srev s) = s.
Proof.
  induction s as [|c s IH]; [reflexivity|]. rewrite srev_cons, srev_app. rewrite IH. reflexivity.
Qed.

Lemma all_chars_srev : forall p s, all_chars p (srev s) = all_chars p s.
Proof.
  intros p. induction s as [|c s IH]; [reflexivity|]. rewrite srev_cons, all_chars_app. simpl.
  rewrite IH. rewrite andb_true_r. apply andb_comm.
Qed.

Lemma lstrip_id : forall s, hdp (fun c => negb (is_ws c)) s = true -> lstrip s = s.
Proof. intros [|c s] H; simpl in *; [reflexivity|]. apply negb_true in H. rewrite H. reflexivity. Qed.

Lemma all_chars_hdp : forall p s, all_chars p s = true -> hdp p s = true.
Proof. intros p [|c s] H; simpl in *; [reflexivity|]. apply andb_prop in H. tauto. Qed.

Lemma strip_id : forall s, all_chars (fun c => negb (is_ws c)) s = true -> strip s = s.
Proof.
  intros s H. unfold strip, rstrip. rewrite (lstrip_id s) by (apply all_chars_hdp; exact H).
  rewrite lstrip_id by (apply all_chars_hdp; rewrite all_chars_srev; exact H).
  apply srev_invol.
Qed.

Lemma eat_sign_none : forall c r, Ascii.eqb c "-" = false -> Ascii.eqb c "+" = false ->
  eat_sign (String c r) = (false, String c r).
Proof.
  intros c r. destruct c as [[] [] [] [] [] [] [] []]; intros H1 H2; try reflexivity;
    (vm_compute in H1; discriminate) || (vm_compute in H2; discriminate).
Qed.

(* value of a digit string read after an accumulator *)
Fixpoint dnum (d : string) (acc : Z) : Z :=
  match d with
  | String a r => dnum r (acc * 10 + digit_val a)
  | EmptyString => acc
  end.

Lemma eat_digits_app : forall d rest acc n, all_chars is_digit d = true -> hdp nondigit rest = true ->
  eat_digits (d ++ rest) acc n = (dnum d acc, (n + Z.of_nat (String.length d))%Z, rest).
Proof.
  induction d as [|c d IH]; intros rest acc n Hd Hr.
  - simpl. rewrite Z.add_0_r. destruct rest as [|x r]; [reflexivity|]. simpl in Hr. apply negb_true in Hr.
    simpl. rewrite Hr. reflexivity.
  - simpl in Hd. apply andb_prop in Hd. destruct Hd as [H1 H2]. simpl append.
    cbn [eat_digits]. rewrite H1. rewrite (IH rest _ _ H2 Hr). cbn [dnum String.length].
    f_equal. f_equal. lia.
Qed.

Lemma digit_val_nonneg : forall c, is_digit c = true -> (0 <= digit_val c)%Z.
Proof.
  intros c H. unfold is_digit in H. apply andb_prop in H. destruct H as [H1 _].
  apply N.leb_le in H1. unfold digit_val. lia.
Qed.

Lemma nzd_val_pos : forall c, nonzero_digit c = true -> (0 < digit_val c)%Z.
Proof.
  intros c H.
  assert (X : forall c, nonzero_digit c = true -> N.ltb 48 (N_of_ascii c) = true) by char_fact.
  specialize (X c H). apply N.ltb_lt in X. unfold digit_val. lia.
Qed.

Lemma dnum_ge : forall d acc, all_chars is_digit d = true -> (0 <= acc)%Z -> (acc <= dnum d acc)%Z.
Proof.
  induction d as [|c d IH]; intros acc Hd Ha; simpl; [lia|].
  simpl in Hd. apply andb_prop in Hd. destruct Hd as [H1 H2].
  pose proof (digit_val_nonneg c H1). specialize (IH (acc * 10 + digit_val c)%Z H2). lia.
Qed.

Lemma parse_int_whole : forall t, is_whole t = true -> exists v, parse_int t = Some v /\ (0 < v)%Z.
Proof.
  intros t H. pose proof (is_whole_digits t H) as Hd.
  unfold parse_int. rewrite strip_id by (apply (all_chars_impl _ _ digit_not_ws); exact Hd).
  destruct t as [|c d]; [discriminate|]. simpl in H. apply andb_prop in H. destruct H as [Hc Hdd].
  rewrite eat_sign_none.
  2:{ apply negb_true. apply dod_not_minus, digit_dod, nzd_digit. exact Hc. }
  2:{ apply negb_true. apply dod_not_plus, digit_dod, nzd_digit. exact Hc. }
  rewrite <- (sapp_nil_r (String c d)). rewrite eat_digits_app by (exact Hd || reflexivity).
  cbn [String.length]. rewrite Nat2Z.inj_succ.
  destruct (0 + Z.succ (Z.of_nat (String.length d)) =? 0)%Z eqn:E; [apply Z.eqb_eq in E; lia|].
  eexists. split; [reflexivity|]. simpl. pose proof (nzd_val_pos c Hc).
  pose proof (dnum_ge d (digit_val c) Hdd). lia.
Qed.

(* count texts: number | fraction with at least one digit *)
Definition is_fract (t : string) : bool :=
  let '(ip, r) := span_digits t in
  (is_ipart ip &&
   match r with
   | String c d => (is_dot c && all_chars is_digit d && negb (String.eqb ip "" && String.eqb d ""))%bool
   | EmptyString => false
   end)%bool.

Definition is_count_text (t : string) : bool := (is_whole t || is_fract t)%bool.

Lemma is_fract_spec : forall t, is_fract t = true ->
  exists ip d, t = ip ++ "." ++ d /\ is_ipart ip = true /\ all_chars is_digit d = true /\
               (String.length ip + String.length d <> 0)%nat.
Proof.
  intros t H. unfold is_fract in H. destruct (span_digits t) as [ip r] eqn:E.
  apply span_digits_spec in E. destruct E as (E1 & E2 & E3).
  apply andb_prop in H. destruct H as [Hip H]. destruct r as [|c d]; [discriminate|].
  apply andb_prop in H. destruct H as [H Hne]. apply andb_prop in H. destruct H as [Hdot Hd].
  apply Ascii.eqb_eq in Hdot. subst c. exists ip, d. repeat split; try assumption.
  destruct ip; destruct d; simpl in *; try discriminate; lia.
Qed.

Lemma ipart_dod : forall ip x, is_ipart ip = true -> hdp digit_or_dot (ip ++ String "." x) = true.
Proof.
  intros [|c r] x H; [reflexivity|]. simpl. unfold is_ipart in H. apply andb_prop in H. destruct H as [H _].
  simpl in H. apply andb_prop in H. destruct H as [H _]. apply digit_dod. exact H.
Qed.

Lemma fract_text_hd : forall ip d, is_ipart ip = true ->
  exists c r, ip ++ "." ++ d = String c r /\ digit_or_dot c = true.
Proof.
  intros ip d Hip. pose proof (ipart_dod ip d Hip) as X. destruct ip as [|c r].
  - exists "."%char, d. split; reflexivity.
  - exists c, (r ++ "." ++ d). split; [reflexivity|exact X].
Qed.

Lemma count_text_hd : forall t, is_count_text t = true -> exists c r, t = String c r /\ digit_or_dot c = true.
Proof.
  intros t H. unfold is_count_text in H. apply orb_prop in H. destruct H as [H|H].
  - destruct t as [|c d]; [discriminate|]. exists c, d. split; [reflexivity|]. simpl in H.
    apply andb_prop in H. destruct H as [H _]. apply digit_dod, nzd_digit. exact H.
  - destruct (is_fract_spec t H) as (ip & d & -> & Hip & Hd & _).
    pose proof (ipart_dod ip d Hip) as X. destruct ip as [|c r].
    + exists "."%char, d. split; reflexivity.
    + exists c, (r ++ "." ++ d). split; [reflexivity|exact X].
Qed.

Lemma parse_dec_whole : forall t, is_whole t = true -> exists q, parse_dec t = Some q.
Proof.
  intros t H. pose proof (is_whole_digits t H) as Hd.
  unfold parse_dec, parse_dec_me. rewrite strip_id by (apply (all_chars_impl _ _ digit_not_ws); exact Hd).
  destruct t as [|c d]; [discriminate|]. simpl in H. apply andb_prop in H. destruct H as [Hc Hdd].
  rewrite eat_sign_none.
  2:{ apply negb_true. apply dod_not_minus, digit_dod, nzd_digit. exact Hc. }
  2:{ apply negb_true. apply dod_not_plus, digit_dod, nzd_digit. exact Hc. }
  rewrite <- (sapp_nil_r (String c d)). rewrite eat_digits_app by (exact Hd || reflexivity).
  cbn [String.length]. rewrite Nat2Z.inj_succ.
  destruct (0 + Z.succ (Z.of_nat (String.length d)) + 0 =? 0)%Z eqn:E; [apply Z.eqb_eq in E; lia|].
  eexists. reflexivity.
Qed.

Lemma parse_dec_fract : forall t, is_fract t = true -> exists q, parse_dec t = Some q.
Proof.
  intros t H. destruct (is_fract_spec t H) as (ip & d & -> & Hip & Hd & Hne).
  assert (Hipd : all_chars is_digit ip = true).
  { unfold is_ipart in Hip. apply andb_prop in Hip. tauto. }
  unfold parse_dec, parse_dec_me. rewrite strip_id.
  2:{ rewrite all_chars_app. rewrite (all_chars_impl _ _ digit_not_ws _ Hipd). simpl.
      rewrite (all_chars_impl _ _ digit_not_ws _ Hd). reflexivity. }
  destruct (fract_text_hd ip d Hip) as (c & r & E & Hhd).
  rewrite E. rewrite eat_sign_none.
  2:{ apply negb_true. apply dod_not_minus. exact Hhd. }
  2:{ apply negb_true. apply dod_not_plus. exact Hhd. }
  rewrite <- E. rewrite eat_digits_app by (exact Hipd || reflexivity).
  simpl append. cbv beta iota.
  replace (eat_digits d (dnum ip 0) 0) with (eat_digits (d ++ "") (dnum ip 0) 0)
    by (rewrite sapp_nil_r; reflexivity).
  rewrite eat_digits_app by (exact Hd || reflexivity).
  destruct (0 + Z.of_nat (String.length ip) + (0 + Z.of_nat (String.length d)) =? 0)%Z eqn:E0;
    [apply Z.eqb_eq in E0; lia|].
  eexists. reflexivity.
Qed.

Lemma parse_dec_count : forall t, is_count_text t = true -> exists q, parse_dec t = Some q.
Proof.
  intros t H. apply orb_prop in H. destruct H; [apply parse_dec_whole|apply parse_dec_fract]; assumption.
Qed.

(* ---------------------------------------------------------------- number / count *)
Lemma nf_count_notnzd : forall c, nf_count c = true -> negb (nonzero_digit c) = true. Proof. char_fact. Qed.

Lemma not_white_cons : forall c r, nonws c = true -> not_white (String c r) = true.
Proof. intros c r H. exact H. Qed.

Lemma count_text_nw : forall t rest, is_count_text t = true -> not_white (t ++ rest) = true.
Proof.
  intros t rest H. destruct (count_text_hd t H) as (c & r & -> & Hc). simpl append.
  apply not_white_cons, dod_nonws. exact Hc.
Qed.

Lemma p_number_ok : forall t rest q, is_count_text t = true -> parse_dec t = Some q ->
  hdp nf_count rest = true -> p_number (t ++ rest) = POk q rest.
Proof.
  intros t rest q H Hq Hr. unfold p_number. rewrite (count_text_nw t rest H).
  apply orb_prop in H. destruct H as [H|H].
  - rewrite (re_fract_whole t rest H Hr).
    rewrite (re_whole_ok t rest H (hdp_impl _ _ nf_count_nondigit _ Hr)).
    unfold str_to_Q. rewrite Hq. reflexivity.
  - destruct (is_fract_spec _ H) as (ip & d & E & Hip & Hd & _). subst t.
    rewrite !sapp_assoc.
    rewrite (re_fract_ok ip d rest Hip Hd (hdp_impl _ _ nf_count_nondigit _ Hr)).
    unfold str_to_Q. rewrite Hq. reflexivity.
Qed.

Lemma p_count_ok : forall t rest q, is_count_text t = true -> parse_dec t = Some q ->
  hdp nf_count rest = true -> p_count (t ++ rest) = POk q rest.
Proof. intros. unfold p_count. rewrite (p_number_ok t rest q); auto. Qed.

Lemma p_number_none : forall s, hdp nf_count s = true -> p_number s = PFail.
Proof.
  intros s H. unfold p_number. destruct (not_white s) eqn:E; [|reflexivity].
  rewrite (re_fract_none s E H).
  rewrite (re_whole_fail s E (hdp_impl _ _ nf_count_notnzd _ H)). reflexivity.
Qed.

Lemma p_number_white : forall s, not_white s = false -> p_number s = PFail.
Proof. intros s H. unfold p_number. rewrite H. reflexivity. Qed.

Lemma p_count_none : forall s, hdp nf_count s = true -> p_count s = POk 1%Q s.
Proof. intros s H. unfold p_count. rewrite (p_number_none s H). reflexivity. Qed.

(* ---------------------------------------------------------------- symbol *)
Definition is_symbol (s : string) : bool :=
  match s with
  | String c EmptyString => is_upper c
  | String c (String d EmptyString) => (is_upper c && is_lower d)%bool
  | _ => false
  end.
Definition notlower (c : ascii) : bool := negb (is_lower c).

Lemma p_symbol_ok : forall T sym rest, is_symbol sym = true -> hdp notlower rest = true ->
  p_symbol T (sym ++ rest) =
  match t_symbol T sym with Some za => POk za rest | None => PAbort ValueErr end.
Proof.
  intros T sym rest H Hr. destruct sym as [|c [|d [|x y]]]; simpl in H; try discriminate.
  - simpl append. unfold p_symbol. rewrite skip_ws_id by (apply not_white_cons, upper_nonws; exact H).
    rewrite H. destruct rest as [|x r]; [reflexivity|]. simpl in Hr. apply negb_true in Hr. rewrite Hr.
    reflexivity.
  - apply andb_prop in H. destruct H as [H1 H2]. simpl append. unfold p_symbol.
    rewrite skip_ws_id by (apply not_white_cons, upper_nonws; exact H1). rewrite H1, H2. reflexivity.
Qed.

Lemma symbol_hd : forall sym, is_symbol sym = true -> exists c r, sym = String c r /\ is_upper c = true.
Proof.
  intros [|c [|d [|x y]]] H; simpl in H; try discriminate.
  - exists c, "". split; [reflexivity|exact H].
  - apply andb_prop in H. exists c, (String d ""). split; [reflexivity|tauto].
Qed.

Lemma p_symbol_fail : forall T s, not_white s = true -> hdp (fun c => negb (is_upper c)) s = true ->
  p_symbol T s = PFail.
Proof.
  intros T s Hw H. unfold p_symbol. rewrite skip_ws_id by exact Hw. destruct s as [|c r]; [reflexivity|].
  simpl in H. apply negb_true in H. rewrite H. reflexivity.
Qed.

(* ---------------------------------------------------------------- isotope and ion tags *)
Definition tag_iso (o : option string) : string :=
  match o with Some n => "[" ++ n ++ "]" | None => "" end.
Definition tag_ion (o : option (string * bool)) : string :=
  match o with Some (d, neg) => "{" ++ d ++ (if neg then "-" else "+") ++ "}" | None => "" end.

Lemma r_elem_eq : forall e, r_elem e = el_sym e ++ tag_iso (el_iso e) ++ tag_ion (el_ion e) ++ r_ctext (el_cnt e).
Proof. reflexivity. Qed.

Definition not_lbrack (c : ascii) : bool := negb (Ascii.eqb "[" c).
Definition not_lbrace (c : ascii) : bool := negb (Ascii.eqb "{" c).
Definition nf_sym1 (c : ascii) : bool := (notlower c && not_lbrack c)%bool.
Lemma nf_sym_sym1 : forall c, nf_sym c = true -> nf_sym1 c = true. Proof. char_fact. Qed.
Lemma nf_sym_lbrace : forall c, nf_sym c = true -> not_lbrace c = true. Proof. char_fact. Qed.
Lemma nf_sym1_notlower : forall c, nf_sym1 c = true -> notlower c = true. Proof. char_fact. Qed.
Lemma nf_sym1_lbrack : forall c, nf_sym1 c = true -> not_lbrack c = true. Proof. char_fact. Qed.

Lemma p_isotope_some : forall n rest, is_whole n = true ->
  p_isotope ("[" ++ n ++ "]" ++ rest) =
  match parse_int n with Some z => POk z rest | None => PAbort ValueErr end.
Proof.
  intros n rest H. unfold p_isotope.
  change ("[" ++ n ++ "]" ++ rest) with (String "[" (n ++ String "]" rest)).
  rewrite not_white_cons by reflexivity. rewrite lit_here by reflexivity. cbn [pbind].
  rewrite re_whole_ok by (exact H || reflexivity). cbn [pbind]. rewrite lit_here by reflexivity.
  cbn [pbind]. reflexivity.
Qed.

Lemma p_isotope_none : forall s, hdp not_lbrack s = true -> p_isotope s = POk 0%Z s.
Proof.
  intros s H. unfold p_isotope. destruct (not_white s) eqn:E; [|reflexivity].
  rewrite (lit_other _ s E H). reflexivity.
Qed.

Definition is_ion_digits (d : string) : bool := (String.eqb d "" || is_whole d)%bool.
Definition sign_txt (neg : bool) : string := if neg then "-" else "+".

Lemma re_ion_ok : forall d neg rest, is_ion_digits d = true ->
  re_ion (d ++ sign_txt neg ++ rest) = POk (d, neg) rest.
Proof.
  intros d neg rest H. apply orb_prop in H. destruct H as [H|H].
  - apply String.eqb_eq in H. subst d. destruct neg; reflexivity.
  - unfold re_ion. cbv zeta. pose proof (is_whole_digits d H) as Hd.
    destruct d as [|c ds]; [discriminate|]. simpl in H. apply andb_prop in H. destruct H as [Hc Hds].
    simpl append. rewrite skip_ws_id by (apply not_white_cons, digit_nonws, nzd_digit; exact Hc).
    unfold nonzero_digit in Hc. rewrite Hc.
    change (String c (ds ++ sign_txt neg ++ rest)) with (String c ds ++ sign_txt neg ++ rest).
    rewrite span_digits_app by (exact Hd || (destruct neg; reflexivity)).
    destruct neg; reflexivity.
Qed.

Definition ion_mag (d : string) : option Z := if String.eqb d "" then Some 1%Z else parse_int d.

Lemma p_ion_some : forall d neg rest, is_ion_digits d = true ->
  p_ion ("{" ++ d ++ sign_txt neg ++ "}" ++ rest) =
  match ion_mag d with
  | Some m => POk (if neg then (- m)%Z else m) rest
  | None => PAbort ValueErr
  end.
Proof.
  intros d neg rest H. unfold p_ion.
  change ("{" ++ d ++ sign_txt neg ++ "}" ++ rest) with (String "{" (d ++ sign_txt neg ++ String "}" rest)).
  rewrite not_white_cons by reflexivity. rewrite lit_here by reflexivity. cbn [pbind].
  rewrite re_ion_ok by exact H. cbn [pbind]. rewrite lit_here by reflexivity. cbn [pbind].
  reflexivity.
Qed.

Lemma p_ion_none : forall s, hdp not_lbrace s = true -> p_ion s = POk 0%Z s.
Proof.
  intros s H. unfold p_ion. destruct (not_white s) eqn:E; [|reflexivity].
  rewrite (lit_other _ s E H). reflexivity.
Qed.

(* ---------------------------------------------------------------- element *)
(* what convert_element does with the four tokens *)
Definition elem_post (T : ptable) (za : Z * Z) (iso ion : Z) (cnt : Q) (r4 : string) : pres (Q * frag) :=
  let '(z, a0) := za in
  match (if Z.eqb iso 0 then Some a0
         else if negb (Z.eqb a0 0) then None
         else if t_has_iso T z iso then Some iso else None) with
  | None => PAbort (if negb (Z.eqb a0 0) then TypeErr else KeyErr)
  | Some a =>
      if Z.eqb ion 0 then POk (cnt, FAtom (mkAtom z a 0)) r4
      else if t_has_ion T z ion then POk (cnt, FAtom (mkAtom z a ion)) r4
      else PAbort ValueErr
  end.

Lemma p_element_eq : forall T s, p_element T s =
  let* (za, r1) := p_symbol T s in
  let* (iso, r2) := p_isotope r1 in
  let* (ion, r3) := p_ion r2 in
  let* (cnt, r4) := p_count r3 in
  elem_post T za iso ion cnt r4.
Proof. reflexivity. Qed.

Definition wf_iso_txt (o : option string) : bool :=
  match o with Some n => is_whole n | None => true end.
Definition wf_ion_txt (o : option (string * bool)) : bool :=
  match o with Some (d, _) => is_ion_digits d | None => true end.
Definition iso_val (o : option string) : option Z :=
  match o with Some n => parse_int n | None => Some 0%Z end.
Definition ion_val (o : option (string * bool)) : option Z :=
  match o with
  | Some (d, neg) => match ion_mag d with Some m => Some (if neg then (- m)%Z else m) | None => None end
  | None => Some 0%Z
  end.

Lemma tag_ion_hd : forall ion X, hdp nf_sym X = true -> hdp nf_sym1 (tag_ion ion ++ X) = true.
Proof.
  intros [[d neg]|] X H; [reflexivity|]. simpl. exact (hdp_impl _ _ nf_sym_sym1 _ H).
Qed.
Lemma tag_iso_hd : forall iso Y, hdp nf_sym1 Y = true -> hdp notlower (tag_iso iso ++ Y) = true.
Proof.
  intros [n|] Y H; [reflexivity|]. simpl. exact (hdp_impl _ _ nf_sym1_notlower _ H).
Qed.

(* symbol and tags are consumed; the rest of the element is decided by what follows *)
Lemma p_element_gen : forall T sym iso ion X za vi vq,
  is_symbol sym = true -> t_symbol T sym = Some za ->
  wf_iso_txt iso = true -> wf_ion_txt ion = true ->
  iso_val iso = Some vi -> ion_val ion = Some vq ->
  hdp nf_sym X = true ->
  p_element T (sym ++ tag_iso iso ++ tag_ion ion ++ X) =
  let* (cnt, r4) := p_count X in elem_post T za vi vq cnt r4.
Proof.
  intros T sym iso ion X za vi vq Hsym Hza Hiso Hion Hvi Hvq HX.
  rewrite p_element_eq.
  pose proof (tag_ion_hd ion X HX) as H2.
  pose proof (tag_iso_hd iso _ H2) as H1.
  rewrite (p_symbol_ok T sym _ Hsym H1). rewrite Hza. cbn [pbind].
  assert (E1 : p_isotope (tag_iso iso ++ tag_ion ion ++ X) = POk vi (tag_ion ion ++ X)).
  { destruct iso as [n|]; simpl in Hiso, Hvi.
    - unfold tag_iso. rewrite !sapp_assoc. rewrite (p_isotope_some n _ Hiso). rewrite Hvi. reflexivity.
    - inversion Hvi; subst. simpl. apply p_isotope_none. exact (hdp_impl _ _ nf_sym1_lbrack _ H2). }
  rewrite E1. cbn [pbind].
  assert (E2 : p_ion (tag_ion ion ++ X) = POk vq X).
  { destruct ion as [[d neg]|]; simpl in Hion, Hvq.
    - unfold tag_ion. rewrite !sapp_assoc. change (if neg then "-" else "+") with (sign_txt neg).
      rewrite (p_ion_some d neg X Hion).
      destruct (ion_mag d); inversion Hvq; subst. reflexivity.
    - inversion Hvq; subst. simpl. apply p_ion_none. exact (hdp_impl _ _ nf_sym_lbrace _ HX). }
  rewrite E2. cbn [pbind]. reflexivity.
Qed.
