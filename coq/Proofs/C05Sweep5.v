(* Proofs/C05Sweep5.v — part 5 of the kernel-evaluated sweep over the regenerated .nff tables. *)
From Coq Require Import String List.
From PT Require Import Xsf C05SweepDefs.
From PT.Gen Require Import NffIndex.
Lemma chunk5_ok : chunk_ok nff_files_5 = true.
Proof. vm_compute. reflexivity. Qed.
