(* Proofs/C03Data.v — the expression reading of the per-atom documented quantities
   (Spec/NeutronData.spec_atom) means the real reading (tab_comp); the exact decisions on energies
   are the order of the wavelengths. *)
From Coq Require Import Reals ZArith QArith Qreals Qabs String List Bool Lra Lia.
From PT Require Import Str Dec Loaders Formula AtomEnv Nsf IExpr Neutron NsfCalc NeutronData C03Spec.
Import ListNotations.
Open Scope R_scope.

Notation ev := (evalR no_env_R).

(* ------------------------------------------------------------------ booleans on Q vs order on R *)
Lemma Qle_bool_Rle : forall a b, Qle_bool a b = true <-> Q2R a <= Q2R b.
Proof.
  intros a b. rewrite Qle_bool_iff. split; [apply Qle_Rle|apply Rle_Qle].
Qed.
Lemma Qltb_Rlt : forall a b, Qltb a b = true <-> Q2R a < Q2R b.
Proof.
  intros a b. unfold Qltb. rewrite negb_true_iff. split.
  - intro H. apply Rnot_le_lt. intro Hle. apply Qle_bool_Rle in Hle. congruence.
  - intro H. destruct (Qle_bool b a) eqn:E; [|reflexivity].
    apply Qle_bool_Rle in E. lra.
Qed.
Lemma Qlt_bool_Rlt : forall a b, Qlt_bool a b = true <-> Q2R a < Q2R b.
Proof. exact Qltb_Rlt. Qed.

Lemma Q2R_Qred : forall q, Q2R (Qred q) = Q2R q.
Proof. intro q. apply Qeq_eqR. apply Qred_correct. Qed.

Lemma Q2R_pos : forall q, (0 < q)%Q -> 0 < Q2R q.
Proof. intros q H. apply Qlt_Rlt in H. rewrite RMicromega.Q2R_0 in H. exact H. Qed.
Lemma Q2R_pos_inv : forall q, 0 < Q2R q -> (0 < q)%Q.
Proof. intros q H. apply Rlt_Qlt. rewrite RMicromega.Q2R_0. exact H. Qed.

Lemma Q2R_div' : forall a b, Q2R b <> 0 -> Q2R (a / b) = Q2R a / Q2R b.
Proof.
  intros a b H. apply Q2R_div. intro E. apply H. rewrite (Qeq_eqR _ _ E). apply RMicromega.Q2R_0.
Qed.

(* ------------------------------------------------------------------ the order of wavelengths *)
(* for positive EF, a, b:  sqrt(EF/a) < sqrt(EF/b)  <->  b < a *)
Lemma sqrt_div_lt : forall EF a b, 0 < EF -> 0 < a -> 0 < b ->
  (sqrt (EF / a) < sqrt (EF / b) <-> b < a).
Proof.
  intros EF a b HE Ha Hb.
  assert (Hfa : 0 < EF / a) by (apply Rdiv_lt_0_compat; assumption).
  assert (Hfb : 0 < EF / b) by (apply Rdiv_lt_0_compat; assumption).
  assert (Hiff : EF / a < EF / b <-> b < a).
  { unfold Rdiv. split; intro H.
    - apply Rnot_le_lt. intro Hle.
      assert (/ b <= / a) by (apply Rinv_le_contravar; assumption).
      assert (EF * / b <= EF * / a) by (apply Rmult_le_compat_l; lra). lra.
    - apply Rmult_lt_compat_l; [exact HE|]. apply Rinv_lt_contravar; [|exact H].
      apply Rmult_lt_0_compat; assumption. }
  split; intro H.
  - apply Hiff. apply sqrt_lt_0_alt. exact H.
  - apply sqrt_lt_1; [lra|lra|]. apply Hiff. exact H.
Qed.
Lemma sqrt_div_le : forall EF a b, 0 < EF -> 0 < a -> 0 < b ->
  (sqrt (EF / a) <= sqrt (EF / b) <-> b <= a).
Proof.
  intros EF a b HE Ha Hb. split; intro H.
  - apply Rnot_lt_le. intro Hlt. apply (sqrt_div_lt EF b a HE Hb Ha) in Hlt. lra.
  - apply Rnot_lt_le. intro Hlt. apply (sqrt_div_lt EF b a HE Hb Ha) in Hlt. lra.
Qed.

(* the wavelength of the call is sqrt(EF/key) *)
Definition wl_pos (w : wl) : Prop := match w with WLam q => (0 < q)%Q | WEn e => (0 < e)%Q end.

Section Keys.
  Hypothesis EF_pos : 0 < EF_R.

  Lemma key_pos : forall w, wl_pos w -> 0 < Q2R (spec_key w).
  Proof.
    intros [q|e] H; cbn [wl_pos spec_key] in *.
    - apply Q2R_pos in H. rewrite Q2R_div', Q2R_mult.
      + apply Rdiv_lt_0_compat; [exact EF_pos|]. apply Rmult_lt_0_compat; assumption.
      + rewrite Q2R_mult. apply Rgt_not_eq. apply Rmult_lt_0_compat; assumption.
    - apply Q2R_pos. exact H.
  Qed.

  Lemma wl_R_key : forall w, wl_pos w -> wl_R w = sqrt (EF_R / Q2R (spec_key w)).
  Proof.
    intros [q|e] H; cbn [wl_pos spec_key wl_R] in *; [|reflexivity].
    apply Q2R_pos in H. rewrite Q2R_div', Q2R_mult.
    - fold EF_R. replace (EF_R / (EF_R / (Q2R q * Q2R q))) with (Q2R q * Q2R q).
      + rewrite sqrt_square; lra.
      + field. split; lra.
    - rewrite Q2R_mult. apply Rgt_not_eq. apply Rmult_lt_0_compat; assumption.
  Qed.

  Lemma wl_R_pos : forall w, wl_pos w -> 0 < wl_R w.
  Proof.
    intros w H. rewrite (wl_R_key w H). apply sqrt_lt_R0. apply Rdiv_lt_0_compat; [exact EF_pos|].
    apply key_pos. exact H.
  Qed.

  Lemma ev_spec_wl : forall w, ev (spec_wl_expr w) = wl_R w.
  Proof. intros [q|e]; reflexivity. Qed.

  Lemma ev_spec_node_x : forall e, ev (spec_node_x e) = node_x_R e.
  Proof. intro e. unfold spec_node_x, node_x_R. cbn [evalR]. rewrite ev_ez. reflexivity. Qed.

  Lemma node_key : forall e, Q2R (1000 * e) = 1000 * Q2R e.
  Proof. intro e. rewrite Q2R_mult. f_equal. unfold Q2R. cbn [Qnum Qden]. lra. Qed.

  (* deciding on the energies decides the order of the wavelengths *)
  Lemma spec_lt_ok : forall w e y, wl_pos w -> (0 < e)%Q ->
    lt_ok (spec_lt (spec_key w)) (spec_wl_expr w) ((1000 * e)%Q, spec_node_x e, y).
  Proof.
    intros w e y Hw He. unfold lt_ok, node_R, spec_lt. cbn [fst snd].
    rewrite Qltb_Rlt, ev_spec_wl, ev_spec_node_x, node_key, (wl_R_key w Hw). unfold node_x_R.
    symmetry. apply sqrt_div_lt; [exact EF_pos|apply key_pos; exact Hw|].
    apply Q2R_pos in He. lra.
  Qed.
  Lemma spec_le_ok : forall w e y, wl_pos w -> (0 < e)%Q ->
    le_ok (spec_le (spec_key w)) (spec_wl_expr w) ((1000 * e)%Q, spec_node_x e, y).
  Proof.
    intros w e y Hw He. unfold le_ok, node_R, spec_le. cbn [fst snd].
    rewrite Qle_bool_Rle, ev_spec_wl, ev_spec_node_x, node_key, (wl_R_key w Hw). unfold node_x_R.
    symmetry. apply sqrt_div_le; [exact EF_pos|apply key_pos; exact Hw|].
    apply Q2R_pos in He. lra.
  Qed.

  (* all the tabulated energies of a table are positive *)
  Definition rows_pos (rows : list erow) : Prop := Forall (fun r => (0 < fst (fst r))%Q) rows.

  Lemma map_node_R_re : forall rows, map node_R (re_nodes rows) = re_nodes_R rows.
  Proof.
    induction rows as [|[[e re] im] r IH]; [reflexivity|].
    cbn [re_nodes re_nodes_R map]. unfold node_R at 1. cbn [fst snd]. rewrite ev_spec_node_x.
    f_equal. exact IH.
  Qed.
  Lemma map_node_R_im : forall rows, map node_R (im_nodes rows) = im_nodes_R rows.
  Proof.
    induction rows as [|[[e re] im] r IH]; [reflexivity|].
    cbn [im_nodes im_nodes_R map]. unfold node_R at 1. cbn [fst snd]. rewrite ev_spec_node_x.
    f_equal. exact IH.
  Qed.

  Lemma spec_interp_re_sound : forall w rows, wl_pos w -> rows_pos rows -> rows <> [] ->
    ev (spec_interp (spec_key w) (spec_wl_expr w) (re_nodes rows)) = interp (wl_R w) (re_nodes_R rows).
  Proof.
    intros w rows Hw Hp Hne. unfold spec_interp. rewrite E_interp_sound.
    - rewrite ev_spec_wl, map_node_R_re. reflexivity.
    - destruct rows; [congruence|discriminate].
    - unfold re_nodes. apply Forall_forall. intros n Hin. apply in_map_iff in Hin.
      destruct Hin as ([[e re] im] & E & Hin). subst n.
      apply spec_lt_ok; [exact Hw|]. unfold rows_pos in Hp. rewrite Forall_forall in Hp. exact (Hp _ Hin).
    - unfold re_nodes. apply Forall_forall. intros n Hin. apply in_map_iff in Hin.
      destruct Hin as ([[e re] im] & E & Hin). subst n.
      apply spec_le_ok; [exact Hw|]. unfold rows_pos in Hp. rewrite Forall_forall in Hp. exact (Hp _ Hin).
  Qed.
  Lemma spec_interp_im_sound : forall w rows, wl_pos w -> rows_pos rows -> rows <> [] ->
    ev (spec_interp (spec_key w) (spec_wl_expr w) (im_nodes rows)) = interp (wl_R w) (im_nodes_R rows).
  Proof.
    intros w rows Hw Hp Hne. unfold spec_interp. rewrite E_interp_sound.
    - rewrite ev_spec_wl, map_node_R_im. reflexivity.
    - destruct rows; [congruence|discriminate].
    - unfold im_nodes. apply Forall_forall. intros n Hin. apply in_map_iff in Hin.
      destruct Hin as ([[e re] im] & E & Hin). subst n.
      apply spec_lt_ok; [exact Hw|]. unfold rows_pos in Hp. rewrite Forall_forall in Hp. exact (Hp _ Hin).
    - unfold im_nodes. apply Forall_forall. intros n Hin. apply in_map_iff in Hin.
      destruct Hin as ([[e re] im] & E & Hin). subst n.
      apply spec_le_ok; [exact Hw|]. unfold rows_pos in Hp. rewrite Forall_forall in Hp. exact (Hp _ Hin).
  Qed.

  Lemma ev_spec_num : forall n, ev (spec_num n) = num_R n.
  Proof. intros [q|q|c]; cbn [spec_num num_R evalR]; rewrite ?ev_ez; reflexivity. Qed.

  (* tables the atom may use: its own, or (natural Lu) the one of Lu-176 *)
  Definition tables_pos (D : ndata) (a : atom) : Prop :=
    match r_tab (nd_rec D (az a) (aa a)) with
    | Some (ETab rows) => rows_pos rows /\ rows <> []
    | Some ELuNat => match r_tab (nd_rec D (nd_lu D) 176) with
                     | Some (ETab rows) => rows_pos rows /\ rows <> []
                     | _ => True
                     end
    | None => True
    end.

  (* the expression reading of the documented per-atom quantities means the real reading *)
  Theorem spec_atom_sound : forall D w p c, wl_pos w -> tables_pos D (fst p) ->
    spec_atom D w p = Some c -> tab_comp D w p = Some (evalC c).
  Proof.
    intros D w [a n] c Hw Ht H. unfold spec_atom in H. unfold tab_comp. unfold tables_pos in Ht.
    cbn [fst snd] in *.
    destruct (r_tab (nd_rec D (az a) (aa a))) as [[rows|]|].
    - destruct Ht as [Hp Hne]. inversion H; subst c. unfold evalC. cbn [ce_n ce_m ce_re ce_im ce_ss].
      rewrite ev_sigma_s_of_b, !spec_interp_re_sound, !spec_interp_im_sound by assumption.
      rewrite Q2R_Qred. reflexivity.
    - destruct (r_bc (nd_rec D (nd_lu D) 175)) as [b|]; [|discriminate].
      destruct (r_abs (nd_rec D (nd_lu D) 175)) as [ab|]; [|discriminate].
      destruct (r_tab (nd_rec D (nd_lu D) 176)) as [[rows|]|]; try discriminate.
      destruct (nd_abund D (nd_lu D) 175) as [a175|]; [|discriminate].
      destruct (nd_abund D (nd_lu D) 176) as [a176|]; [|discriminate].
      destruct Ht as [Hp Hne]. inversion H; subst c. unfold evalC. cbn [ce_n ce_m ce_re ce_im ce_ss].
      rewrite ev_sigma_s_of_b, !ev_abundance_mix, ev_im_of_absorption, ev_spec_num, ev_cq.
      rewrite !spec_interp_re_sound, !spec_interp_im_sound by assumption.
      rewrite Q2R_Qred. reflexivity.
    - destruct (r_bc (nd_rec D (az a) (aa a))) as [b|]; [|discriminate].
      destruct (r_abs (nd_rec D (az a) (aa a))) as [ab|]; [|discriminate].
      destruct (r_tot (nd_rec D (az a) (aa a))) as [t|]; [|discriminate].
      inversion H; subst c. unfold evalC. cbn [ce_n ce_m ce_re ce_im ce_ss].
      rewrite ev_im_of_absorption, !ev_spec_num, ev_cq, Q2R_Qred. reflexivity.
  Qed.
End Keys.
