(* Proofs/C01Stuck.v — left-over text.  If W is a text on which the grammar cannot continue (no group,
   no separator, no ')' and no density tag starts there) and it follows a complete element at ANY element
   position of an otherwise well-formed string, the string is not accepted.  Instances: a count with
   a leading zero, a malformed isotope tag, a malformed ion tag, any character that belongs to no token. *)
From Coq Require Import ZArith QArith String Ascii List Bool Lia.
From PT Require Import Str Dec Py Loaders Formula Pyparse Grammar C01Lex C01Wf C01Accept C01Consume C01Reject.
Import ListNotations.
Open Scope string_scope.

Section Stuck.
  Variable T : ptable.
  Variable W : string.
  Hypothesis Hup : hdp notupper W = true.
  Hypothesis Hsep : p_sep W = W.
  Hypothesis Hgrp : forall pc, pgroup T pc W = PFail.
  Hypothesis Hrp : lit ")" W = PFail.
  Hypothesis Hden : p_density W = POk DNone W.
  Hypothesis Hend : at_end W = false.
  Variable e : elem.
  Hypothesis He : wf_elem T e = true.
  Hypothesis HE : p_element T (r_elem e ++ W) = POk (v_elem T e) W.

  Let Y := r_elem e ++ W.

  Lemma more_stops : forall pc k acc, more (pgroup T pc) k acc W = POk acc W.
  Proof. intros pc [|k] acc; [reflexivity|]. rewrite more_S, Hsep, Hgrp. reflexivity. Qed.

  Lemma implicit_stuck : forall c es0, wf_ctext c = true -> forallb (wf_elem T) es0 = true ->
    exists g, p_implicit T (r_ctext c ++ r_elems es0 ++ r_elem e ++ W) = POk g W.
  Proof.
    intros c es0 Hct Hes0. unfold p_implicit.
    assert (Hu : hds is_upper (r_elems es0 ++ r_elem e ++ W) = true).
    { destruct es0 as [|e0 es]; [exact (elem_hd T e _ He)|]. simpl in Hes0. apply andb_prop in Hes0. destruct Hes0 as [He0 _].
      rewrite r_elems_cons, sapp_assoc. exact (elem_hd T e0 _ He0). }
    rewrite (p_count_ctext c _ Hct (hds_hdp _ _ upper_nf_count _ Hu)). cbn [pbind]. unfold p_elements.
    destruct es0 as [|e0 es].
    - change (r_elems [] ++ r_elem e ++ W) with (r_elem e ++ W).
      rewrite HE. cbn [pbind]. rewrite (more_elems_stop T _ W Hup). eexists. reflexivity.
    - simpl in Hes0. apply andb_prop in Hes0. destruct Hes0 as [He0 Hes].
      rewrite r_elems_cons, sapp_assoc.
      assert (Hfo : hdp nf_elem (r_elems es ++ r_elem e ++ W) = true).
      { destruct es as [|e' es'].
        - exact (hds_hdp _ _ upper_nf_elem _ (elem_hd T e _ He)).
        - simpl in Hes. apply andb_prop in Hes. destruct Hes as [He' _]. rewrite r_elems_cons, sapp_assoc.
          exact (hds_hdp _ _ upper_nf_elem _ (elem_hd T e' _ He')). }
      rewrite (elem_ok T e0 _ He0 Hfo). cbn [pbind].
      rewrite (more_elems_last T es e _ W (v_elem T e)); [eexists; reflexivity| |assumption..].
      pose proof (r_elems_len T es Hes). rewrite !slen_app. lia.
  Qed.

  Lemma Y_upper : hds is_upper Y = true.
  Proof. apply (elem_hd T). exact He. Qed.

  (* the loop over complete groups, then whatever the group at the path does *)
  Lemma more_path : forall f l, forall prev s p k acc,
    (cdepth l <= f)%nat -> forallb (fun q => wf_group T (snd q)) l = true ->
    chain_ok (is_imp prev) (l ++ [(s, path_head p)]) = true -> (length l < k)%nat ->
    wf_path T p = true ->
    more (pgroup T (p_composite T f)) k acc (r_tail l ++ r_sep s ++ r_path p ++ Y) =
    match pgroup T (p_composite T f) (r_path p ++ Y) with
    | POk g' r' => more (pgroup T (p_composite T f)) (k - S (length l)) ((acc ++ v_comp T l) ++ g')%list r'
    | PFail => POk (acc ++ v_comp T l)%list (r_sep s ++ r_path p ++ Y)
    | PAbort x => PAbort x
    end.
  Proof.
    intros f. induction l as [|[s0 g0] l IH]; intros prev s p k acc Hdp Hw Hc Hk Hp;
      (destruct k as [|k]; [simpl in Hk; lia|]).
    - simpl in Hc. apply andb_prop in Hc. destruct Hc as [Hc _]. apply andb_prop in Hc. destruct Hc as [Hs _].
      simpl r_tail. change ("" ++ r_sep s ++ r_path p ++ Y) with (r_sep s ++ r_path p ++ Y).
      rewrite more_S, (p_sep_ok s _ Hs (path_hd T p Y Hp Y_upper)).
      change (v_comp T []) with (@nil (Q * frag)). rewrite app_nil_r.
      replace (S k - S (@length (sep * group) []))%nat with k by (simpl; lia). reflexivity.
    - simpl in Hk. rewrite cdepth_cons in Hdp. simpl in Hw. apply andb_prop in Hw. destruct Hw as [Hg0 Hl].
      simpl in Hc. apply andb_prop in Hc. destruct Hc as [Hc Hcl]. apply andb_prop in Hc. destruct Hc as [Hs0 Hj].
      cbn [r_tail]. rewrite !sapp_assoc. rewrite more_S.
      rewrite (p_sep_ok s0 _ Hs0 (group_hd T g0 _ Hg0)).
      rewrite (group_accept T g0 f); [| lia | exact Hg0 |].
      + rewrite (IH g0 s p k (acc ++ v_group T g0)%list); try assumption; try lia.
        simpl length. replace (S k - S (S (length l)))%nat with (k - S (length l))%nat by lia.
        unfold v_comp. simpl flat_map. rewrite <- !app_assoc. reflexivity.
      + destruct l as [|[s1 g1] l'].
        * simpl in Hcl. apply andb_prop in Hcl. destruct Hcl as [Hcl _]. apply andb_prop in Hcl. destruct Hcl as [Hs Hj'].
          simpl r_tail. change ("" ++ r_sep s ++ r_path p ++ Y) with (r_sep s ++ r_path p ++ Y).
          apply (follow_next_path T); try assumption. exact Y_upper.
        * simpl in Hcl. apply andb_prop in Hcl. destruct Hcl as [Hcl _]. apply andb_prop in Hcl. destruct Hcl as [Hs1 Hj1].
          simpl in Hl. apply andb_prop in Hl. destruct Hl as [Hg1 _].
          cbn [r_tail]. rewrite !sapp_assoc. apply (follow_next T); assumption.
  Qed.

  (* what the group at the path does: an implicit group ends before W, an explicit one fails *)
  Definition path_result (f : nat) (p : bpath) : Prop :=
    match p with
    | BImp _ _ => exists g, pgroup T (p_composite T f) (r_path p ++ Y) = POk g W
    | BExp _ _ _ _ => pgroup T (p_composite T f) (r_path p ++ Y) = PFail
    end.

  (* what the enclosing composite returns: it stops before W, or fails, or stops before the
     separator and parenthesis of the explicit group that failed *)
  Definition comp_result (R : pres (list (Q * frag))) (s : sep) (p : bpath) : Prop :=
    (exists st, R = POk st W) \/ R = PFail \/
    (exists st l pre s' p', p = BExp l pre s' p' /\ wf_sep s = true /\ R = POk st (r_sep s ++ r_path p ++ Y)).

  Lemma comp_stuck : forall f pre s p, (cdepth pre <= f)%nat -> wf_pre T pre s p = true -> wf_path T p = true ->
    path_result f p -> comp_result (p_composite T (S f) (r_pre pre s ++ r_path p ++ Y)) s p.
  Proof.
    intros f pre s p Hdp Hpre Hp HR. rewrite p_composite_S. destruct pre as [|[s0 g0] l].
    - simpl r_pre. change ("" ++ r_path p ++ Y) with (r_path p ++ Y). destruct p as [c es1|l' pre' s' p'].
      + destruct HR as (g & HR). rewrite HR. cbn [pbind]. left. eexists. apply more_stops.
      + unfold path_result in HR. rewrite HR. right. left. reflexivity.
    - unfold wf_pre in Hpre. apply andb_prop in Hpre. destruct Hpre as [Hsh Hw].
      change (((s0, g0) :: l) ++ [(s, path_head p)])%list with ((s0, g0) :: (l ++ [(s, path_head p)]))%list in Hsh.
      simpl in Hsh. simpl in Hw. apply andb_prop in Hw. destruct Hw as [Hg0 Hl]. rewrite cdepth_cons in Hdp.
      unfold r_pre. rewrite r_comp_cons, !sapp_assoc.
      rewrite (group_accept T g0 f); [| lia | exact Hg0 |].
      + cbn [pbind]. rewrite (more_path f l g0 s p); try assumption; try lia.
        * destruct p as [c es1|l' pre' s' p'].
          -- destruct HR as (g & HR). rewrite HR. left. eexists. apply more_stops.
          -- unfold path_result in HR. rewrite HR. right. right. exists (v_group T g0 ++ v_comp T l)%list, l', pre', s', p'.
             split; [reflexivity|]. split; [|reflexivity].
             destruct (chain_split' l (is_imp g0) s (path_head (BExp l' pre' s' p')) Hsh). assumption.
        * pose proof (r_tail_len T l Hl). rewrite !slen_app. lia.
      + destruct l as [|[s1 g1] l2].
        * simpl in Hsh. apply andb_prop in Hsh. destruct Hsh as [Hsh _]. apply andb_prop in Hsh. destruct Hsh as [Hs Hj].
          simpl r_tail. change ("" ++ r_sep s ++ r_path p ++ Y) with (r_sep s ++ r_path p ++ Y).
          apply (follow_next_path T); try assumption. exact Y_upper.
        * simpl in Hsh. apply andb_prop in Hsh. destruct Hsh as [Hsh _]. apply andb_prop in Hsh. destruct Hsh as [Hs1 Hj1].
          simpl in Hl. apply andb_prop in Hl. destruct Hl as [Hg1 _].
          cbn [r_tail]. rewrite !sapp_assoc. apply (follow_next T); assumption.
  Qed.

  Lemma skip_after_sep : forall s X, wf_sep s = true ->
    skip_ws (r_sep s ++ String "(" X) = String "(" X \/ exists X', skip_ws (r_sep s ++ String "(" X) = String "+" X'.
  Proof.
    intros [a pl b] X H. unfold wf_sep in H. cbn [sp1 sp2] in H. apply andb_prop in H. destruct H as [Ha Hb].
    unfold r_sep. cbn [sp1 sp2 plus]. rewrite !sapp_assoc. destruct pl.
    - right. change ("+" ++ b ++ String "(" X) with (String "+" (b ++ String "(" X)).
      rewrite skip_ws_blanks by (exact Ha || reflexivity). eexists. reflexivity.
    - left. change ("" ++ b ++ String "(" X) with (b ++ String "(" X).
      rewrite skip_ws_app by (apply (all_chars_impl _ _ blank_pws); exact Ha).
      apply skip_ws_blanks; [exact Hb|reflexivity].
  Qed.

  Lemma lit_after_sep : forall c s X, wf_sep s = true -> Ascii.eqb c "(" = false -> Ascii.eqb c "+" = false ->
    lit c (r_sep s ++ String "(" X) = PFail.
  Proof.
    intros c s X Hs H1 H2. unfold lit. destruct (skip_after_sep s X Hs) as [E|(X' & E)]; rewrite E.
    - rewrite H1. reflexivity.
    - rewrite H2. reflexivity.
  Qed.

  Lemma at_end_after_sep : forall s X, wf_sep s = true -> at_end (r_sep s ++ String "(" X) = false.
  Proof.
    intros s X Hs. unfold at_end. destruct (skip_after_sep s X Hs) as [E|(X' & E)]; rewrite E; reflexivity.
  Qed.

  Lemma r_elems_single : forall x, r_elems [x] = r_elem x.
  Proof. reflexivity. Qed.

  Theorem path_stuck : forall p f, (pdepth p <= f)%nat -> wf_path T p = true -> path_result f p.
  Proof.
    induction p as [c es1|l pre s p' IH]; intros f Hdp Hp.
    - simpl in Hp. apply andb_prop in Hp. destruct Hp as [Hc Hes].
      destruct (implicit_stuck c es1 Hc Hes) as (g & Hgv).
      exists g. unfold pgroup. cbn [r_path]. unfold Y. rewrite !sapp_assoc. rewrite Hgv. reflexivity.
    - simpl in Hp. apply andb_prop in Hp. destruct Hp as [Hp Hp']. apply andb_prop in Hp. destruct Hp as [Hl Hpre].
      cbn [pdepth] in Hdp. destruct f as [|f]; [lia|].
      unfold path_result. cbn [r_path]. rewrite !sapp_assoc.
      change ("(" ++ l ++ r_pre pre s ++ r_path p' ++ Y) with (String "(" (l ++ r_pre pre s ++ r_path p' ++ Y)).
      unfold pgroup. rewrite (p_implicit_fail T) by reflexivity. rewrite lit_here by reflexivity. cbn [pbind].
      rewrite skip_ws_blanks by (exact Hl || exact (hds_nw _ gstart_nonws _ (pre_hd T pre s p' Y Hpre Hp' Y_upper))).
      assert (HR : path_result f p') by (apply IH; [lia|exact Hp']).
      destruct (comp_stuck f pre s p') as [(st & E)|[E|(st & l2 & pre2 & s2 & p2 & Ep & Hs & E)]];
        try assumption; try lia; rewrite E.
      + cbn [pbind]. rewrite Hrp. reflexivity.
      + reflexivity.
      + cbn [pbind]. subst p'. cbn [r_path]. rewrite !sapp_assoc.
        change ("(" ++ l2 ++ r_pre pre2 s2 ++ r_path p2 ++ Y) with (String "(" (l2 ++ r_pre pre2 s2 ++ r_path p2 ++ Y)).
        rewrite (lit_after_sep ")" s _ Hs) by reflexivity. reflexivity.
  Qed.

  Theorem pos_stuck_rejected : forall P, wf_pos T P = true -> ~ accepted T (r_pos P ++ Y).
  Proof.
    intros [pre s p] H (st0 & dk & r & E & Hend0). unfold wf_pos in H. cbn [bp_pre bp_sep bp_path] in H.
    apply andb_prop in H. destruct H as [Hpre Hp].
    unfold p_compound, r_pos in E. cbn [bp_pre bp_sep bp_path] in E. rewrite sapp_assoc in E.
    set (n := String.length (r_pre pre s ++ r_path p ++ Y)) in E.
    assert (Hn1 : (pdepth p <= n)%nat).
    { unfold n. pose proof (pdepth_len p). rewrite !slen_app. lia. }
    assert (Hn2 : (cdepth pre <= n)%nat).
    { unfold n. destruct pre as [|q pre']; [simpl; lia|]. unfold r_pre. rewrite !slen_app.
      pose proof (cdepth_len (q :: pre')). lia. }
    destruct (comp_stuck n pre s p Hn2 Hpre Hp (path_stuck p n Hn1 Hp))
      as [(st & ER)|[ER|(st & l2 & pre2 & s2 & p2 & Ep & Hs & ER)]]; rewrite ER in E.
    - cbn [pbind] in E. rewrite Hden in E.
      cbn [pbind] in E. inversion E; subst. rewrite Hend in Hend0. discriminate.
    - discriminate.
    - cbn [pbind] in E. subst p. cbn [r_path] in E. rewrite !sapp_assoc in E.
      change ("(" ++ l2 ++ r_pre pre2 s2 ++ r_path p2 ++ Y) with (String "(" (l2 ++ r_pre pre2 s2 ++ r_path p2 ++ Y)) in E.
      unfold p_density in E. rewrite (lit_after_sep "@" s _ Hs) in E by reflexivity.
      cbn [pbind] in E. inversion E; subst. rewrite (at_end_after_sep s _ Hs) in Hend0. discriminate.
  Qed.

End Stuck.

(* ---------------------------------------------------------------- texts on which the grammar is stuck *)
Definition stuck_char (c : ascii) : bool :=
  (nonws c && notupper c && negb (Ascii.eqb c "(") && negb (Ascii.eqb c ")") &&
   negb (Ascii.eqb c "+") && negb (Ascii.eqb c "@"))%bool.

Lemma stuck_nonws : forall c, stuck_char c = true -> nonws c = true. Proof. char_fact. Qed.
Lemma stuck_notupper : forall c, stuck_char c = true -> notupper c = true. Proof. char_fact. Qed.
Lemma stuck_not_lparen : forall c, stuck_char c = true -> negb (Ascii.eqb "(" c) = true. Proof. char_fact. Qed.
Lemma stuck_not_rparen : forall c, stuck_char c = true -> negb (Ascii.eqb ")" c) = true. Proof. char_fact. Qed.
Lemma stuck_not_plus : forall c, stuck_char c = true -> negb (Ascii.eqb "+" c) = true. Proof. char_fact. Qed.
Lemma stuck_not_at : forall c, stuck_char c = true -> negb (Ascii.eqb "@" c) = true. Proof. char_fact. Qed.

(* W starts with a character that begins no group, separator, ')' or '@', and no count is read at W *)
Definition stuck (W : string) : Prop :=
  exists c X, W = String c X /\ stuck_char c = true /\ p_count W = POk 1%Q W.

Section StuckFacts.
  Variable T : ptable.
  Variable W : string.
  Hypothesis HW : stuck W.

  Lemma stuck_nw : not_white W = true.
  Proof. destruct HW as (c & X & -> & Hc & _). apply not_white_cons, stuck_nonws. exact Hc. Qed.
  Lemma stuck_up : hdp notupper W = true.
  Proof. destruct HW as (c & X & -> & Hc & _). simpl. apply stuck_notupper. exact Hc. Qed.
  Lemma stuck_sep : p_sep W = W.
  Proof.
    unfold p_sep. rewrite (lit_other "+" W stuck_nw).
    - apply skip_ws_id. exact stuck_nw.
    - destruct HW as (c & X & -> & Hc & _). simpl. apply stuck_not_plus. exact Hc.
  Qed.
  Lemma stuck_grp : forall pc, pgroup T pc W = PFail.
  Proof.
    intro pc. unfold pgroup, p_implicit. destruct HW as (c & X & E & Hc & Hcount). rewrite Hcount. cbn [pbind].
    unfold p_elements. rewrite (p_element_fail T W stuck_nw stuck_up). cbn [pbind].
    rewrite (lit_other "(" W stuck_nw); [reflexivity|]. rewrite E. simpl. apply stuck_not_lparen. exact Hc.
  Qed.
  Lemma stuck_rp : lit ")" W = PFail.
  Proof.
    apply (lit_other ")" W stuck_nw). destruct HW as (c & X & -> & Hc & _). simpl. apply stuck_not_rparen. exact Hc.
  Qed.
  Lemma stuck_den : p_density W = POk DNone W.
  Proof.
    unfold p_density. rewrite (lit_other "@" W stuck_nw); [reflexivity|].
    destruct HW as (c & X & -> & Hc & _). simpl. apply stuck_not_at. exact Hc.
  Qed.
  Lemma stuck_end : at_end W = false.
  Proof. unfold at_end. rewrite (skip_ws_id W stuck_nw). destruct HW as (c & X & -> & _). reflexivity. Qed.

  (* the general left-over theorem *)
  Theorem stuck_after_element_rejected : forall P e, wf_pos T P = true -> wf_elem T e = true ->
    p_element T (r_elem e ++ W) = POk (v_elem T e) W ->
    ~ accepted T (r_pos P ++ r_elem e ++ W).
  Proof.
    intros P e HP He HE.
    exact (pos_stuck_rejected T W stuck_up stuck_sep stuck_grp stuck_rp stuck_den stuck_end e He HE P HP).
  Qed.
End StuckFacts.

(* ---------------------------------------------------------------- instances *)
Section Instances.
  Variable T : ptable.

  (* 1. a count with a leading zero directly after a symbol *)
  Lemma zero_lead_stuck : forall d Z, is_digit d = true -> stuck (zero_lead d Z).
  Proof.
    intros d Z Hd. exists "0"%char, (String d Z). split; [reflexivity|]. split; [reflexivity|].
    exact (p_count_zero_lead d Z Hd).
  Qed.

  Theorem leading_zero_anywhere : forall P e d Z, wf_pos T P = true -> wf_elem T e = true ->
    el_cnt e = None -> is_digit d = true ->
    ~ accepted T (r_pos P ++ r_elem e ++ "0" ++ String d Z).
  Proof.
    intros P e d Z HP He Hc Hd. change ("0" ++ String d Z) with (zero_lead d Z).
    apply (stuck_after_element_rejected T _ (zero_lead_stuck d Z Hd)); try assumption.
    apply elem_zero_lead; assumption.
  Qed.

  (* 2. a character that belongs to no token ("H2O*", "H-2", "H1,5", "H2]") after a complete element *)
  Definition garbage (c : ascii) : bool := (stuck_char c && nf_elem c)%bool.

  Lemma garbage_stuck : forall c X, garbage c = true -> stuck (String c X).
  Proof.
    intros c X H. apply andb_prop in H. destruct H as [H1 H2]. exists c, X. split; [reflexivity|]. split; [exact H1|].
    apply p_count_none. simpl. apply nf_elem_count. exact H2.
  Qed.

  Theorem garbage_after_element_rejected : forall P e c X, wf_pos T P = true -> wf_elem T e = true ->
    garbage c = true -> ~ accepted T (r_pos P ++ r_elem e ++ String c X).
  Proof.
    intros P e c X HP He Hc.
    apply (stuck_after_element_rejected T _ (garbage_stuck c X Hc)); try assumption.
    apply elem_ok; [exact He|]. simpl. apply andb_prop in Hc. tauto.
  Qed.

  (* 3. a malformed isotope tag: '[' directly after the symbol, but no number without leading zero
        closed by ']' ("O[]", "O[0]", "O[018]", "O[1.5]", "O[18", "O[x]") *)
  Theorem bad_isotope_tag_rejected : forall P e X, wf_pos T P = true -> wf_elem T e = true ->
    el_iso e = None -> el_ion e = None -> el_cnt e = None ->
    p_isotope (String "[" X) = POk 0%Z (String "[" X) ->
    ~ accepted T (r_pos P ++ r_elem e ++ String "[" X).
  Proof.
    intros P e X HP He Hi Hq Hc Hiso.
    assert (HW : stuck (String "[" X)).
    { exists "["%char, X. split; [reflexivity|]. split; [reflexivity|]. apply p_count_none. reflexivity. }
    apply (stuck_after_element_rejected T _ HW); try assumption.
    destruct (wf_elem_facts T e He) as (z & a0 & vi & vq & a & Hs & Hz & _ & _ & Vi & Vq & _ & Ha & Hpost).
    rewrite Hi in Vi. rewrite Hq in Vq. simpl in Vi, Vq. inversion Vi; subst vi. inversion Vq; subst vq.
    rewrite r_elem_eq, Hi, Hq, Hc. simpl tag_iso. simpl tag_ion. simpl r_ctext. rewrite !sapp_assoc.
    change ("" ++ "" ++ "" ++ String "[" X) with (String "[" X).
    rewrite p_element_eq, (p_symbol_ok T _ _ Hs) by reflexivity. rewrite Hz. cbn [pbind].
    rewrite Hiso. cbn [pbind]. rewrite p_ion_none by reflexivity. cbn [pbind].
    rewrite p_count_none by reflexivity. cbn [pbind]. rewrite Hpost. unfold v_elem. rewrite Ha, Hc. reflexivity.
  Qed.

  (* a sufficient syntactic condition: after '[' and blanks there is no digit 1-9 *)
  Lemma p_isotope_no_number : forall X, hdp (fun c => negb (nonzero_digit c)) (skip_ws X) = true ->
    p_isotope (String "[" X) = POk 0%Z (String "[" X).
  Proof.
    intros X H. unfold p_isotope. rewrite not_white_cons by reflexivity. rewrite lit_here by reflexivity.
    cbn [pbind]. unfold re_whole. destruct (skip_ws X) as [|c r]; [reflexivity|].
    simpl in H. apply negb_true in H. unfold nonzero_digit in H. rewrite H. reflexivity.
  Qed.

  (* 4. a malformed ion tag: '{' after symbol and optional isotope tag, but not {number? sign} *)
  Theorem bad_ion_tag_rejected : forall P e X, wf_pos T P = true -> wf_elem T e = true ->
    el_ion e = None -> el_cnt e = None ->
    p_ion (String "{" X) = POk 0%Z (String "{" X) ->
    ~ accepted T (r_pos P ++ r_elem e ++ String "{" X).
  Proof.
    intros P e X HP He Hq Hc Hion.
    assert (HW : stuck (String "{" X)).
    { exists "{"%char, X. split; [reflexivity|]. split; [reflexivity|]. apply p_count_none. reflexivity. }
    apply (stuck_after_element_rejected T _ HW); try assumption.
    destruct (wf_elem_facts T e He) as (z & a0 & vi & vq & a & Hs & Hz & Wi & _ & Vi & Vq & _ & Ha & Hpost).
    rewrite Hq in Vq. simpl in Vq. inversion Vq; subst vq.
    rewrite r_elem_eq, Hq, Hc. simpl tag_ion. simpl r_ctext. rewrite !sapp_assoc.
    change ("" ++ "" ++ String "{" X) with (String "{" X).
    rewrite p_element_eq.
    assert (H1 : hdp notlower (tag_iso (el_iso e) ++ String "{" X) = true) by (apply tag_iso_hd; reflexivity).
    rewrite (p_symbol_ok T _ _ Hs H1). rewrite Hz. cbn [pbind].
    assert (E1 : p_isotope (tag_iso (el_iso e) ++ String "{" X) = POk vi (String "{" X)).
    { destruct (el_iso e) as [n|]; simpl in Wi, Vi.
      - unfold tag_iso. rewrite !sapp_assoc. rewrite (p_isotope_some n _ Wi), Vi. reflexivity.
      - inversion Vi; subst. simpl. apply p_isotope_none. reflexivity. }
    rewrite E1. cbn [pbind]. rewrite Hion. cbn [pbind].
    rewrite p_count_none by reflexivity. cbn [pbind]. rewrite Hpost. unfold v_elem. rewrite Ha, Hc. reflexivity.
  Qed.

  Lemma p_ion_no_sign : forall X,
    match re_ion X with POk _ r => lit "}" r = PFail | PFail => True | PAbort _ => False end ->
    p_ion (String "{" X) = POk 0%Z (String "{" X).
  Proof.
    intros X H. unfold p_ion. rewrite not_white_cons by reflexivity. rewrite lit_here by reflexivity.
    cbn [pbind]. destruct (re_ion X) as [[dd neg] r| |x]; [|reflexivity|contradiction].
    cbn [pbind]. rewrite H. reflexivity.
  Qed.

  (* 5. text after the density tag: "NaCl@2.16x", "NaCl@1.2.3", "NaCl@1nn" *)
  Theorem text_after_density_rejected : forall t ws txt m G, wfb T t = true ->
    c_density t = Some (ws, txt, Some m) -> at_end G = false ->
    ~ accepted T (render t ++ G).
  Proof.
    intros t ws txt m G H Hdens HG (st & dk & r & E & Hend).
    unfold wfb in H. apply andb_prop in H. destruct H as [Hc Hd].
    rewrite render_eq, Hdens, sapp_assoc in E. rewrite Hdens in Hd. simpl in Hd.
    apply andb_prop in Hd. destruct Hd as [Hd Hm]. apply andb_prop in Hd. destruct Hd as [Hws Ht].
    destruct (parse_dec_count txt Ht) as (q & Hq).
    unfold r_dens in E. rewrite !sapp_assoc in E.
    change (ws ++ "@" ++ txt ++ String m "" ++ G) with (ws ++ String "@" (txt ++ String m G)) in E.
    unfold p_compound in E. rewrite (comp_accept T (c_comp t) _ (ws ++ String "@" (txt ++ String m G))) in E.
    - cbn [pbind] in E. unfold p_density in E. rewrite (lit_blanks "@" ws _ eq_refl Hws) in E.
      rewrite (p_number_ok txt (String m G) q Ht Hq) in E by (simpl; apply marker_nf_count; exact Hm).
      apply orb_prop in Hm. destruct Hm as [Hm|Hm]; apply Ascii.eqb_eq in Hm; subst m; simpl in E;
        inversion E; subst; rewrite HG in Hend; discriminate.
    - pose proof (cdepth_len (c_comp t)). rewrite slen_app. lia.
    - exact Hc.
    - apply cf_stops. unfold cf. rewrite skip_ws_blanks by (exact Hws || reflexivity). reflexivity.
  Qed.
End Instances.
