(* Proofs/C13Num.v — numbers in printed formulas: a count equal to 1 reads back as 1, and the decimal
   text of a positive integer (isotope number, charge magnitude) is a number without leading zero
   that reads back as that integer. *)
From Coq Require Import ZArith NArith QArith String Ascii List Bool Lia.
From PT Require Import Str Dec Loaders Formula Printer C01Lex.
Import ListNotations.
Open Scope string_scope.

(* ---------------------------------------------------------------- the count 1 *)
Lemma round64_one : forall c, (c == 1)%Q -> round64 c = 1%Q.
Proof.
  intros [n d] H. unfold Qeq in H. simpl in H. rewrite Z.mul_1_r in H. subst n.
  unfold round64. cbn [Qnum Qden].
  change (Z.pos d =? 0)%Z with false. cbv iota.
  rewrite Z.abs_eq by lia. rewrite Z.sub_diag.
  change (52 - 0)%Z with 52%Z. cbv zeta.
  change (0 <=? 52)%Z with true. cbv iota.
  assert (E : (Z.pos d * 2 ^ 52 / Z.pos d = 2 ^ 52)%Z).
  { rewrite Z.mul_comm. apply Z.div_mul. lia. }
  rewrite E.
  change (2 ^ 52 <? 2 ^ 52)%Z with false. cbv iota.
  change (2 ^ 53 <=? 2 ^ 52)%Z with false. cbv iota.
  change (Z.min 52 1074) with 52%Z. change (0 <=? 52)%Z with true. cbv iota.
  rewrite E.
  assert (E2 : ((Z.pos d * 2 ^ 52) mod Z.pos d = 0)%Z).
  { rewrite Z.mul_comm. apply Z.mod_mul. lia. }
  rewrite E2. change (2 * 0)%Z with 0%Z.
  change (0 ?= Z.pos d)%Z with Lt. cbv iota.
  change (Z.pos d <? 0)%Z with false. cbv iota. vm_compute. reflexivity.
Qed.

Lemma round6_one : forall c, (c == 1)%Q -> round6 c = 1%Q.
Proof. intros c H. unfold round6. rewrite (round64_one c H). vm_compute. reflexivity. Qed.

(* ---------------------------------------------------------------- int() of a clean number text *)
Lemma parse_int_whole_val : forall t, is_whole t = true -> parse_int t = Some (dnum t 0).
Proof.
  intros t H. pose proof (is_whole_digits t H) as Hd.
  unfold parse_int. rewrite strip_id by (apply (all_chars_impl _ _ digit_not_ws); exact Hd).
  destruct t as [|c d]; [discriminate|]. simpl in H. apply andb_prop in H. destruct H as [Hc Hdd].
  rewrite eat_sign_none.
  2:{ apply negb_true. apply dod_not_minus, digit_dod, nzd_digit. exact Hc. }
  2:{ apply negb_true. apply dod_not_plus, digit_dod, nzd_digit. exact Hc. }
  rewrite <- (sapp_nil_r (String c d)) at 1. rewrite eat_digits_app by (exact Hd || reflexivity).
  cbn [String.length]. rewrite Nat2Z.inj_succ.
  destruct (0 + Z.succ (Z.of_nat (String.length d)) =? 0)%Z eqn:E; [apply Z.eqb_eq in E; lia|].
  reflexivity.
Qed.

Lemma dnum_app : forall a b acc, dnum (a ++ b) acc = dnum b (dnum a acc).
Proof. induction a as [|c a IH]; intros b acc; simpl; [reflexivity|apply IH]. Qed.

(* ---------------------------------------------------------------- decimal printing *)
Lemma digit_char : forall d, (d < 10)%N ->
  let ch := ascii_of_N (48 + d) in
  is_digit ch = true /\ digit_val ch = Z.of_N d /\ (d <> 0%N -> nonzero_digit ch = true).
Proof.
  intros d H.
  assert (C : (d = 0 \/ d = 1 \/ d = 2 \/ d = 3 \/ d = 4 \/ d = 5 \/ d = 6 \/ d = 7 \/ d = 8 \/ d = 9)%N) by lia.
  destruct C as [C|[C|[C|[C|[C|[C|[C|[C|[C|C]]]]]]]]]; subst d; vm_compute; repeat split; congruence.
Qed.

Lemma log2_div10 : forall n, (10 <= n)%N -> (N.log2 (n / 10) < N.log2 n)%N.
Proof.
  intros n H. assert (Hq : (0 < n / 10)%N).
  { apply N.div_str_pos. lia. }
  apply N.log2_lt_pow2; [exact Hq|].
  apply N.div_lt_upper_bound; [lia|].
  pose proof (N.log2_spec n ltac:(lia)) as [_ Hu]. rewrite N.pow_succ_r' in Hu. lia.
Qed.

Lemma N_digits_spec : forall fuel n acc, (0 < n)%N -> (N.to_nat (N.log2 n) < fuel)%nat ->
  exists ds, N_digits fuel n acc = ds ++ acc /\ is_whole ds = true /\
             forall a, dnum ds a = (a * 10 ^ Z.of_nat (String.length ds) + Z.of_N n)%Z.
Proof.
  induction fuel as [|f IH]; intros n acc Hn Hf; [lia|].
  cbn [N_digits]. cbv zeta.
  assert (Hd : (n mod 10 < 10)%N) by (apply N.mod_lt; lia).
  destruct (digit_char (n mod 10) Hd) as (D1 & D2 & D3).
  destruct (N.ltb n 10) eqn:E.
  - apply N.ltb_lt in E. rewrite N.mod_small in * by lia.
    exists (String (ascii_of_N (48 + n)) ""). split; [reflexivity|]. split.
    + unfold is_whole. cbn [all_chars]. rewrite D3 by lia. reflexivity.
    + intro a. cbn [dnum String.length]. rewrite D2. simpl Z.of_nat. lia.
  - apply N.ltb_ge in E.
    destruct (IH (n / 10)%N (String (ascii_of_N (48 + n mod 10)) acc)) as (ds & E1 & W & V).
    + apply N.div_str_pos. lia.
    + pose proof (log2_div10 n E). lia.
    + exists (ds ++ String (ascii_of_N (48 + n mod 10)) ""). split; [|split].
      * rewrite E1, sapp_assoc. reflexivity.
      * destruct ds as [|c r]; [discriminate|]. unfold is_whole in W. apply andb_prop in W. destruct W as [W1 W2].
        change (String c r ++ String (ascii_of_N (48 + n mod 10)) "")
          with (String c (r ++ String (ascii_of_N (48 + n mod 10)) "")).
        unfold is_whole. rewrite W1, all_chars_app, W2. cbn [all_chars]. rewrite D1. reflexivity.
      * intro a. rewrite dnum_app, V. cbn [dnum]. rewrite D2, slen_app. cbn [String.length].
        rewrite Nat2Z.inj_add. simpl Z.of_nat. rewrite Z.pow_add_r by lia.
        rewrite N2Z.inj_div, N2Z.inj_mod. change (Z.of_N 10) with 10%Z.
        pose proof (Z.div_mod (Z.of_N n) 10 ltac:(lia)). lia.
Qed.

Theorem Z_to_string_pos : forall z, (0 < z)%Z ->
  is_whole (Z_to_string z) = true /\ parse_int (Z_to_string z) = Some z.
Proof.
  intros [|p|p] H; try lia. unfold Z_to_string, N_to_string.
  destruct (N_digits_spec (S (N.to_nat (N.log2 (N.pos p)))) (N.pos p) "" ltac:(lia) ltac:(lia)) as (ds & E & W & V).
  rewrite E, sapp_nil_r. split; [exact W|]. rewrite (parse_int_whole_val ds W), V. simpl. reflexivity.
Qed.
