(* Proofs/AttrReach.v — the proof machinery shared by C09 and C10.

   1. decidable equality of group states;
   2. a generic closure checker: a finite list R of states, hashed into a PositiveMap, is closed under
      every allowed action of a finite alphabet, contains the initial state, and every state of R is good;
      soundness: every state reachable by allowed actions is good (check_sound);
   3. the projection of the machine of Model/Attr.v onto one property group (existing tables, base group,
      the group) and the proof that the machine's step IS the projected step (proj_apply, proj_new);
   4. the invariant `Good` (every projection lies in the checked set of its group) and its preservation
      by every event of an alphabet (step_good). *)
From Coq Require Import String List Bool NArith PArith Arith FMapPositive Lia.
From PT Require Import Py AttrScript LoaderScripts Attr.
Import ListNotations.
Open Scope N_scope.

(* ------------------------------------------------------------------ 1. equality *)
Section ListEq.
  Context {A : Type} (eqb : A -> A -> bool).
  Hypothesis eqb_eq : forall a b, eqb a b = true -> a = b.
  Fixpoint list_eqb (l m : list A) : bool :=
    match l, m with
    | [], [] => true
    | a :: r, b :: s => eqb a b && list_eqb r s
    | _, _ => false
    end.
  Lemma list_eqb_eq : forall l m, list_eqb l m = true -> l = m.
  Proof.
    induction l as [|a r IH]; destruct m as [|b s]; simpl; intros H; try discriminate; auto.
    apply andb_true_iff in H. destruct H as [H1 H2]. f_equal; auto.
  Qed.
End ListEq.

Definition centry_eqb (a b : centry) : bool :=
  match a, b with
  | CPending g, CPending h => N.eqb g h
  | CComputed, CComputed | CConst, CConst => true
  | CAlloc T, CAlloc U => table_eqb T U
  | _, _ => false
  end.
Lemma table_eqb_eq : forall a b, table_eqb a b = true -> a = b.
Proof. destruct a, b; simpl; intros; try discriminate; auto. Qed.
Lemma table_eqb_refl : forall a, table_eqb a a = true.
Proof. destruct a; reflexivity. Qed.
Lemma centry_eqb_eq : forall a b, centry_eqb a b = true -> a = b.
Proof.
  destruct a, b; simpl; intros H; try discriminate; auto.
  - apply N.eqb_eq in H. subst. auto.
  - apply table_eqb_eq in H. subst. auto.
Qed.
Definition vkind_eqb (a b : vkind) : bool :=
  match a, b with VKImm, VKImm | VKAlloc, VKAlloc | VKShared, VKShared => true | _, _ => false end.
Definition ival_eqb (a b : ival) : bool :=
  match a, b with IRow k, IRow l => vkind_eqb k l | IUser, IUser => true | _, _ => false end.
Lemma ival_eqb_eq : forall a b, ival_eqb a b = true -> a = b.
Proof. destruct a as [[]|], b as [[]|]; simpl; intros; try discriminate; auto. Qed.

Definition pairN_eqb {V} (veqb : V -> V -> bool) (p q : N * V) : bool :=
  N.eqb (fst p) (fst q) && veqb (snd p) (snd q).
Lemma pairN_eqb_eq : forall V (veqb : V -> V -> bool), (forall a b, veqb a b = true -> a = b) ->
  forall p q, pairN_eqb veqb p q = true -> p = q.
Proof.
  intros V veqb H [a b] [c d]. unfold pairN_eqb. simpl. intros E.
  apply andb_true_iff in E. destruct E as [E1 E2]. apply N.eqb_eq in E1. apply H in E2. subst. auto.
Qed.

Definition gstate_eqb (x y : gstate) : bool :=
  list_eqb (pairN_eqb centry_eqb) (cm x) (cm y) && list_eqb N.eqb (pr x) (pr y)
  && list_eqb (pairN_eqb ival_eqb) (im x) (im y) && list_eqb N.eqb (mk x) (mk y).
Lemma gstate_eqb_eq : forall x y, gstate_eqb x y = true -> x = y.
Proof.
  intros [a b c d] [a' b' c' d']. unfold gstate_eqb. simpl. intros H.
  repeat (apply andb_true_iff in H; destruct H as [H ?]).
  apply list_eqb_eq in H; [|apply pairN_eqb_eq, centry_eqb_eq].
  apply list_eqb_eq in H0; [|intros ? ? E; apply N.eqb_eq in E; auto].
  apply list_eqb_eq in H1; [|apply pairN_eqb_eq, ival_eqb_eq].
  apply list_eqb_eq in H2; [|intros ? ? E; apply N.eqb_eq in E; auto].
  subst. auto.
Qed.

(* ------------------------------------------------------------------ 2. closure checker *)
Section Closure.
  Variables (St Act : Type) (seqb : St -> St -> bool).
  Hypothesis seqb_eq : forall a b, seqb a b = true -> a = b.
  Variable hash : St -> positive.
  Variable next : St -> Act -> St.
  Variable allowed : St -> Act -> bool.
  Variable good : St -> bool.

  Definition tbl := PositiveMap.t (list St).
  Definition bucket (h : positive) (m : tbl) : list St :=
    match PositiveMap.find h m with Some l => l | None => [] end.
  Definition tadd (t : St) (m : tbl) : tbl := PositiveMap.add (hash t) (t :: bucket (hash t) m) m.
  Definition tmem (t : St) (m : tbl) : bool := existsb (seqb t) (bucket (hash t) m).
  Definition build (R : list St) : tbl := fold_right tadd (PositiveMap.empty _) R.

  Lemma tmem_build : forall R t, tmem t (build R) = true -> In t R.
  Proof.
    induction R as [|a R IH]; intros t H.
    - unfold tmem, bucket in H. simpl in H. rewrite PositiveMap.gempty in H. discriminate.
    - simpl in H. unfold tmem, bucket, tadd in H.
      destruct (Pos.eq_dec (hash t) (hash a)) as [E|E].
      + rewrite E in H. rewrite PositiveMap.gss in H. simpl in H.
        apply orb_true_iff in H. destruct H as [H|H].
        * left. symmetry. apply seqb_eq; auto.
        * right. apply IH. unfold tmem. rewrite E. exact H.
      + rewrite PositiveMap.gso in H by auto. right. apply IH. exact H.
  Qed.

  Definition check (R : list St) (init : St) (alpha : list Act) : bool :=
    let m := build R in
    tmem init m
    && forallb (fun t => good t && forallb (fun a => implb (allowed t a) (tmem (next t a) m)) alpha) R.

  Definition Inv (R : list St) (t : St) : Prop := tmem t (build R) = true.

  Section Sound.
    Variables (R : list St) (init : St) (alpha : list Act).
    Hypothesis OK : check R init alpha = true.

    Lemma inv_init : Inv R init.
    Proof. unfold check in OK. apply andb_true_iff in OK. apply OK. Qed.

    Lemma inv_facts : forall t, Inv R t ->
      good t = true /\ forall a, In a alpha -> allowed t a = true -> Inv R (next t a).
    Proof.
      intros t H. apply tmem_build in H.
      unfold check in OK. apply andb_true_iff in OK. destruct OK as [_ F].
      rewrite forallb_forall in F. specialize (F t H). apply andb_true_iff in F. destruct F as [G F].
      split; auto. intros a Ha Al. rewrite forallb_forall in F. specialize (F a Ha).
      rewrite Al in F. simpl in F. exact F.
    Qed.
    Lemma inv_good : forall t, Inv R t -> good t = true.
    Proof. intros t H. apply inv_facts in H. apply H. Qed.
    Lemma inv_step : forall t a, Inv R t -> In a alpha -> allowed t a = true -> Inv R (next t a).
    Proof. intros t a H. apply inv_facts in H. apply H. Qed.
  End Sound.

  (* breadth-first exploration (not verified: its result is what `check` checks) *)
  Fixpoint explore (fuel : nat) (frontier : list St) (m : tbl) (acc : list St) (alpha : list Act) : list St :=
    match fuel with
    | O => acc
    | S f =>
        match frontier with
        | [] => acc
        | _ =>
            let '(nw, m') :=
              fold_left (fun (p : list St * tbl) t =>
                           fold_left (fun (q : list St * tbl) a =>
                                        if allowed t a then
                                          let t' := next t a in
                                          if tmem t' (snd q) then q else (t' :: fst q, tadd t' (snd q))
                                        else q) alpha p) frontier ([], m) in
            explore f nw m' (nw ++ acc)%list alpha
        end
    end.
  Definition reach (fuel : nat) (init : St) (alpha : list Act) : list St :=
    explore fuel [init] (tadd init (PositiveMap.empty _)) [init] alpha.
End Closure.

(* ------------------------------------------------------------------ 3. projection onto one group *)
Record pstate := mkP { p_tabs : list table; p_base : gstate; p_g : gstate }.

Definition proj (g : N) (s : state) : pstate := mkP (tabs s) (comp s 0) (comp s g).

Definition pstate_eqb (a b : pstate) : bool :=
  gstate_eqb (p_g a) (p_g b) && list_eqb table_eqb (p_tabs a) (p_tabs b) && gstate_eqb (p_base a) (p_base b).
Lemma pstate_eqb_eq : forall a b, pstate_eqb a b = true -> a = b.
Proof.
  intros [a b c] [a' b' c']. unfold pstate_eqb. cbn [p_g p_tabs p_base]. intros H.
  apply andb_true_iff in H. destruct H as [H H1]. apply andb_true_iff in H. destruct H as [H H0].
  apply gstate_eqb_eq in H. apply gstate_eqb_eq in H1.
  apply list_eqb_eq in H0; [|apply table_eqb_eq]. subst. auto.
Qed.

(* a cheap additive hash (collisions only cost time: membership compares the states themselves) *)
Definition centry_code (c : centry) : N :=
  match c with CPending g => 10 + g | CComputed => 1 | CConst => 2 | CAlloc T => 3 + tcode T end.
Definition ival_code (v : ival) : N :=
  match v with IRow VKImm => 1 | IRow VKAlloc => 2 | IRow VKShared => 3 | IUser => 4 end.
Definition hash_g (x : gstate) (h : N) : N :=
  let h1 := fold_left (fun h p => h + fst p * 16 + centry_code (snd p)) (cm x) h in
  let h2 := fold_left (fun h p => h + fst p * 8 + ival_code (snd p)) (im x) h1 in
  let h3 := fold_left (fun h k => h + k * 3) (pr x) h2 in
  fold_left (fun h k => h + k * 5) (mk x) h3.
Definition hash_p (t : pstate) : positive :=
  N.succ_pos (hash_g (p_g t) (hash_g (p_base t) (fold_left (fun h T => h + 1 + tcode T) (p_tabs t) 0))).

Inductive pact := PNew (T : table) | PLop (o : lop).

Definition ptab_exists (t : pstate) (T : table) : bool :=
  match T with Pub => true | _ => existsb (table_eqb T) (p_tabs t) end.

(* the step of the machine, seen from group g *)
Definition plop (g : N) (t : pstate) (o : lop) : pstate :=
  if ptab_exists t (ltable o) then
    let g0 := lgroup o in
    if N.eqb g0 0 then
      let b' := fst (lrun o None (p_base t)) in
      mkP (p_tabs t) b' (if N.eqb g 0 then b' else p_g t)
    else if N.eqb g0 g then
      mkP (p_tabs t) (p_base t) (fst (lrun o (Some (p_base t)) (p_g t)))
    else t
  else t.
Definition pnext (g : N) (t : pstate) (a : pact) : pstate :=
  match a with
  | PLop o => plop g t o
  | PNew T => if ptab_exists t T then t
              else plop g (mkP (T :: p_tabs t) (p_base t) (p_g t)) (LInit "mass.init" T)
  end.
(* the outcome of a local operation, seen from its own group *)
Definition pout (t : pstate) (o : lop) : outcome :=
  snd (lrun o (if N.eqb (lgroup o) 0 then None else Some (p_base t)) (p_g t)).

Lemma exists_proj : forall g s T, ptab_exists (proj g s) T = exists_tab s T.
Proof. intros. destruct T; reflexivity. Qed.

Lemma proj_apply : forall g s o, proj g (fst (apply s o)) = plop g (proj g s) o.
Proof.
  intros g s o. unfold apply, plop. rewrite exists_proj.
  destruct (exists_tab s (ltable o)); [|reflexivity].
  unfold base_of. simpl p_base. simpl p_g. simpl p_tabs.
  destruct (N.eqb (lgroup o) 0) eqn:E0.
  - apply N.eqb_eq in E0. rewrite E0.
    destruct (lrun o None (comp s 0)) as [x oc] eqn:L. simpl.
    unfold proj, upd. simpl.
    destruct (N.eqb g 0) eqn:Eg.
    + apply N.eqb_eq in Eg. subst g. reflexivity.
    + destruct g; [discriminate|reflexivity].
  - destruct (lrun o (Some (comp s 0)) (comp s (lgroup o))) as [x oc] eqn:L. simpl.
    unfold proj, upd. simpl. rewrite E0.
    destruct (N.eqb (lgroup o) g) eqn:Eg.
    + apply N.eqb_eq in Eg. subst g. rewrite L. reflexivity.
    + reflexivity.
Qed.

Lemma out_apply : forall s o, exists_tab s (ltable o) = true ->
  snd (apply s o) = pout (proj (lgroup o) s) o.
Proof.
  intros s o E. unfold apply, pout. rewrite E. unfold base_of. simpl.
  destruct (lrun o (if N.eqb (lgroup o) 0 then None else Some (comp s 0)) (comp s (lgroup o))); reflexivity.
Qed.

Lemma proj_new : forall g s T, exists_tab s T = false ->
  proj g (fst (apply (mkS (T :: tabs s) (comp s)) (LInit "mass.init" T))) = pnext g (proj g s) (PNew T).
Proof.
  intros g s T E. rewrite proj_apply. unfold pnext. rewrite exists_proj, E. reflexivity.
Qed.

(* ------------------------------------------------------------------ 4. alphabets and the invariant *)
Definition lop_eqb (a b : lop) : bool :=
  match a, b with
  | LGet T x n, LGet U y m | LHas T x n, LHas U y m | LSetA T x n, LSetA U y m | LMut T x n, LMut U y m =>
      table_eqb T U && atom_eqb x y && String.eqb n m
  | LInit k T, LInit l U => String.eqb k l && table_eqb T U
  | _, _ => false
  end.
Lemma atom_eqb_eq : forall a b, atom_eqb a b = true -> a = b.
Proof. destruct a, b; simpl; intros; try discriminate; auto. Qed.
Lemma lop_eqb_eq : forall a b, lop_eqb a b = true -> a = b.
Proof.
  destruct a, b; simpl; intros H; try discriminate;
    repeat (apply andb_true_iff in H; destruct H as [H ?]);
    repeat match goal with
           | H : table_eqb _ _ = true |- _ => apply table_eqb_eq in H
           | H : atom_eqb _ _ = true |- _ => apply atom_eqb_eq in H
           | H : String.eqb _ _ = true |- _ => apply String.eqb_eq in H
           end; subst; auto.
Qed.

Definition all_groups : list N := map N.of_nat (seq 0 (S (length registrations))).

Section Alphabet.
  (* the operations and tables of an alphabet, the side condition under which an operation is admitted,
     and what is expected of its outcome; both may look at the projection onto the operation's group *)
  Variable lops : list lop.
  Variable news : list table.
  Variable safe : pstate -> lop -> bool.          (* evaluated on proj (lgroup o) s *)
  Variable expect : pstate -> lop -> outcome -> bool.
  Variable R : N -> list pstate.                  (* per group: the checked set *)

  Definition lop_in (o : lop) : bool := existsb (lop_eqb o) lops.
  Lemma lop_in_In : forall o, lop_in o = true -> In o lops.
  Proof.
    intros o H. unfold lop_in in H. apply existsb_exists in H. destruct H as [x [I E]].
    apply lop_eqb_eq in E. subst. auto.
  Qed.

  Definition acts (g : N) : list pact :=
    (map PNew news ++ map PLop (filter (fun o => N.eqb (lgroup o) g || N.eqb (lgroup o) 0) lops))%list.
  (* an action is admitted in the view of group g when it is safe in the view of its own group; for the
     groups it does not belong to the side condition cannot be seen, so the check quantifies over it *)
  Definition allowed (g : N) (t : pstate) (a : pact) : bool :=
    match a with
    | PNew _ => true
    | PLop o => if N.eqb (lgroup o) g then safe t o else true
    end.
  Definition ops_of (g : N) : list lop := filter (fun o => N.eqb (lgroup o) g) lops.
  Definition good_on (ops : list lop) (t : pstate) : bool :=
    forallb (fun o => implb (ptab_exists t (ltable o) && safe t o) (expect t o (pout t o))) ops.
  Definition good (g : N) (t : pstate) : bool := good_on (ops_of g) t.

  Definition check_group (g : N) : bool :=
    let ops := ops_of g in
    check pstate pact pstate_eqb hash_p (pnext g) (allowed g) (good_on ops) (R g) (proj g init_state) (acts g).
  Hypothesis CHK : forall g, In g all_groups -> check_group g = true.
  (* operations of the alphabet act on known groups *)
  Hypothesis GRP : forallb (fun o => existsb (N.eqb (lgroup o)) all_groups) lops = true.

  Definition InvG (g : N) (t : pstate) : Prop := Inv pstate pstate_eqb hash_p (R g) t.
  Definition Good (s : state) : Prop := forall g, In g all_groups -> InvG g (proj g s).

  Lemma good_init : Good init_state.
  Proof. intros g Hg. eapply inv_init. apply CHK; auto. Qed.

  Lemma lgroup_known : forall o, lop_in o = true -> In (lgroup o) all_groups.
  Proof.
    intros o H. apply lop_in_In in H. rewrite forallb_forall in GRP. specialize (GRP o H).
    apply existsb_exists in GRP. destruct GRP as [g [I E]]. apply N.eqb_eq in E. rewrite E. auto.
  Qed.

  Definition safe_at (s : state) (o : lop) : bool := safe (proj (lgroup o) s) o.

  Lemma apply_good : forall s o, Good s -> lop_in o = true -> safe_at s o = true ->
    Good (fst (apply s o)).
  Proof.
    intros s o G I S g Hg. rewrite proj_apply.
    destruct (N.eqb (lgroup o) g || N.eqb (lgroup o) 0) eqn:E.
    - change (plop g (proj g s) o) with (pnext g (proj g s) (PLop o)).
      eapply inv_step; [apply pstate_eqb_eq | apply CHK; auto | apply G; auto | | ].
      + unfold acts. apply in_or_app. right. apply in_map. apply filter_In. split; [apply lop_in_In; auto|auto].
      + unfold allowed. destruct (N.eqb (lgroup o) g) eqn:Eg; auto.
        apply N.eqb_eq in Eg. subst g. exact S.
    - apply orb_false_iff in E. destruct E as [E1 E2]. unfold plop. rewrite E2, E1.
      destruct (ptab_exists (proj g s) (ltable o)); apply G; auto.
  Qed.

  Lemma apply_expect : forall s o, Good s -> lop_in o = true -> safe_at s o = true ->
    exists_tab s (ltable o) = true ->
    expect (proj (lgroup o) s) o (snd (apply s o)) = true.
  Proof.
    intros s o G I S E. rewrite out_apply by auto.
    pose proof (lgroup_known o I) as Hg.
    pose proof (inv_good pstate pact pstate_eqb pstate_eqb_eq hash_p (pnext (lgroup o)) (allowed (lgroup o))
                  (good (lgroup o)) (R (lgroup o)) _ _ (CHK _ Hg) _ (G _ Hg)) as Gd.
    unfold good, good_on in Gd. rewrite forallb_forall in Gd.
    assert (Io : In o (ops_of (lgroup o))).
    { unfold ops_of. apply filter_In. split; [apply lop_in_In; exact I|apply N.eqb_refl]. }
    specialize (Gd o Io).
    rewrite exists_proj, E in Gd. unfold safe_at in S. rewrite S in Gd. simpl in Gd. exact Gd.
  Qed.

  Lemma new_good : forall s T, Good s -> In T news -> exists_tab s T = false ->
    Good (fst (apply (mkS (T :: tabs s) (comp s)) (LInit "mass.init" T))).
  Proof.
    intros s T G I E g Hg. rewrite proj_new by auto.
    eapply inv_step; [apply pstate_eqb_eq | apply CHK; auto | apply G; auto | | reflexivity].
    unfold acts. apply in_or_app. left. apply in_map. auto.
  Qed.

  (* sequences of reads (calculators, imports) *)
  Lemma do_reads_good : forall l s T acc, Good s ->
    (forall a n p, In (a, n, p) l -> lop_in (LGet T a n) = true /\ forall s', safe_at s' (LGet T a n) = true) ->
    Good (fst (do_reads s T l acc)).
  Proof.
    induction l as [|[[a n] p] r IH]; intros s T acc G H; simpl; auto.
    destruct (H a n p (or_introl eq_refl)) as [I S].
    pose proof (apply_good s (LGet T a n) G I (S s)) as G1.
    destruct (apply s (LGet T a n)) as [s1 o] eqn:A. simpl in G1.
    assert (H' : forall a0 n0 p0, In (a0, n0, p0) r ->
                 lop_in (LGet T a0 n0) = true /\ forall s', safe_at s' (LGet T a0 n0) = true)
      by (intros; apply (H a0 n0 p0); right; auto).
    destruct o; try (apply IH; auto). destruct p; [apply IH; auto | exact G1].
  Qed.

  (* when every read of the list is expected to be OSame, so is the combination *)
  Lemma do_reads_same : forall l s T, Good s -> exists_tab s T = true ->
    (forall a n p, In (a, n, p) l -> lop_in (LGet T a n) = true /\ (forall s', safe_at s' (LGet T a n) = true)
                                      /\ forall t oc, expect t (LGet T a n) oc = true -> oc = OSame) ->
    snd (do_reads s T l OSame) = OSame.
  Proof.
    induction l as [|[[a n] p] r IH]; intros s T G E H; simpl; auto.
    destruct (H a n p (or_introl eq_refl)) as [I [S X]].
    pose proof (apply_good s (LGet T a n) G I (S s)) as G1.
    pose proof (apply_expect s (LGet T a n) G I (S s) E) as Ex. apply X in Ex.
    assert (E1 : exists_tab (fst (apply s (LGet T a n))) T = true).
    { unfold apply. simpl ltable. rewrite E.
      destruct (lrun (LGet T a n) (base_of s (lgroup (LGet T a n))) (comp s (lgroup (LGet T a n)))).
      simpl. destruct T; auto. }
    destruct (apply s (LGet T a n)) as [s1 o] eqn:A. simpl in *. subst o.
    apply IH; auto. intros. apply (H a0 n0 p0). right; auto.
  Qed.
End Alphabet.
