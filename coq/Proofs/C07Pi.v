(* Proofs/C07Pi.v — the rational enclosure of pi used by the comparison rule for the one value
   nsf.init obtains with a square root (Eu-151 b_c).  Built in the thorough tier only
   (it loads Reals and Coq-Interval, whose standard axioms it inherits). *)
From Coq Require Import Reals QArith Qreals.
From Interval Require Import Tactic.
From PT Require Import C07Check.
Open Scope R_scope.

Theorem pi_enclosure : Q2R pi_lo < PI < Q2R pi_hi.
Proof.
  unfold pi_lo, pi_hi, Q2R. simpl Qnum. simpl Qden.
  split; interval with (i_prec 120).
Qed.
Print Assumptions pi_enclosure.
