(* Proofs/C20Generic.v — lemmas that hold for ALL inputs (no table involved):
   boolean equalities are sound, association lists agree when they contain each other,
   alternate spin-state rows never change the table, form factors at Q = 0. *)
From Coq Require Import ZArith QArith Qabs String Ascii List Bool Lia.
From PT Require Import Str Dec Loaders Ancillary.
Import ListNotations.

(* ------------------------------------------------------------------ structural equality tests *)
Definition q_eqb (a b : Q) : bool := (Z.eqb (Qnum a) (Qnum b) && Pos.eqb (Qden a) (Qden b))%bool.
Lemma q_eqb_eq : forall a b, q_eqb a b = true -> a = b.
Proof.
  intros [n d] [n' d'] H. unfold q_eqb in H. simpl in H. apply andb_prop in H. destruct H as [H1 H2].
  apply Z.eqb_eq in H1. apply Pos.eqb_eq in H2. subst. reflexivity.
Qed.

Fixpoint list_eqb {A} (e : A -> A -> bool) (l l' : list A) : bool :=
  match l, l' with
  | [], [] => true
  | x :: r, y :: r' => (e x y && list_eqb e r r')%bool
  | _, _ => false
  end.
Lemma list_eqb_eq : forall A (e : A -> A -> bool), (forall a b, e a b = true -> a = b) ->
  forall l l', list_eqb e l l' = true -> l = l'.
Proof.
  intros A e He. induction l as [|x r IH]; destruct l' as [|y r']; simpl; intro H; try discriminate; [reflexivity|].
  apply andb_prop in H. destruct H as [H1 H2]. rewrite (He _ _ H1), (IH _ H2). reflexivity.
Qed.
Definition lq_eqb := list_eqb q_eqb.
Lemma lq_eqb_eq : forall l l', lq_eqb l l' = true -> l = l'.
Proof. exact (list_eqb_eq Q q_eqb q_eqb_eq). Qed.

Definition opt_eqb {A} (e : A -> A -> bool) (a b : option A) : bool :=
  match a, b with Some x, Some y => e x y | None, None => true | _, _ => false end.
Lemma opt_eqb_eq : forall A (e : A -> A -> bool), (forall a b, e a b = true -> a = b) ->
  forall a b, opt_eqb e a b = true -> a = b.
Proof. intros A e He [x|] [y|] H; simpl in H; try discriminate; [rewrite (He _ _ H)|]; reflexivity. Qed.

Definition res_eqb {A} (e : A -> A -> bool) (a b : res A) : bool :=
  match a, b with Val x, Val y => e x y | NoneVal, NoneVal => true | Raise, Raise => true | _, _ => false end.
Lemma res_eqb_eq : forall A (e : A -> A -> bool), (forall a b, e a b = true -> a = b) ->
  forall a b, res_eqb e a b = true -> a = b.
Proof. intros A e He [x| |] [y| |] H; simpl in H; try discriminate; [rewrite (He _ _ H)| |]; reflexivity. Qed.

Definition cmf_eqb (f g : cmf) : bool :=
  (String.eqb (cm_sym f) (cm_sym g) && lq_eqb (cm_a f) (cm_a g) && lq_eqb (cm_b f) (cm_b g)
   && q_eqb (cm_c f) (cm_c g))%bool.
Lemma cmf_eqb_eq : forall f g, cmf_eqb f g = true -> f = g.
Proof.
  intros [s a b c] [s' a' b' c'] H. unfold cmf_eqb in H. simpl in H.
  apply andb_prop in H. destruct H as [H H4]. apply andb_prop in H. destruct H as [H H3].
  apply andb_prop in H. destruct H as [H1 H2].
  apply String.eqb_eq in H1. apply lq_eqb_eq in H2. apply lq_eqb_eq in H3. apply q_eqb_eq in H4.
  subst. reflexivity.
Qed.

Definition sum_eqb {A B} (ea : A -> A -> bool) (eb : B -> B -> bool) (x y : A + B) : bool :=
  match x, y with inl a, inl b => ea a b | inr a, inr b => eb a b | _, _ => false end.
Definition pair_eqb {A B} (ea : A -> A -> bool) (eb : B -> B -> bool) (x y : A * B) : bool :=
  (ea (fst x) (fst y) && eb (snd x) (snd y))%bool.
Lemma pair_eqb_eq : forall A B (ea : A -> A -> bool) (eb : B -> B -> bool),
  (forall a b, ea a b = true -> a = b) -> (forall a b, eb a b = true -> a = b) ->
  forall x y, pair_eqb ea eb x y = true -> x = y.
Proof.
  intros A B ea eb Ha Hb [a b] [a' b'] H. unfold pair_eqb in H. simpl in H. apply andb_prop in H.
  destruct H as [H1 H2]. rewrite (Ha _ _ H1), (Hb _ _ H2). reflexivity.
Qed.
Lemma sum_eqb_eq : forall A B (ea : A -> A -> bool) (eb : B -> B -> bool),
  (forall a b, ea a b = true -> a = b) -> (forall a b, eb a b = true -> a = b) ->
  forall x y, sum_eqb ea eb x y = true -> x = y.
Proof.
  intros A B ea eb Ha Hb [a|a] [b|b] H; simpl in H; try discriminate; [rewrite (Ha _ _ H)|rewrite (Hb _ _ H)]; reflexivity.
Qed.
Lemma Zeqb_eq' : forall a b, Z.eqb a b = true -> a = b.
Proof. intros a b H. apply Z.eqb_eq. exact H. Qed.
Lemma Seqb_eq' : forall a b, String.eqb a b = true -> a = b.
Proof. intros a b H. apply String.eqb_eq. exact H. Qed.

(* ------------------------------------------------------------------ association lists *)
Section Assoc.
  Context {K V : Type} (keqb : K -> K -> bool).
  Hypothesis keqb_eq : forall a b, keqb a b = true -> a = b.

  Definition assoc (l : list (K * V)) (k : K) : option V :=
    match find (fun r => keqb (fst r) k) l with Some r => Some (snd r) | None => None end.

  Lemma assoc_in : forall l k v, assoc l k = Some v -> In (k, v) l.
  Proof.
    intros l k v H. unfold assoc in H. destruct (find (fun r => keqb (fst r) k) l) as [[k' v']|] eqn:F; [|discriminate].
    apply find_some in F. destruct F as [Hin Hk]. simpl in Hk. apply keqb_eq in Hk. simpl in H.
    inversion H. subst. exact Hin.
  Qed.

  (* a lookup function and a listing that contain each other are the same function *)
  Lemma agree : forall (get : K -> option V) (cont l : list (K * V)),
    (forall k v, get k = Some v -> In (k, v) cont) ->
    (forall kv, In kv cont -> assoc l (fst kv) = Some (snd kv)) ->
    (forall kv, In kv l -> get (fst kv) = Some (snd kv)) ->
    forall k, get k = assoc l k.
  Proof.
    intros get cont l H1 H2 H3 k. destruct (get k) as [v|] eqn:G.
    - specialize (H2 _ (H1 _ _ G)). simpl in H2. symmetry. exact H2.
    - destruct (assoc l k) as [v|] eqn:A; [|reflexivity].
      specialize (H3 _ (assoc_in _ _ _ A)). simpl in H3. congruence.
  Qed.
End Assoc.

Lemma aget_in : forall A (m : amap A) z v, aget m z = Some v -> In (z, v) m.
Proof.
  intros A m z v H. unfold aget in H. destruct (find (fun r => Z.eqb (fst r) z) m) as [[k w]|] eqn:F; [|discriminate].
  apply find_some in F. destruct F as [Hin Hk]. simpl in Hk. apply Z.eqb_eq in Hk. simpl in H. inversion H. subst. exact Hin.
Qed.

(* ------------------------------------------------------------------ magnetic table as a flat listing *)
Definition mkey := (Z * Z * string)%type.
Definition mkey_eqb (a b : mkey) : bool :=
  (Z.eqb (fst (fst a)) (fst (fst b)) && Z.eqb (snd (fst a)) (snd (fst b)) && String.eqb (snd a) (snd b))%bool.
Lemma mkey_eqb_eq : forall a b, mkey_eqb a b = true -> a = b.
Proof.
  intros [[z c] j] [[z' c'] j'] H. unfold mkey_eqb in H. simpl in H.
  apply andb_prop in H. destruct H as [H H3]. apply andb_prop in H. destruct H as [H1 H2].
  apply Z.eqb_eq in H1. apply Z.eqb_eq in H2. apply String.eqb_eq in H3. subst. reflexivity.
Qed.

Definition mff_flat (m : mff) : list (mkey * list Q) :=
  flat_map (fun zc => flat_map (fun cs => map (fun jv => ((fst zc, fst cs, fst jv), snd jv)) (snd cs)) (snd zc)) m.

Lemma mff_get_in_flat : forall m z c jn v, mff_get m z c jn = Some v -> In ((z, c, jn), v) (mff_flat m).
Proof.
  intros m z c jn v H. unfold mff_get, mff_charge, mff_el, sets_get, bind in H.
  destruct (find (fun r => Z.eqb (fst r) z) m) as [[z' cs]|] eqn:F1; [|discriminate]. simpl in H.
  destruct (find (fun r => Z.eqb (fst r) c) cs) as [[c' s]|] eqn:F2; [|discriminate]. simpl in H.
  destruct (find (fun r => String.eqb (fst r) jn) s) as [[j' w]|] eqn:F3; [|discriminate]. simpl in H.
  inversion H. subst w.
  apply find_some in F1. destruct F1 as [I1 E1]. simpl in E1. apply Z.eqb_eq in E1. subst z'.
  apply find_some in F2. destruct F2 as [I2 E2]. simpl in E2. apply Z.eqb_eq in E2. subst c'.
  apply find_some in F3. destruct F3 as [I3 E3]. simpl in E3. apply String.eqb_eq in E3. subst j'.
  unfold mff_flat. apply in_flat_map. exists (z, cs). split; [exact I1|]. simpl.
  apply in_flat_map. exists (c, s). split; [exact I2|]. simpl.
  apply in_map_iff. exists (jn, v). split; [reflexivity|exact I3].
Qed.

Lemma cm_lookup_in : forall d s f, cm_lookup d s = Some f -> In (s, f) d.
Proof.
  intros d s f H. unfold cm_lookup in H. destruct (find (fun r => String.eqb (fst r) s) d) as [[k w]|] eqn:F; [|discriminate].
  apply find_some in F. destruct F as [Hin Hk]. simpl in Hk. apply String.eqb_eq in Hk. simpl in H. inversion H. subst. exact Hin.
Qed.

(* ------------------------------------------------------------------ first spin state *)
(* whatever the table holds, a row whose first field is "-" leaves it unchanged *)
Lemma alternate_row_skipped : forall eb st line rest,
  split_ws line = "-"%string :: rest -> cordero_row eb st line = Some st.
Proof.
  intros eb st line rest H. unfold cordero_row. rewrite H.
  destruct (Nat.eqb (List.length ("-"%string :: rest)) 3); simpl; reflexivity.
Qed.

(* ------------------------------------------------------------------ form factors at Q = 0 *)
Open Scope Q_scope.

(* <jn>, n > 0: s^2 (...) vanishes at s = 0 for every coefficient tuple and every exponential *)
Lemma formfactor_n_zero : forall (ex : Q -> Q) v x, formfactor_n ex v 0 = Some x -> x == 0.
Proof.
  intros ex v x H. unfold formfactor_n in H. destruct (Nat.eqb (List.length v) 7); [|discriminate].
  inversion H. ring.
Qed.

(* <j0>/J: A + B + C + D for every exponential with ex(0) = 1 *)
Lemma formfactor_0_zero : forall (ex : Q -> Q), (forall y, y == 0 -> ex y == 1) ->
  forall v x, formfactor_0 ex v 0 = Some x -> x == ff0_at_zero v.
Proof.
  intros ex Hex v x H. unfold formfactor_0 in H. destruct (Nat.eqb (List.length v) 7); [|discriminate].
  inversion H. unfold ff_core, ff0_at_zero.
  rewrite (Hex (- coef v 1 * 0)) by ring. rewrite (Hex (- coef v 3 * 0)) by ring. rewrite (Hex (- coef v 5 * 0)) by ring.
  ring.
Qed.

(* the form factors are total on seven coefficients *)
Lemma formfactor_defined : forall ex v s2, List.length v = 7%nat ->
  formfactor_0 ex v s2 = Some (ff_core ex v s2) /\ formfactor_n ex v s2 = Some (s2 * ff_core ex v s2).
Proof. intros ex v s2 H. unfold formfactor_0, formfactor_n. rewrite H. simpl. split; reflexivity. Qed.

(* Cromer-Mann at stol = 0: c + sum a_i, for every exponential with ex(0) = 1 *)
Lemma cm_terms_zero : forall (ex : Q -> Q), (forall y, y == 0 -> ex y == 1) ->
  forall a b, List.length a = List.length b ->
  Qsum (map (fun ab => fst ab * ex (- snd ab * 0)) (combine a b)) == Qsum a.
Proof.
  intros ex Hex. induction a as [|x r IH]; destruct b as [|y r']; simpl; intro L; try discriminate; [reflexivity|].
  injection L as L. rewrite (IH _ L). rewrite (Hex (- y * 0)) by ring. ring.
Qed.
Lemma cm_eval_zero : forall (ex : Q -> Q), (forall y, y == 0 -> ex y == 1) ->
  forall f, List.length (cm_a f) = List.length (cm_b f) -> cm_eval ex f 0 == cm_at_zero f.
Proof. intros ex Hex f L. unfold cm_eval, cm_at_zero. rewrite (cm_terms_zero ex Hex _ _ L). reflexivity. Qed.
