(* C20 - the crystal-structure table is positional (entry k belongs to atomic number k); every entry is followed in the
   source by a comment naming its element.  The regenerated labels (Gen/Crystal.v) must be the symbols of
   0, 1, 2, ... in core.element_base (the neutron's slot is labelled X): a row inserted or dropped in the middle
   shifts every later element onto its neighbour's structure and breaks this. *)
From Coq Require Import ZArith String List Bool.
From PT Require Import Str Dec C06Rows.
From PT.Gen Require Crystal ElementBase.
Import ListNotations.
Open Scope string_scope.

(* two labels of the source as it stands are not the symbol: "#Th" on entry 65 (a slip in the comment: the entry,
   hcp a = 3.60 c/a = 1.581, is terbium's; thorium's own entry 90 is labelled Th as well) and "#Lw", the former
   symbol of lawrencium, on entry 103 *)
Definition label_ok (z : Z) (lab : string) : bool :=
  if Z.eqb z 0 then String.eqb lab "X"
  else if (Z.eqb z 65 && String.eqb lab "Th")%bool then true
  else if (Z.eqb z 103 && String.eqb lab "Lw")%bool then true
  else match base_find z with Some (_, sym) => String.eqb lab sym | None => false end.

Fixpoint labels_ok_from (z : Z) (labs : list string) : bool :=
  match labs with [] => true | l :: r => (label_ok z l && labels_ok_from (z + 1) r)%bool end.

Lemma sweep_crystal_labels : labels_ok_from 0 Crystal.crystal_labels = true.
Proof. vm_compute. reflexivity. Qed.

Lemma labels_ok_nth : forall labs z k lab, labels_ok_from z labs = true -> nth_error labs k = Some lab ->
  label_ok (z + Z.of_nat k) lab = true.
Proof.
  induction labs as [|l r IH]; intros z k lab H Hn.
  - destruct k; discriminate Hn.
  - cbn [labels_ok_from] in H. apply andb_prop in H. destruct H as [H1 H2]. destruct k as [|k].
    + cbn in Hn. inversion Hn; subst. replace (z + Z.of_nat 0)%Z with z by (cbn; rewrite Z.add_0_r; reflexivity). exact H1.
    + cbn [nth_error] in Hn. replace (z + Z.of_nat (S k))%Z with ((z + 1) + Z.of_nat k)%Z.
      * exact (IH _ _ _ H2 Hn).
      * rewrite Nat2Z.inj_succ. rewrite <- Z.add_1_l. rewrite Z.add_assoc. reflexivity.
Qed.

(* entry k of the table is the entry the source labels with the symbol of atomic number k, and the two lists
   have the same length *)
Theorem crystal_rows_name_their_element :
  List.length Crystal.crystal_labels = List.length Crystal.crystal_structures /\
  forall k lab, nth_error Crystal.crystal_labels k = Some lab -> label_ok (Z.of_nat k) lab = true.
Proof.
  split; [vm_compute; reflexivity|].
  intros k lab H. exact (labels_ok_nth _ 0%Z k lab sweep_crystal_labels H).
Qed.
