(* Proofs/C20Sweep.v — kernel-evaluated sweeps over the regenerated ancillary tables.
   Each table is re-read a second time by a deliberately naive reader (tokens on blanks,
   text between markers, columns found by their #L label) and the loader model is shown to
   serve exactly that listing: every row lands on its own key, unlisted keys get nothing. *)
From Coq Require Import ZArith QArith Qabs String Ascii List Bool Lia.
From PT Require Import Str Dec Loaders Ancillary C20Check C20Generic.
From PT.Gen Require Import ElementBase Cordero Crystal Spectral Cfml WaasKirf.
Import ListNotations.
Open Scope string_scope.

(* ------------------------------------------------------------------ naive readers *)
Definition blank_to_space (c : ascii) : ascii := if is_ws c then " "%char else c.
Definition tokens (s : string) : list string :=
  filter (fun x => negb (String.eqb x "")) (split_char " "%char (map_string blank_to_space s)).
(* an unreadable number becomes -1: the loader model then fails on the same text *)
Definition num (s : string) : Q := match parse_dec s with Some q => q | None => (-1)%Q end.
Definition zint (s : string) : Z := match nat_of_digits s with Some n => Z.of_N n | None => (-1)%Z end.

Fixpoint after_sub (pat s : string) : option string :=
  if startswith pat s then Some (drop (String.length pat) s) else
  match s with EmptyString => None | String _ r => after_sub pat r end.
Fixpoint before_sub (pat s : string) : option string :=
  if startswith pat s then Some EmptyString else
  match s with
  | EmptyString => None
  | String a r => match before_sub pat r with Some x => Some (String a x) | None => None end
  end.
Definition between (l r s : string) : string :=
  match after_sub l s with
  | Some x => match before_sub r x with Some y => y | None => "" end
  | None => ""
  end.
Fixpoint span_alpha (s : string) : string * string :=
  match s with
  | String a r => if is_alpha a then let p := span_alpha r in (String a (fst p), snd p) else (EmptyString, s)
  | EmptyString => (EmptyString, EmptyString)
  end.

Definition el_numbers : list Z := map (fun r => match r with (z, _, _, _, _) => z end) element_base.
Definition el_ions (z : Z) : list Z :=
  match find (fun r => match r with (z', _, _, _, _) => Z.eqb z z' end) element_base with
  | Some (_, _, _, i, u) => (i ++ u)%list
  | None => []
  end.
Definition small_charges : list Z := [-9; -8; -7; -6; -5; -4; -3; -2; -1; 0; 1; 2; 3; 4; 5; 6; 7; 8; 9]%Z.

Definition on {A} (o : option A) (f : A -> bool) : bool := match o with Some t => f t | None => false end.
Lemma on_elim : forall A (o : option A) f t, on o f = true -> o = Some t -> f t = true.
Proof. intros A o f t H E. subst o. exact H. Qed.
Definition is_some {A} (o : option A) : bool := match o with Some _ => true | None => false end.

(* ------------------------------------------------------------------ the tables load *)
Lemma is_some_ex : forall A (o : option A), is_some o = true -> exists a, o = Some a.
Proof. intros A [a|] H; [exists a; reflexivity|discriminate H]. Qed.
Lemma cov_some : is_some the_cov = true. Proof. vm_compute. reflexivity. Qed.
Lemma crystal_some : is_some the_crystal = true. Proof. vm_compute. reflexivity. Qed.
Lemma spectral_some : is_some the_spectral = true. Proof. vm_compute. reflexivity. Qed.
Lemma mff_some : is_some the_mff = true. Proof. vm_compute. reflexivity. Qed.
Lemma cm_some : is_some the_cm = true. Proof. vm_compute. reflexivity. Qed.
Lemma tables_load :
  (exists a, the_cov = Some a) /\ (exists b, the_crystal = Some b) /\ (exists c, the_spectral = Some c) /\
  (exists d, the_mff = Some d) /\ (exists e, the_cm = Some e).
Proof.
  repeat split; apply is_some_ex;
    [exact cov_some | exact crystal_some | exact spectral_some | exact mff_some | exact cm_some].
Qed.

(* ================================================================== covalent radius *)
(* numbered rows: (Z, radius, uncertainty digits); three-field rows have uncertainty 0 *)
Definition cordero_numbered : list (Z * Q * Q) :=
  flat_map (fun line =>
              let t := tokens line in
              match nat_of_digits (hd "" t) with
              | Some n => [(Z.of_N n, num (nth 2 t ""), num (nth 3 t "0"))]
              | None => []
              end) Cordero.

(* spin-state groups: a numbered row and the "-" rows that follow it *)
Fixpoint spin_groups (lines : list string) (cur : option (Z * Q * list Q)) : list (Z * Q * list Q) :=
  match lines with
  | [] => match cur with Some g => [g] | None => [] end
  | line :: rest =>
      let t := tokens line in
      match nat_of_digits (hd "" t) with
      | Some n =>
          let g := (Z.of_N n, num (nth 2 t ""), []) in
          match cur with Some c => c :: spin_groups rest (Some g) | None => spin_groups rest (Some g) end
      | None =>
          match cur with
          | Some (z, r, alts) => spin_groups rest (Some (z, r, (alts ++ [num (nth 2 t "")])%list))
          | None => spin_groups rest None
          end
      end
  end.
Definition cordero_groups : list (Z * Q * list Q) := spin_groups Cordero None.

Definition row_accounted (line : string) : bool :=
  let f := hd "" (tokens line) in
  (String.eqb f "-" || is_some (nat_of_digits f))%bool.

Notation rq_eqb := (res_eqb q_eqb).
Definition cordero_row_ok (t : cov) (e : Z * Q * Q) : bool :=
  let '(z, r, u) := e in
  (rq_eqb (cov_radius EB t z) (Val r) && rq_eqb (cov_unc_raw EB t z) (Val u))%bool.
Definition cordero_absent_ok (t : cov) (z : Z) : bool :=
  if existsb (fun e => Z.eqb (fst (fst e)) z) cordero_numbered then true
  else ((if Z.eqb z 0 then true else rq_eqb (cov_radius EB t z) NoneVal) && rq_eqb (cov_unc_raw EB t z) NoneVal)%bool.
Definition cordero_group_ok (t : cov) (g : Z * Q * list Q) : bool :=
  let '(z, r, _) := g in rq_eqb (cov_radius EB t z) (Val r).
Definition pct_lhs (scale u : Q) : Q := Qabs (cov_unc_float scale u - u / 100).
Definition pct_rhs (u : Q) : Q := u / 100 * (1 # 2 ^ 50).

Lemma cordero_rows_c : on the_cov (fun t => forallb (cordero_row_ok t) cordero_numbered) = true.
Proof. vm_compute. reflexivity. Qed.
Lemma cordero_absent_c : on the_cov (fun t => forallb (cordero_absent_ok t) el_numbers) = true.
Proof. vm_compute. reflexivity. Qed.
Lemma cordero_groups_c : on the_cov (fun t => forallb (cordero_group_ok t) cordero_groups) = true.
Proof. vm_compute. reflexivity. Qed.
Lemma cordero_accounted_c : forallb row_accounted Cordero = true.
Proof. vm_compute. reflexivity. Qed.
Lemma cordero_percent_c : forallb (fun e => Qle_bool (pct_lhs unc_scale (snd e)) (pct_rhs (snd e))) cordero_numbered = true.
Proof. vm_compute. reflexivity. Qed.
Lemma cordero_has_alternates_c :
  existsb (fun g => match snd g with [] => false | _ => true end) cordero_groups = true.
Proof. vm_compute. reflexivity. Qed.
Lemma neutron_radius_c :
  on the_cov (fun t => rq_eqb (cov_radius EB t 0) (Val (cst cordero_neutron_radius_text))) = true.
Proof. vm_compute. reflexivity. Qed.

Theorem cordero_rows : forall t, the_cov = Some t -> forall z r u, In (z, r, u) cordero_numbered ->
  cov_radius EB t z = Val r /\ cov_unc_raw EB t z = Val u.
Proof.
  intros t E z r u Hin. pose proof (on_elim _ _ _ t cordero_rows_c E) as H.
  rewrite forallb_forall in H. specialize (H _ Hin). unfold cordero_row_ok in H.
  apply andb_prop in H. destruct H as [H1 H2].
  split; apply (res_eqb_eq _ _ q_eqb_eq); assumption.
Qed.

Theorem cordero_rows_accounted : forall line, In line Cordero ->
  hd "" (tokens line) = "-" \/ exists n, nat_of_digits (hd "" (tokens line)) = Some n.
Proof.
  intros line Hin. pose proof cordero_accounted_c as H. rewrite forallb_forall in H. specialize (H _ Hin).
  unfold row_accounted in H. apply orb_prop in H. destruct H as [H|H].
  - left. apply String.eqb_eq. exact H.
  - right. destruct (nat_of_digits (hd "" (tokens line))) as [n|]; [exists n; reflexivity|discriminate H].
Qed.

Theorem cordero_absent_none : forall t, the_cov = Some t -> forall z, In z el_numbers ->
  (forall r u, ~ In (z, r, u) cordero_numbered) ->
  (z <> 0%Z -> cov_radius EB t z = NoneVal) /\ cov_unc_raw EB t z = NoneVal.
Proof.
  intros t E z Hz Hno. pose proof (on_elim _ _ _ t cordero_absent_c E) as H.
  rewrite forallb_forall in H. specialize (H _ Hz). unfold cordero_absent_ok in H.
  destruct (existsb (fun e => Z.eqb (fst (fst e)) z) cordero_numbered) eqn:Ex.
  - apply existsb_exists in Ex. destruct Ex as [[[z' r] u] [Hin Hk]]. cbn [fst snd] in Hk. apply Z.eqb_eq in Hk. subst z'.
    exfalso. exact (Hno r u Hin).
  - apply andb_prop in H. destruct H as [H1 H2]. split.
    + intro Hnz. destruct (Z.eqb_spec z 0) as [->|_]; [congruence|].
      apply (res_eqb_eq _ _ q_eqb_eq). exact H1.
    + apply (res_eqb_eq _ _ q_eqb_eq). exact H2.
Qed.

Theorem first_spin_state : forall t, the_cov = Some t -> forall z r alts, In (z, r, alts) cordero_groups ->
  cov_radius EB t z = Val r.
Proof.
  intros t E z r alts Hin. pose proof (on_elim _ _ _ t cordero_groups_c E) as H.
  rewrite forallb_forall in H. specialize (H _ Hin). unfold cordero_group_ok in H.
  apply (res_eqb_eq _ _ q_eqb_eq). exact H.
Qed.

Theorem alternates_exist : exists z r a alts, In (z, r, a :: alts) cordero_groups.
Proof.
  pose proof cordero_has_alternates_c as H. apply existsb_exists in H.
  destruct H as [[[z r] alts] [Hin Hne]]. cbn [fst snd] in Hne. destruct alts as [|a alts]; [discriminate|].
  exists z, r, a, alts. exact Hin.
Qed.

Open Scope Q_scope.
Theorem uncertainty_is_percent : forall z r u, In (z, r, u) cordero_numbered ->
  pct_lhs unc_scale u <= pct_rhs u.
Proof.
  intros z r u Hin. pose proof cordero_percent_c as H. rewrite forallb_forall in H.
  apply Qle_bool_iff. exact (H _ Hin).
Qed.
Close Scope Q_scope.

Theorem neutron_radius_preset : forall t, the_cov = Some t ->
  cov_radius EB t 0 = Val (cst cordero_neutron_radius_text).
Proof.
  intros t E. pose proof (on_elim _ _ _ t neutron_radius_c E) as H.
  apply (res_eqb_eq _ _ q_eqb_eq). exact H.
Qed.

(* ================================================================== crystal structure *)
Definition cdict_eqb : cdict -> cdict -> bool :=
  list_eqb (pair_eqb String.eqb (sum_eqb String.eqb String.eqb)).
Lemma cdict_eqb_eq : forall a b, cdict_eqb a b = true -> a = b.
Proof.
  apply list_eqb_eq. apply pair_eqb_eq; [exact Seqb_eq'|]. apply sum_eqb_eq; exact Seqb_eq'.
Qed.
Definition rcry_eqb := res_eqb (opt_eqb cdict_eqb).
Lemma rcry_eqb_eq : forall a b, rcry_eqb a b = true -> a = b.
Proof. apply res_eqb_eq. apply opt_eqb_eq. exact cdict_eqb_eq. Qed.

(* slot number Z of the literal, AttributeError beyond its end *)
Definition crystal_slot (z : Z) : res (option cdict) :=
  match nth_error crystal_structures (Z.to_nat z) with Some s => Val s | None => Raise end.

Lemma crystal_c : on the_crystal (fun t => forallb (fun z => rcry_eqb (crystal_of EB t z) (crystal_slot z)) el_numbers) = true.
Proof. vm_compute. reflexivity. Qed.

Theorem crystal_by_index : forall t, the_crystal = Some t -> forall z, In z el_numbers ->
  crystal_of EB t z = crystal_slot z.
Proof.
  intros t E z Hz. pose proof (on_elim _ _ _ t crystal_c E) as H. rewrite forallb_forall in H.
  apply rcry_eqb_eq. exact (H _ Hz).
Qed.

(* ================================================================== emission lines *)
Definition spectral_listed : list (string * (Q * Q)) :=
  map (fun line => let t := tokens line in (nth 0 t "", (num (nth 1 t ""), num (nth 2 t "")))) spectral_lines_data.

Definition line_of (sel : Q * Q -> Q) (sym : string) : res Q :=
  match assoc String.eqb spectral_listed sym with Some p => Val (sel p) | None => Raise end.

Definition spectral_el_ok (t : amap (Q * Q)) (z : Z) : bool :=
  match eb_symbol EB z with
  | Some sym => (rq_eqb (k_alpha_of EB t z) (line_of fst sym) && rq_eqb (k_beta1_of EB t z) (line_of snd sym))%bool
  | None => false
  end.
Definition spectral_row_ok (t : amap (Q * Q)) (e : string * (Q * Q)) : bool :=
  match eb_number EB (fst e) with
  | Some z => (rq_eqb (k_alpha_of EB t z) (Val (fst (snd e))) && rq_eqb (k_beta1_of EB t z) (Val (snd (snd e))))%bool
  | None => false
  end.

Lemma spectral_el_c : on the_spectral (fun t => forallb (spectral_el_ok t) el_numbers) = true.
Proof. vm_compute. reflexivity. Qed.
Lemma spectral_row_c : on the_spectral (fun t => forallb (spectral_row_ok t) spectral_listed) = true.
Proof. vm_compute. reflexivity. Qed.

Theorem spectral_by_symbol : forall t, the_spectral = Some t -> forall z sym, In z el_numbers ->
  eb_symbol EB z = Some sym ->
  k_alpha_of EB t z = line_of fst sym /\ k_beta1_of EB t z = line_of snd sym.
Proof.
  intros t E z sym Hz Hs. pose proof (on_elim _ _ _ t spectral_el_c E) as H. rewrite forallb_forall in H.
  specialize (H _ Hz). unfold spectral_el_ok in H. rewrite Hs in H. apply andb_prop in H. destruct H as [H1 H2].
  split; apply (res_eqb_eq _ _ q_eqb_eq); assumption.
Qed.

Theorem spectral_rows : forall t, the_spectral = Some t -> forall sym a b, In (sym, (a, b)) spectral_listed ->
  exists z, eb_number EB sym = Some z /\ k_alpha_of EB t z = Val a /\ k_beta1_of EB t z = Val b.
Proof.
  intros t E sym a b Hin. pose proof (on_elim _ _ _ t spectral_row_c E) as H. rewrite forallb_forall in H.
  specialize (H _ Hin). unfold spectral_row_ok in H. cbn [fst snd] in H.
  destruct (eb_number EB sym) as [z|]; [|discriminate H]. exists z. apply andb_prop in H. destruct H as [H1 H2].
  split; [reflexivity|]. split; apply (res_eqb_eq _ _ q_eqb_eq); assumption.
Qed.

Definition zz_eqb' (a b : Z * Z) : bool := (Z.eqb (fst a) (fst b) && Z.eqb (snd a) (snd b))%bool.
Lemma zz_eqb'_eq : forall a b, zz_eqb' a b = true -> a = b.
Proof.
  intros [a1 a2] [b1 b2] H. unfold zz_eqb' in H. cbn [fst snd] in H. apply andb_prop in H. destruct H as [H1 H2].
  apply Z.eqb_eq in H1. apply Z.eqb_eq in H2. subst. reflexivity.
Qed.

(* ================================================================== magnetic form factors *)
(* statements of the Fortran text: (statement name, label between the quotes, text between (/ and /)),
   the numbers being on the same line or on the line after an & *)
Fixpoint cfml_statements (lines : list string) : list (string * string * string) :=
  match lines with
  | [] => []
  | l :: r =>
      match after_sub "Magnetic_Form_Type" l with
      | None => cfml_statements r
      | Some _ =>
          let full := match after_sub "(/" l with Some _ => l | None => l ++ hd "" r end in
          (match before_sub "(" (lstrip l) with Some k => k | None => "" end,
           between """" """" l, between "(/" "/)" full) :: cfml_statements r
      end
  end.

(* key by the letters and the digits of the label; Form labels carry M (= j0) or J in front *)
Definition cfml_entry (s : string * string * string) : mkey * list Q :=
  let '(kind, label0, nums) := s in
  let label := remove_char " "%char label0 in
  let jl :=
    if String.eqb kind "Magnetic_Form" then
      if startswith "M" label then ("j0", drop 1 label)
      else if startswith "J" label then ("J", drop 1 label)
      else ("?", label)
    else (drop 9 kind, label) in
  let p := span_alpha (snd jl) in
  let z := match eb_number EB (capitalize (fst p)) with Some z => z | None => (-1)%Z end in
  ((z, zint (snd p), fst jl), map num (split_char ","%char nums)).

Definition mff_listed : list (mkey * list Q) := map cfml_entry (cfml_statements CFML_DATA).

Notation olq_eqb := (opt_eqb lq_eqb).
Lemma mff_cont_c :
  on the_mff (fun t => forallb (fun kv => olq_eqb (assoc mkey_eqb mff_listed (fst kv)) (Some (snd kv))) (mff_flat t)) = true.
Proof. vm_compute. reflexivity. Qed.
Definition mget (t : mff) (k : mkey) : option (list Q) := mff_get t (fst (fst k)) (snd (fst k)) (snd k).
Lemma mff_listed_c :
  on the_mff (fun t => forallb (fun kv => olq_eqb (mget t (fst kv)) (Some (snd kv))) mff_listed) = true.
Proof. vm_compute. reflexivity. Qed.

Theorem magnetic_entries : forall t, the_mff = Some t -> forall z c jn,
  mff_get t z c jn = assoc mkey_eqb mff_listed (z, c, jn).
Proof.
  intros t E z c jn.
  pose proof (on_elim _ _ _ t mff_cont_c E) as H2. rewrite forallb_forall in H2.
  pose proof (on_elim _ _ _ t mff_listed_c E) as H3. rewrite forallb_forall in H3.
  refine (agree mkey_eqb mkey_eqb_eq (mget t) (mff_flat t) mff_listed _ _ _ (z, c, jn)).
  - intros [[z' c'] j'] v G. apply mff_get_in_flat. exact G.
  - intros kv Hin. apply (opt_eqb_eq _ _ lq_eqb_eq). exact (H2 _ Hin).
  - intros kv Hin. apply (opt_eqb_eq _ _ lq_eqb_eq). exact (H3 _ Hin).
Qed.

(* el.magnetic_ff raises AttributeError exactly for the elements without any statement *)
Lemma mff_els_c :
  on the_mff (fun t => (forallb (fun zc => existsb (fun kv => Z.eqb (fst (fst (fst kv))) (fst zc)) mff_listed) t
                        && forallb (fun kv => is_some (mff_el t (fst (fst (fst kv))))) mff_listed)%bool) = true.
Proof. vm_compute. reflexivity. Qed.

Theorem magnetic_absent : forall t, the_mff = Some t -> forall z,
  mff_el t z = None <-> (forall c jn v, ~ In ((z, c, jn), v) mff_listed).
Proof.
  intros t E z. pose proof (on_elim _ _ _ t mff_els_c E) as H. apply andb_prop in H. destruct H as [H1 H2].
  rewrite forallb_forall in H1. rewrite forallb_forall in H2. split.
  - intros Hn c jn v Hin. specialize (H2 _ Hin). cbn [fst snd] in H2. rewrite Hn in H2. discriminate.
  - intro Hno. destruct (mff_el t z) as [cs|] eqn:M; [|reflexivity]. exfalso.
    unfold mff_el in M. destruct (find (fun r => Z.eqb (fst r) z) t) as [[z' cs']|] eqn:F; [|discriminate].
    apply find_some in F. destruct F as [Hin Hk]. cbn [fst snd] in Hk. apply Z.eqb_eq in Hk. subst z'.
    specialize (H1 _ Hin). cbn [fst snd] in H1. apply existsb_exists in H1. destruct H1 as [[[[z' c] jn] v] [Hl Hk]].
    cbn [fst snd] in Hk. apply Z.eqb_eq in Hk. subst z'. exact (Hno c jn v Hl).
Qed.

Open Scope Q_scope.
Definition unit_ok (v : list Q) : bool :=
  (Qle_bool (995 # 1000) (ff0_at_zero v) && Qle_bool (ff0_at_zero v) (1005 # 1000))%bool.
Definition j0_entry_ok (kv : mkey * list Q) : bool :=
  if String.eqb (snd (fst kv)) "j0" then unit_ok (snd kv) else true.
Definition seven_ok (kv : mkey * list Q) : bool := Nat.eqb (List.length (snd kv)) 7.

Lemma j0_c : on the_mff (fun t => forallb j0_entry_ok (mff_flat t)) = true.
Proof. vm_compute. reflexivity. Qed.
Lemma seven_c : on the_mff (fun t => forallb seven_ok (mff_flat t)) = true.
Proof. vm_compute. reflexivity. Qed.

Theorem j0_at_zero : forall t, the_mff = Some t -> forall z c v, mff_get t z c "j0" = Some v ->
  995 # 1000 <= ff0_at_zero v /\ ff0_at_zero v <= 1005 # 1000.
Proof.
  intros t E z c v G. pose proof (on_elim _ _ _ t j0_c E) as H. rewrite forallb_forall in H.
  specialize (H _ (mff_get_in_flat _ _ _ _ _ G)). unfold j0_entry_ok in H. cbn [fst snd] in H. rewrite String.eqb_refl in H.
  unfold unit_ok in H. apply andb_prop in H. destruct H as [H1 H2].
  split; apply Qle_bool_iff; assumption.
Qed.

Theorem seven_coefficients : forall t, the_mff = Some t -> forall z c jn v, mff_get t z c jn = Some v ->
  List.length v = 7%nat.
Proof.
  intros t E z c jn v G. pose proof (on_elim _ _ _ t seven_c E) as H. rewrite forallb_forall in H.
  specialize (H _ (mff_get_in_flat _ _ _ _ _ G)). unfold seven_ok in H. cbn [fst snd] in H.
  apply Nat.eqb_eq. exact H.
Qed.

(* the dipole form J = <j0> + C2 <j2> should also be 1 at Q = 0; two entries of the CrysFML
   text are not (data, not loader): recorded with the exact witness *)
Definition J_entry_ok (kv : mkey * list Q) : bool :=
  if String.eqb (snd (fst kv)) "J" then unit_ok (snd kv) else true.
Definition J_outliers (t : mff) : list (mkey * Q) :=
  map (fun kv => (fst kv, ff0_at_zero (snd kv))) (filter (fun kv => negb (J_entry_ok kv)) (mff_flat t)).
Definition J_known_outliers : list (Z * Z) := [(60, 2); (66, 3)]%Z.
Definition J_partial_ok (kv : mkey * list Q) : bool :=
  (J_entry_ok kv || existsb (zz_eqb' (fst (fst kv))) J_known_outliers)%bool.
Lemma J_partial_c : on the_mff (fun t => forallb J_partial_ok (mff_flat t)) = true.
Proof. vm_compute. reflexivity. Qed.
Lemma J_witness_c :
  on the_mff (fun t => match mff_get t 66 3 "J" with
                       | Some v => Qeq_bool (ff0_at_zero v) (1131665 # 1000000)
                       | None => false
                       end) = true.
Proof. vm_compute. reflexivity. Qed.

Theorem J_at_zero_partial : forall t, the_mff = Some t -> forall z c v, mff_get t z c "J" = Some v ->
  ~ In (z, c) J_known_outliers ->
  995 # 1000 <= ff0_at_zero v /\ ff0_at_zero v <= 1005 # 1000.
Proof.
  intros t E z c v G Hno. pose proof (on_elim _ _ _ t J_partial_c E) as H. rewrite forallb_forall in H.
  specialize (H _ (mff_get_in_flat _ _ _ _ _ G)). unfold J_partial_ok in H. cbn [fst snd] in H.
  apply orb_prop in H. destruct H as [H|H].
  - unfold J_entry_ok in H. cbn [fst snd] in H. rewrite String.eqb_refl in H.
    unfold unit_ok in H. apply andb_prop in H. destruct H as [H1 H2].
    split; apply Qle_bool_iff; assumption.
  - exfalso. apply existsb_exists in H. destruct H as [x [Hin Hx]]. apply zz_eqb'_eq in Hx. subst x. exact (Hno Hin).
Qed.

Theorem J_at_zero_outlier : forall t, the_mff = Some t ->
  exists v, mff_get t 66 3 "J" = Some v /\ ff0_at_zero v == 1131665 # 1000000.
Proof.
  intros t E. pose proof (on_elim _ _ _ t J_witness_c E) as H. cbv beta in H.
  destruct (mff_get t 66 3 "J") as [v|]; [|discriminate H]. exists v. split; [reflexivity|].
  apply Qeq_bool_iff. exact H.
Qed.
Close Scope Q_scope.

(* ================================================================== Cromer-Mann *)
Fixpoint index_of (x : string) (l : list string) : nat :=
  match l with [] => 1000%nat | y :: r => if String.eqb x y then 0%nat else S (index_of x r) end.
Fixpoint skip_to_L (l : list string) : list string :=
  match l with
  | [] => []
  | x :: r => if startswith "#L" x then l else skip_to_L r
  end.

(* (Z of the header, symbol, coefficients found by their column label) *)
Fixpoint cm_rows (lines : list string) : list (Z * string * cmf) :=
  match lines with
  | [] => []
  | l :: r =>
      let t := tokens l in
      if (String.eqb (hd "" t) "#S" && Nat.leb 3 (List.length t))%bool then
        let zs := nth 1 t "" in
        let sym := nth 2 t "" in
        let blk := skip_to_L r in
        let labels := tl (tokens (hd "" blk)) in
        let vals := tokens (nth 1 blk "") in
        let col (name : string) := num (nth (index_of name labels) vals "") in
        (zint zs, sym, mkCmf sym [col "a1"; col "a2"; col "a3"; col "a4"; col "a5"]
                                 [col "b1"; col "b2"; col "b3"; col "b4"; col "b5"] (col "c")) :: cm_rows r
      else cm_rows r
  end.
Definition cm_file_rows : list (Z * string * cmf) := cm_rows f0_WaasKirf.
Definition cm_listed : list (string * cmf) := map (fun r => (snd (fst r), snd r)) cm_file_rows.

(* "Fe2+" -> ("Fe", 2), "Cl1-" -> ("Cl", -1), "Fe" -> ("Fe", 0); anything else has no charge suffix *)
Definition suffix_charge (sym : string) : string * option Z :=
  let p := span_alpha sym in
  (fst p,
   let r := snd p in
   if String.eqb r "" then Some 0%Z
   else if Nat.eqb (String.length r) 2 then
     match String.get 0 r, String.get 1 r with
     | Some d, Some sg =>
         if negb (is_digit d) then None
         else if ascii_eqb sg "+" then Some (digit_val d)
         else if ascii_eqb sg "-" then Some (- digit_val d)%Z
         else None
     | _, _ => None
     end
   else None).
(* rows that are an element or ion: the header number is the element of the symbol's letters *)
Definition cm_species : list ((Z * Z) * cmf) :=
  flat_map (fun r => let '(z, sym, f) := r in
                     let sc := suffix_charge sym in
                     match snd sc, eb_symbol EB z with
                     | Some c, Some s => if String.eqb s (fst sc) then [((z, c), f)] else []
                     | _, _ => []
                     end) cm_file_rows.
Definition zz_eqb : Z * Z -> Z * Z -> bool := pair_eqb Z.eqb Z.eqb.
Lemma zz_eqb_eq : forall a b, zz_eqb a b = true -> a = b.
Proof. apply pair_eqb_eq; exact Zeqb_eq'. Qed.

Notation ocmf_eqb := (opt_eqb cmf_eqb).
Lemma cm_cont_c :
  on the_cm (fun t => forallb (fun kv => ocmf_eqb (assoc String.eqb cm_listed (fst kv)) (Some (snd kv))) t) = true.
Proof. vm_compute. reflexivity. Qed.
Lemma cm_listed_c :
  on the_cm (fun t => forallb (fun kv => ocmf_eqb (cm_lookup t (fst kv)) (Some (snd kv))) cm_listed) = true.
Proof. vm_compute. reflexivity. Qed.

(* column order: the positional reader a1..a5 c b1..b5 serves, for every symbol, the values
   standing under the labels a1..a5, c, b1..b5 of its own #L line; unlisted symbols: KeyError *)
Theorem cm_column_order : forall t, the_cm = Some t -> forall sym,
  cm_lookup t sym = assoc String.eqb cm_listed sym.
Proof.
  intros t E sym.
  pose proof (on_elim _ _ _ t cm_cont_c E) as H2. rewrite forallb_forall in H2.
  pose proof (on_elim _ _ _ t cm_listed_c E) as H3. rewrite forallb_forall in H3.
  apply (agree String.eqb Seqb_eq' (cm_lookup t) t cm_listed).
  - intros k v G. apply cm_lookup_in. exact G.
  - intros kv Hin. apply (opt_eqb_eq _ _ cmf_eqb_eq). exact (H2 _ Hin).
  - intros kv Hin. apply (opt_eqb_eq _ _ cmf_eqb_eq). exact (H3 _ Hin).
Qed.

Lemma cm_species_c :
  on the_cm (fun t => forallb (fun z => forallb (fun c => ocmf_eqb (cm_of EB t z c) (assoc zz_eqb cm_species (z, c)))
                                                (small_charges ++ el_ions z)) el_numbers) = true.
Proof. vm_compute. reflexivity. Qed.

(* which entry an element or ion is served: the row whose header carries its number and
   whose symbol carries its charge, or none *)
Theorem cm_species_served : forall t, the_cm = Some t -> forall z c, In z el_numbers ->
  In c small_charges \/ In c (el_ions z) ->
  cm_of EB t z c = assoc zz_eqb cm_species (z, c).
Proof.
  intros t E z c Hz Hc. pose proof (on_elim _ _ _ t cm_species_c E) as H. rewrite forallb_forall in H.
  specialize (H _ Hz). rewrite forallb_forall in H. apply (opt_eqb_eq _ _ cmf_eqb_eq). apply H.
  apply in_or_app. exact Hc.
Qed.

Open Scope Q_scope.
(* number of electrons: Z minus the charge of the symbol's suffix (none for Cval, Siva) *)
Definition electrons (z : Z) (sym : string) : Q :=
  inject_Z (z - match snd (suffix_charge sym) with Some c => c | None => 0%Z end).
Definition cm_row_ok (r : Z * string * cmf) : bool :=
  let '(z, sym, f) := r in
  (Qle_bool (Qabs (cm_at_zero f - electrons z sym)) (5 # 100)
   && Nat.eqb (List.length (cm_a f)) 5 && Nat.eqb (List.length (cm_b f)) 5)%bool.
Lemma cm_rows_c : forallb cm_row_ok cm_file_rows = true.
Proof. vm_compute. reflexivity. Qed.

Theorem cm_electron_count : forall z sym f, In (z, sym, f) cm_file_rows ->
  Qabs (cm_at_zero f - electrons z sym) <= 5 # 100 /\ List.length (cm_a f) = 5%nat /\ List.length (cm_b f) = 5%nat.
Proof.
  intros z sym f Hin. pose proof cm_rows_c as H. rewrite forallb_forall in H. specialize (H _ Hin).
  unfold cm_row_ok in H. apply andb_prop in H. destruct H as [H H3]. apply andb_prop in H. destruct H as [H1 H2].
  split; [apply Qle_bool_iff; exact H1|]. split; apply Nat.eqb_eq; assumption.
Qed.
Close Scope Q_scope.
