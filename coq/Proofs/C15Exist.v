(* Proofs/C15Exist.v — the time the property asks for exists: the summed activity
   A(t) = sum_i A_i(0) 2^(-t/T_i) is continuous, falls below every positive level, and therefore
   meets every target in (0, A(0)) at a time t > 0 (unique by C15Proofs.spec_root_unique). *)
From Coq Require Import Reals List Lra Psatz.
From Coquelicot Require Import Coquelicot.
From PT Require Import DecayTime C15Proofs.
Import ListNotations.
Open Scope R_scope.

Lemma true_A_continuity : forall rem, continuity (true_A rem).
Proof.
  intros rem x. apply derivable_continuous_pt. apply ex_derive_Reals_0.
  exists (derR (data_at rem 0) 0 x).
  apply (is_derive_ext (fR (data_at rem 0) 0 0)).
  - intro t. rewrite f_is_true_activity. lra.
  - apply fR_is_derive.
Qed.

(* one product falls below every positive level *)
Lemma term_small : forall a T eps, 0 <= a -> 0 < T -> 0 < eps ->
  exists t, 0 <= t /\ a * Rpower 2 (- t / T) <= eps.
Proof.
  intros a T eps Ha HT He.
  destruct (Rle_lt_or_eq_dec 0 a Ha) as [Hap|Ha0].
  2:{ exists 0. subst a. split; [lra|]. rewrite Rmult_0_l. lra. }
  assert (Hl : 0 < ln 2) by (rewrite <- ln_1; apply ln_increasing; lra).
  set (x := a / eps).
  assert (Hx : 0 < x) by (unfold x; apply Rdiv_lt_0_compat; assumption).
  exists (T * x / ln 2). split.
  - apply Rlt_le. apply Rdiv_lt_0_compat; [apply Rmult_lt_0_compat|]; assumption.
  - unfold Rpower.
    replace (- (T * x / ln 2) / T * ln 2) with (- x) by (field; split; lra).
    rewrite exp_Ropp.
    assert (H1 : 1 + x < exp x) by (apply exp_ineq1; lra).
    assert (H2 : / exp x < / x).
    { apply Rinv_lt_contravar; [apply Rmult_lt_0_compat; lra|lra]. }
    apply Rle_trans with (a * / x).
    + apply Rmult_le_compat_l; lra.
    + unfold x. right. field. split; lra.
Qed.

(* the summed activity falls below every positive level *)
Lemma true_A_small : forall rem eps, physical_rem rem -> 0 < eps ->
  exists t, 0 <= t /\ true_A rem t <= eps.
Proof.
  induction rem as [|[a T] r IH]; intros eps Hp He.
  - exists 0. simpl. lra.
  - inversion Hp as [|? ? [Ha HT] Hr]; subst. simpl in Ha, HT.
    destruct (term_small a T (eps / 2) Ha HT) as [ta [Hta Hsa]]; [lra|].
    destruct (IH (eps / 2) Hr) as [tr [Htr Hsr]]; [lra|].
    exists (Rmax ta tr). split; [apply Rle_trans with ta; [assumption|apply Rmax_l]|].
    assert (Hone : physical_rem [(a, T)]) by (constructor; [simpl; split; assumption|constructor]).
    assert (H1 : true_A [(a, T)] (Rmax ta tr) <= true_A [(a, T)] ta).
    { destruct (Rle_lt_or_eq_dec ta (Rmax ta tr) (Rmax_l ta tr)) as [L|E].
      - apply (true_A_decr [(a, T)] ta (Rmax ta tr) Hone L).
      - rewrite <- E. lra. }
    assert (H2 : true_A r (Rmax ta tr) <= true_A r tr).
    { destruct (Rle_lt_or_eq_dec tr (Rmax ta tr) (Rmax_r ta tr)) as [L|E].
      - apply (true_A_decr r tr (Rmax ta tr) Hr L).
      - rewrite <- E. lra. }
    simpl in H1 |- *. lra.
Qed.

(* the time at which the summed activity reaches the target exists *)
Theorem spec_root_exists : forall rem target, physical_rem rem -> 0 < target -> target < true_A rem 0 ->
  exists t, 0 < t /\ true_A rem t = target.
Proof.
  intros rem target Hp Htg Hab.
  destruct (true_A_small rem (target / 2) Hp) as [t1 [Ht1 Hs1]]; [lra|].
  assert (Hc : continuity (true_A rem - fct_cte target)%F).
  { apply continuity_minus; [apply true_A_continuity|apply continuity_const; intros x y; reflexivity]. }
  destruct (IVT_cor (true_A rem - fct_cte target)%F 0 t1 Hc Ht1) as [z [[Hz0 Hz1] Hz]].
  - unfold minus_fct, fct_cte.
    assert (0 < true_A rem 0 - target) by lra. assert (true_A rem t1 - target < 0) by lra.
    nra.
  - unfold minus_fct, fct_cte in Hz. exists z. split; [|lra].
    destruct (Rle_lt_or_eq_dec 0 z Hz0) as [L|E]; [assumption|]. subst z. lra.
Qed.

(* ... and is unique *)
Theorem spec_root_exists_unique : forall rem target, physical_rem rem -> 0 < target -> target < true_A rem 0 ->
  exists t, (0 < t /\ true_A rem t = target) /\ forall t', true_A rem t' = target -> t' = t.
Proof.
  intros rem target Hp Htg Hab. destruct (spec_root_exists rem target Hp Htg Hab) as [t [Ht He]].
  exists t. split; [split; assumption|]. intros t' He'. apply (spec_root_unique rem target); assumption.
Qed.

(* at or below the target at removal there is no positive such time above... the activity stays below *)
Theorem below_stays_below : forall rem target t, physical_rem rem -> true_A rem 0 <= target -> 0 <= t ->
  true_A rem t <= target.
Proof.
  intros rem target t Hp Hb Ht. destruct (Rle_lt_or_eq_dec 0 t Ht) as [L|E].
  - destruct (true_A_decr rem 0 t Hp L) as [Hle _]. lra.
  - subst t. assumption.
Qed.

(* the premises are satisfiable: one product of 2 uCi with a half-life of one hour, target 1 uCi *)
Example spec_root_exists_example :
  physical_rem [(2, 1)] /\ 0 < 1 /\ 1 < true_A [(2, 1)] 0 /\ true_A [(2, 1)] 1 = 1.
Proof.
  assert (H0 : Rpower 2 (- 0 / 1) = 1) by (replace (- 0 / 1) with 0 by field; apply Rpower_O; lra).
  assert (H1 : Rpower 2 (Ropp 1 / 1) = / 2).
  { replace (Ropp 1 / 1) with (Ropp 1) by field. rewrite Rpower_Ropp, Rpower_1; lra. }
  repeat split.
  - constructor; [simpl; lra|constructor].
  - lra.
  - simpl. rewrite H0. lra.
  - simpl. rewrite H1. lra.
Qed.

(* ------------------------------------------------------------------ all Newton iterates stay left of the root *)
(* x_{k+1} = x_k - f(x_k)/f'(x_k) with the true derivative *)
Fixpoint newton (data : list (R * R)) (To target : R) (n : nat) (x : R) : R :=
  match n with
  | O => x
  | S k => newton data To target k (x - fR data To target x / derR data To x)
  end.

(* left of a root f is non-negative (f is convex with a non-positive derivative) *)
Lemma fR_nonneg_left : forall data To target x r, physical_data data ->
  fR data To target r = 0 -> x <= r -> 0 <= fR data To target x.
Proof.
  intros data To target x r Hp Hr Hx. unfold fR in *.
  pose proof (sumR_convex data To r x Hp) as Hc. pose proof (derR_nonpos data To r Hp) as Hd.
  assert (0 <= derR data To r * (x - r)) by nra. lra.
Qed.

(* from a start value at which f >= 0 (left of the root), every iterate lies between the previous one and the
   root: the iteration is monotone and never passes the root, for any number of steps *)
Theorem newton_iterates_left : forall data To target r, physical_data data ->
  fR data To target r = 0 -> (forall x, derR data To x < 0) ->
  forall n x0, 0 <= fR data To target x0 ->
    x0 <= newton data To target n x0 <= r /\ 0 <= fR data To target (newton data To target n x0) /\
    newton data To target n x0 <= newton data To target (S n) x0.
Proof.
  intros data To target r Hp Hr Hd. induction n as [|n IH]; intros x0 H0.
  - destruct (newton_left_monotone data To target x0 r Hp Hr H0 (Hd x0)) as [Ha Hb].
    simpl. assert (x0 <= r) by lra. repeat split; try lra; assumption.
  - destruct (newton_left_monotone data To target x0 r Hp Hr H0 (Hd x0)) as [Ha Hb].
    set (x1 := x0 - fR data To target x0 / derR data To x0) in *.
    assert (H1 : 0 <= fR data To target x1) by (apply (fR_nonneg_left data To target x1 r); assumption).
    destruct (IH x1 H1) as [[Hc He] [Hf Hg]].
    change (newton data To target (S n) x0) with (newton data To target n x1).
    change (newton data To target (S (S n)) x0) with (newton data To target (S n) x1).
    repeat split; try lra; assumption.
Qed.

(* the premises are satisfiable: one product of 1 uCi with decay constant 1/h, target 1/2: the derivative is negative
   everywhere, the data are physical, ln 2 is the root and f(0) = 1/2 >= 0 *)
Example newton_iterates_left_example :
  physical_data [(1, 1)] /\ (forall x, derR [(1, 1)] 0 x < 0) /\ fR [(1, 1)] 0 (/ 2) (ln 2) = 0 /\
  0 <= fR [(1, 1)] 0 (/ 2) 0.
Proof.
  repeat split.
  - constructor; [simpl; lra|constructor].
  - intro x. simpl. pose proof (exp_pos (- (1 * (x - 0)))). lra.
  - unfold fR. simpl. replace (- (1 * (ln 2 - 0))) with (- ln 2) by ring.
    rewrite exp_Ropp, exp_ln by lra. lra.
  - unfold fR. simpl. replace (- (1 * (0 - 0))) with 0 by ring. rewrite exp_0. lra.
Qed.

(* ------------------------------------------------------------------ the start value is not right of the root *)
(* the summed activity is at least the activity of any one product *)
Lemma sumR_ge_term : forall data To g Ia La, physical_data data -> In (Ia, La) data ->
  Ia * exp (- (La * (g - To))) <= sumR data To g.
Proof.
  induction data as [|[a l] d IH]; intros To g Ia La Hp Hin; [contradiction|].
  inversion Hp as [|? ? [Ha Hl] Hd]; subst. simpl in Ha, Hl. simpl.
  assert (Hnn : forall dd, physical_data dd -> 0 <= sumR dd To g).
  { induction dd as [|[a' l'] dd IHd]; intro Hq; simpl; [lra|].
    inversion Hq as [|? ? [Ha' Hl'] Hd']; subst. simpl in Ha'. specialize (IHd Hd').
    pose proof (exp_pos (- (l' * (g - To)))). nra. }
  destruct Hin as [E|Hin].
  - inversion E; subst. specialize (Hnn d Hd). lra.
  - specialize (IH To g Ia La Hd Hin). pose proof (exp_pos (- (l * (g - To)))). nra.
Qed.

(* decay_time starts Newton at max_i (-log(target/Ia_i)/La_i + To), the latest of the times at which one product
   alone would meet the target: at any g not later than such a time of some product, f(g) >= 0 - the start value
   is at or left of the root, which is what C15_newton_iterates_left asks of it *)
Theorem start_value_left : forall data To target g Ia La, physical_data data -> 0 < target ->
  In (Ia, La) data -> 0 < Ia -> g <= - ln (target / Ia) / La + To -> 0 <= fR data To target g.
Proof.
  intros data To target g Ia La Hp Ht Hin Hia Hg. unfold fR.
  pose proof (sumR_ge_term data To g Ia La Hp Hin) as Hs.
  assert (HL : 0 < La).
  { unfold physical_data in Hp. rewrite Forall_forall in Hp. apply (Hp (Ia, La) Hin). }
  assert (Hr : 0 < target / Ia) by (apply Rdiv_lt_0_compat; assumption).
  assert (He : exp (ln (target / Ia)) <= exp (- (La * (g - To)))).
  { destruct (Rle_lt_or_eq_dec _ _ Hg) as [L|E].
    - apply Rlt_le, exp_increasing.
      assert (La * (g - To) < - ln (target / Ia)); [|lra].
      replace (- ln (target / Ia)) with (La * (- ln (target / Ia) / La)) by (field; lra).
      apply Rmult_lt_compat_l; lra.
    - right. f_equal. subst g. field. lra. }
  rewrite exp_ln in He by assumption.
  assert (target <= Ia * exp (- (La * (g - To)))).
  { replace target with (Ia * (target / Ia)) by (field; lra). apply Rmult_le_compat_l; lra. }
  lra.
Qed.
