(* C03 - internal consistency of the regenerated Lynn & Seeger tables (Gen/NsfTables.v, copied verbatim from
   periodictable/nsf_tables.py on every run).  Each row carries the scattering length three times over: Re(a), Im(a)
   and |a|, all to two decimals.  The library reads Re and Im only; the redundant column is an oracle for a
   mis-typed cell: | |a| - sqrt(Re^2 + Im^2) | <= 0.005 + 0.0071 (rounding of the three entries). *)
From Coq Require Import ZArith QArith String List Bool.
From PT Require Import Str Dec.
From PT.Gen Require NsfTables.
Import ListNotations.
Open Scope Q_scope.

Definition MOD_TOL : Q := 125 # 10000.

(* (m - tol)^2 <= re^2 + im^2 <= (m + tol)^2, with m >= tol *)
Definition modulus_ok (re im m : Q) : bool :=
  (Qle_bool MOD_TOL m && Qle_bool ((m - MOD_TOL) * (m - MOD_TOL)) (re * re + im * im)
   && Qle_bool (re * re + im * im) ((m + MOD_TOL) * (m + MOD_TOL)))%bool.

Definition row_ok (row : list string) : bool :=
  match row with
  | [e; re; im; m] =>
      match parse_dec e, parse_dec re, parse_dec im, parse_dec m with
      | Some _, Some r, Some i, Some a => modulus_ok r i a
      | _, _, _, _ => false
      end
  | _ => false
  end.

(* the one row of the unchanged data that is not consistent: natural Eu at 0.37 eV *)
Definition known_bad (sym : string) (iso : option Z) (row : list string) : bool :=
  (String.eqb sym "Eu" && match iso with None => true | Some _ => false end
   && match row with e :: _ => String.eqb e "0.37" | [] => false end)%bool.

Definition table_ok (t : string * option Z * list (list string)) : bool :=
  let '(sym, iso, rows) := t in forallb (fun row => (known_bad sym iso row || row_ok row)%bool) rows.

Lemma sweep_tables_ok : forallb table_ok NsfTables.energy_dependent_tables = true.
Proof. vm_compute. reflexivity. Qed.

Theorem energy_tables_modulus_consistent_partial : forall sym iso rows row,
  In (sym, iso, rows) NsfTables.energy_dependent_tables -> In row rows ->
  known_bad sym iso row = false -> row_ok row = true.
Proof.
  intros sym iso rows row Ht Hr Hk.
  pose proof (proj1 (forallb_forall _ _) sweep_tables_ok _ Ht) as H. cbn [table_ok] in H.
  pose proof (proj1 (forallb_forall _ _) H _ Hr) as H2. cbv beta in H2. rewrite Hk in H2. exact H2.
Qed.

(* what row_ok says, as a statement about the numbers *)
Lemma modulus_ok_spec : forall re im m, modulus_ok re im m = true ->
  MOD_TOL <= m /\ (m - MOD_TOL) * (m - MOD_TOL) <= re * re + im * im /\ re * re + im * im <= (m + MOD_TOL) * (m + MOD_TOL).
Proof.
  intros re im m H. unfold modulus_ok in H. apply andb_prop in H. destruct H as [H H3].
  apply andb_prop in H. destruct H as [H1 H2].
  repeat split; apply Qle_bool_iff; assumption.
Qed.

(* the full statement is false of the data as it stands: Eu, 0.37 eV has Re 3.17, Im -3.38, |a| 4.78, and
   sqrt(3.17^2 + 3.38^2) = 4.634 (with Im = -3.58 the row would be consistent: a mis-typed digit) *)
Definition is_eu (t : string * option Z * list (list string)) : bool :=
  (String.eqb (fst (fst t)) "Eu" && match snd (fst t) with None => true | Some _ => false end)%bool.
Definition is_037 (row : list string) : bool := match row with e :: _ => String.eqb e "0.37" | [] => false end.

Theorem energy_tables_modulus_consistent_refuted : exists sym iso rows row,
  In (sym, iso, rows) NsfTables.energy_dependent_tables /\ In row rows /\ row_ok row = false /\
  row = ["0.37"; "3.17"; "-3.38"; "4.78"]%string.
Proof.
  destruct (find is_eu NsfTables.energy_dependent_tables) as [[[sym iso] rows]|] eqn:E; [|vm_compute in E; discriminate E].
  pose proof (find_some _ _ E) as [Hin _].
  destruct (find is_037 rows) as [row|] eqn:R.
  - pose proof (find_some _ _ R) as [Hr _].
    exists sym, iso, rows, row. split; [exact Hin|]. split; [exact Hr|].
    vm_compute in E. inversion E; subst. vm_compute in R. inversion R; subst.
    split; [vm_compute; reflexivity|reflexivity].
  - exfalso. vm_compute in E. inversion E; subst. vm_compute in R. discriminate R.
Qed.

(* with the third digit of Im restored the row is consistent *)
Example eu_row_with_358 : row_ok ["0.37"; "3.17"; "-3.58"; "4.78"]%string = true.
Proof. vm_compute. reflexivity. Qed.
