(* Proofs/C14Sweep.v — facts about the regenerated activation.dat, established by running the reader
   model on every line inside the kernel. *)
From Coq Require Import ZArith QArith String List Bool.
From PT Require Import Str Dec Py IExpr Act.
From PT.Gen Require Import ActivationDat.
Import ListNotations.

Definition is_b (r : arow) := String.eqb (r_reaction r) "b".
Definition is_2n (r : arow) := String.eqb (r_reaction r) "2n".

(* a physically meaningful row: positive mass number and half-life, non-negative cross sections,
   a positive parent half-life where a parent enters, parent and daughter half-lives distinct for 'b' *)
Definition row_ok (r : arow) : bool :=
  (Z.ltb 0 (r_A r) && Z.ltb 0 (r_Z r) && Qlt_bool 0 (r_thalf r)
   && Qle_bool 0 (r_xs r) && Qle_bool 0 (r_res r) && Qle_bool 0 (r_xs_par r) && Qle_bool 0 (r_res_par r)
   && (if (is_b r || is_2n r)%bool then Qlt_bool 0 (r_thalf_par r) else true)
   && (if is_b r then negb (Qeq_bool (r_thalf_par r) (r_thalf r)) else true))%bool.

Definition on_rows (o : option (list arow)) (p : list arow -> bool) : bool :=
  match o with Some rows => p rows | None => false end.

Lemma rows_sweep : on_rows the_rows (fun rows => (Nat.eqb (length rows) 513 && forallb row_ok rows)%bool) = true.
Proof. vm_compute. reflexivity. Qed.

Lemma on_rows_some : forall o p, on_rows o p = true -> exists rows, o = Some rows /\ p rows = true.
Proof. intros [rows|] p H; [exists rows; split; [reflexivity|exact H]|discriminate]. Qed.

Lemma rows_loaded : exists rows, the_rows = Some rows /\ length rows = 513%nat.
Proof.
  destruct (on_rows_some _ _ rows_sweep) as [rows [E H]]. exists rows. split; [exact E|].
  apply andb_prop in H. apply Nat.eqb_eq. apply H.
Qed.

Lemma rows_all_ok : forall rows, the_rows = Some rows -> forall r, In r rows -> row_ok r = true.
Proof.
  intros rows E r Hin. destruct (on_rows_some _ _ rows_sweep) as [rows' [E' H]].
  rewrite E in E'. injection E' as <-.
  apply andb_prop in H. destruct H as [_ H]. rewrite forallb_forall in H. apply H. assumption.
Qed.

(* the columns activation.init reads under the names thermalXS, resonance, Thalf_hrs, ... are the
   columns the header lines of the data file label so *)
Lemma columns_as_labelled : columns_match_header act_column_names activation_dat = true.
Proof. vm_compute. reflexivity. Qed.

(* census of the reaction kinds *)
Lemma rows_census : on_rows the_rows (fun rows =>
  (Nat.eqb (length (filter is_b rows)) 29 && Nat.eqb (length (filter is_2n rows)) 63
   && Nat.eqb (length (filter r_fast rows)) 141)%bool) = true.
Proof. vm_compute. reflexivity. Qed.
