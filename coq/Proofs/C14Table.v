(* Proofs/C14Table.v — statements about the rows of the regenerated activation.dat: activities are
   non-negative for physical inputs; and the two refutations (small-argument branch). *)
From Coq Require Import Reals ZArith QArith Qreals Qabs String List Bool Lra Lia.
From PT Require Import Str Dec Py IExpr ActEval ActEvalSound Act Activation C14Proofs C14Sweep.
Import ListNotations.
Open Scope R_scope.

Lemma Qle_bool_R : forall a b, Qle_bool a b = true -> Q2R a <= Q2R b.
Proof. intros a b H. apply Qle_Rle. apply Qle_bool_iff. assumption. Qed.
Lemma Qlt_bool_R : forall a b, Qlt_bool a b = true -> Q2R a < Q2R b.
Proof.
  intros a b H. unfold Qlt_bool in H. apply negb_true_iff in H.
  destruct (Qlt_le_dec a b) as [L|L]; [apply Qlt_Rlt; assumption|].
  apply Qle_bool_iff in L. congruence.
Qed.

Lemma epi_nonneg : forall env, 0 <= Q2R (epi_factor env).
Proof.
  intro env. unfold epi_factor. destruct (Qle_bool 1 (cd_ratio env)) eqn:E.
  - apply Qle_bool_R in E. rewrite Q2R_1 in E.
    rewrite Q2R_div, Q2R_1.
    + left. apply Rdiv_lt_0_compat; lra.
    + intro Z. rewrite (Qeq_eqR _ _ Z), Q2R_0 in E. lra.
  - rewrite Q2R_0. lra.
Qed.

Definition physical (mass : Q) (env : actenv) (t : Q) : Prop :=
  0 <= Q2R mass /\ 0 <= Q2R (fluence env) /\ 0 <= Q2R (fast_ratio env) /\ 0 <= Q2R t.

Definition distinct_rates (ch : chain) (phi1 phi s1 s2 T Tp : R) : Prop :=
  match ch with
  | CAct => rate phi1 s1 <> rate phi s2 + decay_const T
  | CB => True
  | C2n => rate phi1 s1 <> rate phi s2 + decay_const Tp /\ rate phi1 s1 <> decay_const T
           /\ rate phi s2 + decay_const Tp <> decay_const T
  end.

(* every row of the table, every physical input: the chain solution the tie compares with is >= 0,
   and so is the model's activity on every branch but the small-argument one *)
Theorem activity_nonneg : forall rows, the_rows = Some rows -> forall r, In r rows ->
  forall sb mass env t br a m lam spec, physical mass env t ->
  activity_row_with sb r (r_A r) mass env t = OAct br a m lam spec ->
  distinct_rates (chain_of br) (Q2R (row_flux r env)) (Q2R (fluence env)) (Q2R (row_xs r env)) (Q2R (row_xs2 r env))
                 (Q2R (r_thalf r)) (Q2R (r_thalf_par r)) ->
  0 <= evalR ln2_env_R spec /\ (br <> BSmall -> 0 <= evalR ln2_env_R a).
Proof.
  intros rows E r Hin sb mass env t br a m lam spec (Hm & Hf & Hfr & Ht) H Hd.
  pose proof (rows_all_ok rows E r Hin) as Hok. unfold row_ok in Hok.
  repeat (apply andb_prop in Hok; destruct Hok as [Hok ?]).
  assert (HA : 0 < IZR (r_A r)) by (apply IZR_lt; apply Z.ltb_lt; assumption).
  assert (HT : 0 < Q2R (r_thalf r)) by (rewrite <- Q2R_0; apply Qlt_bool_R; assumption).
  assert (Hxs : 0 <= Q2R (row_xs r env)).
  { unfold row_xs. rewrite Q2R_plus, Q2R_mult. pose proof (epi_nonneg env).
    assert (0 <= Q2R (r_xs r)) by (rewrite <- Q2R_0; apply Qle_bool_R; assumption).
    assert (0 <= Q2R (r_res r)) by (rewrite <- Q2R_0; apply Qle_bool_R; assumption). nra. }
  assert (Hxs2 : 0 <= Q2R (row_xs2 r env)).
  { unfold row_xs2. rewrite Q2R_plus, Q2R_mult. pose proof (epi_nonneg env).
    assert (0 <= Q2R (r_xs_par r)) by (rewrite <- Q2R_0; apply Qle_bool_R; assumption).
    assert (0 <= Q2R (r_res_par r)) by (rewrite <- Q2R_0; apply Qle_bool_R; assumption). nra. }
  assert (Hfl : 0 <= Q2R (row_flux r env)).
  { unfold row_flux. destruct (r_fast r); [|assumption].
    destruct (Qeq_dec (fast_ratio env) 0) as [Z|Z].
    - assert (Z' : (fluence env / fast_ratio env == 0)%Q) by (rewrite Z; unfold Qdiv, Qinv; simpl; ring).
      rewrite (Qeq_eqR _ _ Z'), Q2R_0. lra.
    - rewrite Q2R_div by assumption.
      assert (Q2R (fast_ratio env) <> 0) by (intro Z'; apply Z; apply eqR_Qeq; rewrite Z', Q2R_0; reflexivity).
      apply Rmult_le_pos; [assumption|]. left. apply Rinv_0_lt_compat. lra. }
  destruct (model_spec_is_chain_solution _ _ _ _ _ _ _ _ _ _ _ H) as [Hs _].
  assert (Hspec : 0 <= evalR ln2_env_R spec).
  { rewrite Hs. apply activity_end_nonneg; try assumption.
    destruct br; simpl in *; try assumption.
    - (* b: the row is a 'b' row, so its parent half-life is positive and differs *)
      assert (Hb : is_b r = true).
      { unfold activity_row_with in H. cbv zeta in H.
        repeat (match type of H with
        | context [if ?b then _ else _] => destruct b eqn:?
        | context [match lin_ln2_neg ?a ?b with _ => _ end] => destruct (lin_ln2_neg a b) as [[|]|] eqn:?
        end; try discriminate H). assumption. }
      rewrite Hb in *. simpl in *.
      assert (HTp : 0 < Q2R (r_thalf_par r)) by (rewrite <- Q2R_0; apply Qlt_bool_R; assumption).
      split; [assumption|]. intro Ed. apply decay_const_inj in Ed; try lra.
      apply eqR_Qeq in Ed. apply Qeq_bool_iff in Ed.
      match goal with Hn : negb _ = true |- _ => rewrite Ed in Hn; discriminate Hn end.
    - (* 2n *)
      assert (Hb : is_2n r = true /\ is_b r = false).
      { unfold activity_row_with in H. cbv zeta in H.
        repeat (match type of H with
        | context [if ?b then _ else _] => destruct b eqn:?
        | context [match lin_ln2_neg ?a ?b with _ => _ end] => destruct (lin_ln2_neg a b) as [[|]|] eqn:?
        end; try discriminate H). split; assumption. }
      destruct Hb as [Hb1 Hb2]. rewrite Hb1, Hb2 in *. simpl in *.
      assert (HTp : 0 < Q2R (r_thalf_par r)) by (rewrite <- Q2R_0; apply Qlt_bool_R; assumption).
      tauto. }
  split; [assumption|].
  intro Hns. rewrite (model_refines_spec _ _ _ _ _ _ _ _ _ _ _ H Hns); [assumption|].
  intro Eb. subst br. simpl in Hd. lra.
Qed.

(* ------------------------------------------------------------------ the source as it stands
   (configuration regenerated from /repo on every run: no small-argument branch, expm1 form) *)
Lemma current_cfg_no_small_branch : cfg_small current_cfg = false.
Proof. reflexivity. Qed.

(* "each product's activity is the decay rate given by the exact solution of its reaction chain":
   every branch of the model of the current source *)
Theorem model_refines_spec_current : forall r amass mass env t br a m lam spec,
  activity_row r amass mass env t = OAct br a m lam spec ->
  (br = BMain -> decay_const (Q2R (r_thalf r)) - rate (Q2R (row_flux r env)) (Q2R (row_xs r env))
                 + rate (Q2R (fluence env)) (Q2R (row_xs2 r env)) <> 0) ->
  evalR ln2_env_R a =
    activity_end (chain_of br) (Q2R mass) (IZR amass) (Q2R (row_flux r env)) (Q2R (fluence env))
                 (Q2R (row_xs r env)) (Q2R (row_xs2 r env)) (Q2R (r_thalf r)) (Q2R (r_thalf_par r)) (Q2R t).
Proof. intros until spec. apply (model_refines_spec_repaired current_cfg); exact current_cfg_no_small_branch. Qed.

(* "never fail to compute for physical inputs": on the 513 rows the model of the current source neither
   raises nor declines *)
Theorem never_raises_current : forall rows, the_rows = Some rows -> forall r, In r rows ->
  forall mass env t, (forall e, activity_row r (r_A r) mass env t <> ORaise e)
                     /\ activity_row r (r_A r) mass env t <> OUndecided.
Proof.
  intros rows E r Hin mass env t. split; [|apply no_small_never_undecided; exact current_cfg_no_small_branch].
  intros e H. destruct (no_small_raise_only_zero_div _ _ _ _ _ _ _ current_cfg_no_small_branch H) as [_ Hz].
  pose proof (rows_all_ok rows E r Hin) as Hok. unfold row_ok in Hok.
  repeat (apply andb_prop in Hok; destruct Hok as [Hok ?]).
  assert (HA : (0 < r_A r)%Z) by (apply Z.ltb_lt; assumption).
  assert (HT : Qeq_bool (r_thalf r) 0 = false).
  { destruct (Qeq_bool (r_thalf r) 0) eqn:Eq; [|reflexivity]. apply Qeq_bool_iff in Eq.
    match goal with Hl : Qlt_bool 0 (r_thalf r) = true |- _ => apply Qlt_bool_R in Hl; rewrite (Qeq_eqR _ _ Eq) in Hl; lra end. }
  destruct Hz as [Hz|[Hz|[[Hk Hz]|[Hk Hz]]]].
  - lia.
  - congruence.
  - unfold is_b, is_2n in *. rewrite Hk in *.
    match goal with Hl : Qlt_bool 0 (r_thalf_par r) = true |- _ => apply Qlt_bool_R in Hl end.
    apply Qeq_bool_iff in Hz. rewrite (Qeq_eqR _ _ Hz) in *. lra.
  - unfold is_b in *. rewrite Hk in *.
    match goal with Hn : negb _ = true |- _ => rewrite Hz in Hn; discriminate Hn end.
Qed.

(* all 513 rows, all physical inputs: the model's activity itself is non-negative *)
Theorem activity_nonneg_current : forall rows, the_rows = Some rows -> forall r, In r rows ->
  forall mass env t br a m lam spec, physical mass env t ->
  activity_row r (r_A r) mass env t = OAct br a m lam spec ->
  distinct_rates (chain_of br) (Q2R (row_flux r env)) (Q2R (fluence env)) (Q2R (row_xs r env)) (Q2R (row_xs2 r env))
                 (Q2R (r_thalf r)) (Q2R (r_thalf_par r)) ->
  0 <= evalR ln2_env_R a.
Proof.
  intros rows E r Hin mass env t br a m lam spec Hp H Hd.
  destruct (activity_nonneg rows E r Hin current_cfg mass env t br a m lam spec Hp H Hd) as [_ Hn].
  apply Hn. apply (no_small_branch _ _ _ _ _ _ _ _ _ _ _ current_cfg_no_small_branch H).
Qed.

(* ------------------------------------------------------------------ the source before commit 05a94d2
   (kept as a record of the repaired defect: the small-argument branch was not the solution and could
   raise; old_cfg is NOT the configuration the tie runs) *)
Definition w_row : arow :=
  mkRow 4 9 "Be-9" "Be-10" "act" false 100 (76 # 10000) (4 # 1000) 14016000000 0 0 0 "1600000 y".
Definition old_cfg : actcfg := mkCfg true false true.   (* activity() before commits 05a94d2 / 4ec1eac *)
Definition w_out : outcome := activity_row_with old_cfg w_row 9 1 (mkEnv 100000 0 0) 1.
Definition w_a : expr := match w_out with OAct _ a _ _ _ => a | _ => c 0 end.
Definition w_spec : expr := match w_out with OAct _ _ _ _ s => s | _ => c 0 end.

(* Be-9 (0.0076 b) -> Be-10 (1.6 My), 1 g, 1e5 n/cm2/s, 1 h: the model of activity() (and the code) gives
   more than 1.49 times the burn-up solution *)
Theorem small_branch_refuted :
  exists r amass mass env t a m lam spec,
    physical mass env t /\
    activity_row_with old_cfg r amass mass env t = OAct BSmall a m lam spec /\
    0 < evalR ln2_env_R spec /\
    evalR ln2_env_R a > (149 / 100) * evalR ln2_env_R spec.
Proof.
  exists w_row, 9%Z, 1%Q, (mkEnv 100000 0 0), 1%Q, w_a.
  assert (Ho : exists m lam, w_out = OAct BSmall w_a m lam w_spec).
  { eexists. eexists. vm_compute. reflexivity. }
  destruct Ho as (m & lam & Ho). exists m, lam, w_spec.
  split; [|split; [exact Ho|split]].
  - unfold physical; simpl. rewrite <- Q2R_0. repeat split; apply Qle_bool_R; reflexivity.
  - pose proof (sign_of_sound w_spec) as S.
    assert (Es : sign_of w_spec = SPos) by (vm_compute; reflexivity). rewrite Es in S. exact S.
  - pose proof (sign_of_sound (ESub w_a (EMul (c (149 # 100)) w_spec))) as S.
    assert (Es : sign_of (ESub w_a (EMul (c (149 # 100)) w_spec)) = SPos) by (vm_compute; reflexivity).
    rewrite Es in S. unfold sgn_means in S. cbn [evalR c] in S.
    replace (Q2R (149 # 100)) with (149 / 100) in S by (unfold Q2R; simpl; field). lra.
Qed.

(* "never fail to compute for physical inputs": C-13 (0.00137 b) -> C-14, 1 g, 4e15 n/cm2/s, 1e-3 h:
   U = 1.97e-11 lies between V = 1.38e-11 and 3V, the small-argument formula is negative and the
   error path is taken (whose message formatting raises TypeError) *)
Definition w2_row : arow :=
  mkRow 6 13 "C-13" "C-14" "act" false (111 # 100) (137 # 100000) (17 # 10000) 50247360 0 0 0 "5736 y".
Theorem small_branch_raises_refuted :
  exists r amass mass env t, physical mass env t /\ activity_row_with old_cfg r amass mass env t = ORaise TypeErr.
Proof.
  exists w2_row, 13%Z, 1%Q, (mkEnv 4000000000000000 0 0), (1 # 1000)%Q. split.
  - unfold physical; simpl. rewrite <- Q2R_0. repeat split; apply Qle_bool_R; reflexivity.
  - vm_compute. reflexivity.
Qed.
