(* Proofs/C03Spec.v — facts about the documented equations themselves (Spec/Neutron.v):
   the expression reading means the R reading; the two forms of rho_im given by the documentation
   agree; the clip of sigma_i is the documented difference when that is non-negative;
   piecewise-linear interpolation through strictly increasing nodes: value at a node, clamping at
   both ends, linear in between; interpolation commutes with the abundance mix of natural Lu. *)
From Coq Require Import Reals ZArith QArith Qreals List Lra Lia.
From PT Require Import IExpr Neutron.
Import ListNotations.
Open Scope R_scope.

(* ------------------------------------------------------------------ expression reading = R reading *)
Notation ev := (evalR no_env_R).

Lemma ev_cq : forall q, ev (cq q) = Q2R q.
Proof. reflexivity. Qed.
Lemma ev_ez : forall z, ev (ez z) = IZR z.
Proof. intro z. unfold ez. cbn [evalR]. unfold Q2R, inject_Z. cbn [Qnum Qden]. field. Qed.

Lemma Rmax0_abs : forall x, (x + Rabs x) / 2 = Rmax x 0.
Proof.
  intro x. unfold Rmax, Rabs. destruct (Rcase_abs x); destruct (Rle_dec x 0); lra.
Qed.

Lemma ev_emax0 : forall x, ev (emax0 x) = Rmax (ev x) 0.
Proof. intro x. unfold emax0. cbn [evalR]. rewrite ev_ez. apply Rmax0_abs. Qed.

Lemma ev_sumE : forall (f : compE -> expr) (g : comp -> R) l,
  (forall c, ev (f c) = g (evalC c)) ->
  ev (sumE f l) = sum g (map evalC l).
Proof.
  intros f g l H. induction l as [|c r IH].
  - unfold sumE. cbn [fold_right map sum]. rewrite ev_ez. reflexivity.
  - unfold sumE in *. cbn [fold_right map sum evalR]. rewrite H, IH. reflexivity.
Qed.

Lemma ev_const_A_per_fm : ev E_A_per_fm = A_per_fm.
Proof. unfold E_A_per_fm, A_per_fm. rewrite ev_cq. unfold Q2R. cbn [Qnum Qden]. lra. Qed.
Lemma ev_const_micro : ev E_micro = micro.
Proof. unfold E_micro, micro. apply ev_ez. Qed.
Lemma ev_const_A2_per_barn : ev E_A2_per_barn = A2_per_barn.
Proof. unfold E_A2_per_barn, A2_per_barn. rewrite ev_cq. unfold Q2R. cbn [Qnum Qden]. lra. Qed.
Lemma ev_const_A_per_cm : ev E_A_per_cm = A_per_cm.
Proof. unfold E_A_per_cm, A_per_cm. apply ev_ez. Qed.
Lemma ev_const_fm2_per_barn : ev E_fm2_per_barn = fm2_per_barn.
Proof. unfold E_fm2_per_barn, fm2_per_barn. apply ev_ez. Qed.
Lemma ev_const_lambda_0 : ev E_lambda_0 = lambda_0.
Proof. unfold E_lambda_0, lambda_0. rewrite ev_cq. unfold Q2R. cbn [Qnum Qden]. lra. Qed.

Lemma ev_im_of_absorption : forall s, ev (E_im_of_absorption s) = im_of_absorption (ev s).
Proof.
  intro s. unfold E_im_of_absorption, im_of_absorption. cbn [evalR].
  rewrite !ev_ez. rewrite ev_const_lambda_0. reflexivity.
Qed.

Lemma ev_sigma_s_of_b : forall re im, ev (E_sigma_s_of_b re im) = sigma_s_of_b (ev re) (ev im).
Proof.
  intros re im. unfold E_sigma_s_of_b, sigma_s_of_b. cbn [evalR]. rewrite !ev_ez.
  rewrite ev_const_fm2_per_barn. reflexivity.
Qed.

Section Sound.
  Variable NA : Q.
  Variable l : list compE.
  Variable rho : Q.
  Variable lam : expr.
  Let L := map evalC l.
  Let na := Q2R NA.
  Let r := Q2R rho.
  Let x := ev lam.

  Lemma ev_molar_mass : ev (E_molar_mass l) = molar_mass L.
  Proof. unfold E_molar_mass, molar_mass. apply ev_sumE. intro c. reflexivity. Qed.
  Lemma ev_n_total : ev (E_n_total l) = n_total L.
  Proof. unfold E_n_total, n_total. apply ev_sumE. intro c. reflexivity. Qed.
  Lemma ev_cell_volume : ev (E_cell_volume NA l rho) = cell_volume na L r.
  Proof.
    unfold E_cell_volume, cell_volume. cbn [evalR]. rewrite ev_molar_mass.
    rewrite ev_ez. rewrite ev_const_A_per_cm. reflexivity.
  Qed.
  Lemma ev_number_density : ev (E_number_density NA l rho) = number_density na L r.
  Proof.
    unfold E_number_density, number_density. cbn [evalR].
    rewrite ev_n_total, ev_cell_volume. reflexivity.
  Qed.
  Lemma ev_b_re : ev (E_b_re l) = b_re L.
  Proof.
    unfold E_b_re, b_re. cbn [evalR]. rewrite ev_n_total. f_equal.
    apply ev_sumE. intro c. reflexivity.
  Qed.
  Lemma ev_b_im : ev (E_b_im l) = b_im L.
  Proof.
    unfold E_b_im, b_im. cbn [evalR]. rewrite ev_n_total. f_equal.
    apply ev_sumE. intro c. reflexivity.
  Qed.
  Lemma ev_sigma_s : ev (E_sigma_s l) = sigma_s L.
  Proof.
    unfold E_sigma_s, sigma_s. cbn [evalR]. rewrite ev_n_total. f_equal.
    apply ev_sumE. intro c. reflexivity.
  Qed.
  Lemma ev_sigma_c : ev (E_sigma_c l) = sigma_c L.
  Proof.
    unfold E_sigma_c, sigma_c. cbn [evalR].
    rewrite ev_b_re, ev_b_im, ev_const_fm2_per_barn, !ev_ez. reflexivity.
  Qed.
  Lemma ev_sigma_a : ev (E_sigma_a l lam) = sigma_a L x.
  Proof.
    unfold E_sigma_a, sigma_a, E_wavenumber, wavenumber. cbn [evalR].
    rewrite ev_b_im, !ev_ez. reflexivity.
  Qed.
  Lemma ev_sigma_i : ev (E_sigma_i l) = sigma_i L.
  Proof.
    unfold E_sigma_i, sigma_i. rewrite ev_emax0. cbn [evalR].
    rewrite ev_sigma_s, ev_sigma_c. reflexivity.
  Qed.
  Lemma ev_Sigma : forall s v, ev s = v ->
    ev (E_Sigma NA l rho s) = number_density na L r * v * A2_per_barn * A_per_cm.
  Proof.
    intros s v H. unfold E_Sigma. cbn [evalR].
    rewrite ev_number_density, ev_const_A2_per_barn, ev_const_A_per_cm, H. reflexivity.
  Qed.

  (* the seven outputs *)
  Theorem E_outputs_sound : map ev (E_outputs NA l rho lam) = outputs na L r x.
  Proof.
    unfold E_outputs, outputs. cbn [map].
    repeat (f_equal; [|]).
    - unfold E_rho_re, rho_re. cbn [evalR].
      rewrite ev_number_density, ev_b_re, ev_const_A_per_fm, ev_const_micro. reflexivity.
    - unfold E_rho_im, rho_im. cbn [evalR].
      rewrite ev_number_density, ev_sigma_a, ev_const_A2_per_barn, ev_const_micro, ev_ez. reflexivity.
    - unfold E_rho_inc, rho_inc. cbn [evalR].
      rewrite ev_number_density, ev_sigma_i, ev_const_A_per_fm, ev_const_micro, ev_const_fm2_per_barn, ev_ez.
      reflexivity.
    - unfold Sigma_coh. apply ev_Sigma. apply ev_sigma_c.
    - unfold Sigma_abs. apply ev_Sigma. apply ev_sigma_a.
    - unfold Sigma_inc. apply ev_Sigma. apply ev_sigma_i.
    - unfold E_t_u, t_u, Sigma_s, Sigma_abs. cbn [evalR]. rewrite ev_ez.
      rewrite (ev_Sigma _ _ ev_sigma_s), (ev_Sigma _ _ ev_sigma_a). reflexivity.
  Qed.

  (* the squared incoherent SLD used by the comparison rules is the square of rho_inc *)
  Theorem E_rho_inc_sq_sound :
    ev (E_rho_inc_sq NA l rho) = rho_inc na L r * rho_inc na L r.
  Proof.
    unfold E_rho_inc_sq, rho_inc. cbn [evalR].
    rewrite ev_number_density, ev_sigma_i, ev_const_A_per_fm, ev_const_micro, ev_const_fm2_per_barn, ev_ez.
    set (N := number_density na L r).
    set (t := sigma_i L / (4 * PI) * fm2_per_barn).
    assert (Ht : 0 <= t).
    { unfold t, fm2_per_barn. assert (0 <= sigma_i L) by (unfold sigma_i; apply Rmax_r).
      assert (0 < PI) by apply PI_RGT_0.
      apply Rmult_le_pos; [|lra]. apply Rmult_le_pos; [assumption|].
      left. apply Rinv_0_lt_compat. lra. }
    transitivity (N * N * (sqrt t * sqrt t) * (A_per_fm * micro * (A_per_fm * micro))); [|ring].
    rewrite (sqrt_sqrt t Ht). reflexivity.
  Qed.
End Sound.

(* ------------------------------------------------------------------ the two forms of rho_im *)
Theorem rho_im_forms : forall N_A l rho lambda, lambda <> 0 ->
  rho_im N_A l rho lambda = rho_im' N_A l rho.
Proof.
  intros N_A l rho lambda Hl. unfold rho_im, rho_im', sigma_a, wavenumber, A2_per_barn, A_per_fm, micro.
  assert (PI <> 0) by (apply Rgt_not_eq; apply PI_RGT_0).
  field. split; assumption.
Qed.

(* sigma_a of the compound is the tabulated absorption scaled by lambda/1.798 when every Im(b_ck)
   comes from a tabulated absorption cross section *)
Theorem sigma_a_scales_with_wavelength : forall l lambda,
  lambda <> 0 ->
  sigma_a l lambda = - 2000 * b_im l * lambda.
Proof.
  intros l lambda Hl. unfold sigma_a, wavenumber.
  assert (PI <> 0) by (apply Rgt_not_eq; apply PI_RGT_0). field. split; assumption.
Qed.

Theorem one_atom_sigma_a : forall n m re sa ss lambda, n <> 0 -> lambda <> 0 ->
  sigma_a [mkC n m re (im_of_absorption sa) ss] lambda = sa * lambda / lambda_0.
Proof.
  intros n m re sa ss lambda Hn Hl. rewrite sigma_a_scales_with_wavelength by assumption.
  unfold b_im, n_total, sum, im_of_absorption, lambda_0. simpl. field. assumption.
Qed.

Theorem sigma_i_unclipped : forall l, sigma_c l <= sigma_s l -> sigma_i l = sigma_s l - sigma_c l.
Proof. intros l H. unfold sigma_i. apply Rmax_left. lra. Qed.

(* ------------------------------------------------------------------ interpolation *)
Fixpoint increasing_from (x0 : R) (rest : list (R * R)) : Prop :=
  match rest with
  | [] => True
  | (x1, _) :: r => x0 < x1 /\ increasing_from x1 r
  end.
Definition increasing (t : list (R * R)) : Prop :=
  match t with [] => True | (x0, _) :: r => increasing_from x0 r end.

Lemma increasing_from_lt : forall r x0 k v, increasing_from x0 r -> In (k, v) r -> x0 < k.
Proof.
  induction r as [|[x1 y1] r IH]; intros x0 k v H Hin; [destruct Hin|].
  simpl in H. destruct H as [H1 H2]. destruct Hin as [E|Hin].
  - inversion E; subst. exact H1.
  - apply Rlt_trans with x1; [exact H1|]. exact (IH x1 k v H2 Hin).
Qed.

(* left of the table: the first value *)
Theorem interp_clamped_left : forall x x0 y0 r, x <= x0 -> interp x ((x0, y0) :: r) = y0.
Proof. intros x x0 y0 r H. simpl. destruct (Rle_dec x x0); [reflexivity|contradiction]. Qed.

Lemma last_indep : forall {A} (l : list A) d d', l <> [] -> last l d = last l d'.
Proof.
  induction l as [|a l IH]; intros d d' H; [congruence|].
  destruct l as [|b l]; [reflexivity|]. change (last (b :: l) d = last (b :: l) d'). apply IH. discriminate.
Qed.
Lemma last_cons_default : forall {A} (a : A) l d, last (a :: l) d = last l a.
Proof.
  intros A a l d. destruct l as [|b l]; [reflexivity|].
  change (last (b :: l) d = last (b :: l) a). apply last_indep. discriminate.
Qed.

Lemma interp_from_right : forall r x x0 y0, increasing_from x0 r ->
  (forall k v, In (k, v) r -> k <= x) -> x0 <= x ->
  interp_from x x0 y0 r = snd (last r (x0, y0)).
Proof.
  induction r as [|[x1 y1] r IH]; intros x x0 y0 Hinc Hall H0; [reflexivity|].
  cbn [interp_from]. destruct (Rlt_dec x x1) as [Hlt|Hge].
  - exfalso. assert (x1 <= x) by (apply (Hall x1 y1); left; reflexivity). lra.
  - destruct Hinc as [H1 H2]. rewrite (IH x x1 y1 H2).
    + rewrite last_cons_default. reflexivity.
    + intros k v Hin. apply (Hall k v). right. exact Hin.
    + apply (Hall x1 y1). left. reflexivity.
Qed.

(* right of the table (or on its last node): the last value *)
Theorem interp_clamped_right : forall x t, increasing t -> t <> [] ->
  (forall k v, In (k, v) t -> k <= x) -> interp x t = snd (last t (0, 0)).
Proof.
  intros x [|[x0 y0] r] Hinc Hne Hall; [congruence|].
  assert (H0 : x0 <= x) by (apply (Hall x0 y0); left; reflexivity).
  cbn [interp]. destruct (Rle_dec x x0) as [Hle|Hgt].
  - assert (x = x0) by lra. subst x.
    destruct r as [|[x1 y1] r]; [reflexivity|].
    exfalso. destruct Hinc as [H1 _]. assert (x1 <= x0) by (apply (Hall x1 y1); right; left; reflexivity). lra.
  - rewrite (interp_from_right r x x0 y0 Hinc).
    + rewrite last_cons_default. reflexivity.
    + intros k v Hin. apply (Hall k v). right. exact Hin.
    + exact H0.
Qed.

(* between two consecutive nodes (left end included): the chord *)
Lemma interp_from_between : forall pre x0 y0 xa ya xb yb post x,
  increasing_from x0 (pre ++ (xa, ya) :: (xb, yb) :: post) ->
  xa <= x < xb ->
  interp_from x x0 y0 (pre ++ (xa, ya) :: (xb, yb) :: post) = ya + (yb - ya) * ((x - xa) / (xb - xa)).
Proof.
  induction pre as [|[x1 y1] pre IH]; intros x0 y0 xa ya xb yb post x Hinc Hx.
  - cbn [app interp_from]. destruct Hinc as [H1 [H2 _]].
    destruct (Rlt_dec x xa); [lra|]. destruct (Rlt_dec x xb); [reflexivity|lra].
  - cbn [app interp_from]. destruct Hinc as [H1 H2].
    assert (x1 < xa).
    { apply (increasing_from_lt _ x1 xa ya H2). apply in_or_app. right. left. reflexivity. }
    destruct (Rlt_dec x x1); [lra|]. apply IH; assumption.
Qed.

Theorem interp_between : forall pre xa ya xb yb post x,
  increasing (pre ++ (xa, ya) :: (xb, yb) :: post) ->
  xa <= x < xb ->
  interp x (pre ++ (xa, ya) :: (xb, yb) :: post) = ya + (yb - ya) * ((x - xa) / (xb - xa)).
Proof.
  intros [|[x0 y0] pre] xa ya xb yb post x Hinc Hx.
  - cbn [app interp]. destruct (Rle_dec x xa) as [Hle|Hgt].
    + assert (x = xa) by lra. subst x. replace (xa - xa) with 0 by ring. unfold Rdiv. ring.
    + cbn [interp_from]. destruct (Rlt_dec x xb); [reflexivity|lra].
  - cbn [app interp]. cbn [increasing app] in Hinc.
    assert (x0 < xa).
    { apply (increasing_from_lt _ x0 xa ya Hinc). apply in_or_app. right. left. reflexivity. }
    destruct (Rle_dec x x0); [lra|]. apply interp_from_between; assumption.
Qed.

(* at a node: the tabulated value *)
Theorem interp_node : forall t, increasing t -> forall k v, In (k, v) t -> interp k t = v.
Proof.
  intros t Hinc k v Hin. destruct (in_split _ _ Hin) as (pre & post & E). subst t.
  destruct post as [|[xb yb] post].
  - (* last node *)
    rewrite interp_clamped_right.
    + rewrite last_last. reflexivity.
    + exact Hinc.
    + destruct pre; discriminate.
    + intros k' v' Hin'. apply in_app_or in Hin'. destruct Hin' as [Hp|[E|[]]].
      * left. destruct pre as [|[x0 y0] pre]; [destruct Hp|].
        cbn [increasing app] in Hinc. destruct Hp as [E|Hp].
        -- inversion E; subst. apply (increasing_from_lt _ k' k v Hinc). apply in_or_app. right. left. reflexivity.
        -- clear Hin. revert x0 Hinc Hp. induction pre as [|[x1 y1] pre IH]; intros x0 Hinc Hp; [destruct Hp|].
           cbn [app increasing_from] in Hinc. destruct Hinc as [_ H2]. destruct Hp as [E|Hp].
           ++ inversion E; subst. apply (increasing_from_lt _ k' k v H2). apply in_or_app. right. left. reflexivity.
           ++ exact (IH x1 H2 Hp).
      * inversion E; subst. right. reflexivity.
  - rewrite interp_between.
    + replace (k - k) with 0 by ring. unfold Rdiv. ring.
    + exact Hinc.
    + split; [apply Rle_refl|].
      destruct pre as [|[x0 y0] pre].
      * cbn [app increasing increasing_from] in Hinc. tauto.
      * cbn [app increasing] in Hinc. clear Hin. revert x0 Hinc.
        induction pre as [|[x1 y1] pre IH]; intros x0 Hinc.
        -- cbn [app increasing_from] in Hinc. tauto.
        -- cbn [app increasing_from] in Hinc. destruct Hinc as [_ H2]. exact (IH x1 H2).
Qed.

(* an affine map of the ordinates commutes with interpolation (natural Lu: the mixed table
   interpolates to the mix of the interpolated Lu-176 value) *)
Lemma interp_from_affine : forall (a b : R) r x x0 y0,
  interp_from x x0 (a + b * y0) (map (fun p => (fst p, a + b * snd p)) r) = a + b * interp_from x x0 y0 r.
Proof.
  intros a b. induction r as [|[x1 y1] r IH]; intros x x0 y0; cbn [map interp_from fst snd].
  - reflexivity.
  - destruct (Rlt_dec x x1); [ring|]. apply IH.
Qed.

Theorem interp_affine : forall (a b : R) t x, t <> [] ->
  interp x (map (fun p => (fst p, a + b * snd p)) t) = a + b * interp x t.
Proof.
  intros a b [|[x0 y0] r] x Hne; [congruence|]. cbn [map interp fst snd].
  destruct (Rle_dec x x0); [reflexivity|]. apply interp_from_affine.
Qed.

(* ------------------------------------------------------------------ E_interp means interp *)
Definition node_R (n : enode) : R * R := (ev (snd (fst n)), Q2R (snd n)).

Section EInterp.
  Variables (le lt : enode -> bool) (x : expr).
  Let X := ev x.
  Definition lt_ok (n : enode) : Prop := lt n = true <-> X < fst (node_R n).
  Definition le_ok (n : enode) : Prop := le n = true <-> X <= fst (node_R n).

  Lemma E_interp_from_sound : forall rest x0 y0, Forall lt_ok rest ->
    ev (E_interp_from lt x x0 y0 rest) = interp_from X (ev x0) (Q2R y0) (map node_R rest).
  Proof.
    induction rest as [|[[k1 x1] y1] r IH]; intros x0 y0 Hok; cbn [E_interp_from map interp_from].
    - reflexivity.
    - inversion Hok as [|? ? H1 H2]; subst. unfold node_R at 1. cbn [fst snd].
      unfold lt_ok, node_R in H1. cbn [fst snd] in H1.
      destruct (lt (k1, x1, y1)) eqn:E.
      + destruct (Rlt_dec X (ev x1)) as [H|H]; [reflexivity|]. exfalso. apply H. apply H1. reflexivity.
      + destruct (Rlt_dec X (ev x1)) as [H|H].
        * exfalso. apply H1 in H. congruence.
        * apply IH. exact H2.
  Qed.

  Theorem E_interp_sound : forall t, t <> [] -> Forall lt_ok t -> Forall le_ok t ->
    ev (E_interp le lt x t) = interp X (map node_R t).
  Proof.
    intros [|[[k0 x0] y0] r] Hne Hlt Hle; [congruence|]. cbn [E_interp map interp].
    unfold node_R at 1. cbn [fst snd].
    inversion Hle as [|? ? H1 _]; subst. unfold le_ok, node_R in H1. cbn [fst snd] in H1.
    inversion Hlt as [|? ? _ H2]; subst.
    destruct (le (k0, x0, y0)) eqn:E.
    - destruct (Rle_dec X (ev x0)) as [H|H]; [reflexivity|]. exfalso. apply H. apply H1. reflexivity.
    - destruct (Rle_dec X (ev x0)) as [H|H].
      + exfalso. apply H1 in H. congruence.
      + apply E_interp_from_sound. exact H2.
  Qed.
End EInterp.

Lemma ev_abundance_mix : forall b175 a175 b176 a176,
  ev (E_abundance_mix b175 a175 b176 a176) = abundance_mix (ev b175) (Q2R a175) (ev b176) (Q2R a176).
Proof. intros. unfold E_abundance_mix, abundance_mix. cbn [evalR]. rewrite ev_ez. reflexivity. Qed.
