(* Proofs/C06Sweep.v — kernel-evaluated sweeps over the regenerated mass tables:
   statements about every row of *this* table, through the loader model. *)
From Coq Require Import ZArith QArith Qabs String Ascii List Bool FMapPositive.
From PT Require Import Str Dec Loaders C06Check.
From PT.Gen Require Import MassTables DensityTable Constants ElementBase.
Import ListNotations.
Open Scope Q_scope.

(* an independent reading of the composition table: (Z, [A...]) per header, in order *)
Fixpoint listed_blocks (ia : list string) (cur : option (Z * list Z)) : list (Z * list Z) :=
  match ia with
  | [] => match cur with Some b => [b] | None => [] end
  | line :: rest =>
      let toks := split_ws line in
      let first := match toks with x :: _ => match parse_int x with Some v => v | None => (-1)%Z end | [] => (-1)%Z end in
      match line with
      | String c _ =>
          if is_ws c then
            match cur with
            | Some (z, l) => listed_blocks rest (Some (z, (l ++ [first])%list))
            | None => listed_blocks rest None
            end
          else
            match cur with
            | Some b => b :: listed_blocks rest (Some (first, []))
            | None => listed_blocks rest (Some (first, []))
            end
      | EmptyString => listed_blocks rest cur
      end
  end.

Definition blocks : list (Z * list Z) := listed_blocks isotope_abundance None.

Definition ab_of (t : tbl) (z a : Z) : Q :=
  match tget t z a with
  | Some n => match n_abund n with Some (p, _) => p | None => 0 end
  | None => 0
  end.
Definition m_of (t : tbl) (z a : Z) : Q :=
  match tget t z a with
  | Some n => match n_mass n with Some (m, _) => m | None => 0 end
  | None => 0
  end.
Definition munc_of (t : tbl) (z a : Z) : Q :=
  match tget t z a with
  | Some n => match n_mass n with Some (_, UQ u) => u | _ => 0 end
  | None => 0
  end.

Definition Qsum (l : list Q) : Q := fold_right Qplus 0 l.

(* every isotope the model holds, as (Z, A) *)
Definition all_isotopes (t : tbl) : list (Z * Z) :=
  flat_map (fun kv => let k := (Zpos (fst kv) - 1)%Z in
                      if Z.eqb (k mod 1000)%Z 0%Z then [] else [((k / 1000)%Z, (k mod 1000)%Z)])
           (PositiveMap.elements t).

Definition isotopes_of (t : tbl) (z : Z) : list Z :=
  map snd (filter (fun p => Z.eqb (fst p) z) (all_isotopes t)).

Definition block_ok (t : tbl) (b : Z * list Z) : bool :=
  let '(z, l) := b in
  (* listed isotopes exist, their abundances are positive and sum to exactly 100,
     and the sum over *all* isotopes of the element is the same *)
  forallb (fun a => Qle_bool 0 (ab_of t z a)) l
  && Qeq_bool (Qsum (map (ab_of t z) l)) 100
  && Qeq_bool (Qsum (map (ab_of t z) (isotopes_of t z))) 100.

Definition weight_ok (t : tbl) (b : Z * list Z) : bool :=
  let '(z, l) := b in
  Qle_bool (Qabs (Qsum (map (fun a => ab_of t z a * m_of t z a) l) / 100 - m_of t z 0)) (munc_of t z 0).

Definition unlisted_ok (t : tbl) (p : Z * Z) : bool :=
  let '(z, a) := p in
  if Z.eqb z 0 then true else
  match find (fun b => Z.eqb (fst b) z) blocks with
  | Some (_, l) => if existsb (Z.eqb a) l then true else Qeq_bool (ab_of t z a) 0
  | None => Qeq_bool (ab_of t z a) 0
  end.

Definition is_some {A} (o : option A) : bool := match o with Some _ => true | None => false end.
Definition on_tbl (ot : option tbl) (f : tbl -> bool) : bool := match ot with Some t => f t | None => false end.

Lemma the_tbl_some : is_some the_tbl = true.
Proof. vm_compute. reflexivity. Qed.

Lemma the_tbl_loaded : exists t, the_tbl = Some t.
Proof. pose proof the_tbl_some as H. destruct the_tbl; [eexists; reflexivity | discriminate H]. Qed.

Lemma blocks_nonempty : (length blocks > 50)%nat.
Proof. vm_compute. repeat constructor. Qed.

Lemma on_tbl_elim : forall ot f t, on_tbl ot f = true -> ot = Some t -> f t = true.
Proof. intros ot f t H E. subst ot. exact H. Qed.

Lemma sweep_blocks_c : on_tbl the_tbl (fun t => forallb (block_ok t) blocks) = true.
Proof. vm_compute. reflexivity. Qed.
Lemma sweep_weights_c : on_tbl the_tbl (fun t => forallb (weight_ok t) blocks) = true.
Proof. vm_compute. reflexivity. Qed.
Lemma sweep_unlisted_c : on_tbl the_tbl (fun t => forallb (unlisted_ok t) (all_isotopes t)) = true.
Proof. vm_compute. reflexivity. Qed.

Lemma sweep_blocks : forall t, the_tbl = Some t -> forallb (block_ok t) blocks = true.
Proof. intros t E. exact (on_tbl_elim _ _ t sweep_blocks_c E). Qed.
Lemma sweep_weights : forall t, the_tbl = Some t -> forallb (weight_ok t) blocks = true.
Proof. intros t E. exact (on_tbl_elim _ _ t sweep_weights_c E). Qed.
Lemma sweep_unlisted : forall t, the_tbl = Some t -> forallb (unlisted_ok t) (all_isotopes t) = true.
Proof. intros t E. exact (on_tbl_elim _ _ t sweep_unlisted_c E). Qed.

Theorem abundances_sum_100 :
  forall t, the_tbl = Some t -> forall z l, In (z, l) blocks ->
    Qsum (map (ab_of t z) l) == 100 /\ Qsum (map (ab_of t z) (isotopes_of t z)) == 100.
Proof.
  intros t E z l Hin. pose proof (sweep_blocks t E) as H.
  rewrite forallb_forall in H. specialize (H _ Hin). unfold block_ok in H.
  apply andb_prop in H. destruct H as [H H2]. apply andb_prop in H. destruct H as [_ H1].
  split; apply Qeq_bool_iff; assumption.
Qed.

Theorem weight_within_uncertainty :
  forall t, the_tbl = Some t -> forall z l, In (z, l) blocks ->
    Qabs (Qsum (map (fun a => ab_of t z a * m_of t z a) l) / 100 - m_of t z 0) <= munc_of t z 0.
Proof.
  intros t E z l Hin. pose proof (sweep_weights t E) as H.
  rewrite forallb_forall in H. specialize (H _ Hin). unfold weight_ok in H.
  apply Qle_bool_iff. exact H.
Qed.

Theorem unlisted_zero :
  forall t, the_tbl = Some t -> forall z a, In (z, a) (all_isotopes t) -> z <> 0%Z ->
    (forall l, In (z, l) blocks -> ~ In a l) -> ab_of t z a == 0.
Proof.
  intros t E z a Hin Hz Hnot. pose proof (sweep_unlisted t E) as H.
  rewrite forallb_forall in H. specialize (H _ Hin). unfold unlisted_ok in H.
  destruct (Z.eqb_spec z 0) as [->|_]; [congruence|].
  destruct (find (fun b => Z.eqb (fst b) z) blocks) as [[z' l]|] eqn:F.
  - apply find_some in F. destruct F as [Fin Fz]. simpl in Fz. apply Z.eqb_eq in Fz. subst z'.
    destruct (existsb (Z.eqb a) l) eqn:Ex.
    + apply existsb_exists in Ex. destruct Ex as [a' [Ha' Haa]]. apply Z.eqb_eq in Haa. subst a'.
      exfalso. exact (Hnot l Fin Ha').
    + apply Qeq_bool_iff. exact H.
  - apply Qeq_bool_iff. exact H.
Qed.
