(* Proofs/C05Sweep6.v — part 6 of the kernel-evaluated sweep over the regenerated .nff tables. *)
From Coq Require Import String List.
From PT Require Import Xsf C05SweepDefs.
From PT.Gen Require Import NffIndex.
Lemma chunk6_ok : chunk_ok nff_files_6 = true.
Proof. vm_compute. reflexivity. Qed.
