(* Proofs/C05Real.v — the real-valued statements of C05: thick-mirror reflectivity lies in [0, 1]
   (on complex numbers written as pairs, and on the model expression), the principal square root
   written in real and imaginary parts is a square root, the index of refraction expression is the
   documented formula, f0 at Q = 0 is sum a_i + c and is continuous there.
   Uses the standard library's classical reals. *)
From Coq Require Import ZArith QArith Qreals List Lia Reals Lra Psatz.
From Interval Require Import Specific_stdz Specific_ops Float_full Interval Xreal Basic.
From PT Require Import Dec Ancillary IExpr Xsf XsfReal.
Import ListNotations.
Open Scope R_scope.

(* 0 <= x*x as a hypothesis (this installation's nra finds no certificates) *)
Ltac sq x := let H := fresh "Hsq" in pose proof (Rle_0_sqr x) as H; unfold Rsqr in H.

(* ------------------------------------------------------------------ complex numbers as pairs *)
Definition C2 := (R * R)%type.
Definition cadd (a b : C2) : C2 := (fst a + fst b, snd a + snd b).
Definition csub (a b : C2) : C2 := (fst a - fst b, snd a - snd b).
Definition cmul (a b : C2) : C2 := (fst a * fst b - snd a * snd b, fst a * snd b + snd a * fst b).
Definition cnorm2 (a : C2) : R := fst a * fst a + snd a * snd a.
Definition cdiv (a b : C2) : C2 :=
  ((fst a * fst b + snd a * snd b) / cnorm2 b, (snd a * fst b - fst a * snd b) / cnorm2 b).
Definition cexp (a : C2) : C2 := (exp (fst a) * cos (snd a), exp (fst a) * sin (snd a)).
Definition cre (x : R) : C2 := (x, 0).
Definition cscale (k : R) (a : C2) : C2 := (k * fst a, k * snd a).

Lemma cnorm2_mul : forall a b, cnorm2 (cmul a b) = cnorm2 a * cnorm2 b.
Proof. intros [a1 a2] [b1 b2]. unfold cnorm2, cmul. simpl. ring. Qed.

Lemma cnorm2_div : forall a b, cnorm2 b <> 0 -> cnorm2 (cdiv a b) = cnorm2 a / cnorm2 b.
Proof. intros [a1 a2] [b1 b2] H. unfold cdiv. unfold cnorm2 at 1. simpl fst. simpl snd.
  unfold cnorm2 in *. simpl in *. field. exact H. Qed.

Lemma cnorm2_exp : forall a, cnorm2 (cexp a) = exp (2 * fst a).
Proof.
  intros [u v]. unfold cnorm2, cexp. simpl fst. simpl snd.
  transitivity (exp u * exp u * (Rsqr (sin v) + Rsqr (cos v))).
  { unfold Rsqr. ring. }
  rewrite sin2_cos2, Rmult_1_r, <- exp_plus. f_equal. ring.
Qed.

(* r = (ki - kf)/(ki + kf) * exp(-2 ki kf sigma^2), kf = p + i q *)
Definition fresnel_r (ki : R) (kf : C2) (s2 : R) : C2 :=
  cmul (cdiv (csub (cre ki) kf) (cadd (cre ki) kf)) (cexp (cscale (-2 * ki * s2) kf)).

Lemma fresnel_modulus : forall ki p q s2, 0 < (ki + p) * (ki + p) + q * q ->
  cnorm2 (fresnel_r ki (p, q) s2) =
  ((ki - p) * (ki - p) + q * q) / ((ki + p) * (ki + p) + q * q) * exp (- (4 * (ki * p * s2))).
Proof.
  intros ki p q s2 H. unfold fresnel_r. rewrite cnorm2_mul, cnorm2_exp, cnorm2_div.
  - unfold cnorm2, csub, cadd, cre, cscale. simpl. f_equal.
    + f_equal; ring.
    + f_equal. ring.
  - unfold cnorm2, cadd, cre. simpl. replace (0 + q) with q by ring. lra.
Qed.

(* |r|^2 lies in [0, 1] whenever ki >= 0 and Re kf >= 0 *)
Theorem reflectivity_in_unit_interval : forall ki p q s2,
  0 <= ki -> 0 <= p -> 0 <= s2 -> 0 < (ki + p) * (ki + p) + q * q ->
  0 <= cnorm2 (fresnel_r ki (p, q) s2) <= 1.
Proof.
  intros ki p q s2 Hk Hp Hs Hd. rewrite fresnel_modulus by exact Hd.
  set (num := (ki - p) * (ki - p) + q * q). set (den := (ki + p) * (ki + p) + q * q).
  assert (0 <= num) as Hn by (unfold num; sq (ki - p); sq q; lra).
  assert (den = num + 4 * (ki * p)) as Hdn by (unfold num, den; ring).
  assert (0 < den) as Hd' by exact Hd. clear Hd. rename Hd' into Hd.
  pose proof (Rmult_le_pos ki p Hk Hp) as Hkp. set (kp := ki * p) in *. clearbody num den kp.
  assert (num <= den) as Hnd by lra.
  assert (0 <= num / den <= 1) as Hq.
  { split.
    - apply Rmult_le_pos; [exact Hn|]. left. apply Rinv_0_lt_compat. exact Hd.
    - apply (Rmult_le_reg_r den); [exact Hd|]. unfold Rdiv. rewrite Rmult_assoc, Rinv_l by lra. lra. }
  assert (0 < exp (- (4 * (kp * s2))) <= 1) as He.
  { split; [apply exp_pos|]. rewrite <- exp_0.
    destruct (Req_dec (4 * (kp * s2)) 0) as [Z|Z].
    - rewrite Z, Ropp_0. lra.
    - left. apply exp_increasing. assert (0 <= kp * s2) by (apply Rmult_le_pos; assumption). lra. }
  split; [apply Rmult_le_pos; lra|].
  replace 1 with (1 * 1) by ring. apply Rmult_le_compat; lra.
Qed.

(* ------------------------------------------------------------------ the principal square root in parts *)
(* for z = a + i b: p = sqrt((|z| + a)/2), q = sign(b) sqrt((|z| - a)/2) satisfy (p + i q)^2 = z, p >= 0 *)
Definition zmodR (a b : R) : R := sqrt (a * a + b * b).
Definition sgn (b : R) : R := if Rle_dec 0 b then 1 else -1.

Lemma zmod_ge_abs : forall a b, Rabs a <= zmodR a b.
Proof.
  intros a b. unfold zmodR. rewrite <- (sqrt_Rsqr_abs a). apply sqrt_le_1_alt. unfold Rsqr. sq b. lra.
Qed.

Theorem csqrt_parts : forall a b,
  let m := zmodR a b in
  let p := sqrt ((m + a) / 2) in
  let q := sgn b * sqrt ((m - a) / 2) in
  0 <= p /\ cmul (p, q) (p, q) = (a, b).
Proof.
  intros a b m p q.
  assert (Rabs a <= m) as Hm by apply zmod_ge_abs.
  assert (0 <= (m + a) / 2) as H1 by (pose proof (Rabs_def2 a (m + 1)); unfold Rabs in Hm; destruct (Rcase_abs a); lra).
  assert (0 <= (m - a) / 2) as H2 by (unfold Rabs in Hm; destruct (Rcase_abs a); lra).
  split; [apply sqrt_pos|].
  unfold cmul. simpl fst. simpl snd.
  assert (p * p = (m + a) / 2) as Pp by (unfold p; apply sqrt_sqrt; exact H1).
  assert (sqrt ((m - a) / 2) * sqrt ((m - a) / 2) = (m - a) / 2) as Qq by (apply sqrt_sqrt; exact H2).
  assert (sgn b * sgn b = 1) as Ss by (unfold sgn; destruct (Rle_dec 0 b); ring).
  assert (m * m = a * a + b * b) as Mm.
  { unfold m, zmodR. apply sqrt_sqrt. sq a. sq b. lra. }
  f_equal.
  - unfold q. replace (p * p - sgn b * sqrt ((m - a) / 2) * (sgn b * sqrt ((m - a) / 2)))
      with (p * p - (sgn b * sgn b) * (sqrt ((m - a) / 2) * sqrt ((m - a) / 2))) by ring.
    rewrite Pp, Qq, Ss. field.
  - unfold q, p.
    replace (sqrt ((m + a) / 2) * (sgn b * sqrt ((m - a) / 2)) + sgn b * sqrt ((m - a) / 2) * sqrt ((m + a) / 2))
      with (2 * sgn b * (sqrt ((m + a) / 2) * sqrt ((m - a) / 2))) by ring.
    rewrite <- sqrt_mult by assumption.
    replace ((m + a) / 2 * ((m - a) / 2)) with (Rsqr (b / 2))
      by (unfold Rsqr; replace ((m + a) / 2 * ((m - a) / 2)) with ((m * m - a * a) / 4) by field; rewrite Mm; field).
    rewrite sqrt_Rsqr_abs. unfold sgn. destruct (Rle_dec 0 b) as [C|C].
    + rewrite Rabs_right by lra. field.
    + rewrite Rabs_left by lra. field.
Qed.

(* ------------------------------------------------------------------ the model expression *)
Lemma Q2R_inject_Z : forall z, Q2R (inject_Z z) = IZR z.
Proof. intro z. unfold Q2R, inject_Z. simpl. field. Qed.

(* its value, spelled out *)
Lemma refl_core_value : forall env ki kp kq2 sg,
  evalR env (refl_core ki kp kq2 sg) =
  ((evalR env ki - evalR env kp) * (evalR env ki - evalR env kp) + evalR env kq2) /
  ((evalR env ki + evalR env kp) * (evalR env ki + evalR env kp) + evalR env kq2) *
  exp (- (4 * (evalR env ki * evalR env kp * (evalR env sg * evalR env sg)))).
Proof.
  intros. unfold refl_core. simpl. rewrite Q2R_inject_Z. reflexivity.
Qed.

(* with kq2 = kq^2 the model expression is the squared modulus of the Fresnel coefficient with
   roughness, for kf = kp + i kq *)
Theorem refl_core_is_modulus : forall env ki kp kq2 sg kq,
  evalR env kq2 = kq * kq ->
  0 < (evalR env ki + evalR env kp) * (evalR env ki + evalR env kp) + kq * kq ->
  evalR env (refl_core ki kp kq2 sg) =
  cnorm2 (fresnel_r (evalR env ki) (evalR env kp, kq) (evalR env sg * evalR env sg)).
Proof.
  intros env ki kp kq2 sg kq H D. rewrite refl_core_value, fresnel_modulus by exact D.
  rewrite H. reflexivity.
Qed.

(* variables: 0 wavelength, 1 Re n, 2 Im n, 3 angle (rad), 4 roughness *)
Definition refl_vars : expr := refl_expr (EVar 0) (EVar 1) (EVar 2) (EVar 3) (EVar 4).

Theorem refl_model_in_unit_interval : forall env,
  0 < env 0%nat -> 0 <= sin (env 3%nat) ->
  0 < sin (env 3%nat) \/ zmodR (env 1%nat * env 1%nat - env 2%nat * env 2%nat - cos (env 3%nat) * cos (env 3%nat))
                                (2 * (env 1%nat * env 2%nat)) <> 0 ->
  0 <= evalR env refl_vars <= 1.
Proof.
  intros env Hl Hs Hnz. unfold refl_vars, refl_expr, refl_sc. rewrite refl_core_value.
  set (k := 2 * PI / env 0%nat).
  assert (0 < k) as Hk.
  { unfold k. apply Rmult_lt_0_compat; [|apply Rinv_0_lt_compat; exact Hl]. pose proof PI_RGT_0. lra. }
  set (a := env 1%nat * env 1%nat - env 2%nat * env 2%nat - cos (env 3%nat) * cos (env 3%nat)).
  set (b := 2 * (env 1%nat * env 2%nat)).
  set (m := zmodR a b).
  assert (Rabs a <= m) as Hm by apply zmod_ge_abs.
  assert (0 <= (m + a) / 2) as H1 by (unfold Rabs in Hm; destruct (Rcase_abs a); lra).
  assert (0 <= (m - a) / 2) as H2 by (unfold Rabs in Hm; destruct (Rcase_abs a); lra).
  assert (evalR env (ki_expr (EVar 0) (ESin (EVar 3))) = k * sin (env 3%nat)) as Eki.
  { unfold ki_expr, k_expr. simpl. rewrite !Q2R_inject_Z. reflexivity. }
  assert (evalR env (kp_expr (EVar 0) (EVar 1) (EVar 2) (ECos (EVar 3))) = k * sqrt ((m + a) / 2)) as Ekp.
  { unfold kp_expr, p_expr, zmod_expr, za_expr, zb_expr, k_expr. simpl. rewrite !Q2R_inject_Z. reflexivity. }
  assert (evalR env (kq2_expr (EVar 0) (EVar 1) (EVar 2) (ECos (EVar 3))) = k * k * ((m - a) / 2)) as Ekq.
  { unfold kq2_expr, q2_expr, zmod_expr, za_expr, zb_expr, k_expr. simpl. rewrite !Q2R_inject_Z. reflexivity. }
  rewrite Eki, Ekp, Ekq. simpl (evalR env (EVar 4)).
  set (ki := k * sin (env 3%nat)). set (kp := k * sqrt ((m + a) / 2)).
  set (kq := k * sqrt ((m - a) / 2)).
  assert (k * k * ((m - a) / 2) = kq * kq) as Hq.
  { unfold kq. replace (k * sqrt ((m - a) / 2) * (k * sqrt ((m - a) / 2)))
      with (k * k * (sqrt ((m - a) / 2) * sqrt ((m - a) / 2))) by ring.
    rewrite sqrt_sqrt by exact H2. reflexivity. }
  rewrite Hq.
  assert (0 <= ki) as Hki by (unfold ki; apply Rmult_le_pos; lra).
  assert (0 <= kp) as Hkp by (unfold kp; apply Rmult_le_pos; [lra|apply sqrt_pos]).
  assert (0 < (ki + kp) * (ki + kp) + kq * kq) as Hd.
  { destruct Hnz as [Hpos|Hmz].
    - assert (0 < ki) as Hkip by (unfold ki; apply Rmult_lt_0_compat; assumption).
      assert (0 < (ki + kp) * (ki + kp)) by (apply Rmult_lt_0_compat; lra). sq kq. lra.
    - fold a b m in Hmz.
      assert (0 < m) as Hmp by (pose proof (Rabs_pos a); lra).
      (* kp^2 + kq^2 = k^2 m > 0 *)
      assert (kp * kp + kq * kq = k * k * m) as Hsum.
      { unfold kp, kq.
        replace (k * sqrt ((m + a) / 2) * (k * sqrt ((m + a) / 2)) + k * sqrt ((m - a) / 2) * (k * sqrt ((m - a) / 2)))
          with (k * k * (sqrt ((m + a) / 2) * sqrt ((m + a) / 2) + sqrt ((m - a) / 2) * sqrt ((m - a) / 2))) by ring.
        rewrite !sqrt_sqrt by assumption. field. }
      assert (0 < k * k * m) by (apply Rmult_lt_0_compat; [apply Rmult_lt_0_compat; exact Hk|exact Hmp]).
      replace ((ki + kp) * (ki + kp) + kq * kq) with (ki * ki + 2 * (ki * kp) + (kp * kp + kq * kq)) by ring.
      sq ki. pose proof (Rmult_le_pos ki kp Hki Hkp). lra. }
  pose proof (reflectivity_in_unit_interval ki kp kq (env 4%nat * env 4%nat) Hki Hkp) as R.
  rewrite fresnel_modulus in R by exact Hd. apply R; [sq (env 4%nat); lra|exact Hd].
Qed.

(* ------------------------------------------------------------------ index of refraction *)
(* n = 1 - lambda^2/(2 pi) (rho + i irho) 1e-6 *)
Theorem refraction_formula : forall env lam rho irho,
  evalR env (n_re_expr lam rho) = 1 - evalR env lam * evalR env lam / (2 * PI) * evalR env rho * / 1000000 /\
  evalR env (n_im_expr lam irho) = - (evalR env lam * evalR env lam / (2 * PI) * evalR env irho * / 1000000).
Proof.
  intros. unfold n_re_expr, n_im_expr, delta_expr. simpl. rewrite !Q2R_inject_Z.
  assert (Q2R (1 # 1000000) = / 1000000) as E by (unfold Q2R; simpl; field).
  rewrite E. split; reflexivity.
Qed.

(* ------------------------------------------------------------------ f0 *)
Fixpoint sumR (l : list R) : R := match l with [] => 0 | x :: r => x + sumR r end.

Lemma evalR_esum : forall env l, evalR env (esum l) = sumR (map (evalR env) l).
Proof.
  intros env l. induction l as [|x r IH].
  - simpl. unfold Q2R. simpl. field.
  - destruct r as [|y r'].
    + simpl. ring.
    + change (evalR env (esum (x :: y :: r'))) with (evalR env x + evalR env (esum (y :: r'))).
      rewrite IH. reflexivity.
Qed.

(* the form factor as a function of the real variable Q *)
Definition f0R (f : cmf) (q : R) : R :=
  sumR (map (fun ab => Q2R (fst ab) * exp (- (Q2R (snd ab) * ((q / (4 * PI)) * (q / (4 * PI))))))
            (combine (cm_a f) (cm_b f))) + Q2R (cm_c f).

Theorem f0_expr_meaning : forall env f qv, evalR env (f0_expr f qv) = f0R f (evalR env qv).
Proof.
  intros env f qv. unfold f0_expr, f0R, f0_terms. simpl evalR at 1. rewrite evalR_esum. f_equal.
  rewrite map_map. f_equal. apply map_ext. intros [a b]. simpl. rewrite Q2R_inject_Z. reflexivity.
Qed.

Lemma Q2R_Qsum : forall l, Q2R (Ancillary.Qsum l) = sumR (map Q2R l).
Proof.
  induction l as [|x r IH]; [unfold Q2R; simpl; field|].
  unfold Ancillary.Qsum in *. simpl. rewrite Q2R_plus, IH. reflexivity.
Qed.

(* at Q = 0 every exponential is 1: f0(0) = sum a_i + c (when there are as many b as a) *)
Theorem f0_at_zero_value : forall f, length (cm_a f) = length (cm_b f) ->
  f0R f 0 = Q2R (cm_at_zero f).
Proof.
  intros f H. unfold f0R, cm_at_zero. rewrite Q2R_plus, Q2R_Qsum. f_equal.
  generalize dependent (cm_b f). induction (cm_a f) as [|a r IH]; intros l H.
  - reflexivity.
  - destruct l as [|b l]; [discriminate|]. simpl. rewrite IH by (simpl in H; lia).
    f_equal. replace (0 / (4 * PI) * (0 / (4 * PI))) with 0 by (unfold Rdiv; ring).
    rewrite Rmult_0_r, Ropp_0, exp_0. ring.
Qed.

(* f0 is continuous, so f0(Q) tends to f0(0) as Q -> 0 *)
Definition cm_term (ab : Q * Q) (q : R) : R :=
  Q2R (fst ab) * exp (- (Q2R (snd ab) * (q / (4 * PI) * (q / (4 * PI))))).

Lemma cm_term_continuous : forall ab x, continuity_pt (cm_term ab) x.
Proof.
  intros ab x. apply derivable_continuous_pt.
  assert (derivable (cm_term ab)) as D by (unfold cm_term; reg). apply D.
Qed.

Lemma cm_sum_continuous : forall (l : list (Q * Q)) x,
  continuity_pt (fun q => sumR (map (fun ab => cm_term ab q) l)) x.
Proof.
  intros l x. induction l as [|ab r IH].
  - simpl. apply continuity_pt_const. intros a b. reflexivity.
  - simpl. change (continuity_pt (cm_term ab + (fun q => sumR (map (fun ab0 => cm_term ab0 q) r)))%F x).
    apply continuity_pt_plus; [apply cm_term_continuous|exact IH].
Qed.

Theorem f0_continuous : forall f x, continuity_pt (f0R f) x.
Proof.
  intros f x. unfold f0R.
  change (continuity_pt ((fun q => sumR (map (fun ab => cm_term ab q) (combine (cm_a f) (cm_b f))))
                         + (fun _ => Q2R (cm_c f)))%F x).
  apply continuity_pt_plus; [apply cm_sum_continuous|].
  apply continuity_pt_const. intros a b. reflexivity.
Qed.

Theorem f0_limit_at_zero : forall f, length (cm_a f) = length (cm_b f) ->
  forall eps, 0 < eps -> exists delta, 0 < delta /\
    forall q, Rabs q < delta -> Rabs (f0R f q - Q2R (cm_at_zero f)) < eps.
Proof.
  intros f H eps He. rewrite <- (f0_at_zero_value f H).
  destruct (f0_continuous f 0 eps He) as [d [Hd C]]. exists d. split; [exact Hd|].
  intros q Hq. destruct (Req_dec q 0) as [Z|Z].
  - subst. rewrite Rminus_diag_eq by reflexivity. rewrite Rabs_R0. exact He.
  - apply C. split.
    + split; [exact I|]. intro E. apply Z. symmetry. exact E.
    + simpl. unfold R_dist. rewrite Rminus_0_r. exact Hq.
Qed.

(* ------------------------------------------------------------------ the double nearest pi *)
(* the range test of f0 divides by 4*numpy.pi: PI64 is pi to within half an ulp (2^-52 for [2,4)) *)
Definition pi_i := Eval vm_compute in evalI PREC no_env_I EPi.
Lemma pi_i_eq : evalI PREC no_env_I EPi = pi_i.
Proof. vm_compute. reflexivity. Qed.

Theorem PI64_is_pi_rounded : Rabs (Q2R PI64 - PI) <= / 2 ^ 52.
Proof.
  pose proof (evalI_sound PREC no_env_I no_env_R EPi no_env_ok) as H. rewrite pi_i_eq in H. unfold pi_i in H.
  simpl in H.
  assert (Q2R PI64 = 884279719003555 / 281474976710656) as E.
  { unfold Q2R. replace (Qnum PI64) with 884279719003555%Z by (vm_compute; reflexivity).
    replace (QDen PI64) with 281474976710656%Z by (vm_compute; reflexivity). reflexivity. }
  rewrite E. clear E.
  replace (Z.pos (StdZRadix2.MtoP 949488118409084645196998)) with 949488118409084645196998%Z in H by reflexivity.
  replace (Z.pos (StdZRadix2.MtoP 949488118409084645196999)) with 949488118409084645196999%Z in H by reflexivity.
  replace (Z.pow_pos 2 78) with 302231454903657293676544%Z in H by (vm_compute; reflexivity).
  apply Rabs_le. lra.
Qed.
