(* Proofs/C03Eval.v — soundness of the check-side evaluator (Model/NeutronEval.v): whatever the
   memoising BigInt interval evaluation returns encloses the meaning evalR of the expression, provided
   the cache was built by [memo] (hence for the caches the checks build with [memo_all [] ...]).
   Not needed by any property theorem; it makes the comparison "implementation double within
   2^-30 of the enclosure" a statement about the real value of model and spec.
   (Coq-Interval's BigInt backend relies on the primitive 63-bit integers.) *)
From Coq Require Import Reals ZArith QArith List Bool.
From Interval Require Import Specific_bigint Specific_ops Float_full Interval Xreal Basic.
From PT Require Import IExpr NeutronEval.
Import ListNotations.

Lemma Qsame_eq : forall x y, Qsame x y = true -> x = y.
Proof.
  intros [a b] [c d] H. unfold Qsame in H. cbn [Qnum Qden] in H. apply andb_prop in H. destruct H as [H1 H2].
  apply Z.eqb_eq in H1. apply Pos.eqb_eq in H2. subst. reflexivity.
Qed.

Lemma expr_eqb_eq : forall a b, expr_eqb a b = true -> a = b.
Proof.
  induction a; intros b H; destruct b; cbn [expr_eqb] in H; try discriminate H.
  - apply Nat.eqb_eq in H. subst. reflexivity.
  - apply Qsame_eq in H. subst. reflexivity.
  - reflexivity.
  - apply andb_prop in H. destruct H as [H1 H2]. f_equal; auto.
  - apply andb_prop in H. destruct H as [H1 H2]. f_equal; auto.
  - apply andb_prop in H. destruct H as [H1 H2]. f_equal; auto.
  - apply andb_prop in H. destruct H as [H1 H2]. f_equal; auto.
  - f_equal; auto.
  - f_equal; auto.
  - f_equal; auto.
  - f_equal; auto.
  - f_equal; auto.
  - f_equal; auto.
  - f_equal; auto.
  - f_equal; auto.
  - apply andb_prop in H. destruct H as [H1 H2]. apply Z.eqb_eq in H1. subst. f_equal. auto.
Qed.

Definition cache_ok (c : cache) : Prop :=
  forall e i, In (e, i) c -> contains (IB.convert i) (evalX no_env_R e).

Lemma lookup_ok : forall c e i, cache_ok c -> lookup e c = Some i -> contains (IB.convert i) (evalX no_env_R e).
Proof.
  induction c as [|[e' i'] r IH]; intros e i Hok H; cbn [lookup] in H; [discriminate H|].
  destruct (expr_eqb e e') eqn:E.
  - apply expr_eqb_eq in E. subst e'. inversion H; subst i'. apply Hok. left. reflexivity.
  - apply IH; [|exact H]. intros e0 i0 Hin. apply Hok. right. exact Hin.
Qed.

Lemma cst_I_ok : forall q, contains (IB.convert (cst_I q)) (evalX no_env_R (ECst q)).
Proof. intro q. unfold cst_I. cbn [evalX]. apply IB.div_correct; apply IB.fromZ_correct. Qed.

Theorem mev_sound : forall c, cache_ok c -> forall e, contains (IB.convert (mev c e)) (evalX no_env_R e).
Proof.
  intros c Hok. induction e; cbn [mev];
    try (destruct (lookup _ c) as [i|] eqn:El; [exact (lookup_ok c _ i Hok El)|]); cbn [evalX].
  - rewrite IB.nai_correct. exact I.
  - apply cst_I_ok.
  - apply IB.pi_correct.
  - apply IB.add_correct; assumption.
  - apply IB.sub_correct; assumption.
  - apply IB.mul_correct; assumption.
  - apply IB.div_correct; assumption.
  - apply IB.neg_correct; assumption.
  - apply IB.abs_correct; assumption.
  - apply IB.sqrt_correct; assumption.
  - apply IB.sqr_correct; assumption.
  - apply IB.exp_correct; assumption.
  - apply IB.ln_correct; assumption.
  - apply IB.cos_correct; assumption.
  - apply IB.sin_correct; assumption.
  - apply (IB.power_int_correct PRC n); assumption.
Qed.

Lemma memo_ok : forall c e, cache_ok c -> cache_ok (memo c e).
Proof.
  intros c e Hok e0 i0 [H|H].
  - inversion H; subst. apply mev_sound. exact Hok.
  - apply Hok. exact H.
Qed.
Theorem memo_all_ok : forall l c, cache_ok c -> cache_ok (memo_all c l).
Proof.
  induction l as [|e r IH]; intros c Hok; [exact Hok|]. unfold memo_all. cbn [fold_left].
  apply IH. apply memo_ok. exact Hok.
Qed.
Lemma empty_cache_ok : cache_ok [].
Proof. intros e i []. Qed.

(* every enclosure the checks compute (mev on a cache built by memo_all from the empty cache)
   contains the extended real value of the expression, which is evalR whenever it is a real
   (IExpr.evalX_real) *)
Theorem check_enclosures_sound : forall l e,
  contains (IB.convert (mev (memo_all [] l) e)) (evalX no_env_R e).
Proof. intros l e. apply mev_sound. apply memo_all_ok. exact empty_cache_ok. Qed.
