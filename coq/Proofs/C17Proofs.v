(* Proofs/C17Proofs.v — the composite SLD calculator (model of _sum_piece/_compute, with its own
   copy of the scattering formulas) returns the documented real, imaginary and incoherent SLD of the
   weighted-sum formula — hence (C03) the same numbers as the direct calculation; zero total mass or
   zero density gives zeros on both routes; one result per wavelength. *)
From Coq Require Import Reals ZArith QArith Qreals Qabs String List Bool Lra Lia.
From PT Require Import Str Dec Loaders Formula FormulaAlg C02Proofs AtomEnv Nsf IExpr Neutron NsfCalc NeutronData
                       C03Spec C03Data C03Refine C03Top C04Proofs C17Calc.
Import ListNotations.
Open Scope R_scope.

Notation ev := (evalR no_env_R).

(* ------------------------------------------------------------------ sums over lists with repeated keys *)
(* dsum d a (FormulaAlg): the sum of all entries of d for atom a *)
Lemma dsum_dremove_same : forall a d, (dsum (dremove a d) a == 0)%Q.
Proof.
  intros a d. induction d as [|[b n] r IH]; [reflexivity|]. simpl.
  destruct (atom_eqb a b) eqn:E; [exact IH|]. simpl. rewrite E. rewrite IH. ring.
Qed.
Lemma dsum_dremove_other : forall a b d, atom_eqb b a = false -> (dsum (dremove a d) b == dsum d b)%Q.
Proof.
  intros a b d Hab. induction d as [|[c n] r IH]; [reflexivity|]. simpl.
  destruct (atom_eqb a c) eqn:E.
  - apply atom_eqb_eq in E. subst c. rewrite Hab. rewrite IH. ring.
  - simpl. rewrite IH. reflexivity.
Qed.
Lemma length_dremove : forall a d, (length (dremove a d) <= length d)%nat.
Proof. intros a d. induction d as [|[b n] r IH]; simpl; [lia|]. destruct (atom_eqb a b); simpl; lia. Qed.

(* the sum splits into the total of a and the rest, for any list *)
Lemma dsumR_split_any : forall F a d, dsumR F d = Q2R (dsum d a) * F a + dsumR F (dremove a d).
Proof.
  intros F a d. induction d as [|[b n] r IH].
  - simpl. rewrite RMicromega.Q2R_0. ring.
  - simpl. destruct (atom_eqb a b) eqn:E.
    + apply atom_eqb_eq in E. subst b. rewrite IH, Q2R_plus. ring.
    + simpl. rewrite IH, Q2R_plus, RMicromega.Q2R_0. ring.
Qed.

Lemma dsumR_all_zero : forall F n d, (length d <= n)%nat -> (forall a, (dsum d a == 0)%Q) -> dsumR F d = 0.
Proof.
  intros F n. induction n as [|n IH]; intros d Hlen H.
  - destruct d; [reflexivity|simpl in Hlen; lia].
  - destruct d as [|[a m] r]; [reflexivity|].
    rewrite (dsumR_split_any F a). rewrite (Qeq_eqR _ _ (H a)), RMicromega.Q2R_0.
    rewrite IH; [ring| |].
    + simpl. rewrite atom_eqb_refl. pose proof (length_dremove a r). simpl in Hlen. lia.
    + intro b. destruct (atom_eqb b a) eqn:E.
      * apply atom_eqb_eq in E. subst b. apply dsum_dremove_same.
      * rewrite (dsum_dremove_other a b _ E). apply H.
Qed.

(* a sum over (atom, count) entries is determined by the per-atom totals, whatever the order,
   splitting or repetition of the entries *)
Theorem dsumR_totals : forall F n d d', (length d <= n)%nat ->
  (forall a, (dsum d' a == dsum d a)%Q) -> dsumR F d' = dsumR F d.
Proof.
  intros F n. induction n as [|n IH]; intros d d' Hlen H.
  - destruct d; [|simpl in Hlen; lia]. apply (dsumR_all_zero F (length d') d' (Nat.le_refl _)).
    intro a. rewrite H. reflexivity.
  - destruct d as [|[a m] r].
    + apply (dsumR_all_zero F (length d') d' (Nat.le_refl _)). intro b. rewrite H. reflexivity.
    + rewrite (dsumR_split_any F a d'), (dsumR_split_any F a ((a, m) :: r)).
      rewrite (Qeq_eqR _ _ (H a)). f_equal.
      apply IH.
      * simpl. rewrite atom_eqb_refl. pose proof (length_dremove a r). simpl in Hlen. lia.
      * intro b. destruct (atom_eqb b a) eqn:E.
        -- apply atom_eqb_eq in E. subst b. rewrite !dsum_dremove_same. reflexivity.
        -- rewrite !(dsum_dremove_other a b _ E). apply H.
Qed.

(* scaled and concatenated dictionaries *)
Definition dscale (k : Q) (d : dict) : dict := map (fun p => (fst p, (k * snd p)%Q)) d.
Lemma dsumR_app : forall F (d1 d2 : dict), dsumR F (d1 ++ d2)%list = dsumR F d1 + dsumR F d2.
Proof. intros F d1 d2. induction d1 as [|[a n] r IH]; simpl; [ring|]. rewrite IH. ring. Qed.
Lemma dsumR_scale : forall F k d, dsumR F (dscale k d) = Q2R k * dsumR F d.
Proof. intros F k d. induction d as [|[a n] r IH]; simpl; [ring|]. rewrite IH, Q2R_mult. ring. Qed.
Lemma dsum_app : forall (d1 d2 : dict) a, (dsum (d1 ++ d2)%list a == dsum d1 a + dsum d2 a)%Q.
Proof. intros d1 d2 a. induction d1 as [|[b n] r IH]; simpl; [ring|]. rewrite IH. ring. Qed.
Lemma dsum_scale : forall k d a, (dsum (dscale k d) a == k * dsum d a)%Q.
Proof.
  intros k d a. induction d as [|[b n] r IH]; simpl; [ring|]. rewrite IH.
  destruct (atom_eqb a b); ring.
Qed.

(* the weighted concatenation of the materials' dictionaries *)
Fixpoint wconcat (weights : list Q) (ds : list dict) : dict :=
  match weights, ds with
  | k :: ws, d :: r => (dscale k d ++ wconcat ws r)%list
  | _, _ => []
  end.
(* sum_i w_i * (sum over material i) *)
Fixpoint wsumR (weights : list Q) (xs : list R) : R :=
  match weights, xs with
  | k :: ws, x :: r => Q2R k * x + wsumR ws r
  | _, _ => 0
  end.
Lemma dsumR_wconcat : forall F weights ds,
  dsumR F (wconcat weights ds) = wsumR weights (map (dsumR F) ds).
Proof.
  intros F weights. induction weights as [|k ws IH]; intros ds; [reflexivity|].
  destruct ds as [|d r]; [reflexivity|]. cbn [wconcat map wsumR]. rewrite dsumR_app, dsumR_scale, IH. reflexivity.
Qed.

(* ------------------------------------------------------------------ _sum_piece and np.sum(weights*parts) *)
Lemma ev_wsum_gen : forall (f : piece -> expr) weights parts acc,
  ev (fold_left (fun acc p => EAdd acc (EMul (cq (fst p)) (f (snd p)))) (combine weights parts) acc)
  = ev acc + wsumR weights (map (fun p => ev (f p)) parts).
Proof.
  intros f weights. induction weights as [|k ws IH]; intros parts acc.
  - cbn [combine fold_left wsumR]. ring.
  - destruct parts as [|p r]; [cbn [combine fold_left map wsumR]; ring|].
    cbn [combine fold_left map wsumR]. rewrite IH. cbn [evalR fst snd]. rewrite ev_cq. ring.
Qed.
Lemma ev_wsum : forall f weights parts,
  ev (wsum weights f parts) = wsumR weights (map (fun p => ev (f p)) parts).
Proof. intros. unfold wsum. rewrite ev_wsum_gen, ev_ez. ring. Qed.

(* what is asked of the atoms of a material: masses positive, records that serve *)
Definition material_ok (D : ndata) (d : dict) : Prop :=
  forall p, In p d -> (0 < e_mass (nd_env D) (fst p))%Q /\ rec_okb D (az (fst p)) (aa (fst p)) = true.

(* the five sums of _sum_piece are the dict sums of the documented per-atom quantities *)
Lemma sum_piece_sound : forall D w d pc, wl_pos w -> material_ok D d -> sum_piece D w d = Some pc ->
  ev (pc_n pc) = dsumR (per_atom D w (fun _ => 1)) d /\
  ev (pc_m pc) = dsumR (per_atom D w c_m) d /\
  ev (pc_re pc) = dsumR (per_atom D w c_re) d /\
  ev (pc_im pc) = dsumR (per_atom D w c_im) d /\
  ev (pc_ss pc) = dsumR (per_atom D w c_ss) d.
Proof.
  intros D w d pc Hw Hok H. unfold sum_piece in H.
  destruct (all_some (map (atom_piece D w) d)) as [ps|] eqn:Eps; [|discriminate]. cbn [bind] in H.
  inversion H; subst pc. clear H. cbn [pc_n pc_m pc_re pc_im pc_ss].
  assert (Hl : tab_cell D w d = Some (map evalC ps)).
  { unfold tab_cell. apply (all_some_map_rel (atom_piece D w) (tab_comp D w) evalC d ps Eps).
    intros p c Hin Hp. apply atom_piece_refines; [exact Hw| |exact Hp]. exact (proj2 (Hok p Hin)). }
  rewrite <- (cell_sum D w (fun _ => 1) d _ (fun c n => eq_refl) Hl),
          <- (cell_sum D w c_m d _ (fun c n => eq_refl) Hl),
          <- (cell_sum D w c_re d _ (fun c n => eq_refl) Hl),
          <- (cell_sum D w c_im d _ (fun c n => eq_refl) Hl),
          <- (cell_sum D w c_ss d _ (fun c n => eq_refl) Hl).
  repeat split.
  - rewrite (ev_acc_sum _ (fun c => c_n c * 1)); [reflexivity|]. intro c. cbn [evalC c_n]. rewrite ev_cq. ring.
  - rewrite (ev_acc_sum _ (fun c => c_n c * c_m c)); [reflexivity|]. intro c. cbn [evalR evalC c_n c_m]. rewrite !ev_cq. ring.
  - apply ev_acc_sum. intro c. reflexivity.
  - apply ev_acc_sum. intro c. reflexivity.
  - apply ev_acc_sum. intro c. reflexivity.
Qed.

(* ------------------------------------------------------------------ _compute over R *)
(* the first three of the seven numbers *)
Definition first3 (l : list R) : list R := firstn 3 l.

Lemma ev_compute : forall parts weights density,
  let o := compute parts weights density in
  let sn := ev (wsum weights pc_n parts) in
  let N := sn / (ev (wsum weights pc_m parts) / Q2R density / Q2R NAq * Q2R E24) in
  [ev (s_re o); ev (s_im o); ev (s_inc o)]
  = first3 (calc_R N 0 (ev (wsum weights pc_re parts) / sn) (ev (wsum weights pc_im parts) / sn)
                   (ev (wsum weights pc_ss parts) / sn)).
Proof.
  intros. unfold o, compute, calc_R, first3. cbn [s_re s_im s_inc firstn].
  repeat (f_equal; [|]); cbn [evalR]; rewrite ?ev_maximum0; cbn [evalR];
    rewrite ?ev_FOURPI_100, ?ev_ez, ?ev_cabs2, ?ev_cq; reflexivity.
Qed.

(* ------------------------------------------------------------------ composite = documented SLD of the sum formula *)
(* dS: the atoms of the sum formula; its per-atom totals are the weighted totals of the materials *)
Definition weighted_totals (weights : list Q) (ds : list dict) (dS : dict) : Prop :=
  forall a, (dget0 dS a == dsum (wconcat weights ds) a)%Q.

Theorem composite_equals_direct : forall D w ds weights density parts dS l,
  wl_pos w -> (0 < density)%Q ->
  Forall (material_ok D) ds ->
  all_some (map (sum_piece D w) ds) = Some parts ->
  NoDup (keys dS) -> weighted_totals weights ds dS ->
  cell_ok D dS -> tab_cell D w dS = Some l ->
  let o := compute parts weights density in
  [ev (s_re o); ev (s_im o); ev (s_inc o)]
  = first3 (outputs (Q2R NAq) l (Q2R density) (wl_R w)).
Proof.
  intros D w ds weights density parts dS l Hw Hrho Hmat Hparts Hnd Htot Hcell Hl o.
  unfold o. rewrite ev_compute.
  (* the five weighted sums are the dict sums over the sum formula *)
  assert (Hagg : forall (f : piece -> expr) (g : comp -> R),
            (forall d pc, In d ds -> sum_piece D w d = Some pc -> ev (f pc) = dsumR (per_atom D w g) d) ->
            ev (wsum weights f parts) = dsumR (per_atom D w g) dS).
  { intros f g Hfg. rewrite ev_wsum.
    assert (Hmap : map (fun p => ev (f p)) parts = map (dsumR (per_atom D w g)) ds).
    { clear -Hparts Hfg. revert parts Hparts. induction ds as [|d r IH]; intros parts Hparts; cbn [map all_some] in Hparts.
      - inversion Hparts. reflexivity.
      - destruct (sum_piece D w d) as [pc|] eqn:Ep; [|discriminate].
        destruct (all_some (map (sum_piece D w) r)) as [ps|] eqn:Er; [|discriminate]. inversion Hparts; subst parts.
        cbn [map]. f_equal; [apply (Hfg d pc (or_introl eq_refl) Ep)|].
        apply IH; [|reflexivity]. intros d0 pc0 Hin. apply Hfg. right. exact Hin. }
    rewrite Hmap, <- dsumR_wconcat. symmetry.
    apply (dsumR_totals _ (length (wconcat weights ds)) (wconcat weights ds) dS (Nat.le_refl _)).
    intro a. rewrite <- (dget0_dsum dS a Hnd). apply Htot. }
  assert (Hsp : forall d pc, In d ds -> sum_piece D w d = Some pc ->
            ev (pc_n pc) = dsumR (per_atom D w (fun _ => 1)) d /\
            ev (pc_m pc) = dsumR (per_atom D w c_m) d /\
            ev (pc_re pc) = dsumR (per_atom D w c_re) d /\
            ev (pc_im pc) = dsumR (per_atom D w c_im) d /\
            ev (pc_ss pc) = dsumR (per_atom D w c_ss) d).
  { intros d pc Hin Hp. apply sum_piece_sound; [exact Hw| |exact Hp]. rewrite Forall_forall in Hmat. exact (Hmat d Hin). }
  pose proof (cell_aggr D w dS l Hl) as Haggr. unfold aggr in Haggr.
  injection Haggr as A1 A2 A3 A4 A5.
  rewrite (Hagg pc_n (fun _ => 1) (fun d pc Hin Hp => proj1 (Hsp d pc Hin Hp))).
  rewrite (Hagg pc_m c_m (fun d pc Hin Hp => proj1 (proj2 (Hsp d pc Hin Hp)))).
  rewrite (Hagg pc_re c_re (fun d pc Hin Hp => proj1 (proj2 (proj2 (Hsp d pc Hin Hp))))).
  rewrite (Hagg pc_im c_im (fun d pc Hin Hp => proj1 (proj2 (proj2 (proj2 (Hsp d pc Hin Hp)))))).
  rewrite (Hagg pc_ss c_ss (fun d pc Hin Hp => proj2 (proj2 (proj2 (proj2 (Hsp d pc Hin Hp)))))).
  rewrite <- A1, <- A2, <- A3, <- A4, <- A5.
  destruct (cell_facts D w dS l Hcell Hl) as (F1 & F2 & F3 & _ & _).
  (* the same number density, averaged lengths and sigma_s as the documented cell *)
  replace (sum c_n l / (sum (fun c => c_n c * c_m c) l / Q2R density / Q2R NAq * Q2R E24))
    with (model_N (Q2R NAq) (Q2R density) l)
    by (unfold model_N, n_total; f_equal; f_equal; f_equal; f_equal; apply sum_ext; intro c; ring).
  change (sum (fun c => c_n c * c_re c) l / sum c_n l) with (b_re l).
  change (sum (fun c => c_n c * c_im c) l / sum c_n l) with (b_im l).
  change (sum (fun c => c_n c * c_ss c) l / sum c_n l) with (sigma_s l).
  (* the first three outputs do not depend on the wavelength argument of the calculation *)
  assert (H3 : forall lam, first3 (calc_R (model_N (Q2R NAq) (Q2R density) l) lam (b_re l) (b_im l) (sigma_s l))
                           = first3 (calc_R (model_N (Q2R NAq) (Q2R density) l) 0 (b_re l) (b_im l) (sigma_s l)))
    by (intro lam; reflexivity).
  rewrite <- (H3 (wl_R w)). f_equal.
  apply calc_is_spec; try assumption.
  - exact NA_pos.
  - apply Q2R_pos. exact Hrho.
  - apply (wl_R_pos EF_R_pos). exact Hw.
Qed.

(* ------------------------------------------------------------------ zeros, shape *)
(* zero total weight or zero density: the calculator returns zeros *)
Theorem composite_zero : forall D materials ws weights density,
  (Qeq_bool (total_mass D (map atoms_of materials) weights * density) 0 = true) ->
  length weights = length materials ->
  (exists per_w, all_some (map (fun w => all_some (map (sum_piece D w) (map atoms_of materials))) ws) = Some per_w) ->
  composite_sld D materials ws weights density = CZero.
Proof.
  intros D materials ws weights density Hz Hlen (per_w & Hp). unfold composite_sld. rewrite Hp.
  rewrite Hlen, Nat.eqb_refl. cbn [negb]. rewrite Hz. reflexivity.
Qed.

(* one result per wavelength, in order *)
Theorem shape_follows_wavelength : forall D materials ws weights density v,
  composite_sld D materials ws weights density = CVals v -> length v = length ws.
Proof.
  intros D materials ws weights density v H. unfold composite_sld in H.
  destruct (all_some (map (fun w => all_some (map (sum_piece D w) (map atoms_of materials))) ws)) as [per_w|] eqn:E;
    [|discriminate].
  destruct (negb (Nat.eqb (length weights) (length materials))); [discriminate|].
  destruct (Qeq_bool _ 0); [discriminate|]. inversion H. rewrite map_length.
  clear -E. revert per_w E. induction ws as [|w r IH]; intros per_w E; cbn [map all_some] in E.
  - inversion E. reflexivity.
  - destruct (all_some (map (sum_piece D w) (map atoms_of materials))) as [pw|]; [|discriminate].
    destruct (all_some (map (fun w0 => all_some (map (sum_piece D w0) (map atoms_of materials))) r)) as [rest|] eqn:Er; [|discriminate].
    inversion E. cbn [length]. f_equal. apply IH. reflexivity.
Qed.

(* the sum formula w_1*m_1 + ... + w_k*m_k built with the formula arithmetic has the weighted totals *)
Fixpoint sum_formula (weights : list Q) (fs : list fobj) : fobj :=
  match weights, fs with
  | k :: ws, f :: r => f_add (f_rmul k f) (sum_formula ws r)
  | _, _ => mkF [] KTuple None None
  end.

Lemma dsum_atoms_of : forall s a, (dsum (atoms_of s) a == cnt_s a s)%Q.
Proof. intros s a. rewrite <- (dget0_dsum _ a (nodup_atoms_of s)). apply dget0_atoms_of. Qed.

Theorem sum_formula_totals : forall weights fs,
  weighted_totals weights (map (fun f => atoms_of (f_struct f)) fs) (atoms_of (f_struct (sum_formula weights fs))).
Proof.
  intros weights fs a. rewrite dget0_atoms_of. revert fs.
  induction weights as [|k ws IH]; intros fs; [reflexivity|].
  destruct fs as [|f r]; [reflexivity|]. cbn [sum_formula map wconcat].
  rewrite dsum_app, dsum_scale, dsum_atoms_of, <- IH.
  unfold f_add. cbn [f_struct]. unfold cnt_s. rewrite cnt_app. fold (cnt_s a (f_struct (f_rmul k f))).
  rewrite rmul_cnt. reflexivity.
Qed.

(* ------------------------------------------------------------------ the two routes of the model agree *)
(* the calculator and the direct neutron_sld of a formula with the weighted totals return the same
   real, imaginary and incoherent SLD *)
Theorem composite_equals_direct_model : forall D w (materials : list struct) weights density parts SF od ps,
  wl_pos w -> (0 < density)%Q ->
  Forall (material_ok D) (map atoms_of materials) ->
  all_some (map (sum_piece D w) (map atoms_of materials)) = Some parts ->
  weighted_totals weights (map atoms_of materials) (atoms_of SF) ->
  (forall p, In p (atoms_of SF) ->
     (0 <= snd p)%Q /\ (0 < e_mass (nd_env D) (fst p))%Q
     /\ (has_data D (fst p) = true -> rec_okb D (az (fst p)) (aa (fst p)) = true)) ->
  neutron_scattering D SF (Some density) None [w] = OVals [(od, ps)] ->
  let o := compute parts weights density in
  [ev (s_re o); ev (s_im o); ev (s_inc o)] = first3 (map ev (outs_list od)).
Proof.
  intros D w materials weights density parts SF od ps Hw Hrho Hmat Hparts Htot Hd H o.
  assert (Hdens : density_of_compound D SF (Some density) None = Some density) by reflexivity.
  destruct (scattering_cell_ok D SF (Some density) None [w] [(od, ps)] density Hd Hdens H) as [Hcell Ev].
  cbn [map all_some] in Ev.
  destruct (compound_at D (atoms_of SF) density w) as [[o' ps']|] eqn:Ec; [|discriminate Ev].
  inversion Ev; subst o' ps'. clear Ev.
  destruct (compound_refines D (atoms_of SF) density w od ps Hw Hrho Hcell Ec) as (l & Hl & Heq).
  rewrite Heq. unfold o.
  apply (composite_equals_direct D w (map atoms_of materials) weights density parts (atoms_of SF) l); try assumption.
  apply nodup_atoms_of.
Qed.
