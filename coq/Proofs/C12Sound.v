(* Proofs/C12Sound.v — what a successful volume comparison of Model/C12Check.v means: the
   rational bounds computed by IExpr.enclose enclose the real value of the expression, and
   ICheck.chk_expr_rel accepts an implementation double only within the stated allowance of it. *)
From Coq Require Import Reals ZArith QArith Qabs Qreals List Bool Lra.
From Interval Require Import Specific_stdz Specific_ops Float_full Interval Xreal Basic.
From PT Require Import Dec Py IExpr ICheck.
Open Scope R_scope.

Lemma pos_pow2 : forall p, Z.pos (Z.to_pos (2 ^ Z.pos p)) = (2 ^ Z.pos p)%Z.
Proof.
  intro p. apply Z2Pos.id. apply Z.pow_pos_nonneg; [reflexivity|apply Pos2Z.is_nonneg].
Qed.

(* the rational read off a float is its real value *)
Lemma float_Q_toX : forall f q, float_Q f = Some q -> F.toX f = Xreal (Q2R q).
Proof.
  intros [|m e] q H; simpl in H; [discriminate|]. inversion H; subst q; clear H.
  unfold F.toX, F.toF. destruct m as [|m|m]; simpl StdZRadix2.mantissa_sign; cbn iota.
  - simpl FtoX. f_equal. destruct (0 <=? e)%Z; unfold Q2R; cbn [Qnum Qden]; rewrite ?Z.mul_0_l; lra.
  - unfold FtoX, FtoR, StdZRadix2.MtoP, StdZRadix2.EtoZ. change (Zaux.radix_val F.radix) with 2%Z.
    f_equal. destruct e as [|p|p]; unfold Z.leb; cbn [Z.compare]; cbn iota; unfold Q2R; cbn [Qnum Qden].
    + rewrite Z.pow_0_r, Z.mul_1_r. field.
    + change (2 ^ Z.pos p)%Z with (Z.pow_pos 2 p). field.
    + simpl Z.opp. rewrite pos_pow2. change (2 ^ Z.pos p)%Z with (Z.pow_pos 2 p). reflexivity.
  - unfold FtoX, FtoR, StdZRadix2.MtoP, StdZRadix2.EtoZ. change (Zaux.radix_val F.radix) with 2%Z.
    f_equal. destruct e as [|p|p]; unfold Z.leb; cbn [Z.compare]; cbn iota; unfold Q2R; cbn [Qnum Qden].
    + rewrite Z.pow_0_r, Z.mul_1_r. field.
    + change (2 ^ Z.pos p)%Z with (Z.pow_pos 2 p). field.
    + simpl Z.opp. rewrite pos_pow2. change (2 ^ Z.pos p)%Z with (Z.pow_pos 2 p). reflexivity.
Qed.

Theorem enclose_at_sound : forall prec e lo hi, bounds_Q (evalI prec no_env_I e) = Some (lo, hi) ->
  Q2R lo <= evalR no_env_R e <= Q2R hi.
Proof.
  intros prec e lo hi H. pose proof (evalI_sound prec no_env_I no_env_R e no_env_ok) as S.
  destruct (evalI prec no_env_I e) as [|l u]; simpl in H; [discriminate|].
  destruct (float_Q l) as [a|] eqn:Hl; [|discriminate]. destruct (float_Q u) as [b|] eqn:Hu; [|discriminate].
  inversion H; subst a b; clear H. unfold I.convert in S.
  destruct (I.F.valid_lb l && I.F.valid_ub u)%bool.
  - change I.F.toX with F.toX in S. rewrite (float_Q_toX l lo Hl), (float_Q_toX u hi Hu) in S.
    destruct (evalX no_env_R e) as [|r] eqn:EX; simpl in S; [contradiction|].
    rewrite <- (evalX_real no_env_R e r EX). exact S.
  - destruct (evalX no_env_R e) as [|r]; simpl in S; [contradiction|]. lra.
Qed.

Theorem enclose_sound : forall e lo hi, enclose e = Some (lo, hi) -> Q2R lo <= evalR no_env_R e <= Q2R hi.
Proof. intros e lo hi H. exact (enclose_at_sound PREC e lo hi H). Qed.

(* an accepted double lies within the allowance 2^tp * max(|lo|, |hi|) of the enclosure [lo, hi]
   of the expression's real value, hence within (hi - lo) + allowance of the value itself *)
Theorem chk_expr_rel_sound : forall tp v e p, py_Q v = Some p -> chk_expr_rel tp v e = true ->
  exists lo hi, enclose e = Some (lo, hi) /\
    Q2R lo <= evalR no_env_R e <= Q2R hi /\
    let t := Q2R (Qmax (Qabs lo) (Qabs hi) * D2Q 1 tp) in
    Q2R lo - t <= Q2R p <= Q2R hi + t /\
    Rabs (Q2R p - evalR no_env_R e) <= (Q2R hi - Q2R lo) + t.
Proof.
  intros tp v e p Hp H. unfold chk_expr_rel in H. rewrite Hp in H. unfold within in H.
  destruct (enclose e) as [[lo hi]|] eqn:E; [|discriminate]. exists lo, hi. split; [reflexivity|].
  pose proof (enclose_sound e lo hi E) as B. split; [exact B|].
  apply andb_prop in H. destruct H as [H1 H2]. apply Qle_bool_iff in H1, H2.
  apply Qle_Rle in H1, H2. rewrite Q2R_minus in H1. rewrite Q2R_plus in H2.
  cbv zeta. split; [split; assumption|].
  apply Rabs_le. lra.
Qed.
