(* Proofs/C08Proofs.v — invariant of the object-identity machine (Model/Core.v) and its
   consequences: every route to a key returns the one cached object, pickling is the identity,
   ions and isotopes are created once, iteration is sorted and exhaustive, invalid keys raise. *)
From Coq Require Import ZArith String Ascii List Bool FMapPositive Sorting.Sorted Permutation SetoidList Lia FinFun.
From PT Require Import Str Py Core.
Import ListNotations.
Open Scope string_scope.

(* ================================================================== int-keyed dicts *)
Lemma zkey_inj : forall a b, zkey a = zkey b -> a = b.
Proof. intros [|a|a] [|b|b]; simpl; congruence. Qed.
Lemma zunkey_zkey : forall z, zunkey (zkey z) = z.
Proof. intros [|a|a]; reflexivity. Qed.
Lemma zkey_zunkey : forall k, zkey (zunkey k) = k.
Proof. intros [k|k|]; reflexivity. Qed.

Lemma dget_dset_same : forall d k v, dget (dset d k v) k = Some v.
Proof. intros. unfold dget, dset. apply PositiveMap.gss. Qed.
Lemma dget_dset_other : forall d k k' v, k <> k' -> dget (dset d k v) k' = dget d k'.
Proof.
  intros. unfold dget, dset. apply PositiveMap.gso. intro E. apply zkey_inj in E. congruence.
Qed.
Lemma dget_dempty : forall k, dget dempty k = None.
Proof. intros. unfold dget, dempty. apply PositiveMap.gempty. Qed.

Lemma get2_set2_same : forall m x k v, get2 (set2 m x k v) x k = Some v.
Proof.
  intros. unfold get2, set2, dict_of. rewrite PositiveMap.gss. apply dget_dset_same.
Qed.
Lemma get2_set2_other : forall m x k v x' k', (x <> x' \/ k <> k') ->
  get2 (set2 m x k v) x' k' = get2 m x' k'.
Proof.
  intros m x k v x' k' H. unfold get2, set2.
  destruct (Pos.eq_dec x x') as [->|N].
  - unfold dict_of at 1. rewrite PositiveMap.gss. apply dget_dset_other. destruct H; congruence.
  - unfold dict_of at 1. rewrite PositiveMap.gso by congruence. reflexivity.
Qed.
Lemma get2_empty : forall x k, get2 (PositiveMap.empty dict) x k = None.
Proof. intros. unfold get2, dict_of. rewrite PositiveMap.gempty. apply dget_dempty. Qed.

(* ================================================================== the invariant *)
Definition row_ok (eb : ebase) (z : Z) (n sy : string) (io : list Z) : Prop :=
  exists name i u, In (z, name, sy, i, u) eb /\ n = lower name /\ io = (i ++ u)%list.

(* the table attribute [str] is an Element whose symbol is [str], or D / T: isotope 2 / 3 of
   the element whose symbol is "H" *)
Definition attr_ok (s : state) (T : tabid) (str : string) (o : oid) : Prop :=
  (exists z n io, hget s o = Some (OElement T z n str io)) \/
  (exists e z n io a, ((str = "D" /\ a = 2%Z) \/ (str = "T" /\ a = 3%Z)) /\
                      hget s o = Some (OIsotope e a) /\ hget s e = Some (OElement T z n "H" io)).

Definition modattr_ok (s : state) (str : string) (o : oid) : Prop :=
  (exists z n sy io, hget s o = Some (OElement TPub z n sy io) /\ (str = sy \/ str = n)) \/
  ((str = "D" \/ str = "deuterium") /\ attr_ok s TPub "D" o) \/
  ((str = "T" \/ str = "tritium") /\ attr_ok s TPub "T" o).

Definition valid_charge (s : state) (b : oid) (q : Z) : Prop :=
  exists io, owner_ions s b = Some io /\ In q io.

Record Inv (eb : ebase) (s : state) : Prop := mkInv {
  inv_bound : forall x ob, hget s x = Some ob -> (x < next s)%positive;
  inv_el_sound : forall T z o, dget (elems s T) z = Some o ->
      exists n sy io, hget s o = Some (OElement T z n sy io);
  inv_el_complete : forall T z n sy io o, hget s o = Some (OElement T z n sy io) ->
      dget (elems s T) z = Some o /\ row_ok eb z n sy io;
  inv_iso_sound : forall e a o, get2 (isos s) e a = Some o -> hget s o = Some (OIsotope e a);
  inv_iso_complete : forall e a o, hget s o = Some (OIsotope e a) ->
      get2 (isos s) e a = Some o /\ exists T z n sy io, hget s e = Some (OElement T z n sy io);
  inv_ion_sound : forall b q o, get2 (ionsets s) b q = Some o -> hget s o = Some (OIon b q);
  inv_ion_complete : forall b q o, hget s o = Some (OIon b q) ->
      get2 (ionsets s) b q = Some o /\ valid_charge s b q;
  inv_attrs : forall T str o, In (str, o) (attrs s T) -> attr_ok s T str o;
  inv_modattrs : forall str o, In (str, o) (modattrs s) -> modattr_ok s str o
}.

(* ================================================================== state extension *)
(* objects are never changed or removed, caches only grow, the tables' own dictionaries and
   attributes are fixed *)
Record ext (s s' : state) : Prop := mkExt {
  ext_heap : forall x ob, hget s x = Some ob -> hget s' x = Some ob;
  ext_elems : forall T, elems s' T = elems s T;
  ext_isos : forall e a o, get2 (isos s) e a = Some o -> get2 (isos s') e a = Some o;
  ext_ions : forall b q o, get2 (ionsets s) b q = Some o -> get2 (ionsets s') b q = Some o;
  ext_attrs : forall T, attrs s' T = attrs s T;
  ext_modattrs : modattrs s' = modattrs s
}.

Lemma ext_refl : forall s, ext s s.
Proof. intros. constructor; auto. Qed.
Lemma ext_trans : forall a b c, ext a b -> ext b c -> ext a c.
Proof.
  intros a b c [h1 e1 i1 n1 a1 m1] [h2 e2 i2 n2 a2 m2]. constructor; intros; auto.
  - rewrite e2. apply e1.
  - rewrite a2. apply a1.
  - congruence.
Qed.

Definition hext (s s' : state) : Prop := forall x ob, hget s x = Some ob -> hget s' x = Some ob.

Lemma elem_info_hext : forall s s' e r, hext s s' -> elem_info s e = Some r -> elem_info s' e = Some r.
Proof.
  unfold elem_info. intros s s' e r H E. destruct (hget s e) as [ob|] eqn:G; [|discriminate].
  rewrite (H _ _ G). exact E.
Qed.
Lemma root_info_hext : forall s s' x r, hext s s' -> root_info s x = Some r -> root_info s' x = Some r.
Proof.
  unfold root_info. intros s s' x r H E. destruct (hget s x) as [ob|] eqn:G; [|discriminate].
  rewrite (H _ _ G). destruct ob as [T z n sy io|e a|b q]; auto.
  - eapply elem_info_hext; eauto.
  - destruct (hget s b) as [ob|] eqn:Gb; [|discriminate]. rewrite (H _ _ Gb).
    destruct ob; auto. eapply elem_info_hext; eauto.
Qed.
Lemma owner_ions_hext : forall s s' b io, hext s s' -> owner_ions s b = Some io -> owner_ions s' b = Some io.
Proof.
  unfold owner_ions. intros s s' b io H E. destruct (hget s b) as [ob|] eqn:G; [|discriminate].
  rewrite (H _ _ G). destruct ob as [T z n sy io'|e a|b' q]; auto.
  destruct (hget s e) as [ob|] eqn:Ge; [|discriminate]. rewrite (H _ _ Ge). exact E.
Qed.
Lemma attr_isotope_hext : forall s s' x ob, hext s s' -> hget s x = Some ob ->
  (forall b q, ob = OIon b q -> hget s b <> None) -> attr_isotope s' x = attr_isotope s x.
Proof.
  unfold attr_isotope. intros s s' x ob H G Hb. rewrite G, (H _ _ G). destruct ob as [| |b q]; auto.
  specialize (Hb b q eq_refl). destruct (hget s b) as [ob|] eqn:Gb; [|congruence].
  rewrite (H _ _ Gb). reflexivity.
Qed.
Lemma valid_charge_hext : forall s s' b q, hext s s' -> valid_charge s b q -> valid_charge s' b q.
Proof. intros s s' b q H [io [E I]]. exists io. split; auto. eapply owner_ions_hext; eauto. Qed.
Lemma attr_ok_hext : forall s s' T str o, hext s s' -> attr_ok s T str o -> attr_ok s' T str o.
Proof.
  intros s s' T str o H [[z [n [io G]]]|[e [z [n [io [a [C [G1 G2]]]]]]]].
  - left. exists z, n, io. auto.
  - right. exists e, z, n, io, a. auto.
Qed.
Lemma modattr_ok_hext : forall s s' str o, hext s s' -> modattr_ok s str o -> modattr_ok s' str o.
Proof.
  intros s s' str o H [[z [n [sy [io [G C]]]]]|[[C A]|[C A]]].
  - left. exists z, n, sy, io. auto.
  - right. left. split; auto. eapply attr_ok_hext; eauto.
  - right. right. split; auto. eapply attr_ok_hext; eauto.
Qed.

(* ================================================================== allocation *)
Lemma hget_alloc : forall s ob x,
  hget (fst (alloc s ob)) x = if Pos.eqb x (next s) then Some ob else hget s x.
Proof.
  intros. unfold alloc, hget. simpl. destruct (Pos.eqb_spec x (next s)) as [->|N].
  - apply PositiveMap.gss.
  - apply PositiveMap.gso. exact N.
Qed.

Lemma fresh : forall eb s, Inv eb s -> hget s (next s) = None.
Proof.
  intros eb s I. destruct (hget s (next s)) as [ob|] eqn:G; auto.
  apply (inv_bound _ _ I) in G. lia.
Qed.

Lemma hext_alloc : forall eb s ob, Inv eb s -> hext s (fst (alloc s ob)).
Proof.
  intros eb s ob I x ob' G. rewrite hget_alloc. destruct (Pos.eqb_spec x (next s)) as [->|N]; auto.
  rewrite (fresh _ _ I) in G. discriminate.
Qed.

(* ================================================================== the two mutators keep the invariant *)
Lemma root_info_element : forall s x e T z io, root_info s x = Some (e, T, z, io) ->
  exists n sy, hget s e = Some (OElement T z n sy io).
Proof.
  unfold root_info, elem_info. intros s x e T z io E.
  destruct (hget s x) as [[T' z' n sy io'|e' a|b q]|] eqn:G; try discriminate.
  - inversion E; subst. eauto.
  - destruct (hget s e') as [[T' z' n sy io'|?|?]|] eqn:Ge; try discriminate. inversion E; subst. eauto.
  - destruct (hget s b) as [[T' z' n sy io'|e' a|?]|] eqn:Gb; try discriminate.
    + inversion E; subst. eauto.
    + destruct (hget s e') as [[T' z' n sy io'|?|?]|] eqn:Ge; try discriminate. inversion E; subst. eauto.
Qed.

Lemma inv_new_isotope : forall eb s e a T z n sy io,
  Inv eb s -> hget s e = Some (OElement T z n sy io) -> get2 (isos s) e a = None ->
  let s1 := fst (alloc s (OIsotope e a)) in
  Inv eb (with_isos s1 (set2 (isos s1) e a (next s))).
Proof.
  intros eb s e a T z n sy io I Ge Gn s1.
  assert (HX : hext s s1) by (eapply hext_alloc; eauto).
  assert (HG : forall x, hget (with_isos s1 (set2 (isos s1) e a (next s))) x =
                         if Pos.eqb x (next s) then Some (OIsotope e a) else hget s x).
  { intro x. unfold s1. rewrite <- hget_alloc. reflexivity. }
  set (s2 := with_isos s1 (set2 (isos s1) e a (next s))) in *.
  assert (HX2 : hext s s2).
  { intros x ob G. rewrite HG. destruct (Pos.eqb_spec x (next s)) as [->|N]; auto.
    rewrite (fresh _ _ I) in G. discriminate. }
  constructor.
  - intros x ob G. rewrite HG in G. simpl. destruct (Pos.eqb_spec x (next s)) as [->|N]; [lia|].
    apply (inv_bound _ _ I) in G. lia.
  - intros T' z' o G. assert (G' : dget (elems s T') z' = Some o) by (destruct T'; exact G).
    destruct (inv_el_sound _ _ I _ _ _ G') as [n' [sy' [io' H]]]. exists n', sy', io'. auto.
  - intros T' z' n' sy' io' o G. rewrite HG in G.
    destruct (Pos.eqb_spec o (next s)) as [E|N]; [discriminate|].
    destruct (inv_el_complete _ _ I _ _ _ _ _ _ G) as [H1 H2]. split; [destruct T'; exact H1|exact H2].
  - intros e' a' o G. change (isos s2) with (set2 (isos s) e a (next s)) in G.
    destruct (Pos.eq_dec e e') as [<-|Ne].
    + destruct (Z.eq_dec a a') as [<-|Na].
      * rewrite get2_set2_same in G. inversion G; subst. rewrite HG, Pos.eqb_refl. reflexivity.
      * rewrite get2_set2_other in G by auto. apply HX2. eapply inv_iso_sound; eauto.
    + rewrite get2_set2_other in G by auto. apply HX2. eapply inv_iso_sound; eauto.
  - intros e' a' o G. change (isos s2) with (set2 (isos s) e a (next s)). rewrite HG in G.
    destruct (Pos.eqb_spec o (next s)) as [E|N].
    + inversion G; subst. rewrite get2_set2_same. split; auto. exists T, z, n, sy, io. auto.
    + destruct (inv_iso_complete _ _ I _ _ _ G) as [H1 [T' [z' [n' [sy' [io' H2]]]]]]. split.
      * rewrite get2_set2_other; auto.
        destruct (Pos.eq_dec e e') as [<-|Ne]; auto. right. intros <-. congruence.
      * exists T', z', n', sy', io'. auto.
  - intros b q o G. apply HX2. eapply inv_ion_sound; eauto.
  - intros b q o G. rewrite HG in G. destruct (Pos.eqb_spec o (next s)) as [E|N]; [discriminate|].
    destruct (inv_ion_complete _ _ I _ _ _ G) as [H1 H2]. split; auto.
    eapply valid_charge_hext; eauto.
  - intros T' str o G. assert (G' : In (str, o) (attrs s T')) by (destruct T'; exact G).
    eapply attr_ok_hext; eauto. eapply inv_attrs; eauto.
  - intros str o G. eapply modattr_ok_hext; eauto. eapply inv_modattrs; eauto.
Qed.

Lemma inv_add_isotope : forall eb s x a, Inv eb s -> Inv eb (fst (add_isotope s x a)).
Proof.
  intros eb s x a I. unfold add_isotope.
  destruct (root_info s x) as [[[[e T] z] io]|] eqn:R; auto.
  destruct (get2 (isos s) e a) as [o|] eqn:G; auto.
  destruct (root_info_element _ _ _ _ _ _ R) as [n [sy Ge]].
  pose proof (inv_new_isotope eb s e a T z n sy io I Ge G) as H. exact H.
Qed.

Lemma owner_ions_some : forall s b io, owner_ions s b = Some io ->
  exists ob, hget s b = Some ob /\ (forall b' q, ob <> OIon b' q).
Proof.
  unfold owner_ions. intros s b io E. destruct (hget s b) as [[| |]|]; try discriminate;
  eexists; split; eauto; congruence.
Qed.

Lemma inv_new_ion : forall eb s b q io,
  Inv eb s -> owner_ions s b = Some io -> In q io -> get2 (ionsets s) b q = None ->
  let s1 := fst (alloc s (OIon b q)) in
  Inv eb (with_ionsets s1 (set2 (ionsets s1) b q (next s))).
Proof.
  intros eb s b q io I Ob Iq Gn s1.
  assert (HG : forall x, hget (with_ionsets s1 (set2 (ionsets s1) b q (next s))) x =
                         if Pos.eqb x (next s) then Some (OIon b q) else hget s x).
  { intro x. unfold s1. rewrite <- hget_alloc. reflexivity. }
  set (s2 := with_ionsets s1 (set2 (ionsets s1) b q (next s))) in *.
  assert (HX2 : hext s s2).
  { intros x ob G. rewrite HG. destruct (Pos.eqb_spec x (next s)) as [->|N]; auto.
    rewrite (fresh _ _ I) in G. discriminate. }
  constructor.
  - intros x ob G. rewrite HG in G. simpl. destruct (Pos.eqb_spec x (next s)) as [->|N]; [lia|].
    apply (inv_bound _ _ I) in G. lia.
  - intros T' z' o G. assert (G' : dget (elems s T') z' = Some o) by (destruct T'; exact G).
    destruct (inv_el_sound _ _ I _ _ _ G') as [n' [sy' [io' H]]]. exists n', sy', io'. auto.
  - intros T' z' n' sy' io' o G. rewrite HG in G.
    destruct (Pos.eqb_spec o (next s)) as [E|N]; [discriminate|].
    destruct (inv_el_complete _ _ I _ _ _ _ _ _ G) as [H1 H2]. split; [destruct T'; exact H1|exact H2].
  - intros e' a' o G. apply HX2. eapply inv_iso_sound; eauto.
  - intros e' a' o G. rewrite HG in G. destruct (Pos.eqb_spec o (next s)) as [E|N]; [discriminate|].
    destruct (inv_iso_complete _ _ I _ _ _ G) as [H1 [T' [z' [n' [sy' [io' H2]]]]]]. split; auto.
    exists T', z', n', sy', io'. auto.
  - intros b' q' o G. change (ionsets s2) with (set2 (ionsets s) b q (next s)) in G.
    destruct (Pos.eq_dec b b') as [<-|Ne].
    + destruct (Z.eq_dec q q') as [<-|Na].
      * rewrite get2_set2_same in G. inversion G; subst. rewrite HG, Pos.eqb_refl. reflexivity.
      * rewrite get2_set2_other in G by auto. apply HX2. eapply inv_ion_sound; eauto.
    + rewrite get2_set2_other in G by auto. apply HX2. eapply inv_ion_sound; eauto.
  - intros b' q' o G. change (ionsets s2) with (set2 (ionsets s) b q (next s)). rewrite HG in G.
    destruct (Pos.eqb_spec o (next s)) as [E|N].
    + inversion G; subst. rewrite get2_set2_same. split; auto. exists io. split; auto.
      eapply owner_ions_hext; eauto.
    + destruct (inv_ion_complete _ _ I _ _ _ G) as [H1 H2]. split.
      * rewrite get2_set2_other; auto.
        destruct (Pos.eq_dec b b') as [<-|Ne]; auto. right. intros <-. congruence.
      * eapply valid_charge_hext; eauto.
  - intros T' str o G. assert (G' : In (str, o) (attrs s T')) by (destruct T'; exact G).
    eapply attr_ok_hext; eauto. eapply inv_attrs; eauto.
  - intros str o G. eapply modattr_ok_hext; eauto. eapply inv_modattrs; eauto.
Qed.

Lemma existsb_eqb_In : forall q l, existsb (Z.eqb q) l = true <-> In q l.
Proof.
  intros. rewrite existsb_exists. split.
  - intros [x [H E]]. apply Z.eqb_eq in E. subst. exact H.
  - intro H. exists q. split; auto. apply Z.eqb_refl.
Qed.

Lemma inv_ionset_getitem : forall eb s b q, Inv eb s -> Inv eb (fst (ionset_getitem s b q)).
Proof.
  intros eb s b q I. unfold ionset_getitem.
  destruct (get2 (ionsets s) b q) as [o|] eqn:G; auto.
  destruct (owner_ions s b) as [io|] eqn:Ob; auto.
  destruct (existsb (Z.eqb q) io) eqn:Ex; auto.
  apply existsb_eqb_In in Ex.
  exact (inv_new_ion eb s b q io I Ob Ex G).
Qed.

Lemma inv_get_ion : forall eb s x q, Inv eb s -> Inv eb (fst (get_ion s x q)).
Proof.
  intros eb s x q I. unfold get_ion. destruct (hget s x) as [[| |b q']|]; auto using inv_ionset_getitem.
Qed.

Lemma inv_make : forall eb s k, Inv eb s -> Inv eb (fst (make s k)).
Proof.
  intros eb s k I. destruct k; simpl; auto.
  - destruct (table_getitem s T z); auto.
  - destruct (table_getitem s T z); auto using inv_ionset_getitem.
  - destruct (table_getitem s T z); auto. destruct (elem_getitem s o a); auto using inv_ionset_getitem.
Qed.

Lemma inv_pickle : forall eb s x, Inv eb s -> Inv eb (fst (pickle s x)).
Proof. intros eb s x I. unfold pickle. destruct (reduce s x); auto using inv_make. Qed.

Lemma inv_change_table : forall eb s x T, Inv eb s -> Inv eb (fst (change_table s x T)).
Proof.
  intros eb s x T I. unfold change_table.
  destruct (hget s x) as [[T' z n sy io|e a|b q]|]; auto.
  - destruct (attr_number s x); auto. destruct (table_getitem s T z); auto.
  - destruct (attr_number s x) as [z|]; auto.
    destruct (hget s b) as [[| |]|]; destruct (table_getitem s T z); auto using inv_ionset_getitem.
    destruct (elem_getitem s o a); auto using inv_ionset_getitem.
Qed.

Theorem inv_step : forall eb s o, Inv eb s -> Inv eb (fst (step s o)).
Proof.
  intros eb s o I. destruct o; simpl; auto using inv_get_ion, inv_add_isotope, inv_pickle, inv_change_table.
  destruct (hget s x) as [[| |]|]; auto.
Qed.

Theorem inv_run : forall eb ops s, Inv eb s -> Inv eb (run s ops).
Proof.
  intros eb ops. unfold run. induction ops as [|o r IH]; intros s I; simpl; auto.
  apply IH. apply inv_step. exact I.
Qed.

(* ================================================================== every step extends the state *)
Lemma ext_new_isotope : forall eb s e a, Inv eb s -> get2 (isos s) e a = None ->
  let s1 := fst (alloc s (OIsotope e a)) in ext s (with_isos s1 (set2 (isos s1) e a (next s))).
Proof.
  intros eb s e a I G s1. constructor; try (intros; destruct T; reflexivity); auto.
  - intros x ob H. change (hget (fst (alloc s (OIsotope e a))) x = Some ob). eapply hext_alloc; eauto.
  - intros e' a' o H. change (get2 (set2 (isos s) e a (next s)) e' a' = Some o).
    rewrite get2_set2_other; auto.
    destruct (Pos.eq_dec e e') as [<-|Ne]; auto. right. intros <-. congruence.
Qed.
Lemma ext_new_ion : forall eb s b q, Inv eb s -> get2 (ionsets s) b q = None ->
  let s1 := fst (alloc s (OIon b q)) in ext s (with_ionsets s1 (set2 (ionsets s1) b q (next s))).
Proof.
  intros eb s b q I G s1. constructor; try (intros; destruct T; reflexivity); auto.
  - intros x ob H. change (hget (fst (alloc s (OIon b q))) x = Some ob). eapply hext_alloc; eauto.
  - intros b' q' o H. change (get2 (set2 (ionsets s) b q (next s)) b' q' = Some o).
    rewrite get2_set2_other; auto.
    destruct (Pos.eq_dec b b') as [<-|Ne]; auto. right. intros <-. congruence.
Qed.

Lemma ext_add_isotope : forall eb s x a, Inv eb s -> ext s (fst (add_isotope s x a)).
Proof.
  intros eb s x a I. unfold add_isotope.
  destruct (root_info s x) as [[[[e T] z] io]|]; [|apply ext_refl].
  destruct (get2 (isos s) e a) eqn:G; [apply ext_refl|].
  exact (ext_new_isotope eb s e a I G).
Qed.
Lemma ext_ionset_getitem : forall eb s b q, Inv eb s -> ext s (fst (ionset_getitem s b q)).
Proof.
  intros eb s b q I. unfold ionset_getitem.
  destruct (get2 (ionsets s) b q) eqn:G; [apply ext_refl|].
  destruct (owner_ions s b); [|apply ext_refl].
  destruct (existsb (Z.eqb q) l); [|apply ext_refl].
  exact (ext_new_ion eb s b q I G).
Qed.
Lemma ext_get_ion : forall eb s x q, Inv eb s -> ext s (fst (get_ion s x q)).
Proof.
  intros eb s x q I. unfold get_ion.
  destruct (hget s x) as [[| |]|]; eauto using ext_ionset_getitem, ext_refl.
Qed.
Lemma ext_make : forall eb s k, Inv eb s -> ext s (fst (make s k)).
Proof.
  intros eb s k I. destruct k; simpl; try apply ext_refl.
  - destruct (table_getitem s T z); apply ext_refl.
  - destruct (table_getitem s T z); eauto using ext_ionset_getitem, ext_refl.
  - destruct (table_getitem s T z); [|apply ext_refl].
    destruct (elem_getitem s o a); eauto using ext_ionset_getitem, ext_refl.
Qed.
Lemma ext_pickle : forall eb s x, Inv eb s -> ext s (fst (pickle s x)).
Proof. intros eb s x I. unfold pickle. destruct (reduce s x); eauto using ext_make, ext_refl. Qed.
Lemma ext_change_table : forall eb s x T, Inv eb s -> ext s (fst (change_table s x T)).
Proof.
  intros eb s x T I. unfold change_table.
  destruct (hget s x) as [[T' z n sy io|e a|b q]|]; try apply ext_refl.
  - destruct (attr_number s x); [|apply ext_refl]. destruct (table_getitem s T z); apply ext_refl.
  - destruct (attr_number s x) as [z|]; [|apply ext_refl].
    destruct (hget s b) as [[| |]|]; destruct (table_getitem s T z);
      eauto using ext_ionset_getitem, ext_refl.
    destruct (elem_getitem s o a); eauto using ext_ionset_getitem, ext_refl.
Qed.
Theorem ext_step : forall eb s o, Inv eb s -> ext s (fst (step s o)).
Proof.
  intros eb s o I.
  destruct o; simpl; eauto using ext_refl, ext_get_ion, ext_add_isotope, ext_pickle, ext_change_table.
  destruct (hget s x) as [[| |]|]; apply ext_refl.
Qed.
Theorem ext_run : forall eb ops s, Inv eb s -> ext s (run s ops).
Proof.
  intros eb ops. unfold run. induction ops as [|o r IH]; intros s I; simpl; [apply ext_refl|].
  eapply ext_trans; [eapply ext_step; eauto|]. apply IH. apply inv_step. exact I.
Qed.

(* ================================================================== initialisation *)
Lemma inv_empty : forall eb, Inv eb empty_state.
Proof.
  intro eb. constructor; unfold hget; simpl; intros.
  - rewrite PositiveMap.gempty in H. discriminate.
  - destruct T; simpl in H; rewrite dget_dempty in H; discriminate.
  - rewrite PositiveMap.gempty in H. discriminate.
  - rewrite get2_empty in H. discriminate.
  - rewrite PositiveMap.gempty in H. discriminate.
  - rewrite get2_empty in H. discriminate.
  - rewrite PositiveMap.gempty in H. discriminate.
  - destruct T; destruct H.
  - destruct H.
Qed.

Definition row_z (r : Z * string * string * list Z * list Z) : Z := let '(z, _, _, _, _) := r in z.

Lemma elems_set_elem : forall s T z o T',
  elems (set_elem s T z o) T' = if tab_eqb T T' then dset (elems s T) z o else elems s T'.
Proof. intros. destruct T, T'; reflexivity. Qed.
Lemma elems_push_attr : forall s T k o T', elems (push_attr s T k o) T' = elems s T'.
Proof. intros. destruct T, T'; reflexivity. Qed.
Lemma attrs_push_attr : forall s T k o T',
  attrs (push_attr s T k o) T' = if tab_eqb T T' then (k, o) :: attrs s T else attrs s T'.
Proof. intros. destruct T, T'; reflexivity. Qed.
Lemma attrs_set_elem : forall s T z o T', attrs (set_elem s T z o) T' = attrs s T'.
Proof. intros. destruct T, T'; reflexivity. Qed.
Lemma tab_eqb_eq : forall a b, tab_eqb a b = true <-> a = b.
Proof. intros [] []; simpl; split; congruence. Qed.

Lemma inv_push_attr : forall eb s T k o, Inv eb s -> attr_ok s T k o -> Inv eb (push_attr s T k o).
Proof.
  intros eb s T k o I A.
  assert (HH : forall x, hget (push_attr s T k o) x = hget s x) by (intro; destruct T; reflexivity).
  assert (HX : hext s (push_attr s T k o)) by (intros x ob G; rewrite HH; exact G).
  assert (Iso : isos (push_attr s T k o) = isos s) by (destruct T; reflexivity).
  assert (Ion : ionsets (push_attr s T k o) = ionsets s) by (destruct T; reflexivity).
  assert (Nx : next (push_attr s T k o) = next s) by (destruct T; reflexivity).
  assert (Ma : modattrs (push_attr s T k o) = modattrs s) by (destruct T; reflexivity).
  constructor.
  - intros x ob G. rewrite HH in G. rewrite Nx. eapply inv_bound; eauto.
  - intros T' z' o' G. rewrite elems_push_attr in G.
    destruct (inv_el_sound _ _ I _ _ _ G) as [n [sy [io H]]]. exists n, sy, io. rewrite HH. exact H.
  - intros T' z' n sy io o' G. rewrite HH in G. rewrite elems_push_attr. eapply inv_el_complete; eauto.
  - intros e a o' G. rewrite Iso in G. rewrite HH. eapply inv_iso_sound; eauto.
  - intros e a o' G. rewrite HH in G. rewrite Iso.
    destruct (inv_iso_complete _ _ I _ _ _ G) as [H1 [T' [z [n [sy [io H2]]]]]]. split; auto.
    exists T', z, n, sy, io. rewrite HH. exact H2.
  - intros b q o' G. rewrite Ion in G. rewrite HH. eapply inv_ion_sound; eauto.
  - intros b q o' G. rewrite HH in G. rewrite Ion.
    destruct (inv_ion_complete _ _ I _ _ _ G) as [H1 H2]. split; auto. eapply valid_charge_hext; eauto.
  - intros T' str o' G. rewrite attrs_push_attr in G. eapply attr_ok_hext; eauto.
    destruct (tab_eqb T T') eqn:E.
    + apply tab_eqb_eq in E. subst T'. destruct G as [G|G].
      * inversion G; subst. exact A.
      * eapply inv_attrs; eauto.
    + eapply inv_attrs; eauto.
  - intros str o' G. rewrite Ma in G. eapply modattr_ok_hext; eauto. eapply inv_modattrs; eauto.
Qed.

Lemma inv_new_element : forall eb s T z name sym io unc,
  Inv eb s -> In (z, name, sym, io, unc) eb -> dget (elems s T) z = None ->
  Inv eb (new_element T s (z, name, sym, io, unc)).
Proof.
  intros eb s T z name sym io unc I Hin Hz. unfold new_element.
  set (ob := OElement T z (lower name) sym (io ++ unc)%list).
  change (let (s1, o) := alloc s ob in push_attr (set_elem s1 T z o) T sym o)
    with (push_attr (set_elem (fst (alloc s ob)) T z (next s)) T sym (next s)).
  set (s1 := fst (alloc s ob)).
  set (s2 := set_elem s1 T z (next s)).
  assert (HG : forall x, hget s2 x = if Pos.eqb x (next s) then Some ob else hget s x).
  { intro x. unfold s2, s1. rewrite <- hget_alloc. destruct T; reflexivity. }
  assert (HX : hext s s2).
  { intros x ob' G. rewrite HG. destruct (Pos.eqb_spec x (next s)) as [E|N]; auto.
    subst x. rewrite (fresh _ _ I) in G. discriminate. }
  assert (Iso : isos s2 = isos s) by (unfold s2; destruct T; reflexivity).
  assert (Ion : ionsets s2 = ionsets s) by (unfold s2; destruct T; reflexivity).
  assert (Nx : next s2 = Pos.succ (next s)) by (unfold s2; destruct T; reflexivity).
  assert (Ma : modattrs s2 = modattrs s) by (unfold s2; destruct T; reflexivity).
  assert (El : forall T', elems s2 T' = if tab_eqb T T' then dset (elems s T) z (next s) else elems s T').
  { intro T'. unfold s2. rewrite elems_set_elem. destruct T, T'; reflexivity. }
  assert (At : forall T', attrs s2 T' = attrs s T').
  { intro T'. unfold s2. rewrite attrs_set_elem. destruct T'; reflexivity. }
  apply inv_push_attr.
  2:{ left. exists z, (lower name), (io ++ unc)%list. rewrite HG, Pos.eqb_refl. reflexivity. }
  constructor.
  - intros x ob' G. rewrite HG in G. rewrite Nx. destruct (Pos.eqb_spec x (next s)) as [E|N]; [lia|].
    apply (inv_bound _ _ I) in G. lia.
  - intros T' z' o G. rewrite El in G. rewrite HG. destruct (tab_eqb T T') eqn:E.
    + apply tab_eqb_eq in E. subst T'. destruct (Z.eq_dec z z') as [<-|Nz].
      * rewrite dget_dset_same in G. inversion G; subst. rewrite Pos.eqb_refl.
        exists (lower name), sym, (io ++ unc)%list. reflexivity.
      * rewrite dget_dset_other in G by auto.
        destruct (inv_el_sound _ _ I _ _ _ G) as [n' [sy' [io' H]]]. exists n', sy', io'.
        destruct (Pos.eqb_spec o (next s)) as [E|N]; auto. subst o. rewrite (fresh _ _ I) in H. discriminate.
    + destruct (inv_el_sound _ _ I _ _ _ G) as [n' [sy' [io' H]]]. exists n', sy', io'.
      destruct (Pos.eqb_spec o (next s)) as [E'|N]; auto. subst o. rewrite (fresh _ _ I) in H. discriminate.
  - intros T' z' n' sy' io' o G. rewrite HG in G. rewrite El.
    destruct (Pos.eqb_spec o (next s)) as [E|N].
    + unfold ob in G. inversion G; subst. assert (E2 : tab_eqb T' T' = true) by (apply tab_eqb_eq; auto).
      rewrite E2, dget_dset_same. split; auto. exists name, io, unc. auto.
    + destruct (inv_el_complete _ _ I _ _ _ _ _ _ G) as [H1 H2]. split; auto.
      destruct (tab_eqb T T') eqn:E; auto. apply tab_eqb_eq in E. subst T'.
      rewrite dget_dset_other; auto. intros <-. congruence.
  - intros e a o G. rewrite Iso in G. apply HX. eapply inv_iso_sound; eauto.
  - intros e a o G. rewrite HG in G. rewrite Iso.
    destruct (Pos.eqb_spec o (next s)) as [E|N]; [discriminate|].
    destruct (inv_iso_complete _ _ I _ _ _ G) as [H1 [T' [z' [n' [sy' [io' H2]]]]]]. split; auto.
    exists T', z', n', sy', io'. auto.
  - intros b q o G. rewrite Ion in G. apply HX. eapply inv_ion_sound; eauto.
  - intros b q o G. rewrite HG in G. rewrite Ion.
    destruct (Pos.eqb_spec o (next s)) as [E|N]; [discriminate|].
    destruct (inv_ion_complete _ _ I _ _ _ G) as [H1 H2]. split; auto. eapply valid_charge_hext; eauto.
  - intros T' str o G. rewrite At in G. eapply attr_ok_hext; eauto. eapply inv_attrs; eauto.
  - intros str o G. rewrite Ma in G. eapply modattr_ok_hext; eauto. eapply inv_modattrs; eauto.
Qed.

Lemma elems_new_element : forall s T r T',
  elems (new_element T s r) T' = if tab_eqb T T' then dset (elems s T) (row_z r) (next s) else elems s T'.
Proof. intros s T [[[[z name] sym] io] unc] T'. destruct T, T'; reflexivity. Qed.

Lemma inv_fold_new_element : forall eb T l s,
  Inv eb s -> incl l eb -> NoDup (map row_z l) ->
  (forall r, In r l -> dget (elems s T) (row_z r) = None) ->
  Inv eb (fold_left (new_element T) l s) /\
  (forall T', T' <> T -> elems (fold_left (new_element T) l s) T' = elems s T').
Proof.
  intros eb T l. induction l as [|r l IH]; intros s I Hin Hnd Hz; simpl.
  - split; auto.
  - inversion Hnd as [|? ? Hn Hnd']; subst.
    assert (I1 : Inv eb (new_element T s r)).
    { destruct r as [[[[z name] sym] io] unc]. apply inv_new_element; auto.
      - apply Hin. left. reflexivity.
      - apply (Hz (z, name, sym, io, unc)). left. reflexivity. }
    destruct (IH (new_element T s r) I1) as [J1 J2]; auto.
    + intros x Hx. apply Hin. right. exact Hx.
    + intros r' Hr'. rewrite elems_new_element.
      assert (E : tab_eqb T T = true) by (apply tab_eqb_eq; auto). rewrite E.
      rewrite dget_dset_other.
      * apply Hz. right. exact Hr'.
      * intro E'. apply Hn. rewrite E'. apply in_map. exact Hr'.
    + split; auto. intros T' NT. rewrite J2 by auto. rewrite elems_new_element.
      destruct (tab_eqb T T') eqn:E; auto. apply tab_eqb_eq in E. congruence.
Qed.

Lemma alookup_In : forall k l o, alookup k l = Some o -> In (k, o) l.
Proof.
  intros k l. induction l as [|[k' v] r IH]; simpl; intros o H; [discriminate|].
  destruct (String.eqb_spec k' k) as [->|N].
  - inversion H; subst. left. reflexivity.
  - right. apply IH. exact H.
Qed.

Lemma add_isotope_elems : forall s x a T, elems (fst (add_isotope s x a)) T = elems s T.
Proof.
  intros. unfold add_isotope. destruct (root_info s x) as [[[[e T'] z] io]|]; auto.
  destruct (get2 (isos s) e a); destruct T; reflexivity.
Qed.

(* the result of add_isotope on an element is its isotope a *)
Lemma add_isotope_element : forall eb s h a T z n sy io,
  Inv eb s -> hget s h = Some (OElement T z n sy io) ->
  exists o, snd (add_isotope s h a) = Ok o /\ hget (fst (add_isotope s h a)) o = Some (OIsotope h a).
Proof.
  intros eb s h a T z n sy io I G. unfold add_isotope.
  assert (R : root_info s h = Some (h, T, z, io)) by (unfold root_info; rewrite G; reflexivity).
  rewrite R. destruct (get2 (isos s) h a) as [o|] eqn:Gi.
  - exists o. split; auto. simpl. eapply inv_iso_sound; eauto.
  - exists (next s). split; auto.
    change (hget (fst (alloc s (OIsotope h a))) (next s) = Some (OIsotope h a)).
    rewrite hget_alloc, Pos.eqb_refl. reflexivity.
Qed.

Lemma inv_init_table : forall eb s T,
  Inv eb s -> NoDup (map row_z eb) -> (forall z, dget (elems s T) z = None) ->
  Inv eb (init_table s T eb) /\ (forall T', T' <> T -> elems (init_table s T eb) T' = elems s T').
Proof.
  intros eb s T I Hnd Hz. unfold init_table.
  destruct (inv_fold_new_element eb T eb s I (incl_refl _) Hnd (fun r _ => Hz (row_z r))) as [I1 E1].
  set (s1 := fold_left (new_element T) eb s) in *.
  destruct (alookup "H" (attrs s1 T)) as [h|] eqn:AH; [|split; auto].
  apply alookup_In in AH. apply (inv_attrs _ _ I1) in AH.
  destruct AH as [[z [n [io Gh]]]|[e [z [n [io [a [[[C _]|[C _]] _]]]]]]]; try discriminate.
  destruct (add_isotope_element eb s1 h 2 T z n "H" io I1 Gh) as [d [Rd Gd]].
  pose proof (inv_add_isotope eb s1 h 2 I1) as I2.
  pose proof (ext_add_isotope eb s1 h 2 I1) as X2.
  pose proof (add_isotope_elems s1 h 2) as El2.
  destruct (add_isotope s1 h 2) as [s2 r2]. simpl in *. subst r2.
  assert (Gh2 : hget s2 h = Some (OElement T z n "H" io)) by (apply (ext_heap _ _ X2); exact Gh).
  assert (I3 : Inv eb (push_attr s2 T "D" d)).
  { apply inv_push_attr; auto. right. exists h, z, n, io, 2%Z. auto. }
  set (s3 := push_attr s2 T "D" d) in *.
  assert (Gh3 : hget s3 h = Some (OElement T z n "H" io)) by (unfold s3; destruct T; exact Gh2).
  destruct (add_isotope_element eb s3 h 3 T z n "H" io I3 Gh3) as [t [Rt Gt]].
  pose proof (inv_add_isotope eb s3 h 3 I3) as I4.
  pose proof (ext_add_isotope eb s3 h 3 I3) as X4.
  pose proof (add_isotope_elems s3 h 3) as El4.
  destruct (add_isotope s3 h 3) as [s4 r4]. simpl in *. subst r4.
  split.
  - apply inv_push_attr; auto. right. exists h, z, n, io, 3%Z. split; auto. split; auto.
    apply (ext_heap _ _ X4). exact Gh3.
  - intros T' NT. rewrite elems_push_attr, El4. unfold s3. rewrite elems_push_attr, El2. apply E1. exact NT.
Qed.

Lemma inv_mass_init : forall eb T rows s, Inv eb s ->
  Inv eb (mass_init s T rows) /\ (forall T', elems (mass_init s T rows) T' = elems s T').
Proof.
  intros eb T rows. unfold mass_init. induction rows as [|[z a] r IH]; intros s I; simpl; [split; auto|].
  destruct (table_getitem s T z) as [e|err]; [|apply IH; exact I].
  destruct (IH (fst (add_isotope s e a)) (inv_add_isotope _ _ _ _ I)) as [J1 J2]. split; auto.
  intro T'. rewrite J2. apply add_isotope_elems.
Qed.

(* iteration: sorted(dict.items()) is a permutation of the dictionary *)
Lemma insert_perm : forall p l, Permutation (p :: l) (insert p l).
Proof.
  intros p l. induction l as [|h t IH]; simpl; auto.
  destruct (Z.leb (fst p) (fst h)); auto.
  eapply perm_trans; [apply perm_swap|]. apply perm_skip. exact IH.
Qed.
Lemma isort_perm : forall l, Permutation l (isort l).
Proof.
  induction l as [|p l IH]; simpl; auto.
  eapply perm_trans; [apply perm_skip; exact IH|]. apply insert_perm.
Qed.

Lemma ditems_In : forall d k o, In (k, o) (ditems d) <-> dget d k = Some o.
Proof.
  intros d k o. unfold ditems, dget. rewrite in_map_iff. split.
  - intros [[k' v] [E H]]. simpl in E. inversion E; subst. rewrite zkey_zunkey.
    apply PositiveMap.elements_complete. exact H.
  - intro H. exists (zkey k, o). simpl. rewrite zunkey_zkey. split; auto.
    apply PositiveMap.elements_correct. exact H.
Qed.
Lemma sorted_items_In : forall d k o, In (k, o) (sorted_items d) <-> dget d k = Some o.
Proof.
  intros. rewrite <- ditems_In. unfold sorted_items. split; intro H.
  - eapply Permutation_in; [apply Permutation_sym, isort_perm|exact H].
  - eapply Permutation_in; [apply isort_perm|exact H].
Qed.
Lemma iter_elements_In : forall s T o, In o (iter_elements s T) <-> exists z, dget (elems s T) z = Some o.
Proof.
  intros. unfold iter_elements. rewrite in_map_iff. split.
  - intros [[k v] [E H]]. simpl in E. subst. exists k. apply sorted_items_In. exact H.
  - intros [z H]. exists (z, o). split; auto. apply sorted_items_In. exact H.
Qed.

Lemma inv_define_elements : forall eb s, Inv eb s -> Inv eb (define_elements s).
Proof.
  intros eb s I. unfold define_elements.
  set (f := fun acc o => match hget s o with
                         | Some (OElement _ _ n sy _) => (n, o) :: (sy, o) :: acc
                         | _ => acc end).
  assert (L1 : forall l acc, (forall o, In o l -> In o (iter_elements s TPub)) ->
             (forall str o, In (str, o) acc -> modattr_ok s str o) ->
             forall str o, In (str, o) (fold_left f l acc) -> modattr_ok s str o).
  { induction l as [|x l IH]; intros acc Hl Hacc str o Hin; simpl in Hin; [auto|].
    eapply IH; [| |exact Hin].
    - intros o' Ho'. apply Hl. right. exact Ho'.
    - intros str' o' H'. unfold f in H'.
      destruct (hget s x) as [[T z n sy io| |]|] eqn:G; auto.
      assert (TT : T = TPub).
      { assert (Hx : In x (iter_elements s TPub)) by (apply Hl; left; reflexivity).
        apply iter_elements_In in Hx. destruct Hx as [z' Hx].
        destruct (inv_el_sound _ _ I _ _ _ Hx) as [n' [sy' [io' G']]]. congruence. }
      subst T. destruct H' as [H'|[H'|H']]; auto.
      + inversion H'; subst. left. exists z, str', sy, io. auto.
      + inversion H'; subst. left. exists z, n, str', io. auto. }
  set (l1 := fold_left f (iter_elements s TPub) []).
  assert (M1 : forall str o, In (str, o) l1 -> modattr_ok s str o).
  { apply L1; auto. intros str o []. }
  set (l2 := match alookup "D" (attrs s TPub) with
             | Some d => ("deuterium", d) :: ("D", d) :: l1 | None => l1 end).
  assert (M2 : forall str o, In (str, o) l2 -> modattr_ok s str o).
  { unfold l2. destruct (alookup "D" (attrs s TPub)) as [d|] eqn:A; auto.
    apply alookup_In in A. apply (inv_attrs _ _ I) in A.
    intros str o [H|[H|H]]; auto; inversion H; subst; right; left; auto. }
  set (l3 := match alookup "T" (attrs s TPub) with
             | Some t => ("tritium", t) :: ("T", t) :: l2 | None => l2 end).
  assert (M3 : forall str o, In (str, o) l3 -> modattr_ok s str o).
  { unfold l3. destruct (alookup "T" (attrs s TPub)) as [d|] eqn:A; auto.
    apply alookup_In in A. apply (inv_attrs _ _ I) in A.
    intros str o [H|[H|H]]; auto; inversion H; subst; right; right; auto. }
  destruct I. constructor; auto.
Qed.

Lemma define_elements_elems : forall s T, elems (define_elements s) T = elems s T.
Proof. intros. destruct T; reflexivity. Qed.

Theorem inv_init : forall eb rows, NoDup (map row_z eb) -> Inv eb (init_state eb rows).
Proof.
  intros eb rows Hnd. unfold init_state.
  destruct (inv_init_table eb empty_state TPub (inv_empty eb) Hnd) as [I1 E1].
  { intro z. apply dget_dempty. }
  destruct (inv_mass_init eb TPub rows _ I1) as [I2 E2].
  pose proof (inv_define_elements eb _ I2) as I3.
  destruct (inv_init_table eb _ TPriv I3 Hnd) as [I4 E4].
  { intro z. rewrite define_elements_elems, E2, E1 by discriminate. apply dget_dempty. }
  destruct (inv_mass_init eb TPriv rows _ I4) as [I5 E5]. exact I5.
Qed.


(* ================================================================== an object's attributes are its key *)
(* [shape s x k]: x is live and its table, number, isotope number and charge, read through the
   delegation chain, are those of k *)
Inductive shape (s : state) (x : oid) : key -> Prop :=
| ShE : forall T z n sy io, hget s x = Some (OElement T z n sy io) -> shape s x (KElement T z)
| ShI : forall e a T z n sy io, hget s x = Some (OIsotope e a) ->
    hget s e = Some (OElement T z n sy io) -> shape s x (KIsotope T z a)
| ShQ : forall b q T z n sy io, hget s x = Some (OIon b q) ->
    hget s b = Some (OElement T z n sy io) -> shape s x (KIon T z q)
| ShIQ : forall b q e a T z n sy io, hget s x = Some (OIon b q) -> hget s b = Some (OIsotope e a) ->
    hget s e = Some (OElement T z n sy io) -> shape s x (KIsoIon T z a q).

Lemma live_shape : forall eb s x ob, Inv eb s -> hget s x = Some ob -> exists k, shape s x k.
Proof.
  intros eb s x ob I G. destruct ob as [T z n sy io|e a|b q].
  - eexists. eapply ShE; eauto.
  - destruct (inv_iso_complete _ _ I _ _ _ G) as [_ [T [z [n [sy [io Ge]]]]]].
    eexists. eapply ShI; eauto.
  - destruct (inv_ion_complete _ _ I _ _ _ G) as [_ [io [Ob _]]]. unfold owner_ions in Ob.
    destruct (hget s b) as [[T z n sy io'|e a|]|] eqn:Gb; try discriminate.
    + eexists. eapply ShQ; eauto.
    + destruct (hget s e) as [[T z n sy io'| |]|] eqn:Ge; try discriminate.
      eexists. eapply ShIQ; eauto.
Qed.

Lemma shape_reduce : forall s x k, shape s x k -> reduce s x = Some k.
Proof.
  intros s x k H. unfold reduce, root_info, elem_info, attr_isotope.
  destruct H as [T z n sy io G|e a T z n sy io G Ge|b q T z n sy io G Gb|b q e a T z n sy io G Gb Ge];
    rewrite G; auto.
  - rewrite Ge. reflexivity.
  - rewrite Gb. reflexivity.
  - rewrite Gb, Ge. reflexivity.
Qed.

Lemma shape_hext : forall s s' x k, hext s s' -> shape s x k -> shape s' x k.
Proof.
  intros s s' x k H Sh.
  destruct Sh; [eapply ShE|eapply ShI|eapply ShQ|eapply ShIQ]; eauto.
Qed.

Lemma reduce_shape : forall eb s x k, Inv eb s -> reduce s x = Some k -> shape s x k.
Proof.
  intros eb s x k I R. destruct (hget s x) as [ob|] eqn:G.
  - destruct (live_shape _ _ _ _ I G) as [k' Sh]. rewrite (shape_reduce _ _ _ Sh) in R.
    inversion R; subst. exact Sh.
  - unfold reduce in R. rewrite G in R. discriminate.
Qed.

Definition key_tab (k : key) : tabid :=
  match k with KElement T _ | KIsotope T _ _ | KIon T _ _ | KIsoIon T _ _ _ => T end.
Definition key_z (k : key) : Z :=
  match k with KElement _ z | KIsotope _ z _ | KIon _ z _ | KIsoIon _ z _ _ => z end.
Definition key_a (k : key) : option Z :=
  match k with KElement _ _ | KIon _ _ _ => None | KIsotope _ _ a | KIsoIon _ _ a _ => Some a end.
Definition key_q (k : key) : Z :=
  match k with KElement _ _ | KIsotope _ _ _ => 0%Z | KIon _ _ q | KIsoIon _ _ _ q => q end.

(* .table, .number, .isotope (None: AttributeError) and .charge of the object are those of its key *)
Lemma shape_attrs : forall s x k, shape s x k ->
  attr_table s x = Some (key_tab k) /\ attr_number s x = Some (key_z k) /\
  attr_isotope s x = key_a k /\ attr_charge s x = Some (key_q k).
Proof.
  intros s x k H. unfold attr_table, attr_number, attr_isotope, attr_charge, root_info, elem_info.
  destruct H as [T z n sy io G|e a T z n sy io G Ge|b q T z n sy io G Gb|b q e a T z n sy io G Gb Ge];
    rewrite G; simpl; try rewrite Gb; try rewrite Ge; auto.
Qed.

(* ================================================================== pickling is the identity *)
Theorem make_reduce : forall eb s x k, Inv eb s -> shape s x k -> make s k = (s, Ok x).
Proof.
  intros eb s x k I Sh.
  destruct Sh as [T z n sy io G|e a T z n sy io G Ge|b q T z n sy io G Gb|b q e a T z n sy io G Gb Ge]; simpl.
  - unfold table_getitem. destruct (inv_el_complete _ _ I _ _ _ _ _ _ G) as [H _]. rewrite H. reflexivity.
  - unfold table_getitem. destruct (inv_el_complete _ _ I _ _ _ _ _ _ Ge) as [H _]. rewrite H.
    unfold elem_getitem. rewrite Ge. destruct (inv_iso_complete _ _ I _ _ _ G) as [H2 _]. rewrite H2. reflexivity.
  - unfold table_getitem. destruct (inv_el_complete _ _ I _ _ _ _ _ _ Gb) as [H _]. rewrite H.
    unfold ionset_getitem. destruct (inv_ion_complete _ _ I _ _ _ G) as [H2 _]. rewrite H2. reflexivity.
  - unfold table_getitem. destruct (inv_el_complete _ _ I _ _ _ _ _ _ Ge) as [H _]. rewrite H.
    unfold elem_getitem. rewrite Ge. destruct (inv_iso_complete _ _ I _ _ _ Gb) as [H2 _]. rewrite H2.
    unfold ionset_getitem. destruct (inv_ion_complete _ _ I _ _ _ G) as [H3 _]. rewrite H3. reflexivity.
Qed.

Theorem pickle_identity : forall eb s x ob, Inv eb s -> hget s x = Some ob -> pickle s x = (s, Ok x).
Proof.
  intros eb s x ob I G. destruct (live_shape _ _ _ _ I G) as [k Sh].
  unfold pickle. rewrite (shape_reduce _ _ _ Sh). eapply make_reduce; eauto.
Qed.

(* two live objects with the same key are the same object *)
Theorem same_key_same_object : forall eb s x y k, Inv eb s -> shape s x k -> shape s y k -> x = y.
Proof.
  intros eb s x y k I Hx Hy.
  pose proof (make_reduce _ _ _ _ I Hx) as Mx. pose proof (make_reduce _ _ _ _ I Hy) as My.
  congruence.
Qed.

(* ================================================================== what each route returns *)
Lemma table_getitem_shape : forall eb s T z o, Inv eb s -> table_getitem s T z = Ok o -> shape s o (KElement T z).
Proof.
  intros eb s T z o I H. unfold table_getitem in H. destruct (dget (elems s T) z) as [o'|] eqn:G; inversion H; subst.
  destruct (inv_el_sound _ _ I _ _ _ G) as [n [sy [io Go]]]. eapply ShE; eauto.
Qed.

Lemma elem_getitem_obj : forall eb s x a o, Inv eb s -> elem_getitem s x a = Ok o ->
  hget s o = Some (OIsotope x a) /\ exists T z n sy io, hget s x = Some (OElement T z n sy io).
Proof.
  intros eb s x a o I H. unfold elem_getitem in H.
  destruct (hget s x) as [[T z n sy io| |]|] eqn:G; try discriminate.
  destruct (get2 (isos s) x a) as [o'|] eqn:G2; inversion H; subst. split.
  - eapply inv_iso_sound; eauto.
  - exists T, z, n, sy, io. reflexivity.
Qed.

Lemma ionset_getitem_obj : forall eb s b q s1 o, Inv eb s -> ionset_getitem s b q = (s1, Ok o) ->
  hget s1 o = Some (OIon b q) /\ get2 (ionsets s1) b q = Some o.
Proof.
  intros eb s b q s1 o I H. unfold ionset_getitem in H.
  destruct (get2 (ionsets s) b q) as [o'|] eqn:G.
  - inversion H; subst. split; auto. eapply inv_ion_sound; eauto.
  - destruct (owner_ions s b) as [io|]; [|discriminate].
    destruct (existsb (Z.eqb q) io); [|discriminate].
    inversion H; subst. split.
    + change (hget (fst (alloc s (OIon b q))) (next s) = Some (OIon b q)).
      rewrite hget_alloc, Pos.eqb_refl. reflexivity.
    + change (get2 (set2 (ionsets s) b q (next s)) b q = Some (next s)). apply get2_set2_same.
Qed.

Lemma add_isotope_obj : forall eb s x a s1 o, Inv eb s -> add_isotope s x a = (s1, Ok o) ->
  exists e T z io, root_info s x = Some (e, T, z, io) /\ hget s1 o = Some (OIsotope e a) /\
                   get2 (isos s1) e a = Some o.
Proof.
  intros eb s x a s1 o I H. unfold add_isotope in H.
  destruct (root_info s x) as [[[[e T] z] io]|] eqn:R; [|discriminate].
  exists e, T, z, io. split; auto.
  destruct (get2 (isos s) e a) as [o'|] eqn:G.
  - inversion H; subst. split; auto. eapply inv_iso_sound; eauto.
  - inversion H; subst. split.
    + change (hget (fst (alloc s (OIsotope e a))) (next s) = Some (OIsotope e a)).
      rewrite hget_alloc, Pos.eqb_refl. reflexivity.
    + change (get2 (set2 (isos s) e a (next s)) e a = Some (next s)). apply get2_set2_same.
Qed.

Lemma by_symbol_obj : forall eb s T str o, Inv eb s -> by_symbol s T str = Ok o -> attr_ok s T str o.
Proof.
  intros eb s T str o I H. unfold by_symbol in H.
  destruct (alookup str (attrs s T)) as [o'|] eqn:A; inversion H; subst.
  apply alookup_In in A. eapply inv_attrs; eauto.
Qed.

Lemma by_name_obj : forall eb s T str o, Inv eb s -> by_name s T str = Ok o ->
  (exists z sy io, hget s o = Some (OElement T z str sy io)) \/
  (str = "deuterium" /\ attr_ok s T "D" o) \/ (str = "tritium" /\ attr_ok s T "T" o).
Proof.
  intros eb s T str o I H. unfold by_name in H.
  destruct (find (elem_name_is s str) (iter_elements s T)) as [o'|] eqn:F.
  - inversion H; subst. apply find_some in F. destruct F as [Hin Hn]. left.
    apply iter_elements_In in Hin. destruct Hin as [z Hz].
    destruct (inv_el_sound _ _ I _ _ _ Hz) as [n [sy [io G]]].
    unfold elem_name_is in Hn. rewrite G in Hn. apply String.eqb_eq in Hn. subst n. eauto.
  - destruct (alookup "D" (attrs s T)) as [d|] eqn:AD; [|discriminate].
    destruct (String.eqb_spec str "deuterium") as [->|N1].
    + inversion H; subst. right. left. split; auto. apply alookup_In in AD. eapply inv_attrs; eauto.
    + destruct (alookup "T" (attrs s T)) as [t|] eqn:AT; [|discriminate].
      destruct (String.eqb_spec str "tritium") as [->|N2]; [|discriminate].
      inversion H; subst. right. right. split; auto. apply alookup_In in AT. eapply inv_attrs; eauto.
Qed.

Lemma by_iso_string_obj : forall eb s T str o, Inv eb s -> by_iso_string s T str = Ok o ->
  exists attr, alookup (snd (parse_iso_string str)) (attrs s T) = Some attr /\
    ((fst (parse_iso_string str) = None /\ o = attr) \/
     (exists a, fst (parse_iso_string str) = Some a /\ hget s o = Some (OIsotope attr a))).
Proof.
  intros eb s T str o I H. unfold by_iso_string in H.
  destruct (parse_iso_string str) as [a sym]. simpl.
  destruct (alookup sym (attrs s T)) as [attr|] eqn:A; [|discriminate]. exists attr. split; auto.
  destruct (hget s attr) as [[T' z n sy io|e a'|]|] eqn:G; try discriminate.
  - destruct a as [a|].
    + destruct (get2 (isos s) attr a) as [o'|] eqn:G2; inversion H; subst. right. exists a. split; auto.
      eapply inv_iso_sound; eauto.
    + inversion H; subst. left. auto.
  - destruct a as [a|]; [discriminate|]. inversion H; subst. left. auto.
Qed.

Lemma mod_attr_obj : forall eb s str o, Inv eb s -> mod_attr s str = Ok o -> modattr_ok s str o.
Proof.
  intros eb s str o I H. unfold mod_attr in H.
  destruct (alookup str (modattrs s)) as [o'|] eqn:A; inversion H; subst.
  apply alookup_In in A. eapply inv_modattrs; eauto.
Qed.

Lemma get_ion_obj : forall eb s x q s1 o, Inv eb s -> get_ion s x q = (s1, Ok o) ->
  exists b, hget s1 o = Some (OIon b q) /\ (b = x \/ exists q', hget s x = Some (OIon b q')).
Proof.
  intros eb s x q s1 o I H. unfold get_ion in H.
  destruct (hget s x) as [[T z n sy io|e a|b q']|] eqn:G; try discriminate.
  - exists x. split; auto. eapply ionset_getitem_obj; eauto.
  - exists x. split; auto. eapply ionset_getitem_obj; eauto.
  - exists b. split; eauto. eapply ionset_getitem_obj; eauto.
Qed.

(* change_table: the atom with the same Z, A and charge in the other table *)
Definition retable (T : tabid) (k : key) : key :=
  match k with
  | KElement _ z => KElement T z
  | KIsotope _ z a => KIsotope T z a
  | KIon _ z q => KIon T z q
  | KIsoIon _ z a q => KIsoIon T z a q
  end.

Lemma change_table_make : forall s x k T, shape s x k -> change_table s x T = make s (retable T k).
Proof.
  intros s x k T Sh. pose proof (shape_attrs _ _ _ Sh) as [_ [An _]].
  unfold change_table. rewrite An.
  destruct Sh as [T' z n sy io G|e a T' z n sy io G Ge|b q T' z n sy io G Gb|b q e a T' z n sy io G Gb Ge];
    rewrite G; simpl; try rewrite Gb; reflexivity.
Qed.

Definition ion_key (kb : key) (q : Z) : key :=
  match kb with
  | KElement T z => KIon T z q
  | KIsotope T z a => KIsoIon T z a q
  | k => k
  end.

Lemma ionset_getitem_shape : forall eb s b q s1 o kb, Inv eb s -> ionset_getitem s b q = (s1, Ok o) ->
  shape s b kb -> shape s1 o (ion_key kb q).
Proof.
  intros eb s b q s1 o kb I H Sb.
  destruct (ionset_getitem_obj _ _ _ _ _ _ I H) as [Go _].
  assert (X : hext s s1).
  { pose proof (ext_ionset_getitem eb s b q I) as E. rewrite H in E. simpl in E. exact (ext_heap _ _ E). }
  pose proof (inv_ionset_getitem eb s b q I) as I1. rewrite H in I1. simpl in I1.
  destruct (inv_ion_complete _ _ I1 _ _ _ Go) as [_ [io [Ob _]]].
  apply (shape_hext _ _ _ _ X) in Sb.
  destruct Sb as [T z n sy io' G| e a T z n sy io' G Ge|b' q' T z n sy io' G Gb|b' q' e a T z n sy io' G Gb Ge]; simpl.
  - eapply ShQ; eauto.
  - eapply ShIQ; eauto.
  - unfold owner_ions in Ob. rewrite G in Ob. discriminate.
  - unfold owner_ions in Ob. rewrite G in Ob. discriminate.
Qed.

Theorem make_shape : forall eb s k s1 o, Inv eb s -> make s k = (s1, Ok o) -> shape s1 o k.
Proof.
  intros eb s k s1 o I H. destruct k as [T z|T z a|T z q|T z a q]; simpl in H.
  - inversion H; subst. eapply table_getitem_shape; eauto.
  - destruct (table_getitem s T z) as [e|] eqn:Te; [|discriminate]. inversion H; subst.
    pose proof (table_getitem_shape _ _ _ _ _ I Te) as Se. inversion Se; subst.
    destruct (elem_getitem_obj _ _ _ _ _ I H2) as [Go _]. eapply ShI; eauto.
  - destruct (table_getitem s T z) as [e|] eqn:Te; [|discriminate].
    pose proof (table_getitem_shape _ _ _ _ _ I Te) as Se.
    exact (ionset_getitem_shape _ _ _ _ _ _ _ I H Se).
  - destruct (table_getitem s T z) as [e|] eqn:Te; [|discriminate].
    destruct (elem_getitem s e a) as [i|] eqn:Ti; [|discriminate].
    pose proof (table_getitem_shape _ _ _ _ _ I Te) as Se. inversion Se; subst.
    destruct (elem_getitem_obj _ _ _ _ _ I Ti) as [Gi _].
    assert (Si : shape s i (KIsotope T z a)) by (eapply ShI; eauto).
    exact (ionset_getitem_shape _ _ _ _ _ _ _ I H Si).
Qed.

Theorem change_table_key : forall eb s x k T s1 o, Inv eb s -> shape s x k ->
  change_table s x T = (s1, Ok o) -> shape s1 o (retable T k).
Proof.
  intros eb s x k T s1 o I Sh H. rewrite (change_table_make _ _ _ _ Sh) in H. eapply make_shape; eauto.
Qed.


(* ================================================================== all routes to a key agree *)
Lemma step_run_inv_ext : forall eb s op ops, Inv eb s ->
  let s1 := fst (step s op) in Inv eb (run s1 ops) /\ ext s (run s1 ops).
Proof.
  intros eb s op ops I s1. pose proof (inv_step eb s op I) as I1. split.
  - apply inv_run. exact I1.
  - eapply ext_trans; [eapply ext_step; eauto|]. apply ext_run with (eb := eb). exact I1.
Qed.

(* however far apart two lookups are in a history, if both succeed and the objects they return
   have the same key, they returned the same object *)
Theorem routes_agree : forall eb s0 op1 s1 o1 ops op2 s3 o2 k,
  Inv eb s0 -> step s0 op1 = (s1, ROk o1) -> step (run s1 ops) op2 = (s3, ROk o2) ->
  shape s1 o1 k -> shape s3 o2 k -> o1 = o2.
Proof.
  intros eb s0 op1 s1 o1 ops op2 s3 o2 k I0 H1 H2 Sh1 Sh2.
  assert (I1 : Inv eb s1). { pose proof (inv_step eb s0 op1 I0) as X. rewrite H1 in X. exact X. }
  assert (I2 : Inv eb (run s1 ops)) by (apply inv_run; exact I1).
  assert (X12 : ext s1 (run s1 ops)) by (apply ext_run with (eb := eb); exact I1).
  assert (I3 : Inv eb s3). { pose proof (inv_step eb _ op2 I2) as X. rewrite H2 in X. exact X. }
  assert (X23 : ext (run s1 ops) s3). { pose proof (ext_step eb _ op2 I2) as X. rewrite H2 in X. exact X. }
  pose proof (ext_trans _ _ _ X12 X23) as X13.
  eapply same_key_same_object; [exact I3| |exact Sh2].
  eapply shape_hext; [|exact Sh1]. exact (ext_heap _ _ X13).
Qed.

Lemma attr_ok_live : forall s T str o, attr_ok s T str o -> exists ob, hget s o = Some ob.
Proof. intros s T str o [[z [n [io G]]]|[e [z [n [io [a [_ [G _]]]]]]]]; eauto. Qed.
Lemma modattr_ok_live : forall s str o, modattr_ok s str o -> exists ob, hget s o = Some ob.
Proof.
  intros s str o [[z [n [sy [io [G _]]]]]|[[_ A]|[_ A]]]; eauto using attr_ok_live.
Qed.

(* every successful single-object operation returns a live object with a key *)
Theorem step_result_live : forall eb s op s1 o, Inv eb s -> step s op = (s1, ROk o) -> exists k, shape s1 o k.
Proof.
  intros eb s op s1 o I H.
  assert (I1 : Inv eb s1). { pose proof (inv_step eb s op I) as X. rewrite H in X. exact X. }
  assert (L : forall r : state * r1, lift2 r = (s1, ROk o) -> r = (s1, Ok o)).
  { intros [s' [o'|e]] E; unfold lift2 in E; simpl in E; inversion E; reflexivity. }
  assert (L1 : forall r : r1, (s, lift r) = (s1, ROk o) -> s1 = s /\ r = Ok o).
  { intros [o'|e] E; simpl in E; inversion E; auto. }
  assert (LV : (exists ob, hget s1 o = Some ob) -> exists k, shape s1 o k).
  { intros [ob G]. eapply live_shape; eauto. }
  destruct op; simpl in H.
  - apply L1 in H. destruct H as [-> H]. eexists. eapply table_getitem_shape; eauto.
  - apply L1 in H. destruct H as [-> H]. apply LV. eapply attr_ok_live. eapply by_symbol_obj; eauto.
  - apply L1 in H. destruct H as [-> H]. apply LV. apply (by_name_obj _ _ _ _ _ I) in H.
    destruct H as [[z [sy [io G]]]|[[_ A]|[_ A]]]; eauto using attr_ok_live.
  - apply L1 in H. destruct H as [-> H]. apply LV.
    destruct (by_iso_string_obj _ _ _ _ _ I H) as [attr [A [[_ ->]|[a [_ G]]]]]; eauto.
    apply alookup_In in A. apply (inv_attrs _ _ I) in A. eapply attr_ok_live; eauto.
  - apply L1 in H. destruct H as [-> H]. apply LV. eapply modattr_ok_live. eapply mod_attr_obj; eauto.
  - apply L1 in H. destruct H as [-> H]. destruct (elem_getitem_obj _ _ _ _ _ I H) as [G _]. eauto.
  - apply L in H. destruct (get_ion_obj _ _ _ _ _ _ I H) as [b [G _]]. eauto.
  - apply L in H. destruct (add_isotope_obj _ _ _ _ _ _ I H) as [e [T [z [io [_ [G _]]]]]]. eauto.
  - apply L in H. unfold pickle in H. destruct (reduce s x) as [k|]; [|discriminate].
    exists k. exact (make_shape _ _ _ _ _ I H).
  - apply L in H. destruct (hget s x) as [ob|] eqn:G.
    + destruct (live_shape _ _ _ _ I G) as [k Sh]. eexists. exact (change_table_key _ _ _ _ _ _ _ I Sh H).
    + unfold change_table in H. rewrite G in H. discriminate.
  - discriminate.
  - destruct (hget s x) as [[| |]|]; discriminate.
Qed.

(* ================================================================== a lookup, once made, returns the same object for ever *)
Lemma table_getitem_ext : forall s s' T z, ext s s' -> table_getitem s' T z = table_getitem s T z.
Proof. intros. unfold table_getitem. rewrite (ext_elems _ _ H). reflexivity. Qed.

Lemma elem_getitem_ext : forall s s' x a o, ext s s' -> elem_getitem s x a = Ok o -> elem_getitem s' x a = Ok o.
Proof.
  intros s s' x a o X H. unfold elem_getitem in *.
  destruct (hget s x) as [[T z n sy io| |]|] eqn:G; try discriminate.
  rewrite (ext_heap _ _ X _ _ G).
  destruct (get2 (isos s) x a) as [o'|] eqn:G2; inversion H; subst.
  rewrite (ext_isos _ _ X _ _ _ G2). reflexivity.
Qed.

Lemma ionset_getitem_hit : forall s b q o, get2 (ionsets s) b q = Some o -> ionset_getitem s b q = (s, Ok o).
Proof. intros. unfold ionset_getitem. rewrite H. reflexivity. Qed.

Lemma ionset_getitem_stable : forall eb s b q s1 o s2, Inv eb s -> ionset_getitem s b q = (s1, Ok o) ->
  ext s1 s2 -> ionset_getitem s2 b q = (s2, Ok o).
Proof.
  intros eb s b q s1 o s2 I H X. destruct (ionset_getitem_obj _ _ _ _ _ _ I H) as [_ G].
  apply ionset_getitem_hit. apply (ext_ions _ _ X). exact G.
Qed.

Lemma shape_ext_change_table : forall eb s x k T s1 o s2, Inv eb s -> shape s x k ->
  make s (retable T k) = (s1, Ok o) -> ext s1 s2 -> make s2 (retable T k) = (s2, Ok o).
Proof.
  intros eb s x k T s1 o s2 I _ H X.
  assert (X01 : ext s s1). { pose proof (ext_make eb s (retable T k) I) as E. rewrite H in E. exact E. }
  pose proof (ext_trans _ _ _ X01 X) as X02.
  destruct k as [T' z|T' z a|T' z q|T' z a q]; simpl in *.
  - inversion H; subst. rewrite (table_getitem_ext _ _ _ _ X). reflexivity.
  - rewrite (table_getitem_ext _ _ _ _ X02). destruct (table_getitem s T z) as [e|]; [|discriminate].
    assert (E1 : s1 = s) by congruence. assert (H2 : elem_getitem s e a = Ok o) by congruence. subst s1.
    rewrite (elem_getitem_ext _ _ _ _ _ X H2). reflexivity.
  - rewrite (table_getitem_ext _ _ _ _ X02). destruct (table_getitem s T z) as [e|]; [|discriminate].
    eapply ionset_getitem_stable; eauto.
  - rewrite (table_getitem_ext _ _ _ _ X02). destruct (table_getitem s T z) as [e|]; [|discriminate].
    destruct (elem_getitem s e a) as [i|] eqn:Ei; [|discriminate].
    rewrite (elem_getitem_ext _ _ _ _ _ X02 Ei). eapply ionset_getitem_stable; eauto.
Qed.

Lemma find_ext_in : forall (A : Type) (f g : A -> bool) l, (forall x, In x l -> f x = g x) -> find f l = find g l.
Proof.
  intros A f g l. induction l as [|x l IH]; intro H; simpl; auto.
  rewrite <- (H x) by (left; reflexivity). destruct (f x); auto. apply IH. intros y Hy. apply H. right. exact Hy.
Qed.

Lemma by_name_ext : forall eb s s' T str, Inv eb s -> ext s s' -> by_name s' T str = by_name s T str.
Proof.
  intros eb s s' T str I X. unfold by_name, iter_elements. rewrite (ext_elems _ _ X), (ext_attrs _ _ X).
  rewrite (find_ext_in _ (elem_name_is s' str) (elem_name_is s str)); auto.
  intros o Ho. apply (proj1 (iter_elements_In s T o)) in Ho. destruct Ho as [z Hz].
  destruct (inv_el_sound _ _ I _ _ _ Hz) as [n [sy [io G]]].
  unfold elem_name_is. rewrite G, (ext_heap _ _ X _ _ G). reflexivity.
Qed.

Lemma by_iso_string_ext : forall eb s s' T str o, Inv eb s -> ext s s' ->
  by_iso_string s T str = Ok o -> by_iso_string s' T str = Ok o.
Proof.
  intros eb s s' T str o I X H. unfold by_iso_string in *. destruct (parse_iso_string str) as [a sym].
  rewrite (ext_attrs _ _ X). destruct (alookup sym (attrs s T)) as [attr|] eqn:A; [|discriminate].
  destruct (hget s attr) as [[T' z n sy io|e a'|]|] eqn:G; try discriminate; rewrite (ext_heap _ _ X _ _ G); auto.
  destruct a as [a|]; auto.
  destruct (get2 (isos s) attr a) as [o'|] eqn:G2; [|discriminate].
  rewrite (ext_isos _ _ X _ _ _ G2). exact H.
Qed.

Lemma root_info_ext : forall s s' x r, ext s s' -> root_info s x = Some r -> root_info s' x = Some r.
Proof. intros. eapply root_info_hext; eauto. exact (ext_heap _ _ H). Qed.

Theorem route_stable_ext : forall eb s op s1 o s2, Inv eb s -> step s op = (s1, ROk o) ->
  Inv eb s2 -> ext s1 s2 -> step s2 op = (s2, ROk o).
Proof.
  intros eb s op s1 o s2 I H I2 X.
  assert (X01 : ext s s1). { pose proof (ext_step eb s op I) as E. rewrite H in E. exact E. }
  pose proof (ext_trans _ _ _ X01 X) as X02.
  assert (L : forall r : state * r1, lift2 r = (s1, ROk o) -> r = (s1, Ok o)).
  { intros [s' [o'|e]] E; unfold lift2 in E; simpl in E; inversion E; reflexivity. }
  assert (L1 : forall r : r1, (s, lift r) = (s1, ROk o) -> s1 = s /\ r = Ok o).
  { intros [o'|e] E; simpl in E; inversion E; auto. }
  destruct op; simpl in H; simpl.
  - apply L1 in H. destruct H as [-> H]. rewrite (table_getitem_ext _ _ _ _ X), H. reflexivity.
  - apply L1 in H. destruct H as [-> H]. unfold by_symbol in *. rewrite (ext_attrs _ _ X).
    destruct (alookup s0 (attrs s T)); inversion H; reflexivity.
  - apply L1 in H. destruct H as [-> H]. rewrite (by_name_ext _ _ _ _ _ I X), H. reflexivity.
  - apply L1 in H. destruct H as [-> H]. rewrite (by_iso_string_ext _ _ _ _ _ _ I X H). reflexivity.
  - apply L1 in H. destruct H as [-> H]. unfold mod_attr in *. rewrite (ext_modattrs _ _ X).
    destruct (alookup s0 (modattrs s)); inversion H; reflexivity.
  - apply L1 in H. destruct H as [-> H]. rewrite (elem_getitem_ext _ _ _ _ _ X H). reflexivity.
  - apply L in H. unfold get_ion in *.
    destruct (hget s x) as [[T z n sy io|e a|b q']|] eqn:G; try discriminate; rewrite (ext_heap _ _ X02 _ _ G);
      unfold lift2; rewrite (ionset_getitem_stable _ _ _ _ _ _ _ I H X); reflexivity.
  - apply L in H. destruct (add_isotope_obj _ _ _ _ _ _ I H) as [e [T [z [io [R [_ G]]]]]].
    unfold add_isotope. rewrite (root_info_ext _ _ _ _ X02 R), (ext_isos _ _ X _ _ _ G). reflexivity.
  - apply L in H. unfold pickle in H. destruct (reduce s x) as [k|] eqn:R; [|discriminate].
    pose proof (reduce_shape _ _ _ _ I R) as Sh. rewrite (make_reduce _ _ _ _ I Sh) in H. inversion H; subst.
    assert (Sh2 : shape s2 o k) by (eapply shape_hext; [exact (ext_heap _ _ X)|exact Sh]).
    unfold pickle. rewrite (shape_reduce _ _ _ Sh2), (make_reduce _ _ _ _ I2 Sh2). reflexivity.
  - apply L in H. destruct (hget s x) as [ob|] eqn:G.
    + destruct (live_shape _ _ _ _ I G) as [k Sh]. rewrite (change_table_make _ _ _ _ Sh) in H.
      assert (Sh2 : shape s2 x k) by (eapply shape_hext; [exact (ext_heap _ _ X02)|exact Sh]).
      rewrite (change_table_make _ _ _ _ Sh2). unfold lift2.
      rewrite (shape_ext_change_table _ _ _ _ _ _ _ _ I Sh H X). reflexivity.
    + unfold change_table in H. rewrite G in H. discriminate.
  - discriminate.
  - destruct (hget s x) as [[| |]|]; discriminate.
Qed.

(* lookup_stable: the second lookup returns the cached object and changes nothing; so does any
   later one *)
Theorem route_stable : forall eb s op s1 o ops, Inv eb s -> step s op = (s1, ROk o) ->
  step (run s1 ops) op = (run s1 ops, ROk o).
Proof.
  intros eb s op s1 o ops I H.
  assert (I1 : Inv eb s1). { pose proof (inv_step eb s op I) as X. rewrite H in X. exact X. }
  apply (route_stable_ext eb s op s1 o (run s1 ops) I H).
  - apply inv_run. exact I1.
  - apply ext_run with (eb := eb). exact I1.
Qed.

Theorem lookup_stable : forall eb s op s1 o, Inv eb s -> step s op = (s1, ROk o) -> step s1 op = (s1, ROk o).
Proof. intros. exact (route_stable eb s op s1 o [] H H0). Qed.

(* ions (and isotopes) are created once: a request allocates at most one object, and every
   later request for the same charge returns that object without allocating *)
Theorem ions_created_once : forall eb s x q s1 o ops, Inv eb s -> step s (GetIon x q) = (s1, ROk o) ->
  (next s1 = next s \/ next s1 = Pos.succ (next s)) /\
  step (run s1 ops) (GetIon x q) = (run s1 ops, ROk o).
Proof.
  intros eb s x q s1 o ops I H. split; [|eapply route_stable; eauto].
  simpl in H. unfold lift2, get_ion in H.
  assert (A : forall b, (next (fst (ionset_getitem s b q)) = next s \/ next (fst (ionset_getitem s b q)) = Pos.succ (next s))).
  { intro b. unfold ionset_getitem. destruct (get2 (ionsets s) b q); auto.
    destruct (owner_ions s b); auto. destruct (existsb (Z.eqb q) l); auto. }
  destruct (hget s x) as [[| |b q']|]; inversion H; subst; auto.
Qed.

Theorem isotopes_created_once : forall eb s x a s1 o ops, Inv eb s -> step s (AddIso x a) = (s1, ROk o) ->
  (next s1 = next s \/ next s1 = Pos.succ (next s)) /\
  step (run s1 ops) (AddIso x a) = (run s1 ops, ROk o).
Proof.
  intros eb s x a s1 o ops I H. split; [|eapply route_stable; eauto].
  simpl in H. unfold lift2, add_isotope in H.
  destruct (root_info s x) as [[[[e T] z] io]|]; [|inversion H; subst; auto].
  destruct (get2 (isos s) e a); inversion H; subst; auto.
Qed.


(* ================================================================== iteration: sorted, each exactly once *)
Definition le_fst (p q : Z * oid) : Prop := (fst p <= fst q)%Z.
Definition lt_fst (p q : Z * oid) : Prop := (fst p < fst q)%Z.

Lemma insert_sorted : forall p l, StronglySorted le_fst l -> StronglySorted le_fst (insert p l).
Proof.
  intros p l. induction l as [|h t IH]; intro S; simpl.
  - constructor; constructor.
  - inversion S as [|? ? St Ft]; subst. destruct (Z.leb_spec (fst p) (fst h)) as [L|L].
    + constructor; auto. constructor; auto.
      eapply Forall_impl; [|exact Ft]. intros a Ha. unfold le_fst in *. lia.
    + constructor; auto.
      eapply Permutation_Forall; [apply insert_perm|]. constructor; auto. unfold le_fst. lia.
Qed.
Lemma isort_sorted : forall l, StronglySorted le_fst (isort l).
Proof. induction l as [|p l IH]; simpl; [constructor|apply insert_sorted; exact IH]. Qed.

Lemma sorted_strict : forall l, StronglySorted le_fst l -> NoDup (map fst l) -> StronglySorted lt_fst l.
Proof.
  induction l as [|h t IH]; intros S N; [constructor|].
  inversion S as [|? ? St Ft]; subst. inversion N as [|? ? Nh Nt]; subst.
  constructor; auto. rewrite Forall_forall in *. intros x Hx. specialize (Ft x Hx).
  unfold le_fst, lt_fst in *. assert (fst h <> fst x).
  { intro E. apply Nh. rewrite E. apply in_map. exact Hx. }
  lia.
Qed.

Lemma NoDupA_eq_key_fst : forall (l : list (positive * oid)),
  NoDupA (@PositiveMap.eq_key oid) l -> NoDup (map fst l).
Proof.
  induction l as [|h t IH]; intro N; simpl; [constructor|].
  inversion N as [|? ? Nh Nt]; subst. constructor; auto.
  intro Hin. apply Nh. apply in_map_iff in Hin. destruct Hin as [x [E Hx]].
  apply InA_alt. exists x. split; auto. hnf. symmetry. exact E.
Qed.

Lemma zunkey_inj : Injective zunkey.
Proof. intros a b E. rewrite <- (zkey_zunkey a), <- (zkey_zunkey b), E. reflexivity. Qed.

Lemma ditems_keys_nodup : forall d, NoDup (map fst (ditems d)).
Proof.
  intro d. unfold ditems. rewrite map_map. simpl.
  rewrite <- (map_map fst zunkey). apply Injective_map_NoDup; [exact zunkey_inj|].
  apply NoDupA_eq_key_fst. apply PositiveMap.elements_3w.
Qed.

Lemma sorted_items_strict : forall d, StronglySorted lt_fst (sorted_items d).
Proof.
  intro d. unfold sorted_items. apply sorted_strict; [apply isort_sorted|].
  eapply Permutation_NoDup; [apply Permutation_map; apply isort_perm|]. apply ditems_keys_nodup.
Qed.

Lemma lt_fst_map : forall l, StronglySorted lt_fst l -> StronglySorted Z.lt (map fst l).
Proof.
  induction l as [|h t IH]; intro S; simpl; [constructor|].
  inversion S as [|? ? St Ft]; subst. constructor; auto.
  rewrite Forall_forall in *. intros x Hx. apply in_map_iff in Hx. destruct Hx as [y [<- Hy]]. exact (Ft y Hy).
Qed.

Lemma strict_nodup : forall l : list Z, StronglySorted Z.lt l -> NoDup l.
Proof.
  induction l as [|h t IH]; intro S; [constructor|]. inversion S as [|? ? St Ft]; subst.
  constructor; auto. intro Hin. rewrite Forall_forall in Ft. specialize (Ft h Hin). lia.
Qed.

Lemma values_nodup : forall l : list (Z * oid), NoDup (map fst l) ->
  (forall k k' o, In (k, o) l -> In (k', o) l -> k = k') -> NoDup (map snd l).
Proof.
  induction l as [|[k o] t IH]; intros N H; simpl; [constructor|].
  inversion N as [|? ? Nh Nt]; subst. constructor.
  - intro Hin. apply in_map_iff in Hin. destruct Hin as [[k' o'] [E Hx]]. simpl in E. subst o'.
    assert (k = k') by (apply (H k k' o); [left; reflexivity|right; exact Hx]). subst k'.
    apply Nh. simpl. change k with (fst (k, o)). apply in_map. exact Hx.
  - apply IH; auto. intros k1 k2 o' H1 H2. apply (H k1 k2 o'); right; assumption.
Qed.

(* list(table): elements by increasing Z, each exactly once, and nothing else *)
Theorem iter_elements_sorted_once : forall eb s T, Inv eb s ->
  let items := sorted_items (elems s T) in
  step s (IterElements T) = (s, RList (map snd items)) /\
  StronglySorted Z.lt (map fst items) /\ NoDup (map snd items) /\
  (forall z o, In (z, o) items <-> exists n sy io, hget s o = Some (OElement T z n sy io)).
Proof.
  intros eb s T I items.
  assert (S : StronglySorted Z.lt (map fst items)) by (apply lt_fst_map, sorted_items_strict).
  assert (M : forall z o, In (z, o) items <-> exists n sy io, hget s o = Some (OElement T z n sy io)).
  { intros z o. unfold items. rewrite sorted_items_In. split.
    - apply (inv_el_sound _ _ I).
    - intros [n [sy [io G]]]. apply (inv_el_complete _ _ I _ _ _ _ _ _ G). }
  split; [reflexivity|]. split; [exact S|]. split; [|exact M].
  apply values_nodup; [apply strict_nodup; exact S|].
  intros k k' o H1 H2. apply M in H1. apply M in H2.
  destruct H1 as [n [sy [io G1]]]. destruct H2 as [n' [sy' [io' G2]]]. congruence.
Qed.

(* list(element): isotopes by increasing A, each exactly once, and nothing else *)
Theorem iter_isotopes_sorted_once : forall eb s x T z n sy io, Inv eb s ->
  hget s x = Some (OElement T z n sy io) ->
  let items := sorted_items (dict_of (isos s) x) in
  step s (IterIsotopes x) = (s, RList (map snd items)) /\
  StronglySorted Z.lt (map fst items) /\ NoDup (map snd items) /\
  (forall a o, In (a, o) items <-> hget s o = Some (OIsotope x a)).
Proof.
  intros eb s x T z n sy io I G items.
  assert (S : StronglySorted Z.lt (map fst items)) by (apply lt_fst_map, sorted_items_strict).
  assert (M : forall a o, In (a, o) items <-> hget s o = Some (OIsotope x a)).
  { intros a o. unfold items. rewrite sorted_items_In. change (dget (dict_of (isos s) x) a) with (get2 (isos s) x a).
    split.
    - apply (inv_iso_sound _ _ I).
    - intro Go. apply (inv_iso_complete _ _ I _ _ _ Go). }
  split; [simpl; rewrite G; reflexivity|]. split; [exact S|]. split; [|exact M].
  apply values_nodup; [apply strict_nodup; exact S|].
  intros k k' o H1 H2. apply M in H1. apply M in H2. congruence.
Qed.

(* Isotope and Ion objects are not iterable *)
Theorem iter_non_element_raises : forall s x ob, hget s x = Some ob ->
  (forall T z n sy io, ob <> OElement T z n sy io) -> step s (IterIsotopes x) = (s, RErr TypeErr).
Proof.
  intros s x ob G N. simpl. rewrite G. destruct ob as [T z n sy io| |]; auto. exfalso. eapply N; eauto.
Qed.

(* ================================================================== invalid keys raise *)
Theorem bad_z_raises : forall eb s T z, Inv eb s ->
  (forall o n sy io, hget s o <> Some (OElement T z n sy io)) -> step s (ByZ T z) = (s, RErr KeyErr).
Proof.
  intros eb s T z I N. simpl. unfold table_getitem. destruct (dget (elems s T) z) as [o|] eqn:G; auto.
  destruct (inv_el_sound _ _ I _ _ _ G) as [n [sy [io H]]]. exfalso. eapply N; eauto.
Qed.

Theorem z_not_in_base_raises : forall eb s T z, Inv eb s -> ~ In z (map row_z eb) -> step s (ByZ T z) = (s, RErr KeyErr).
Proof.
  intros eb s T z I N. eapply bad_z_raises; eauto. intros o n sy io G.
  destruct (inv_el_complete _ _ I _ _ _ _ _ _ G) as [_ [name [i [u [Hin _]]]]].
  apply N. apply in_map_iff. exists (z, name, sy, i, u). auto.
Qed.

Definition row_sym (r : Z * string * string * list Z * list Z) : string := let '(_, _, sy, _, _) := r in sy.
Definition row_name (r : Z * string * string * list Z * list Z) : string := let '(_, n, _, _, _) := r in lower n.

Lemma alookup_attr_none : forall eb s T str, Inv eb s -> ~ In str (map row_sym eb) -> str <> "D" -> str <> "T" ->
  alookup str (attrs s T) = None.
Proof.
  intros eb s T str I N ND NT. destruct (alookup str (attrs s T)) as [o|] eqn:A; auto.
  apply alookup_In in A. apply (inv_attrs _ _ I) in A.
  destruct A as [[z [n [io G]]]|[e [z [n [io [a [[[C _]|[C _]] _]]]]]]]; try congruence.
  destruct (inv_el_complete _ _ I _ _ _ _ _ _ G) as [_ [name [i [u [Hin _]]]]].
  exfalso. apply N. apply in_map_iff. exists (z, name, str, i, u). auto.
Qed.

Theorem unknown_symbol_raises : forall eb s T str, Inv eb s -> ~ In str (map row_sym eb) -> str <> "D" -> str <> "T" ->
  step s (BySymbol T str) = (s, RErr ValueErr).
Proof.
  intros. simpl. unfold by_symbol. rewrite (alookup_attr_none eb); auto.
Qed.

Definition has_DT (s : state) (T : tabid) : Prop :=
  alookup "D" (attrs s T) <> None /\ alookup "T" (attrs s T) <> None.

Theorem unknown_name_raises : forall eb s T str, Inv eb s -> has_DT s T -> ~ In str (map row_name eb) ->
  str <> "deuterium" -> str <> "tritium" -> step s (ByName T str) = (s, RErr ValueErr).
Proof.
  intros eb s T str I [HD HT] N ND NT. simpl. unfold by_name.
  destruct (find (elem_name_is s str) (iter_elements s T)) as [o|] eqn:F.
  - exfalso. apply find_some in F. destruct F as [Hin Hn]. apply iter_elements_In in Hin. destruct Hin as [z Hz].
    destruct (inv_el_sound _ _ I _ _ _ Hz) as [n [sy [io G]]].
    unfold elem_name_is in Hn. rewrite G in Hn. apply String.eqb_eq in Hn. subst n.
    destruct (inv_el_complete _ _ I _ _ _ _ _ _ G) as [_ [name [i [u [Hin [E _]]]]]].
    apply N. apply in_map_iff. exists (z, name, sy, i, u). split; auto.
  - destruct (alookup "D" (attrs s T)); [|congruence].
    destruct (String.eqb_spec str "deuterium"); [congruence|].
    destruct (alookup "T" (attrs s T)); [|congruence].
    destruct (String.eqb_spec str "tritium"); [congruence|]. reflexivity.
Qed.

Theorem unknown_module_attr_raises : forall eb s str, Inv eb s ->
  ~ In str (map row_sym eb) -> ~ In str (map row_name eb) ->
  str <> "D" -> str <> "T" -> str <> "deuterium" -> str <> "tritium" ->
  step s (ModuleAttr str) = (s, RErr AttrErr).
Proof.
  intros eb s str I N1 N2 ND NT Nd Nt. simpl. unfold mod_attr.
  destruct (alookup str (modattrs s)) as [o|] eqn:A; auto. exfalso.
  apply alookup_In in A. apply (inv_modattrs _ _ I) in A.
  destruct A as [[z [n [sy [io [G C]]]]]|[[[C|C] _]|[[C|C] _]]]; try congruence.
  destruct (inv_el_complete _ _ I _ _ _ _ _ _ G) as [_ [name [i [u [Hin [E _]]]]]].
  destruct C as [C|C]; subst str.
  - apply N1. apply in_map_iff. exists (z, name, sy, i, u). auto.
  - apply N2. apply in_map_iff. exists (z, name, sy, i, u). auto.
Qed.

Theorem missing_isotope_raises : forall eb s x a T z n sy io, Inv eb s ->
  hget s x = Some (OElement T z n sy io) -> (forall o, hget s o <> Some (OIsotope x a)) ->
  step s (GetIso x a) = (s, RErr KeyErr).
Proof.
  intros eb s x a T z n sy io I G N. simpl. unfold elem_getitem. rewrite G.
  destruct (get2 (isos s) x a) as [o|] eqn:G2; auto. exfalso. apply (N o). eapply inv_iso_sound; eauto.
Qed.

(* element[A] on an Isotope or an Ion is a TypeError *)
Theorem getitem_non_element_raises : forall s x a ob, hget s x = Some ob ->
  (forall T z n sy io, ob <> OElement T z n sy io) -> step s (GetIso x a) = (s, RErr TypeErr).
Proof.
  intros s x a ob G N. simpl. unfold elem_getitem. rewrite G. destruct ob as [T z n sy io| |]; auto.
  exfalso. eapply N; eauto.
Qed.

(* table.isotope never raises anything but ValueError ... *)
Theorem iso_string_error_kind : forall s T str e, by_iso_string s T str = Er e -> e = ValueErr.
Proof.
  intros s T str e H. unfold by_iso_string in H. destruct (parse_iso_string str) as [a sym].
  destruct (alookup sym (attrs s T)) as [attr|]; [|congruence].
  destruct (hget s attr) as [[T' z n sy io|e' a'|]|]; try congruence.
  - destruct a as [a|]; [|discriminate]. destruct (get2 (isos s) attr a); congruence.
  - destruct a as [a|]; congruence.
Qed.

(* ... and it does raise when an isotope number is given and the element has no such isotope *)
Theorem missing_iso_string_raises : forall eb s T str e a, Inv eb s ->
  fst (parse_iso_string str) = Some a ->
  alookup (snd (parse_iso_string str)) (attrs s T) = Some e ->
  (forall o, hget s o <> Some (OIsotope e a)) ->
  step s (ByIsoString T str) = (s, RErr ValueErr).
Proof.
  intros eb s T str e a I Na A N. simpl. unfold by_iso_string. destruct (parse_iso_string str) as [a' sym].
  simpl in *. subst a'. rewrite A. destruct (hget s e) as [[T' z n sy io|e' a'|]|]; auto.
  destruct (get2 (isos s) e a) as [o|] eqn:G2; auto. exfalso. apply (N o). eapply inv_iso_sound; eauto.
Qed.

Theorem unknown_iso_symbol_raises : forall eb s T str, Inv eb s ->
  ~ In (snd (parse_iso_string str)) (map row_sym eb) ->
  snd (parse_iso_string str) <> "D" -> snd (parse_iso_string str) <> "T" ->
  step s (ByIsoString T str) = (s, RErr ValueErr).
Proof.
  intros eb s T str I N ND NT. simpl. unfold by_iso_string. destruct (parse_iso_string str) as [a sym].
  simpl in *. rewrite (alookup_attr_none eb); auto.
Qed.

(* D and T take no isotope number: '4-D' *)
Theorem numbered_DT_raises : forall eb s T str, Inv eb s -> ~ In "D" (map row_sym eb) -> ~ In "T" (map row_sym eb) ->
  fst (parse_iso_string str) <> None ->
  (snd (parse_iso_string str) = "D" \/ snd (parse_iso_string str) = "T") ->
  step s (ByIsoString T str) = (s, RErr ValueErr).
Proof.
  intros eb s T str I ND NT Na C. simpl. unfold by_iso_string. destruct (parse_iso_string str) as [a sym].
  simpl in *. destruct (alookup sym (attrs s T)) as [o|] eqn:A; auto.
  apply alookup_In in A. apply (inv_attrs _ _ I) in A.
  destruct A as [[z [n [io G]]]|[e [z [n [io [a' [_ [G _]]]]]]]].
  - exfalso. destruct (inv_el_complete _ _ I _ _ _ _ _ _ G) as [_ [name [i [u [Hin _]]]]].
    assert (In sym (map row_sym eb)) by (apply in_map_iff; exists (z, name, sym, i, u); auto).
    destruct C; subst sym; auto.
  - rewrite G. destruct a; [reflexivity|congruence].
Qed.

(* no isotope has a negative (or zero) mass number: kept by every operation that adds none *)
Definition PosIso (s : state) : Prop := forall o e a, hget s o = Some (OIsotope e a) -> (0 < a)%Z.
Definition pos_op (o : op) : Prop := match o with AddIso _ a => (0 < a)%Z | _ => True end.

Lemma posiso_ionset_getitem : forall s b q, PosIso s -> PosIso (fst (ionset_getitem s b q)).
Proof.
  intros s b q P. unfold ionset_getitem. destruct (get2 (ionsets s) b q); auto.
  destruct (owner_ions s b); auto. destruct (existsb (Z.eqb q) l); auto.
  intros o e a G. change (hget (fst (alloc s (OIon b q))) o = Some (OIsotope e a)) in G.
  rewrite hget_alloc in G. destruct (Pos.eqb o (next s)); [discriminate|]. eapply P; eauto.
Qed.
Lemma posiso_add_isotope : forall s x a, PosIso s -> (0 < a)%Z -> PosIso (fst (add_isotope s x a)).
Proof.
  intros s x a P Ha. unfold add_isotope. destruct (root_info s x) as [[[[e T] z] io]|]; auto.
  destruct (get2 (isos s) e a); auto.
  intros o e' a' G. change (hget (fst (alloc s (OIsotope e a))) o = Some (OIsotope e' a')) in G.
  rewrite hget_alloc in G. destruct (Pos.eqb o (next s)); [inversion G; subst; exact Ha|]. eapply P; eauto.
Qed.
Lemma posiso_make : forall s k, PosIso s -> PosIso (fst (make s k)).
Proof.
  intros s k P. destruct k; simpl; auto.
  - destruct (table_getitem s T z); auto.
  - destruct (table_getitem s T z); eauto using posiso_ionset_getitem.
  - destruct (table_getitem s T z); auto. destruct (elem_getitem s o a); eauto using posiso_ionset_getitem.
Qed.
Theorem posiso_step : forall eb s o, Inv eb s -> PosIso s -> pos_op o -> PosIso (fst (step s o)).
Proof.
  intros eb s o I P Hp. destruct o; simpl; auto.
  - unfold get_ion. destruct (hget s x) as [[| |]|]; eauto using posiso_ionset_getitem.
  - eapply posiso_add_isotope; eauto.
  - unfold pickle. destruct (reduce s x); eauto using posiso_make.
  - destruct (hget s x) as [ob|] eqn:G.
    + destruct (live_shape _ _ _ _ I G) as [k Sh]. rewrite (change_table_make _ _ _ _ Sh). eapply posiso_make; eauto.
    + unfold change_table. rewrite G. exact P.
  - destruct (hget s x) as [[| |]|]; auto.
Qed.
Theorem posiso_run : forall eb ops s, Inv eb s -> PosIso s -> Forall pos_op ops -> PosIso (run s ops).
Proof.
  intros eb ops. unfold run. induction ops as [|o r IH]; intros s I P F; simpl; auto.
  inversion F; subst. apply IH; auto using inv_step. eapply posiso_step; eauto.
Qed.

(* 'x-H', '-1-H', '0-H' ... : when the number does not parse the isotope is -1; no element has an
   isotope with a non-positive number *)
Theorem nonpositive_iso_string_raises : forall eb s T str a, Inv eb s -> PosIso s ->
  fst (parse_iso_string str) = Some a -> (a <= 0)%Z -> step s (ByIsoString T str) = (s, RErr ValueErr).
Proof.
  intros eb s T str a I P E Ha. simpl. unfold by_iso_string. destruct (parse_iso_string str) as [a' sym].
  simpl in *. subst a'. destruct (alookup sym (attrs s T)) as [attr|]; auto.
  destruct (hget s attr) as [[T' z n sy io|e' a'|]|]; auto.
  destruct (get2 (isos s) attr a) as [o|] eqn:G2; auto.
  apply (inv_iso_sound _ _ I) in G2. apply P in G2. lia.
Qed.

(* a charge that is not in the element's ion list raises, and no object is created *)
Theorem bad_charge_raises : forall eb s x q ob io, Inv eb s -> hget s x = Some ob ->
  (forall b q', ob <> OIon b q') -> owner_ions s x = Some io -> ~ In q io ->
  step s (GetIon x q) = (s, RErr ValueErr).
Proof.
  intros eb s x q ob io I G N Ob Nq. simpl. unfold get_ion. rewrite G.
  assert (E : ionset_getitem s x q = (s, Er ValueErr)).
  { unfold ionset_getitem. destruct (get2 (ionsets s) x q) as [o|] eqn:G2.
    - exfalso. apply (inv_ion_sound _ _ I) in G2. destruct (inv_ion_complete _ _ I _ _ _ G2) as [_ [io' [Ob' Hin]]].
      congruence.
    - rewrite Ob. destruct (existsb (Z.eqb q) io) eqn:Ex; auto. apply existsb_eqb_In in Ex. contradiction. }
  destruct ob as [| |b q']; try (rewrite E; reflexivity). exfalso. eapply N; eauto.
Qed.

(* every live Element or Isotope has the ion list of its element *)
Theorem owner_ions_live : forall eb s x ob, Inv eb s -> hget s x = Some ob -> (forall b q, ob <> OIon b q) ->
  exists io, owner_ions s x = Some io.
Proof.
  intros eb s x ob I G N. unfold owner_ions. rewrite G. destruct ob as [T z n sy io|e a|b q].
  - eauto.
  - destruct (inv_iso_complete _ _ I _ _ _ G) as [_ [T [z [n [sy [io Ge]]]]]]. rewrite Ge. eauto.
  - exfalso. eapply N; eauto.
Qed.
