(* Proofs/C20FFSound.v — the interval form factors of Model/C20FF.v enclose the real-valued
   formulas, for every coefficient list and every Q:
     s2 = (Q/(4 pi))^2,  core = A exp(-a s2) + B exp(-b s2) + C exp(-c s2) + D,
     <j0>/J = core,  <jn> = s2 core,  f0 = (sum_i a_i exp(-b_i s2)) + c.
   Each step is the correctness lemma of the corresponding Coq-Interval operation. *)
From Coq Require Import ZArith QArith Reals List Lra.
From Interval Require Import Specific_stdz Specific_ops Float_full Interval Xreal.
From PT Require Import Str Dec Loaders Ancillary C20Check C20FF.
Import ListNotations.
Open Scope R_scope.

(* the real number a rational denotes *)
Definition QR (q : Q) : R := IZR (Qnum q) / IZR (Zpos (Qden q)).

Definition s2R (q : Q) : R := Rsqr (QR q / (IZR 4 * PI)).
Definition termR (s2 : R) (A a : Q) : R := QR A * exp (- (QR a * s2)).
Definition ff_coreR (v : list Q) (s2 : R) : R :=
  termR s2 (coef v 0) (coef v 1) + termR s2 (coef v 2) (coef v 3) + termR s2 (coef v 4) (coef v 5) + QR (coef v 6).
Definition ff0R (v : list Q) (q : Q) : R := ff_coreR v (s2R q).
Definition ffnR (v : list Q) (q : Q) : R := s2R q * ff_coreR v (s2R q).
Fixpoint cm_sumR (s2 : R) (ab : list (Q * Q)) : R :=
  match ab with
  | [] => IZR 0
  | (a, b) :: r => termR s2 a b + cm_sumR s2 r
  end.
Definition cmR (f : cmf) (q : Q) : R := cm_sumR (s2R q) (combine (cm_a f) (cm_b f)) + QR (cm_c f).

Notation "x ∈ i" := (contains (I.convert i) (Xreal x)) (at level 70).

Lemma c_add : forall x y a b, a ∈ x -> b ∈ y -> (a + b) ∈ I.add prec x y.
Proof. intros x y a b H1 H2. exact (I.add_correct prec x y (Xreal a) (Xreal b) H1 H2). Qed.
Lemma c_mul : forall x y a b, a ∈ x -> b ∈ y -> (a * b) ∈ I.mul prec x y.
Proof. intros x y a b H1 H2. exact (I.mul_correct prec x y (Xreal a) (Xreal b) H1 H2). Qed.
Lemma c_neg : forall x a, a ∈ x -> (- a) ∈ I.neg x.
Proof. intros x a H. exact (I.neg_correct x (Xreal a) H). Qed.
Lemma c_exp : forall x a, a ∈ x -> exp a ∈ I.exp prec x.
Proof. intros x a H. exact (I.exp_correct prec x (Xreal a) H). Qed.
Lemma c_sqr : forall x a, a ∈ x -> Rsqr a ∈ I.sqr prec x.
Proof. intros x a H. exact (I.sqr_correct prec x (Xreal a) H). Qed.
Lemma c_div : forall x y a b, b <> 0 -> a ∈ x -> b ∈ y -> (a / b) ∈ I.div prec x y.
Proof.
  intros x y a b Hb H1 H2. pose proof (I.div_correct prec x y (Xreal a) (Xreal b) H1 H2) as H.
  cbv beta iota delta [Xbind2 Xdiv'] in H. rewrite (is_zero_false b Hb) in H. exact H.
Qed.
Lemma c_Z : forall z, IZR z ∈ I.fromZ prec z.
Proof. intro z. exact (I.fromZ_correct prec z). Qed.

Lemma IQ_sound : forall q, QR q ∈ IQ q.
Proof.
  intro q. unfold IQ, QR. apply c_div; [|apply c_Z|apply c_Z].
  apply not_0_IZR. discriminate.
Qed.

Lemma four_pi_neq0 : IZR 4 * PI <> 0.
Proof. pose proof PI_RGT_0 as H. lra. Qed.

Lemma s2I_sound : forall q, s2R q ∈ s2I q.
Proof.
  intro q. unfold s2I, s2R. apply c_sqr. apply c_div; [exact four_pi_neq0|apply IQ_sound|].
  apply c_mul; [apply c_Z|exact (I.pi_correct prec)].
Qed.

Lemma termI_sound : forall s2i s2 A a, s2 ∈ s2i -> termR s2 A a ∈ termI s2i A a.
Proof.
  intros s2i s2 A a H. unfold termI, termR. apply c_mul; [apply IQ_sound|].
  apply c_exp. apply c_neg. apply c_mul; [apply IQ_sound|exact H].
Qed.

Lemma ff_coreI_sound : forall v s2i s2, s2 ∈ s2i -> ff_coreR v s2 ∈ ff_coreI v s2i.
Proof.
  intros v s2i s2 H. unfold ff_coreI, ff_coreR.
  repeat apply c_add; try (apply termI_sound; exact H). apply IQ_sound.
Qed.

(* <j0> and J *)
Theorem ff0I_sound : forall v q, ff0R v q ∈ ff0I v q.
Proof. intros v q. unfold ff0I, ff0R. apply ff_coreI_sound. apply s2I_sound. Qed.

(* <j2>, <j4>, <j6> *)
Theorem ffnI_sound : forall v q, ffnR v q ∈ ffnI v q.
Proof.
  intros v q. unfold ffnI, ffnR. apply c_mul; [apply s2I_sound|]. apply ff_coreI_sound. apply s2I_sound.
Qed.

Lemma cm_sumI_sound : forall s2i s2 ab, s2 ∈ s2i -> cm_sumR s2 ab ∈ cm_sumI s2i ab.
Proof.
  intros s2i s2 ab H. induction ab as [|[a b] r IH]; cbn [cm_sumI cm_sumR].
  - exact (c_Z 0).
  - apply c_add; [apply termI_sound; exact H|exact IH].
Qed.

(* Cromer-Mann *)
Theorem cmI_sound : forall f q, cmR f q ∈ cmI f q.
Proof.
  intros f q. unfold cmI, cmR. apply c_add; [|apply IQ_sound]. apply cm_sumI_sound. apply s2I_sound.
Qed.

(* at Q = 0 the real formulas are the rational sums of Model/Ancillary.v *)
Lemma QR_0 : QR 0 = 0.
Proof. unfold QR. simpl. lra. Qed.
Lemma s2R_0 : s2R 0 = 0.
Proof. unfold s2R. rewrite QR_0. unfold Rdiv. rewrite Rmult_0_l. apply Rsqr_0. Qed.
Lemma termR_0 : forall A a, termR 0 A a = QR A.
Proof. intros A a. unfold termR. rewrite Rmult_0_r, Ropp_0, exp_0. lra. Qed.
Theorem ff0R_at_zero : forall v, ff0R v 0 = QR (coef v 0) + QR (coef v 2) + QR (coef v 4) + QR (coef v 6).
Proof. intro v. unfold ff0R, ff_coreR. rewrite s2R_0, !termR_0. reflexivity. Qed.
Theorem ffnR_at_zero : forall v, ffnR v 0 = 0.
Proof. intro v. unfold ffnR. rewrite s2R_0. lra. Qed.

(* the comparison rule: when [near] accepts the double m * 2^e against an enclosure x of the
   real value r, the error r - m 2^e lies in the interval 2^-30 * [-1, 1] * scale *)
Definition dblR (m e : Z) : R := I.F.toR (Specific_ops.Float m e).
Lemma ptI_sound : forall m e, dblR m e ∈ ptI m e.
Proof.
  intros m e. unfold ptI, dblR.
  assert (T : I.F.toX (Specific_ops.Float m e) = Xreal (I.F.toR (Specific_ops.Float m e))).
  { unfold I.F.toR. destruct m; reflexivity. }
  rewrite I.bnd_correct.
  - rewrite T. simpl. split; apply Rle_refl.
  - apply I.valid_lb_real. rewrite T. reflexivity.
  - apply I.valid_ub_real. rewrite T. reflexivity.
Qed.

Theorem near_sound : forall m e x scale r, C20FF.near (Py.PF m e) x scale = true -> r ∈ x ->
  (r - dblR m e) ∈ I.mul prec epsI scale.
Proof.
  intros m e x scale r H Hr. unfold near in H.
  apply (I.subset_correct (I.sub prec x (ptI m e)) _ _ (I.sub_correct prec x (ptI m e) (Xreal r) (Xreal (dblR m e)) Hr (ptI_sound m e)) H).
Qed.
