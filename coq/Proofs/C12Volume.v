(* Proofs/C12Volume.v — the two volume estimates of Formula.volume over the reals: what the
   expressions built by Model/Density.v mean (evalR), defaulting rules, scaling. *)
From Coq Require Import Reals ZArith QArith Qreals String List Lra.
From PT Require Import IExpr Density.
Import ListNotations.
Open Scope R_scope.

Lemma Q2R_ez : forall z, Q2R (inject_Z z) = IZR z.
Proof. intro z. unfold Q2R. simpl. field. Qed.

Lemma Q2R_zero : Q2R 0 = 0.
Proof. unfold Q2R. simpl. lra. Qed.

(* 1e-24 *)
Lemma TEN24_value : Q2R TEN24 = / 10 ^ 24.
Proof.
  unfold Q2R, TEN24. simpl Qnum. simpl Qden. rewrite Rmult_1_l. f_equal.
  rewrite pow_IZR. f_equal.
Qed.

(* ---------------------------------------------------------------- cell volume *)
Definition deg (x : Q) : R := Q2R x * (PI / 180).

(* the documented expression *)
Definition lattice_volume (a b c ca cb cg : R) : R :=
  a * b * c * sqrt (1 - ca * ca - cb * cb - cg * cg + 2 * ca * cb * cg).

Lemma evalR_cos_deg : forall env x, evalR env (cos_deg x) = cos (deg x).
Proof. intros. unfold cos_deg, deg. simpl. rewrite Q2R_ez. reflexivity. Qed.

Lemma evalR_radicand : forall env ca cb cg,
  evalR env (cell_radicand ca cb cg) =
  1 - evalR env ca * evalR env ca - evalR env cb * evalR env cb - evalR env cg * evalR env cg
  + 2 * evalR env ca * evalR env cb * evalR env cg.
Proof. intros. unfold cell_radicand. simpl. rewrite !Q2R_ez. reflexivity. Qed.

(* all six parameters given: V = a b c sqrt(1 - cos^2 alpha - cos^2 beta - cos^2 gamma
   + 2 cos alpha cos beta cos gamma), angles in degrees, times 1e-24 *)
Theorem cell_volume_formula : forall env a b c alpha beta gamma,
  evalR env (cell_volume a (Some b) (Some c) (Some alpha) (Some beta) (Some gamma)) =
  lattice_volume (Q2R a) (Q2R b) (Q2R c) (cos (deg alpha)) (cos (deg beta)) (cos (deg gamma)) * Q2R TEN24.
Proof.
  intros. unfold cell_volume, lattice_volume, dflt.
  cbn [evalR]. rewrite evalR_radicand, !evalR_cos_deg. reflexivity.
Qed.

(* the defaulting rules of util.cell_volume: b, c default to a; the cosine of alpha defaults
   to 0 (90 degrees), those of beta and gamma to that of alpha *)
Definition cos_or (o : option Q) (d : R) : R := match o with Some x => cos (deg x) | None => d end.

Theorem cell_volume_defaults : forall env a b c alpha beta gamma,
  evalR env (cell_volume a b c alpha beta gamma) =
  let ca := cos_or alpha 0 in
  lattice_volume (Q2R a) (Q2R (dflt b a)) (Q2R (dflt c a)) ca (cos_or beta ca) (cos_or gamma ca) * Q2R TEN24.
Proof.
  intros. unfold cell_volume, lattice_volume. cbn [evalR]. rewrite evalR_radicand.
  assert (Ha : evalR env (match alpha with Some x => cos_deg x | None => ECst 0 end) = cos_or alpha 0).
  { destruct alpha; simpl cos_or; [apply evalR_cos_deg|simpl; apply Q2R_zero]. }
  assert (Hb : evalR env (match beta with Some x => cos_deg x
                          | None => match alpha with Some x => cos_deg x | None => ECst 0 end end)
               = cos_or beta (cos_or alpha 0)).
  { destruct beta; simpl cos_or; [apply evalR_cos_deg|exact Ha]. }
  assert (Hg : evalR env (match gamma with Some x => cos_deg x
                          | None => match alpha with Some x => cos_deg x | None => ECst 0 end end)
               = cos_or gamma (cos_or alpha 0)).
  { destruct gamma; simpl cos_or; [apply evalR_cos_deg|exact Ha]. }
  rewrite Ha, Hb, Hg. reflexivity.
Qed.

(* only a given: a cube *)
Theorem cell_volume_cubic : forall env a,
  evalR env (cell_volume a None None None None None) = Q2R a * Q2R a * Q2R a * Q2R TEN24.
Proof.
  intros. rewrite cell_volume_defaults. simpl. unfold lattice_volume.
  replace (1 - 0 * 0 - 0 * 0 - 0 * 0 + 2 * 0 * 0 * 0) with 1 by ring. rewrite sqrt_1. ring.
Qed.

(* right angles given explicitly: the box a b c *)
Theorem cell_volume_orthorhombic : forall env a b c,
  evalR env (cell_volume a (Some b) (Some c) (Some 90%Q) None None) = Q2R a * Q2R b * Q2R c * Q2R TEN24.
Proof.
  intros. rewrite cell_volume_defaults. simpl. unfold lattice_volume.
  assert (H : cos (deg 90) = 0).
  { unfold deg. replace (Q2R 90 * (PI / 180)) with (PI / 2); [apply cos_PI2|].
    unfold Q2R. simpl. field. }
  rewrite H. replace (1 - 0 * 0 - 0 * 0 - 0 * 0 + 2 * 0 * 0 * 0) with 1 by ring. rewrite sqrt_1. ring.
Qed.

(* the lattice volume is homogeneous in the spacings *)
Theorem cell_volume_scales : forall env k a b c alpha beta gamma,
  evalR env (cell_volume (k * a) (Some b) (Some c) alpha beta gamma) =
  Q2R k * evalR env (cell_volume a (Some b) (Some c) alpha beta gamma).
Proof.
  intros. rewrite !cell_volume_defaults. simpl. unfold lattice_volume. rewrite Q2R_mult. ring.
Qed.

(* ---------------------------------------------------------------- packing *)
Fixpoint Rsum (l : list R) : R := match l with [] => 0 | x :: r => x + Rsum r end.

Lemma evalR_esum : forall env l, evalR env (esum l) = Rsum (map (evalR env) l).
Proof.
  intros env l. induction l as [|x r IH].
  - simpl. apply Q2R_zero.
  - destruct r as [|y r'].
    + simpl. ring.
    + change (esum (x :: y :: r')) with (EAdd x (esum (y :: r'))). cbn [evalR]. rewrite IH. reflexivity.
Qed.

(* summed covalent-sphere volume without the 4 pi / 3: sum of r^3 * count *)
Definition cube_sum (rs : list (Q * Q)) : R :=
  Rsum (map (fun rc => Q2R (fst rc) * Q2R (fst rc) * Q2R (fst rc) * Q2R (snd rc)) rs).

Lemma evalR_sphere_sum : forall env rs, evalR env (sphere_sum rs) = cube_sum rs.
Proof.
  intros env rs. unfold sphere_sum, cube_sum. rewrite evalR_esum, map_map. f_equal.
  apply map_ext. intros [r c]. simpl. ring.
Qed.

(* V = (4 pi / 3) * sum(r^3 * count) / packing_factor * 1e-24 *)
Theorem volume_packing_formula : forall env rs pf,
  evalR env (volume_packing rs pf) = cube_sum rs * (4 * PI / 3) / evalR env pf * Q2R TEN24.
Proof.
  intros. unfold volume_packing, ez. cbn [evalR]. rewrite evalR_sphere_sum, !Q2R_ez. reflexivity.
Qed.

(* the documented packing factors *)
Theorem packing_factor_values : forall env,
  evalR env pf_cubic = PI / 6 /\ evalR env pf_bcc = PI * sqrt 3 / 8 /\
  evalR env pf_hcp = PI / sqrt 18 /\ evalR env pf_fcc = PI / sqrt 18 /\
  evalR env pf_diamond = PI * sqrt 3 / 16.
Proof. intro env. unfold pf_cubic, pf_bcc, pf_hcp, pf_fcc, pf_diamond. simpl. rewrite !Q2R_ez. repeat split. Qed.

(* names are looked up case-insensitively; the default is hcp *)
Theorem packing_names :
  packing_factor_named "cubic"%string = Some pf_cubic /\ packing_factor_named "BCC"%string = Some pf_bcc /\
  packing_factor_named "Hcp"%string = Some pf_hcp /\ packing_factor_named "fcc"%string = Some pf_fcc /\
  packing_factor_named "Diamond"%string = Some pf_diamond /\ packing_factor_named "sc"%string = None.
Proof. repeat split. Qed.

(* multiplying every count by k multiplies the volume by k *)
Definition scale_counts (k : Q) (rs : list (Q * Q)) : list (Q * Q) :=
  map (fun rc => (fst rc, (k * snd rc)%Q)) rs.

Lemma cube_sum_scale : forall k rs, cube_sum (scale_counts k rs) = Q2R k * cube_sum rs.
Proof.
  intros k rs. unfold cube_sum, scale_counts. induction rs as [|[r c] l IH]; simpl.
  - ring.
  - rewrite Q2R_mult. simpl in IH. rewrite IH. ring.
Qed.

Theorem volume_scales_with_counts : forall env k rs pf,
  evalR env (volume_packing (scale_counts k rs) pf) = Q2R k * evalR env (volume_packing rs pf).
Proof.
  intros. rewrite !volume_packing_formula, cube_sum_scale. unfold Rdiv. ring.
Qed.

(* the volume of a formula made of two parts is the sum of the volumes of the parts *)
Theorem volume_additive : forall env rs1 rs2 pf,
  evalR env (volume_packing (rs1 ++ rs2) pf) =
  evalR env (volume_packing rs1 pf) + evalR env (volume_packing rs2 pf).
Proof.
  intros. rewrite !volume_packing_formula. unfold cube_sum. rewrite map_app.
  assert (H : forall l m, Rsum (l ++ m) = Rsum l + Rsum m).
  { induction l as [|x r IH]; intro m; simpl; [ring|rewrite IH; ring]. }
  rewrite H. unfold Rdiv. ring.
Qed.

(* a smaller packing factor means a larger volume: V * pf is the same for every pf *)
Theorem volume_times_packing : forall env rs pf, evalR env pf <> 0 ->
  evalR env (volume_packing rs pf) * evalR env pf = cube_sum rs * (4 * PI / 3) * Q2R TEN24.
Proof. intros env rs pf H. rewrite volume_packing_formula. field. exact H. Qed.
