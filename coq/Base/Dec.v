(* Base/Dec.v — decimal text -> exact rational, binary64 rounding of a rational,
   dyadic (Python float) values.  Definitions only. *)
From Coq Require Import ZArith QArith Qabs String Ascii List Bool.
From PT Require Import Str.
Import ListNotations.
Open Scope Z_scope.

(* value, number of digits, rest *)
Fixpoint eat_digits (s : string) (acc n : Z) : Z * Z * string :=
  match s with
  | String a r => if is_digit a then eat_digits r (acc * 10 + digit_val a) (n + 1) else (acc, n, s)
  | EmptyString => (acc, n, s)
  end.

Definition eat_sign (s : string) : bool * string :=
  match s with
  | String "-"%char r => (true, r)
  | String "+"%char r => (false, r)
  | _ => (false, s)
  end.

(* mantissa * 10^exponent *)
Definition parse_dec_me (s0 : string) : option (Z * Z) :=
  let s := strip s0 in
  let '(neg, s1) := eat_sign s in
  let '(ip, n1, s2) := eat_digits s1 0 0 in
  let '(m, n2, s3) :=
    match s2 with
    | String "."%char r => eat_digits r ip 0
    | _ => (ip, 0, s2)
    end in
  if (n1 + n2 =? 0) then None else
  let sm := if neg then - m else m in
  match s3 with
  | EmptyString => Some (sm, - n2)
  | String c r =>
      if (Ascii.eqb c "e" || Ascii.eqb c "E")%bool then
        let '(eneg, r1) := eat_sign r in
        let '(ev, en, r2) := eat_digits r1 0 0 in
        if (en =? 0) then None else
        match r2 with
        | EmptyString => Some (sm, (if eneg then - ev else ev) - n2)
        | _ => None
        end
      else None
  end.

Definition me_to_Q (m e : Z) : Q :=
  if 0 <=? e then Qmake (m * 10 ^ e) 1
  else Qred (Qmake m (Z.to_pos (10 ^ (- e)))).

Definition parse_dec (s : string) : option Q :=
  match parse_dec_me s with
  | Some (m, e) => Some (me_to_Q m e)
  | None => None
  end.

(* Python int(s) for plain digit strings with optional sign and surrounding blanks *)
Definition parse_int (s0 : string) : option Z :=
  let s := strip s0 in
  let '(neg, s1) := eat_sign s in
  let '(v, n, r) := eat_digits s1 0 0 in
  if (n =? 0) then None else
  match r with EmptyString => Some (if neg then - v else v) | _ => None end.

(* m * 2^e, how the harness transmits a Python float exactly *)
Definition D2Q (m e : Z) : Q :=
  if 0 <=? e then Qmake (m * 2 ^ e) 1
  else Qred (Qmake m (Z.to_pos (2 ^ (- e)))).

(* nearest binary64 (round-half-even) of a rational; exact on the normal and
   subnormal range, overflow not modelled (returns the rounded unbounded value) *)
Definition round64 (q : Q) : Q :=
  let n := Qnum q in
  let d := Zpos (Qden q) in
  if n =? 0 then 0%Q else
  let a := Z.abs n in
  let e0 := Z.log2 a - Z.log2 d in
  let k0 := 52 - e0 in
  let quo k := if 0 <=? k then (a * 2 ^ k) / d else a / (d * 2 ^ (- k)) in
  let q0 := quo k0 in
  let k1 := if q0 <? 2 ^ 52 then k0 + 1 else if 2 ^ 53 <=? q0 then k0 - 1 else k0 in
  let k := Z.min k1 1074 in
  let num := if 0 <=? k then a * 2 ^ k else a in
  let den := if 0 <=? k then d else d * 2 ^ (- k) in
  let m := num / den in
  let r := num mod den in
  let m' := match Z.compare (2 * r) den with
            | Gt => m + 1
            | Eq => if Z.even m then m else m + 1
            | Lt => m
            end in
  let sm := if n <? 0 then - m' else m' in
  D2Q sm (- k).

Definition Qmax (a b : Q) : Q := if Qle_bool a b then b else a.

(* |x - y| <= 2^tp * scale *)
Definition Qclose (tp : Z) (scale x y : Q) : bool :=
  Qle_bool (Qabs (x - y)) (Qabs scale * D2Q 1 tp).

(* relative closeness with the larger magnitude as scale *)
Definition Qrel (tp : Z) (x y : Q) : bool := Qclose tp (Qmax (Qabs x) (Qabs y)) x y.

Definition Qeqb (x y : Q) : bool := Qeq_bool x y.
