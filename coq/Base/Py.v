(* Base/Py.v — canonical form of implementation observables sent by the harness. *)
From Coq Require Import ZArith QArith String List Bool.
From PT Require Import Str Dec.
Import ListNotations.

Inductive err := ParseErr | ValueErr | KeyErr | TypeErr | AttrErr | RuntimeErr
               | ZeroDivErr | AssertErr | IndexErr | RecursionErr | OtherErr.

Definition err_eqb (a b : err) : bool :=
  match a, b with
  | ParseErr, ParseErr | ValueErr, ValueErr | KeyErr, KeyErr | TypeErr, TypeErr
  | AttrErr, AttrErr | RuntimeErr, RuntimeErr | ZeroDivErr, ZeroDivErr
  | AssertErr, AssertErr | IndexErr, IndexErr | RecursionErr, RecursionErr
  | OtherErr, OtherErr => true
  | _, _ => false
  end.

Inductive pyval :=
| PNone
| PF (m e : Z)          (* a float, exactly m * 2^e *)
| PNaN
| PInf (neg : bool)
| PI (z : Z)            (* a Python int *)
| PS (s : string)
| PB (b : bool)
| PE (e : err)
| PL (l : list pyval).

(* numeric value of a float or int *)
Definition py_Q (v : pyval) : option Q :=
  match v with
  | PF m e => Some (D2Q m e)
  | PI z => Some (inject_Z z)
  | _ => None
  end.

(* summary line: "OK <n> FAIL <k>: i j ..." (first 20 failing indices) *)
Fixpoint count_true (l : list bool) : N :=
  match l with [] => 0 | b :: r => ((if b then 1 else 0) + count_true r)%N end.
Fixpoint fail_idx (l : list bool) (i : N) : list N :=
  match l with
  | [] => []
  | b :: r => if b then fail_idx r (i + 1)%N else i :: fail_idx r (i + 1)%N
  end.
Definition summary (l : list bool) : string :=
  let f := fail_idx l 0%N in
  ("OK " ++ N_to_string (count_true l) ++ " FAIL " ++ N_to_string (N.of_nat (length f)) ++ ":"
   ++ String.concat "" (map (fun i => " " ++ N_to_string i) (firstn 20 f)))%string.
