From Coq Require Import ZArith QArith Ascii String List.
From PT Require Import Str Dec Py.
Import ListNotations.
Open Scope string_scope.
Eval vm_compute in split_char ","%char "1-H-3,3.0160492813200(800),,1.00794(7)".
Eval vm_compute in split_ws "  12	C   carbon  12.011(2)  [a,b] ".
Eval vm_compute in (strip "  ab c  ", strip_ends "[1,2]", N_to_string 12345, Z_to_string (-70)).
Eval vm_compute in (parse_dec "1.00794", parse_dec "-.5e-3", parse_dec "1.", parse_dec ".", parse_dec "1e", parse_dec " 23 ").
(* 0.1 -> 0x1.999999999999ap-4 = 3602879701896397 * 2^-55 *)
Example r64_01 : Qeq_bool (round64 (1#10)) (D2Q 3602879701896397 (-55)) = true. Proof. vm_compute. reflexivity. Qed.
(* 1.00794 -> float.hex 0x1.02085b185a53fp+0 *)
Eval vm_compute in round64 (100794#100000).
Example r64_third : Qeq_bool (round64 (1#3)) (D2Q 6004799503160661 (-54)) = true. Proof. vm_compute. reflexivity. Qed.
Example r64_big : Qeq_bool (round64 (602214179000000000000000#1)) (D2Q 8973690554499626 26) = true. Proof. vm_compute. reflexivity. Qed.
Eval vm_compute in summary [true; false; true; false].
