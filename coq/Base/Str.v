(* Base/Str.v — Python-shaped string primitives used by the loader and parser models.
   No proofs here; lemmas are in Proofs/. *)
From Coq Require Import Ascii String List Bool NArith ZArith.
Import ListNotations.
Open Scope string_scope.

Definition ascii_eqb := Ascii.eqb.

Definition is_ws (c : ascii) : bool :=
  let n := N_of_ascii c in
  (N.eqb n 32 || N.eqb n 9 || N.eqb n 10 || N.eqb n 13 || N.eqb n 11 || N.eqb n 12)%bool.

Definition is_digit (c : ascii) : bool :=
  let n := N_of_ascii c in (N.leb 48 n && N.leb n 57)%bool.

Definition is_upper (c : ascii) : bool :=
  let n := N_of_ascii c in (N.leb 65 n && N.leb n 90)%bool.

Definition is_lower (c : ascii) : bool :=
  let n := N_of_ascii c in (N.leb 97 n && N.leb n 122)%bool.

Definition is_alpha (c : ascii) : bool := (is_upper c || is_lower c)%bool.

Definition digit_val (c : ascii) : Z := (Z.of_N (N_of_ascii c) - 48)%Z.

(* s.split(c): always at least one part *)
Fixpoint split_char_aux (c : ascii) (s : string) (cur : string -> string) : list string :=
  match s with
  | EmptyString => [cur EmptyString]
  | String a r =>
      if ascii_eqb a c then cur EmptyString :: split_char_aux c r (fun x => x)
      else split_char_aux c r (fun x => cur (String a x))
  end.
Definition split_char (c : ascii) (s : string) : list string := split_char_aux c s (fun x => x).

(* s.split(): split on runs of whitespace, no empty parts *)
Fixpoint split_ws_aux (s : string) (cur : option (string -> string)) : list string :=
  match s with
  | EmptyString => match cur with Some f => [f EmptyString] | None => [] end
  | String a r =>
      if is_ws a then
        match cur with
        | Some f => f EmptyString :: split_ws_aux r None
        | None => split_ws_aux r None
        end
      else
        match cur with
        | Some f => split_ws_aux r (Some (fun x => f (String a x)))
        | None => split_ws_aux r (Some (fun x => String a x))
        end
  end.
Definition split_ws (s : string) : list string := split_ws_aux s None.

Fixpoint lstrip (s : string) : string :=
  match s with
  | String a r => if is_ws a then lstrip r else s
  | EmptyString => EmptyString
  end.

Fixpoint srev_aux (s acc : string) : string :=
  match s with
  | EmptyString => acc
  | String a r => srev_aux r (String a acc)
  end.
Definition srev (s : string) : string := srev_aux s EmptyString.

Definition rstrip (s : string) : string := srev (lstrip (srev s)).
Definition strip (s : string) : string := rstrip (lstrip s).

Fixpoint startswith (p s : string) : bool :=
  match p, s with
  | EmptyString, _ => true
  | String a p', String b s' => (ascii_eqb a b && startswith p' s')%bool
  | _, EmptyString => false
  end.

Fixpoint drop (n : nat) (s : string) : string :=
  match n, s with
  | O, _ => s
  | S n', String _ r => drop n' r
  | S _, EmptyString => EmptyString
  end.

Fixpoint take (n : nat) (s : string) : string :=
  match n, s with
  | O, _ => EmptyString
  | S n', String a r => String a (take n' r)
  | S _, EmptyString => EmptyString
  end.

Fixpoint contains_char (c : ascii) (s : string) : bool :=
  match s with
  | EmptyString => false
  | String a r => (ascii_eqb a c || contains_char c r)%bool
  end.

Fixpoint all_chars (p : ascii -> bool) (s : string) : bool :=
  match s with
  | EmptyString => true
  | String a r => (p a && all_chars p r)%bool
  end.

(* s[1:-1] *)
Definition strip_ends (s : string) : string :=
  match s with
  | EmptyString => EmptyString
  | String _ r => srev (match srev r with String _ x => x | EmptyString => EmptyString end)
  end.

Fixpoint repeat_char (c : ascii) (n : nat) : string :=
  match n with O => EmptyString | S k => String c (repeat_char c k) end.

(* decimal printing of N / Z, used for one-line summaries *)
Fixpoint N_digits (fuel : nat) (n : N) (acc : string) : string :=
  match fuel with
  | O => acc
  | S f =>
      let d := N.modulo n 10 in
      let acc' := String (ascii_of_N (48 + d)) acc in
      if N.ltb n 10 then acc' else N_digits f (N.div n 10) acc'
  end.
Definition N_to_string (n : N) : string := N_digits (S (N.to_nat (N.log2 n))) n EmptyString.
Definition Z_to_string (z : Z) : string :=
  match z with
  | Z0 => "0"
  | Zpos p => N_to_string (Npos p)
  | Zneg p => String "-" (N_to_string (Npos p))
  end.

Definition nat_of_digits (s : string) : option N :=
  if (all_chars is_digit s && negb (String.eqb s ""))%bool then
    Some ((fix go (s : string) (acc : N) : N :=
             match s with
             | EmptyString => acc
             | String a r => go r (acc * 10 + N_of_ascii a - 48)%N
             end) s 0%N)
  else None.

Fixpoint join (sep : string) (l : list string) : string :=
  match l with
  | [] => ""
  | [x] => x
  | x :: r => x ++ sep ++ join sep r
  end.
