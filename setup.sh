#!/bin/sh
# Build the whole Coq development from /repo's current working tree (full .vo build).
cd "$(dirname "$0")" || exit 2
/venv/bin/python - <<'PY'
import sys
sys.path.insert(0, "tools")
import vlib
ok, msg = vlib.regen()
print("regen:", ok, msg)
vlib.coq_project()
import json
claimed = [c["property_id"] for c in json.load(open("MANIFEST.json"))["checks"]]
import os
targets = ["Props/%s.vo" % p for p in claimed]
targets += ["Model/%sCheck.vo" % p for p in claimed if os.path.exists("coq/Model/%sCheck.v" % p)]
ok, log = vlib.make(targets, timeout=3000)
open("setup.log", "w").write(log)
import re
errs = [m.group(0) for m in re.finditer(r'File "[^"]+", line \d+[^\n]*\n(?:[^\n]*\n){0,8}', log) if "Error" in m.group(0)]
print("\n".join(errs[:5]) if errs else log[-1500:])
print("setup:", "ok" if ok else "FAILED (see setup.log)")
sys.exit(0 if ok else 1)
PY
