"""./check driver: dispatches to tools/props/<id>.py"""
import importlib, os, sys, traceback
sys.path.insert(0, os.path.dirname(os.path.abspath(__file__)))
import vlib


def main(argv):
    if len(argv) < 2:
        print("usage: check Cxx quick|thorough | check Cxx --replay <path>")
        return 2
    pid = argv[1]
    mode = argv[2] if len(argv) > 2 else os.environ.get("VERIF_TIER", "quick")
    seed = int(os.environ.get("VERIF_SEED", "0"))
    try:
        mod = importlib.import_module("props." + pid.lower())
    except ImportError as e:
        print("no check for %s: %s" % (pid, e))
        return 2
    if mode == "--replay":
        return mod.replay(argv[3])
    if mode not in ("quick", "thorough"):
        print("unknown tier %r" % mode)
        return 2
    ctx = vlib.Ctx(pid, mode, seed)
    try:
        mod.run(ctx)
    except Exception as e:  # machinery failure: the property is no longer shown to hold
        traceback.print_exc()
        ctx.report("%s:machinery" % pid, "check machinery failed: %s: %s" % (type(e).__name__, e),
                   dict(obligation="machinery", error=traceback.format_exc()[-2000:]), found_input=False)
    return ctx.finish()


if __name__ == "__main__":
    sys.exit(main(sys.argv))
