"""./check driver: dispatches to tools/props/<id>.py"""
import importlib, os, sys, traceback
sys.path.insert(0, os.path.dirname(os.path.abspath(__file__)))
import vlib


def main(argv):
    if len(argv) < 2:
        print("usage: check Cxx quick|thorough | check Cxx --replay <path>")
        return 2
    pid = argv[1]
    os.makedirs(os.path.join(os.path.dirname(os.path.dirname(os.path.abspath(__file__))), "coq", "Run"), exist_ok=True)
    mode = argv[2] if len(argv) > 2 else os.environ.get("VERIF_TIER", "quick")
    seed = int(os.environ.get("VERIF_SEED", "0"))
    try:
        mod = importlib.import_module("props." + pid.lower())
    except ImportError as e:
        print("no check for %s: %s" % (pid, e))
        return 2
    if mode == "--replay":
        return mod.replay(argv[3])
    if mode not in ("quick", "thorough"):
        print("unknown tier %r" % mode)
        return 2
    ctx = vlib.Ctx(pid, mode, seed)
    try:
        mod.run(ctx)
    except Exception as e:  # machinery failure: the property is no longer shown to hold
        traceback.print_exc()
        ctx.report("%s:machinery" % pid, "check machinery failed: %s: %s" % (type(e).__name__, e),
                   dict(obligation="machinery", error=traceback.format_exc()[-2000:]), found_input=False)
    if mode == "thorough" and not ctx.violations and os.environ.get("VERIF_COQCHK", "1") != "0" \
            and "coqchk" not in ctx.cov:
        # independent re-check of the compiled statements and everything they depend on
        try:
            rc, out = vlib.sh(["timeout", "1800", "coqchk", "-silent", "-o", "-Q", ".", "PT", "PT.Props." + pid],
                              cwd=vlib.COQ, timeout=1900)
            import re
            m = re.search(r"\* Axioms:(.*?)\n\s*\n\* Constants", out, flags=re.S)
            ctx.cov["coqchk"] = dict(rc=rc, axioms=" ".join(m.group(1).split()) if m else out[-300:])
            if rc in (124, 137, -9) or (rc != 0 and not out.strip()):
                # the independent checker re-runs every vm_compute sweep with its own (slower) reduction: running
                # out of time or memory is a resource limit of this machine, not a rejection of a proof
                ctx.cov["coqchk"]["completed"] = False
                ctx.note("coqchk did not complete within 1800 s (rc=%s); the coqc build and Print Assumptions stand" % rc)
            elif rc != 0:
                ctx.report("%s:coqchk" % pid, "coqchk rejects Props/%s.vo: %s" % (pid, out[-400:]),
                           dict(obligation="coqchk"), found_input=False)
        except Exception as e:
            ctx.note("coqchk did not run: %s" % e)
    return ctx.finish()


if __name__ == "__main__":
    sys.exit(main(sys.argv))
