"""C09, calculators as the very first touch: each calculator of the library, called in a fresh interpreter before
anything else has touched the lazily loaded tables, returns what it returns after every table has been loaded the
canonical way (plain attribute reads).  (The histories of c09.py model a fixed list of calculators; this stream is
breadth over entry points, including isotope- and ion-specific inputs.)

  c09calc.py <seed> <tier>      -> JSON {direct_fails, stats}
  c09calc.py --child <first|after> <name>
"""
import sys, os, json, subprocess

CALCS = {
    "neutron_sld('D2O', density=1.1)": "pt.neutron_sld('D2O', density=1.1)",
    "neutron_scattering('Fe[58]2O3', density=5.0)": "pt.neutron_scattering('Fe[58]2O3', density=5.0)",
    "neutron_sld('Na{+}Cl{-}', density=2.16)": "pt.neutron_sld('Na{+}Cl{-}', density=2.16)",
    "neutron_composite_sld([D2O, H2O])([1, 2], density=1.0)":
        "nsf.neutron_composite_sld([formula('D2O'), formula('H2O')])(np.array([1.0, 2.0]), density=1.0)",
    "neutron_composite_sld([Ni[58]O[18], Gd[157]2O3], wavelength=[1, 4])([3, 1], density=6.0)":
        "nsf.neutron_composite_sld([formula('Ni[58]O[18]'), formula('Gd[157]2O3')], wavelength=[1.0, 4.0])(np.array([3.0, 1.0]), density=6.0)",
    "D2O_match('C3H4H[1]NO@1.29n')": "nsf.D2O_match('C3H4H[1]NO@1.29n')",
    "D2O_sld('C3H4H[1]NO@1.29n', volume_fraction=0.5, D2O_fraction=0.3)": "nsf.D2O_sld('C3H4H[1]NO@1.29n', volume_fraction=0.5, D2O_fraction=0.3)",
    "xray_sld('Ni{2+}O{2-}', density=6.0, energy=8.0)": "pt.xray_sld('Ni{2+}O{2-}', density=6.0, energy=8.0)",
    "xray_sld('D2O', natural_density=1.0, wavelength=1.5418)": "pt.xray_sld('D2O', natural_density=1.0, wavelength=1.5418)",
    "elements.Ni.ion[2].xray.f0(1.0)": "pt.elements.Ni.ion[2].xray.f0(1.0)",
    "elements.Ni[58].ion[2].xray.scattering_factors(energy=8.0)": "pt.elements.Ni[58].ion[2].xray.scattering_factors(energy=8.0)",
    "index_of_refraction('SiO2', density=2.2, energy=8.0)": "xsf.index_of_refraction('SiO2', density=2.2, energy=8.0)",
    "formula('Fe').volume('bcc')": "formula('Fe').volume('bcc')",
    "formula('NaCl@2.16').volume()": "formula('NaCl@2.16').volume()",
    "Sample('Co[59]Fe', 1).calculate_activation(...); activity": "_activation('Co[59]Fe')",
    "Sample('Au', 1) decay_time": "_decay('Au')",
    "fasta.Sequence('x', 'GASP').sld": "_fasta()",
    "formula('aa:GA').mass": "formula('aa:GA').mass",
    "elements.Fe.magnetic_ff[2].j0_Q(1.0)": "pt.elements.Fe.magnetic_ff[2].j0_Q(1.0)",
    "elements.Fe.ion[2].magnetic_ff[2].M_Q([0, 0.5])": "pt.elements.Fe.ion[2].magnetic_ff[2].M_Q([0, 0.5])",
    "elements.Cu.K_alpha, elements.Cu[63].K_beta1": "(pt.elements.Cu.K_alpha, pt.elements.Cu[63].K_beta1)",
    "elements.C.crystal_structure, elements.Fe[56].crystal_structure": "(pt.elements.C.crystal_structure, pt.elements.Fe[56].crystal_structure)",
    "elements.Po.covalent_radius_uncertainty, elements.H[2].covalent_radius": "(pt.elements.Po.covalent_radius_uncertainty, pt.elements.H[2].covalent_radius)",
    "elements.Fe[56].neutron.b_c, elements.Ni[62].neutron.b_c, elements.D.neutron.b_c":
        "(pt.elements.Fe[56].neutron.b_c, pt.elements.Ni[62].neutron.b_c, pt.elements.D.neutron.b_c)",
    "elements.Gd[157].neutron.scattering(wavelength=1.0)": "pt.elements.Gd[157].neutron.scattering(wavelength=1.0)",
    "neutron_sld('Gd2O3', density=7.4, wavelength=0.5)": "pt.neutron_sld('Gd2O3', density=7.4, wavelength=0.5)",
    "elements.Sm.neutron.nsf_table is None": "pt.elements.Sm.neutron.nsf_table is None",
}


def child(mode, name):
    import numpy as np
    import periodictable as pt
    from periodictable import nsf, xsf          # (importing these two modules loads no table;
    from periodictable.formulas import formula  #  periodictable.fasta does, so it is imported only where it is the calculator)

    def _activation(f):
        from periodictable import activation
        s = activation.Sample(f, 1.0)
        s.calculate_activation(activation.ActivationEnvironment(1e8, 0, 0), exposure=10, rest_times=[0, 1])
        return sorted((k.isotope, k.daughter, k.reaction, [float(x) for x in v]) for k, v in s.activity.items())

    def _decay(f):
        from periodictable import activation
        s = activation.Sample(f, 1.0)
        s.calculate_activation(activation.ActivationEnvironment(1e8, 0, 0), exposure=10, rest_times=[0, 1])
        return s.decay_time(0.1 * sum(float(v[0]) for v in s.activity.values()))

    def _fasta():
        from periodictable import fasta
        q = fasta.Sequence("x", "GASP")
        return (q.sld, q.Dsld, q.mass, q.D2Omatch)
    if mode == "after":
        # the canonical order: plain reads of every lazy name through an element
        for nm in ("neutron", "xray", "covalent_radius", "crystal_structure", "magnetic_ff", "K_alpha", "neutron_activation"):
            getattr(pt.elements.Fe, nm, None)
        pt.elements.Fe.xray.sftable
    ns = dict(np=np, pt=pt, nsf=nsf, xsf=xsf, formula=formula, _activation=_activation, _decay=_decay, _fasta=_fasta)

    def once():
        try:
            v = eval(CALCS[name], ns)
            return repr(np.asarray(v, dtype=object).tolist() if not isinstance(v, (list, tuple, dict, float, int, str, type(None))) else v)
        except Exception as e:  # noqa
            return "raises %s: %s" % (type(e).__name__, str(e)[:120])
    out = once()
    again = once() if mode == "first" else out     # the same call repeated in the same interpreter
    json.dump(dict(out=out, again=again), sys.stdout)


def run(mode, name):
    repo = os.environ.get("VERIF_REPO", "/repo")
    env = dict(os.environ, PYTHONPATH=repo + os.pathsep + os.path.dirname(os.path.abspath(__file__)), PYTHONHASHSEED="0",
               PYTHONDONTWRITEBYTECODE="1")
    p = subprocess.run([sys.executable, "-W", "ignore", os.path.abspath(__file__), "--child", mode, name], env=env, stdout=subprocess.PIPE,
                       stderr=subprocess.PIPE, text=True, timeout=600, cwd="/")
    if p.returncode != 0:
        return "child failed: " + p.stderr[-300:]
    d = json.loads(p.stdout)
    return d["out"] if d.get("again", d["out"]) == d["out"] else "%s   [the same call repeated at once gives %s]" % (d["out"], d["again"])


def main():
    if sys.argv[1] == "--child":
        return child(sys.argv[2], sys.argv[3])
    fails = []
    from concurrent.futures import ThreadPoolExecutor
    names = sorted(CALCS)
    with ThreadPoolExecutor(max_workers=8) as ex:
        first = list(ex.map(lambda n: run("first", n), names))
        after = list(ex.map(lambda n: run("after", n), names))
    broken = [n for n, b in zip(names, after) if b.startswith("raises NameError") or b.startswith("child failed")]
    if broken:
        fails.append(dict(signature="C09:calculator-stream-broken", what="the calculator stream could not evaluate %d calculators, e.g. `%s`: %s"
                          % (len(broken), broken[0], after[names.index(broken[0])][:200]), history=[], history_text=broken[:3], outcomes=[], calc=broken[0]))
    for n, a, b in zip(names, first, after):
        if a != b:
            fails.append(dict(signature="C09:calculator-as-first-touch", what="in a fresh interpreter, `%s` as the very first touch gives %s; after the "
                              "tables were loaded by plain reads it gives %s" % (n, a[:300], b[:300]),
                              history=[], history_text=[n], outcomes=[], calc=n))
    json.dump(dict(direct_fails=fails, stats=dict(calculators=len(names))), sys.stdout)


main()
