"""C13 harness: str()/repr() of formulas produced by parsing, arithmetic and the mixture
constructors, and the result of parsing the printed form back."""
import json, sys, random
from pyenc import enc, attempt, cstr, err_kind
from fcommon import *
import treegen
import periodictable
from periodictable import formulas
from periodictable.formulas import formula, Formula, mix_by_weight, mix_by_volume

seed, ncase = int(sys.argv[1]), int(sys.argv[2])
rng = random.Random(seed)
PUB = periodictable.elements
treegen.init(rng, PUB)
pool = Pool(PUB, rng)
cases, meta, fails = [], [], []
stats = dict(source={}, exponent_regime=0, named=0, dt_ions=0)


def ref_atoms(seq, mult, out):
    for c, fr in seq:
        if core.isatom(fr):
            out[atom_key(fr)] = out.get(atom_key(fr), 0) + c * mult
        else:
            ref_atoms(fr, c * mult, out)
    return out


def printed_precision(seq):
    return tuple((float("%g" % c), fr if core.isatom(fr) else printed_precision(fr)) for c, fr in seq)


def printable(seq):
    for c, fr in seq:
        if not (c > 0):
            return False
        if core.isatom(fr):
            if fr.number < 1:
                return False
        elif len(fr) == 0 or not printable(fr):
            return False
    return True


BOUNDARY = [999999.5, 999999.7, 999999.96, 999999.4, 99999.95, 99999.96, 9999.996, 9.999996, 0.9999996, 0.00009999996,
            0.000099999949, 9999996.0, 99999960.0, 1000000.0, 1e-4, 0.99999949, 123456.5, 1234565.0, 0.1234565, 999999.5000001]


def wide_count():
    r = rng.random()
    if r < 0.06:
        return rng.choice(BOUNDARY) * rng.choice([1, 1, 10, 0.1, 1000])
    if r < 0.35:
        return rng.randint(1, 30)
    if r < 0.6:
        return round(rng.uniform(0.01, 50), rng.randint(1, 5))
    if r < 0.8:
        return float("%.7g" % (10 ** rng.uniform(-8, -3)))
    return float("%.8g" % (10 ** rng.uniform(5, 11)))


def wide_nested(depth):
    seq = []
    for _ in range(rng.randint(1, 3)):
        if depth > 0 and rng.random() < 0.4:
            seq.append((wide_count(), wide_nested(depth - 1)))
        else:
            kinds = ("el", "iso", "ion", "isoion")
            a = pool.atom(kinds)
            if rng.random() < 0.15:
                a = rng.choice([PUB.D, PUB.T, PUB.D.ion[1], PUB.T.ion[1], PUB.D.ion[-1], PUB.H[1]])
            seq.append((wide_count() if rng.random() < 0.7 else 1, a))
    return tuple(seq)


def add_case(f, source, given_name=None, how=""):
    if given_name and f.name != given_name:
        # "a named formula prints its name": the name the caller gave is the name
        fails.append(dict(signature="C13:named", what="%s was given name=%r but prints %r / %r" % (how or source, given_name, str(f), repr(f)),
                          string=str(f), source=source))
    if not printable(f.structure) or len(f.structure) == 0:
        return
    s, r = str(f), repr(f)
    back = None
    if not f.name:
        g = attempt(formula, s)
        if isinstance(g, Exception):
            back = "(RErr' %s)" % err_kind(g)
            fails.append(dict(signature="C13:printed-form-rejected:" + ("exponent" if "e+" in s or "e-" in s else
                                                                         "D/T-ion" if "D[2]" in s or "T[3]" in s else type(g).__name__),
                              what="str(f) = %r does not parse back (%s)" % (s, type(g).__name__), string=s, source=source))
        else:
            back = "(RStruct %s)" % struct_term(g.structure)
            # every count at its printed precision (six significant digits): the expected totals are those of the
            # structure with each count rounded that way, level by level (a flat tolerance on the totals would
            # demand more than the property states for deep nestings)
            a0, a1 = ref_atoms(printed_precision(f.structure), 1, {}), ref_atoms(g.structure, 1, {})
            if set(a0) != set(a1) or any(abs(a0[k] - a1[k]) > 1e-12 * abs(a0[k]) for k in a0):
                fails.append(dict(signature="C13:roundtrip-atoms", what="formula(%r) has atoms %r, the printed formula had %r" % (s, a1, a0),
                                  string=s, source=source))
    else:
        back = "(RStruct [])"
        stats["named"] += 1
        if s != f.name or r != "formula('%s')" % f.name:
            fails.append(dict(signature="C13:named", what="named formula prints %r / %r" % (s, r), string=s, source=source))
    if not f.name and r != "formula('%s')" % s:
        fails.append(dict(signature="C13:repr", what="repr is %r for str %r" % (r, s), string=s, source=source))
    cases.append("(mkC13 %s %s %s %s %s)" % (struct_term(f.structure), optstr_term(f.name), cstr(s), cstr(r), back))
    meta.append(dict(source=source, str=s))
    stats["source"][source] = stats["source"].get(source, 0) + 1
    if "D{" in s or "T{" in s or "D[2]" in s:
        stats["dt_ions"] += 1
    if any(ch.isdigit() for ch in s) and (max_count(f.structure) >= 999999.5 or min_count(f.structure) < 1e-4):
        stats["exponent_regime"] += 1


def max_count(seq):
    return max([c if core.isatom(fr) else max(c, max_count(fr)) for c, fr in seq] or [0])


def min_count(seq):
    return min([c if core.isatom(fr) else min(c, min_count(fr)) for c, fr in seq] or [1])


SIMPLE = ["H2O@1", "D2O@1.1", "NaCl@2.16", "SiO2@2.2", "C6H6@0.88", "Fe", "Ni", "Si", "Au", "CaCO3@2.7", "Ti", "Co"]
turn = 0
while len(cases) < ncase:
    k = turn % 5          # (a counter of its own: the branches add different numbers of cases)
    turn += 1
    try:
        if k == 0:
            tree = treegen.gen_tree(rng.randint(0, 4))
            text = treegen.render(tree)
            nm = rng.choice([None, None, None, "parsed sample", "Rose's metal"])
            add_case(formula(text, name=nm), "parsed", given_name=nm, how="formula(%r, name=%r)" % (text, nm))
        elif k == 1:
            add_case(formula(wide_nested(rng.randint(0, 3)), name=rng.choice([None, None, None, "sample", "Wood's metal", "a\\b", 'say "x"'])), "nested")
        elif k == 2:
            f = formula(wide_nested(1))
            g = formula(wide_nested(rng.randint(0, 2)))
            # the operands have been printed (and their Hill form read) before they are combined,
            # so a cached printed form that is not invalidated shows
            _ = (str(f), repr(g), f.hill, g.hill)
            h = wide_count() * f
            add_case(h, "arithmetic")
            h2 = wide_count() * h
            h2 += g
            add_case(h2, "arithmetic")
            add_case(wide_count() * f + wide_count() * g, "arithmetic")
        elif k == 3:
            parts = []
            for _ in range(rng.randint(2, 4)):
                parts += [rng.choice(SIMPLE), float("%.4g" % (10 ** rng.uniform(-3, 6)))]
            fn = mix_by_weight if rng.random() < 0.5 else mix_by_volume
            kw = {}
            if rng.random() < 0.4:
                kw["name"] = rng.choice(["alloy", "sample 7", "mix", "Wood's metal"])
            if rng.random() < 0.3:
                kw[rng.choice(["density", "natural_density"])] = round(rng.uniform(0.5, 12), 3)
            add_case(fn(*parts, **kw), "mixture", given_name=kw.get("name"),
                     how="%s(%s%s)" % (fn.__name__, ", ".join(repr(x) for x in parts), "".join(", %s=%r" % kv for kv in kw.items())))
        else:
            f = formula(wide_nested(2))
            _ = (str(f), f.hill)
            add_case(wide_count() * f, "arithmetic")
            f2 = wide_count() * f
            f2 += formula(pool.atom())
            add_case(f2, "arithmetic")
    except Exception as e:
        fails.append(dict(signature="C13:construct-raises:" + type(e).__name__, what="constructing a formula raised %s: %s" % (type(e).__name__, e)))
        break
# the round trip within a private table: the printed form of a formula of T's atoms, parsed with table=T, has T's atoms
try:
    from periodictable import mass as _mass, density as _density
    _T = core.PeriodicTable("verif_c13")
    _mass.init(_T); _density.init(_T)
    stats["private_roundtrip"] = 0
    for a in [_T.Fe, _T.D, _T.T, _T.H[1], _T.O[18], _T.Fe.ion[2], _T.Fe[56].ion[3], _T.D.ion[1], _T.U, _T.n if False else _T.C]:
        for f in (formula(a), formula([(2, a), (1, _T.O)])):
            text = str(f)
            g = attempt(lambda: formula(text, table=_T))
            stats["private_roundtrip"] += 1
            if isinstance(g, Exception) or any(not any(x is y for y in f.atoms) for x in g.atoms) or len(g.atoms) != len(f.atoms):
                fails.append(dict(signature="C13:private-table-roundtrip", what="formula(%r, table=T) for the printed form of a formula of T's atoms "
                                  "gives %s" % (text, g if isinstance(g, Exception) else {repr(x): getattr(x, "table", None) or x.element.table
                                                                                              for x in g.atoms}),
                                  string=text, source="private"))
except Exception as e:  # noqa
    fails.append(dict(signature="C13:private-table-roundtrip", what="the private-table round trip raised %s: %s" % (type(e).__name__, e), string="", source="private"))
json.dump(dict(cases=cases, meta=meta, direct_fails=fails, stats=stats), sys.stdout)
