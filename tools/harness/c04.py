"""C04 harness: related runs of neutron_scattering (density scaling, count scaling, regrouping /
reordering, energy= vs wavelength=, vector vs scalar), the conversions between energy, wavelength and
velocity, the documented anchor, non-negativity.  Every call is also sent to the Coq check (model and
documented equations); the relations between the runs are evaluated here on the implementation alone
(direct_fails)."""
import json, sys, random, math
import numpy as np
from c03lib import *

seed, nbase, tier = int(sys.argv[1]), int(sys.argv[2]), sys.argv[3]
rng = random.Random(seed + 4004)
pool = NPool(rng)
cases, meta, fails = [], [], []
stats = dict(base=0, density_scaling=0, count_scaling=0, regrouping=0, energy_vs_wavelength=0, vector_vs_scalar=0,
             vector_entries=0, conversions=0, nonneg_checked=0, table_atoms_in_base=0)


def fail(sig, what, **kw):
    fails.append(dict(signature=sig, what=what, **kw))


def call(seq, rho, wkind, vector, wvals, tag, as_list=False):
    res = run_call(0, seq, rho, None, wkind, vector, wvals, as_list)
    w = "" if not wkind else ", %s=%r" % ("wavelength" if wkind == 1 else "energy",
                                          list(map(float, wvals)) if vector else float(wvals[0]))
    txt = "neutron_scattering(%r, density=%r%s)" % (seq, rho, w)
    cases.append(call_term(0, seq, rho, None, wkind, vector, wvals, res))
    meta.append(dict(call=txt, tag=tag))
    flat = None
    if isinstance(res, tuple) and res[0] is not None and not isinstance(res, BaseException):
        flat = flatten_result(res, vector, len(wvals) if wkind else 1)
    if flat is not None:
        for j in range(1, 7):
            stats["nonneg_checked"] += len(flat[j])
            if any((not (x >= 0)) for x in flat[j]):
                fail("C04:negative:" + NAMES[j], "%s: %s = %r is negative" % (txt, NAMES[j], flat[j]), call=txt)
    return res, flat, txt


def scales_for(seq, rho, lam):
    return doc_equations(count_struct(seq), rho, lam)[1]


def compare(sig, what, a, b, scales, factor=None, tol=1e-11):
    """a, b: lists of 7 floats; b expected = factor_j * a_j"""
    bad = []
    for j in range(7):
        f = 1.0 if factor is None else factor[j]
        if j == 2:
            ok = abs(b[j] ** 2 - (f * a[j]) ** 2) <= tol * scales[2] * max(f * f, 1e-300) or \
                abs(b[j] - f * a[j]) <= tol * abs(f) * math.sqrt(scales[2])
        else:
            ok = abs(b[j] - f * a[j]) <= tol * abs(f * scales[j])
        if not ok:
            bad.append(j)
    for j in bad:
        fail("%s:%s" % (sig, NAMES[j]), "%s: %s is %r, expected %r" % (what, NAMES[j], b[j], (1.0 if factor is None else factor[j]) * a[j]))
    return bad


def regroup(seq):
    """another structure with the same per-atom totals: counts split, wrapped in groups with
    dyadic multipliers, shuffled"""
    totals = count_struct(seq)
    parts = []
    for a, c in totals.items():
        n = rng.randint(1, 3)
        rest = c
        for i in range(n - 1):
            p = float("%.6g" % (rest * rng.uniform(0.1, 0.9)))
            if 0 < p < rest:
                parts.append((a, p))
                rest = rest - p
        parts.append((a, rest))
    rng.shuffle(parts)
    out = []
    while parts:
        k = rng.randint(1, min(3, len(parts)))
        chunk, parts = parts[:k], parts[k:]
        if rng.random() < 0.5:
            g = rng.choice([2.0, 4.0, 0.5, 8.0, 0.25])
            inner = tuple((c / g, a) for a, c in chunk)
            if rng.random() < 0.3:
                g2 = rng.choice([2.0, 0.5])
                out.append((g2, ((g / g2, inner),)))
            else:
                out.append((g, inner))
        else:
            out.extend((c, a) for a, c in chunk)
    rng.shuffle(out)
    return tuple(out)


for i in range(nbase):
    must = [pool.ionize(rng.choice(pool.tab))] if rng.random() < 0.4 else []
    seq = pool.nested(rng.randint(0, 2), must=must)
    atoms = flat_atoms(seq)
    if must:
        stats["table_atoms_in_base"] += 1
    rho = pool.density()
    lam = pool.wavelength(atoms)
    r0, f0, t0 = call(seq, rho, 1, False, [lam], "base")
    stats["base"] += 1
    if f0 is None:
        fail("C04:base-call", "%s did not return numbers: %r" % (t0, r0), call=t0)
        continue
    a0 = [f[0] for f in f0]
    sc = scales_for(seq, rho, lam)
    # (a) density scaling
    k = rng.choice([2.0, 0.5, 10.0, round(rng.uniform(0.05, 20), 3), float("%.3g" % (10 ** rng.uniform(-3, 3))),
                    float("%.3g" % (10 ** rng.uniform(-15, -6))), float("%.3g" % (10 ** rng.uniform(3, 6)))])
    r1, f1, t1 = call(seq, k * rho, 1, False, [lam], "density*k")
    stats["density_scaling"] += 1
    if f1 is not None:
        compare("C04:density-scaling", "%s vs density*%r" % (t0, k), a0, [f[0] for f in f1], sc, [k] * 6 + [1 / k])
    # (b) count scaling
    k2 = rng.choice([2, 3, 0.5, 10, round(rng.uniform(0.1, 50), 2)])
    seqk = ((k2, seq),)
    r2, f2, t2 = call(seqk, rho, 1, False, [lam], "count*k")
    stats["count_scaling"] += 1
    if f2 is not None:
        compare("C04:count-scaling", "%r * compound: %s" % (k2, t2), a0, [f[0] for f in f2], sc)
    # (c) regrouping / reordering
    seqr = regroup(seq)
    r3, f3, t3 = call(seqr, rho, 1, False, [lam], "regrouped")
    stats["regrouping"] += 1
    if f3 is not None:
        compare("C04:regrouping", "%s vs regrouped %s" % (t0, t3), a0, [f[0] for f in f3], sc)
    # (d) energy= vs wavelength=
    if i % 2 == 0:
        en = float(EF_DOC / lam ** 2)
        r4, f4, t4 = call(seq, rho, 2, False, [en], "energy=")
        lam4 = float(nsf.neutron_wavelength(en))
        r5, f5, t5 = call(seq, rho, 1, False, [lam4], "wavelength=neutron_wavelength(energy)")
        stats["energy_vs_wavelength"] += 1
        if f4 is not None and f5 is not None:
            compare("C04:energy-vs-wavelength", "%s vs %s" % (t4, t5), [f[0] for f in f4], [f[0] for f in f5],
                    scales_for(seq, rho, lam4))
    # (e) vector vs scalar
    if i % 3 == 0:
        n = rng.randint(1, 5)
        ws = [pool.wavelength(atoms) for _ in range(n)]
        as_list = rng.random() < 0.3
        r6, f6, t6 = call(seq, rho, 1, True, ws, "vector", as_list=as_list)
        stats["vector_vs_scalar"] += 1
        if f6 is None:
            fail("C04:vector-shape", "%s: outputs are not vectors of the length of the wavelength argument: %r" % (t6, r6), call=t6)
        else:
            for j_w, wj in enumerate(ws):
                r7, f7, t7 = call(seq, rho, 1, False, [wj], "scalar-of-vector")
                stats["vector_entries"] += 1
                if f7 is not None:
                    compare("C04:vector-vs-scalar", "entry %d of %s vs %s" % (j_w, t6, t7), [f[0] for f in f7],
                            [f[j_w] for f in f6], scales_for(seq, rho, wj), tol=1e-13)

            # the same wavelengths as a column and as a row: however the outputs are shaped, they hold one entry
            # per wavelength, in order, equal to the entries of the flat vector call
            if n >= 2 and i % 6 == 0:
                import numpy as _np
                from periodictable import nsf as _nsf
                for shape in ((n, 1), (1, n)):
                    arr = _np.array([float(x) for x in ws]).reshape(shape)
                    t8 = "neutron_scattering(%r, density=%r, wavelength=array of shape %r %r)" % (seq, float(rho), shape, [float(x) for x in ws])
                    stats["shaped_vectors"] = stats.get("shaped_vectors", 0) + 1
                    try:
                        r8 = _nsf.neutron_scattering(seq, density=float(rho), wavelength=arr)
                        outs = [_np.ravel(_np.asarray(v, dtype=float)) for v in list(r8[0]) + list(r8[1]) + [r8[2]]]
                    except Exception as e:  # noqa
                        fail("C04:vector-shape", "%s raises %s: %s" % (t8, type(e).__name__, e), call=t8)
                        continue
                    if any(o.size != n for o in outs):
                        fail("C04:vector-shape", "%s: outputs hold %r entries for %d wavelengths" % (t8, [int(o.size) for o in outs], n), call=t8)
                        continue
                    for j_w in range(n):
                        compare("C04:vector-vs-scalar", "entry %d of %s vs the flat vector call" % (j_w, t8), [f[j_w] for f in f6],
                                [float(o[j_w]) for o in outs], scales_for(seq, rho, ws[j_w]), tol=1e-13)

# ---------------------------------------------------------------- energy vectors (length 1 and n) against wavelength vectors
stats["energy_vectors"] = 0
for nlen in (1, 1, 3, 4):
    seq_ = pool.nested(rng.randint(0, 2))
    ws_ = [pool.wavelength(flat_atoms(seq_)) for _ in range(nlen)]
    es_ = [EF_DOC / w ** 2 for w in ws_]
    stats["energy_vectors"] += 1
    for arg in (list(es_), np.array(es_)):
        a_ = attempt(nsf.neutron_scattering, seq_, density=4.0, energy=arg)
        b_ = attempt(nsf.neutron_scattering, seq_, density=4.0, wavelength=[float(nsf.neutron_wavelength(e)) for e in es_])
        fa_, fb_ = (flatten_result(r, True, nlen) if isinstance(r, tuple) else None for r in (a_, b_))
        t_ = "neutron_scattering(%r, density=4.0, energy=%r)" % (seq_, arg)
        if fa_ is None or fb_ is None or any(abs(x - y) > 1e-9 * max(abs(x), abs(y), 1e-300) + (1e-7 if j == 2 else 0)
                                             for j in range(7) for x, y in zip(fa_[j], fb_[j])):
            fail("C04:energy-vs-wavelength", "%s = %r; with the equivalent wavelength vector %r" % (t_, a_, b_), call=t_)

# ---------------------------------------------------------------- whole-number wavelengths in every container and dtype
stats["integer_vectors"] = 0
for k_ in range(4):
    seq_ = pool.nested(rng.randint(0, 2)) if k_ else "H2O"
    ints_ = sorted(rng.sample(range(1, 9), rng.randint(1, 4)))
    ref_ = attempt(nsf.neutron_scattering, seq_, density=1.5, wavelength=[float(w) for w in ints_])
    fr_ = flatten_result(ref_, True, len(ints_)) if isinstance(ref_, tuple) else None
    for arg in (list(ints_), tuple(ints_), np.array(ints_), np.array(ints_, dtype=np.int32)):
        stats["integer_vectors"] += 1
        got_ = attempt(nsf.neutron_scattering, seq_, density=1.5, wavelength=arg)
        fg_ = flatten_result(got_, True, len(ints_)) if isinstance(got_, tuple) else None
        t_ = "neutron_scattering(%r, density=1.5, wavelength=%r)" % (seq_, arg)
        if fr_ is None or fg_ is None or any(abs(x - y) > 1e-9 * max(abs(x), abs(y), 1e-300) + (1e-7 if j == 2 else 0)
                                             for j in range(7) for x, y in zip(fg_[j], fr_[j])):
            fail("C04:vector-vs-scalar", "%s = %r; with the same wavelengths written as floats %r" % (t_, got_, ref_), call=t_)
    for w_ in ints_[:2]:
        got_ = attempt(nsf.neutron_scattering, seq_, density=1.5, wavelength=int(w_))
        one_ = attempt(nsf.neutron_scattering, seq_, density=1.5, wavelength=float(w_))
        fg_, fo_ = (flatten_result(r, False, 1) if isinstance(r, tuple) else None for r in (got_, one_))
        t_ = "neutron_scattering(%r, density=1.5, wavelength=%d)" % (seq_, w_)
        if fg_ is None or fo_ is None or any(abs(x - y) > 1e-9 * max(abs(x), abs(y), 1e-300) for j in range(7) for x, y in zip(fg_[j], fo_[j])):
            fail("C04:vector-vs-scalar", "%s = %r; with the wavelength written %r it is %r" % (t_, got_, float(w_), one_), call=t_)

# ---------------------------------------------------------------- energy= through the package-level functions
import periodictable as _ptpkg
stats["package_level_energy"] = 0
for _ in range(8 if tier == "quick" else 80):
    seq_ = pool.nested(rng.randint(0, 2), must=[rng.choice(pool.tab)] if rng.random() < 0.5 else [])
    w_ = pool.wavelength(flat_atoms(seq_))
    e_ = EF_DOC / w_ ** 2
    stats["package_level_energy"] += 1
    a_ = attempt(_ptpkg.neutron_scattering, seq_, density=3.0, energy=e_)
    b_ = attempt(nsf.neutron_scattering, seq_, density=3.0, wavelength=float(nsf.neutron_wavelength(e_)))
    fa_, fb_ = (flatten_result(r, False, 1) if isinstance(r, tuple) else None for r in (a_, b_))
    t_ = "periodictable.neutron_scattering(%r, density=3.0, energy=%r)" % (seq_, e_)
    if fa_ is None or fb_ is None or any(abs(x[0] - y[0]) > 1e-9 * max(abs(x[0]), abs(y[0]), 1e-300) + (1e-7 if j == 2 else 0)
                                         for j, (x, y) in enumerate(zip(fa_, fb_))):
        fail("C04:energy-vs-wavelength", "%s = %r; with the equivalent wavelength= nsf.neutron_scattering gives %r" % (t_, a_, b_), call=t_)

# ---------------------------------------------------------------- one-species cells at the clipping boundary
# nuclides whose tabulated total cross section does not exceed 4 pi b_c^2/100 have an incoherent part of exactly zero:
# it stays zero (and nothing turns negative or NaN) when the cell holds 3, 5 or 7 of them
stats["clipped_cells"] = 0
clipped = [a for a in pool.with_sld if a.neutron.total is not None and a.neutron.b_c is not None and a.neutron.nsf_table is None
           and a.neutron.total <= 4 * math.pi * a.neutron.b_c ** 2 / 100 * (1 + 1e-12)]
for a in rng.sample(clipped, min(len(clipped), 10 if tier == "quick" else 60)) + [x for x in pool.tab][:3]:
    r1 = attempt(nsf.neutron_scattering, ((1, a),), density=5.0, wavelength=[1.0, 4.75])
    for k_ in (3, 5, 7):
        stats["clipped_cells"] += 1
        rk = attempt(nsf.neutron_scattering, ((k_, a),), density=5.0, wavelength=[1.0, 4.75])
        t_ = "neutron_scattering(((%d, %r),), density=5.0, wavelength=[1.0, 4.75])" % (k_, a)
        f1_, fk_ = (flatten_result(r, True, 2) if isinstance(r, tuple) else None for r in (r1, rk))
        if f1_ is None or fk_ is None:
            fail("C04:count-scaling", "%s gives %r" % (t_, rk), call=t_)
            break
        bad = [NAMES[j] for j in range(7) for q in range(2)
               if not (fk_[j][q] == fk_[j][q]) or (j != 0 and fk_[j][q] < 0) or abs(fk_[j][q] - f1_[j][q]) > 1e-9 * max(abs(f1_[j][q]), 1e-300)
               + (1e-6 if j == 2 else 0) + (1e-9 * abs(f1_[3][q]) if j == 5 else 0)]   # (the incoherent part is a rounding residue here)
        if bad:
            fail("C04:count-scaling", "%s = %r; with one atom in the cell the outputs are %r (differs / negative / NaN in %s)"
                 % (t_, [x for x in fk_], [x for x in f1_], ", ".join(sorted(set(bad)))), call=t_)
            break

# ---------------------------------------------------------------- the same compound spelled in several ways as a string
stats["string_spellings"] = 0
UNITS_ = ["CaCO3", "H2O", "NaCl", "SiO2", "Fe2O3", "D2O", "C6H6", "Gd2O3", "HO", "NH3"]
for _ in range(12 if tier == "quick" else 120):
    u1, u2 = rng.sample(UNITS_, 2)
    k_ = rng.choice([2, 3, 6, 12])
    spellings = ["(%s)(%s)%d" % (u1, u2, k_), "(%s) %d%s" % (u1, k_, u2), "(%s)+%d%s" % (u1, k_, u2), "%s (%s)%d" % (u1, u2, k_),
                 "%s+%d%s" % (u1, k_, u2), "%s %d%s" % (u1, k_, u2), "%d%s + %s" % (k_, u2, u1)]
    if rng.random() < 0.5:
        # an absent component written with a zero count (the x = 0 end of a composition series)
        u3 = rng.choice([u for u in ("Sr", "Na", "Gd", "Cl") if u not in u1 + u2])
        spellings += ["%s(%s)%d%s0.00" % (u1, u2, k_, u3), "%s0.0 %s (%s)%d" % (u3, u1, u2, k_), "(%s)(%s)%d(%s2)0.0" % (u1, u2, k_, u3)]
    ref_ = None
    for sp in spellings:
        stats["string_spellings"] += 1
        r_ = attempt(nsf.neutron_scattering, sp, density=2.5, wavelength=1.798)
        f_ = flatten_result(r_, False, 1) if isinstance(r_, tuple) else None
        if f_ is None:
            fail("C04:regrouping", "neutron_scattering(%r, density=2.5) gives %r" % (sp, r_), call=sp)
            continue
        if ref_ is None:
            ref_ = (sp, f_)
        elif any(abs(a_[0] - b_[0]) > 1e-11 * max(abs(a_[0]), abs(b_[0]), 1e-300) for a_, b_ in zip(f_, ref_[1])):
            fail("C04:regrouping", "neutron_scattering(%r, density=2.5) = %r but the same compound spelled %r gives %r"
                 % (sp, [x[0] for x in f_], ref_[0], [x[0] for x in ref_[1]]), call=sp)

# ---------------------------------------------------------------- every atom with an energy table: dense vectors in both orders
# (numpy.interp starts its search from the previous entry, so a table that is not monotonic answers differently for
# ascending and descending vectors; the scalar call is the reference)
stats["table_atom_vectors"] = 0
for a in pool.tab:
    nodes = sorted(node_wavelengths(a))
    mids = [(x + y) / 2 for x, y in zip(nodes, nodes[1:])]
    ws = sorted(rng.sample(mids, min(len(mids), 14 if tier == "quick" else 60)))
    seq = ((1, a), (2, TABLE[8]))
    rho = 5.0
    sc_ = [nsf.neutron_scattering(seq, density=rho, wavelength=w) for w in ws]
    for order, wv in (("ascending", ws), ("descending", ws[::-1])):
        stats["table_atom_vectors"] += 1
        rv = attempt(nsf.neutron_scattering, seq, density=rho, wavelength=np.array(wv))
        t9 = "neutron_scattering(%r, density=%r, wavelength=<%d mid-node wavelengths, %s>)" % (seq, rho, len(wv), order)
        fv = flatten_result(rv, True, len(wv)) if isinstance(rv, tuple) else None
        if fv is None:
            fail("C04:vector-shape", "%s gives %r" % (t9, rv), call=t9)
            continue
        for j_w, w in enumerate(wv):
            fs = flatten_result(sc_[ws.index(w)], False, 1)
            bad = [NAMES[j] for j in range(7) if abs(fv[j][j_w] - fs[j][0]) > 1e-12 * max(abs(fv[j][j_w]), abs(fs[j][0]), 1e-300)]
            if bad:
                fail("C04:vector-vs-scalar", "entry %d (wavelength %r) of %s differs from the scalar call in %s: %r vs %r"
                     % (j_w, w, t9, ", ".join(bad), [fv[j][j_w] for j in range(7)], [fs[j][0] for j in range(7)]), call=t9, wavelength=w)
                break

# ---------------------------------------------------------------- Formula objects with their own density
stats["formula_objects"] = 0


def callf(fobj, how, dens, natd, wkind, wvals, tag):
    res = run_call_formula(0, fobj, dens, natd, wkind, False, wvals)
    kwtxt = "".join([", density=%r" % dens if dens is not None else "", ", natural_density=%r" % natd if natd is not None else "",
                     "" if not wkind else ", %s=%r" % ("wavelength" if wkind == 1 else "energy", wvals[0])])
    txt = "neutron_scattering(%s%s)  [own density %r]" % (how, kwtxt, fobj.density)
    cases.append(callf_term(0, fobj, dens, natd, wkind, False, wvals, res))
    meta.append(dict(call=txt, tag=tag))
    flat = flatten_result(res, False, 1) if isinstance(res, tuple) and res[0] is not None and not isinstance(res, BaseException) else None
    return res, flat, txt


for i in range(max(20, nbase // 4)):
    fobj, how = formula_object(rng, pool)
    own = fobj.density
    if not own:
        continue
    atoms_f = flat_atoms(fobj.structure)
    lam = pool.wavelength(atoms_f)
    r0, f0, t0 = callf(fobj, how, None, None, 1, [lam], "formula-object base")
    stats["formula_objects"] += 1
    if f0 is None:
        fail("C04:formula-object-base", "%s did not return numbers: %r" % (t0, r0), call=t0)
        continue
    a0 = [f[0] for f in f0]
    sc = doc_equations(count_struct(fobj.structure), own, lam)[1]
    # density = k * (the formula's own density), given as a keyword on the call
    k = rng.choice([2.0, 0.5, 10.0, round(rng.uniform(0.05, 20), 3)])
    r1, f1, t1 = callf(fobj, how, k * own, None, 1, [lam], "formula-object density=k*own")
    if f1 is None:
        fail("C04:formula-object-density-keyword", "%s did not return numbers: %r" % (t1, r1), call=t1)
    else:
        compare("C04:formula-object-density-keyword", "%s vs the same object without the keyword" % t1, a0, [f[0] for f in f1], sc,
                [k] * 6 + [1 / k])
    # natural_density= on the object: as density = natural_density / natural mass ratio
    nd = round(rng.uniform(0.5, 20), 3)
    r2, f2, t2 = callf(fobj, how, None, nd, 1, [lam], "formula-object natural_density=")
    kk = nd / natural_ratio_of(count_struct(fobj.structure)) / own
    if f2 is None:
        fail("C04:formula-object-natural-density-keyword", "%s did not return numbers: %r" % (t2, r2), call=t2)
    else:
        compare("C04:formula-object-natural-density-keyword", "%s vs the same object without the keyword" % t2, a0,
                [f[0] for f in f2], sc, [kk] * 6 + [1 / kk])
    # energy= vs wavelength= on the object, with a density keyword
    en = float(EF_DOC / lam ** 2)
    r3, f3, t3 = callf(fobj, how, k * own, None, 2, [en], "formula-object energy=")
    lam3 = float(nsf.neutron_wavelength(en))
    r4, f4, t4 = callf(fobj, how, k * own, None, 1, [lam3], "formula-object wavelength=")
    if f3 is not None and f4 is not None:
        compare("C04:formula-object-energy-vs-wavelength", "%s vs %s" % (t3, t4), [f[0] for f in f3], [f[0] for f in f4],
                doc_equations(count_struct(fobj.structure), k * own, lam3)[1])

# ---------------------------------------------------------------- conversions
def conv(kind, x):
    fn = [nsf.neutron_wavelength, nsf.neutron_energy, nsf.neutron_wavelength_from_velocity][kind]
    res = attempt(lambda: float(fn(x)))
    cases.append(conv_term(kind, x, res))
    meta.append(dict(call="%s(%r)" % (fn.__name__, x), tag="conversion"))
    stats["conversions"] += 1
    return res


cases.append("(CConv 3 (inject_Z 0) %s)" % enc(float(nsf.ENERGY_FACTOR)))
meta.append(dict(call="nsf.ENERGY_FACTOR", tag="conversion"))
cases.append("(CConv 4 (inject_Z 0) %s)" % enc(float(nsf.VELOCITY_FACTOR)))
meta.append(dict(call="nsf.VELOCITY_FACTOR", tag="conversion"))


def rel(a, b, tol=1e-13):
    return abs(a - b) <= tol * max(abs(a), abs(b))


nconv = 60 if tier == "quick" else 2000
for i in range(nconv):
    E = float("%.6g" % (10 ** rng.uniform(-2, 5))) if i % 2 else EF_DOC / pool.wavelength() ** 2
    lam = conv(0, E)
    E2 = conv(1, lam)
    if not rel(E2, E):
        fail("C04:conversion:energy-round-trip", "neutron_energy(neutron_wavelength(%r)) = %r" % (E, E2), energy=E)
    if not rel(E * lam * lam, nsf.ENERGY_FACTOR):
        fail("C04:conversion:E-lambda2", "E*lambda^2 = %r for E = %r, ENERGY_FACTOR = %r" % (E * lam * lam, E, nsf.ENERGY_FACTOR), energy=E)
    lam2 = pool.wavelength()
    E3 = conv(1, lam2)
    if not rel(E3 * lam2 * lam2, nsf.ENERGY_FACTOR):
        fail("C04:conversion:E-lambda2", "E*lambda^2 = %r for lambda = %r" % (E3 * lam2 * lam2, lam2), wavelength=lam2)
    if not rel(conv(0, E3), lam2):
        fail("C04:conversion:wavelength-round-trip", "neutron_wavelength(neutron_energy(%r)) differs" % lam2, wavelength=lam2)
    v = float("%.6g" % (10 ** rng.uniform(1, 5)))
    lv = conv(2, v)
    if not rel(v * lv, nsf.VELOCITY_FACTOR):
        fail("C04:conversion:v-lambda", "v*lambda = %r for v = %r, VELOCITY_FACTOR = %r" % (v * lv, v, nsf.VELOCITY_FACTOR), velocity=v)
    # E = m v^2/2 for the same neutron: E(lambda(v)) = EF v^2 / VF^2
    Ev = conv(1, lv)
    if not rel(Ev, 0.5 * (constants.neutron_mass * constants.atomic_mass_constant) * v * v / constants.electron_volt * 1000, 1e-12):
        fail("C04:conversion:kinetic-energy", "neutron_energy(wavelength_from_velocity(%r)) = %r is not m v^2/2" % (v, Ev), velocity=v)
# vectors of energies / wavelengths
es = [float("%.5g" % (10 ** rng.uniform(-1, 3))) for _ in range(5)]
lv = nsf.neutron_wavelength(es)
if not (hasattr(lv, "shape") and lv.shape == (5,) and all(rel(float(lv[i]), float(nsf.neutron_wavelength(es[i])), 1e-15) for i in range(5))):
    fail("C04:conversion:vector", "neutron_wavelength of a vector is not the vector of scalar results")
ev_ = nsf.neutron_energy(np.array(es))
if not (ev_.shape == (5,) and all(rel(float(ev_[i]), float(nsf.neutron_energy(es[i])), 1e-15) for i in range(5))):
    fail("C04:conversion:vector", "neutron_energy of a vector is not the vector of scalar results")
# anchor 1.798 A = 2200 m/s = 25.3 meV
Ea = conv(1, 1.798)
va = nsf.VELOCITY_FACTOR / 1.798
if not (abs(Ea - 25.3) <= 0.05 and abs(va - 2200) <= 1 and rel(conv(2, va), 1.798, 1e-14)):
    fail("C04:anchor", "1.798 A gives %r meV and %r m/s, documented 25.3 meV and 2200 m/s" % (Ea, va))
if nsf.ABSORPTION_WAVELENGTH != 1.798:
    fail("C04:anchor", "ABSORPTION_WAVELENGTH is %r" % nsf.ABSORPTION_WAVELENGTH)

for _t in sorted(set(ARG_MODIFIED))[:3]:
    fail("C04:argument-modified", _t, call=_t)
json.dump(dict(cases=cases, meta=meta, direct_fails=fails, stats=stats), sys.stdout)
