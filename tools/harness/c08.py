"""C08 harness: atoms are unique per table and every lookup route returns the same object.

(a) exhaustive sweep on the real library: every route for all elements, isotopes, element ions
    and isotope ions of the public table and of a private table (is-identity between routes,
    attributes against the key, pickle and deepcopy round trips, iteration order, change_table
    both ways) and the invalid neighbours of every key.  Failing inputs go to direct_fails.
(b) operation sequences, each run in a forked child so that every sequence starts from the
    freshly imported library: one systematic sequence per element and table (all routes, all
    isotopes, all element ions, a rotating eighth of the isotope ions in quick / all in thorough)
    and random sequences over both tables.  They are encoded as Coq `gop N` lists with the
    implementation's outcomes (identity classes, attributes, error kinds) for Model/C08Check.v.
    The abstract keyed map (key -> one object) is evaluated on the implementation alongside.
"""
import json, sys, os, random, pickle, copy, re, traceback
from pyenc import cstr, zlit, err_kind
import periodictable
from periodictable import core, mass

seed, tier = int(sys.argv[1]), sys.argv[2]
nseq, maxlen = int(sys.argv[3]), int(sys.argv[4])
only = sys.argv[5] if len(sys.argv) > 5 else "all"      # all | direct | seq
thorough = tier == "thorough"

PUB = periodictable.elements
PRIVNAME = "private"
PRIV = core.PeriodicTable(PRIVNAME)
mass.init(PRIV)
TABLES = {"public": PUB, PRIVNAME: PRIV}
TTERM = {"public": "TPub", PRIVNAME: "TPriv"}
OTHER = {"public": PRIVNAME, PRIVNAME: "public"}

# ---- an independent reading of the data: element_base and the isotope rows of mass.py
EB = {z: (row[0].lower(), row[1], tuple(sorted(row[2] + row[3]))) for z, row in core.element_base.items()}
SYM2Z = {v[1]: z for z, v in EB.items()}
NAME2Z = {v[0]: z for z, v in EB.items()}
ISOS = {z: set() for z in EB}
for line in mass.isotope_mass.split("\n"):
    zs, sym, a = line.split(",")[0].split("-")
    assert EB[int(zs)][1] == sym
    ISOS[int(zs)].add(int(a))
ISOS[0].add(1)
ISOS[1].update((2, 3))
ALIAS = {"D": (1, 2, "deuterium"), "T": (1, 3, "tritium")}

fails = []


def fail(sig, what, **kw):
    if sum(1 for f in fails if f["signature"] == sig) < 3:
        fails.append(dict(signature=sig, what=what, **kw))


def kind_of(x):
    return 0 if isinstance(x, core.Element) else 1 if isinstance(x, core.Isotope) else 2 if isinstance(x, core.Ion) else None


def describe(x):
    """(table name, kind, Z, A or None, charge) as the object itself reports them"""
    try:
        a = x.isotope
    except AttributeError:
        a = None
    return (x.table, kind_of(x), x.number, a, x.charge)


def attempt(fn):
    try:
        return fn()
    except Exception as e:  # noqa
        return e


# ======================================================================== (a) exhaustive sweep
counts = dict(elements=0, isotopes=0, element_ions=0, isotope_ions=0, invalid_keys=0, route_checks=0)


def same(sig, what, got, want, **kw):
    counts["route_checks"] += 1
    if got is not want:
        fail(sig, "%s returned %r (id %x), the object of that key is %r (id %x)" % (
            what, got, id(got), want, id(want)) if not isinstance(got, Exception)
            else "%s raised %s: %s" % (what, type(got).__name__, got), **kw)
        return False
    return True


def must_raise(sig, what, fn, classes, **kw):
    counts["invalid_keys"] += 1
    r = attempt(fn)
    if not isinstance(r, Exception):
        fail(sig, "%s returned %r instead of raising" % (what, r), returned=repr(r), **kw)
        return False
    if not isinstance(r, classes):
        fail(sig + ":exception-class", "%s raised %s, documented is %s" % (
            what, type(r).__name__, "/".join(c.__name__ for c in classes)), **kw)
        return False
    return True


def roundtrip(tname, x, expr):
    for how, fn in (("pickle", lambda: pickle.loads(pickle.dumps(x))), ("deepcopy", lambda: copy.deepcopy(x))):
        same("C08:%s-identity:%s" % (how, ["element", "isotope", "ion"][kind_of(x)]),
             "%s round trip of %s in the %s table" % (how, expr, tname), attempt(fn), x, table=tname, input=expr)


def check_attrs(tname, x, expr, kind, z, a, q):
    want = (tname, kind, z, a, q)
    got = attempt(lambda: describe(x))
    counts["route_checks"] += 1
    if got != want:
        fail("C08:attributes-differ-from-key", "%s in the %s table reports (table, kind, Z, A, charge) = %r, the key is %r"
             % (expr, tname, got, want), table=tname, input=expr)


def sweep_table(tname, tab):
    modpub = tname == "public"
    els = attempt(lambda: list(tab))
    if isinstance(els, Exception):
        fail("C08:iter-raises", "list(%s table) raised %r" % (tname, els), table=tname)
        return
    zs = [attempt(lambda e=e: e.number) for e in els]
    if zs != sorted(EB):
        fail("C08:iter-order:elements", "iteration over the %s table visits Z = %r..., expected 0..118 increasing once each"
             % (tname, zs[:8]), table=tname, input="list(table)")
    for z in sorted(EB):
        name, sym, ions = EB[z]
        el = attempt(lambda: tab[z])
        if isinstance(el, Exception) or kind_of(el) != 0:
            fail("C08:route:by-number", "table[%d] of the %s table gives %r" % (z, tname, el), table=tname, input=z)
            continue
        counts["elements"] += 1
        E = "%s table[%d]" % (tname, z)
        check_attrs(tname, el, "table[%d]" % z, 0, z, None, 0)
        if (el.symbol, el.name, tuple(el.ions)) != (sym, name, ions):
            fail("C08:attributes-differ-from-key", "%s has symbol/name/ions %r" % (E, (el.symbol, el.name, el.ions)), table=tname, input=z)
        if z < len(els):
            same("C08:route:iteration", "item %d of list(%s table)" % (z, tname), els[z], el, table=tname, input=z)
        same("C08:route:symbol", "%s table.symbol(%r)" % (tname, sym), attempt(lambda: tab.symbol(sym)), el, table=tname, input=sym)
        same("C08:route:name", "%s table.name(%r)" % (tname, name), attempt(lambda: tab.name(name)), el, table=tname, input=name)
        same("C08:route:isotope-string", "%s table.isotope(%r)" % (tname, sym), attempt(lambda: tab.isotope(sym)), el, table=tname, input=sym)
        same("C08:route:table-attribute", "%s table.%s" % (tname, sym), attempt(lambda: getattr(tab, sym)), el, table=tname, input=sym)
        if modpub:
            same("C08:route:module-attribute", "periodictable.%s" % sym, attempt(lambda: getattr(periodictable, sym)), el, table=tname, input=sym)
            same("C08:route:module-attribute", "periodictable.%s" % name, attempt(lambda: getattr(periodictable, name)), el, table=tname, input=name)
        roundtrip(tname, el, "table[%d]" % z)
        other = TABLES[OTHER[tname]]
        same("C08:change-table:element", "change_table(%s, %s table)" % (E, OTHER[tname]),
             attempt(lambda: core.change_table(el, other)), attempt(lambda: other[z]), table=tname, input=z)
        # invalid neighbours of the element's keys
        for bad in sorted(set([sym.lower(), sym.upper(), sym + "x", sym[:-1], sym + " ", " " + sym]) - set(SYM2Z) - set(ALIAS)):
            must_raise("C08:invalid-accepted:symbol", "%s table.symbol(%r)" % (tname, bad), lambda: tab.symbol(bad), (ValueError,), table=tname, input=bad)
            must_raise("C08:invalid-accepted:isotope-string", "%s table.isotope(%r)" % (tname, bad), lambda: tab.isotope(bad), (ValueError,), table=tname, input=bad)
        for bad in sorted(set([name.capitalize(), name.upper(), name + "s", name[:-1], sym, " " + name]) - set(NAME2Z) - set(["deuterium", "tritium"])):
            must_raise("C08:invalid-accepted:name", "%s table.name(%r)" % (tname, bad), lambda: tab.name(bad), (ValueError,), table=tname, input=bad)
        # a name is not a symbol (and 'A-name' is not an isotope string)
        for bad in sorted(set([name, name.capitalize()]) - set(SYM2Z) - set(ALIAS)):
            must_raise("C08:invalid-accepted:symbol", "%s table.symbol(%r)" % (tname, bad), lambda: tab.symbol(bad), (ValueError,), table=tname, input=bad)
            must_raise("C08:invalid-accepted:isotope-string", "%s table.isotope(%r)" % (tname, bad), lambda: tab.isotope(bad), (ValueError,), table=tname, input=bad)
            for A in sorted(ISOS[z])[:1]:
                s_bad = "%d-%s" % (A, bad)
                must_raise("C08:invalid-accepted:isotope-string", "%s table.isotope(%r)" % (tname, s_bad), lambda: tab.isotope(s_bad), (ValueError,), table=tname, input=s_bad)
        # isotopes
        isos = attempt(lambda: list(el))
        if isinstance(isos, Exception):
            fail("C08:iter-raises", "list(%s) raised %r" % (E, isos), table=tname, input=z)
            continue
        As = [attempt(lambda i=i: i.isotope) for i in isos]
        if As != sorted(ISOS[z]) or As != attempt(lambda: el.isotopes):
            fail("C08:iter-order:isotopes", "iteration over %s visits A = %r, the mass table lists %r (el.isotopes %r)"
                 % (E, As[:10], sorted(ISOS[z])[:10], attempt(lambda: el.isotopes[:10])), table=tname, input=z)
        for k, iso in enumerate(isos):
            A = As[k]
            if not isinstance(A, int):
                continue
            counts["isotopes"] += 1
            I = "table[%d][%d]" % (z, A)
            check_attrs(tname, iso, I, 1, z, A, 0)
            same("C08:route:element-getitem", "%s %s" % (tname, I), attempt(lambda: el[A]), iso, table=tname, input=[z, A])
            s = "%d-%s" % (A, sym)
            same("C08:route:isotope-string", "%s table.isotope(%r)" % (tname, s), attempt(lambda: tab.isotope(s)), iso, table=tname, input=s)
            same("C08:add-isotope-recreates", "%s table[%d].add_isotope(%d)" % (tname, z, A), attempt(lambda: el.add_isotope(A)), iso, table=tname, input=[z, A])
            if attempt(lambda: iso.element) is not el:
                fail("C08:attributes-differ-from-key", "%s %s.element is not table[%d]" % (tname, I, z), table=tname, input=[z, A])
            alias = [k2 for k2, v in ALIAS.items() if v[:2] == (z, A)]
            want_sym, want_name = (alias[0], ALIAS[alias[0]][2]) if alias else (sym, name)
            if (attempt(lambda: iso.symbol), attempt(lambda: iso.name)) != (want_sym, want_name):
                fail("C08:attributes-differ-from-key", "%s %s has symbol/name %r" % (tname, I, (iso.symbol, iso.name)), table=tname, input=[z, A])
            roundtrip(tname, iso, I)
            same("C08:change-table:isotope", "change_table(%s %s, %s table)" % (tname, I, OTHER[tname]),
                 attempt(lambda: core.change_table(iso, other)), attempt(lambda: other[z][A]), table=tname, input=[z, A])
            # isotope ions
            for q in ions:
                ion = attempt(lambda: iso.ion[q])
                if isinstance(ion, Exception) or kind_of(ion) != 2:
                    fail("C08:route:ion", "%s %s.ion[%d] gives %r" % (tname, I, q, ion), table=tname, input=[z, A, q])
                    continue
                counts["isotope_ions"] += 1
                Q = "%s.ion[%d]" % (I, q)
                check_attrs(tname, ion, Q, 2, z, A, q)
                same("C08:ion-identity", "second %s %s" % (tname, Q), attempt(lambda: iso.ion[q]), ion, table=tname, input=[z, A, q])
                same("C08:ion-identity", "%s %s.ion[%d]" % (tname, Q, q), attempt(lambda: ion.ion[q]), ion, table=tname, input=[z, A, q])
                if attempt(lambda: ion.element) is not iso:
                    fail("C08:attributes-differ-from-key", "%s %s.element is not %s" % (tname, Q, I), table=tname, input=[z, A, q])
                roundtrip(tname, ion, Q)
                same("C08:change-table:ion", "change_table(%s %s, %s table)" % (tname, Q, OTHER[tname]),
                     attempt(lambda: core.change_table(ion, other)), attempt(lambda: other[z][A].ion[q]), table=tname, input=[z, A, q])
            for q in bad_charges(ions):
                n0 = len(iso.ion.ionset)
                must_raise("C08:invalid-accepted:charge", "%s %s.ion[%d]" % (tname, I, q), lambda: iso.ion[q], (ValueError,), table=tname, input=[z, A, q])
                if len(iso.ion.ionset) != n0:
                    fail("C08:invalid-charge-creates-object", "%s %s.ion[%d] left an entry in the ion cache" % (tname, I, q), table=tname, input=[z, A, q])
        # element ions
        for q in ions:
            ion = attempt(lambda: el.ion[q])
            if isinstance(ion, Exception) or kind_of(ion) != 2:
                fail("C08:route:ion", "%s.ion[%d] gives %r" % (E, q, ion), table=tname, input=[z, q])
                continue
            counts["element_ions"] += 1
            Q = "table[%d].ion[%d]" % (z, q)
            check_attrs(tname, ion, Q, 2, z, None, q)
            same("C08:ion-identity", "second %s %s" % (tname, Q), attempt(lambda: el.ion[q]), ion, table=tname, input=[z, q])
            same("C08:ion-identity", "%s %s.ion[%d]" % (tname, Q, q), attempt(lambda: ion.ion[q]), ion, table=tname, input=[z, q])
            if attempt(lambda: ion.element) is not el:
                fail("C08:attributes-differ-from-key", "%s %s.element is not table[%d]" % (tname, Q, z), table=tname, input=[z, q])
            roundtrip(tname, ion, Q)
            same("C08:change-table:ion", "change_table(%s %s, %s table)" % (tname, Q, OTHER[tname]),
                 attempt(lambda: core.change_table(ion, other)), attempt(lambda: other[z].ion[q]), table=tname, input=[z, q])
        for q in bad_charges(ions):
            n0 = len(el.ion.ionset)
            must_raise("C08:invalid-accepted:charge", "%s.ion[%d]" % (E, q), lambda: el.ion[q], (ValueError,), table=tname, input=[z, q])
            if len(el.ion.ionset) != n0:
                fail("C08:invalid-charge-creates-object", "%s.ion[%d] left an entry in the ion cache" % (E, q), table=tname, input=[z, q])
        # isotope numbers that do not exist
        have = ISOS[z]
        lo, hi = (min(have), max(have)) if have else (1, 1)
        missing = sorted(set([lo - 1, hi + 1, hi + 2, 0, -1, 1000] + [a for a in range(lo, hi) if a not in have]) - have)
        for A in missing:
            must_raise("C08:invalid-accepted:isotope-number", "%s[%d]" % (E, A), lambda: el[A], (KeyError,), table=tname, input=[z, A])
            s = "%d-%s" % (A, sym)
            must_raise("C08:invalid-accepted:isotope-string-zero" if A == 0 else "C08:invalid-accepted:isotope-string",
                       "%s table.isotope(%r) (%s has no isotope %d)" % (tname, s, sym, A), lambda: tab.isotope(s), (ValueError,), table=tname, input=s)
        for s in ["x-" + sym, "1-2-" + sym, "-" + sym, sym + "-", sym + "-%d" % (lo if have else 1), "%d_%s" % (lo, sym),
                  "%d-%s" % (lo, sym.lower()) if sym.lower() not in SYM2Z else "x-" + sym, "%d--%s" % (lo, sym), "1.0-" + sym]:
            must_raise("C08:invalid-accepted:isotope-string", "%s table.isotope(%r)" % (tname, s), lambda: tab.isotope(s), (ValueError,), table=tname, input=s)
    # D and T
    for a_sym, (z, A, a_name) in ALIAS.items():
        want = attempt(lambda: tab[z][A])
        same("C08:route:table-attribute", "%s table.%s" % (tname, a_sym), attempt(lambda: getattr(tab, a_sym)), want, table=tname, input=a_sym)
        same("C08:route:symbol", "%s table.symbol(%r)" % (tname, a_sym), attempt(lambda: tab.symbol(a_sym)), want, table=tname, input=a_sym)
        same("C08:route:name", "%s table.name(%r)" % (tname, a_name), attempt(lambda: tab.name(a_name)), want, table=tname, input=a_name)
        same("C08:route:isotope-string", "%s table.isotope(%r)" % (tname, a_sym), attempt(lambda: tab.isotope(a_sym)), want, table=tname, input=a_sym)
        if modpub:
            same("C08:route:module-attribute", "periodictable.%s" % a_sym, attempt(lambda: getattr(periodictable, a_sym)), want, table=tname, input=a_sym)
            same("C08:route:module-attribute", "periodictable.%s" % a_name, attempt(lambda: getattr(periodictable, a_name)), want, table=tname, input=a_name)
        for s in ["4-" + a_sym, "%d-%s" % (A, a_sym), "1-" + a_sym, "x-" + a_sym]:
            must_raise("C08:invalid-accepted:isotope-string", "%s table.isotope(%r)" % (tname, s), lambda: tab.isotope(s), (ValueError,), table=tname, input=s)
        s = "0-" + a_sym
        must_raise("C08:invalid-accepted:isotope-string-zero", "%s table.isotope(%r)" % (tname, s), lambda: tab.isotope(s), (ValueError,), table=tname, input=s)
        must_raise("C08:invalid-accepted:name", "%s table.name(%r)" % (tname, a_sym), lambda: tab.name(a_sym), (ValueError,), table=tname, input=a_sym)
    for key in (26.5, 0.75, 1.0000001, "26", None):
        must_raise("C08:invalid-accepted:number", "%s table[%r]" % (tname, key), lambda: tab[key], (KeyError, TypeError), table=tname, input=repr(key))
    for z_, a_ in ((26, 56.9), (1, 2.5), (8, "16")):
        must_raise("C08:invalid-accepted:isotope-number", "%s table[%d][%r]" % (tname, z_, a_), lambda: tab[z_][a_], (KeyError, TypeError), table=tname, input=[z_, repr(a_)])
    for z in (-1, 119, 120, 1000):
        must_raise("C08:invalid-accepted:number", "%s table[%d]" % (tname, z), lambda: tab[z], (KeyError,), table=tname, input=z)
    for s in ["", "properties", "_element", "symbol", "isotope", "Xx", "H2", "h"]:
        must_raise("C08:invalid-accepted:symbol", "%s table.symbol(%r)" % (tname, s), lambda: tab.symbol(s), (ValueError,), table=tname, input=s)
        must_raise("C08:invalid-accepted:name", "%s table.name(%r)" % (tname, s), lambda: tab.name(s), (ValueError,), table=tname, input=s)
        must_raise("C08:invalid-accepted:isotope-string", "%s table.isotope(%r)" % (tname, s), lambda: tab.isotope(s), (ValueError,), table=tname, input=s)


def bad_charges(ions):
    return [q for q in range(-6, 10) if q not in ions]


def dropped_table():
    """atoms of a private table the caller no longer holds: they still name their table, and pickling or copying
    them must give the same objects back"""
    import gc

    def make():
        t = core.PeriodicTable("dropped")
        mass.init(t)
        return [("dropped[26]", t[26]), ("dropped[26][56]", t[26][56]), ("dropped[26].ion[2]", t[26].ion[2]),
                ("dropped[26][56].ion[3]", t[26][56].ion[3]), ("dropped.D", t.D), ("dropped[0]", t[0])]
    atoms = make()
    gc.collect()
    for expr, x in atoms:
        roundtrip("dropped", x, expr)


def direct_sweep():
    for tname, tab in TABLES.items():
        try:
            sweep_table(tname, tab)
        except Exception as e:  # noqa
            fail("C08:sweep-raises", "sweep of the %s table raised %s: %s" % (tname, type(e).__name__, e),
                 table=tname, trace=traceback.format_exc()[-800:])
    for a_name in ("deuterium", "tritium"):
        for tname, tab in TABLES.items():
            must_raise("C08:invalid-accepted:symbol", "%s table.symbol(%r)" % (tname, a_name), lambda: tab.symbol(a_name), (ValueError,), table=tname, input=a_name)
            must_raise("C08:invalid-accepted:isotope-string", "%s table.isotope(%r)" % (tname, a_name), lambda: tab.isotope(a_name), (ValueError,), table=tname, input=a_name)
    try:
        ns = {}
        core.define_elements(PUB, ns)
        core.define_elements(PRIV, ns)          # exporting another table replaces what the namespace held
        for key in ("Fe", "iron", "D", "deuterium", "n", "H", "hydrogen"):
            want = PRIV.name(key) if key.islower() and len(key) > 2 else PRIV.symbol(key)
            same("C08:route:define_elements", "define_elements(private table, namespace that already holds %r)" % key,
                 ns.get(key), want, table="private", input=key)
    except Exception as e:  # noqa
        fail("C08:sweep-raises", "define_elements raised %s: %s" % (type(e).__name__, e), trace=traceback.format_exc()[-600:])
    try:
        second = attempt(lambda: core.PeriodicTable(PRIVNAME))
        if not isinstance(second, Exception):
            # a second table under a name in use: atoms of the first must still come back as themselves
            roundtrip(PRIVNAME, PRIV[26], "private[26] after a second PeriodicTable(%r) was created" % PRIVNAME)
            roundtrip(PRIVNAME, PRIV[26][56].ion[2], "private[26][56].ion[2] after a second PeriodicTable(%r) was created" % PRIVNAME)
            core.PRIVATE_TABLES[PRIVNAME] = PRIV
        # element names against the second place the package spells them: the atomic-weight table of mass.py
        alias = {"aluminium": "aluminum", "caesium": "cesium"}
        for line in mass.element_mass.split("\n"):
            t = line.split()
            z, nm = int(t[0]), alias.get(t[2], t[2])
            el = PUB[z]
            if el.symbol == t[1] and el.name != nm:
                fail("C08:name-differs-from-mass-table", "elements[%d].name is %r, the atomic-weight table of mass.py names %s %r"
                     % (z, el.name, t[1], t[2]), table="public", input=z)
            if el.symbol == t[1]:
                same("C08:route:name", "public table.name(%r)" % nm, attempt(lambda: PUB.name(nm)), el, table="public", input=nm)
    except Exception as e:  # noqa
        fail("C08:sweep-raises", "the duplicate-name / name-table statements raised %s: %s" % (type(e).__name__, e), trace=traceback.format_exc()[-600:])
    try:
        dropped_table()
    except Exception as e:  # noqa
        fail("C08:sweep-raises", "the dropped-table history raised %s: %s" % (type(e).__name__, e), trace=traceback.format_exc()[-800:])
    # one object per key over everything visited: different keys never share an object
    for tname, tab in TABLES.items():
        seen = {}
        for el in tab:
            objs = [el] + [el.ion[q] for q in el.ions]
            for iso in el:
                objs += [iso] + [iso.ion[q] for q in el.ions]
            for x in objs:
                if id(x) in seen:
                    fail("C08:shared-object", "%r and %r of the %s table are one object" % (seen[id(x)], x, tname), table=tname)
                seen[id(x)] = x
        other = TABLES[OTHER[tname]]
        if any(other[el.number] is el for el in tab):
            fail("C08:shared-object", "the %s and %s tables share element objects" % (tname, OTHER[tname]), table=tname)


# ======================================================================== (b) operation sequences
class Prog:
    """Runs operations on the library, recording Coq terms, outcomes and the keyed-map oracle."""

    def __init__(self):
        self.regs, self.ops, self.obs, self.txt = [], [], [], []
        self.classes, self.keep = {}, []
        self.canon = {}
        self.added = {}        # (table, z) -> isotope numbers added by this program
        self.fails = []

    def cls(self, x):
        self.keep.append(x)
        return self.classes.setdefault(id(x), len(self.classes) + 1)

    def fail(self, sig, what, **kw):
        self.fails.append(dict(signature=sig, what=what + "; program: " + "; ".join(self.txt), program=list(self.txt), **kw))

    def oracle(self, x, text):
        """key -> one object"""
        try:
            k = describe(x)
        except Exception as e:  # noqa
            self.fail("C08:attributes-raise", "%s returned an object whose attributes raise %r" % (text, e))
            return None
        if k in self.canon and self.canon[k] is not x:
            self.fail("C08:two-objects-for-one-key", "%s returned a second object for key (table, kind, Z, A, charge) = %r" % (text, k), key=list(k))
        self.canon.setdefault(k, x)
        return k

    def record(self, opterm, text, result, expect=None, valid=None, sig="C08:invalid-accepted:key"):
        """expect: key the result must have; valid: False when the key is invalid and the call must raise"""
        self.ops.append(opterm)
        self.txt.append(text)
        if isinstance(result, Exception):
            self.obs.append("VErr %s" % err_kind(result))
            if valid is True:
                self.fail("C08:valid-key-raises", "%s raised %s: %s" % (text, type(result).__name__, result))
            return
        if isinstance(result, list):
            self.obs.append("VList [%s]" % "; ".join(
                "(%d%%positive, %s)" % (self.cls(x), zlit(x.isotope if kind_of(x) == 1 else x.number)) for x in result))
            for x in result:
                self.oracle(x, text)
                self.regs.append(x)
            return
        k = self.oracle(result, text)
        if k is None or kind_of(result) is None or k[0] not in TTERM:
            self.obs.append("VErr OtherErr")
            return
        self.obs.append("VObj %d%%positive %d%%N %s %s %s %s" % (
            self.cls(result), k[1], TTERM[k[0]], zlit(k[2]), "None" if k[3] is None else "(Some %s)" % zlit(k[3]), zlit(k[4])))
        self.regs.append(result)
        if valid is False:
            self.fail(sig, "%s returned %r instead of raising" % (text, result))
        elif expect is not None and tuple(expect) != k:
            self.fail("C08:attributes-differ-from-key", "%s returned the object with (table, kind, Z, A, charge) = %r, the key is %r"
                      % (text, k, tuple(expect)))

    # ---- the operations
    def by_z(self, t, z):
        self.record("ByZ %s %s" % (TTERM[t], zlit(z)), "%s[%d]" % (t, z), attempt(lambda: TABLES[t][z]),
                    expect=(t, 0, z, None, 0), valid=z in EB, sig="C08:invalid-accepted:number")

    def sym_key(self, t, s):
        if s in SYM2Z:
            return (t, 0, SYM2Z[s], None, 0)
        if s in ALIAS:
            return (t, 1, ALIAS[s][0], ALIAS[s][1], 0)
        return None

    def by_symbol(self, t, s):
        k = self.sym_key(t, s)
        self.record("BySymbol %s %s" % (TTERM[t], cstr(s)), "%s.symbol(%r)" % (t, s), attempt(lambda: TABLES[t].symbol(s)),
                    expect=k, valid=k is not None, sig="C08:invalid-accepted:symbol")

    def by_name(self, t, s):
        k = (t, 0, NAME2Z[s], None, 0) if s in NAME2Z else None
        for a_sym, (z, A, a_name) in ALIAS.items():
            if s == a_name:
                k = (t, 1, z, A, 0)
        self.record("ByName %s %s" % (TTERM[t], cstr(s)), "%s.name(%r)" % (t, s), attempt(lambda: TABLES[t].name(s)),
                    expect=k, valid=k is not None, sig="C08:invalid-accepted:name")

    def iso_key(self, t, s):
        parts = s.split("-")
        if len(parts) == 1:
            return self.sym_key(t, s)
        if len(parts) == 2 and parts[1] in SYM2Z:
            try:
                A = int(parts[0])
            except ValueError:
                return None
            z = SYM2Z[parts[1]]
            if A in ISOS[z] or A in self.added.get((t, z), ()):
                return (t, 1, z, A, 0)
        return None

    def by_iso_string(self, t, s):
        k = self.iso_key(t, s)
        parts = s.split("-")
        zero = len(parts) == 2 and isinstance(attempt(lambda: int(parts[0])), int) and int(parts[0]) == 0
        self.record("ByIsoString %s %s" % (TTERM[t], cstr(s)), "%s.isotope(%r)" % (t, s), attempt(lambda: TABLES[t].isotope(s)),
                    expect=k, valid=k is not None,
                    sig="C08:invalid-accepted:isotope-string-zero" if zero else "C08:invalid-accepted:isotope-string")

    def mod_attr(self, s):
        k = self.sym_key("public", s)
        if s in NAME2Z:
            k = ("public", 0, NAME2Z[s], None, 0)
        for a_sym, (z, A, a_name) in ALIAS.items():
            if s == a_name:
                k = ("public", 1, z, A, 0)
        r = attempt(lambda: getattr(periodictable, s))
        if not isinstance(r, Exception) and kind_of(r) is None:
            return          # some other attribute of the module: not a lookup route
        self.record("ModuleAttr %s" % cstr(s), "periodictable.%s" % s, r, expect=k, valid=k is not None,
                    sig="C08:invalid-accepted:module-attribute")

    def get_iso(self, i, A):
        x = self.regs[i]
        k = describe(x)
        ok = k[1] == 0 and (A in ISOS[k[2]] or A in self.added.get((k[0], k[2]), ()))
        self.record("GetIso %d%%N %s" % (i, zlit(A)), "r%d[%d]" % (i, A), attempt(lambda: x[A]),
                    expect=(k[0], 1, k[2], A, 0), valid=ok, sig="C08:invalid-accepted:isotope-number")

    def get_ion(self, i, q):
        x = self.regs[i]
        k = describe(x)
        self.record("GetIon %d%%N %s" % (i, zlit(q)), "r%d.ion[%d]" % (i, q), attempt(lambda: x.ion[q]),
                    expect=(k[0], 2, k[2], k[3], q), valid=q in EB[k[2]][2], sig="C08:invalid-accepted:charge")

    def add_iso(self, i, A):
        x = self.regs[i]
        k = describe(x)
        self.added.setdefault((k[0], k[2]), set()).add(A)
        self.record("AddIso %d%%N %s" % (i, zlit(A)), "r%d.add_isotope(%d)" % (i, A), attempt(lambda: x.add_isotope(A)),
                    expect=(k[0], 1, k[2], A, 0), valid=True)

    def pickle(self, i, deep):
        x = self.regs[i]
        r = attempt((lambda: copy.deepcopy(x)) if deep else (lambda: pickle.loads(pickle.dumps(x))))
        text = ("deepcopy(r%d)" if deep else "pickle(r%d)") % i
        if r is not x:
            self.fail("C08:%s-identity:%s" % ("deepcopy" if deep else "pickle", ["element", "isotope", "ion"][kind_of(x)]),
                      "%s of %r did not return the object itself but %r" % (text, x, r))
        self.record("Pickle %d%%N" % i, text, r, expect=describe(x), valid=True)

    def change_table(self, i, t):
        x = self.regs[i]
        k = describe(x)
        ok = k[3] is None or k[3] in ISOS[k[2]] or k[3] in self.added.get((t, k[2]), ())
        self.record("ChangeTable %d%%N %s" % (i, TTERM[t]), "change_table(r%d, %s)" % (i, t),
                    attempt(lambda: core.change_table(x, TABLES[t])), expect=(t,) + k[1:], valid=ok,
                    sig="C08:change-table:missing-isotope-accepted")

    def iter_elements(self, t):
        r = attempt(lambda: list(TABLES[t]))
        if isinstance(r, list) and [x.number for x in r] != sorted(EB):
            self.fail("C08:iter-order:elements", "list(%s) visits Z = %r..." % (t, [x.number for x in r][:6]))
        self.record("IterElements %s" % TTERM[t], "list(%s)" % t, r)

    def iter_isotopes(self, i):
        x = self.regs[i]
        r = attempt(lambda: list(x))
        if isinstance(r, list):
            As = [y.isotope for y in r]
            k = describe(x)
            want = sorted(ISOS[k[2]] | self.added.get((k[0], k[2]), set()))
            if As != want:
                self.fail("C08:iter-order:isotopes", "list(r%d) visits A = %r, expected %r" % (i, As[:12], want[:12]))
        self.record("IterIsotopes %d%%N" % i, "list(r%d)" % i, r)

    def case(self):
        return "([%s], [%s])" % ("; ".join(self.ops), "; ".join(self.obs))


def systematic(tname, z, iso_share):
    """all routes of one element of one table"""
    p = Prog()
    name, sym, ions = EB[z]
    p.by_z(tname, z)
    if not p.regs:
        return p
    p.by_symbol(tname, sym)
    p.by_name(tname, name)
    p.by_iso_string(tname, sym)
    if tname == "public":
        p.mod_attr(sym)
        p.mod_attr(name)
    p.iter_isotopes(0)
    p.pickle(0, False)
    p.pickle(0, True)
    p.change_table(0, OTHER[tname])
    for q in ions:
        p.get_ion(0, q)
        r = len(p.regs) - 1
        p.get_ion(0, q)
        p.get_ion(r, q)
        p.pickle(r, q % 2 == 0)
        p.change_table(r, OTHER[tname])
        p.change_table(len(p.regs) - 1, tname)
    for q in bad_charges(ions)[:6]:
        p.get_ion(0, q)
    have = sorted(ISOS[z])
    for n, A in enumerate(have):
        p.get_iso(0, A)
        r = len(p.regs) - 1
        p.by_iso_string(tname, "%d-%s" % (A, sym))
        p.add_iso(0, A)
        p.pickle(r, A % 2 == 0)
        p.change_table(r, OTHER[tname])
        if iso_share is None or (n + z) % 8 == iso_share:
            for q in ions:
                p.get_ion(r, q)
                rq = len(p.regs) - 1
                p.get_ion(rq, q)
                p.pickle(rq, q % 2 == 1)
                p.change_table(rq, OTHER[tname])
    lo, hi = (have[0], have[-1]) if have else (1, 1)
    for A in [lo - 1, hi + 1, 0, -1]:
        if A not in have:
            p.get_iso(0, A)
            p.by_iso_string(tname, "%d-%s" % (A, sym))
    for s in ["x-" + sym, "1-2-" + sym, "-" + sym, sym + "-", " %d -%s" % (lo, sym), "+%d-%s" % (lo, sym), "0%d-%s" % (lo, sym),
              "%d_0-%s" % (lo, sym), "%d-%s " % (lo, sym)]:
        p.by_iso_string(tname, s)
    for s in sorted(set([sym.lower(), sym.upper(), sym + "x"]) - set(SYM2Z) - set(ALIAS)):
        p.by_symbol(tname, s)
        p.by_iso_string(tname, s)
    for s in [name.capitalize(), name + "s", sym]:
        if s not in NAME2Z:
            p.by_name(tname, s)
    if z == 1:
        for s in ["D", "T"]:
            p.by_symbol(tname, s)
            p.by_iso_string(tname, s)
            p.by_iso_string(tname, "4-" + s)
            p.by_iso_string(tname, "0-" + s)
            if tname == "public":
                p.mod_attr(s)
        for s in ["deuterium", "tritium"]:
            p.by_name(tname, s)
            if tname == "public":
                p.mod_attr(s)
        p.add_iso(0, 7)
        p.by_iso_string(tname, "7-H")
        p.change_table(len(p.regs) - 1, OTHER[tname])
        p.iter_isotopes(0)
    if z in (0, 118):
        p.by_z(tname, z - 1 if z == 0 else z + 1)
        p.iter_elements(tname)
    return p


SYMS = sorted(SYM2Z)
NAMES = sorted(NAME2Z)


def random_program(rng, length):
    p = Prog()
    tn = lambda: rng.choice(["public", PRIVNAME])  # noqa

    def pick(pred=None):
        idx = [i for i, x in enumerate(p.regs) if pred is None or pred(x)]
        return rng.choice(idx) if idx else None

    def some_iso(z, valid):
        have = sorted(ISOS[z])
        if valid and have:
            return rng.choice(have)
        lo, hi = (have[0], have[-1]) if have else (1, 1)
        return rng.choice([lo - 1, hi + 1, 0, -1, hi + 7, 999])

    while len(p.ops) < length:
        k = rng.choice(["z", "sym", "name", "isostr", "isostr", "mod", "getiso", "getiso", "getion", "getion", "getion",
                        "addiso", "pickle", "pickle", "change", "change", "iterel", "iteriso", "iteriso"])
        if k == "z":
            p.by_z(tn(), rng.choice(sorted(EB) + [-1, 119]) if rng.random() < 0.9 else rng.randint(-3, 125))
        elif k == "sym":
            s = rng.choice(SYMS + ["D", "T"])
            if rng.random() < 0.25:
                s = rng.choice([s.lower(), s.upper(), s + "x", "", "properties", s + " "])
            p.by_symbol(tn(), s)
        elif k == "name":
            s = rng.choice(NAMES + ["deuterium", "tritium"])
            if rng.random() < 0.25:
                s = rng.choice([s.capitalize(), s + "s", rng.choice(SYMS), ""])
            p.by_name(tn(), s)
        elif k == "isostr":
            sym = rng.choice(SYMS)
            z = SYM2Z[sym]
            u = rng.random()
            if u < 0.45:
                s = "%d-%s" % (some_iso(z, True), sym)
            elif u < 0.6:
                s = rng.choice([sym, "D", "T"])
            elif u < 0.75:
                s = "%d-%s" % (some_iso(z, False), sym)
            else:
                A = some_iso(z, True)
                s = rng.choice(["x-" + sym, "1-2-" + sym, "4-D", "2-D", "0-D", "0-T", "0-" + sym, " %d -%s" % (A, sym),
                                "+%d-%s" % (A, sym), "0%d-%s" % (A, sym), "%d-%s" % (A, sym.lower()), "-%d-%s" % (A, sym),
                                "%d-" % A, "-" + sym, "", "-", "%d_%d-%s" % (A // 10, A % 10, sym), "_%d-%s" % (A, sym),
                                "%d_-%s" % (A, sym), "%d-%s " % (A, sym), "%d - %s" % (A, sym), "1e1-" + sym])
            p.by_iso_string(tn(), s)
        elif k == "mod":
            s = rng.choice(SYMS + NAMES + ["D", "T", "deuterium", "tritium"])
            if rng.random() < 0.2:
                s = rng.choice([s.capitalize() if s.islower() else s.lower(), s + "x"])
            p.mod_attr(s)
        elif k == "getiso":
            i = pick(lambda x: kind_of(x) == 0) if rng.random() < 0.85 else pick()
            if i is None:
                continue
            d = describe(p.regs[i])
            extra = sorted(p.added.get((d[0], d[2]), ()))
            A = rng.choice(extra) if extra and rng.random() < 0.3 else some_iso(d[2], rng.random() < 0.75)
            p.get_iso(i, A)
        elif k == "getion":
            i = pick()
            if i is None:
                continue
            ions = EB[describe(p.regs[i])[2]][2]
            q = rng.choice(ions) if ions and rng.random() < 0.8 else rng.choice(bad_charges(ions))
            p.get_ion(i, q)
        elif k == "addiso":
            i = pick()
            if i is None:
                continue
            z = describe(p.regs[i])[2]
            p.add_iso(i, some_iso(z, True) if rng.random() < 0.4 else rng.choice([max(ISOS[z] or [1]) + rng.randint(1, 3), 400 + rng.randint(0, 3)]))
        elif k == "pickle":
            i = pick()
            if i is not None:
                p.pickle(i, rng.random() < 0.5)
        elif k == "change":
            i = pick()
            if i is not None:
                p.change_table(i, tn())
        elif k == "iterel":
            if rng.random() < 0.15:
                p.iter_elements(tn())
        elif k == "iteriso":
            i = pick(lambda x: kind_of(x) == 0) if rng.random() < 0.85 else pick()
            if i is not None:
                p.iter_isotopes(i)
    return p


def in_child(fn):
    """run fn() in a forked child (fresh library state for every sequence); returns its JSON-able result"""
    r, w = os.pipe()
    pid = os.fork()
    if pid == 0:
        try:
            os.close(r)
            try:
                out = dict(ok=fn())
            except Exception as e:  # noqa
                out = dict(error="%s: %s" % (type(e).__name__, e), trace=traceback.format_exc()[-1500:])
            with os.fdopen(w, "w") as f:
                json.dump(out, f)
        finally:
            os._exit(0)
    os.close(w)
    with os.fdopen(r) as f:
        data = f.read()
    os.waitpid(pid, 0)
    return json.loads(data) if data else dict(error="child died")


def pack(p):
    return dict(case=p.case(), txt=p.txt, fails=p.fails, n=len(p.ops),
                errs=sum(1 for o in p.obs if o.startswith("VErr")), objs=len(p.classes))


cases, meta, stats = [], [], dict(systematic=0, random=0, ops=0, error_outcomes=0, objects=0, kinds={})


def add(res, label):
    if "error" in res:
        fail("C08:harness-sequence-raises", "sequence %s raised in the harness: %s" % (label, res["error"]), trace=res.get("trace"))
        return
    d = res["ok"]
    cases.append(d["case"])
    meta.append([label] + d["txt"])
    stats["ops"] += d["n"]
    stats["error_outcomes"] += d["errs"]
    stats["objects"] += d["objs"]
    for t in d["txt"]:
        kd = re.sub(r"r\d+", "r", re.sub(r"\(.*|\[.*", "", t)).replace("public", "T").replace(PRIVNAME, "T")
        kd = "periodictable.X" if kd.startswith("periodictable.") else kd
        stats["kinds"][kd] = stats["kinds"].get(kd, 0) + 1
    for f in d["fails"]:
        fail(f["signature"], f["what"], program=f.get("program"))


def direct_packed():
    direct_sweep()
    return dict(fails=fails, counts=counts)


# the exhaustive sweep runs first, in its own child: it creates every ion, the sequences below
# must start from the freshly imported library
if only in ("all", "direct"):
    res = in_child(direct_packed)
    if "error" in res:
        fail("C08:sweep-raises", "the exhaustive sweep raised: %s" % res["error"], trace=res.get("trace"))
    else:
        fails.extend(res["ok"]["fails"])
        counts = res["ok"]["counts"]

if only in ("all", "seq"):
    share = None if thorough else seed % 8
    for tname in TABLES:
        for z in sorted(EB):
            add(in_child(lambda: pack(systematic(tname, z, share))), "systematic %s Z=%d" % (tname, z))
            stats["systematic"] += 1
    for i in range(nseq):
        rng = random.Random(seed * 7919 + i)
        length = rng.randint(3, maxlen)
        add(in_child(lambda: pack(random_program(rng, length))), "random %d" % i)
        stats["random"] += 1

json.dump(dict(cases=cases, meta=meta, direct_fails=fails, counts=counts, stats=stats), sys.stdout)
