"""Shared helpers of the neutron harnesses (C03, C04, C16, C17): the atoms with neutron data, random
compounds over them, encoding of calls as Coq terms of Model/C03Check.c03case, and an independent
evaluation of the documented equations ("full scattering equations" of neutron_scattering's
docstring) from the implementation's own tabulated fields."""
import math, random
import numpy as np
from pyenc import enc, enc_float, zlit, cstr, attempt
from fcommon import qterm, atom_key, atom_term, get_atom, struct_term, optq_term
import periodictable
from periodictable import core, nsf, nsf_tables, constants, formulas

TABLE = periodictable.elements


# ---------------------------------------------------------------- atoms
def base_atoms(table=TABLE):
    out = []
    for el in table:
        out.append(el)
        for i in el.isotopes:
            out.append(el[i])
    return out


def classify(table=TABLE):
    """(atoms the code serves: has_sld), (tabulated b_c but no has_sld), (no b_c)"""
    with_sld, bc_only, none = [], [], []
    for a in base_atoms(table):
        n = a.neutron
        # classified from the data, not from has_sld(): an atom has an sld when it has a tabulated b_c and its
        # element has a density (a b_c of 0, as for natural Sm with its energy-dependent table, still counts)
        el = getattr(a, "element", a)
        if n.b_c is not None and el.density is not None and el.mass:
            with_sld.append(a)
        elif n.b_c is not None:
            bc_only.append(a)
        else:
            none.append(a)
    return with_sld, bc_only, none


def table_atoms(table=TABLE):
    """atoms carrying an energy-dependent table: the rows of nsf_tables.ENERGY_DEPENDENT_TABLES and natural Lu
    (mixed from its isotopes by energy_dependent_init) - named from the source data, not from what the
    library has attached so far"""
    want = set(nsf_tables.ENERGY_DEPENDENT_TABLES) | {("Lu", None)}
    return [a for a in base_atoms(table) if (a.symbol, getattr(a, "isotope", None) if core.isisotope(a) else None) in want]


def node_wavelengths(atom):
    return [float(x) for x in atom.neutron.nsf_table[0]]


class NPool:
    """compounds over the atoms with neutron data (elements, isotopes, their ions)"""

    def __init__(self, rng, table=TABLE):
        self.rng = rng
        self.table = table
        self.with_sld, self.bc_only, self.none = classify(table)
        self.tab = table_atoms(table)
        self.common = [table[z] for z in (1, 6, 7, 8, 14, 26, 17, 11)] + [table[1][2]]

    def ionize(self, a):
        el = a.element if core.isisotope(a) else a
        if el.ions and self.rng.random() < 0.25:
            return a.ion[self.rng.choice(el.ions)]
        return a

    def atom(self, ions=True):
        r = self.rng.random()
        if r < 0.55:
            a = self.rng.choice(self.with_sld)
        elif r < 0.8:
            a = self.rng.choice(self.common)
        else:
            a = self.rng.choice(self.tab)
        return self.ionize(a) if ions else a

    def count(self):
        rng = self.rng
        r = rng.random()
        if r < 0.45:
            return rng.randint(1, 12)
        if r < 0.6:
            return rng.randint(1, 40) / 4.0
        if r < 0.9:
            return round(rng.uniform(0.01, 30), rng.randint(1, 4))
        return float("%.3g" % (10 ** rng.uniform(-3, 3)))

    def nested(self, depth, width=3, ions=True, must=()):
        rng = self.rng
        seq = [(self.count(), a) for a in must]
        for _ in range(rng.randint(1, width)):
            if depth > 0 and rng.random() < 0.35:
                seq.append((self.count(), self.nested(depth - 1, width, ions)))
            else:
                seq.append((self.count(), self.atom(ions)))
        rng.shuffle(seq)
        return tuple(seq)

    def density(self):
        r = self.rng.random()
        if r < 0.1:
            return 25.0
        if r < 0.2:
            return float("%.3g" % (10 ** self.rng.uniform(-4, 0)))
        return max(round(self.rng.uniform(0.01, 25), self.rng.randint(1, 5)), 0.01)

    def wavelength(self, atoms=()):
        """in [0.05, 50]; for table atoms also exact nodes, both clamped ends, interior points"""
        rng = self.rng
        tabs = [a for a in atoms if getattr(a, "neutron", None) is not None and a.neutron.nsf_table is not None]
        r = rng.random()
        if tabs and r < 0.6:
            nodes = node_wavelengths(rng.choice(tabs))
            k = rng.random()
            if k < 0.3:
                return rng.choice(nodes)
            if k < 0.4:
                return rng.choice([nodes[0], nodes[-1]])
            if k < 0.5:
                return rng.choice([0.05, nodes[0] * 0.9, nodes[-1] * 1.1, 50.0, nodes[-1] + 1e-9, nodes[0] - 1e-9])
            j = rng.randrange(len(nodes) - 1)
            return nodes[j] + rng.random() * (nodes[j + 1] - nodes[j])
        if r < 0.7:
            return rng.choice([0.05, 50.0, 1.798, 1.0, 4.75, 6.0])
        if r < 0.85:
            return round(rng.uniform(0.05, 50), rng.randint(1, 4))
        return float("%.4g" % (10 ** rng.uniform(math.log10(0.05), math.log10(50))))


def flat_atoms(seq, out=None):
    out = [] if out is None else out
    for c, f in seq:
        if core.isatom(f):
            out.append(f)
        else:
            flat_atoms(f, out)
    return out


# ---------------------------------------------------------------- encoding
def tolist(v):
    if isinstance(v, np.ndarray):
        return [float(x) for x in v.tolist()] if v.ndim else float(v)
    if isinstance(v, (np.floating,)):
        return float(v)
    return v


def enc_result(res):
    """result of neutron_scattering / neutron_sld / Neutron.scattering / .sld as a pyval term"""
    if isinstance(res, BaseException):
        return enc(res)
    if res is None:
        return "PNone"
    def leaf(v):
        v = tolist(v)
        if isinstance(v, list):
            return "(PL [%s])" % "; ".join(enc(x) for x in v)
        return enc(v)
    def tup(t):
        return "(PL [%s])" % "; ".join(leaf(x) for x in t)
    if len(res) == 3 and isinstance(res[0], tuple):
        return "(PL [%s; %s; %s])" % (tup(res[0]), tup(res[1]), leaf(res[2]))
    return tup(res)


def qlist(xs):
    return "[" + "; ".join(qterm(float(x)) for x in xs) + "]"


def call_term(call, seq, density, natural_density, wkind, vector, wvals, res):
    return "(CCall %d %s %s %s %d %s %s %s)" % (
        call, struct_term(seq), optq_term(density), optq_term(natural_density), wkind,
        "true" if vector else "false", qlist(wvals), enc_result(res))


def conv_term(kind, x, res):
    return "(CConv %d %s %s)" % (kind, qterm(float(x)), enc(float(res)) if not isinstance(res, BaseException) else enc(res))


def run_call(call, seq, density=None, natural_density=None, wkind=0, vector=False, wvals=(), as_list=False):
    """perform the call on the implementation; returns the raw result (or the exception)"""
    kw = {}
    if wkind:
        if vector:
            vals = [float(x) for x in wvals]
            if vals and all(v == int(v) for v in vals):
                vals = [int(v) for v in vals]     # whole numbers travel as integers: [2, 4, 7] and arange(2, 7) are wavelengths too
            arg = vals if as_list else np.array(vals)
        else:
            arg = float(wvals[0])
        kw["wavelength" if wkind == 1 else "energy"] = arg
    if call in (0, 1):
        fn = nsf.neutron_scattering if call == 0 else nsf.neutron_sld
        comp = seq
        if len(seq) == 1 and seq[0][0] == 1 and core.isatom(seq[0][1]):
            comp = seq[0][1]          # formula(atom): default density of the atom
        return watched(kw, "%s(%r)" % (fn.__name__, seq), lambda: attempt(fn, comp, density=density, natural_density=natural_density, **kw))
    atom = seq[0][1]
    fn = atom.neutron.scattering if call == 2 else atom.neutron.sld
    return watched(kw, "%r.neutron.%s" % (atom, fn.__name__), lambda: attempt(fn, **kw))


# calls that changed an array handed to them (the caller's wavelengths/energies must be left alone)
ARG_MODIFIED = []


def watched(kw, text, thunk):
    arrs = [(k, v, v.copy()) for k, v in kw.items() if isinstance(v, np.ndarray)]
    res = thunk()
    for k, v, before in arrs:
        if not np.array_equal(v, before, equal_nan=True):
            ARG_MODIFIED.append("%s overwrote the caller's %s array: %r became %r" % (text, k, before.tolist()[:5], v.tolist()[:5]))
            v[...] = before
    return res


# ---------------------------------------------------------------- Formula objects carrying their own density
TAGGED = ["H2O@1.2", "CaCO3@2.71", "C6H12O6@1.54", "D2O@1.1n", "SiO2@2.2", "Gd2O3@7.41", "B4C@2.52", "NaCl@2.16n",
          "C3H4H[1]NO@1.29n", "Fe{2+}SO4@3.65"]


def formula_object(rng, pool, kind=None):
    """(Formula object that already has a density, how it was built)"""
    from periodictable import formulas as F
    kind = kind or rng.choice(["density", "density", "natural", "tag", "single", "mix_weight", "mix_volume", "rmul"])
    if kind == "density":
        seq = pool.nested(rng.randint(0, 2))
        rho = pool.density()
        return F.formula(seq, density=rho), "formula(%r, density=%r)" % (seq, rho)
    if kind == "natural":
        seq = pool.nested(rng.randint(0, 2))
        while not F.formula(seq).mass > 0:      # a formula without mass has no natural density (outside the domain)
            seq = pool.nested(rng.randint(0, 2))
        rho = pool.density()
        return F.formula(seq, natural_density=rho), "formula(%r, natural_density=%r)" % (seq, rho)
    if kind == "tag":
        t = rng.choice(TAGGED)
        return F.formula(t), "formula(%r)" % t
    if kind == "single":
        a = rng.choice([x for x in pool.with_sld if x.density is not None])
        return F.formula(a), "formula(%r)" % (a,)
    if kind == "rmul":
        t = rng.choice(TAGGED)
        k = rng.choice([2, 3, 0.5])
        return k * F.formula(t), "%r*formula(%r)" % (k, t)
    a, b = rng.sample(TAGGED, 2)
    qa, qb = rng.randint(1, 9), rng.randint(1, 9)
    if kind == "mix_weight":
        return F.mix_by_weight(a, qa, b, qb), "mix_by_weight(%r, %r, %r, %r)" % (a, qa, b, qb)
    return F.mix_by_volume(a, qa, b, qb), "mix_by_volume(%r, %r, %r, %r)" % (a, qa, b, qb)


def run_call_formula(call, fobj, density=None, natural_density=None, wkind=0, vector=False, wvals=(), as_list=False):
    """call 0/1: nsf.neutron_scattering / neutron_sld on the Formula object with the keywords;
    call 4: fobj.neutron_sld(...)"""
    kw = {}
    if wkind:
        if vector:
            vals = [float(x) for x in wvals]
            if vals and all(v == int(v) for v in vals):
                vals = [int(v) for v in vals]     # whole numbers travel as integers: [2, 4, 7] and arange(2, 7) are wavelengths too
            arg = vals if as_list else np.array(vals)
        else:
            arg = float(wvals[0])
        kw["wavelength" if wkind == 1 else "energy"] = arg
    if call == 4:
        return watched(kw, "Formula.neutron_sld", lambda: attempt(fobj.neutron_sld, **kw))
    fn = nsf.neutron_scattering if call == 0 else nsf.neutron_sld
    if density is not None:
        kw["density"] = density
    if natural_density is not None:
        kw["natural_density"] = natural_density
    return watched(kw, "%s(Formula object)" % fn.__name__, lambda: attempt(fn, fobj, **kw))


def callf_term(call, fobj, density, natural_density, wkind, vector, wvals, res):
    return "(CCallF %d %s %s %s %s %d %s %s %s)" % (
        call, struct_term(fobj.structure), optq_term(fobj.density), optq_term(density), optq_term(natural_density), wkind,
        "true" if vector else "false", qlist(wvals), enc_result(res))


def natural_ratio_of(atoms):
    num = den = 0.0
    for a, n in atoms.items():
        b = base_of(a)
        el = b.element if core.isisotope(b) else b
        num += n * (el.mass - constants.electron_mass * getattr(a, "charge", 0))
        den += n * a.mass
    return num / den


def documented_density(fobj, density, natural_density):
    """density= is the mass density, natural_density= converts through the natural mass ratio; only
    without both the formula's own density is used"""
    if natural_density is not None:
        return natural_density / natural_ratio_of(count_struct(fobj.structure))
    if density is not None:
        return density
    return fobj.density


# ---------------------------------------------------------------- the documented equations, independently
H, EV, MN, U, NA = (constants.plancks_constant, constants.electron_volt, constants.neutron_mass,
                    constants.atomic_mass_constant, constants.avogadro_number)
EF_DOC = (H * H * EV) / (2 * MN * U) * 1e20 * 1000
VF_DOC = (H * EV) / (MN * U) * 1e10


def doc_interp(x, xs, ys):
    if x <= xs[0]:
        return ys[0]
    if x >= xs[-1]:
        return ys[-1]
    for j in range(len(xs) - 1):
        if xs[j] <= x < xs[j + 1]:
            return ys[j] + (ys[j + 1] - ys[j]) * (x - xs[j]) / (xs[j + 1] - xs[j])
    raise AssertionError


def doc_table(atom):
    """(wavelengths increasing, complex b) from the source table of the atom, or None"""
    el = atom.element if core.isisotope(atom) else atom
    iso = atom.isotope if core.isisotope(atom) else None
    rows = nsf_tables.ENERGY_DEPENDENT_TABLES.get((el.symbol, iso))
    if rows is None:
        return None
    pts = sorted(((math.sqrt(EF_DOC / (1000 * r[0])), complex(r[1], r[2])) for r in rows), key=lambda p: p[0])
    return [p[0] for p in pts], [p[1] for p in pts]


def base_of(atom):
    return atom.element if core.ision(atom) else atom


def doc_atom(atom, lam):
    """(Re b, Im b, sigma_s) of the documentation for one atom at wavelength lam, from the tabulated
    b_c, absorption, total and the source energy tables"""
    a = base_of(atom)
    n = a.neutron
    t = doc_table(a)
    if t is None and core.iselement(a) and a.symbol == "Lu":
        xs, ys = doc_table(a[176])
        b176 = doc_interp(lam, xs, ys)
        n175 = a[175].neutron
        b175 = complex(n175.b_c, -n175.absorption / (1000 * 2 * 1.798))
        b = (b175 * a[175].abundance + b176 * a[176].abundance) / 100
        return b.real, b.imag, 4 * math.pi * abs(b) ** 2 / 100
    if t is not None:
        b = doc_interp(lam, t[0], t[1])
        return b.real, b.imag, 4 * math.pi * abs(b) ** 2 / 100
    return n.b_c, -n.absorption / (1000 * 2 * 1.798), n.total


def count_struct(seq, mult=1.0, out=None):
    out = {} if out is None else out
    for c, f in seq:
        if core.isatom(f):
            out[f] = out.get(f, 0) + c * mult
        else:
            count_struct(f, c * mult, out)
    return out


def doc_equations(atoms, rho, lam):
    """the seven outputs (+ scales) of the documentation for {atom: n}, density rho, wavelength lam"""
    ntot = sum(atoms.values())
    m = sum(n * a.mass for a, n in atoms.items())
    V = m / rho * (1 / NA) * (1e8) ** 3
    N = ntot / V
    per = {a: doc_atom(a, lam) for a in atoms}
    bre = sum(n * per[a][0] for a, n in atoms.items()) / ntot
    bim = sum(n * per[a][1] for a, n in atoms.items()) / ntot
    ss = sum(n * per[a][2] for a, n in atoms.items()) / ntot
    A = sum(abs(n * per[a][0]) for a, n in atoms.items()) / ntot
    B = sum(abs(n * per[a][1]) for a, n in atoms.items()) / ntot
    sc = 4 * math.pi * (bre * bre + bim * bim) / 100
    sc_abs = 4 * math.pi * (A * A + B * B) / 100
    k = 2 * math.pi / lam
    sa = -1000 * 4 * math.pi * bim / k
    si = max(ss - sc, 0.0)
    rho_re = N * bre * 1e-5 * 1e6
    rho_im = N * sa * 1e-8 / (2 * lam) * 1e6
    rho_inc2 = (N * 1e-5 * 1e6) ** 2 * (si / (4 * math.pi) * 100)
    S = lambda x: N * x * 1e-8 * 1e8
    vals = [rho_re, rho_im, math.sqrt(rho_inc2), S(sc), S(sa), S(si), 1 / (S(ss) + S(sa))]
    scales = [10 * N * A, 10 * N * B, (10 * N) ** 2 * (ss + sc_abs) / (4 * math.pi / 100), N * sc_abs,
              N * 2000 * B * lam, N * (ss + sc_abs), vals[6]]
    return vals, scales


NAMES = ["sld_re", "sld_im", "sld_inc", "coh_xs", "abs_xs", "inc_xs", "penetration"]


def flatten_result(res, vector, n):
    """7 (or 3) lists of n floats from a result tuple; None when the shape is wrong"""
    if not isinstance(res, tuple):
        return None
    items = list(res[0]) + list(res[1]) + [res[2]] if (len(res) == 3 and isinstance(res[0], tuple)) else list(res)
    out = []
    for v in items:
        v = tolist(v)
        if vector:
            if not isinstance(v, list) or len(v) != n:
                return None
            out.append([float(x) for x in v])
        else:
            if isinstance(v, list) or v is None:
                return None
            out.append([float(v)])
    return out


def compare_doc(obs, vals, scales, tol=2e-9):
    """indices of the outputs that differ from the documented value (sld_inc in the squared domain)"""
    bad = []
    for j, p in enumerate(obs):
        if j == 2:
            ok = p >= 0 and abs(p * p - vals[2] ** 2) <= tol * scales[2]
        else:
            ok = abs(p - vals[j]) <= tol * abs(scales[j])
        if not ok:
            bad.append(j)
    return bad
