"""C01 harness: strings rendered from random derivation trees of the documented compound grammar
(any nesting, every element/isotope/ion of the table, all count spellings, separators, density
tags) and a fixed list of unambiguous malformations of them; parsed with the public table and with
a private table."""
import json, sys, random
from pyenc import enc, attempt, cstr, err_kind
from fcommon import *
import periodictable
from periodictable import core, mass, density
from periodictable.formulas import formula, Formula

seed, ncase, maxdepth = int(sys.argv[1]), int(sys.argv[2]), int(sys.argv[3])
rng = random.Random(seed)
PUB = periodictable.elements
PRIV = core.PeriodicTable("verif_c01_%d" % seed)
mass.init(PRIV)
density.init(PRIV)

import treegen
treegen.init(rng, PUB)
from treegen import (gen_tree, render, c_tree, r_elem, r_comp, r_group, gen_count, gen_elem, gen_comp,
                     ocstr, INT_COUNTS, DEC_COUNTS)

def all_elems(comp, out):
    for _, g in comp:
        if g["kind"] == "imp":
            out.extend(g["es"])
        else:
            all_elems(g["inner"], out)
    return out


MAL_KINDS = ["unknown-symbol", "isotope-undefined", "charge-undefined", "paren-missing", "paren-extra",
             "count-malformed", "isotope-tag", "ion-tag", "density-tag"]


def malform(tree, kind):
    """returns a malformed string derived from the tree, or None when the kind does not apply"""
    import copy
    comp, dens = copy.deepcopy(tree)
    es = all_elems(comp, [])
    e = rng.choice(es)
    if kind == "unknown-symbol":
        e["sym"] = rng.choice(["Xx", "Zz", "J", "Q", "Ab", "Hx", "A"])
        e["iso"] = None
    elif kind == "isotope-undefined":
        if e["sym"] in ("D", "T"):
            return None
        el = getattr(PUB, e["sym"])
        cand = [a for a in (1, 2, 5, 300, 999, (el.isotopes[-1] + 1 if el.isotopes else 7)) if a not in el.isotopes]
        e["iso"] = str(rng.choice(cand))
    elif kind == "charge-undefined":
        el = PUB.H if e["sym"] in ("D", "T") else getattr(PUB, e["sym"])
        cand = [q for q in (9, -9, 8, -8, 12, -7, 7, -6) if q not in el.ions]
        q = rng.choice(cand)
        e["ion"] = (str(abs(q)), q < 0)
    elif kind == "paren-missing":
        s = render((comp, dens))
        idx = [i for i, ch in enumerate(s) if ch in "()"]
        if not idx:
            return None
        i = rng.choice(idx)
        return s[:i] + s[i + 1:]
    elif kind == "paren-extra":
        s = render((comp, None))
        return rng.choice([s + ")", "(" + s, s + "(", ")" + s]) + ("@" + dens[1] if dens else "")
    elif kind == "count-malformed":
        e["cnt"] = rng.choice(["0", "02", "00.5", "007", "0x", "-2", "2e3x", "1,5", "1/2", "2*"])
    elif kind == "isotope-tag":
        s = render((comp, dens))
        j = s.find(e["sym"])
        tag = rng.choice(["[]", "[0]", "[018]", "[1.5]", "[18", "[x]", "[-2]", " [18]" if False else "[1 8]"])
        k = j + len(e["sym"])
        # drop an existing isotope tag right after the symbol
        rest = s[k:]
        if rest.startswith("["):
            rest = rest[rest.index("]") + 1:]
        return s[:k] + tag + rest
    elif kind == "ion-tag":
        e["ion"] = None
        s_before = r_elem(dict(e, cnt=None))
        tag = rng.choice(["{}", "{+2}", "{0+}", "{2+", "{2}", "{++}", "{2*}", "{02+}"])
        marker = "\x00"
        e2 = dict(e)
        e["sym"] = e["sym"]
        # rebuild with a placeholder to insert the tag after symbol+isotope
        cnt = e["cnt"]
        e["cnt"] = marker
        s = render((comp, dens))
        return s.replace(marker, tag + (cnt or ""))
    elif kind == "density-tag":
        s = render((comp, None))
        return s + rng.choice(["@", "@x", "@1x", "@@1", "@-1", "@1.2.3", "@ 1", "@n", "@1nn", "@0", "@01"])
    return render((comp, dens))


def observe(s, table):
    f = attempt(formula, s, table=table)
    if isinstance(f, Exception):
        return "(OErr %s)" % err_kind(f), f
    atoms = f.atoms
    intab = all(get_atom(table, atom_key(a)) is a for a in atoms)
    at = "[" + "; ".join("(%s, %s)" % (atom_term(a), qterm(c)) for a, c in atoms.items()) + "]"
    return "(OForm %s %s %s %s %s)" % (struct_term(f.structure), at, enc(f.density), enc(attempt(lambda: f.charge)),
                                       "true" if intab else "false"), f


cases, meta, fails = [], [], []
stats = dict(grammar=0, malformed={}, private=0, depth={}, with_density=0, nested=0)


def ref_counts(comp, mult, out):
    for _, g in comp:
        k = float(g["cnt"]) if g["cnt"] else 1
        if g["kind"] == "imp":
            for e in g["es"]:
                c = float(e["cnt"]) if e["cnt"] else 1
                key = (e["sym"], e["iso"], e["ion"])
                out[key] = out.get(key, 0) + mult * k * c
        else:
            ref_counts(g["inner"], mult * k, out)
    return out


def direct_check(tree, s, f, tname):
    """the property read directly: counts multiply their group, repeats add"""
    if isinstance(f, Exception):
        fails.append(dict(signature="C01:grammar-string-rejected:%s" % type(f).__name__,
                          what="formula(%r) raised %s: %s" % (s, type(f).__name__, f), string=s, table=tname))
        return
    ref = ref_counts(tree[0], 1, {})
    got = {}
    for a, c in f.atoms.items():
        z, A, q = atom_key(a)
        got[(PUB[z].symbol, A, q)] = c
    exp = {}
    for (sym, iso, ion), c in ref.items():
        q = 0
        if ion is not None:
            q = (int(ion[0]) if ion[0] else 1) * (-1 if ion[1] else 1)
        A = int(iso) if iso else 0
        if sym in ("D", "T"):
            sym, A = "H", (2 if sym == "D" else 3)
        k = (sym, A, q)
        exp[k] = exp.get(k, 0) + c
    bad = set(exp) != set(got) or any(abs(exp[k] - got[k]) > 1e-9 * abs(exp[k]) for k in exp)
    if bad:
        # classify: blank-only separator after ')' before a counted group
        sig = "C01:atoms"
        import re
        if re.search(r"\)[ \t]+[0-9.]", s):
            sig = "C01:paren-space-count"
        fails.append(dict(signature=sig, what="formula(%r).atoms = %r, the grammar reads %r" % (s, got, exp), string=s, table=tname))


# ---- corpus of minimised past failures and guide examples, evaluated first (direct statement only)
import os
_corpus = os.path.join(os.path.dirname(os.path.abspath(__file__)), "..", "..", "corpus", "C01.jsonl")
if os.path.exists(_corpus):
    for line in open(_corpus):
        line = line.strip()
        if not line:
            continue
        c = json.loads(line)
        for table, tname in ((PUB, "public"), (PRIV, "private")):
            f = attempt(formula, c["string"], table=table)
            if c.get("reject"):
                if not isinstance(f, Exception):
                    fails.append(dict(signature="C01:corpus:malformed-accepted:" + c["string"], what="corpus: malformed string %r yields %s (%s)"
                                      % (c["string"], f, c.get("why")), string=c["string"], table=tname))
            else:
                got = None if isinstance(f, Exception) else {a.symbol: n for a, n in f.atoms.items()}
                if got != c["atoms"]:
                    fails.append(dict(signature="C01:corpus:atoms:" + c["string"], what="corpus: formula(%r).atoms = %r, the grammar reads %r (%s)"
                                      % (c["string"], got if got is not None else repr(f), c["atoms"], c.get("why")), string=c["string"], table=tname))
    stats["corpus"] = sum(1 for l in open(_corpus) if l.strip())

# ---- wide strings: several hundred DISTINCT ions (and isotope ions), each written twice far apart, so that
# any per-ion cache that recreates ions shows as an atom counted once instead of twice
def wide_string(k):
    ions = []
    for el in ELEMENTS_ALL:
        for q in el.ions:
            ions.append((el.symbol, None, q))
            if el.isotopes and rng.random() < 0.3:
                ions.append((el.symbol, rng.choice(el.isotopes), q))
    rng.shuffle(ions)
    ions = ions[:k]
    def txt(sym, iso, q):
        return sym + ("[%d]" % iso if iso else "") + "{%s%s}" % (abs(q) if abs(q) > 1 else "", "+" if q > 0 else "-")
    half = "".join(txt(*x) for x in ions)
    return half + " + " + half, ions


ELEMENTS_ALL = [el for el in PUB if el.number >= 1]
for k in (40, 180, 420):
    s_w, ions_w = wide_string(k)
    for table, tname in ((PUB, "public"), (PRIV, "private")):
        f = attempt(formula, s_w, table=table)
        if isinstance(f, Exception):
            fails.append(dict(signature="C01:wide-string-rejected", what="a string of %d ions written twice raises %s" % (k, type(f).__name__), string=s_w[:200], table=tname))
            continue
        bad = [(a, c) for a, c in f.atoms.items() if c != 2]
        if len(f.atoms) != len(set(ions_w)) or bad:
            fails.append(dict(signature="C01:repeated-atoms-do-not-add", what="formula of %d distinct ions each written twice has %d atoms; e.g. %r has count %r (expected 2): "
                              "the same ion of one table is not the same object" % (len(set(ions_w)), len(f.atoms), bad[0][0] if bad else None, bad[0][1] if bad else None),
                              string=s_w[:300] + " ...", table=tname))
    obs_w, _ = observe(s_w, PUB)
    cases.append("(mkC01 None %s %s)" % (cstr(s_w), obs_w)) if False else None
stats["wide_strings"] = 3

for i in range(ncase):
    depth = rng.randint(0, maxdepth)
    tree = gen_tree(depth)
    table, tname = (PRIV, "private") if i % 4 == 3 else (PUB, "public")
    if i % 3 == 2:
        kind = MAL_KINDS[(i // 3) % len(MAL_KINDS)]
        s = malform(tree, kind)
        if s is None:
            continue
        obs, f = observe(s, table)
        cases.append("(mkC01 None %s %s)" % (cstr(s), obs))
        meta.append(dict(kind=kind, string=s, table=tname))
        stats["malformed"][kind] = stats["malformed"].get(kind, 0) + 1
        if not isinstance(f, Exception):
            fails.append(dict(signature="C01:malformed-accepted:%s" % (kind if kind != "density-tag" else "density-tag:" + s[s.rindex("@"):][:4]),
                              what="malformed string %r (%s) yields a formula %s" % (s, kind, f), string=s, table=tname))
    else:
        s = render(tree)
        obs, f = observe(s, table)
        cases.append("(mkC01 (Some %s) %s %s)" % (c_tree(tree), cstr(s), obs))
        meta.append(dict(kind="grammar", string=s, table=tname))
        stats["grammar"] += 1
        stats["depth"][depth] = stats["depth"].get(depth, 0) + 1
        stats["with_density"] += 1 if tree[1] else 0
        direct_check(tree, s, f, tname)
    stats["private"] += 1 if tname == "private" else 0
# ---- a private table whose data differ from the public ones: what the parser takes from the table while parsing (the default
# density of a one-element formula, the masses behind the '@..n' conversion, the isotopes that exist) is taken from THAT table
try:
    T2 = core.PeriodicTable("verif_c01_changed_%d" % seed)
    mass.init(T2)
    density.init(T2)
    T2.Cm._density = 11.1
    T2.Fe._density = 7.0
    T2.D._mass = 2.5
    T2.O.add_isotope(30)
    T2.O[30]._mass = 30.05
    stats["changed_private"] = 0

    def note(sig, what, s_):
        fails.append(dict(signature=sig, what=what, string=s_, table="private (changed data)"))
    for s_, want in (("Cm", 11.1), ("3Cm", 11.1), ("Fe2", 7.0), ("(Fe)3", 7.0)):
        f_ = attempt(lambda: formula(s_, table=T2))
        stats["changed_private"] += 1
        if isinstance(f_, Exception) or f_.density != want:
            note("C01:private-table-data:default-density", "formula(%r, table=T) has density %r; T's %s has density %r"
                 % (s_, f_ if isinstance(f_, Exception) else f_.density, s_.strip("()0123456789"), want), s_)
    for s_ in ("D2O@1n", "2D2O + H2O@1n", "CD4@0.5n"):
        f_ = attempt(lambda: formula(s_, table=T2))
        stats["changed_private"] += 1
        if isinstance(f_, Exception):
            note("C01:private-table-data:natural-density", "formula(%r, table=T) raises %r" % (s_, f_), s_)
            continue
        nat = sum(c * (T2[a.number].mass) for a, c in f_.atoms.items())
        iso = sum(c * a.mass for a, c in f_.atoms.items())
        want = float(s_.split("@")[1].rstrip("n")) * iso / nat
        if any((getattr(a, "table", None) or a.element.table) != T2.D.table for a in f_.atoms) or abs(f_.density - want) > 1e-12 * want:
            note("C01:private-table-data:natural-density", "formula(%r, table=T) has density %r; with T's masses (T.D.mass = 2.5) the tag means %r"
                 % (s_, f_.density, want), s_)
    # ... and what a string denotes follows the table as it is now: the same strings parsed again after another edit
    T2.Cm._density = 12.2
    T2.D._mass = 2.25
    for s_, chk in (("Cm", lambda f: f.density == 12.2), ("3Cm", lambda f: f.density == 12.2),
                    ("D2O@1n", lambda f: abs(f.density - (2 * 2.25 + T2.O.mass) / (2 * T2.H.mass + T2.O.mass)) < 1e-12)):
        f_ = attempt(lambda: formula(s_, table=T2))
        stats["changed_private"] += 1
        if isinstance(f_, Exception) or not chk(f_):
            note("C01:private-table-data:stale-after-edit", "after T.Cm._density = 12.2 and T.D._mass = 2.25, formula(%r, table=T) (parsed before the "
                 "edit as well) has density %r" % (s_, f_ if isinstance(f_, Exception) else f_.density), s_)
    f_ = attempt(lambda: formula("H2O[30]", table=T2))
    stats["changed_private"] += 1
    if isinstance(f_, Exception) or not any(a is T2.O[30] for a in f_.atoms):
        note("C01:private-table-data:isotope", "formula('H2O[30]', table=T) gives %r although T defines O[30]" % (f_,), "H2O[30]")
    f_ = attempt(lambda: formula("H2O[30]"))
    if not isinstance(f_, Exception):
        note("C01:malformed-accepted:undefined-isotope", "formula('H2O[30]') on the public table yields %s (only the private table defines O[30])" % f_, "H2O[30]")
except Exception as e:  # noqa
    import traceback
    fails.append(dict(signature="C01:private-table-data:raises", what="the changed-private-table statements raised %s: %s" % (type(e).__name__, e),
                      string="", trace=traceback.format_exc()[-500:]))
json.dump(dict(cases=cases, meta=meta, direct_fails=fails, stats=stats), sys.stdout)
