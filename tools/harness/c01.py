"""C01 harness: strings rendered from random derivation trees of the documented compound grammar
(any nesting, every element/isotope/ion of the table, all count spellings, separators, density
tags) and a fixed list of unambiguous malformations of them; parsed with the public table and with
a private table."""
import json, sys, random
from pyenc import enc, attempt, cstr, err_kind
from fcommon import *
import periodictable
from periodictable import core, mass, density
from periodictable.formulas import formula, Formula

seed, ncase, maxdepth = int(sys.argv[1]), int(sys.argv[2]), int(sys.argv[3])
rng = random.Random(seed)
PUB = periodictable.elements
PRIV = core.PeriodicTable("verif_c01_%d" % seed)
mass.init(PRIV)
density.init(PRIV)

ELEMENTS = [el for el in PUB if el.number >= 1]
INT_COUNTS = ["2", "3", "4", "6", "10", "12", "25", "100"]
DEC_COUNTS = ["0.5", ".5", "1.5", "2.75", "12.50", "1.", "3.", "0.125", "7.0625", ".25", "1.4214", "0.1", "32.4395"]


def ocstr(s):
    return "None" if s is None else "(Some %s)" % cstr(s)


def gen_count(p=0.5):
    if rng.random() > p:
        return None
    return rng.choice(INT_COUNTS) if rng.random() < 0.6 else rng.choice(DEC_COUNTS)


def gen_elem():
    r = rng.random()
    if r < 0.08:
        sym, el, base = rng.choice([("D", PUB.H, PUB.D), ("T", PUB.H, PUB.T)])
        iso = None
    else:
        el = rng.choice(ELEMENTS) if rng.random() < 0.7 else PUB[rng.choice([1, 6, 7, 8, 11, 17, 20, 26, 14, 15, 29, 92])]
        sym, base = el.symbol, el
        iso = None
        if rng.random() < 0.25 and el.isotopes:
            iso = str(rng.choice(el.isotopes))
    ion = None
    if rng.random() < 0.25 and el.ions:
        q = rng.choice(el.ions)
        digits = "" if (abs(q) == 1 and rng.random() < 0.5) else str(abs(q))
        ion = (digits, q < 0)
    return dict(sym=sym, iso=iso, ion=ion, cnt=gen_count(0.55))


def gen_sep(force_nonempty):
    if force_nonempty:
        return rng.choice([(" ", False, ""), ("", True, ""), (" ", True, " "), ("  ", False, ""), ("\t", False, ""), ("", True, " ")])
    return rng.choice([("", False, ""), (" ", False, ""), ("", True, ""), (" ", True, " "), ("", False, "")])


def gen_group(depth):
    if depth > 0 and rng.random() < 0.45:
        inner = gen_comp(depth - 1)
        return dict(kind="exp", lsp=rng.choice(["", "", "", " "]), inner=inner, rsp=rng.choice(["", "", "", " "]),
                    cnt=gen_count(0.7))
    return dict(kind="imp", cnt=gen_count(0.3), es=[gen_elem() for _ in range(rng.randint(1, 4))])


def gen_comp(depth):
    n = rng.randint(1, 3)
    out = []
    for i in range(n):
        g = gen_group(depth)
        # unambiguous under the documented grammar: a group that begins with a count, and an
        # implicit group that follows an implicit group, are preceded by a non-empty separator
        lead = g["kind"] == "imp" and (g["cnt"] is not None or (out and out[-1][1]["kind"] == "imp"))
        sep = ("", False, "") if i == 0 else gen_sep(lead)
        out.append((sep, g))
    return out


def r_elem(e):
    s = e["sym"]
    if e["iso"] is not None:
        s += "[" + e["iso"] + "]"
    if e["ion"] is not None:
        s += "{" + e["ion"][0] + ("-" if e["ion"][1] else "+") + "}"
    return s + (e["cnt"] or "")


def r_group(g):
    if g["kind"] == "imp":
        return (g["cnt"] or "") + "".join(r_elem(e) for e in g["es"])
    return "(" + g["lsp"] + r_comp(g["inner"]) + g["rsp"] + ")" + (g["cnt"] or "")


def r_comp(c):
    out = ""
    for i, (sep, g) in enumerate(c):
        if i:
            out += sep[0] + ("+" if sep[1] else "") + sep[2]
        out += r_group(g)
    return out


def c_elem(e):
    ion = "None" if e["ion"] is None else "(Some (%s, %s))" % (cstr(e["ion"][0]), "true" if e["ion"][1] else "false")
    return "(mkElem %s %s %s %s)" % (cstr(e["sym"]), ocstr(e["iso"]), ion, ocstr(e["cnt"]))


def c_sep(s):
    return "(mkSep %s %s %s)" % (cstr(s[0]), "true" if s[1] else "false", cstr(s[2]))


def c_group(g):
    if g["kind"] == "imp":
        return "(GImp %s [%s])" % (ocstr(g["cnt"]), "; ".join(c_elem(e) for e in g["es"]))
    return "(GExp %s %s %s %s)" % (cstr(g["lsp"]), c_comp(g["inner"]), cstr(g["rsp"]), ocstr(g["cnt"]))


def c_comp(c):
    return "[" + "; ".join("(%s, %s)" % (c_sep(s), c_group(g)) for s, g in c) + "]"


def gen_tree(depth):
    comp = gen_comp(depth)
    dens = None
    if rng.random() < 0.4:
        dens = (rng.choice(["", "", " "]), rng.choice(["1", "2.16", "0.5", "1.112", "7.874", ".9", "19.3", "2."]),
                rng.choice([None, None, "n", "i"]))
    return comp, dens


def render(tree):
    comp, dens = tree
    s = r_comp(comp)
    if dens:
        s += dens[0] + "@" + dens[1] + (dens[2] or "")
    return s


def c_tree(tree):
    comp, dens = tree
    d = "None" if dens is None else "(Some (%s, %s, %s))" % (cstr(dens[0]), cstr(dens[1]),
                                                          "None" if dens[2] is None else '(Some "%s"%%char)' % dens[2])
    return "(mkC %s %s)" % (c_comp(comp), d)


def all_elems(comp, out):
    for _, g in comp:
        if g["kind"] == "imp":
            out.extend(g["es"])
        else:
            all_elems(g["inner"], out)
    return out


MAL_KINDS = ["unknown-symbol", "isotope-undefined", "charge-undefined", "paren-missing", "paren-extra",
             "count-malformed", "isotope-tag", "ion-tag", "density-tag"]


def malform(tree, kind):
    """returns a malformed string derived from the tree, or None when the kind does not apply"""
    import copy
    comp, dens = copy.deepcopy(tree)
    es = all_elems(comp, [])
    e = rng.choice(es)
    if kind == "unknown-symbol":
        e["sym"] = rng.choice(["Xx", "Zz", "J", "Q", "Ab", "Hx", "A"])
        e["iso"] = None
    elif kind == "isotope-undefined":
        if e["sym"] in ("D", "T"):
            return None
        el = getattr(PUB, e["sym"])
        cand = [a for a in (1, 2, 5, 300, 999, (el.isotopes[-1] + 1 if el.isotopes else 7)) if a not in el.isotopes]
        e["iso"] = str(rng.choice(cand))
    elif kind == "charge-undefined":
        el = PUB.H if e["sym"] in ("D", "T") else getattr(PUB, e["sym"])
        cand = [q for q in (9, -9, 8, -8, 12, -7, 7, -6) if q not in el.ions]
        q = rng.choice(cand)
        e["ion"] = (str(abs(q)), q < 0)
    elif kind == "paren-missing":
        s = render((comp, dens))
        idx = [i for i, ch in enumerate(s) if ch in "()"]
        if not idx:
            return None
        i = rng.choice(idx)
        return s[:i] + s[i + 1:]
    elif kind == "paren-extra":
        s = render((comp, None))
        return rng.choice([s + ")", "(" + s, s + "(", ")" + s]) + ("@" + dens[1] if dens else "")
    elif kind == "count-malformed":
        e["cnt"] = rng.choice(["0", "02", "00.5", "007", "0x", "-2", "2e3x", "1,5", "1/2", "2*"])
    elif kind == "isotope-tag":
        s = render((comp, dens))
        j = s.find(e["sym"])
        tag = rng.choice(["[]", "[0]", "[018]", "[1.5]", "[18", "[x]", "[-2]", " [18]" if False else "[1 8]"])
        k = j + len(e["sym"])
        # drop an existing isotope tag right after the symbol
        rest = s[k:]
        if rest.startswith("["):
            rest = rest[rest.index("]") + 1:]
        return s[:k] + tag + rest
    elif kind == "ion-tag":
        e["ion"] = None
        s_before = r_elem(dict(e, cnt=None))
        tag = rng.choice(["{}", "{+2}", "{0+}", "{2+", "{2}", "{++}", "{2*}", "{02+}"])
        marker = "\x00"
        e2 = dict(e)
        e["sym"] = e["sym"]
        # rebuild with a placeholder to insert the tag after symbol+isotope
        cnt = e["cnt"]
        e["cnt"] = marker
        s = render((comp, dens))
        return s.replace(marker, tag + (cnt or ""))
    elif kind == "density-tag":
        s = render((comp, None))
        return s + rng.choice(["@", "@x", "@1x", "@@1", "@-1", "@1.2.3", "@ 1", "@n", "@1nn", "@0", "@01"])
    return render((comp, dens))


def observe(s, table):
    f = attempt(formula, s, table=table)
    if isinstance(f, Exception):
        return "(OErr %s)" % err_kind(f), f
    atoms = f.atoms
    intab = all(get_atom(table, atom_key(a)) is a for a in atoms)
    at = "[" + "; ".join("(%s, %s)" % (atom_term(a), qterm(c)) for a, c in atoms.items()) + "]"
    return "(OForm %s %s %s %s %s)" % (struct_term(f.structure), at, enc(f.density), enc(attempt(lambda: f.charge)),
                                       "true" if intab else "false"), f


cases, meta, fails = [], [], []
stats = dict(grammar=0, malformed={}, private=0, depth={}, with_density=0, nested=0)


def ref_counts(comp, mult, out):
    for _, g in comp:
        k = float(g["cnt"]) if g["cnt"] else 1
        if g["kind"] == "imp":
            for e in g["es"]:
                c = float(e["cnt"]) if e["cnt"] else 1
                key = (e["sym"], e["iso"], e["ion"])
                out[key] = out.get(key, 0) + mult * k * c
        else:
            ref_counts(g["inner"], mult * k, out)
    return out


def direct_check(tree, s, f, tname):
    """the property read directly: counts multiply their group, repeats add"""
    if isinstance(f, Exception):
        fails.append(dict(signature="C01:grammar-string-rejected:%s" % type(f).__name__,
                          what="formula(%r) raised %s: %s" % (s, type(f).__name__, f), string=s, table=tname))
        return
    ref = ref_counts(tree[0], 1, {})
    got = {}
    for a, c in f.atoms.items():
        z, A, q = atom_key(a)
        got[(PUB[z].symbol, A, q)] = c
    exp = {}
    for (sym, iso, ion), c in ref.items():
        q = 0
        if ion is not None:
            q = (int(ion[0]) if ion[0] else 1) * (-1 if ion[1] else 1)
        A = int(iso) if iso else 0
        if sym in ("D", "T"):
            sym, A = "H", (2 if sym == "D" else 3)
        k = (sym, A, q)
        exp[k] = exp.get(k, 0) + c
    bad = set(exp) != set(got) or any(abs(exp[k] - got[k]) > 1e-9 * abs(exp[k]) for k in exp)
    if bad:
        # classify: blank-only separator after ')' before a counted group
        sig = "C01:atoms"
        import re
        if re.search(r"\)[ \t]+[0-9.]", s):
            sig = "C01:paren-space-count"
        fails.append(dict(signature=sig, what="formula(%r).atoms = %r, the grammar reads %r" % (s, got, exp), string=s, table=tname))


for i in range(ncase):
    depth = rng.randint(0, maxdepth)
    tree = gen_tree(depth)
    table, tname = (PRIV, "private") if i % 4 == 3 else (PUB, "public")
    if i % 3 == 2:
        kind = MAL_KINDS[(i // 3) % len(MAL_KINDS)]
        s = malform(tree, kind)
        if s is None:
            continue
        obs, f = observe(s, table)
        cases.append("(mkC01 None %s %s)" % (cstr(s), obs))
        meta.append(dict(kind=kind, string=s, table=tname))
        stats["malformed"][kind] = stats["malformed"].get(kind, 0) + 1
        if not isinstance(f, Exception):
            fails.append(dict(signature="C01:malformed-accepted:%s" % (kind if kind != "density-tag" else "density-tag:" + s[s.rindex("@"):][:4]),
                              what="malformed string %r (%s) yields a formula %s" % (s, kind, f), string=s, table=tname))
    else:
        s = render(tree)
        obs, f = observe(s, table)
        cases.append("(mkC01 (Some %s) %s %s)" % (c_tree(tree), cstr(s), obs))
        meta.append(dict(kind="grammar", string=s, table=tname))
        stats["grammar"] += 1
        stats["depth"][depth] = stats["depth"].get(depth, 0) + 1
        stats["with_density"] += 1 if tree[1] else 0
        direct_check(tree, s, f, tname)
    stats["private"] += 1 if tname == "private" else 0
json.dump(dict(cases=cases, meta=meta, direct_fails=fails, stats=stats), sys.stdout)
