"""C16 harness: nsf.D2O_sld / nsf.D2O_match on compounds with 0..n labile hydrogens (H[1]), with D or
natural H already present, all molecules of the fasta tables and some sequences; D2O fraction and volume
fraction on an 11x11 grid plus random points; several wavelengths / energies.

direct_fails evaluates the property on the implementation alone: at volume fraction 1 the result is the
neutron_sld of the directly substituted compound at unchanged cell volume; at 0 the H2O/D2O mixture;
linear in between; the match point makes the real SLD independent of the volume fraction; the fasta
classes report the same match point (x100) and SLDs."""
import json, sys, random, math
import numpy as np
from c03lib import *
from periodictable import fasta
from periodictable.formulas import formula

seed, ncases, tier = int(sys.argv[1]), int(sys.argv[2]), sys.argv[3]
rng = random.Random(seed + 1616)
pool = NPool(rng)
H1, H, Dt, O = TABLE[1][1], TABLE[1], TABLE[1][2], TABLE[8]
cases, meta, fails = [], [], []
stats = dict(compounds=0, grid_points=0, random_points=0, no_labile=0, with_D=0, with_natural_H=0, molecules=0,
             sequences=0, energy=0, natural_density=0, match_outside_01=0)


def fail(sig, what, **kw):
    fails.append(dict(signature=sig, what=what, **kw))


def close(a, b, scale, tol=1e-11):
    return abs(a - b) <= tol * scale


def re_scale(atoms, rho):
    tot = sum(atoms.values())
    m = sum(n * a.mass for a, n in atoms.items())
    N = tot / (m / rho / NA * 1e24)
    return 10 * N * sum(abs(n * base_of(a).neutron.b_c) for a, n in atoms.items()) / tot + 1e-300


def substituted(atoms, rho, f):
    """{atom: n} with H[1] -> f D + (1-f) H, and the density that keeps the cell volume"""
    out = dict(atoms)
    n = out.pop(H1, 0)
    if n:
        out[H] = out.get(H, 0) + (1 - f) * n
        out[Dt] = out.get(Dt, 0) + f * n
    M = sum(c * a.mass for a, c in atoms.items())
    Mp = sum(c * a.mass for a, c in out.items())
    return out, rho * Mp / M


def kwargs(wkind, wval):
    return {} if wkind == 0 else ({"wavelength": wval} if wkind == 1 else {"energy": wval})


def one(seq, dens, natd, wkind, wval, vf, f, tag, want_match=True):
    kw = kwargs(wkind, wval)
    dkw = dict(density=dens) if natd is None else dict(natural_density=natd)
    r = attempt(lambda: nsf.D2O_sld(seq, volume_fraction=vf, D2O_fraction=f, **dkw, **kw))
    mt = attempt(lambda: nsf.D2O_match(seq, **dkw, **kw)) if want_match else None
    txt = "D2O_sld(%r, volume_fraction=%r, D2O_fraction=%r, %s%s)" % (
        seq, vf, f, "density=%r" % dens if natd is None else "natural_density=%r" % natd,
        "".join(", %s=%r" % kv for kv in kw.items()))
    enc_m = "PNone" if mt is None else (enc(mt) if isinstance(mt, BaseException) else "(PL [%s; %s])" % (enc(float(mt[0])), enc(float(mt[1]))))
    enc_r = enc(r) if isinstance(r, BaseException) else "(PL [%s])" % "; ".join(enc(float(v)) for v in r)
    cases.append("(CD2O %s %s %s %d %s %s %s %s %s)" % (struct_term(seq), optq_term(dens if natd is None else None), optq_term(natd),
                                                        wkind, qterm(float(wval)), qterm(float(vf)), qterm(float(f)), enc_r, enc_m))
    meta.append(dict(call=txt, tag=tag))
    return r, mt, txt


def check_property(seq, rho, wkind, wval, txt):
    """the statements of C16 on the implementation, for one compound and wavelength"""
    kw = kwargs(wkind, wval)
    atoms = count_struct(seq)
    sc = re_scale(atoms, rho)
    h2o = nsf.neutron_sld("H2O@0.9982n", **kw)
    d2o = nsf.neutron_sld("D2O@0.9982n", **kw)
    wsc = abs(h2o[0]) + abs(d2o[0])
    for f in (0.0, 1.0, rng.choice([0.25, 0.5, 0.08]), round(rng.random(), 3)):
        s1 = nsf.D2O_sld(seq, volume_fraction=1.0, D2O_fraction=f, density=rho, **kw)
        sub, rs = substituted(atoms, rho, f)
        direct = nsf.neutron_sld(formula(sub), density=rs, **kw)
        for j, name in ((0, "real"), (1, "imaginary")):
            scale = sc if j == 0 else max(abs(direct[1]), abs(s1[1]), 1e-300)
            if not close(s1[j], direct[j], scale):
                fail("C16:solute-vs-substituted:" + name,
                     "%s: %s SLD at volume fraction 1, D2O fraction %r is %r; the compound with that fraction of H[1] "
                     "replaced by D (rest natural H) at unchanged cell volume has %r" % (txt, name, f, s1[j], direct[j]),
                     call=txt, D2O_fraction=f)
        s0 = nsf.D2O_sld(seq, volume_fraction=0.0, D2O_fraction=f, density=rho, **kw)
        for j, name in ((0, "real"), (1, "imaginary")):
            want = d2o[j] * f + h2o[j] * (1 - f)
            if not close(s0[j], want, abs(h2o[j]) + abs(d2o[j])):
                fail("C16:solvent:" + name, "%s: %s SLD at volume fraction 0, D2O fraction %r is %r, the H2O/D2O mixture has %r"
                     % (txt, name, f, s0[j], want), call=txt, D2O_fraction=f)
        vf = round(rng.random(), 3)
        sv = nsf.D2O_sld(seq, volume_fraction=vf, D2O_fraction=f, density=rho, **kw)
        for j, name in ((0, "real"), (1, "imaginary")):
            want = vf * s1[j] + (1 - vf) * s0[j]
            if not close(sv[j], want, abs(s1[j]) + abs(s0[j]) + sc * (j == 0) + 1e-300):
                fail("C16:linear-in-volume-fraction:" + name, "%s: %s SLD at volume fraction %r is %r, linear mixing gives %r"
                     % (txt, name, vf, sv[j], want), call=txt)
    fm, sm = nsf.D2O_match(seq, density=rho, **kw)
    if not (0 <= fm <= 1):
        stats["match_outside_01"] += 1
    vals = [nsf.D2O_sld(seq, volume_fraction=v, D2O_fraction=fm, density=rho, **kw)[0] for v in (0.0, 0.37, 1.0)]
    scale = (sc + wsc) * (1 + abs(fm)) * 2
    if not all(close(v, sm, scale, 1e-10) for v in vals):
        fail("C16:match-point", "%s: at the reported match fraction %r the real SLD is %r for volume fractions 0, 0.37, 1; "
             "reported %r" % (txt, fm, vals, sm), call=txt)


# ---------------------------------------------------------------- compounds
GRID = [i / 10 for i in range(11)]
ncomp = max(6, ncases // 6)
for i in range(ncomp):
    seq = list(pool.nested(rng.randint(0, 2), width=3, ions=rng.random() < 0.3))
    k = rng.random()
    if k < 0.8:
        seq.append((rng.choice([1, 2, 3, 5, 0.5, 12, round(rng.uniform(0.1, 30), 2)]), H1))
    else:
        stats["no_labile"] += 1
    if rng.random() < 0.35:
        seq.append((rng.randint(1, 6), Dt)); stats["with_D"] += 1
    if rng.random() < 0.5:
        seq.append((rng.randint(1, 8), H)); stats["with_natural_H"] += 1
    if rng.random() < 0.3:
        seq = [(rng.randint(2, 4), tuple(seq)), (rng.randint(1, 3), H1)]
    rng.shuffle(seq)
    seq = tuple(seq)
    rho = pool.density()
    wkind = rng.choice([0, 1, 1, 2])
    wval = pool.wavelength(flat_atoms(seq)) if wkind != 2 else EF_DOC / pool.wavelength(flat_atoms(seq)) ** 2
    if wkind == 2:
        stats["energy"] += 1
    stats["compounds"] += 1
    r, mt, txt = one(seq, rho, None, wkind, wval, 1.0, 0.0, "compound")
    if isinstance(r, BaseException) or isinstance(mt, BaseException):
        fail("C16:raises", "%s raised %r / %r" % (txt, r, mt), call=txt)
        continue
    check_property(seq, rho, wkind, wval, txt)
    pts = [(a, b) for a in GRID for b in GRID] if (i < (2 if tier == "quick" else 20)) else []
    stats["grid_points"] += len(pts)
    extra = [(round(rng.random(), 3), round(rng.random(), 3)) for _ in range(3)] + [(rng.choice([0.0, 1.0]), rng.choice([0.0, 1.0, 0.5]))]
    stats["random_points"] += len(extra)
    for vf, f in pts + extra:
        one(seq, rho, None, wkind, wval, vf, f, "grid" if (vf, f) in pts else "random", want_match=False)
    if rng.random() < 0.3:
        nd = pool.density()
        one(seq, None, nd, wkind, wval, round(rng.random(), 2), round(rng.random(), 2), "natural_density")
        stats["natural_density"] += 1
    if rng.random() < 0.5:
        # the same compound handed over as a Formula object that carries a density of its own: a density keyword
        # still decides, and without a keyword the object's own density does
        own = pool.density()
        fobj = formula(seq, density=own)
        vf, f = round(rng.random(), 2), round(rng.random(), 2)
        kw = kwargs(wkind, wval)
        stats["formula_objects"] = stats.get("formula_objects", 0) + 1
        for dkw, ref in ((dict(density=rho), dict(density=rho)), (dict(natural_density=rho), dict(natural_density=rho)), ({}, dict(density=own))):
            a = attempt(lambda: nsf.D2O_sld(fobj, volume_fraction=vf, D2O_fraction=f, **dkw, **kw))
            b = attempt(lambda: nsf.D2O_sld(seq, volume_fraction=vf, D2O_fraction=f, **ref, **kw))
            ma = attempt(lambda: nsf.D2O_match(fobj, **dkw, **kw))
            mb = attempt(lambda: nsf.D2O_match(seq, **ref, **kw))
            t2 = "D2O_sld(formula(%r, density=%r), volume_fraction=%r, D2O_fraction=%r%s%s)" % (
                seq, own, vf, f, "".join(", %s=%r" % kv for kv in dkw.items()), "".join(", %s=%r" % kv for kv in kw.items()))
            bad = any(isinstance(x, BaseException) for x in (a, b, ma, mb))
            if not bad:
                sc2 = re_scale(count_struct(seq), rho if dkw else own) + abs(b[0])
                bad = not close(a[0], b[0], sc2) or not close(a[1], b[1], max(abs(a[1]), abs(b[1]), 1e-300)) \
                    or not close(ma[0], mb[0], 1 + abs(mb[0]), 1e-10)
            if bad:
                fail("C16:formula-object-density", "%s gives %r (match %r); the same compound at %s gives %r (match %r)"
                     % (t2, a, ma, "the keyword's density" if dkw else "the object's own density", b, mb), call=t2)

# ---------------------------------------------------------------- compounds of an element with b_c but no tabulated bulk density
# (radium): with a density of their own they are compounds like any other
stats["no_bulk_density"] = 0
for comp in ("RaCl2@4.9", "Ra(OH[1])2@5.0", "BaRaH[1]2O2@4.5"):
    stats["no_bulk_density"] += 1
    a = attempt(lambda: nsf.D2O_sld(comp, volume_fraction=1.0, D2O_fraction=0.4))
    m_ = attempt(lambda: nsf.D2O_match(comp))
    fobj_ = formula(comp)
    sub_, rs_ = substituted(dict(fobj_.atoms), fobj_.density, 0.4)
    d_ = attempt(lambda: nsf.neutron_sld(formula(sub_), density=rs_))
    t5 = "D2O_sld(%r, volume_fraction=1.0, D2O_fraction=0.4)" % comp
    if any(isinstance(x, BaseException) for x in (a, m_, d_)) or d_ is None or d_[0] is None or \
            not close(a[0], d_[0], abs(d_[0]) + 1) or not close(a[1], d_[1], max(abs(d_[1]), 1e-300)):
        fail("C16:solute-vs-substituted:real", "%s = %r (D2O_match %r); the compound with 40%% of its labile hydrogen replaced by D at unchanged cell "
             "volume has %r" % (t5, a, m_, d_), call=t5)

# ---------------------------------------------------------------- fasta.Molecule given by (natural) density instead of cell volume
stats["molecule_by_density"] = 0
for comp, nd in (("C3H4H[1]NO", 1.29), ("C3D4H[1]3NO2", 1.40), ("C6H7H[1]5O6", 1.54)):
    stats["molecule_by_density"] += 1
    M = attempt(lambda: fasta.Molecule("x", comp, density=nd))
    ref_ = attempt(lambda: nsf.D2O_match(comp, natural_density=nd))
    sl_ = attempt(lambda: nsf.D2O_sld(comp, volume_fraction=1.0, D2O_fraction=0.0, natural_density=nd))
    t6 = "fasta.Molecule('x', %r, density=%r)" % (comp, nd)
    if any(isinstance(x, BaseException) for x in (M, ref_, sl_)) or not close(M.D2Omatch, 100 * ref_[0], 100 * (1 + abs(ref_[0])), 1e-9) \
            or not close(M.sld, sl_[0], abs(sl_[0]) + 1, 1e-9):
        fail("C16:molecule-match", "%s: D2Omatch %r, sld %r; nsf.D2O_match / D2O_sld with natural_density=%r give %r %% and %r"
             % (t6, getattr(M, "D2Omatch", M), getattr(M, "sld", None), nd, None if isinstance(ref_, BaseException) else 100 * ref_[0],
                None if isinstance(sl_, BaseException) else sl_[0]), molecule=comp)
# a prefixed sequence string used before (its formula given another density by the caller): the next use is unaffected
try:
    s_ = "aa:WHYRNQ"
    before_ = nsf.D2O_match(s_)
    g_ = formula(s_); g_.density = 3.3
    after_ = nsf.D2O_match(s_)
    if not close(before_[0], after_[0], 1 + abs(before_[0]), 1e-12) or not close(before_[1], after_[1], 1 + abs(before_[1]), 1e-12):
        fail("C16:prefix-history", "D2O_match(%r) = %r; after g = formula(%r); g.density = 3.3 it is %r" % (s_, before_, s_, after_), call=s_)
except Exception as e:  # noqa
    fail("C16:prefix-history", "D2O_match on a prefixed sequence raised %s: %s" % (type(e).__name__, e), call="aa:WHYRNQ")

# ---------------------------------------------------------------- the same through a private table
# table=T reaches the parser: a compound given as a string is read with T's atoms, the labile hydrogen replaced is T's H[1].
# With an unmodified private table the results are those of the public table.
try:
    from periodictable import core as _core, mass as _mass, density as _density
    _T = _core.PeriodicTable("verif_c16")
    _mass.init(_T); _density.init(_T); nsf.init(_T)
    stats["private_table"] = 0
    for comp in ("C3H4H[1]NO@1.29n", "C2H4(NH[1]2)2@0.9", "CaSO4(H[1]2O)2@2.32", "H[1]2O@1"):
        for vf, f_ in ((1.0, 0.7), (0.4, 0.25)):
            stats["private_table"] += 1
            a = attempt(lambda: nsf.D2O_sld(comp, volume_fraction=vf, D2O_fraction=f_, table=_T))
            b = attempt(lambda: nsf.D2O_sld(comp, volume_fraction=vf, D2O_fraction=f_))
            ma = attempt(lambda: nsf.D2O_match(comp, table=_T))
            mb = attempt(lambda: nsf.D2O_match(comp))
            t4 = "D2O_sld(%r, volume_fraction=%r, D2O_fraction=%r, table=T)" % (comp, vf, f_)
            bad = any(isinstance(x, BaseException) for x in (a, b, ma, mb))
            if not bad:
                bad = not close(a[0], b[0], abs(b[0]) + 1) or not close(a[1], b[1], max(abs(b[1]), 1e-300)) or not close(ma[0], mb[0], 1 + abs(mb[0]), 1e-10)
            if bad:
                fail("C16:private-table", "%s = %r (match %r); with the public table %r (match %r); T is a fresh private table with the "
                     "same data" % (t4, a, ma, b, mb), call=t4)
except Exception as e:  # noqa
    fail("C16:private-table", "D2O functions with a private table raised %s: %s" % (type(e).__name__, e), call="private table")

# ---------------------------------------------------------------- fasta molecules and sequences
def molecule_case(name, M, vf, f):
    lab = M.labile_formula
    if not lab.atoms or not lab.density:
        return          # gap codes: no atoms, no density
    obs = [M.sld, M.Dsld, M.D2Omatch, M.D2Osld(volume_fraction=vf, D2O_fraction=f)]
    cases.append("(CMol %s %s %s %s [%s])" % (struct_term(lab.structure), qterm(float(lab.density)), qterm(float(vf)), qterm(float(f)),
                                              "; ".join(enc(float(v)) for v in obs)))
    meta.append(dict(call="fasta molecule %s: sld, Dsld, D2Omatch, D2Osld(%r, %r)" % (name, vf, f), tag="molecule"))
    stats["molecules"] += 1
    # the property on the implementation: same match point (as a percentage) and SLDs as nsf.D2O_*
    fm, sm = nsf.D2O_match(lab)
    sc = re_scale(lab.atoms, lab.density) + abs(fasta.H2O_SLD) + abs(fasta.D2O_SLD)
    den = abs(M.Dsld - M.sld + fasta.H2O_SLD - fasta.D2O_SLD)
    if not close(M.D2Omatch * den, 100 * fm * den, 100 * sc * (1 + abs(fm)), 1e-10):
        fail("C16:molecule-match", "fasta %s: D2Omatch = %r %%, nsf.D2O_match gives fraction %r" % (name, M.D2Omatch, fm), molecule=name)
    a = nsf.D2O_sld(lab, volume_fraction=1.0, D2O_fraction=0.0)[0]
    b = nsf.D2O_sld(lab, volume_fraction=1.0, D2O_fraction=1.0)[0]
    c = nsf.D2O_sld(lab, volume_fraction=vf, D2O_fraction=f)[0]
    if not (close(M.sld, a, sc) and close(M.Dsld, b, sc) and close(obs[3], c, sc)):
        fail("C16:molecule-sld", "fasta %s: sld %r Dsld %r D2Osld %r; nsf.D2O_sld gives %r %r %r" % (name, M.sld, M.Dsld, obs[3], a, b, c),
             molecule=name)


tables = [("aa", fasta.AMINO_ACID_CODES), ("dna", fasta.DNA_CODES), ("rna", fasta.RNA_CODES),
          ("rna-base", fasta.RNA_BASES), ("dna-base", fasta.DNA_BASES), ("nucleic", fasta.NUCLEIC_ACID_COMPONENTS),
          ("lipid", fasta.LIPIDS), ("carbohydrate", fasta.CARBOHYDRATE_RESIDUES)]
for tname, tab in tables:
    for key, M in tab.items():
        molecule_case("%s:%s" % (tname, key), M, round(rng.random(), 2), round(rng.random(), 2))
for i in range(6 if tier == "quick" else 60):
    typ = rng.choice(["aa", "dna", "rna"])
    codes = [c for c in fasta.CODE_TABLES[typ] if c not in "*-"]
    s = "".join(rng.choice(codes) for _ in range(rng.randint(1, 40)))
    S = attempt(lambda: fasta.Sequence("seq%d" % i, s, type=typ))
    if isinstance(S, BaseException):
        continue
    molecule_case("sequence %s:%s" % (typ, s), S, round(rng.random(), 2), round(rng.random(), 2))
    stats["sequences"] += 1

json.dump(dict(cases=cases, meta=meta, direct_fails=fails, stats=stats), sys.stdout)
