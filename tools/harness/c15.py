"""C15 harness: Sample.decay_time(target) over samples x rest-time lists x targets.

For every call the harness records what the implementation used (activity of every product at the
smallest rest time, half-lives, rest times), the activity of every product AT REMOVAL (a separate
calculate_activation with rest_times=[0] on the same sample: the quantity the property speaks about),
the target and the outcome (int 0, a float, or the exception).  `direct_fails` evaluates the
property's own statements with 60-digit decimal arithmetic on the implementation's own numbers:
 * a returned t is >= 0 and |sum_i A_i(0) 2^(-t/T_i) - target| <= 0.1% target,
 * 0 is returned exactly when A(0) <= target,
 * only RuntimeError may be raised,
 * the answer does not depend on the rest-time list.

usage: c15.py <n-samples> <seed>   |   c15.py --case '<json>'
"""
import json, math, random, sys
from decimal import Decimal as D, getcontext
from pyenc import enc, attempt
import periodictable
from periodictable import activation as act

getcontext().prec = 60
LN2 = D(2).ln()

FORMULAS = ["Co30Fe70", "Co", "Au", "NaCl", "SiO2", "Al2O3", "Fe", "Cu", "CaCO3", "Gd2O3", "Ag", "In", "Mn", "V",
            "Dy", "Be", "B4C", "Na", "Al", "Ni", "Zn", "Sc", "Ta", "Ir", "KBr", "TiO2", "La", "Sm2O3", "Hf", "Re",
            "Pt", "Sb", "As", "Ga", "Eu", "Ho", "Cl2", "Mg", "Si", "ZrO2", "Nb", "Mo", "Rh", "Pd", "Cd", "Sn", "Te",
            "I2", "Ba", "Ce", "Pr", "Nd", "Tb", "Er", "Tm", "Yb", "W", "Os", "Hg", "Tl", "Pb", "Bi", "Th", "U",
            "Lu", "Cs", "Co[59]", "H2O", "C"]
REST_LISTS = [[0, 1, 24, 360], [0], [1], [24, 1], [0.5], [2], [360, 24, 0, 1], [1, 24, 360], [24], [0.25, 3], [0.0, 5.5]]
FACTORS = [1e-9, 1e-6, 1e-3, 0.03, 0.3, 0.45, 0.6, 0.9, 0.999, 1.001, 1.5, 3.0, 10.0, 0.9995, 0.99999]


def products(sample):
    """[(key, half-life, activities)] in the order of sample.activity"""
    return [(a, a.Thalf_hrs, [float(x) for x in Ia]) for a, Ia in sample.activity.items()]


def run_one(formula, mass, envp, exposure, rest, target):
    env = act.ActivationEnvironment(*envp)
    s = act.Sample(formula, mass)
    r = attempt(s.calculate_activation, env, exposure=exposure, rest_times=list(rest))
    if isinstance(r, BaseException):
        return None
    used = products(s)
    out = attempt(s.decay_time, target)
    return used, out


def at_removal(formula, mass, envp, exposure):
    env = act.ActivationEnvironment(*envp)
    s = act.Sample(formula, mass)
    r = attempt(s.calculate_activation, env, exposure=exposure, rest_times=[0])
    if isinstance(r, BaseException):
        return None
    return [(a.isotope, a.daughter, a.reaction, a.Thalf_hrs, float(Ia[0])) for a, Ia in s.activity.items()]


def rest_signature(a0, To):
    """decay_time extrapolates back from the smallest requested rest time To.  That is exact arithmetic-wise unless a product
    has a half-life so short that its activity at To has underflowed (or exp(La To) overflows): To/T above about 1000.  The
    recorded finding is that case; a dependence on the rest-time list without any such product is something else."""
    short = any(x > 0 and T > 0 and To / T > 1000 for _, _, _, T, x in a0)
    if not short:
        return "C15:depends-on-rest-times:no-short-lived-product"
    return "C15:depends-on-rest-times:%s" % ("smallest-rest-time-%g" % To if To in (0, 0.5, 1, 2, 24) else "other")


def true_activity(a0, t):
    return sum((D(x) * (-(LN2 * D(t) / D(T))).exp() for _, _, _, T, x in a0), D(0))


def fenc(x):
    return enc(x if isinstance(x, int) and not isinstance(x, bool) else float(x))


def case_term(a0, used, rest, target, out):
    """(removal: [(T, A0)], used: [(T, [Ia per rest time])], rest_times, target, outcome)"""
    rem = "[%s]" % "; ".join("(%s, %s)" % (fenc(T), fenc(x)) for _, _, _, T, x in a0)
    use = "[%s]" % "; ".join("(%s, [%s])" % (fenc(T), "; ".join(fenc(v) for v in Ia)) for _, T, Ia in used)
    if isinstance(out, BaseException):
        o = enc(out)
    else:
        o = fenc(out)
    return "(%s, %s, [%s], %s, %s)" % (rem, use, "; ".join(fenc(x) for x in rest), fenc(target), o)


class Fails(list):
    def add(self, sig, what, **inp):
        if sum(1 for f in self if f["signature"] == sig) < 3:
            self.append(dict(signature=sig, what=what, input=inp))


def judge(fails, where, a0, rest, target, out):
    """the property's statements on one call"""
    A0 = sum((D(x) for _, _, _, _, x in a0), D(0))
    tgt = D(target)
    To = min(rest)
    feat = "rest-times-without-0" if To != 0 else "rest-times-with-0"
    if isinstance(out, BaseException):
        if isinstance(out, RuntimeError) and type(out).__name__ == "RuntimeError":
            return "runtime"
        name = type(out).__name__
        if any(x < 0 for _, _, _, _, x in a0):
            sig = "C15:raises-%s:negative-activity-input" % name
        elif any(x == 0 for _, _, _, _, x in a0) and To == 0:
            sig = "C15:raises-%s:zero-activity-input" % name
        elif any(x == 0 for _, _, _, _, x in a0):
            sig = "C15:raises-%s:%s" % (name, feat)          # target/0 again, smallest rest time not 0
        elif name == "ZeroDivisionError" and To == 1:
            sig = "C15:derivative-factor-ZeroDivision"      # no zero activity anywhere: df(x) == 0
        elif To != 0 and not any(x > 0 and T > 0 and To / T > 1000 for _, _, _, T, x in a0):
            sig = "C15:raises-%s:rest-times-without-0:no-short-lived-product" % name   # not the recorded mechanism
        else:
            sig = "C15:raises-%s:%s" % (name, feat)
        fails.add(sig, "decay_time(%r) raises %s: %s (only RuntimeError is allowed); rest_times=%r"
                  % (target, name, out, rest), observed=repr(out), **where)
        return "exception"
    t = out
    if isinstance(t, int) and t == 0:
        if A0 > tgt:
            fails.add("C15:early-exit-test", "decay_time(%r) returns 0 although the activity at removal is %s > target "
                      "(the test is A(0) - target < target)" % (target, A0), observed=0, activity_at_removal=str(A0), **where)
            return "zero-wrong"
        return "zero"
    if A0 <= tgt:
        fails.add("C15:nonzero-although-below-target", "decay_time(%r) returns %r although the activity at removal %s is "
                  "already at or below the target" % (target, t, A0), observed=t, activity_at_removal=str(A0), **where)
        return "nonzero-wrong"
    if not (t >= 0):
        fails.add("C15:negative-time:%s" % feat, "decay_time(%r) returns %r < 0" % (target, t), observed=t, **where)
        return "negative"
    At = true_activity(a0, t)
    if abs(At - tgt) > D("0.001") * tgt * (1 + D(2) ** -20):
        fails.add("C15:returned-time-inaccurate:%s" % feat,
                  "decay_time(%r) returns %r, where the summed activity is %s (%.3g%% off)"
                  % (target, t, At, float(100 * abs(At - tgt) / tgt)), observed=t, activity_at_t=str(At), **where)
        return "inaccurate"
    return "value"


def sample_cases(rng, fails, formula, mass, envp, exposure, rest_lists, factors):
    cases, meta = [], []
    a0 = at_removal(formula, mass, envp, exposure)
    if not a0:
        return cases, meta
    A0 = sum(x for _, _, _, _, x in a0)
    if not (A0 > 0):
        return cases, meta
    for fac in factors:
        target = A0 * fac
        outs = []
        for rest in rest_lists:
            r = run_one(formula, mass, envp, exposure, rest, target)
            if r is None:
                continue
            used, out = r
            where = dict(formula=formula, mass=mass, fluence=envp[0], Cd_ratio=envp[1], fast_ratio=envp[2],
                         exposure=exposure, rest_times=list(rest), target=target, factor=fac)
            kind = judge(fails, where, a0, rest, target, out)
            outs.append((rest, out, kind, where))
            cases.append(case_term(a0, used, rest, target, out))
            meta.append(dict(where, outcome=(repr(out) if isinstance(out, BaseException) else out), kind=kind,
                             n_products=len(a0), activity_at_removal=A0))
        # the answer does not depend on the rest-time list
        ref = [(rest, out, where) for rest, out, kind, where in outs if not isinstance(out, BaseException)]
        for rest, out, kind, where in outs:
            if not ref:
                break
            r0, o0, w0 = ref[0]
            same = (not isinstance(out, BaseException)) and abs(float(out) - float(o0)) <= 1e-6 * max(1.0, abs(float(o0)))
            if not same:
                To = min(rest)
                what = ("decay_time(%r) is %r with rest_times=%r but %r with rest_times=%r"
                        % (where["target"], (repr(out) if isinstance(out, BaseException) else out), rest, o0, r0))
                fails.add(rest_signature(a0, To),
                          what, other_rest_times=r0, other_outcome=o0, observed=(repr(out) if isinstance(out, BaseException) else out), **where)
    return cases, meta


def main(argv):
    fails = Fails()
    if argv[1:2] == ["--case"]:
        d = json.loads(argv[2])
        rng = random.Random(0)
        lists = [d["rest_times"]] + ([d["other_rest_times"]] if "other_rest_times" in d else [])
        a0 = at_removal(d["formula"], d["mass"], (d["fluence"], d["Cd_ratio"], d["fast_ratio"]), d["exposure"])
        A0 = sum(x for _, _, _, _, x in a0)
        cases, meta = [], []
        outs = []
        for rest in lists:
            used, out = run_one(d["formula"], d["mass"], (d["fluence"], d["Cd_ratio"], d["fast_ratio"]), d["exposure"], rest, d["target"])
            where = dict((k, d[k]) for k in ("formula", "mass", "fluence", "Cd_ratio", "fast_ratio", "exposure", "target") if k in d)
            where["rest_times"] = list(rest)
            where["factor"] = d.get("factor")
            kind = judge(fails, where, a0, rest, d["target"], out)
            outs.append((rest, out))
            cases.append(case_term(a0, used, rest, d["target"], out))
            meta.append(dict(where, outcome=(repr(out) if isinstance(out, BaseException) else out), kind=kind))
        if len(outs) == 2:
            (r1, o1), (r0, o0) = outs
            same = (not isinstance(o1, BaseException)) and (not isinstance(o0, BaseException)) and \
                abs(float(o1) - float(o0)) <= 1e-6 * max(1.0, abs(float(o0)))
            if not same:
                To = min(r1)
                fails.add(rest_signature(a0, To),
                          "decay_time(%r) is %r with rest_times=%r but %r with rest_times=%r" % (d["target"], o1, r1, o0, r0))
        json.dump(dict(cases=cases, meta=meta, direct_fails=fails), sys.stdout)
        return
    n, seed = int(argv[1]), int(argv[2])
    rng = random.Random(seed * 104729 + 5)
    cases, meta = [], []
    formulas = FORMULAS[:3] + rng.sample(FORMULAS[3:], min(n - 3, len(FORMULAS) - 3)) if n > 3 else FORMULAS[:n]
    for k, formula in enumerate(formulas):
        if k == 0:   # the documented example
            mass, envp, exposure = 10, (1e5, 70, 50), 10
        else:
            mass = 10 ** rng.uniform(-3, 2)
            envp = (10 ** rng.uniform(4, 13), rng.choice([0.0, 70.0, 10 ** rng.uniform(0, 3)]), rng.choice([0.0, 50.0, 10 ** rng.uniform(0, 3)]))
            exposure = 10 ** rng.uniform(-2, 3)
        lists = REST_LISTS[:4] + rng.sample(REST_LISTS[4:], 2) + [sorted(10 ** rng.uniform(-2, 3) for _ in range(rng.randrange(1, 4)))]
        if n > 12:
            lists = REST_LISTS + lists[-1:]
        facs = [FACTORS[0], FACTORS[2], 0.9995] + rng.sample(FACTORS[3:], 6 if n <= 12 else len(FACTORS) - 3)   # 0.9995: just under A(0)
        c, m = sample_cases(rng, fails, formula, mass, envp, exposure, lists, sorted(facs))
        cases += c
        meta += m
    # fixed inputs of the recorded findings (known_findings.jsonl), so that each is re-examined on every run:
    # zero and negative activities out of the 2n branch (Te, Lu) and the rest-time lists [1], [2] on them
    for formula, mass, envp, exposure, lists in (("Te", 1.0, (1e4, 0.0, 0.0), 1.0, [[0, 1, 24, 360], [1], [2]]),
                                                 ("Lu", 4.9e-3, (1e4, 0.0, 0.0), 0.01, [[0, 1, 24, 360]]),
                                                 ("NaCl", 1.0, (1e8, 0.0, 0.0), 10.0, [[0, 1, 24, 360], [2], [0.5], [1], [24], [7.5, 30]])):
        c, m = sample_cases(rng, fails, formula, mass, envp, exposure, lists, [0.3])
        cases += c
        meta += m
    # samples in which one daughter is reached by several routes whose rows carry different half-lives (Ba-137m, Sm-151,
    # Sc-47, ...): the activity that reaches the target is the sum over the rows as tabulated, route by route
    for formula, envp in (("Ba[136]Ba[137]", (1e8, 0.0, 10.0)), ("Nd9Sm", (1e8, 0.0, 0.0)), ("Te", (1e8, 0.0, 0.0)), ("Sc[45]Ti", (1e8, 0.0, 50.0)),
                          ("Al28Si", (1e8, 0.0, 50.0)), ("Ru", (1e8, 0.0, 0.0)), ("Gd2O3", (1e8, 0.0, 0.0)))[: (3 if n <= 12 else 7)]:
        # (with rest-time lists that lack 0 as well: products fed by the decay of an activated parent are among these)
        c, m = sample_cases(rng, fails, formula, 1.0, envp, 10.0, [[0, 1, 24, 360], [24], [1, 24]], [1e-9, 1e-6, 1e-3, 0.03, 0.3, 0.6])
        cases += c
        meta += m
    # histories on one Sample object: calculate, ask, calculate again under other conditions (same rest times), ask
    # again - the second answer is about the second calculation, i.e. what a fresh Sample gives
    for formula in rng.sample(["Co30Fe70", "Au", "Cu", "Mn", "Ti", "Al2O3", "Ag"], 3 if n <= 12 else 7):
        rest = [0, 1, 24, 360]
        env1 = act.ActivationEnvironment(10 ** rng.uniform(6, 9), 0.0, rng.choice([0.0, 50.0]))
        env2 = act.ActivationEnvironment(env1.fluence * rng.choice([0.01, 30.0]), 0.0, env1.fast_ratio)
        e1, e2 = 10 ** rng.uniform(-1, 2), 10 ** rng.uniform(-1, 2)
        s = act.Sample(formula, 1.0)
        fresh = act.Sample(formula, 1.0)
        try:
            s.calculate_activation(env1, exposure=e1, rest_times=rest)
            s.decay_time(0.3 * sum(float(v[0]) for v in s.activity.values()))
            s.calculate_activation(env2, exposure=e2, rest_times=rest)
            fresh.calculate_activation(env2, exposure=e2, rest_times=rest)
            target = 0.3 * sum(float(v[0]) for v in fresh.activity.values())
            t_again, t_fresh = attempt(s.decay_time, target), attempt(fresh.decay_time, target)
        except Exception as e:  # noqa
            continue
        same = (type(t_again) is type(t_fresh)) if isinstance(t_fresh, BaseException) or isinstance(t_again, BaseException) else \
            abs(float(t_again) - float(t_fresh)) <= 1e-9 * max(1.0, abs(float(t_fresh)))
        if not same:
            fails.add("C15:stale-after-recalculation",
                      "Sample(%r): calculate_activation(fluence %g, exposure %g); decay_time(..); calculate_activation(fluence %g, exposure %g); "
                      "decay_time(%r) = %r, a fresh Sample calculated the second way gives %r"
                      % (formula, env1.fluence, e1, env2.fluence, e2, target, t_again, t_fresh),
                      formula=formula, history=True)
    # weakly activated samples with several comparable products and very small targets: there the absolute
    # tolerance of the root finder is coarse and only the 0.1% guard stands between a wrong time and the caller
    for formula in rng.sample(["Ti", "Al2O3", "Cu", "NaCl", "Ag", "AuCu3", "CaCO3", "Ni", "Zn", "Mo"], 4 if n <= 12 else 10):
        envp = (10 ** rng.uniform(4, 6), rng.choice([0.0, 70.0]), rng.choice([0.0, 50.0]))
        c, m = sample_cases(rng, fails, formula, 10 ** rng.uniform(-1, 1), envp, 10 ** rng.uniform(0, 2), [[0, 1, 24, 360]],
                            [1e-9, 3e-9, 1e-8, 1e-7, 3e-7, 1e-6, 1e-5])
        cases += c
        meta += m
    json.dump(dict(cases=cases, meta=meta, direct_fails=fails), sys.stdout)


main(sys.argv)
