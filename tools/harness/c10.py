"""C10 harness: interleavings of private-table creation, module.init(T), public reads/calculations, reads on T,
assignments and in-place mutations of per-atom data of T (one or two private tables); ONE fresh interpreter
per history.

argv: seed tier [n_random]
Prints one JSON document: cases (Coq terms `(list event * list outcome)`), meta, direct_fails, stats.
direct_fails evaluates the property's own statement on the implementation:
  (a) every observation of the public table is what the canonical order serves;
  (b) every observation of a private table X, for a group X was initialised with (init returned) and X itself
      has not assigned to / mutated, is what the canonical order serves on the public table;
  (c) formula(s, table=T) has atoms of T only, pickled atoms of T come back as the same atoms of T."""
import json, sys, random, itertools, time
from c09lib import *

seed = int(sys.argv[1])
tier = sys.argv[2]
quick = tier == "quick"
rng = random.Random(seed * 104729 + 10)
t0 = time.time()
PRIV = ["p1", "p2"]
LAZY_GROUPS = [g for g in GROUPS if g != "base"]
TOUCH = {   # a public first touch of each group
    "neutron": [["read", "pub", "E1", "neutron"], ["calc", "neutron_sld_iso", "pub"], ["import", "fasta"]],
    "xray": [["read", "pub", "XE1", "xray"], ["calc", "xray_sld", "pub"]],
    "emission": [["read", "pub", "E1", "K_alpha"], ["read", "pub", "I11", "K_beta1_units"]],
    "covalent_radius": [["read", "pub", "E1", "covalent_radius"], ["has", "pub", "E0", "covalent_radius_units"]],
    "crystal_structure": [["read", "pub", "E1", "crystal_structure"], ["has", "pub", "XE1", "crystal_structure"]],
    "magnetic_ff": [["read", "pub", "E1", "magnetic_ff"], ["calc", "magnetic_j0", "pub"]],
    "neutron_activation": [["read", "pub", "I11", "neutron_activation"], ["calc", "activation", "pub"]],
}
MAIN = {"neutron": "neutron", "xray": "xray", "emission": "K_alpha", "covalent_radius": "covalent_radius",
        "crystal_structure": "crystal_structure", "magnetic_ff": "magnetic_ff", "neutron_activation": "neutron_activation"}
ATOM_FOR = {"neutron_activation": "I11"}


def ensure_tables(events, full_base=True):
    """create a private table (with mass and density when full_base) before its first use"""
    out, made = [], set()
    for e in events:
        T = e[1] if e[0] in ("read", "has", "set", "mut", "parse", "pickle", "new") else (e[2] if e[0] in ("calc", "init") else "pub")
        if e[0] == "new":
            if T in made:
                continue
            made.add(T)
            out.append(e)
            continue
        if T != "pub" and T not in made:
            out += PRIV_PREFIX(T) if full_base else [["new", T]]
            made.add(T)
        out.append(e)
    return out


histories, kinds = [], []


def closing(tabs, base_set=()):
    out = []
    for T in ["pub"] + sorted(tabs):
        for n in LAZY_NAMES:
            for a in ("E1", "I11", "E0"):
                out.append(["read", T, a, n])
        if T not in base_set:       # values computed from an assigned number are not classifiable
            out.append(["read", T, "E1", "mass"])
            out.append(["read", T, "I11", "density"])
    return out


def add(events, kind, full_base=True):
    h = ensure_tables(events, full_base)
    tabs = {e[1] for e in h if e[0] == "new"}
    base_set = {e[1] for e in h if e[0] == "set" and GROUP_OF[e[3]] == "base"}
    histories.append(h + closing(tabs, base_set))
    kinds.append(kind)


# (1) per group: every sequence of length <= 3 (quick: a sample of the length-3 ones) over
#     {public touch, init(p1), init(p2), read p1, assign p1, mutate p1, read p2}, one group per slot, packed
def group_pool(g):
    key, n, a = KEY_OF_GROUP[g], MAIN[g], ATOM_FOR.get(g, "E1")
    return [TOUCH[g][0], TOUCH[g][-1], ["init", key, "p1"], ["init", key, "p2"], ["read", "p1", a, n],
            ["set", "p1", a, n], ["mut", "p1", a, n], ["mut", "p1", "E0" if a == "E1" else "I01", n], ["read", "p2", a, n]]


def sentinel_free(seq):
    """no init / calculator of a group on a table after an assignment of the sentinel in that group"""
    assigned, mutated = set(), set()
    for e in seq:
        if e[0] == "set":
            assigned.add((e[1], GROUP_OF[e[3]]))
        if e[0] == "mut":
            mutated.add((e[1], GROUP_OF[e[3]]))
        if e[0] == "init" and (e[2], KEYS[e[1]]) in assigned:
            return False
        if e[0] == "calc" and any((e[2], g) in assigned | mutated for g in CALC_GROUPS[e[1]]):
            return False        # computed from the table's own overwritten data: its own business
    return True


def pack(seqs):
    seqs = [list(s) for s in seqs if s]
    out = []
    while seqs:
        s = rng.choice(seqs)
        out.append(s.pop(0))
        if not s:
            seqs.remove(s)
    return out


per_group = {}
for g in LAZY_GROUPS:
    P = group_pool(g)
    seqs = [list(s) for L in (1, 2) for s in itertools.product(P, repeat=L) if sentinel_free(s)]
    tri = [list(s) for s in itertools.product(P, repeat=3) if sentinel_free(s)]
    rng.shuffle(tri)
    seqs += tri if not quick else tri[:12]
    rng.shuffle(seqs)
    per_group[g] = seqs
for i in range(max(len(v) for v in per_group.values())):
    add(pack([per_group[g][i] for g in LAZY_GROUPS if i < len(per_group[g])]), "per-group<=3")

# (2) the nine init(T) in a random order relative to the public touches, partial base (mass/density are
#     two of the nine), then assignments and mutations
n_orders = 30 if quick else 800
for _ in range(n_orders):
    T = rng.choice(PRIV)
    keys = list(KEYS)
    rng.shuffle(keys)
    ev = [["new", T]] + [["init", k, T] for k in keys] + [rng.choice(TOUCH[g]) for g in LAZY_GROUPS]
    body = ev[1:]
    rng.shuffle(body)
    ev = [ev[0]] + body
    for _ in range(rng.randint(0, 4)):
        g = rng.choice(LAZY_GROUPS)
        ev.append([rng.choice(["set", "mut", "mut"]), T, rng.choice(["E1", "I11", "E0", "XE1"]), rng.choice(GROUPS[g])])
    if rng.random() < 0.5:
        a, n = rng.choice([("E1", "_mass"), ("I11", "_mass"), ("E1", "_density"), ("E0", "_mass")])
        ev += [["set", T, a, n], ["read", T, a, n[1:]], ["read", "pub", a, n[1:]]]
    ev += [["parse", T], ["pickle", T, rng.choice(ATOMS[1:])]]
    add(ev, "nine-inits", full_base=False)

# (2b) short directed histories, one per way the isolation could break (they are ordinary members of the
#      quantifier domain; a failure among them is already a near-minimal witness)
def add_probe(events):
    histories.append(events)
    kinds.append("directed")


for g in LAZY_GROUPS:
    key = KEY_OF_GROUP[g]
    reads = lambda T: [["read", T, a, n] for n in GROUPS[g] for a in ("E1", "I11", "E0")]
    # init(T) before / after the public first touch; T then serves what the public table serves
    add_probe([["new", "p1"], ["init", "density.init", "p1"], ["init", key, "p1"]] + reads("pub") + reads("p1"))
    add_probe([TOUCH[g][0], ["new", "p1"], ["init", "density.init", "p1"], ["init", key, "p1"]] + reads("pub") + reads("p1"))
    # init(T) before density.init(T), then again
    add_probe([TOUCH[g][0], ["new", "p1"], ["init", key, "p1"], ["init", "density.init", "p1"], ["init", key, "p1"]] + reads("p1"))
    for n in GROUPS[g]:
        for a in ("E1", "E0", "I11", "I01", "XE1"):
            # assignment on a table that was never initialised for the group, before any public touch
            add_probe([["new", "p1"], ["set", "p1", a, n]] + reads("pub"))
            for k in ("set", "mut"):
                add_probe([TOUCH[g][-1], ["new", "p1"], ["init", "density.init", "p1"], ["init", key, "p1"],
                           ["new", "p2"], ["init", "density.init", "p2"], ["init", key, "p2"], [k, "p1", a, n],
                           ["read", "pub", a, n], ["read", "p2", a, n], ["read", "p1", a, n]])
add_probe([["new", "p1"], ["parse", "p1"]] + [["pickle", "p1", a] for a in ATOMS] + [["new", "p2"], ["parse", "p2"], ["parse", "p1"]])
# (3) random interleavings over the whole alphabet
ALPHA = []
for T in ["pub"] + PRIV:
    for n in LAZY_NAMES + GROUPS["base"]:
        for a in ATOMS[1:]:
            ALPHA.append(["read", T, a, n])
            if a in ("E1", "I11", "XI01"):
                ALPHA.append(["has", T, a, n])
    for c in CALCS:
        ALPHA.append(["calc", c, T])
for T in PRIV:
    ALPHA += [["new", T]] * 6
    ALPHA += [["init", k, T] for k in KEYS] * 6
    ALPHA += [["parse", T], ["pickle", T, "XI11"], ["pickle", T, "E1"]]
    for n in LAZY_NAMES + GROUPS["base"]:
        for a in ("E1", "I11", "E0", "XE1", "I01"):
            ALPHA += [["mut", T, a, n], ["mut", T, a, n]]
    for n in LAZY_NAMES + SET_NAMES["base"]:
        for a in ("E1", "I11", "E0", "XE1", "I01"):
            ALPHA += [["set", T, a, n]]
ALPHA += [["import", "fasta"]] * 4
nrand, rlen = (60, 10) if quick else (2000, 30)
if len(sys.argv) > 3:
    nrand = int(sys.argv[3])
for _ in range(nrand):
    L = rng.randint(3, rlen)
    ev, assigned, mutated = [], set(), set()
    while len(ev) < L:
        e = rng.choice(ALPHA)
        if e[0] == "set":
            assigned.add((e[1], GROUP_OF[e[3]]))
        if e[0] == "mut":
            mutated.add((e[1], GROUP_OF[e[3]]))
        if e[0] == "calc" and any((e[2], g) in assigned | mutated for g in CALC_GROUPS[e[1]] + ["base"]):
            continue        # a calculator fed with the sentinel / the table's own overwritten arrays: outside the model
        if e[0] == "init" and ((e[2], KEYS[e[1]]) in assigned or (e[2], "base") in assigned):
            continue        # a loader fed with the sentinel value (it expects a dict / list / number there)
        if e[0] in ("read", "has", "mut") and GROUP_OF[e[3]] == "base" and (e[1], "base") in assigned:
            continue        # a number computed from the assigned one: not classifiable
        ev.append(e)
    add(ev, "random", full_base=rng.random() < 0.6)

extra = []
if len(sys.argv) > 4:
    extra = json.load(open(sys.argv[4]))
    for h in extra:
        add(h, "transition")

can = canonical()
results = run_children(histories)
t_run = time.time() - t0


violations = lambda h, oc: c10_violations(h, oc, can)
_observe = observe
observe = lambda h: _observe(h, can)


def modname(key):
    return key[:-5] if key.endswith(".init") else key.split(".", 1)[1]


def culprit_set(h, i, oc):
    """the events before h[i] that act on the group of h[i] through a private table: (kind, on the observed table
    or another one, what, early = no public observation had touched the group before it, it returned normally)"""
    grp = set(event_groups(h[i]))
    f = h[i]
    X = f[1] if f[0] in ("read", "has", "parse", "pickle") else (f[2] if f[0] == "calc" else "pub")
    touched_pub, out = False, set()
    for j in range(i):
        x = h[j]
        if not (set(event_groups(x)) & grp):
            continue
        T = x[1] if x[0] in ("read", "has", "set", "mut") else (x[2] if x[0] in ("calc", "init") else "pub")
        rel = "self" if T == X else "other"
        if T == "pub":
            touched_pub = True
        elif x[0] == "init":
            out.add(("init", rel, x[1], not touched_pub, oc[j] == "OOk"))
        elif x[0] == "set" and oc[j] == "OOk":
            out.add(("set", rel, "", not touched_pub, True))
        elif x[0] == "mut" and oc[j] == "OOk":
            out.add(("mut", rel, x[2] + "." + x[3], not touched_pub, True))
    return frozenset(out)


cases, meta, fails, buckets = [], [], [], {}
for h, res in zip(histories, results):
    oc = [classify(e, o, can) for e, o in zip(h, res["out"])]
    cases.append(coq_case(h, oc))
    meta.append([text_event(e) for e in h])
    for i, X in violations(h, oc):
        key = (tuple(event_groups(h[i])), X != "pub", oc[i], culprit_set(h, i, oc))
        if key not in buckets or len(buckets[key][0]) > i + 1:
            buckets[key] = (h[:i + 1], oc[i])


def signature(m, o):
    f, before = m[-1], m[:-1]
    places = None
    grp = set(event_groups(f))
    X = f[1] if f[0] in ("read", "has", "parse", "pickle") else (f[2] if f[0] == "calc" else "pub")
    same = lambda x: bool(set(event_groups(x)) & grp)
    muts = [x for x in before if x[0] == "mut" and x[1] != X and same(x)]
    sets = [x for x in before if x[0] == "set" and x[1] != X and same(x)]
    pinit = [x for x in before if x[0] == "init" and x[2] not in ("pub", X) and same(x)]
    xinit = [(x, oo) for x, oo in zip(before, o) if x[0] == "init" and x[2] == X and same(x)]
    if f[0] in ("parse", "pickle"):
        return "C10:%s-leaves-table" % f[0]
    if muts:
        n = muts[0][3]
        places = foreign_mark_places(m, X) if f[0] == "read" else []
        signature.places = places
        if places and "" not in places:
            # the served object is the table's own, something below it is not
            return "C10:mutation-leaks:%s.%s" % (f[3], places[0].split(".")[0].split("[")[0] or places[0])
        if f[0] == "calc":
            return "C10:mutation-leaks:%s" % n
        return {"crystal_structure": "C10:crystal_structure-dict-shared",
                "neutron": "C10:neutron-default-object-shared"}.get(n, "C10:%s-object-shared" % n)
    if sets:
        return "C10:private-assignment-while-pending"
    if X == "pub" and pinit:
        return "C10:public-changed-by-private-init:%s" % modname(pinit[0][1])
    if X != "pub" and any(oo != "OOk" for _, oo in xinit):
        return "C10:failed-init-poisons-table:%s" % modname(xinit[0][0][1])
    if X != "pub" and pinit:
        return "C10:private-changed-by-other-private-init:%s" % modname(pinit[0][1])
    if X != "pub" and xinit:
        return "C10:fresh-private-differs:%s" % modname(xinit[0][0][1])
    return "C10:other:%s:%s" % ("+".join(sorted(grp)), "-".join(x[0] for x in before) or "first")


seen_sig, explained = set(), []
todo = sorted(buckets.items(), key=lambda kv: (len(kv[0][3]), len(kv[1][0])))
processed = 0
for key, (prefix, oc_last) in todo:
    cul = key[3]
    # already explained by a minimal failing history found before (same group, same observed side, same outcome)?
    if any(k2[:3] == key[:3] and c2 <= cul for k2, c2 in explained):
        continue
    if len(cul) == 1:
        # one culprit only: the mechanism is determined by it; skip if already reported for another group
        (kind, rel, what_, early, ok), X_priv = next(iter(cul)), key[1]
        guess = ("C10:private-assignment-while-pending" if kind == "set" else
                 None if kind == "mut" else
                 "C10:public-changed-by-private-init:%s" % modname(what_) if rel == "other" and not X_priv else None)
        if guess in seen_sig:
            continue
    if processed >= (16 if quick else 300):
        break
    processed += 1

    def still_fails(cands, oc_last=oc_last):
        out = []
        for cand, res in zip(cands, run_children(cands)):
            o = [classify(e, r, can) for e, r in zip(cand, res["out"])]
            out.append(any(i == len(cand) - 1 for i, _ in violations(cand, o)) and o[-1] == oc_last)
        return out
    # cheap pre-reduction: keep only the events of the failing group, table creation and base inits
    grp = set(event_groups(prefix[-1]))
    slim = [x for x in prefix[:-1] if x[0] == "new" or (x[0] == "init" and KEYS[x[1]] == "base")
            or set(event_groups(x)) & grp] + [prefix[-1]]
    if still_fails([slim])[0]:
        prefix = slim
    m = minimise(prefix, still_fails)
    f0 = m[-1]
    X0 = f0[1] if f0[0] in ("read", "has", "parse", "pickle") else (f0[2] if f0[0] == "calc" else "pub")

    def viol_last(cands):
        out = []
        for cand, res in zip(cands, run_children(cands)):
            oo = [classify(e, r, can) for e, r in zip(cand, res["out"])]
            out.append(any(i == len(cand) - 1 for i, _ in violations(cand, oo)))
        return out
    if f0[0] not in ("parse", "pickle"):
        m = prefer_read(m, X0, viol_last)
    o = observe(m)
    explained.append((key[:3], culprit_set(m, len(m) - 1, o)))
    signature.places = None
    sig = signature(m, o)
    if sig in seen_sig:
        continue
    seen_sig.add(sig)
    f, before = m[-1], m[:-1]
    what = ("after [%s], `%s` %s; the property requires what the canonical order serves on the public table"
            % ("; ".join(text_event(e) for e in before), text_event(f), words(o[-1])))
    if signature.places:
        what += " (it carries the other table's in-place overwrite at: %s)" % ", ".join(
            "%s.%s" % (f[3], pl) if pl else "the served object itself" for pl in signature.places)
    if f[0] == "parse":
        try:
            routes = run_child(m)["out"][-1].get("msg")
            if routes:
                what += " (formulas holding atoms of another table: %s)" % routes
        except Exception:  # noqa
            pass
    fails.append(dict(signature=sig, what=what, history=m, history_text=[text_event(e) for e in m], outcomes=o))

print(json.dumps(dict(
    cases=cases, meta=meta, direct_fails=fails,
    stats=dict(histories=len(histories), events=sum(len(h) for h in histories),
               kinds={k: kinds.count(k) for k in sorted(set(kinds))}, distinct=len(set(cases)),
               alphabet=len(set(map(tuple, ALPHA))), harness_s=round(time.time() - t0, 1),
               buckets=len(buckets), minimised=processed, run_s=round(t_run, 1), cover_mismatch=can["cover_mismatch"]))))
