"""C14 harness: activation.activity() on every reaction row of activation.dat x a grid drawn from the
property's ranges; per-row outcomes (activities per rest time, no entry, or the exception raised) are
sent to Coq as exact rationals.  `direct_fails` evaluates the property's own statements on the
implementation alone: non-negativity, never raising, proportionality to mass, rest decay by
2^(-t/T), omission rules, natural element = abundance-weighted isotopes, monotone in exposure up to
the depletion of the target.

usage: c14.py <points-per-row> <seed>            full run
       c14.py --case '<json>'                    one input (replay): prints the case and its direct fails
"""
import json, math, random, sys
from decimal import Decimal as D, getcontext
from pyenc import enc, attempt
import periodictable
from periodictable import activation as act

getcontext().prec = 60
# absolute floor of every comparison: where an intermediate factor of activity() underflows into the subnormal range
# (below 2.2e-308) it keeps only a few bits, and a result of order 1e-308 can be off by its own size although every
# normal-range result is good to 2^-30.  1e-300 uCi is twenty orders of magnitude above the largest such error and
# three hundred below anything measurable.
TINY = 1e-300


def all_rows():
    out = []
    for el in periodictable.elements:
        for iso in el:
            for j, ai in enumerate(getattr(iso, "neutron_activation", [])):
                out.append((iso, j, ai))
    return out


def kind(ai):
    return ai.reaction if ai.reaction in ("b", "2n") else "act"


def code_branch(ai, env, exposure):
    """which formula of activity() the inputs select (re-evaluates the code's own float test)"""
    if ai.reaction in ("b", "2n"):
        return ai.reaction
    if ai.fast and env.fast_ratio == 0:
        return "skip"
    flux = env.fluence / env.fast_ratio if ai.fast else env.fluence
    initialXS = ai.thermalXS + env.epithermal_reduction_factor * ai.resonance
    effectiveXS = ai.thermalXS_parent + env.epithermal_reduction_factor * ai.resonance_parent
    lam = act.LN2 / ai.Thalf_hrs
    U = flux * initialXS * 3600 * 1e-24 * exposure
    V = (env.fluence * effectiveXS * 3600 * 1e-24 + lam) * exposure
    return "small" if abs(U) < 1e-10 and abs(V) < 1e-10 else "main"


def one_row(iso, ai, mass, env, exposure, rest):
    """activity() restricted to one reaction row: value list | None (no entry) | exception"""
    saved = iso.neutron_activation
    iso.neutron_activation = [ai]
    try:
        r = attempt(act.activity, iso, mass, env, exposure, rest)
    finally:
        iso.neutron_activation = saved
    if isinstance(r, BaseException):
        return r
    return r.get(ai)


def logu(rng, lo, hi):
    return 10 ** rng.uniform(math.log10(lo), math.log10(hi))


def draw(rng, ai, i):
    """point i of a row: strata first (the corners where the formulas change), then log-uniform"""
    if i % 6 == 0:
        flu, expo = logu(rng, 1e2, 1e7), logu(rng, 1e-3, 1e-1)
    elif i % 6 == 1:
        flu, expo = logu(rng, 1e12, 1e16), logu(rng, 1e2, 1e4)
    elif i % 6 == 2:
        flu, expo = logu(rng, 1e10, 1e16), logu(rng, 1e-3, 1)
    else:
        flu, expo = logu(rng, 1e2, 1e16), logu(rng, 1e-3, 1e4)
    mass = logu(rng, 1e-6, 1e3)
    cd = [0.0, 1.0, logu(rng, 1, 1e3), 0.0, logu(rng, 1, 1e3), 1.0 + rng.random()][(i + rng.randrange(2)) % 6]
    if ai.fast:
        fast = 0.0 if i % 6 == 5 else logu(rng, 1, 1e3)
    else:
        fast = 0.0 if i % 2 else logu(rng, 1, 1e3)
    r1 = [logu(rng, 1e-3, 1e5), float(rng.choice([1, 24, 360, 100000])), ai.Thalf_hrs * rng.uniform(0.1, 20)][i % 3]
    rest = [0, min(r1, 1e5)]
    if i % 5 == 4:
        rest = [min(r1, 1e5), 0]        # the order of the rest times is the caller's: results come back in that order
    return mass, flu, cd, fast, expo, rest


def fenc(x):
    return enc(x if isinstance(x, int) else float(x))


def outcome_term(o):
    if o is None:
        return "PNone"
    if isinstance(o, BaseException):
        return enc(o)
    return "(PL [%s])" % "; ".join(enc(float(v)) for v in o)


def case_term(iso, j, inp, rest, o):
    return "(%d, %d, %d%%nat, [%s], [%s], %s)" % (
        iso.number, iso.isotope, j, "; ".join(fenc(x) for x in inp), "; ".join(fenc(x) for x in rest), outcome_term(o))


def describe(iso, j, ai, inp, rest, o):
    mass, flu, cd, fast, expo = inp
    return dict(isotope=str(iso), Z=iso.number, A=iso.isotope, j=j, daughter=ai.daughter, reaction=ai.reaction,
                fast_row=bool(ai.fast), mass=mass, fluence=flu, Cd_ratio=cd, fast_ratio=fast, exposure=expo,
                rest_times=list(rest),
                outcome=(None if o is None else ("%s: %s" % (type(o).__name__, o) if isinstance(o, BaseException)
                                                 else [float(v) for v in o])),
                branch=code_branch(ai, act.ActivationEnvironment(flu, cd, fast), expo))


def pow2(x):
    """2**x for a float x, 60 digits"""
    return (D(2).ln() * D(x)).exp()


def close(a, b, rel=2.0 ** -30, amp=0.0):
    """|a-b| <= rel max(|a|,|b|) + one subnormal ulp (times 1+amp: a subnormal factor multiplied by amp)"""
    return abs(D(a) - D(b)) <= D(rel) * max(abs(D(a)), abs(D(b))) + D(TINY) * (1 + D(abs(amp)))


class Fails(list):
    def add(self, sig, what, **inp):
        if sum(1 for f in self if f["signature"] == sig) < 3:
            self.append(dict(signature=sig, what=what, input=inp))


def direct_case(fails, iso, j, ai, inp, rest, o, rng, full):
    """the property's statements on the implementation, for one input"""
    mass, flu, cd, fast, expo = inp
    env = act.ActivationEnvironment(flu, cd, fast)
    br = code_branch(ai, env, expo)
    where = dict(isotope=str(iso), Z=iso.number, A=iso.isotope, j=j, daughter=ai.daughter, reaction=ai.reaction, row=j, mass=mass, fluence=flu,
                 Cd_ratio=cd, fast_ratio=fast, exposure=expo, rest_times=list(rest), branch=br)
    if isinstance(o, BaseException):
        sig = ("C14:small-argument-branch-raises-%s" % type(o).__name__ if br == "small"
               else "C14:raises-%s:%s-branch" % (type(o).__name__, br))
        fails.add(sig,
                  "activity(%s -> %s, %s) raises %s: %s" % (iso, ai.daughter, ai.reaction, type(o).__name__, o),
                  observed=repr(o), **where)
        return
    # omission of fast reactions
    if ai.fast and fast == 0:
        if o is not None:
            fails.add("C14:fast-not-omitted", "fast reaction %s -> %s present with fast_ratio 0" % (iso, ai.daughter), **where)
        return
    if o is None:
        fails.add("C14:row-missing", "no entry for %s -> %s" % (iso, ai.daughter), **where)
        return
    vals = [float(v) for v in o]
    if any(v < 0 or v != v for v in vals):
        fails.add("C14:2n-cancellation-negative" if br == "2n" else "C14:negative-activity:%s-branch" % br,
                  "activity of %s -> %s (%s) is %r" % (iso, ai.daughter, ai.reaction, vals), observed=vals, **where)
    # rest decay: exactly 2^(-t/T)
    i0 = list(rest).index(0)            # the column of the activity at removal, wherever the caller put rest time 0
    for ti, v in zip(rest, vals):
        want = D(vals[i0]) * pow2(-D(ti) / D(ai.Thalf_hrs))
        if not close(v, want, amp=vals[i0]):
            fails.add("C14:rest-decay", "activity after %r h is %r, 2^(-t/T) x activity at removal is %s"
                      % (ti, v, want), observed=v, expected=str(want), **where)
    if not full:
        return
    # proportional to mass
    k = rng.choice([0.5, 3.0, 10.0, 1e-3])
    o2 = one_row(iso, ai, mass * k, env, expo, rest)
    if isinstance(o2, BaseException) or o2 is None or not all(close(k * a, b, 1e-12, amp=k) for a, b in zip(vals, o2)):
        fails.add("C14:not-linear-in-mass", "activity at %g x mass is %r, expected %g x %r" % (k, o2, k, vals), factor=k, **where)
    # the environment is what its attributes say when activity() is called: one built with other values and then
    # set to these gives the same activities
    env_b = act.ActivationEnvironment(flu * 3, rng.choice([0.0, 20.0, cd + 5]), fast + 2)
    env_b.fluence, env_b.Cd_ratio, env_b.fast_ratio = flu, cd, fast
    o5 = one_row(iso, ai, mass, env_b, expo, rest)
    if isinstance(o5, BaseException) or o5 is None or [float(v) for v in o5] != vals:
        fails.add("C14:environment-set-after-construction", "an ActivationEnvironment built with other values and then assigned "
                  "fluence=%r, Cd_ratio=%r, fast_ratio=%r gives %r, one built with these values gives %r" % (flu, cd, fast, o5, vals), **where)
    # epithermal omitted below Cd ratio 1
    if cd < 1:
        for cd2 in (0.5, 0.999):
            o3 = one_row(iso, ai, mass, act.ActivationEnvironment(flu, cd2, fast), expo, rest)
            if isinstance(o3, BaseException) or o3 is None or [float(v) for v in o3] != vals:
                fails.add("C14:epithermal-not-omitted", "Cd ratio %g changes the activity although it is below 1: %r vs %r"
                          % (cd2, o3, vals), Cd_ratio_2=cd2, **where)
    # monotone in exposure up to depletion of the target: A(t2) >= A(t1) exp(-k1 (t2-t1))
    flux = flu / fast if ai.fast else flu
    k1 = D(flux) * (D(ai.thermalXS) + (D(1) / D(cd) if cd >= 1 else 0) * D(ai.resonance)) * 3600 * D("1e-24")
    t2 = expo * rng.choice([1.5, 2.0, 10.0])
    o4 = one_row(iso, ai, mass, env, t2, rest)
    if not isinstance(o4, BaseException) and o4 is not None and vals[i0] >= 0:
        lower = D(vals[i0]) * (-k1 * (D(t2) - D(expo))).exp()
        if D(float(o4[i0])) < lower * (1 - D(2.0 ** -30)) - D(TINY):
            br2 = code_branch(ai, env, t2)
            fails.add("C14:decreases-with-exposure:%s-branch" % (br if br == br2 else br + "-to-" + br2),
                      "activity %r after %g h is below activity %r after %g h x remaining target fraction"
                      % (float(o4[i0]), t2, vals[i0], expo), exposure_2=t2, observed=float(o4[i0]), lower_bound=str(lower), **where)


def direct_elements(fails, rng, n, only=None):
    """never raises on the whole isotope / natural element; natural element = abundance-weighted isotopes"""
    els = [el for el in periodictable.elements if any(hasattr(iso, "neutron_activation") for iso in el)]
    if only:
        els = [el for el in els if el.symbol == only["formula"]]
    for el in els:
        for _ in range(n):
            flu, expo, mass = logu(rng, 1e2, 1e16), logu(rng, 1e-3, 1e4), logu(rng, 1e-6, 1e3)
            cd, fast = rng.choice([0.0, 1.0, logu(rng, 1, 1e3)]), rng.choice([0.0, logu(rng, 1, 1e3)])
            if only:
                flu, expo, mass, cd, fast = (only[k] for k in ("fluence", "exposure", "mass", "Cd_ratio", "fast_ratio"))
            env = act.ActivationEnvironment(flu, cd, fast)
            rest = (0, 1, 24, 360)
            where = dict(formula=el.symbol, mass=mass, fluence=flu, Cd_ratio=cd, fast_ratio=fast, exposure=expo, rest_times=list(rest))
            s = act.Sample(el.symbol, mass)
            r = attempt(s.calculate_activation, env, exposure=expo, rest_times=rest)
            parts, bad = {}, None
            for iso in el:
                ab = attempt(getattr, iso, "abundance")
                if isinstance(ab, BaseException) or not ab:
                    continue
                p = attempt(act.activity, iso, mass * ab * 0.01, env, expo, rest)
                if isinstance(p, BaseException):
                    bad = (iso, p)
                    break
                parts.update(p)
            if isinstance(r, BaseException):
                culprit = ""
                if bad:
                    culprit = " (from %s)" % bad[0]
                fails.add("C14:sample-raises-%s" % type(r).__name__,
                          "Sample(%r).calculate_activation raises %s: %s%s" % (el.symbol, type(r).__name__, r, culprit),
                          observed=repr(r), **where)
                continue
            got = {k: [float(x) for x in v] for k, v in s.activity.items()}
            want = {k: [float(x) for x in v] for k, v in parts.items()}
            if set(got) != set(want) or any(not all(close(a, b, 1e-12) for a, b in zip(got[k], want[k])) for k in got):
                fails.add("C14:natural-not-abundance-sum", "Sample(%r) differs from the abundance-weighted isotopes" % el.symbol, **where)


SAMPLE_FORMULAS = ["Ni[58]Ni4", "Li[6]Li3F4", "DHO", "C3D4H4O", "20%wt Dy[164] // Dy2O3", "Eu[151]Eu", "B[10]B3C",
                   "Cu[63]Cu[65]Cu", "Gd[155]Gd2O3", "Co[59]Co", "Co30Fe70", "NaCl", "H2O", "50%wt Au[197]Au // Ag",
                   "50%vol Co[59]@8.9 // Co@8.9", "In[115]In2O3", "Ag[107]Ag[109]AgCl"]


def direct_samples(fails, rng, n, only=None):
    """all sample formulas, in particular formulas in which the same nuclide arrives more than once (labelled and
    through the natural element): the activation of the whole sample is, product by product, the sum of the
    activations of its mass_fraction constituents activated separately; and it is proportional to the sample mass"""
    from periodictable import core, formulas as _f
    forms = [only["formula"]] if only else SAMPLE_FORMULAS
    for formula in forms:
        for _ in range(n):
            flu, expo, mass = logu(rng, 1e4, 1e15), logu(rng, 1e-2, 1e3), logu(rng, 1e-3, 1e2)
            cd, fast = rng.choice([0.0, 1.0, logu(rng, 1, 1e3)]), rng.choice([0.0, logu(rng, 1, 1e3)])
            if only:
                flu, expo, mass, cd, fast = (only[k] for k in ("fluence", "exposure", "mass", "Cd_ratio", "fast_ratio"))
            env = act.ActivationEnvironment(flu, cd, fast)
            rest = (0, 1, 24, 360)
            where = dict(formula=formula, mass=mass, fluence=flu, Cd_ratio=cd, fast_ratio=fast, exposure=expo, rest_times=list(rest))
            s = act.Sample(formula, mass)
            r = attempt(s.calculate_activation, env, exposure=expo, rest_times=rest)
            if isinstance(r, BaseException):
                fails.add("C14:sample-raises-%s" % type(r).__name__,
                          "Sample(%r).calculate_activation raises %s: %s" % (formula, type(r).__name__, r), observed=repr(r), **where)
                continue
            got = {k: [float(x) for x in v] for k, v in s.activity.items()}
            want, bad = {}, None
            for el, frac in _f.formula(formula).mass_fraction.items():
                if core.isisotope(el):
                    parts = [(el, mass * frac)]
                else:
                    parts = [(el[a], mass * frac * el[a].abundance * 0.01) for a in el.isotopes]
                for iso, m in parts:
                    if not m:
                        continue
                    p = attempt(act.activity, iso, m, env, expo, rest)
                    if isinstance(p, BaseException):
                        bad = p
                        break
                    for k, v in p.items():
                        w = want.setdefault(k, [0.0] * len(rest))
                        want[k] = [a + float(b) for a, b in zip(w, v)]
                if bad:
                    break
            if bad:
                continue
            if set(got) != set(want) or any(not all(close(a, b, 1e-12) for a, b in zip(got[k], want[k])) for k in got):
                k = next((k for k in got if k not in want or not all(close(a, b, 1e-12) for a, b in zip(got[k], want[k]))), None)
                fails.add("C14:sample-not-sum-of-constituents",
                          "Sample(%r): activity of %s is %r, the constituents activated separately give %r"
                          % (formula, (k.isotope + " -> " + k.daughter) if k is not None else "a missing product",
                             got.get(k), want.get(k)), **where)
            # the same sample under the IAEA abundance column of activation.dat (an optional argument of calculate_activation)
            si = act.Sample(formula, mass)
            ri = attempt(si.calculate_activation, env, exposure=expo, rest_times=rest, abundance=act.IAEA1987_isotopic_abundance)
            if not isinstance(ri, BaseException):
                wanti, badi = {}, False
                for el, frac in _f.formula(formula).mass_fraction.items():
                    if core.isisotope(el):
                        partsi = [(el, mass * frac)]
                    else:
                        partsi = [(el[a], mass * frac * (getattr(el[a], "neutron_activation", [None])[0].abundance if getattr(el[a], "neutron_activation", ()) else 0.0) * 0.01)
                                  for a in el.isotopes]
                    for iso_, m_ in partsi:
                        if not m_:
                            continue
                        p_ = attempt(act.activity, iso_, m_, env, expo, rest)
                        if isinstance(p_, BaseException):
                            badi = True
                            break
                        for k_, v_ in p_.items():
                            w_ = wanti.setdefault(k_, [0.0] * len(rest))
                            wanti[k_] = [a_ + float(b_) for a_, b_ in zip(w_, v_)]
                goti = {k_: [float(x) for x in v_] for k_, v_ in si.activity.items()}
                if not badi and (set(goti) != set(wanti) or any(not all(close(a_, b_, 1e-12) for a_, b_ in zip(goti[k_], wanti[k_])) for k_ in goti)):
                    k_ = next((k_ for k_ in goti if k_ not in wanti or not all(close(a_, b_, 1e-12) for a_, b_ in zip(goti[k_], wanti[k_]))), None)
                    fails.add("C14:sample-not-sum-of-constituents:IAEA-abundance",
                              "Sample(%r) with abundance=IAEA1987_isotopic_abundance: activity of %s is %r, the isotopes weighted with the abundance "
                              "column of activation.dat give %r" % (formula, (k_.isotope + " -> " + k_.daughter) if k_ is not None else "a missing product",
                                                                    goti.get(k_), wanti.get(k_)), **where)
            s2 = act.Sample(formula, mass * 4)
            r2 = attempt(s2.calculate_activation, env, exposure=expo, rest_times=rest)
            if isinstance(r2, BaseException) or set(s2.activity) != set(s.activity) or any(
                    not all(close(4 * a, float(b), 1e-12, amp=4) for a, b in zip(got[k], s2.activity[k])) for k in got):
                fails.add("C14:sample-not-linear-in-mass", "Sample(%r) at 4 x mass is not 4 x the activation" % formula, **where)
            # the result describes the calculation just made: the same Sample object calculated again (other exposure,
            # then the first one again) gives what a fresh Sample gives
            r3 = attempt(s.calculate_activation, env, exposure=expo * 3, rest_times=rest)
            r4 = attempt(s.calculate_activation, env, exposure=expo, rest_times=rest)
            if isinstance(r3, BaseException) or isinstance(r4, BaseException) or set(s.activity) != set(got) or any(
                    [float(x) for x in s.activity[k]] != got[k] for k in got):
                k = next((k for k in got if k not in s.activity or [float(x) for x in s.activity[k]] != got[k]), None)
                fails.add("C14:sample-recalculation", "Sample(%r) calculated, calculated for 3 x the exposure, and calculated again as at "
                          "first: activity of %s is %r, a fresh Sample gives %r"
                          % (formula, (k.isotope + " -> " + k.daughter) if k is not None else "a product",
                             [float(x) for x in s.activity.get(k, [])] if k is not None else None, got.get(k)), **where)


LABELS = [("Thermal", "thermalXS"), ("Resonance", "resonance"), ("in hr", "Thalf_hrs"), ("parent", "Thalf_parent"),
          ("thermal", "thermalXS_parent"), ("resonance", "resonance_parent"), ("Abund", "abundance")]


def direct_halflife_columns(fails):
    """every row writes the half-life twice: number + unit (s, m, h, d, y) and hours (the column activity() uses)"""
    import os
    path = os.path.join(os.path.dirname(act.__file__), "activation.dat")
    unit = {"s": (1 / 3600.0, 1 / 3600.0), "m": (1 / 60.0, 1 / 60.0), "h": (1.0, 1.0), "d": (24.0, 24.0), "y": (8760.0, 8766.0)}
    n = 0
    for line in open(path):
        c = line.rstrip("\n").split("\t")
        try:
            int(c[2]); th, hrs = float(c[8]), float(c[17]); lo, hi = unit[c[9]]
        except Exception:  # noqa
            continue
        n += 1
        if not (th * lo * 0.998 <= hrs <= th * hi * 1.002):
            iso = periodictable.elements[int(c[2])][int(c[4])]
            served = [a.Thalf_hrs for a in getattr(iso, "neutron_activation", ()) if a.daughter == c[7] and a.reaction == c[12].strip('"')]
            fails.add("C14:halflife-columns:%s->%s" % (c[5], c[7]),
                      "activation.dat, row %s -> %s (%s): the half-life is written as %s %s but the hours column says %s (= %g %s); "
                      "activity() uses %r hours" % (c[5], c[7], c[12], c[8], c[9], c[17], hrs / lo, c[9], served),
                      isotope=c[5], daughter=c[7], reaction=c[12], Thalf=c[8], unit=c[9], Thalf_hrs=c[17])
    return n


def direct_parent_halflives(fails):
    """'2n' and 'b' rows carry the half-life of the intermediate nuclide (column Thalf_parent): it is the Thalf_hrs of the primary
    row of the same element just above"""
    import os
    path = os.path.join(os.path.dirname(act.__file__), "activation.dat")
    prev = None
    for line in open(path):
        c = line.rstrip("\n").split("\t")
        try:
            int(c[2])
        except Exception:  # noqa
            continue
        reac = c[12].strip('"')
        if reac in ("b", "2n"):
            ok = prev is not None and prev[2] == c[2] and c[19] and float(c[19]) == float(prev[17])
            if not ok:
                fails.add("C14:parent-halflife:%s->%s" % (c[5], c[7]),
                          "activation.dat, row %s -> %s (%s): parent half-life %r h, but the row above (%s -> %s) gives the intermediate "
                          "nuclide %r h" % (c[5], c[7], reac, c[19], prev[5] if prev else None, prev[7] if prev else None, prev[17] if prev else None),
                          isotope=c[5], daughter=c[7], reaction=reac, Thalf_parent=c[19])
        else:
            prev = c


def direct_table(fails):
    """third reading of activation.dat: the file's own header lines say which column is which; every
    record served by the implementation must hold the numbers of the columns so labelled"""
    import os
    path = os.path.join(os.path.dirname(act.__file__), "activation.dat")
    lines = [l.split("\t") for l in open(path).read().split("\n") if l]
    head = [c for c in lines if c[0].strip() in ("", "xx")]
    data = [c for c in lines if c[0].strip() not in ("", "xx")]
    col = {}
    for lab, name in LABELS + [("Z", "Z"), ("A", "A"), ("Nuclide", "daughter")]:
        hits = [i for c in head for i, x in enumerate(c) if x.strip() == lab]
        if len(hits) != 1:
            fails.add("C14:table-header", "header label %r found %d times in activation.dat" % (lab, len(hits)), label=lab)
            return
        col[name] = hits[0]
    seen = {}
    for c in data:
        z, a = int(c[col["Z"]]), int(c[col["A"]])
        j = seen.get((z, a), 0)
        seen[(z, a)] = j + 1
        try:
            ai = periodictable.elements[z][a].neutron_activation[j]
        except Exception as e:  # noqa
            fails.add("C14:table-row-missing", "row %d of %d-%d is not served: %r" % (j, z, a, e), Z=z, A=a, j=j)
            continue
        for lab, name in LABELS:
            txt = c[col[name]]
            txt = txt[1:-1] if txt.startswith('"') else txt
            want = float(txt) if txt.strip() else 0.0
            got = getattr(ai, name, None)
            if got != want:
                fails.add("C14:table-field:%s" % name,
                          "%s of %d-%d -> %s is %r, the column labelled %r of activation.dat says %r"
                          % (name, z, a, ai.daughter, got, lab, want), Z=z, A=a, j=j, field=name, observed=got, expected=want)
    n_served = sum(len(getattr(iso, "neutron_activation", [])) for el in periodictable.elements for iso in el)
    if n_served != len(data):
        fails.add("C14:table-row-count", "%d records served, %d data lines in activation.dat" % (n_served, len(data)))


def main(argv):
    rows = all_rows()
    if argv[1:2] == ["--case"]:
        d = json.loads(argv[2])
        iso = periodictable.elements[d["Z"]][d["A"]]
        j = d["j"]
        ai = iso.neutron_activation[j]
        inp = (d["mass"], d["fluence"], d["Cd_ratio"], d["fast_ratio"], d["exposure"])
        rest = d["rest_times"]
        o = one_row(iso, ai, inp[0], act.ActivationEnvironment(inp[1], inp[2], inp[3]), inp[4], rest)
        fails = Fails()
        direct_case(fails, iso, j, ai, inp, rest, o, random.Random(0), True)
        json.dump(dict(cases=[case_term(iso, j, inp, rest, o)], meta=[describe(iso, j, ai, inp, rest, o)],
                       direct_fails=fails), sys.stdout)
        return
    if argv[1:2] == ["--table"]:
        fails = Fails()
        direct_table(fails)
        json.dump(dict(cases=[], meta=[], direct_fails=fails), sys.stdout)
        return
    if argv[1:2] == ["--sample"]:
        fails = Fails()
        only = json.loads(argv[2])
        direct_elements(fails, random.Random(0), 1, only=only)
        direct_samples(fails, random.Random(0), 1, only=only)
        json.dump(dict(cases=[], meta=[], direct_fails=fails), sys.stdout)
        return
    npts, seed = int(argv[1]), int(argv[2])
    cases, meta, fails = [], [], Fails()
    for k, (iso, j, ai) in enumerate(rows):
        for i in range(npts):
            rng = random.Random(seed * 7919 + k * 1009 + i)
            mass, flu, cd, fast, expo, rest = draw(rng, ai, i)
            inp = (mass, flu, cd, fast, expo)
            o = one_row(iso, ai, mass, act.ActivationEnvironment(flu, cd, fast), expo, rest)
            cases.append(case_term(iso, j, inp, rest, o))
            meta.append(describe(iso, j, ai, inp, rest, o))
            direct_case(fails, iso, j, ai, inp, rest, o, rng, full=(i < 12))
            if ai.fast and fast > 0 and i % 2 == 0:
                # everything the same but the fast ratio: a result must not be taken over from the call just made
                inp2 = (mass, flu, cd, fast * 2.5, expo)
                o2 = one_row(iso, ai, mass, act.ActivationEnvironment(flu, cd, fast * 2.5), expo, rest)
                cases.append(case_term(iso, j, inp2, rest, o2))
                meta.append(describe(iso, j, ai, inp2, rest, o2))
                direct_case(fails, iso, j, ai, inp2, rest, o2, rng, full=False)
    # fixed inputs of the recorded findings (known_findings.jsonl): re-examined on every run whatever the seed
    class FixedFactor(random.Random):
        def choice(self, seq):          # the exposure factor of the monotonicity statement: always 2
            return 2.0 if list(seq) == [1.5, 2.0, 10.0] else random.Random.choice(self, seq)
    WITNESS = [("26-Mg", "Mg-28", "2n", (1.0, 805.0, 0.0, 0.0, 0.087)), ("133-Cs", "Cs-135", "2n", (1.0, 1049.0, 0.0, 0.0, 0.0037)),
               ("175-Lu", "Lu-177", "2n", (1.0, 1e4, 0.0, 0.0, 0.003)), ("144-Sm", "Pm-145", "b", (1.0, 1e8, 0.0, 0.0, 10.0)),
               ("151-Eu", "Gd-152", "b", (1.0, 1e8, 0.0, 0.0, 10.0))]
    for name, daughter, reaction, inp in WITNESS:
        for iso, j, ai in rows:
            if "%d-%s" % (iso.isotope, iso.symbol) == name and ai.daughter == daughter and ai.reaction == reaction:
                rest = [0, 1.0]
                o = one_row(iso, ai, inp[0], act.ActivationEnvironment(inp[1], inp[2], inp[3]), inp[4], rest)
                cases.append(case_term(iso, j, inp, rest, o))
                meta.append(describe(iso, j, ai, inp, rest, o))
                direct_case(fails, iso, j, ai, inp, rest, o, FixedFactor(0), full=True)
                break
    direct_elements(fails, random.Random(seed + 17), 2 if npts <= 10 else 6)
    direct_samples(fails, random.Random(seed + 29), 3 if npts <= 10 else 12)
    direct_table(fails)
    direct_halflife_columns(fails)
    direct_parent_halflives(fails)
    keys = ["%d|%d|%s|%s|%s" % (iso.number, iso.isotope, ai.daughter, ai.reaction, "y" if ai.fast else "n") for iso, j, ai in rows]
    json.dump(dict(cases=cases, meta=meta, direct_fails=fails, nrows=len(rows), row_keys=keys), sys.stdout)


main(sys.argv)
